import Tengo.Proofs.C02CompileOpt
import Tengo.Proofs.C02CompileCheck
/-!
C16 / `tail_pattern_sound`, layer 2: `optimizeFunc` (`Tengo.Model.Optimizer.opt`: dead-code removal, jump
re-targeting, trailing `RETURN 0`) keeps what FOLLOWS a kept instruction.

* `opt_next`: a kept instruction `x` other than RETURN that is followed by `z` in the raw code is followed
  by the image of `z` in the optimized code (same opcode, same non-jump operands), at the new offset
  `n + x.size`;
* `opt_last`: if `x` is the last raw instruction, it is followed by the appended `RETURN 0`.

So `CALL; RETURN 1` stays `CALL; RETURN 1`, `CALL; POP` at the end of a body becomes `CALL; POP; RETURN 0`, and
`CALL; <anything else>` stays `CALL; <the same opcode>`: the optimizer neither creates nor destroys the
tail-call layout of a live call.
-/
set_option linter.unusedVariables false
namespace Tengo.Proofs.C16Compile
open Tengo.Model Tengo.Model.Opcodes Tengo.Model.Optimizer Tengo.Model.Verifier
     Tengo.Proofs.C03 Tengo.Props.C03Sim Tengo.Proofs.C03Reloc Tengo.Proofs.C02Compile
     Tengo.Proofs.C02Compile.OptTransfer

theorem kept_at {is : List Instr} (hl : Layout 0 is) {x : Instr} {n : Nat} (hx : x ∈ is)
    (hn : newPos is x.pos = some n) : (x, n) ∈ layout 0 (kept is) := by
  obtain ⟨x', hx'm, hx'p, hx'l, _⟩ := posmap_dom hn
  have hpw := layout_pairwise hl
  have h1 := fetch_of_pairwise hpw hx'm
  have h2 := fetch_of_pairwise hpw hx
  rw [hx'p, h2] at h1
  have : x' = x := (Option.some.inj h1).symm
  subst this
  exact hx'l

/-- **The optimizer keeps the successor of a kept instruction.** `n` is the new offset of `x`
(`newPos is x.pos = some n` says that `x` is not removed as dead code). -/
theorem opt_next {raw : Bytes} {is : List Instr} {r : Result} {sm : List (Nat × Nat)} {rp : Nat}
    (hdec : decode raw = some is) (hopt : Optimizer.opt raw sm rp = .ok r)
    {x z : Instr} (hx : x ∈ is) (hz : z ∈ is) (hzp : z.pos = x.pos + x.size) (hr : x.op ≠ opReturn)
    {n : Nat} (hn : newPos is x.pos = some n) :
    ∃ y1 ∈ r.insts, ∃ y2 ∈ r.insts, y1.pos = n ∧ y1.op = x.op ∧ (isJump x.op = false → y1.args = x.args) ∧
      y2.pos = n + x.size ∧ y2.op = z.op ∧ (isJump z.op = false → y2.args = z.args) := by
  have h' : optInstrs is raw.length sm rp = .ok r := by simpa [opt, hdec] using hopt
  have hs := optInstrs_ok h'
  have hl : Layout 0 is := Tengo.Proofs.C03.decode_layout hdec
  have hxn := kept_at hl hx hn
  rcases posmap_succ hl hx hn hr with h1 | ⟨h1, _, _⟩
  · rw [← hzp] at h1
    have hzn := kept_at hl hz h1
    refine ⟨_, out_mem hs hxn, _, out_mem hs hzn, rt_pos .., rt_op .., fun h => rt_args_nonjump h,
      rt_pos .., rt_op .., fun h => rt_args_nonjump h⟩
  · exfalso
    have := layout_end hl z hz
    have := size_pos z
    omega

/-- … and the last instruction of the raw body, if kept and not a RETURN, is followed by the appended
`RETURN 0`. -/
theorem opt_last {raw : Bytes} {is : List Instr} {r : Result} {sm : List (Nat × Nat)} {rp : Nat}
    (hdec : decode raw = some is) (hopt : Optimizer.opt raw sm rp = .ok r)
    {x : Instr} (hx : x ∈ is) (hend : x.pos + x.size = raw.length) (hr : x.op ≠ opReturn)
    {n : Nat} (hn : newPos is x.pos = some n) :
    ∃ y1 ∈ r.insts, y1.pos = n ∧ y1.op = x.op ∧ (isJump x.op = false → y1.args = x.args) ∧
      (⟨n + x.size, opReturn, [0]⟩ : Instr) ∈ r.insts := by
  have h' : optInstrs is raw.length sm rp = .ok r := by simpa [opt, hdec] using hopt
  have hs := optInstrs_ok h'
  have hl : Layout 0 is := Tengo.Proofs.C03.decode_layout hdec
  have hxn := kept_at hl hx hn
  refine ⟨_, out_mem hs hxn, rt_pos .., rt_op .., fun h => rt_args_nonjump h, ?_⟩
  rcases posmap_succ hl hx hn hr with h1 | ⟨_, h2, h3⟩
  · exfalso
    rw [hend] at h1
    have hnone := lookup_end_none hdec
    have h1' : (posMap (kept is)).lookup raw.length = some (n + x.size) := h1
    rw [hnone] at h1'
    cases h1'
  · have ha := hs.app_last x h3 hr
    have hm := ret_mem hs ha
    have h2' : n + x.size = totalSize (kept is) := h2
    rw [h2']
    exact hm

/-- The opcode byte of an instruction of the optimized code. -/
theorem opt_byte {raw : Bytes} {is : List Instr} {r : Result} {sm : List (Nat × Nat)} {rp : Nat}
    (hdec : decode raw = some is) (hlen : raw.length < 2 ^ 32) (hopt : Optimizer.opt raw sm rp = .ok r)
    {y : Instr} (hy : y ∈ r.insts) : (r.bytes.getD y.pos 0).toNat = y.op := by
  have h' : optInstrs is raw.length sm rp = .ok r := by simpa [opt, hdec] using hopt
  exact opbyte_at (out_decode hdec hlen h') hy

/-- **`CALL; RETURN` survives the optimizer, byte for byte.** If the raw code has a kept `CALL` at `x.pos`
directly followed by a `RETURN`, the optimized bytes have the CALL opcode at the new offset `n` and the
RETURN opcode at `n + 3` — what `vm.go`'s OpCall peeks at. -/
theorem opt_call_ret_bytes {raw : Bytes} {is : List Instr} {r : Result} {sm : List (Nat × Nat)} {rp : Nat}
    (hdec : decode raw = some is) (hlen : raw.length < 2 ^ 32) (hopt : Optimizer.opt raw sm rp = .ok r)
    {x z : Instr} (hx : x ∈ is) (hz : z ∈ is) (hzp : z.pos = x.pos + x.size) (hxo : x.op = opCall)
    (hzo : z.op = opReturn) {n : Nat} (hn : newPos is x.pos = some n) :
    (r.bytes.getD n 0).toNat = opCall ∧ (r.bytes.getD (n + 3) 0).toNat = opReturn := by
  obtain ⟨y1, hy1, y2, hy2, hp1, ho1, _, hp2, ho2, _⟩ :=
    opt_next hdec hopt hx hz hzp (by rw [hxo]; decide) hn
  have b1 := opt_byte hdec hlen hopt hy1
  have b2 := opt_byte hdec hlen hopt hy2
  have hsz : x.size = 3 := call_size hxo
  rw [hp1, ho1, hxo] at b1
  rw [hp2, ho2, hzo, hsz] at b2
  exact ⟨b1, b2⟩

/-- **`CALL; POP` at the end of a body becomes `CALL; POP; RETURN 0`.** -/
theorem opt_call_pop_end_bytes {raw : Bytes} {is : List Instr} {r : Result} {sm : List (Nat × Nat)} {rp : Nat}
    (hdec : decode raw = some is) (hlen : raw.length < 2 ^ 32) (hopt : Optimizer.opt raw sm rp = .ok r)
    {x z : Instr} (hx : x ∈ is) (hz : z ∈ is) (hzp : z.pos = x.pos + x.size) (hxo : x.op = opCall)
    (hzo : z.op = opPop) (hend : z.pos + z.size = raw.length) {n : Nat} (hn : newPos is x.pos = some n) :
    (r.bytes.getD n 0).toNat = opCall ∧ (r.bytes.getD (n + 3) 0).toNat = opPop ∧
      (r.bytes.getD (n + 4) 0).toNat = opReturn := by
  have h' : optInstrs is raw.length sm rp = .ok r := by simpa [opt, hdec] using hopt
  have hl : Layout 0 is := Tengo.Proofs.C03.decode_layout hdec
  obtain ⟨y1, hy1, y2, hy2, hp1, ho1, _, hp2, ho2, _⟩ :=
    opt_next hdec hopt hx hz hzp (by rw [hxo]; decide) hn
  have hsz : x.size = 3 := call_size hxo
  have hzs : z.size = 1 := by
    obtain ⟨pos, op, args⟩ := z
    simp only at hzo; subst hzo; rfl
  have hzn : newPos is z.pos = some (n + 3) := by
    rcases posmap_succ hl hx hn (by rw [hxo]; decide) with h1 | ⟨h1, _, _⟩
    · rw [hzp, ← hsz]; exact h1
    · exfalso
      have := layout_end hl z hz
      have := size_pos z
      omega
  obtain ⟨y3, hy3, hp3, ho3, _, hret⟩ := opt_last hdec hopt hz hend (by rw [hzo]; decide) hzn
  have b1 := opt_byte hdec hlen hopt hy1
  have b2 := opt_byte hdec hlen hopt hy2
  have b3 := opt_byte hdec hlen hopt hret
  rw [hp1, ho1, hxo] at b1
  rw [hp2, ho2, hzo, hsz] at b2
  rw [hzs] at b3
  exact ⟨b1, b2, b3⟩

end Tengo.Proofs.C16Compile

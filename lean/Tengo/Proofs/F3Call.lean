import Tengo.Proofs.F3Expr2
/-!
Fragment F3, proof layer 3: the invariants of statements (`GoodS`, `OkS`, `OkSs`), argument lists, the call
expression, and the call proper: frame push, the body (by the statement hypothesis one fuel below), `RET`.
-/
set_option linter.unusedSimpArgs false
set_option linter.unusedVariables false
namespace Tengo.Model.F3
open Tengo.Model.F0 (Sem upd)
variable {V : Type}

/-- `stk'` agrees with `stk` below `sp` outside the frame's local slots. -/
def Same (nl bp sp : Nat) (stk stk' : Nat → V) : Prop :=
  ∀ i, i < sp → (i < bp ∨ bp + nl ≤ i) → stk' i = stk i

theorem Same.refl (nl bp sp : Nat) (stk : Nat → V) : Same nl bp sp stk stk := fun _ _ _ => rfl

theorem Same.trans {nl bp sp : Nat} {a b c : Nat → V} (h1 : Same nl bp sp a b) (h2 : Same nl bp sp b c) :
    Same nl bp sp a c := fun i hi hc => by rw [h2 i hi hc]; exact h1 i hi hc

theorem Same.of_below {nl bp sp : Nat} {a b : Nat → V} (h : ∀ i, i < sp → b i = a i) : Same nl bp sp a b :=
  fun i hi _ => h i hi

/-- The machine reaches `ip` in the same frame with the same `sp`, globals `g'`, the locals `l'` in the
frame's slots and the rest of the stack below `sp` untouched. -/
def Landed (E : Env V) (M : Mach) (s : St V) (nl ip : Nat) (g' : Nat → V) (l' : Locals V) : Prop :=
  ∃ stk', Runs E M s ⟨s.fn, ip, s.bp, s.sp, stk', g', s.dis, s.callers⟩ ∧ LocRel nl l' stk' s.bp ∧
    Same nl s.bp s.sp s.stk stk'

/-- The machine, started in `s`, does what the result of the reference semantics says: normal end at `fin` —
OR, when the statement (list) ended in a self tail call that discards its result (`f(x)` directly followed by a
`RET` at `fin`), the reused frame has already returned undefined to its caller, as that `RET` would have —,
`break` at `bt`, `continue` at `ct`; `return`: the caller continues with the result in the callee slot
`bp - 1` (undefined when the frame is marked `dis`), `sp = bp`, everything below untouched; or a run-time
error. -/
def GoodS (E : Env V) (M : Mach) (code : List Ins) (s : St V) (nl fin bt ct : Nat) : Res V → Prop
  | .done g' l' => Landed E M s nl fin g' l' ∨ (retNext code fin = true ∧ Returned E M s E.S.undef g')
  | .brk g' l' => Landed E M s nl bt g' l'
  | .cont g' l' => Landed E M s nl ct g' l'
  | .ret v g' => Returned E M s (if s.dis then E.S.undef else v) g'
  | .err => Fails E M s
  | .out => True
  | .bad => True

def OkS (E : Env V) (P : Prog) (f : Nat) (c : Stm) : Prop :=
  ∀ (g : Nat → V) (l : Locals V) (fn : Nat) (code : List Ins) (nl bt ct off bp sp : Nat) (stk : Nat → V)
    (dis : Bool) (cl : List Frame),
    (compProg P).code fn = some code → FrameOk P fn nl → At code off (compS bt ct off c) →
    slotsS nl c = true → LocRel nl l stk bp → bp + nl ≤ sp →
    GoodS E (compProg P) code ⟨fn, off, bp, sp, stk, g, dis, cl⟩ nl (off + ssize c) bt ct (execS E P f c g l)

def OkSs (E : Env V) (P : Prog) (f : Nat) (c : Stms) : Prop :=
  ∀ (g : Nat → V) (l : Locals V) (fn : Nat) (code : List Ins) (nl bt ct off bp sp : Nat) (stk : Nat → V)
    (dis : Bool) (cl : List Frame),
    (compProg P).code fn = some code → FrameOk P fn nl → At code off (compSs bt ct off c) →
    slotsSs nl c = true → LocRel nl l stk bp → bp + nl ≤ sp →
    GoodS E (compProg P) code ⟨fn, off, bp, sp, stk, g, dis, cl⟩ nl (off + sssize c) bt ct (execSs E P f c g l)

section cases
variable {E : Env V} {P : Prog}

/-- Where the code of an argument list starts the tail-call test fails if it fails after the list. -/
theorem tailNext_compEs {code : List Ins} {p : Nat} {es : Exs} (h : At code p (compEs p es))
    (ht : tailNext code (p + essize es) = false) : tailNext code p = false := by
  cases es with
  | nil => simpa [essize] using ht
  | cons e es => exact tailNext_comp (rest := compEs (p + esize e) es) (by simpa [compEs] using h)

theorem okEs_nil (f : Nat) : OkEs E P (f + 1) .nil := by
  intro g l fn code nl off bp sp stk dis cl hc hnt hat htl hl hsp
  simp only [evalEs]
  exact ⟨stk, (Runs.refl _ _ _).of_eq (by simp [essize, Exs.len]), rfl, fun j v hj => by simp at hj,
    fun _ _ => rfl⟩

theorem okEs_cons (f : Nat) (e : Ex) (es : Exs) (ihe : OkE E P f e) (ihes : OkEs E P f es) :
    OkEs E P (f + 1) (.cons e es) := by
  intro g l fn code nl off bp sp stk dis cl hc hnt hat htl hl hsp
  have hA : At code off (comp off e ++ compEs (off + esize e) es) := by simpa [compEs] using hat
  have h1 := ihe g l fn code nl off bp sp stk dis cl hc hnt hA.left hl hsp
  have hB : At code (off + esize e) (compEs (off + esize e) es) := hA.right (by rw [csize_comp])
  have htl' : tailNext code (off + esize e + essize es) = false := by
    simpa [essize, Nat.add_assoc] using htl
  simp only [evalEs]
  cases ha : evalE E P f e g l with
  | val v g1 =>
    rw [ha] at h1
    obtain ⟨stk1, hr1, hv, hs1⟩ := h1.normal (tailNext_compEs hB htl')
    dsimp only at hr1 hs1 ⊢
    have h2 := ihes g1 l fn code nl (off + esize e) bp (sp + 1) stk1 dis cl hc hnt hB htl'
      (hl.frame hsp hs1) (by omega)
    cases hb : evalEs E P f es g1 l with
    | vals vs g2 =>
      rw [hb] at h2
      obtain ⟨stk2, hr2, hlen, hvs, hs2⟩ := h2
      dsimp only at hr2 hvs hs2 ⊢
      refine ⟨stk2, (hr1.trans hr2).of_eq (by simp [essize, Exs.len]; omega), by simp [hlen, Exs.len], ?_, ?_⟩
      · intro j w hj
        dsimp only
        cases j with
        | zero =>
          simp only [List.getElem?_cons_zero, Option.some.injEq] at hj
          rw [Nat.add_zero, hs2 sp (by omega), hv, hj]
        | succ j =>
          simp only [List.getElem?_cons_succ] at hj
          have := hvs j w hj
          rw [← this]; congr 1; omega
      · intro i hi; dsimp only at hi ⊢; rw [hs2 i (by omega)]; exact hs1 i hi
    | err => rw [hb] at h2; exact hr1.fails h2
    | out => trivial
    | bad => trivial
  | err => rw [ha] at h1; exact h1
  | out => trivial
  | bad => trivial

theorem okE_call (f : Nat) (fe : Ex) (args : Exs) (ihf : OkE E P f fe) (iha : OkEs E P f args)
    (ihc : OkCall E P f) : OkE E P (f + 1) (.call fe args) := by
  intro g l fn code nl off bp sp stk dis cl hc hnt hat hl hsp
  have hA : At code off (comp off fe ++ compEs (off + esize fe) args ++ [Ins.call args.len]) := by
    simpa [comp] using hat
  have h1 := ihf g l fn code nl off bp sp stk dis cl hc hnt hA.left.left hl hsp
  have hfc := (hA.right (off' := off + esize fe + essize args)
    (by simp [csize_append, csize_comp, csize_compEs] <;> omega)).fetch
  have htl : tailNext code (off + esize fe + essize args) = false := tailNext_of_fetch hfc rfl
  have hB : At code (off + esize fe) (compEs (off + esize fe) args) := hA.left.right (by rw [csize_comp])
  simp only [evalE]
  cases ha : evalE E P f fe g l with
  | val fv g1 =>
    rw [ha] at h1
    obtain ⟨stk1, hr1, hv, hs1⟩ := h1.normal (tailNext_compEs hB htl)
    dsimp only at hr1 hs1 ⊢
    have h2 := iha g1 l fn code nl (off + esize fe) bp (sp + 1) stk1 dis cl hc hnt hB htl
      (hl.frame hsp hs1) (by omega)
    cases hb : evalEs E P f args g1 l with
    | vals vs g2 =>
      rw [hb] at h2
      obtain ⟨stk2, hr2, hlen, hvs, hs2⟩ := h2
      dsimp only at hr2 hvs hs2 ⊢
      have h3 := ihc fv vs g2 fn code nl (off + esize fe + essize args) bp sp stk2 dis cl hc hnt hsp
        (by rw [hlen]; exact hfc) (by rw [hs2 sp (by omega)]; exact hv) hvs
      rw [hlen] at h3
      have h4 := GoodE.pre (s := ⟨fn, off, bp, sp, stk, g, dis, cl⟩) (hr1.trans hr2)
        (fun i hi => by rw [hs2 i (by omega)]; exact hs1 i hi) (by dsimp only; omega) h3
      have he : off + esize fe + essize args + 3 = off + esize (.call fe args) := by simp [esize]; omega
      rw [he] at h4; exact h4
    | err => rw [hb] at h2; exact hr1.fails h2
    | out => trivial
    | bad => trivial
  | err => rw [ha] at h1; exact h1
  | out => trivial
  | bad => trivial

theorem code_fn {k : Nat} {fd : FnDef} (h : P.fns k = some fd) :
    (compProg P).code (k + 1) = some (compFn fd).code := by
  simp [compProg, Mach.code, h]

theorem fns_fn {k : Nat} {fd : FnDef} (h : P.fns k = some fd) : (compProg P).fns k = some (compFn fd) := by
  simp [compProg, h]

theorem locRel_bind {nl slot : Nat} {vs : List V} {stk : Nat → V} (hn : vs.length ≤ nl)
    (hargs : ∀ j v, vs[j]? = some v → stk (slot + 1 + j) = v) : LocRel nl (bindArgs vs) stk (slot + 1) := by
  intro i v hi
  simp only [bindArgs] at hi
  refine ⟨?_, hargs i v hi⟩
  have : i < vs.length := by
    rcases Nat.lt_or_ge i vs.length with h | h
    · exact h
    · rw [List.getElem?_eq_none h] at hi; cases hi
  omega

theorem locRel_copy {nl bp slot : Nat} {vs : List V} {stk : Nat → V} (hn : vs.length ≤ nl)
    (hslot : bp + nl ≤ slot) (hargs : ∀ j v, vs[j]? = some v → stk (slot + 1 + j) = v) :
    LocRel nl (bindArgs vs) (copyArgs stk bp (slot + 1) vs.length vs.length) bp := by
  intro i v hi
  simp only [bindArgs] at hi
  have hlt : i < vs.length := by
    rcases Nat.lt_or_ge i vs.length with h | h
    · exact h
    · rw [List.getElem?_eq_none h] at hi; cases hi
  refine ⟨by omega, ?_⟩
  rw [copyArgs_all stk bp (slot + 1) vs.length (by omega), if_pos (by omega)]
  have : slot + 1 + (bp + i - bp) = slot + 1 + i := by omega
  rw [this]
  exact hargs i v hi

theorem okCall_succ (hP : ProgOk P) (f : Nat) (ihs : ∀ ss, OkSs E P f ss) : OkCall E P (f + 1) := by
  intro fv vs g fn code nl ip bp slot stk dis cl hc hnt hslot hf hfv hargs
  simp only [callFn]
  cases hk : E.asFn fv with
  | none =>
    exact Fails.step (step_call_notfn hc hf (by rw [hfv]; exact hk))
  | some k =>
    dsimp only
    cases hfd : P.fns k with
    | none => trivial
    | some fd =>
      dsimp only
      have hok := hP.fns k fd hfd
      have hcode : (compFn fd).code = compSs 0 0 0 fd.body ++ [Ins.ret false] := rfl
      have hfr : fetch (compFn fd).code (0 + sssize fd.body) = some (Ins.ret false) := by
        rw [hcode]
        have := At.suffix (compSs 0 0 0 fd.body) [Ins.ret false]
        rw [csize_compSs] at this
        simpa using this.fetch
      have hfro : FrameOk P (k + 1) fd.nlocals := by
        intro k' fd' hk' hfd'
        have : k = k' := by omega
        subst this
        rw [hfd] at hfd'
        cases hfd'; rfl
      by_cases hn : vs.length = fd.nparams
      · rw [if_neg (by simpa using hn)]
        by_cases htail : (fn == k + 1 && tailNext code (ip + 3)) = true
        · -- self tail call: the frame is reused
          simp only [Bool.and_eq_true, beq_iff_eq] at htail
          obtain ⟨hfn, htn⟩ := htail
          subst hfn
          have hce : code = (compFn fd).code := by
            have := code_fn (P := P) hfd
            rw [hc] at this
            exact Option.some.inj this
          subst hce
          have hnl : nl = fd.nlocals := hnt k fd rfl hfd
          subst hnl
          have hst := step_call_tail (E := E) (bp := bp) (g := g) (dis := dis) (cl := cl) (stk := stk) hc hf
            (by rw [hfv]; exact hk) (fns_fn hfd) (by simpa [compFn] using hn) (by simp [htn])
          have hb := ihs fd.body g (bindArgs vs) (k + 1) (compFn fd).code fd.nlocals 0 0 0 bp slot
            (copyArgs stk bp (slot + 1) vs.length vs.length) (dis || nextIsPop (compFn fd).code (ip + 3)) cl
            hc hfro (by rw [hcode]; exact At.prefix _ _) hok.slots
            (locRel_copy (by rw [hn]; exact hok.params) hslot hargs) hslot
          have hbelow : ∀ i, i < bp - 1 → copyArgs stk bp (slot + 1) vs.length vs.length i = stk i := by
            intro i hi
            rw [copyArgs_all stk bp (slot + 1) vs.length (by have := hok.params; omega), if_neg (by omega)]
          cases hr : execSs E P f fd.body g (bindArgs vs) with
          | done g' l' =>
            rw [hr] at hb
            refine Or.inr ⟨htn, ?_⟩
            dsimp only
            refine Returned.pre (s := ⟨k + 1, ip, bp, slot + 1 + vs.length, stk, g, dis, cl⟩)
              (Runs.step hst) hbelow ?_
            have hundef : (if (dis || nextIsPop (compFn fd).code (ip + 3)) = true then E.S.undef else E.S.undef)
                = E.S.undef := by split <;> rfl
            rw [hundef]
            rcases hb with ⟨stk', hrun, _, hsame⟩ | ⟨_, hret⟩
            · dsimp only at hrun hsame
              cases cl with
              | nil => trivial
              | cons c rest =>
                have hst2 := step_ret0 (E := E) (bp := bp) (sp := slot) (g := g')
                  (dis := dis || nextIsPop (compFn fd).code (ip + 3)) (cl := rest) (c := c) (stk := stk') hc hfr
                refine ⟨upd stk' (bp - 1) E.S.undef, hrun.trans (Runs.step hst2), by simp [upd], ?_⟩
                intro i hi
                dsimp only at hi ⊢
                simp only [upd]
                rw [if_neg (by omega)]
                exact hsame i (by omega) (Or.inl (by omega))
            · exact hret
          | ret v g' =>
            rw [hr] at hb
            refine Or.inr ⟨htn, ?_⟩
            dsimp only
            exact Returned.pre (s := ⟨k + 1, ip, bp, slot + 1 + vs.length, stk, g, dis, cl⟩)
              (Runs.step hst) hbelow hb
          | brk _ _ => trivial
          | cont _ _ => trivial
          | err => rw [hr] at hb; exact (Runs.step hst).fails hb
          | out => trivial
          | bad => trivial
        · -- a new frame
          have htail' : (fn == k + 1 && tailNext code (ip + 3)) = false := by
            simpa using htail
          have hst := step_call_push (E := E) (bp := bp) (g := g) (dis := dis) (cl := cl) (stk := stk) hc hf
            (by rw [hfv]; exact hk) (fns_fn hfd) (by simpa [compFn] using hn) htail'
          have hb := ihs fd.body g (bindArgs vs) (k + 1) (compFn fd).code fd.nlocals 0 0 0 (slot + 1)
            (slot + 1 + fd.nlocals) stk false (⟨fn, ip + 3, bp, dis⟩ :: cl) (code_fn hfd) hfro
            (by rw [hcode]; exact At.prefix _ _) hok.slots
            (locRel_bind (by rw [hn]; exact hok.params) hargs) (Nat.le_refl _)
          have hnl : (compFn fd).nlocals = fd.nlocals := rfl
          rw [hnl] at hst
          cases hr : execSs E P f fd.body g (bindArgs vs) with
          | done g' l' =>
            rw [hr] at hb
            rcases hb with ⟨stk', hrun, _, hsame⟩ | ⟨_, hret⟩
            · dsimp only at hrun hsame ⊢
              have hst2 := step_ret0 (E := E) (bp := slot + 1) (sp := slot + 1 + fd.nlocals) (g := g')
                (dis := false) (cl := cl) (c := ⟨fn, ip + 3, bp, dis⟩) (stk := stk') (code_fn hfd) hfr
              refine Or.inl ⟨upd stk' (slot + 1 - 1) E.S.undef,
                ((Runs.step hst).trans hrun).trans (Runs.step hst2), ?_, ?_⟩
              · simp [upd]
              · intro i hi
                simp only [upd]
                rw [if_neg (by omega)]
                exact hsame i (by omega) (Or.inl (by omega))
            · obtain ⟨stk', hrun, hv, hs⟩ := hret
              dsimp only at hrun hv hs ⊢
              refine Or.inl ⟨stk', (Runs.step hst).trans hrun, ?_, ?_⟩
              · simpa using hv
              · intro i hi; exact hs i (by omega)
          | ret v g' =>
            rw [hr] at hb
            obtain ⟨stk', hrun, hv, hs⟩ := hb
            dsimp only at hrun hv hs ⊢
            refine Or.inl ⟨stk', (Runs.step hst).trans hrun, ?_, ?_⟩
            · simpa using hv
            · intro i hi; exact hs i (by omega)
          | brk _ _ => trivial
          | cont _ _ => trivial
          | err => rw [hr] at hb; exact (Runs.step hst).fails hb
          | out => trivial
          | bad => trivial
      · rw [if_pos (by simpa using hn)]
        exact Fails.step (step_call_argc hc hf (by rw [hfv]; exact hk) (fns_fn hfd) (by simpa [compFn] using hn))

end cases

end Tengo.Model.F3

import Tengo.Proofs.VMFrames
import Tengo.Proofs.VMSafeSimple
import Tengo.Gen.AllocSites
/-!
Which dispatches the whole-VM model reports as tracked allocations, opcode by opcode, for every state —
and that this is the set of opcodes with an `allocs--` site in vm.go (table regenerated on every run).
-/
namespace Tengo.Model.VM
open Tengo.Model.Spec Tengo.Model.Opcodes

macro "alloc_walk" : tactic => `(tactic| repeat' (first
  | with_reducible apply PostX_rtE | with_reducible apply PostX_unsupE | with_reducible apply PostX_panicE
  | with_reducible apply PostX_fault
  | (with_reducible apply PostX_bind'; intro _)
  | (with_reducible apply PostX_pure; rfl)
  | split))

section
variable (code : Code) (fr : Frame) (a0 a1 : Nat) (op : Nat) (r : Regs)

theorem exConstant_noalloc : PostX (exConstant code fr a0 a1 op r) (fun o => o.alloc = false) := by
  unfold exConstant; (try dsimp only); alloc_walk

theorem exNull_noalloc : PostX (exNull code fr a0 a1 op r) (fun o => o.alloc = false) := by
  unfold exNull; (try dsimp only); alloc_walk

theorem exTrue_noalloc : PostX (exTrue code fr a0 a1 op r) (fun o => o.alloc = false) := by
  unfold exTrue; (try dsimp only); alloc_walk

theorem exFalse_noalloc : PostX (exFalse code fr a0 a1 op r) (fun o => o.alloc = false) := by
  unfold exFalse; (try dsimp only); alloc_walk

theorem exPop_noalloc : PostX (exPop code fr a0 a1 op r) (fun o => o.alloc = false) := by
  unfold exPop; (try dsimp only); alloc_walk

theorem exEqual_noalloc : PostX (exEqual code fr a0 a1 op r) (fun o => o.alloc = false) := by
  unfold exEqual; (try dsimp only); alloc_walk

theorem exLNot_noalloc : PostX (exLNot code fr a0 a1 op r) (fun o => o.alloc = false) := by
  unfold exLNot; (try dsimp only); alloc_walk

theorem exJumpFalsy_noalloc : PostX (exJumpFalsy code fr a0 a1 op r) (fun o => o.alloc = false) := by
  unfold exJumpFalsy; (try dsimp only); alloc_walk

theorem exAndJump_noalloc : PostX (exAndJump code fr a0 a1 op r) (fun o => o.alloc = false) := by
  unfold exAndJump; (try dsimp only); alloc_walk

theorem exOrJump_noalloc : PostX (exOrJump code fr a0 a1 op r) (fun o => o.alloc = false) := by
  unfold exOrJump; (try dsimp only); alloc_walk

theorem exJump_noalloc : PostX (exJump code fr a0 a1 op r) (fun o => o.alloc = false) := by
  unfold exJump; (try dsimp only); alloc_walk

theorem exSetGlobal_noalloc : PostX (exSetGlobal code fr a0 a1 op r) (fun o => o.alloc = false) := by
  unfold exSetGlobal; (try dsimp only); alloc_walk

theorem exGetGlobal_noalloc : PostX (exGetGlobal code fr a0 a1 op r) (fun o => o.alloc = false) := by
  unfold exGetGlobal; (try dsimp only); alloc_walk

theorem exSetSelGlobal_noalloc : PostX (exSetSelGlobal code fr a0 a1 op r) (fun o => o.alloc = false) := by
  unfold exSetSelGlobal; (try dsimp only); alloc_walk

theorem exIndex_noalloc : PostX (exIndex code fr a0 a1 op r) (fun o => o.alloc = false) := by
  unfold exIndex; (try dsimp only); alloc_walk

theorem exDefineLocal_noalloc : PostX (exDefineLocal code fr a0 a1 op r) (fun o => o.alloc = false) := by
  unfold exDefineLocal; (try dsimp only); alloc_walk

theorem exSetLocal_noalloc : PostX (exSetLocal code fr a0 a1 op r) (fun o => o.alloc = false) := by
  unfold exSetLocal; (try dsimp only); alloc_walk

theorem exSetSelLocal_noalloc : PostX (exSetSelLocal code fr a0 a1 op r) (fun o => o.alloc = false) := by
  unfold exSetSelLocal; (try dsimp only); alloc_walk

theorem exGetLocal_noalloc : PostX (exGetLocal code fr a0 a1 op r) (fun o => o.alloc = false) := by
  unfold exGetLocal; (try dsimp only); alloc_walk

theorem exGetBuiltin_noalloc : PostX (exGetBuiltin code fr a0 a1 op r) (fun o => o.alloc = false) := by
  unfold exGetBuiltin; (try dsimp only); alloc_walk

theorem exGetFreePtr_noalloc : PostX (exGetFreePtr code fr a0 a1 op r) (fun o => o.alloc = false) := by
  unfold exGetFreePtr; (try dsimp only); alloc_walk

theorem exGetFree_noalloc : PostX (exGetFree code fr a0 a1 op r) (fun o => o.alloc = false) := by
  unfold exGetFree; (try dsimp only); alloc_walk

theorem exSetFree_noalloc : PostX (exSetFree code fr a0 a1 op r) (fun o => o.alloc = false) := by
  unfold exSetFree; (try dsimp only); alloc_walk

theorem exGetLocalPtr_noalloc : PostX (exGetLocalPtr code fr a0 a1 op r) (fun o => o.alloc = false) := by
  unfold exGetLocalPtr; (try dsimp only); alloc_walk

theorem exSetSelFree_noalloc : PostX (exSetSelFree code fr a0 a1 op r) (fun o => o.alloc = false) := by
  unfold exSetSelFree; (try dsimp only); alloc_walk

theorem exIteratorNext_noalloc : PostX (exIteratorNext code fr a0 a1 op r) (fun o => o.alloc = false) := by
  unfold exIteratorNext; (try dsimp only); alloc_walk

theorem exIteratorKey_noalloc : PostX (exIteratorKey code fr a0 a1 op r) (fun o => o.alloc = false) := by
  unfold exIteratorKey; (try dsimp only); alloc_walk

theorem exBinaryOp_alloc : PostX (exBinaryOp code fr a0 a1 op r) (fun o => o.alloc = true) := by
  unfold exBinaryOp; (try dsimp only); alloc_walk

theorem exBComplement_alloc : PostX (exBComplement code fr a0 a1 op r) (fun o => o.alloc = true) := by
  unfold exBComplement; (try dsimp only); alloc_walk

theorem exMinus_alloc : PostX (exMinus code fr a0 a1 op r) (fun o => o.alloc = true) := by
  unfold exMinus; (try dsimp only); alloc_walk

theorem exArray_alloc : PostX (exArray code fr a0 a1 op r) (fun o => o.alloc = true) := by
  unfold exArray; (try dsimp only); alloc_walk

theorem exMap_alloc : PostX (exMap code fr a0 a1 op r) (fun o => o.alloc = true) := by
  unfold exMap; (try dsimp only); alloc_walk

theorem exError_alloc : PostX (exError code fr a0 a1 op r) (fun o => o.alloc = true) := by
  unfold exError; (try dsimp only); alloc_walk

theorem exSliceIndex_alloc : PostX (exSliceIndex code fr a0 a1 op r) (fun o => o.alloc = true) := by
  unfold exSliceIndex; (try dsimp only); alloc_walk

theorem exClosure_alloc : PostX (exClosure code fr a0 a1 op r) (fun o => o.alloc = true) := by
  unfold exClosure; (try dsimp only); alloc_walk

theorem exIteratorInit_alloc : PostX (exIteratorInit code fr a0 a1 op r) (fun o => o.alloc = true) := by
  unfold exIteratorInit; (try dsimp only); alloc_walk

/-- IMMUT allocates exactly when it wraps an array or a map; otherwise it leaves the registers alone. -/
theorem exImmutable_alloc : PostX (exImmutable code fr a0 a1 op r) (fun o => o.alloc = true ∨ (o.alloc = false ∧ o.regs = r)) := by
  unfold exImmutable; (try dsimp only)
  repeat' (first
    | with_reducible apply PostX_rtE | with_reducible apply PostX_unsupE | with_reducible apply PostX_fault
    | (with_reducible apply PostX_bind'; intro _)
    | (with_reducible apply PostX_pure; first | exact Or.inl rfl | exact Or.inr ⟨rfl, rfl⟩)
    | split)

end

/-- A call allocates exactly when the callee is a builtin (the result object); calls of compiled
functions, tail calls and returns do not. -/
theorem execReturn_noalloc (a0 : Nat) (c : Core) :
    PostX (execReturn a0 c) (fun o => ∀ c' a, o = .next c' a → a = false) := by
  unfold execReturn; (try dsimp only)
  repeat' (first
    | with_reducible apply PostX_fault
    | (with_reducible apply PostX_bind'; intro _)
    | (with_reducible apply PostX_pure; intro c' a h; cases h; rfl)
    | split)


/-- Numbers of the non-call opcodes the model may report as allocating. -/
def simpleAllocOps : List Nat := [opBinaryOp, opBComplement, opMinus, opArray, opMap, opError, opImmutable, opSliceIndex, opClosure, opIteratorInit]

/-- **No other simple instruction is ever counted.** -/
theorem execSimple_noalloc (code : Code) (fr : Frame) (a0 a1 : Nat) (op : Nat) (r : Regs)
    (hop : op ∉ simpleAllocOps) : PostX (execSimple code fr a0 a1 op r) (fun o => o.alloc = false) := by
  by_cases hConstant : op = opConstant
  · subst hConstant; rw [execSimple_Constant]; exact exConstant_noalloc code fr a0 a1 _ r
  by_cases hNull : op = opNull
  · subst hNull; rw [execSimple_Null]; exact exNull_noalloc code fr a0 a1 _ r
  by_cases hTrue : op = opTrue
  · subst hTrue; rw [execSimple_True]; exact exTrue_noalloc code fr a0 a1 _ r
  by_cases hFalse : op = opFalse
  · subst hFalse; rw [execSimple_False]; exact exFalse_noalloc code fr a0 a1 _ r
  by_cases hPop : op = opPop
  · subst hPop; rw [execSimple_Pop]; exact exPop_noalloc code fr a0 a1 _ r
  by_cases hBinaryOp : op = opBinaryOp
  · subst hBinaryOp; exact absurd (by decide) hop
  by_cases hEqual : op = opEqual
  · subst hEqual; rw [execSimple_Equal]; exact exEqual_noalloc code fr a0 a1 _ r
  by_cases hNotEqual : op = opNotEqual
  · subst hNotEqual; rw [execSimple_NotEqual]; exact exEqual_noalloc code fr a0 a1 _ r
  by_cases hLNot : op = opLNot
  · subst hLNot; rw [execSimple_LNot]; exact exLNot_noalloc code fr a0 a1 _ r
  by_cases hBComplement : op = opBComplement
  · subst hBComplement; exact absurd (by decide) hop
  by_cases hMinus : op = opMinus
  · subst hMinus; exact absurd (by decide) hop
  by_cases hJumpFalsy : op = opJumpFalsy
  · subst hJumpFalsy; rw [execSimple_JumpFalsy]; exact exJumpFalsy_noalloc code fr a0 a1 _ r
  by_cases hAndJump : op = opAndJump
  · subst hAndJump; rw [execSimple_AndJump]; exact exAndJump_noalloc code fr a0 a1 _ r
  by_cases hOrJump : op = opOrJump
  · subst hOrJump; rw [execSimple_OrJump]; exact exOrJump_noalloc code fr a0 a1 _ r
  by_cases hJump : op = opJump
  · subst hJump; rw [execSimple_Jump]; exact exJump_noalloc code fr a0 a1 _ r
  by_cases hSetGlobal : op = opSetGlobal
  · subst hSetGlobal; rw [execSimple_SetGlobal]; exact exSetGlobal_noalloc code fr a0 a1 _ r
  by_cases hGetGlobal : op = opGetGlobal
  · subst hGetGlobal; rw [execSimple_GetGlobal]; exact exGetGlobal_noalloc code fr a0 a1 _ r
  by_cases hSetSelGlobal : op = opSetSelGlobal
  · subst hSetSelGlobal; rw [execSimple_SetSelGlobal]; exact exSetSelGlobal_noalloc code fr a0 a1 _ r
  by_cases hArray : op = opArray
  · subst hArray; exact absurd (by decide) hop
  by_cases hMap : op = opMap
  · subst hMap; exact absurd (by decide) hop
  by_cases hError : op = opError
  · subst hError; exact absurd (by decide) hop
  by_cases hImmutable : op = opImmutable
  · subst hImmutable; exact absurd (by decide) hop
  by_cases hIndex : op = opIndex
  · subst hIndex; rw [execSimple_Index]; exact exIndex_noalloc code fr a0 a1 _ r
  by_cases hSliceIndex : op = opSliceIndex
  · subst hSliceIndex; exact absurd (by decide) hop
  by_cases hDefineLocal : op = opDefineLocal
  · subst hDefineLocal; rw [execSimple_DefineLocal]; exact exDefineLocal_noalloc code fr a0 a1 _ r
  by_cases hSetLocal : op = opSetLocal
  · subst hSetLocal; rw [execSimple_SetLocal]; exact exSetLocal_noalloc code fr a0 a1 _ r
  by_cases hSetSelLocal : op = opSetSelLocal
  · subst hSetSelLocal; rw [execSimple_SetSelLocal]; exact exSetSelLocal_noalloc code fr a0 a1 _ r
  by_cases hGetLocal : op = opGetLocal
  · subst hGetLocal; rw [execSimple_GetLocal]; exact exGetLocal_noalloc code fr a0 a1 _ r
  by_cases hGetBuiltin : op = opGetBuiltin
  · subst hGetBuiltin; rw [execSimple_GetBuiltin]; exact exGetBuiltin_noalloc code fr a0 a1 _ r
  by_cases hClosure : op = opClosure
  · subst hClosure; exact absurd (by decide) hop
  by_cases hGetFreePtr : op = opGetFreePtr
  · subst hGetFreePtr; rw [execSimple_GetFreePtr]; exact exGetFreePtr_noalloc code fr a0 a1 _ r
  by_cases hGetFree : op = opGetFree
  · subst hGetFree; rw [execSimple_GetFree]; exact exGetFree_noalloc code fr a0 a1 _ r
  by_cases hSetFree : op = opSetFree
  · subst hSetFree; rw [execSimple_SetFree]; exact exSetFree_noalloc code fr a0 a1 _ r
  by_cases hGetLocalPtr : op = opGetLocalPtr
  · subst hGetLocalPtr; rw [execSimple_GetLocalPtr]; exact exGetLocalPtr_noalloc code fr a0 a1 _ r
  by_cases hSetSelFree : op = opSetSelFree
  · subst hSetSelFree; rw [execSimple_SetSelFree]; exact exSetSelFree_noalloc code fr a0 a1 _ r
  by_cases hIteratorInit : op = opIteratorInit
  · subst hIteratorInit; exact absurd (by decide) hop
  by_cases hIteratorNext : op = opIteratorNext
  · subst hIteratorNext; rw [execSimple_IteratorNext]; exact exIteratorNext_noalloc code fr a0 a1 _ r
  by_cases hIteratorKey : op = opIteratorKey
  · subst hIteratorKey; rw [execSimple_IteratorKey]; exact exIteratorKey_noalloc code fr a0 a1 _ r
  by_cases hIteratorValue : op = opIteratorValue
  · subst hIteratorValue; rw [execSimple_IteratorValue]; exact exIteratorKey_noalloc code fr a0 a1 _ r
  -- unknown opcode
  have : execSimple code fr a0 a1 op r = fault (.unknownOpcode op) := by
    unfold execSimple
    simp [*]
  rw [this]
  exact PostX_fault _

/-! ### the regenerated site table -/

/-- Opcodes (Go constant names) that the model may report as allocating: every success path for the
first nine, the array/map cases for IMMUT, the builtin case for CALL. -/
def modelAllocOps : List String :=
  ["OpBinaryOp", "OpBComplement", "OpMinus", "OpArray", "OpMap", "OpError", "OpImmutable", "OpSliceIndex", "OpCall",
   "OpClosure", "OpIteratorInit"]

/-- vm.go has an `allocs--` site in exactly these `case`s of `VM.run`. -/
theorem alloc_ops_match :
    (Tengo.Gen.AllocSites.allocSites.filter (fun p => !p.2.isEmpty)).map Prod.fst = modelAllocOps := by decide

/-- … and every one of them is followed at once by the `== 0` test, with the operand-stack store after
the test and none before the decrement (so a refused allocation is never visible). -/
theorem alloc_sites_tested :
    Tengo.Gen.AllocSites.allocSites.all (fun p => p.2.all (fun s => s.2.1 && s.2.2.1 && !s.2.2.2)) = true := by decide

end Tengo.Model.VM

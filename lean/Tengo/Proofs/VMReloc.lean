import Tengo.Proofs.VMRelocBase
set_option linter.unusedSectionVars false
set_option linter.unusedSimpArgs false
namespace Tengo.Model.VM
open Tengo.Model Tengo.Model.Spec Tengo.Model.Opcodes

/-- How the instruction at a kept offset reads in the relocated function: the same opcode, second
operand and size; the first operand is relocated when it is a jump target and unchanged otherwise. -/
structure FetchRel (pm : PosMap) (idx : Nat) (i i' : Fetched) : Prop where
  op : i'.op = i.op
  a1 : i'.a1 = i.a1
  size : i'.size = i.size
  a0 : if i.op ∈ jumpOps then pm idx i.a0 = some i'.a0 else i'.a0 = i.a0

def canFall (op : Nat) : Prop := op ≠ opReturn ∧ op ≠ opJump ∧ op ≠ opSuspend

/-- `code'` is `code` with the instructions of every function relocated by `pm`. -/
structure Reloc (code code' : Code) (pm : PosMap) : Prop where
  consts : ∀ k : Nat, ConstRel (code.consts[k]?) (code'.consts[k]?)
  fnSome : ∀ idx f, code.fn idx = some f →
    ∃ f', code'.fn idx = some f' ∧ f'.numLocals = f.numLocals ∧ f'.numParams = f.numParams ∧ f'.varargs = f.varargs
  fnNone : ∀ idx, code.fn idx = none → code'.fn idx = none
  entry : ∀ idx f, code.fn idx = some f → pm idx 0 = some 0
  instr : ∀ idx f f' p q, code.fn idx = some f → code'.fn idx = some f' → pm idx p = some q →
    p < f.insts.size ∧ q < f'.insts.size ∧ FetchRel pm idx (fetch f p) (fetch f' q)
  fall : ∀ idx f p q, code.fn idx = some f → pm idx p = some q → canFall (fetch f p).op →
    pm idx (p + (fetch f p).size) = some (q + (fetch f p).size)

/-- Relocated jump target. -/
def tgt (pm : PosMap) (idx : Nat) (t : Nat) : Nat := (pm idx t).getD t

theorem retarget_of_seq {g : Nat → Nat} {o : SimpleOut} (h : o.next = .seq) : retarget g o = o := by
  cases o with
  | mk regs next alloc => simp only at h; subst h; rfl

/-- A simple instruction read at a kept offset of the relocated function does what the original does,
up to the relocation of the jump target it may answer. -/
theorem execSimple_reloc {code code' : Code} {pm : PosMap} (hr : Reloc code code' pm) (idx : Nat)
    (fr fr' : Frame) (hbp : fr'.bp = fr.bp) (hfree : fr'.free = fr.free) (i i' : Fetched)
    (hi : FetchRel pm idx i i') (r : Regs) :
    execSimple code' fr' i'.a0 i'.a1 i'.op r = retarget (tgt pm idx) <$> execSimple code fr i.a0 i.a1 i.op r := by
  rw [hi.op, hi.a1]
  have ha0 := hi.a0
  by_cases hj : i.op ∈ jumpOps
  · rw [if_pos hj] at ha0
    have e : i'.a0 = tgt pm idx i.a0 := by simp [tgt, ha0]
    rw [e, execSimple_congr code code' fr fr' _ _ _ r hbp hfree (hr.consts _)]
    simp only [jumpOps, List.mem_cons, List.mem_nil_iff, or_false] at hj
    rcases hj with h | h | h | h <;> rw [h]
    · rw [execSimple_Jump, execSimple_Jump, exJump_retarget]
    · rw [execSimple_JumpFalsy, execSimple_JumpFalsy, exJumpFalsy_retarget]
    · rw [execSimple_AndJump, execSimple_AndJump, exAndJump_retarget]
    · rw [execSimple_OrJump, execSimple_OrJump, exOrJump_retarget]
  · rw [if_neg hj] at ha0
    rw [ha0, execSimple_congr code code' fr fr' _ _ _ r hbp hfree (hr.consts _)]
    symm
    apply XM_map_id_of_post
    refine PostX_mono (execSimple_seq code fr i.a0 i.a1 i.op r hj) ?_
    intro o ho
    exact retarget_of_seq ho

end Tengo.Model.VM

namespace Tengo.Model.VM
open Tengo.Model Tengo.Model.Spec Tengo.Model.Opcodes

/-- The frame stands at old offset `p`, which is kept and relocated to `q`. -/
def At (pm : PosMap) (fr : Frame) (p q : Nat) : Prop := fr.ip + 1 = (p : Int) ∧ pm fr.fnIdx p = some q

theorem pmIp_at {pm : PosMap} {idx : Nat} {ip : Int} {p q : Nat} (h1 : ip + 1 = (p : Int)) (h2 : pm idx p = some q) :
    pmIp pm idx ip = (q : Int) - 1 := by
  unfold pmIp
  have : (ip + 1).toNat = p := by omega
  rw [this, h2]

theorem mapFrame_at {pm : PosMap} {fr : Frame} {p q : Nat} (h : At pm fr p q) :
    mapFrame pm fr = { fr with ip := (q : Int) - 1 } := by
  unfold mapFrame
  rw [pmIp_at h.1 h.2]

/-- Setting `ip` commutes with relocation when the new `ip` is a kept position. -/
theorem mapFrame_set_ip {pm : PosMap} (fr : Frame) (ip : Int) {p q : Nat} (h1 : ip + 1 = (p : Int))
    (h2 : pm fr.fnIdx p = some q) :
    mapFrame pm { fr with ip := ip } = { mapFrame pm fr with ip := (q : Int) - 1 } := by
  unfold mapFrame
  dsimp only
  rw [pmIp_at h1 h2]

def mapOutAt (pm : PosMap) (q : Nat) : ExecOut → ExecOut
  | .next c a => .next (mapCore pm c) a
  | .halt c => .halt { mapCore pm c with cur := { mapFrame pm c.cur with ip := (q : Int) } }

theorem map_fault {α β} (F : α → β) (ft : Fault) : F <$> (fault ft : XM α) = fault ft := by
  apply ExceptT.ext
  simp [fault, ExceptT.run_map]
  rfl

theorem execReturn_reloc (pm : PosMap) (q : Nat) (a0 : Nat) (c : Core) :
    execReturn a0 (mapCore pm c) = mapOutAt pm q <$> execReturn a0 c := by
  unfold execReturn
  dsimp only
  have hd : (mapCore pm c).cur.discard = c.cur.discard := rfl
  have hb : (mapCore pm c).cur.bp = c.cur.bp := rfl
  have hr : (mapCore pm c).regs = c.regs := rfl
  rw [hd, hb, hr]
  have hcs : (mapCore pm c).callers = c.callers.map (mapFrame pm) := rfl
  rw [hcs]
  cases hc : c.callers with
  | nil =>
    simp only [List.map_nil, map_bind, map_fault]
    split <;> simp [map_bind, map_fault]
  | cons caller rest =>
    simp only [List.map_cons, map_bind, map_pure]
    split <;> simp [map_bind, map_pure, mapOutAt, mapCore]

end Tengo.Model.VM

namespace Tengo.Model.VM
open Tengo.Model Tengo.Model.Spec Tengo.Model.Opcodes

theorem map_rtE {α β} (F : α → β) (msg : String) : F <$> (rtE msg : XM α) = rtE msg := by
  apply ExceptT.ext
  funext g
  apply funext
  intro s
  have := XM_run_map F (rtE msg : XM α) g s
  show ((F <$> (rtE msg : XM α)).run.run g).run s = ((rtE msg : XM β).run.run g).run s
  rw [this]
  simp [rtE, em, eRt, rtErr, Spec.liftM, ExceptT.lift, ExceptT.run, ExceptT.mk, StateT.run, StateT.lift, throw, throwThe,
    MonadExceptOf.throw, bind, StateT.bind, Except.bind, Functor.map, StateT.map, Except.map]

theorem map_unsupE {α β} (F : α → β) (msg : String) : F <$> (unsupE msg : XM α) = unsupE msg := by
  apply ExceptT.ext
  funext g
  apply funext
  intro s
  have := XM_run_map F (unsupE msg : XM α) g s
  show ((F <$> (unsupE msg : XM α)).run.run g).run s = ((unsupE msg : XM β).run.run g).run s
  rw [this]
  simp [unsupE, em, eUnsup, unsupported, Spec.liftM, ExceptT.lift, ExceptT.run, ExceptT.mk, StateT.run, StateT.lift, throw, throwThe,
    MonadExceptOf.throw, bind, StateT.bind, Except.bind, Functor.map, StateT.map, Except.map]

end Tengo.Model.VM

namespace Tengo.Model.VM
open Tengo.Model Tengo.Model.Spec Tengo.Model.Opcodes

theorem mapCore_callers_length (pm : PosMap) (c : Core) : (mapCore pm c).callers.length = c.callers.length := by
  simp [mapCore]

/-- The frame decision of OpCall commutes with relocation. -/
theorem finishCompiled_reloc (pm : PosMap) (f f' : Fn) (c : Core) (p q : Nat) (r : Regs) (numArgs cr k : Nat)
    (free : List Nat) (cf cf' : Fn)
    (hat : At pm c.cur p q)
    (hafter : pm c.cur.fnIdx (p + 3) = some (q + 3))
    (hentry : pm c.cur.fnIdx 0 = some 0) (hentry' : pm (k + 1) 0 = some 0)
    (hloc : cf'.numLocals = cf.numLocals)
    (hpeek1 : byteAt f' ((q : Int) + 2 + 1) = byteAt f ((p : Int) + 2 + 1))
    (hpeek2 : byteAt f ((p : Int) + 2 + 1) = opPop → byteAt f' ((q : Int) + 2 + 2) = byteAt f ((p : Int) + 2 + 2)) :
    finishCompiled f' ((q : Int) + 2) (mapCore pm c) r numArgs cr k free cf' =
      mapOutAt pm q <$> finishCompiled f ((p : Int) + 2) c r numArgs cr k free cf := by
  have htail : isSelfTail f' (mapCore pm c).cur cr ((q : Int) + 2) = isSelfTail f c.cur cr ((p : Int) + 2) := by
    unfold isSelfTail
    have : (mapCore pm c).cur.fnRef = c.cur.fnRef := rfl
    rw [this, hpeek1]
    by_cases hp : byteAt f ((p : Int) + 2 + 1) = opPop
    · rw [hpeek2 hp]
    · have hb : (byteAt f ((p : Int) + 2 + 1) == opPop) = false := by simpa using hp
      simp [hb]
  unfold finishCompiled
  rw [htail]
  split
  · -- tail call
    simp only [map_bind, map_pure]
    have hbp : (mapCore pm c).cur.bp = c.cur.bp := rfl
    rw [hbp]
    congr 1
    funext r'
    congr 1
    simp only [mapOutAt, mapCore]
    have hd : (mapFrame pm c.cur).discard = c.cur.discard := rfl
    rw [hpeek1]
    congr 1
    have := mapFrame_set_ip (pm := pm) { c.cur with discard := (c.cur.discard || byteAt f ((p : Int) + 2 + 1) == opPop) } (-1)
      (p := 0) (q := 0) (by simp) hentry
    simp only [mapFrame, pmIp] at this ⊢
    simp only [this]
    simp [hentry]
  · rw [mapCore_callers_length]
    split
    · rw [map_rtE]
    · simp only [map_pure]
      congr 1
      have e : ((p : Int) + 2 + 1).toNat = p + 3 := by omega
      simp [mapOutAt, mapCore, hloc, mapFrame, pmIp, hentry', e, hafter]
      omega

end Tengo.Model.VM

namespace Tengo.Model.VM
open Tengo.Model Tengo.Model.Spec Tengo.Model.Opcodes

theorem rollUp_congr (cf cf' : Fn) (hv : cf'.varargs = cf.varargs) (hp : cf'.numParams = cf.numParams) (r : Regs) (n : Nat) :
    rollUp cf' r n = rollUp cf r n := by
  unfold rollUp
  rw [hv, hp]

/-- OpCall commutes with relocation. -/
theorem execCall_reloc {code code' : Code} {pm : PosMap} (hr : Reloc code code' pm) (f f' : Fn) (c : Core) (p q : Nat)
    (a0 a1 : Nat)
    (hat : At pm c.cur p q)
    (hafter : pm c.cur.fnIdx (p + 3) = some (q + 3))
    (hentry : pm c.cur.fnIdx 0 = some 0)
    (hpeek1 : byteAt f' ((q : Int) + 2 + 1) = byteAt f ((p : Int) + 2 + 1))
    (hpeek2 : byteAt f ((p : Int) + 2 + 1) = opPop → byteAt f' ((q : Int) + 2 + 2) = byteAt f ((p : Int) + 2 + 2)) :
    execCall code' f' (q : Int) a0 a1 (mapCore pm c) = mapOutAt pm q <$> execCall code f (p : Int) a0 a1 c := by
  unfold execCall
  have hregs : (mapCore pm c).regs = c.regs := rfl
  simp only [hregs, map_bind]
  congr 1
  funext _
  generalize getSlot c.regs (c.regs.sp - 1 - a0) = callee
  cases callee with
  | cfn cr =>
    simp only [map_bind]
    congr 1
    funext rn
    obtain ⟨r1, n1⟩ := rn
    dsimp only
    cases hfo : r1.fobjs[cr]? with
    | none => simp [map_unsupE]
    | some kf =>
      obtain ⟨k, free⟩ := kf
      dsimp only
      have hc := hr.consts k
      cases hk : code.consts[k]? with
      | none =>
        rw [hk] at hc
        cases hk' : code'.consts[k]? with
        | none => simp [map_unsupE]
        | some c' => rw [hk'] at hc; simp [ConstRel] at hc
      | some cst =>
        cases cst with
        | val v =>
          rw [hk] at hc
          cases hk' : code'.consts[k]? with
          | none => rw [hk'] at hc; simp [ConstRel] at hc
          | some c' =>
            rw [hk'] at hc
            cases c' with
            | val v' => simp [map_unsupE]
            | fn _ _ => simp [ConstRel] at hc
        | fn cf ref =>
          have hfn : code.fn (k + 1) = some cf := by unfold Code.fn; simp [hk]
          obtain ⟨cf', hfn', hl, hp, hv⟩ := hr.fnSome (k + 1) cf hfn
          have hk' : ∃ ref', code'.consts[k]? = some (.fn cf' ref') := by
            unfold Code.fn at hfn'
            simp at hfn'
            cases h : code'.consts[k]? with
            | none => simp [h] at hfn'
            | some c' =>
              cases c' with
              | val v => simp [h] at hfn'
              | fn g rf => simp [h] at hfn'; subst hfn'; exact ⟨rf, rfl⟩
          obtain ⟨ref', hk'⟩ := hk'
          simp only [hk', map_bind]
          rw [rollUp_congr cf cf' hv hp]
          congr 1
          funext rn2
          obtain ⟨r2, n2⟩ := rn2
          dsimp only
          rw [hp, hv]
          split
          · split <;> simp [map_rtE]
          · exact finishCompiled_reloc pm f f' c p q r2 n2 cr k free cf cf' hat hafter hentry
              (hr.entry (k + 1) cf hfn) hl hpeek1 hpeek2
  | builtin name =>
    simp only [map_bind, map_pure]
    congr 1
    funext rn
    congr 1
    funext ret
    congr 1
    funext r2
    congr 1
    simp only [mapOutAt, mapCore]
    congr 1
    have h1 := mapFrame_set_ip (pm := pm) c.cur ((p : Int) + 2) (p := p + 3) (q := q + 3) (by push_cast; omega) hafter
    rw [h1, mapFrame_at hat]
    simp
    omega
  | fn _ => simp [map_unsupE]
  | _ => simp [map_rtE]

end Tengo.Model.VM

namespace Tengo.Model.VM
open Tengo.Model Tengo.Model.Spec Tengo.Model.Opcodes

theorem fetch_call_size {f : Fn} {ip : Int} (h : (fetch f ip).op = opCall) : (fetch f ip).size = 3 := by
  rw [fetch_op] at h
  unfold fetch
  simp only [h]
  rfl
theorem fetch_pop_size {f : Fn} {ip : Int} (h : (fetch f ip).op = opPop) : (fetch f ip).size = 1 := by
  rw [fetch_op] at h
  unfold fetch
  simp only [h]
  rfl

theorem exJump_jumps (code : Code) (fr : Frame) (a0 a1 op : Nat) (r : Regs) :
    PostX (exJump code fr a0 a1 op r) (fun o => o.next ≠ .seq) := by
  unfold exJump
  apply PostX_pure
  simp

/-- A simple instruction that answers "continue with the next instruction" can fall through. -/
theorem execSimple_fall (code : Code) (fr : Frame) (a0 a1 op : Nat) (r : Regs) (hr : op ≠ opReturn) (hs : op ≠ opSuspend) :
    PostX (execSimple code fr a0 a1 op r) (fun o => o.next = .seq → canFall op) := by
  by_cases hj : op = opJump
  · subst hj
    rw [execSimple_Jump]
    refine PostX_mono (exJump_jumps code fr a0 a1 _ r) ?_
    intro o h1 h2
    exact absurd h2 h1
  · exact PostX_mono (PostX_true _) (fun o _ _ => ⟨hr, hj, hs⟩)

theorem pmIp_jump (pm : PosMap) (idx t : Nat) : pmIp pm idx (Int.ofNat t - 1) = Int.ofNat (tgt pm idx t) - 1 := by
  unfold pmIp tgt
  have : (Int.ofNat t - 1 + 1).toNat = t := by simp
  rw [this]
  cases pm idx t <;> simp

end Tengo.Model.VM

namespace Tengo.Model.VM
open Tengo.Model Tengo.Model.Spec Tengo.Model.Opcodes

theorem opCall_not_jump : opCall ∉ jumpOps := by decide
theorem opReturn_not_jump : opReturn ∉ jumpOps := by decide

/-- One dispatch commutes with relocation. -/
theorem exec_reloc {code code' : Code} {pm : PosMap} (hr : Reloc code code' pm) (c : Core) (p q : Nat)
    (hat : At pm c.cur p q) :
    exec code' (mapCore pm c) = mapOutAt pm q <$> exec code c := by
  unfold exec
  have hidx : (mapCore pm c).cur.fnIdx = c.cur.fnIdx := rfl
  rw [hidx]
  cases hf : code.fn c.cur.fnIdx with
  | none => simp only [hr.fnNone _ hf, map_fault]
  | some f =>
    obtain ⟨f', hf', hloc, hpar, hvar⟩ := hr.fnSome _ _ hf
    simp only [hf']
    obtain ⟨hp, hq, hi⟩ := hr.instr _ f f' p q hf hf' hat.2
    have hip' : (mapCore pm c).cur.ip + 1 = (q : Int) := by
      show (mapFrame pm c.cur).ip + 1 = (q : Int)
      rw [mapFrame_at hat]; simp
    rw [hip', hat.1]
    have hb : ¬ (((p : Int) < 0 || (p : Int).toNat ≥ f.insts.size) = true) := by simp; omega
    have hb' : ¬ (((q : Int) < 0 || (q : Int).toNat ≥ f'.insts.size) = true) := by simp; omega
    rw [if_neg hb, if_neg hb']
    rw [hi.op]
    by_cases hcall : (fetch f p).op = opCall
    · have hc1 : ((fetch f p).op == opCall) = true := by simp [hcall]
      rw [if_pos hc1, if_pos hc1]
      have ha0 := hi.a0
      rw [hcall, if_neg opCall_not_jump] at ha0
      rw [ha0, hi.a1]
      have hsz := fetch_call_size hcall
      have hfall := hr.fall _ f p q hf hat.2 (by rw [hcall]; unfold canFall; decide)
      rw [hsz] at hfall
      obtain ⟨_, _, hi3⟩ := hr.instr _ f f' (p + 3) (q + 3) hf hf' hfall
      have e3 : byteAt f' ((q : Int) + 2 + 1) = byteAt f ((p : Int) + 2 + 1) := by
        have := hi3.op
        rw [fetch_op, fetch_op] at this
        have e1 : ((q : Int) + 2 + 1) = ((q + 3 : Nat) : Int) := by omega
        have e2 : ((p : Int) + 2 + 1) = ((p + 3 : Nat) : Int) := by omega
        rw [e1, e2]; exact this
      refine execCall_reloc hr f f' c p q _ _ hat hfall (hr.entry _ f hf) e3 ?_
      intro hpop
      have hpop' : (fetch f ((p + 3 : Nat) : Int)).op = opPop := by
        rw [fetch_op]
        have e2 : ((p : Int) + 2 + 1) = ((p + 3 : Nat) : Int) := by omega
        rw [← e2]; exact hpop
      have hsz2 := fetch_pop_size hpop'
      have hfall2 := hr.fall _ f (p + 3) (q + 3) hf hfall (by rw [hpop']; unfold canFall; decide)
      rw [hsz2] at hfall2
      obtain ⟨_, _, hi4⟩ := hr.instr _ f f' (p + 3 + 1) (q + 3 + 1) hf hf' hfall2
      have := hi4.op
      rw [fetch_op, fetch_op] at this
      have e1 : ((q : Int) + 2 + 2) = ((q + 3 + 1 : Nat) : Int) := by omega
      have e2 : ((p : Int) + 2 + 2) = ((p + 3 + 1 : Nat) : Int) := by omega
      rw [e1, e2]; exact this
    · have hc1 : ¬ (((fetch f p).op == opCall) = true) := by simp [hcall]
      rw [if_neg hc1, if_neg hc1]
      by_cases hret : (fetch f p).op = opReturn
      · have hc2 : ((fetch f p).op == opReturn) = true := by simp [hret]
        rw [if_pos hc2, if_pos hc2]
        have ha0 := hi.a0
        rw [hret, if_neg opReturn_not_jump] at ha0
        rw [ha0]
        exact execReturn_reloc pm q _ c
      · have hc2 : ¬ (((fetch f p).op == opReturn) = true) := by simp [hret]
        rw [if_neg hc2, if_neg hc2]
        by_cases hsus : (fetch f p).op = opSuspend
        · have hc3 : ((fetch f p).op == opSuspend) = true := by simp [hsus]
          rw [if_pos hc3, if_pos hc3]
          simp [mapOutAt, mapCore, mapFrame]
        · have hc3 : ¬ (((fetch f p).op == opSuspend) = true) := by simp [hsus]
          rw [if_neg hc3, if_neg hc3]
          have hs := execSimple_reloc hr c.cur.fnIdx c.cur (mapCore pm c).cur rfl rfl _ _ hi c.regs
          rw [hi.op] at hs
          have hregs : (mapCore pm c).regs = c.regs := rfl
          rw [hregs, hs]
          simp only [map_bind, bind_map_left]
          refine XM_bind_congr_post (execSimple_fall code c.cur _ _ _ c.regs hret hsus) ?_
          intro o ho
          simp only [map_pure]
          congr 1
          have h1 := hat.1
          cases hn : o.next with
          | seq =>
            have hfall := hr.fall _ f p q hf hat.2 (ho hn)
            simp only [retarget, hn, mapOutAt, mapCore, hi.size]
            congr 1
            rw [mapFrame_set_ip c.cur ((p : Int) + (fetch f p).size - 1) (p := p + (fetch f p).size) (q := q + (fetch f p).size) (by simp) hfall]
            simp
          | jump t =>
            simp only [retarget, hn, mapOutAt, mapCore]
            congr 1
            unfold mapFrame
            dsimp only
            rw [pmIp_jump]

end Tengo.Model.VM

namespace Tengo.Model.VM
open Tengo.Model Tengo.Model.Spec Tengo.Model.Opcodes

/-- A jump answer comes from a jump instruction and is its first operand. -/
theorem execSimple_jump_target (code : Code) (fr : Frame) (a0 a1 op : Nat) (r : Regs) :
    PostX (execSimple code fr a0 a1 op r) (fun o => ∀ t, o.next = .jump t → op ∈ jumpOps ∧ t = a0) := by
  by_cases hj : op ∈ jumpOps
  · simp only [jumpOps, List.mem_cons, List.not_mem_nil, or_false] at hj
    rcases hj with rfl | rfl | rfl | rfl
    · rw [execSimple_Jump]; unfold exJump
      apply PostX_pure; intro t h; simp at h; exact ⟨by decide, h.symm⟩
    · rw [execSimple_JumpFalsy]; unfold exJumpFalsy
      post_walk
      all_goals (apply PostX_pure; intro t h; first | (simp at h; done) | (simp at h; exact ⟨by decide, h.symm⟩))
    · rw [execSimple_AndJump]; unfold exAndJump
      post_walk
      all_goals (apply PostX_pure; intro t h; first | (simp at h; done) | (simp at h; exact ⟨by decide, h.symm⟩))
    · rw [execSimple_OrJump]; unfold exOrJump
      post_walk
      all_goals (apply PostX_pure; intro t h; first | (simp at h; done) | (simp at h; exact ⟨by decide, h.symm⟩))
  · refine PostX_mono (execSimple_seq code fr a0 a1 op r hj) ?_
    intro o h t ht
    rw [h] at ht
    cases ht

theorem PostX_and {β} {m : XM β} {P Q : β → Prop} (h1 : PostX m P) (h2 : PostX m Q) : PostX m (fun v => P v ∧ Q v) :=
  fun g s v g' s' hh w hw => ⟨h1 g s v g' s' hh w hw, h2 g s v g' s' hh w hw⟩

def InDom (pm : PosMap) (fr : Frame) : Prop := ∃ p q, At pm fr p q
def InDomCore (pm : PosMap) (c : Core) : Prop := InDom pm c.cur ∧ ∀ fr ∈ c.callers, InDom pm fr
def DomPost (pm : PosMap) : ExecOut → Prop
  | .next c' _ => InDomCore pm c'
  | .halt _ => True

theorem execReturn_dom (pm : PosMap) (a0 : Nat) (c : Core) (hd : InDomCore pm c) :
    PostX (execReturn a0 c) (DomPost pm) := by
  unfold execReturn
  dsimp only
  post_walk
  all_goals
    apply PostX_pure
    rename_i caller rest hc _
    refine ⟨hd.2 _ (by rw [hc]; simp), fun fr hfr => hd.2 _ (by rw [hc]; simp [hfr])⟩

end Tengo.Model.VM

namespace Tengo.Model.VM
open Tengo.Model Tengo.Model.Spec Tengo.Model.Opcodes

theorem InDom_set_ip {pm : PosMap} (fr : Frame) (ip : Int) (p q : Nat) (h1 : ip + 1 = (p : Int))
    (h2 : pm fr.fnIdx p = some q) : InDom pm { fr with ip := ip } := ⟨p, q, h1, h2⟩

theorem finishCompiled_dom (pm : PosMap) (f : Fn) (c : Core) (p q : Nat) (r : Regs) (numArgs cr k : Nat)
    (free : List Nat) (cf : Fn) (hd : InDomCore pm c) (hat : At pm c.cur p q)
    (hafter : pm c.cur.fnIdx (p + 3) = some (q + 3))
    (hentry : pm c.cur.fnIdx 0 = some 0) (hentry' : pm (k + 1) 0 = some 0) :
    PostX (finishCompiled f ((p : Int) + 2) c r numArgs cr k free cf) (DomPost pm) := by
  unfold finishCompiled
  split
  · apply PostX_bind'
    intro r'
    apply PostX_pure
    exact ⟨⟨0, 0, by simp, hentry⟩, hd.2⟩
  · split
    · exact PostX_rtE _
    · apply PostX_pure
      refine ⟨⟨0, 0, by simp, hentry'⟩, ?_⟩
      intro fr hfr
      simp only [List.mem_cons] at hfr
      rcases hfr with rfl | hfr
      · exact ⟨p + 3, q + 3, by simp; omega, hafter⟩
      · exact hd.2 _ hfr

theorem execCall_dom {code code' : Code} {pm : PosMap} (hr : Reloc code code' pm) (f : Fn) (c : Core) (p q : Nat)
    (a0 a1 : Nat) (hd : InDomCore pm c) (hat : At pm c.cur p q)
    (hafter : pm c.cur.fnIdx (p + 3) = some (q + 3))
    (hentry : pm c.cur.fnIdx 0 = some 0) :
    PostX (execCall code f (p : Int) a0 a1 c) (DomPost pm) := by
  unfold execCall
  dsimp only
  post_walk
  all_goals first
    | (rename_i k free _ _ cf ref hk _ _
       exact finishCompiled_dom pm f c p q _ _ _ k _ cf hd hat hafter hentry
         (hr.entry (k + 1) cf (by simp [Code.fn, hk])))
    | (apply PostX_pure
       exact ⟨⟨p + 3, q + 3, by simp; omega, hafter⟩, hd.2⟩)

end Tengo.Model.VM

namespace Tengo.Model.VM
open Tengo.Model Tengo.Model.Spec Tengo.Model.Opcodes

/-- One dispatch of the original keeps every frame at a kept position. -/
theorem exec_dom {code code' : Code} {pm : PosMap} (hr : Reloc code code' pm) (c : Core) (hd : InDomCore pm c) :
    PostX (exec code c) (DomPost pm) := by
  obtain ⟨p, q, hat⟩ := hd.1
  unfold exec
  cases hf : code.fn c.cur.fnIdx with
  | none => exact PostX_fault _
  | some f =>
    obtain ⟨f', hf', _, _, _⟩ := hr.fnSome _ _ hf
    obtain ⟨hp, hq, hi⟩ := hr.instr _ f f' p q hf hf' hat.2
    simp only []
    rw [hat.1]
    split
    · exact PostX_fault _
    · split
      · rename_i hcall
        have hcall : (fetch f p).op = opCall := by simpa using hcall
        have hfall := hr.fall _ f p q hf hat.2 (by rw [hcall]; unfold canFall; decide)
        rw [fetch_call_size hcall] at hfall
        exact execCall_dom hr f c p q _ _ hd hat hfall (hr.entry _ f hf)
      · split
        · exact execReturn_dom pm _ c hd
        · split
          · exact PostX_pure trivial
          · rename_i hcall hret hsus
            have hret : (fetch f p).op ≠ opReturn := by simpa using hret
            have hsus : (fetch f p).op ≠ opSuspend := by simpa using hsus
            refine PostX_bind (PostX_and (execSimple_fall code c.cur _ _ _ c.regs hret hsus)
              (execSimple_jump_target code c.cur _ _ _ c.regs)) ?_
            intro o ⟨h1, h2⟩
            apply PostX_pure
            refine ⟨?_, hd.2⟩
            cases hn : o.next with
            | seq =>
              have hfall := hr.fall _ f p q hf hat.2 (h1 hn)
              exact ⟨p + (fetch f p).size, q + (fetch f p).size, by simp, hfall⟩
            | jump t =>
              obtain ⟨hj, rfl⟩ := h2 t hn
              have ha0 := hi.a0
              rw [if_pos hj] at ha0
              exact ⟨_, _, by simp, ha0⟩

end Tengo.Model.VM

namespace Tengo.Model.VM
open Tengo.Model Tengo.Model.Spec Tengo.Model.Opcodes

def mapCfg (pm : PosMap) (cfg : Cfg) : Cfg := { cfg with core := mapCore pm cfg.core }

/-- What the relocated run answers, given what the original answers: the same kind of outcome with the
same error / fault, the same registers (stack, globals, function objects), the same heap; every frame
sits at a kept position of the original and at the relocated position in the relocated run (a halted
machine sits on the relocated SUSPEND). -/
def OutcomeRel (pm : PosMap) : Outcome → Outcome → Prop
  | .halted a, .halted b => ∃ q : Nat, b = ⟨{ mapCore pm a.core with cur := { mapFrame pm a.core.cur with ip := (q : Int) } }, a.gst, a.heap⟩
  | .failed e a, .failed e' b => e' = e ∧ b = mapCfg pm a ∧ InDomCore pm a.core
  | .fault ft a, .fault ft' b => ft' = ft ∧ b = mapCfg pm a ∧ InDomCore pm a.core
  | .limit a, .limit b => b = mapCfg pm a ∧ InDomCore pm a.core
  | .outOfFuel a, .outOfFuel b => b = mapCfg pm a ∧ InDomCore pm a.core
  | _, _ => False

/-- The parts of the log that do not mention positions. -/
def LogRel (l l' : Log) : Prop := l'.steps = l.steps ∧ l'.counted = l.counted

theorem LogRel.tick {l l' : Log} (h : LogRel l l') (k k' : Nat) (o o' : Obs) : LogRel (l.tick k o) (l'.tick k' o') := by
  unfold LogRel Log.tick at *; simp [h.1, h.2]
theorem LogRel.count {l l' : Log} (h : LogRel l l') : LogRel l.count l'.count := by
  unfold LogRel Log.count at *; simp [h.1, h.2]

/-- **Relocation is invisible to a run**: started from corresponding configurations, the original and
the relocated code take the same number of steps, perform the same tracked allocations and end in
corresponding outcomes — for every fuel, allocation budget and start configuration. -/
theorem run_reloc {code code' : Code} {pm : PosMap} (hr : Reloc code code' pm) (keep keep' : Nat) :
    ∀ (fuel : Nat) (allocs : Int) (cfg : Cfg) (log log' : Log), InDomCore pm cfg.core → LogRel log log' →
      OutcomeRel pm (run code keep fuel allocs cfg log).1 (run code' keep' fuel allocs (mapCfg pm cfg) log').1 ∧
      LogRel (run code keep fuel allocs cfg log).2 (run code' keep' fuel allocs (mapCfg pm cfg) log').2 := by
  intro fuel
  induction fuel with
  | zero => intro allocs cfg log log' hd hl; exact ⟨⟨rfl, hd⟩, hl⟩
  | succ fuel ih =>
    intro allocs cfg log log' hd hl
    obtain ⟨p, q, hat⟩ := hd.1
    have hl1 := hl.tick keep keep' (observe cfg.core allocs) (observe (mapCfg pm cfg).core allocs)
    rw [run_succ, run_succ]
    have he := exec_reloc hr cfg.core p q hat
    have e1 : (mapCfg pm cfg).core = mapCore pm cfg.core := rfl
    have e2 : (mapCfg pm cfg).gst = cfg.gst := rfl
    have e3 : (mapCfg pm cfg).heap = cfg.heap := rfl
    rw [e1, e2, e3, he, XM_run_map]
    have hdom := exec_dom hr cfg.core hd cfg.gst cfg.heap
    cases hm : (((exec code cfg.core).run).run cfg.gst).run cfg.heap with
    | error e => exact ⟨⟨rfl, rfl, hd⟩, hl1⟩
    | ok x =>
      obtain ⟨⟨r, g⟩, h⟩ := x
      cases r with
      | error ft => exact ⟨⟨rfl, rfl, hd⟩, hl1⟩
      | ok out =>
        cases out with
        | halt c => exact ⟨⟨q, rfl⟩, hl1⟩
        | next c a =>
          have hd' : InDomCore pm c := hdom _ _ _ hm _ rfl
          cases a with
          | false => exact ih allocs ⟨c, g, h⟩ _ _ hd' hl1
          | true =>
            dsimp only [Except.map, mapOutAt]
            split
            · exact ⟨⟨rfl, hd⟩, hl1⟩
            · exact ih (allocs - 1) ⟨c, g, h⟩ _ _ hd' hl1.count

end Tengo.Model.VM

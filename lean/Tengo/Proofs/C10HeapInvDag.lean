import Tengo.Props.C10Heap
/-!
C10 over the heap model — values with internal sharing (DAGs) and the SHAPE of their copy.

`isData` only bounds the depth of a value, it does not ask for tree shape: a value in which the same container is
reachable along two paths (a DAG) is a data value, and `copy_fresh` / `copy_disjoint` / `copy_equal` apply to it.
Go's `Copy()` (and `copyN`) does not keep a memo: shared parts are duplicated, so the copy of a DAG is a TREE —
no cell of the copy is reached along two different paths (`copy_is_tree`).
-/
namespace Tengo.Proofs.C10Heap
open Tengo.Model.Heap9 Tengo.Model.HeapCopy Tengo.Props.C09 Tengo.Proofs.C09Eq Tengo.Props.C10Heap

mutual
/-- `TreeAt h v l`: `l` lists the cells reachable from `v`, once per path (pre-order). -/
inductive TreeAt (h : Heap) : Val → List Cell → Prop
  | scalar {v : Val} : (∀ r, v ≠ .ref r) → TreeAt h v []
  | arr {r s off len cap : Nat} {m : Bool} {l : List Cell} : h.obj r = Obj.arr m s off len cap →
      TreesAt h (h.content s off len) l → TreeAt h (.ref r) (.obj r :: .arr s :: l)
  | map {r s : Nat} {m : Bool} {l : List Cell} : h.obj r = Obj.map m s →
      TreesAt h ((h.mstore s).map Prod.snd) l → TreeAt h (.ref r) (.obj r :: .map s :: l)
  | err {r : Nat} {p : Val} {l : List Cell} : h.obj r = Obj.err p → TreeAt h p l → TreeAt h (.ref r) (.obj r :: l)
/-- The same for a list of values: the concatenation of the lists of the elements. -/
inductive TreesAt (h : Heap) : List Val → List Cell → Prop
  | nil : TreesAt h [] []
  | cons {v : Val} {vs : List Val} {l ls : List Cell} : TreeAt h v l → TreesAt h vs ls → TreesAt h (v :: vs) (l ++ ls)
end

/-- Tree shape: no cell is reached along two different paths. -/
def IsTree (h : Heap) (v : Val) : Prop := ∃ l, TreeAt h v l ∧ l.Nodup

/-! ### Extension keeps the shape -/

theorem treeAt_ext {h h' : Heap} (e : Ext h h') (c : Closed h) {v : Val} {l : List Cell} (t : TreeAt h v l) :
    TreeAt h' v l := by
  refine TreeAt.rec (motive_1 := fun v l _ => TreeAt h' v l) (motive_2 := fun vs l _ => TreesAt h' vs l)
    ?_ ?_ ?_ ?_ ?_ ?_ t
  · intro v hv; exact .scalar hv
  · intro r s off len cap m l ho _ ih
    have hoo := obj_some ho (by simp)
    obtain ⟨st, hs⟩ := closed_arr c hoo
    refine .arr (obj_of_some (e.objs _ _ hoo)) ?_
    rw [content_ext_old e hs]; exact ih
  · intro r s m l ho _ ih
    have hoo := obj_some ho (by simp)
    obtain ⟨st, hs⟩ := closed_map c hoo
    refine .map (obj_of_some (e.objs _ _ hoo)) ?_
    rw [ext_mstore_old e hs]; exact ih
  · intro r p l ho _ ih
    exact .err (obj_of_some (e.objs _ _ (obj_some ho (by simp)))) ih
  · exact .nil
  · intro v vs l ls _ _ ih1 ih2; exact .cons ih1 ih2

theorem treesAt_ext {h h' : Heap} (e : Ext h h') (c : Closed h) {vs : List Val} {l : List Cell} (t : TreesAt h vs l) :
    TreesAt h' vs l := by
  induction vs generalizing l with
  | nil => cases t; exact .nil
  | cons v vs ih => cases t with | cons t1 t2 => exact .cons (treeAt_ext e c t1) (ih t2)

/-! ### The list of `TreeAt` is the reachable set (`Reach`), and it is what `cellsN` computes -/

theorem treesAt_mem {h : Heap} {vs : List Val} {l : List Cell} (t : TreesAt h vs l) {x : Val} (hx : x ∈ vs) :
    ∃ lx, TreeAt h x lx ∧ ∀ c ∈ lx, c ∈ l := by
  induction vs generalizing l with
  | nil => cases hx
  | cons v vs ih =>
    cases t with
    | cons t1 t2 =>
      rcases List.mem_cons.mp hx with rfl | hx
      · exact ⟨_, t1, fun c hc => List.mem_append_left _ hc⟩
      · obtain ⟨lx, tx, sub⟩ := ih t2 hx
        exact ⟨lx, tx, fun c hc => List.mem_append_right _ (sub c hc)⟩

/-- Every reachable cell is in the list. -/
theorem treeAt_of_reach {h : Heap} {v : Val} {c : Cell} (rc : Reach h v c) : ∀ {l : List Cell}, TreeAt h v l → c ∈ l := by
  induction rc with
  | obj _ =>
    intro l t
    cases t with
    | scalar hv => exact absurd rfl (hv _)
    | arr _ _ => simp
    | map _ _ => simp
    | err _ _ => simp
  | arrStore ho =>
    intro l t
    cases t with
    | scalar hv => exact absurd rfl (hv _)
    | arr ho' _ => rw [ho] at ho'; injection ho' with _ e2; subst e2; simp
    | map ho' _ => rw [ho] at ho'; cases ho'
    | err ho' _ => rw [ho] at ho'; cases ho'
  | arrElem ho hx _ ih =>
    intro l t
    cases t with
    | scalar hv => exact absurd rfl (hv _)
    | arr ho' ts =>
      rw [ho] at ho'; injection ho' with _ e2 e3 e4 _; subst e2 e3 e4
      obtain ⟨lx, tx, sub⟩ := treesAt_mem ts hx
      exact List.mem_cons_of_mem _ (List.mem_cons_of_mem _ (sub _ (ih tx)))
    | map ho' _ => rw [ho] at ho'; cases ho'
    | err ho' _ => rw [ho] at ho'; cases ho'
  | mapStore ho =>
    intro l t
    cases t with
    | scalar hv => exact absurd rfl (hv _)
    | arr ho' _ => rw [ho] at ho'; cases ho'
    | map ho' _ => rw [ho] at ho'; injection ho' with _ e2; subst e2; simp
    | err ho' _ => rw [ho] at ho'; cases ho'
  | mapElem ho hx _ ih =>
    intro l t
    cases t with
    | scalar hv => exact absurd rfl (hv _)
    | arr ho' _ => rw [ho] at ho'; cases ho'
    | map ho' ts =>
      rw [ho] at ho'; injection ho' with _ e2; subst e2
      obtain ⟨lx, tx, sub⟩ := treesAt_mem ts hx
      exact List.mem_cons_of_mem _ (List.mem_cons_of_mem _ (sub _ (ih tx)))
    | err ho' _ => rw [ho] at ho'; cases ho'
  | errPayload ho _ ih =>
    intro l t
    cases t with
    | scalar hv => exact absurd rfl (hv _)
    | arr ho' _ => rw [ho] at ho'; cases ho'
    | map ho' _ => rw [ho] at ho'; cases ho'
    | err ho' tp => rw [ho] at ho'; injection ho' with e1; subst e1; exact List.mem_cons_of_mem _ (ih tp)

/-- Every cell of the list is reachable. -/
theorem reach_of_treeAt {h : Heap} {v : Val} {l : List Cell} (t : TreeAt h v l) : ∀ c ∈ l, Reach h v c := by
  refine TreeAt.rec (motive_1 := fun v l _ => ∀ c ∈ l, Reach h v c)
    (motive_2 := fun vs l _ => ∀ c ∈ l, ∃ x ∈ vs, Reach h x c) ?_ ?_ ?_ ?_ ?_ ?_ t
  · intro v _ c hc; cases hc
  · intro r s off len cap m l ho _ ih c hc
    rcases List.mem_cons.mp hc with rfl | hc
    · exact .obj (lt_of_lookup (obj_some ho (by simp)))
    · rcases List.mem_cons.mp hc with rfl | hc
      · exact .arrStore ho
      · obtain ⟨x, hx, rx⟩ := ih c hc
        exact .arrElem ho hx rx
  · intro r s m l ho _ ih c hc
    rcases List.mem_cons.mp hc with rfl | hc
    · exact .obj (lt_of_lookup (obj_some ho (by simp)))
    · rcases List.mem_cons.mp hc with rfl | hc
      · exact .mapStore ho
      · obtain ⟨x, hx, rx⟩ := ih c hc
        exact .mapElem ho hx rx
  · intro r p l ho _ ih c hc
    rcases List.mem_cons.mp hc with rfl | hc
    · exact .obj (lt_of_lookup (obj_some ho (by simp)))
    · exact .errPayload ho (ih c hc)
  · intro c hc; cases hc
  · intro v vs l ls _ _ ih1 ih2 c hc
    rcases List.mem_append.mp hc with hc | hc
    · exact ⟨v, List.mem_cons_self .., ih1 c hc⟩
    · obtain ⟨x, hx, rx⟩ := ih2 c hc
      exact ⟨x, List.mem_cons_of_mem _ hx, rx⟩

/-- The definition is meaningful: the list of `TreeAt` holds exactly the cells `Reach` reaches. -/
theorem treeAt_mem_iff_reach {h : Heap} {v : Val} {l : List Cell} (t : TreeAt h v l) (c : Cell) : c ∈ l ↔ Reach h v c :=
  ⟨reach_of_treeAt t c, fun rc => treeAt_of_reach rc t⟩

/-- The list is the one the executable `cellsN` (driver line `copyheap`) computes, whenever its fuel suffices;
in particular `TreeAt h v` determines the list. -/
theorem treeAt_cellsN {h : Heap} {v : Val} {l : List Cell} (t : TreeAt h v l) :
    ∀ (n : Nat) (l' : List Cell), cellsN n h v = some l' → l' = l := by
  refine TreeAt.rec (motive_1 := fun v l _ => ∀ (n : Nat) (l' : List Cell), cellsN n h v = some l' → l' = l)
    (motive_2 := fun vs l _ => ∀ (n : Nat) (l' : List Cell), cellsL (cellsN n h) vs = some l' → l' = l)
    ?_ ?_ ?_ ?_ ?_ ?_ t
  · intro v hv n l' e
    cases n with
    | zero => simp [cellsN] at e
    | succ n =>
      cases v with
      | ref r => exact absurd rfl (hv r)
      | undef => simp [cellsN] at e; exact e
      | int _ => simp [cellsN] at e; exact e
      | str _ => simp [cellsN] at e; exact e
      | opq _ => simp [cellsN] at e; exact e
  · intro r s off len cap m l ho _ ih n l' e
    cases n with
    | zero => simp [cellsN] at e
    | succ n =>
      simp only [cellsN, ho, Option.map_eq_some_iff] at e
      obtain ⟨l0, e0, rfl⟩ := e
      rw [ih n l0 e0]
  · intro r s m l ho _ ih n l' e
    cases n with
    | zero => simp [cellsN] at e
    | succ n =>
      simp only [cellsN, ho, Option.map_eq_some_iff] at e
      obtain ⟨l0, e0, rfl⟩ := e
      rw [ih n l0 e0]
  · intro r p l ho _ ih n l' e
    cases n with
    | zero => simp [cellsN] at e
    | succ n =>
      simp only [cellsN, ho, Option.map_eq_some_iff] at e
      obtain ⟨l0, e0, rfl⟩ := e
      rw [ih n l0 e0]
  · intro n l' e; simp [cellsL] at e; exact e
  · intro v vs l ls _ _ ih1 ih2 n l' e
    unfold cellsL at e
    split at e
    · rename_i a b ea eb
      injection e with e; subst e
      rw [ih1 n a ea, ih2 n b eb]
    · cases e

/-- A value whose executable cell list has a repetition is not a tree. -/
theorem not_isTree_of_cellsN {h : Heap} {v : Val} {n : Nat} {l : List Cell} (e : cellsN n h v = some l)
    (dup : ¬ l.Nodup) : ¬ IsTree h v := by
  rintro ⟨l', t, nd⟩
  rw [treeAt_cellsN t n l e] at dup
  exact dup nd

/-- Different positions of a list of trees with a duplicate-free cell list reach no common cell. -/
theorem treesAt_sep {h : Heap} {vs : List Val} {l : List Cell} (t : TreesAt h vs l) (nd : l.Nodup) :
    ∀ {i j : Nat} {a b : Val} {c : Cell}, i < j → vs[i]? = some a → vs[j]? = some b → Reach h a c → Reach h b c → False := by
  induction vs generalizing l with
  | nil => intro i j a b c _ ha; simp at ha
  | cons v vs ih =>
    intro i j a b c hij ha hb ra rb
    cases t with
    | cons t1 t2 =>
      rw [List.nodup_append] at nd
      obtain ⟨_, nd2, dis⟩ := nd
      cases j with
      | zero => omega
      | succ j =>
        simp at hb
        cases i with
        | zero =>
          simp at ha; subst ha
          obtain ⟨lb, tb, sub⟩ := treesAt_mem t2 (List.mem_of_getElem? hb)
          exact dis c (treeAt_of_reach ra t1) c (sub c (treeAt_of_reach rb tb)) rfl
        | succ i =>
          simp at ha
          exact ih t2 nd2 (by omega) ha hb ra rb

/-- What tree shape means in terms of `Reach`: two different positions of a tree-shaped array share no cell
(`Sep`); in particular they are different references. -/
theorem isTree_elems_sep {h : Heap} {r s off len cap : Nat} {m : Bool} (t : IsTree h (.ref r))
    (ho : h.obj r = Obj.arr m s off len cap) {i j : Nat} {a b : Val} (hij : i ≠ j)
    (ha : (h.content s off len)[i]? = some a) (hb : (h.content s off len)[j]? = some b) : Sep h a b := by
  obtain ⟨l, t, nd⟩ := t
  cases t with
  | scalar hv => exact absurd rfl (hv _)
  | arr ho' ts =>
    rw [ho] at ho'; injection ho' with _ e2 e3 e4 _; subst e2 e3 e4
    have nd2 := (List.nodup_cons.mp (List.nodup_cons.mp nd).2).2
    intro c ra rb
    rcases Nat.lt_or_gt_of_ne hij with hlt | hgt
    · exact treesAt_sep ts nd2 hlt ha hb ra rb
    · exact treesAt_sep ts nd2 hgt hb ha rb ra
  | map ho' _ => rw [ho] at ho'; cases ho'
  | err ho' _ => rw [ho] at ho'; cases ho'

/-! ### The cells of a copy: allocated by it, each on one path -/

/-- Allocated after `h`, present in `h'`. -/
def Between (h h' : Heap) : Cell → Prop
  | .obj r => h.objs.length ≤ r ∧ r < h'.objs.length
  | .arr s => h.astores.length ≤ s ∧ s < h'.astores.length
  | .map s => h.mstores.length ≤ s ∧ s < h'.mstores.length

theorem Between.isNew {h h' : Heap} {c : Cell} (b : Between h h' c) : IsNew h c := by
  cases c <;> exact b.1

theorem len_le_of_lookups {α} {l l' : List α} (e : ∀ (i : Nat) (x : α), l[i]? = some x → l'[i]? = some x) :
    l.length ≤ l'.length := by
  rcases Nat.lt_or_ge l'.length l.length with hlt | hge
  · have := lt_of_lookup (e _ _ (List.getElem?_eq_getElem hlt)); omega
  · exact hge

structure SizeLe (h h' : Heap) : Prop where
  o : h.objs.length ≤ h'.objs.length
  a : h.astores.length ≤ h'.astores.length
  m : h.mstores.length ≤ h'.mstores.length

theorem sizeLe_of_ext {h h' : Heap} (e : Ext h h') : SizeLe h h' :=
  ⟨len_le_of_lookups e.objs, len_le_of_lookups e.astores, len_le_of_lookups e.mstores⟩

theorem Between.widen {a b c d : Heap} {x : Cell} (w : Between b c x) (l : SizeLe a b) (r : SizeLe c d) : Between a d x := by
  cases x with
  | obj i => have := l.o; have := r.o; have := w.1; have := w.2; exact ⟨by omega, by omega⟩
  | arr i => have := l.a; have := r.a; have := w.1; have := w.2; exact ⟨by omega, by omega⟩
  | map i => have := l.m; have := r.m; have := w.1; have := w.2; exact ⟨by omega, by omega⟩

theorem Between.disjoint {a b c : Heap} {x : Cell} (w1 : Between a b x) (w2 : Between b c x) : False := by
  cases x with
  | obj i => have := w1.2; have := w2.1; omega
  | arr i => have := w1.2; have := w2.1; omega
  | map i => have := w1.2; have := w2.1; omega

/-- What the strengthened induction says about one copied value. -/
def TreeRes (h h' : Heap) (v' : Val) : Prop := ∃ l, TreeAt h' v' l ∧ l.Nodup ∧ ∀ c ∈ l, Between h h' c

theorem foldVals_copy_tree {n : Nat}
    (ih : ∀ (h : Heap) (caps : List Nat) (v : Val) (h' : Heap) (caps' : List Nat) (v' : Val),
      copyN n h caps v = some (h', caps', v') → Closed h → TreeRes h h' v') :
    ∀ (vs : List Val) (h : Heap) (caps : List Nat) (h' : Heap) (caps' : List Nat) (cs : List Val),
      foldVals (copyN n) h caps vs = some (h', caps', cs) → Closed h →
      cs.length = vs.length ∧ ∃ l, TreesAt h' cs l ∧ l.Nodup ∧ ∀ c ∈ l, Between h h' c := by
  intro vs
  induction vs with
  | nil =>
    intro h caps h' caps' cs e _
    simp [foldVals] at e
    obtain ⟨_, _, e3⟩ := e
    subst e3
    exact ⟨rfl, [], .nil, List.nodup_nil, fun c hc => by cases hc⟩
  | cons v vs ihl =>
    intro h caps h' caps' cs e c
    unfold foldVals at e
    split at e
    · cases e
    · rename_i h1 c1 v1 e1
      split at e
      · cases e
      · rename_i h2 c2 vs2 e2
        injection e with e; injection e with e3 e4; injection e4 with e4 e5
        subst e3 e4 e5
        obtain ⟨l1, t1, nd1, b1⟩ := ih _ _ _ _ _ _ e1 c
        have x1 : Ext h h1 := copyN_ext _ _ _ _ _ _ _ e1
        have cl1 := copyN_closed _ _ _ _ _ _ _ e1 c
        obtain ⟨len2, l2, t2, nd2, b2⟩ := ihl _ _ _ _ _ e2 cl1
        have x12 : Ext h1 h2 := foldVals_ext _ (copyN_ext n) _ _ _ _ _ _ e2
        refine ⟨by simp [len2], l1 ++ l2, .cons (treeAt_ext x12 cl1 t1) t2, ?_, ?_⟩
        · rw [List.nodup_append]
          refine ⟨nd1, nd2, ?_⟩
          intro a ha b hb eab
          subst eab
          exact (b1 a ha).disjoint (b2 a hb)
        · intro x hx
          rcases List.mem_append.mp hx with hx | hx
          · exact (b1 x hx).widen ⟨Nat.le_refl _, Nat.le_refl _, Nat.le_refl _⟩ (sizeLe_of_ext x12)
          · exact (b2 x hx).widen (sizeLe_of_ext x1) ⟨Nat.le_refl _, Nat.le_refl _, Nat.le_refl _⟩

theorem SizeLe.refl (h : Heap) : SizeLe h h := ⟨Nat.le_refl _, Nat.le_refl _, Nat.le_refl _⟩

/-- The strengthened statement: the copy is a tree whose cells were all allocated by this very call. -/
theorem copyN_tree : ∀ (n : Nat) (h : Heap) (caps : List Nat) (v : Val) (h' : Heap) (caps' : List Nat) (v' : Val),
    copyN n h caps v = some (h', caps', v') → Closed h → TreeRes h h' v' := by
  intro n
  induction n with
  | zero => intro h caps v h' caps' v' e; simp [copyN] at e
  | succ n ih =>
    intro h caps v h' caps' v' e c
    unfold copyN at e
    split at e
    · rename_i r
      split at e
      · rename_i m s off len cap ho
        split at e
        · cases e
        · rename_i h1 caps1 cs ef
          injection e with e; injection e with e1 e2; injection e2 with e2 e3; subst e1 e2 e3
          obtain ⟨_, l, t, nd, b⟩ := foldVals_copy_tree ih _ _ _ _ _ _ ef c
          have cl1 : Closed h1 := foldVals_pres _ (copyN_closed n) _ _ _ _ _ _ ef c
          have x1 : Ext h h1 := foldVals_ext _ (copyN_ext n) _ _ _ _ _ _ ef
          have x2 := ext_newArr h1 true cs (caps.headD 0)
          refine ⟨.obj h1.objs.length :: .arr h1.astores.length :: l, ?_, ?_, ?_⟩
          · refine .arr (obj_of_some (newArr_obj _ _ _ _)) ?_
            rw [content_eq (newArr_store _ _ _ _), take_pad]
            exact treesAt_ext x2 cl1 t
          · refine List.nodup_cons.mpr ⟨?_, List.nodup_cons.mpr ⟨?_, nd⟩⟩
            · intro hm
              rcases List.mem_cons.mp hm with hm | hm
              · cases hm
              · have := (b _ hm).2; omega
            · intro hm; have := (b _ hm).2; omega
          · intro x hx
            have so := (sizeLe_of_ext x1)
            rcases List.mem_cons.mp hx with rfl | hx
            · have := so.o; exact ⟨this, by simp [Heap.newArr]⟩
            · rcases List.mem_cons.mp hx with rfl | hx
              · have := so.a; exact ⟨this, by simp [Heap.newArr]⟩
              · exact (b x hx).widen (SizeLe.refl _) (sizeLe_of_ext x2)
      · rename_i m s ho
        split at e
        · cases e
        · rename_i h1 caps1 cs ef
          injection e with e; injection e with e1 e2; injection e2 with e2 e3; subst e1 e2 e3
          obtain ⟨len1, l, t, nd, b⟩ := foldVals_copy_tree ih _ _ _ _ _ _ ef c
          have cl1 : Closed h1 := foldVals_pres _ (copyN_closed n) _ _ _ _ _ _ ef c
          have x1 : Ext h h1 := foldVals_ext _ (copyN_ext n) _ _ _ _ _ _ ef
          have x2 := ext_newMap h1 true (((h.mstore s).map Prod.fst).zip cs)
          refine ⟨.obj h1.objs.length :: .map h1.mstores.length :: l, ?_, ?_, ?_⟩
          · refine .map (obj_of_some (newMap_obj _ _ _)) ?_
            rw [mstore_eq (newMap_store _ _ _), zip_snd _ _ (by simp at len1; simp [len1])]
            exact treesAt_ext x2 cl1 t
          · refine List.nodup_cons.mpr ⟨?_, List.nodup_cons.mpr ⟨?_, nd⟩⟩
            · intro hm
              rcases List.mem_cons.mp hm with hm | hm
              · cases hm
              · have := (b _ hm).2; omega
            · intro hm; have := (b _ hm).2; omega
          · intro x hx
            have so := (sizeLe_of_ext x1)
            rcases List.mem_cons.mp hx with rfl | hx
            · have := so.o; exact ⟨this, by simp [Heap.newMap]⟩
            · rcases List.mem_cons.mp hx with rfl | hx
              · have := so.m; exact ⟨this, by simp [Heap.newMap]⟩
              · exact (b x hx).widen (SizeLe.refl _) (sizeLe_of_ext x2)
      · rename_i p ho
        split at e
        · cases e
        · rename_i h1 caps1 p' ep
          injection e with e; injection e with e1 e2; injection e2 with e2 e3; subst e1 e2 e3
          obtain ⟨l, t, nd, b⟩ := ih _ _ _ _ _ _ ep c
          have cl1 : Closed h1 := copyN_closed _ _ _ _ _ _ _ ep c
          have x1 : Ext h h1 := copyN_ext _ _ _ _ _ _ _ ep
          have x2 := ext_allocObj h1 (.err p')
          refine ⟨.obj h1.objs.length :: l, ?_, ?_, ?_⟩
          · exact .err (obj_of_some (by simp [Heap.allocObj])) (treeAt_ext x2 cl1 t)
          · refine List.nodup_cons.mpr ⟨?_, nd⟩
            intro hm; have := (b _ hm).2; omega
          · intro x hx
            have so := (sizeLe_of_ext x1)
            rcases List.mem_cons.mp hx with rfl | hx
            · have := so.o; exact ⟨this, by simp [Heap.allocObj]⟩
            · exact (b x hx).widen (SizeLe.refl _) (sizeLe_of_ext x2)
      · cases e
    · rename_i hnr
      injection e with e; injection e with e1 e2; injection e2 with e2 e3; subst e1 e2 e3
      exact ⟨[], .scalar hnr, List.nodup_nil, fun c hc => by cases hc⟩

/-- MAIN: the copy of a data value — which may be a DAG: the same container reachable along several paths — is a
tree: `Copy` duplicates the shared parts, no cell of the copy is reached twice. For every choice of capacities. -/
theorem copy_is_tree {h : Heap} {v : Val} (c : Closed h) (d : isData h v = true) (caps : List Nat) :
    IsTree (copyValCaps caps h v).1 (copyValCaps caps h v).2 := by
  obtain ⟨caps', e⟩ := copyVal_runs c d caps
  obtain ⟨l, t, nd, _⟩ := copyN_tree _ _ _ _ _ _ _ e c
  exact ⟨l, t, nd⟩

/-- … with the list of its cells: all allocated by the copy, all present in the new heap. -/
theorem copy_is_tree_cells {h : Heap} {v : Val} (c : Closed h) (d : isData h v = true) (caps : List Nat) :
    ∃ l, TreeAt (copyValCaps caps h v).1 (copyValCaps caps h v).2 l ∧ l.Nodup ∧
      ∀ x ∈ l, Between h (copyValCaps caps h v).1 x := by
  obtain ⟨caps', e⟩ := copyVal_runs c d caps
  exact copyN_tree _ _ _ _ _ _ _ e c

/-! ### Non-vacuity: a DAG, and its copy -/

/-- `x := [s, s]` with `s := [1, 2]` shared (handle @3; `s` in @2): a DAG. -/
def exDag : Heap := run {} [.lit (.int 1), .lit (.int 2), .mkArr [0, 1] 2, .mkArr [2, 2] 2]

theorem exDag_regs : exDag.regs[3]? = some (.ref 1) ∧ exDag.regs[2]? = some (.ref 0) := by decide
theorem exDag_closed : Closed exDag := by decide
theorem exDag_refsOk : RefsOk exDag := refsOk_of_B (by decide)
/-- The shared element is stored twice: both positions of `x` hold the same reference. -/
theorem exDag_shape : exDag.objs = [.arr true 0 0 2 2, .arr true 1 0 2 2] ∧
    exDag.astores = [[.int 1, .int 2], [.ref 0, .ref 0]] := by decide
/-- `isData` / `isPlain` do not ask for tree shape: the DAG is a (plain) data value. -/
theorem exDag_data : isData exDag (.ref 1) = true := by decide
theorem exDag_plain : isPlain exDag (.ref 1) = true := by decide

/-- The original is NOT a tree: header 0 and store 0 are listed (reached) twice … -/
theorem exDag_cells : cellsN exDag.fuel exDag (.ref 1) =
    some [.obj 1, .arr 1, .obj 0, .arr 0, .obj 0, .arr 0] := by decide
example : ∀ l, cellsN exDag.fuel exDag (.ref 1) = some l → ¬ l.Nodup := by
  intro l e; rw [exDag_cells] at e; injection e with e; subst e; decide
/-- … also in the sense of `IsTree`. -/
theorem exDag_not_tree : ¬ IsTree exDag (.ref 1) := not_isTree_of_cellsN exDag_cells (by decide)

/-- The copy `[[1, 2], [1, 2]]`: the shared part was duplicated — two DIFFERENT element references 2 and 3, over the
two new backing arrays 2 and 3. -/
theorem exDag_copy : (copyVal exDag (.ref 1)).2 = .ref 4 ∧
    (copyVal exDag (.ref 1)).1.objs.drop 2 = [.arr true 2 0 2 2, .arr true 3 0 2 2, .arr true 4 0 2 2] ∧
    (copyVal exDag (.ref 1)).1.astores.drop 2 = [[.int 1, .int 2], [.int 1, .int 2], [.ref 2, .ref 3]] ∧
    (copyVal exDag (.ref 1)).1.objs.take 2 = exDag.objs ∧ (copyVal exDag (.ref 1)).1.astores.take 2 = exDag.astores := by
  decide

/-- The executable cell list of the copy has no repetition. -/
theorem exDag_copy_cells : cellsN (copyVal exDag (.ref 1)).1.fuel (copyVal exDag (.ref 1)).1 (copyVal exDag (.ref 1)).2 =
    some [.obj 4, .arr 4, .obj 2, .arr 2, .obj 3, .arr 3] := by decide
example : ([Cell.obj 4, .arr 4, .obj 2, .arr 2, .obj 3, .arr 3] : List Cell).Nodup := by decide

/-- `copy_is_tree` applies to the DAG (its hypotheses are met), so do `copy_fresh`, `copy_disjoint`, `copy_equal`. -/
example : IsTree (copyVal exDag (.ref 1)).1 (copyVal exDag (.ref 1)).2 := copy_is_tree exDag_closed exDag_data []
example := copy_is_tree_cells exDag_closed exDag_data []
example := copy_fresh exDag_closed exDag_data []
example := copy_disjoint exDag_closed exDag_refsOk exDag_data [] (w := .ref 1) (data_old exDag_data)
example : Eqv (copyVal exDag (.ref 1)).1 (copyVal exDag (.ref 1)).2 (.ref 1) := copy_equal exDag_closed exDag_plain []

/-- The list `copy_is_tree` speaks of is the computed one (`treeAt_cellsN`). -/
example : ∀ l, TreeAt (copyVal exDag (.ref 1)).1 (copyVal exDag (.ref 1)).2 l →
    l = [.obj 4, .arr 4, .obj 2, .arr 2, .obj 3, .arr 3] :=
  fun _ t => (treeAt_cellsN t _ _ exDag_copy_cells).symm

/-- `isTree_elems_sep` on the copy: its two elements share no cell (in the original they are the same object). -/
example : Sep (copyVal exDag (.ref 1)).1 (.ref 2) (.ref 3) :=
  isTree_elems_sep (copy_is_tree exDag_closed exDag_data []) (r := 4) (s := 4) (off := 0) (len := 2) (cap := 2) (m := true)
    (i := 0) (j := 1) (by decide) (by decide) (by decide) (by decide)

end Tengo.Proofs.C10Heap

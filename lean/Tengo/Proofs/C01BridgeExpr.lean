import Tengo.Proofs.C01BridgeMonad
/-!
C01 bridge, layer 2 (expressions): for every expression `e` of the fragment, the compiler model run on the
embedded AST `toAstE names ctab e` appends to the current function exactly the byte encoding of the
fragment compiler's `F0.comp off e` (`off` = current position, jump operands back-patched to the same
absolute targets), adds exactly the literals of `e` to the constant pool, and changes nothing else
(`exprOK`).
-/
set_option linter.unusedVariables false
set_option linter.unusedSimpArgs false
namespace Tengo.Proofs.C01Bridge
open Tengo.Model Tengo.Model.F0 Tengo.Model.Compiler Tengo.Model.Opcodes
open Tengo.Model.Spec (Expr Stmt)

/-! ### constants of a range of literal numbers -/

def lits (ctab : Nat → F0.Const) (k m : Nat) : List Compiler.Const :=
  (List.range' k m).map (fun j => constOf (ctab j))

theorem lits_zero (ctab : Nat → F0.Const) (k : Nat) : lits ctab k 0 = [] := rfl
theorem lits_one (ctab : Nat → F0.Const) (k : Nat) : lits ctab k 1 = [constOf (ctab k)] := rfl
theorem lits_length (ctab : Nat → F0.Const) (k m : Nat) : (lits ctab k m).length = m := by simp [lits]
theorem lits_add (ctab : Nat → F0.Const) (k a b : Nat) :
    lits ctab k (a + b) = lits ctab k a ++ lits ctab (k + a) b := by
  unfold lits
  rw [← List.map_append]
  congr 1
  have := List.range'_append (s := k) (m := a) (n := b) (step := 1)
  rw [Nat.one_mul] at this
  exact this.symm

theorem app_congr (s : CState) {b b' : List UInt8} {k k' : List Compiler.Const} (hb : b = b') (hk : k = k') :
    app s b k = app s b' k' := by rw [hb, hk]

/-! ### instructions -/

theorem enc_of (i : Ins) : encodeInstr i.toInstr.1 i.toInstr.2 = encodeIns [i] := by
  rw [encodeIns_single, encI_eq]

theorem enc_jmpf (t : Nat) : encodeInstr opJumpFalsy [t] = encI (.jmpf t) := encI_eq (.jmpf t)
theorem enc_jmp (t : Nat) : encodeInstr opJump [t] = encI (.jmp t) := encI_eq (.jmp t)

theorem validTok_cases {n : Nat} (h : validTok n = true) :
    n = 11 ∨ n = 12 ∨ n = 13 ∨ n = 14 ∨ n = 15 ∨ n = 16 ∨ n = 17 ∨ n = 18 ∨ n = 19 ∨ n = 20 ∨ n = 21 ∨
    n = 38 ∨ n = 39 ∨ n = 43 ∨ n = 44 := by
  simpa [validTok, or_assoc] using h

theorem tok_not_logical {n : Nat} (h : validTok n = true) :
    (tokNameOf n == "LAnd" || tokNameOf n == "LOr") = false := by
  rcases validTok_cases h with h | h | h | h | h | h | h | h | h | h | h | h | h | h | h <;> subst h <;> decide

theorem emitBinary_valid {n : Nat} (h : validTok n = true) :
    emitBinary (tokNameOf n) = discard (emit opBinaryOp [n]) := by
  rcases validTok_cases h with h | h | h | h | h | h | h | h | h | h | h | h | h | h | h <;> subst h <;> rfl

theorem emitBinary_eq : emitBinary "Equal" = discard (emit opEqual) := rfl
theorem emitBinary_ne : emitBinary "NotEqual" = discard (emit opNotEqual) := rfl

/-- `discard (emit …)` of the instruction `i`. -/
theorem steps_emitI (i : Ins) (s : CState) :
    Steps (discard (emit i.toInstr.1 i.toInstr.2)) s () (app s (encodeIns [i]) []) := by
  have := Steps.discard (steps_emit i.toInstr.1 i.toInstr.2 s)
  rwa [enc_of] at this

section
variable (names : Nat → String) (ctab : Nat → F0.Const) (n : Nat)

/-- The compiler model emits for the embedded expression exactly the fragment's code, placed at the
current position, and adds exactly the literals of the expression to the pool. -/
def ExprOK (e : Ex) : Prop :=
  ∀ (d : Nat) (s : CState), budE e ≤ d → GoodChain names n s.tables → wfE n s.consts.size e = true →
    Steps (compileExpr d (toAstE names ctab e)) s ()
      (app s (encodeIns (comp s.insts.size e)) (lits ctab s.consts.size (nlitsE e)))

variable {names ctab n}

theorem steps_two {l r : Ex} (hl : ExprOK names ctab n l) (hr : ExprOK names ctab n r)
    (d : Nat) (s : CState) (hdl : budE l ≤ d) (hdr : budE r ≤ d) (hg : GoodChain names n s.tables)
    (hwl : wfE n s.consts.size l = true) (hwr : wfE n (s.consts.size + nlitsE l) r = true)
    {β : Type} (X : CM β) (b : β) (sX : CState)
    (hX : Steps X (app s (encodeIns (comp s.insts.size l ++ comp (s.insts.size + esize l) r))
            (lits ctab s.consts.size (nlitsE l + nlitsE r))) b sX) :
    Steps (do compileExpr d (toAstE names ctab l); compileExpr d (toAstE names ctab r); X) s b sX := by
  refine Steps.bind (hl d s hdl hg hwl) ?_
  have h2 := hr d (app s (encodeIns (comp s.insts.size l)) (lits ctab s.consts.size (nlitsE l))) hdr
    (by simpa using hg) (by simpa [lits_length] using hwr)
  refine Steps.bind h2 ?_
  rw [app_app] at *
  simp only [app_insts_size, app_consts_size, encodeIns_length, csize_comp, lits_length] at *
  rw [encodeIns_append, lits_add] at hX
  exact hX

theorem un_not (d : Nat) (x : Expr) :
    compileExpr (d + 1) (.un "Not" x) = (do compileExpr d x; discard (emit opLNot)) := by
  rw [compileExpr.eq_10]; rfl
theorem un_sub (d : Nat) (x : Expr) :
    compileExpr (d + 1) (.un "Sub" x) = (do compileExpr d x; discard (emit opMinus)) := by
  rw [compileExpr.eq_10]; rfl
theorem un_xor (d : Nat) (x : Expr) :
    compileExpr (d + 1) (.un "Xor" x) = (do compileExpr d x; discard (emit opBComplement)) := by
  rw [compileExpr.eq_10]; rfl
theorem un_add (d : Nat) (x : Expr) :
    compileExpr (d + 1) (.un "Add" x) = (do compileExpr d x; pure ()) := by
  rw [compileExpr.eq_10]; rfl
theorem bin_eq (d : Nat) (l r : Expr) :
    compileExpr (d + 1) (.bin "Equal" l r) = (do compileExpr d l; compileExpr d r; discard (emit opEqual)) := by
  rw [compileExpr.eq_3]; rfl
theorem bin_ne (d : Nat) (l r : Expr) :
    compileExpr (d + 1) (.bin "NotEqual" l r) = (do compileExpr d l; compileExpr d r; discard (emit opNotEqual)) := by
  rw [compileExpr.eq_3]; rfl
theorem bin_land (d : Nat) (l r : Expr) :
    compileExpr (d + 1) (.bin "LAnd" l r) = (do
      compileExpr d l
      let jumpPos ← emit opAndJump [0]
      compileExpr d r
      let p ← curPos
      changeOperand jumpPos p) := by
  rw [compileExpr.eq_3]; rfl
theorem bin_lor (d : Nat) (l r : Expr) :
    compileExpr (d + 1) (.bin "LOr" l r) = (do
      compileExpr d l
      let jumpPos ← emit opOrJump [0]
      compileExpr d r
      let p ← curPos
      changeOperand jumpPos p) := by
  rw [compileExpr.eq_3]; rfl
theorem bin_tok (d : Nat) (tok : Nat) (ht : validTok tok = true) (l r : Expr) :
    compileExpr (d + 1) (.bin (tokNameOf tok) l r) =
      (do compileExpr d l; compileExpr d r; discard (emit opBinaryOp [tok])) := by
  rw [compileExpr.eq_3, tok_not_logical ht, emitBinary_valid ht]; rfl

theorem steps_one {e : Ex} (he : ExprOK names ctab n e)
    (d : Nat) (s : CState) (hd : budE e ≤ d) (hg : GoodChain names n s.tables)
    (hw : wfE n s.consts.size e = true)
    {β : Type} (X : CM β) (b : β) (sX : CState)
    (hX : Steps X (app s (encodeIns (comp s.insts.size e)) (lits ctab s.consts.size (nlitsE e))) b sX) :
    Steps (do compileExpr d (toAstE names ctab e); X) s b sX :=
  Steps.bind (he d s hd hg hw) hX

theorem steps_logical {l r : Ex} (hl : ExprOK names ctab n l) (hr : ExprOK names ctab n r)
    (op : Nat) (hw4 : widths op = some [4]) (hop : op < 256) (I : Nat → Ins)
    (hI : ∀ t, encodeInstr op [t] = encodeIns [I t]) (hsz : ∀ t, (I t).size = 5)
    (d : Nat) (s : CState) (hdl : budE l ≤ d) (hdr : budE r ≤ d) (hg : GoodChain names n s.tables)
    (hwl : wfE n s.consts.size l = true) (hwr : wfE n (s.consts.size + nlitsE l) r = true) :
    Steps (do
        compileExpr d (toAstE names ctab l)
        let jumpPos ← emit op [0]
        compileExpr d (toAstE names ctab r)
        let p ← curPos
        changeOperand jumpPos p) s ()
      (app s (encodeIns (comp s.insts.size l ++ [I (s.insts.size + esize l + 5 + esize r)] ++
          comp (s.insts.size + esize l + 5) r)) (lits ctab s.consts.size (nlitsE l + nlitsE r))) := by
  refine Steps.bind (hl d s hdl hg hwl) ?_
  refine Steps.bind (steps_emit op [0] _) ?_
  refine Steps.bind (hr d _ hdr (by simpa using hg) (by simpa [lits_length] using hwr)) ?_
  refine Steps.bind (steps_curPos _) ?_
  rw [app_app (app s _ _)]
  refine (steps_changeOperand _ op 0 _ _ _ hw4 hop).to ?_
  have h5 : ∀ t, (encodeInstr op [t]).length = 5 := by
    intro t; rw [hI, encodeIns_length]; simp [csize, hsz]
  rw [app_app, hI]
  refine app_congr s ?_ ?_
  · simp only [app_insts_size, app_consts_size, encodeIns_length, csize_comp, lits_length, h5,
      encodeIns_append, List.append_assoc, List.length_append, Nat.add_assoc]
  · simp only [app_insts_size, app_consts_size, encodeIns_length, csize_comp, lits_length, h5,
      List.nil_append, List.length_nil, Nat.add_zero]
    rw [lits_add]

/-! ### the same steps, with every state written relative to one base state -/

theorem steps_emit_at (s : CState) (pre : List UInt8) (kpre : List Compiler.Const) (op : Nat) (args : List Nat) :
    Steps (emit op args) (app s pre kpre) (s.insts.size + pre.length) (app s (pre ++ encodeInstr op args) kpre) := by
  have h := steps_emit op args (app s pre kpre)
  rw [app_app, app_insts_size, List.append_nil] at h
  exact h

theorem steps_curPos_at (s : CState) (pre : List UInt8) (kpre : List Compiler.Const) :
    Steps curPos (app s pre kpre) (s.insts.size + pre.length) (app s pre kpre) := by
  have h := steps_curPos (app s pre kpre)
  rw [app_insts_size] at h
  exact h

theorem steps_patch_at (s : CState) (pre : List UInt8) (op x t : Nat) (mid bytes : List UInt8)
    (ks : List Compiler.Const) (p : Nat) (hw : widths op = some [4]) (hop : op < 256)
    (hb : bytes = pre ++ encodeInstr op [x] ++ mid) (hp : p = s.insts.size + pre.length) :
    Steps (changeOperand p t) (app s bytes ks) () (app s (pre ++ encodeInstr op [t] ++ mid) ks) := by
  subst hb hp
  have h := steps_changeOperand (app s pre []) op x t mid ks hw hop
  rw [app_app, app_app, app_insts_size, List.nil_append, ← List.append_assoc, ← List.append_assoc] at h
  exact h

theorem ExprOK.at {e : Ex} (he : ExprOK names ctab n e) (d : Nat) (s : CState) (pre : List UInt8)
    (kpre : List Compiler.Const) (off k : Nat) (hd : budE e ≤ d) (hg : GoodChain names n s.tables)
    (hoff : off = s.insts.size + pre.length) (hk : k = s.consts.size + kpre.length)
    (hw : wfE n k e = true) :
    Steps (compileExpr d (toAstE names ctab e)) (app s pre kpre) ()
      (app s (pre ++ encodeIns (comp off e)) (kpre ++ lits ctab k (nlitsE e))) := by
  subst hoff hk
  have h := he d (app s pre kpre) hd (by simpa using hg) (by simpa using hw)
  rw [app_app, app_insts_size, app_consts_size] at h
  exact h

theorem budE_pos (e : Ex) : 1 ≤ budE e := by cases e <;> simp [budE] <;> omega

theorem exprOK_lit (k : Nat) : ExprOK names ctab n (.lit k) := by
  intro d s hd hg hw
  cases d with
  | zero => simp [budE] at hd
  | succ d =>
    simp only [wfE, beq_iff_eq] at hw
    subst hw
    have key : ∀ c : Compiler.Const, c = constOf (ctab s.consts.size) →
        Steps (do let k ← addConstant c; discard (emit opConstant [k])) s ()
          (app s (encodeIns (comp s.insts.size (.lit s.consts.size))) (lits ctab s.consts.size (nlitsE (.lit s.consts.size)))) := by
      intro c hc
      refine (Steps.bind (steps_addConstant c s) (steps_emitI (.const s.consts.size) _)).to ?_
      rw [app_app, hc]; rfl
    simp only [toAstE]
    cases hc : ctab s.consts.size with
    | int v => simp only [litExpr, compileExpr.eq_4]; exact key _ (by rw [hc]; rfl)
    | float v => simp only [litExpr, compileExpr.eq_5]; exact key _ (by rw [hc]; rfl)
    | char v => simp only [litExpr, compileExpr.eq_8]; exact key _ (by rw [hc]; rfl)
    | str v => simp only [litExpr, compileExpr.eq_7]; exact key _ (by rw [hc]; rfl)

theorem exprOK (e : Ex) : ExprOK names ctab n e := by
  induction e with
  | lit k => exact exprOK_lit k
  | tru =>
    intro d s hd hg hw
    cases d with
    | zero => simp [budE] at hd
    | succ d =>
      simp only [toAstE, compileExpr.eq_6]
      exact (steps_emitI .tru s).to (by rfl)
  | fls =>
    intro d s hd hg hw
    cases d with
    | zero => simp [budE] at hd
    | succ d =>
      simp only [toAstE, compileExpr.eq_6]
      exact (steps_emitI .fls s).to (by rfl)
  | undef =>
    intro d s hd hg hw
    cases d with
    | zero => simp [budE] at hd
    | succ d =>
      simp only [toAstE, compileExpr.eq_9]
      exact (steps_emitI .null s).to (by rfl)
  | glob i =>
    intro d s hd hg hw
    cases d with
    | zero => simp [budE] at hd
    | succ d =>
      simp only [wfE, decide_eq_true_eq] at hw
      obtain ⟨id, k, hres⟩ := steps_resolve hg hw
      simp only [toAstE, compileExpr.eq_11]
      exact Steps.bind hres (steps_emitI (.getg i) s)
  | bin tok l r ihl ihr =>
    intro d s hd hg hw
    cases d with
    | zero => simp [budE] at hd
    | succ d =>
      simp only [wfE, Bool.and_eq_true] at hw
      obtain ⟨⟨ht, hwl⟩, hwr⟩ := hw
      simp only [budE] at hd
      simp only [toAstE, bin_tok d tok ht]
      refine steps_two ihl ihr d s (by omega) (by omega) hg hwl hwr _ _ _ ((steps_emitI (.binop tok) _).to ?_)
      rw [app_app]
      exact app_congr s (by simp [comp, csize_comp, encodeIns_append]) (by simp [nlitsE])
  | eq l r ihl ihr =>
    intro d s hd hg hw
    cases d with
    | zero => simp [budE] at hd
    | succ d =>
      simp only [wfE, Bool.and_eq_true] at hw
      obtain ⟨hwl, hwr⟩ := hw
      simp only [budE] at hd
      simp only [toAstE, bin_eq]
      refine steps_two ihl ihr d s (by omega) (by omega) hg hwl hwr _ _ _ ((steps_emitI .eql _).to ?_)
      rw [app_app]
      exact app_congr s (by simp [comp, csize_comp, encodeIns_append]) (by simp [nlitsE])
  | ne l r ihl ihr =>
    intro d s hd hg hw
    cases d with
    | zero => simp [budE] at hd
    | succ d =>
      simp only [wfE, Bool.and_eq_true] at hw
      obtain ⟨hwl, hwr⟩ := hw
      simp only [budE] at hd
      simp only [toAstE, bin_ne]
      refine steps_two ihl ihr d s (by omega) (by omega) hg hwl hwr _ _ _ ((steps_emitI .neq _).to ?_)
      rw [app_app]
      exact app_congr s (by simp [comp, csize_comp, encodeIns_append]) (by simp [nlitsE])
  | neg e ih =>
    intro d s hd hg hw
    cases d with
    | zero => simp [budE] at hd
    | succ d =>
      simp only [wfE] at hw
      simp only [budE] at hd
      simp only [toAstE, un_sub]
      refine steps_one ih d s (by omega) hg hw _ _ _ ((steps_emitI .minus _).to ?_)
      rw [app_app]
      exact app_congr s (by simp [comp, encodeIns_append]) (by simp [nlitsE])
  | bnot e ih =>
    intro d s hd hg hw
    cases d with
    | zero => simp [budE] at hd
    | succ d =>
      simp only [wfE] at hw
      simp only [budE] at hd
      simp only [toAstE, un_xor]
      refine steps_one ih d s (by omega) hg hw _ _ _ ((steps_emitI .bcompl _).to ?_)
      rw [app_app]
      exact app_congr s (by simp [comp, encodeIns_append]) (by simp [nlitsE])
  | lnot e ih =>
    intro d s hd hg hw
    cases d with
    | zero => simp [budE] at hd
    | succ d =>
      simp only [wfE] at hw
      simp only [budE] at hd
      simp only [toAstE, un_not]
      refine steps_one ih d s (by omega) hg hw _ _ _ ((steps_emitI .lnot _).to ?_)
      rw [app_app]
      exact app_congr s (by simp [comp, encodeIns_append]) (by simp [nlitsE])
  | plus e ih =>
    intro d s hd hg hw
    cases d with
    | zero => simp [budE] at hd
    | succ d =>
      simp only [wfE] at hw
      simp only [budE] at hd
      simp only [toAstE, un_add]
      refine steps_one ih d s (by omega) hg hw _ _ _ ((Steps.pure () _).to ?_)
      exact app_congr s (by simp [comp]) (by simp [nlitsE])
  | cond c t f ihc iht ihf =>
    intro d s hd hg hw
    cases d with
    | zero => simp [budE] at hd
    | succ d =>
      simp only [wfE, Bool.and_eq_true] at hw
      obtain ⟨⟨hwc, hwt⟩, hwf⟩ := hw
      simp only [budE] at hd
      simp only [toAstE, compileExpr.eq_22]
      have e5a : ∀ t, (encodeInstr opJumpFalsy [t]).length = 5 := fun t => by rw [enc_jump _ _ rfl]; rfl
      have e5b : ∀ t, (encodeInstr opJump [t]).length = 5 := fun t => by rw [enc_jump _ _ rfl]; rfl
      refine Steps.bind (ihc d s (by omega) hg hwc) ?_
      refine Steps.bind (steps_emit_at s _ _ opJumpFalsy [0]) ?_
      refine Steps.bind (iht.at d s _ _ (s.insts.size + esize c + 5) (s.consts.size + nlitsE c) (by omega) hg
        (by simp [encodeIns_length, csize_comp, e5a]; omega) (by simp [lits_length]) hwt) ?_
      refine Steps.bind (steps_emit_at s _ _ opJump [0]) ?_
      refine Steps.bind (steps_curPos_at s _ _) ?_
      refine Steps.bind (steps_patch_at s (encodeIns (comp s.insts.size c)) opJumpFalsy 0 _
        (encodeIns (comp (s.insts.size + esize c + 5) t) ++ encodeInstr opJump [0]) _ _ _ rfl (by decide)
        (by simp [List.append_assoc]) rfl) ?_
      refine Steps.bind (ihf.at d s _ _ (s.insts.size + esize c + 5 + esize t + 5)
        (s.consts.size + nlitsE c + nlitsE t) (by omega) hg
        (by simp [encodeIns_length, csize_comp, e5a, e5b]; omega) (by simp [lits_length]; omega) hwf) ?_
      refine Steps.bind (steps_curPos_at s _ _) ?_
      refine (steps_patch_at s (encodeIns (comp s.insts.size c) ++ encodeInstr opJumpFalsy
          [s.insts.size + esize c + 5 + esize t + 5] ++ encodeIns (comp (s.insts.size + esize c + 5) t))
        opJump 0 _ (encodeIns (comp (s.insts.size + esize c + 5 + esize t + 5) f)) _ _ _ rfl (by decide)
        ?_ ?_).to ?_
      · simp [List.append_assoc, encodeIns_length, csize_comp, e5a, e5b, Nat.add_assoc]
      · simp [List.append_assoc, encodeIns_length, csize_comp, e5a, e5b]
      · refine app_congr s ?_ ?_
        · simp [comp, csize_comp, encodeIns_append, encodeIns_cons, List.append_assoc, encodeIns_length, e5a, e5b,
            enc_jmpf, enc_jmp, Nat.add_assoc, encI_length, Ins.size]
        · simp [nlitsE, lits_add, List.append_assoc, Nat.add_assoc]
  | land l r ihl ihr =>
    intro d s hd hg hw
    cases d with
    | zero => simp [budE] at hd
    | succ d =>
      simp only [wfE, Bool.and_eq_true] at hw
      obtain ⟨hwl, hwr⟩ := hw
      simp only [budE] at hd
      simp only [toAstE, bin_land]
      refine (steps_logical ihl ihr opAndJump rfl (by decide) Ins.andjmp (fun t => enc_of (.andjmp t))
        (fun _ => rfl) d s (by omega) (by omega) hg hwl hwr).to ?_
      exact app_congr s (by simp [comp, csize_comp]) (by simp [nlitsE])
  | lor l r ihl ihr =>
    intro d s hd hg hw
    cases d with
    | zero => simp [budE] at hd
    | succ d =>
      simp only [wfE, Bool.and_eq_true] at hw
      obtain ⟨hwl, hwr⟩ := hw
      simp only [budE] at hd
      simp only [toAstE, bin_lor]
      refine (steps_logical ihl ihr opOrJump rfl (by decide) Ins.orjmp (fun t => enc_of (.orjmp t))
        (fun _ => rfl) d s (by omega) (by omega) hg hwl hwr).to ?_
      exact app_congr s (by simp [comp, csize_comp]) (by simp [nlitsE])

end
end Tengo.Proofs.C01Bridge

import Tengo.Proofs.C16CompileFnIf
/-!
C16 / `tail_pattern_sound`, layer 3c': loops that have a condition — `for init; cond; post { … }` with a condition
and `for k, v in x { … }` — contain the `JMPF` to their own end (`changeOperand(postCondPos, postStmtPos)`), so the
instruction after such a loop is a jump destination for `optimizeFunc` and is never removed as dead code, whatever the
body contains. (`for { … }` without condition has no such jump: code after it IS dropped when the body ends with a
return.) The proofs are those of `forcore_some` / `sspec_fors` (`C02CompileLoop.lean`) and `loopcore` /
`sspec_forin` (`C02CompileInd.lean`) for the result type `SResJ`.
-/
set_option linter.unusedVariables false
set_option linter.unusedSimpArgs false
namespace Tengo.Proofs.C16Fn
open Tengo.Model Tengo.Model.Opcodes Tengo.Model.Compiler Tengo.Model.Optimizer Tengo.Model.Verifier
open Tengo.Model.Spec (Expr Stmt)
open Tengo.Proofs.C03 Tengo.Proofs.C03Reloc Tengo.Proofs.C02Compile

theorem SResJ.pre {s s₁ s' : CState} {L : List Instr} {F F₁ : List Nat} {n : Nat} (hst : Step s s₁ F F₁)
    (hl : s₁.loops = s.loops) (h : SResJ s₁ s' L F₁ n) : SResJ s s' L F n := by
  obtain ⟨B, F', bs, cs, ho, hj⟩ := h
  exact ⟨B, F', bs, cs, ⟨ho.inv, hst.trans ho.step, by rw [ho.loops, hl], by rw [← hl]; exact ho.nopend,
    ho.size, ho.blk⟩, hj⟩

theorem SResJ.mono {s s' : CState} {L : List Instr} {F : List Nat} {n n' : Nat} (h : SResJ s s' L F n)
    (hn : n ≤ n') : SResJ s s' L F n' := by
  obtain ⟨B, F', bs, cs, ho, hj⟩ := h
  exact ⟨B, F', bs, cs, ⟨ho.inv, ho.step, ho.loops, ho.nopend, Nat.le_trans ho.size hn, ho.blk⟩, hj⟩

theorem SResJ.bindQ {s s₁ s₂ : CState} {L : List Instr} {F : List Nat} {n₁ n₂ : Nat} {Q : Chain → Prop}
    (hQ : ∀ c c', ChainLe c c' → Q c → Q c') (hq : Q s.tables)
    (h1 : SRes s s₁ L F n₁) (h2 : ∀ L₁ F₁, Inv s₁ L₁ F₁ → Q s₁.tables → SResJ s₁ s₂ L₁ F₁ n₂) :
    SResJ s s₂ L F (n₁ + n₂) :=
  SResJ.bind h1 (fun L₁ F₁ hi => h2 L₁ F₁ hi (hQ _ _ h1.tabs hq))

theorem forcore_someJ {d : Nat} (ih : All d) (c : Expr) (post : Option Stmt) (body : List Stmt) (s s' : CState)
    (L : List Instr) (F : List Nat)
    (h : (do
      let pre ← curPos
      let pcp ← forCond d (some c)
      enterLoop
      compileBlock d body
      let loop ← leaveLoop
      let pb ← curPos
      compOS d post
      discard <| emit opJump [pre]
      let ps ← curPos
      forPatch pcp ps
      patchAll loop.breaks ps
      patchAll loop.continues pb) s = .ok ((), s'))
    (hinv : Inv s L F) (hszc : szE d c < 2 ^ 30) (hszb : szBlock d body < 2 ^ 30) (hszp : szOS d post < 2 ^ 30) :
    SResJ s s' L F (szE d c + 5 + szBlock d body + szOS d post + 5) := by
  have hjf : isJump opJumpFalsy = true := rfl
  have hjj : isJump opJump = true := rfl
  obtain ⟨pre, s0, h0, hA⟩ := bind_ok h
  have e0 := curPos_ok h0
  have epre : pre = s.insts.size := (Prod.mk.inj e0).1
  have es0 : s0 = s := (Prod.mk.inj e0).2
  subst es0
  obtain ⟨pcp, s3, hc, hB⟩ := bind_ok hA
  clear h hA e0 h0
  -- the condition
  unfold forCond at hc
  obtain ⟨_, s1, h1, hc1⟩ := bind_ok hc
  obtain ⟨jp, s2, h2, hc2⟩ := bind_ok hc1
  have e3 := pure_ok hc2
  have epcp : pcp = some jp := (Prod.mk.inj e3).1
  have es3 : s3 = s2 := (Prod.mk.inj e3).2
  subst es3; subst epcp
  clear hc hc1 hc2 e3
  obtain ⟨C, F₁, o1, hb1⟩ := ih.e c s0 s1 L F h1 hinv hszc
  have e2 := emit_ok h2
  have ejp : jp = s1.insts.size := (Prod.mk.inj e2).1
  have es2 : s3 = emitS opJumpFalsy [0] s1 := (Prod.mk.inj e2).2
  subst es2
  have inv2 := o1.inv.emit (op := opJumpFalsy) (args := [0]) (jump_shape hjf) (opReq_jump hjf)
  have hsz1 : s1.insts.size = totalSize L + totalSize C := by rw [o1.inv.em.size, totalSize_append]
  have hjp : jp = totalSize L + totalSize C := by rw [ejp, hsz1]
  subst hjp
  have hL : totalSize (L ++ C) = totalSize L + totalSize C := totalSize_append _ _
  rw [hL] at inv2
  have hpre : pre = totalSize L := by rw [epre, hinv.em.size]
  subst hpre
  obtain ⟨s8, Bd, P, F', bs, cs, bsP, csP, hK, hinv8, hst, hl8, hnp, hbd, hbp, hsb, hsp⟩ :=
    loop_mid (compileBlock d body) (compOS d post) (szBlock d body) (szOS d post) (fun _ => True)
      (fun _ _ _ _ => trivial)
      (fun s s' L F h hi _ => ih.b body s s' L F h hi hszb) (fun s s' L F h hi _ => sres_optS ih post h hi hszp)
      (totalSize L) (K := fun loop pb ps => do
        forPatch (some (totalSize L + totalSize C)) ps; patchAll loop.breaks ps; patchAll loop.continues pb)
      hB inv2 trivial
  have hM : totalSize (L ++ C ++ [⟨totalSize L + totalSize C, opJumpFalsy, [0]⟩]) = totalSize L + totalSize C + 5 := by
    simp only [totalSize_append, totalSize_cons, totalSize_nil, jump_size hjf]
  rw [hM] at hK hinv8 hbd hbp
  obtain ⟨_, s9, h9, hK2⟩ := bind_ok hK
  have e9 := changeOperand_ok h9
  have es9 : s9 = _ := (Prod.mk.inj e9).2
  subst es9
  have hinv8' : Inv s8 ((L ++ C) ++ ⟨totalSize L + totalSize C, opJumpFalsy, [0]⟩ ::
      (Bd ++ P ++ [⟨totalSize L + totalSize C + 5 + totalSize Bd + totalSize P, opJump, [totalSize L]⟩])) F' := by
    simpa using hinv8
  have hinv9 := hinv8'.patch (t := totalSize L + totalSize C + 5 + totalSize Bd + totalSize P + 5) hjf
  have hf9 := chgS_frame (totalSize L + totalSize C) (totalSize L + totalSize C + 5 + totalSize Bd + totalSize P + 5) s8
  have hinv9' : Inv (chgS (totalSize L + totalSize C) (totalSize L + totalSize C + 5 + totalSize Bd + totalSize P + 5) s8)
      ((L ++ C ++ [⟨totalSize L + totalSize C, opJumpFalsy, [totalSize L + totalSize C + 5 + totalSize Bd + totalSize P + 5]⟩])
        ++ Bd ++ (P ++ [⟨totalSize L + totalSize C + 5 + totalSize Bd + totalSize P, opJump, [totalSize L]⟩])) F' := by
    simpa using hinv9
  obtain ⟨hinv', q1, q2, q3, q4⟩ := loop_patches hK2 hinv9' hbd (by
    simp only [totalSize_append, totalSize_cons, totalSize_nil, jump_size hjf])
  refine ⟨C ++ ⟨totalSize L + totalSize C, opJumpFalsy, [totalSize L + totalSize C + 5 + totalSize Bd + totalSize P + 5]⟩ ::
      (P2 bs (totalSize L + totalSize C + 5 + totalSize Bd + totalSize P + 5) cs (totalSize L + totalSize C + 5 + totalSize Bd) Bd
        ++ P ++ [⟨totalSize L + totalSize C + 5 + totalSize Bd + totalSize P, opJump, [totalSize L]⟩]), F', bsP, csP,
    ⟨by simpa using hinv', ?_, ?_, ?_, ?_, ?_⟩, ?_⟩
  · have st2 : Step s1 (emitS opJumpFalsy [0] s1) F₁ F₁ := Step.of_eq F₁ rfl rfl rfl
    exact (((o1.step.trans st2).trans hst).trans (Step.of_eq F' hf9.2.2.1 hf9.2.1 hf9.1)).trans
      (Step.of_eq F' q3 q2 q1)
  · rw [q4, hf9.2.2.2, hl8]
    show addPend s1.loops bsP csP = _
    rw [o1.loops]
  · intro hn
    exact hnp (by show s1.loops = []; rw [o1.loops]; exact hn)
  · simp only [totalSize_append, totalSize_cons, totalSize_nil, totalSize_P2, jump_size hjf, jump_size hjj]
    have := o1.size; omega
  · exact (SBlk.loopC (hb1 0) hbd hbp).cast rfl (by
      simp only [totalSize_append, totalSize_cons, totalSize_nil, totalSize_P2, jump_size hjf, jump_size hjj] <;> omega)
  · refine ⟨⟨totalSize L + totalSize C, opJumpFalsy, [totalSize L + totalSize C + 5 + totalSize Bd + totalSize P + 5]⟩,
      by simp, rfl, ?_⟩
    simp only [totalSize_append, totalSize_cons, totalSize_nil, totalSize_P2, jump_size hjf, jump_size hjj,
      List.head?_cons]
    congr 1; omega

theorem sspec_forsJ {d : Nat} (ih : All d) (ini : Option Stmt) (c : Expr) (post : Option Stmt)
    (body : List Stmt) (s s' : CState) (L : List Instr) (F : List Nat)
    (h : compileStmt (d + 1) (.fors ini (some c) post body) s = .ok ((), s')) (hinv : Inv s L F)
    (hsz : szS (d + 1) (.fors ini (some c) post body) < 2 ^ 30) :
    SResJ s s' L F (szS (d + 1) (.fors ini (some c) post body)) := by
  rw [compile_fors] at h
  rw [szS_fors] at hsz ⊢
  obtain ⟨_, s0, h0, hA⟩ := bind_ok h
  have e0 : s0 = forkS true s := by
    rw [fork_run] at h0; injection h0 with h0; exact (Prod.mk.inj h0).2.symm
  subst e0
  obtain ⟨_, s1, h1, hB⟩ := bind_ok hA
  have hB' : ((do
      let pre ← curPos
      let pcp ← forCond d (some c)
      enterLoop
      compileBlock d body
      let loop ← leaveLoop
      let pb ← curPos
      compOS d post
      discard <| emit opJump [pre]
      let ps ← curPos
      forPatch pcp ps
      patchAll loop.breaks ps
      patchAll loop.continues pb) >>= fun _ => unfork) s1 = .ok ((), s') := by
    simpa [bind_assoc] using hB
  obtain ⟨_, s2, h2, hC⟩ := bind_ok hB'
  have e2 : s' = unforkS s2 := by
    rw [unfork_run] at hC; injection hC with hC; exact (Prod.mk.inj hC).2.symm
  subst e2
  refine SResJ.forked hinv ?_
  have r1 := sres_optS ih ini h1 hinv.fork (by omega)
  have hass : szOS d ini + szOC d (some c) + szBlock d body + szOS d post + 5 =
      szOS d ini + (szOC d (some c) + szBlock d body + szOS d post + 5) := by omega
  rw [hass]
  refine SResJ.bind r1 (fun L₁ F₁ hinv1 => ?_)
  simp only [szOC] at hsz ⊢
  exact forcore_someJ ih c post body s1 s2 L₁ F₁ h2 hinv1 (by omega) (by omega) (by omega)

/-- a loop whose condition code and body code are given abstractly (no post statement) -/
theorem loopcoreJ (condM bodyM : CM Unit) (nc nb : Nat) (Q : Chain → Prop)
    (hQ : ∀ c c', ChainLe c c' → Q c → Q c')
    (hcond : ∀ s s' L F, condM s = .ok ((), s') → Inv s L F → Q s.tables → ERes s s' L F nc)
    (hbody : ∀ s s' L F, bodyM s = .ok ((), s') → Inv s L F → Q s.tables → SRes s s' L F nb)
    {s s' : CState} {L : List Instr} {F : List Nat}
    (h : (do
      let pre ← curPos
      condM
      let pcp ← emit opJumpFalsy [0]
      enterLoop
      bodyM
      let loop ← leaveLoop
      let pb ← curPos
      (pure () : CM Unit)
      discard <| emit opJump [pre]
      let ps ← curPos
      changeOperand pcp ps
      patchAll loop.breaks ps
      patchAll loop.continues pb) s = .ok ((), s'))
    (hinv : Inv s L F) (hq : Q s.tables) : SResJ s s' L F (nc + 5 + nb + 5) := by
  have hjf : isJump opJumpFalsy = true := rfl
  have hjj : isJump opJump = true := rfl
  obtain ⟨pre, s0, h0, hA⟩ := bind_ok h
  have e0 := curPos_ok h0
  have epre : pre = s.insts.size := (Prod.mk.inj e0).1
  have es0 : s0 = s := (Prod.mk.inj e0).2
  subst es0
  obtain ⟨_, s1, h1, hA1⟩ := bind_ok hA
  obtain ⟨jp, s2, h2, hB⟩ := bind_ok hA1
  clear h hA hA1 e0 h0
  obtain ⟨C, F₁, o1, hb1⟩ := hcond s0 s1 L F h1 hinv hq
  have e2 := emit_ok h2
  have ejp : jp = s1.insts.size := (Prod.mk.inj e2).1
  have es2 : s2 = emitS opJumpFalsy [0] s1 := (Prod.mk.inj e2).2
  subst es2
  have inv2 := o1.inv.emit (op := opJumpFalsy) (args := [0]) (jump_shape hjf) (opReq_jump hjf)
  have hsz1 : s1.insts.size = totalSize L + totalSize C := by rw [o1.inv.em.size, totalSize_append]
  have hjp : jp = totalSize L + totalSize C := by rw [ejp, hsz1]
  subst hjp
  have hL : totalSize (L ++ C) = totalSize L + totalSize C := totalSize_append _ _
  rw [hL] at inv2
  have hpre : pre = totalSize L := by rw [epre, hinv.em.size]
  subst hpre
  have hq1 : Q (emitS opJumpFalsy [0] s1).tables := hQ _ _ o1.step.tabs hq
  obtain ⟨s8, Bd, P, F', bs, cs, bsP, csP, hK, hinv8, hst, hl8, hnp, hbd, hbp, hsb, hsp⟩ :=
    loop_mid bodyM (pure ()) nb 0 Q hQ hbody
      (fun s s' L F h hi _ => by
        have e : s' = s := (Prod.mk.inj (pure_ok h)).2
        subst e; exact SRes.nil hi)
      (totalSize L) (K := fun loop pb ps => do
        changeOperand (totalSize L + totalSize C) ps; patchAll loop.breaks ps; patchAll loop.continues pb)
      hB inv2 hq1
  have hP : totalSize P = 0 := by omega
  have hM : totalSize (L ++ C ++ [⟨totalSize L + totalSize C, opJumpFalsy, [0]⟩]) = totalSize L + totalSize C + 5 := by
    simp only [totalSize_append, totalSize_cons, totalSize_nil, jump_size hjf]
  rw [hM] at hK hinv8 hbd hbp
  obtain ⟨_, s9, h9, hK2⟩ := bind_ok hK
  have e9 := changeOperand_ok h9
  have es9 : s9 = _ := (Prod.mk.inj e9).2
  subst es9
  have hinv8' : Inv s8 ((L ++ C) ++ ⟨totalSize L + totalSize C, opJumpFalsy, [0]⟩ ::
      (Bd ++ P ++ [⟨totalSize L + totalSize C + 5 + totalSize Bd + totalSize P, opJump, [totalSize L]⟩])) F' := by
    simpa using hinv8
  have hinv9 := hinv8'.patch (t := totalSize L + totalSize C + 5 + totalSize Bd + totalSize P + 5) hjf
  have hf9 := chgS_frame (totalSize L + totalSize C) (totalSize L + totalSize C + 5 + totalSize Bd + totalSize P + 5) s8
  have hinv9' : Inv (chgS (totalSize L + totalSize C) (totalSize L + totalSize C + 5 + totalSize Bd + totalSize P + 5) s8)
      ((L ++ C ++ [⟨totalSize L + totalSize C, opJumpFalsy, [totalSize L + totalSize C + 5 + totalSize Bd + totalSize P + 5]⟩])
        ++ Bd ++ (P ++ [⟨totalSize L + totalSize C + 5 + totalSize Bd + totalSize P, opJump, [totalSize L]⟩])) F' := by
    simpa using hinv9
  obtain ⟨hinv', q1, q2, q3, q4⟩ := loop_patches hK2 hinv9' hbd (by
    simp only [totalSize_append, totalSize_cons, totalSize_nil, jump_size hjf])
  refine ⟨C ++ ⟨totalSize L + totalSize C, opJumpFalsy, [totalSize L + totalSize C + 5 + totalSize Bd + totalSize P + 5]⟩ ::
      (P2 bs (totalSize L + totalSize C + 5 + totalSize Bd + totalSize P + 5) cs (totalSize L + totalSize C + 5 + totalSize Bd) Bd
        ++ P ++ [⟨totalSize L + totalSize C + 5 + totalSize Bd + totalSize P, opJump, [totalSize L]⟩]), F', bsP, csP,
    ⟨by simpa using hinv', ?_, ?_, ?_, ?_, ?_⟩, ?_⟩
  · have st2 : Step s1 (emitS opJumpFalsy [0] s1) F₁ F₁ := Step.of_eq F₁ rfl rfl rfl
    exact (((o1.step.trans st2).trans hst).trans (Step.of_eq F' hf9.2.2.1 hf9.2.1 hf9.1)).trans
      (Step.of_eq F' q3 q2 q1)
  · rw [q4, hf9.2.2.2, hl8]
    show addPend s1.loops bsP csP = _
    rw [o1.loops]
  · intro hn
    exact hnp (by show s1.loops = []; rw [o1.loops]; exact hn)
  · simp only [totalSize_append, totalSize_cons, totalSize_nil, totalSize_P2, jump_size hjf, jump_size hjj]
    have := o1.size; omega
  · exact (SBlk.loopC (hb1 0) hbd hbp).cast rfl (by
      simp only [totalSize_append, totalSize_cons, totalSize_nil, totalSize_P2, jump_size hjf, jump_size hjj] <;> omega)
  · refine ⟨⟨totalSize L + totalSize C, opJumpFalsy, [totalSize L + totalSize C + 5 + totalSize Bd + totalSize P + 5]⟩,
      by simp, rfl, ?_⟩
    simp only [totalSize_append, totalSize_cons, totalSize_nil, totalSize_P2, jump_size hjf, jump_size hjj,
      List.head?_cons]
    congr 1; omega

theorem sspec_forinJ {d : Nat} (ih : All d) (k v : String) (itx : Expr) (body : List Stmt)
    (s s' : CState) (L : List Instr) (F : List Nat)
    (h : compileStmt (d + 1) (.forin k v itx body) s = .ok ((), s')) (hinv : Inv s L F)
    (hsz : szS (d + 1) (.forin k v itx body) < 2 ^ 30) :
    SResJ s s' L F (szS (d + 1) (.forin k v itx body)) := by
  rw [compile_forin] at h
  have hszd : szS (d + 1) (.forin k v itx body) = szE d itx + 40 + szBlock d body := by rw [szS]
  rw [hszd] at hsz ⊢
  obtain ⟨_, s0, h0, hA⟩ := bind_ok h
  have e0 : s0 = forkS true s := by
    rw [fork_run] at h0; injection h0 with h0; exact (Prod.mk.inj h0).2.symm
  subst e0
  obtain ⟨it, s1, h1, hB⟩ := bind_ok hA
  have e1 := define_ok h1
  have eit : it = (defS ":it" (forkS true s)).1 := (Prod.mk.inj e1).1
  have es1 : s1 = (defS ":it" (forkS true s)).2 := (Prod.mk.inj e1).2
  subst es1
  obtain ⟨hinv1, hst1, hitok, hitsc⟩ := hinv.fork.define ":it"
  rw [← eit] at hitok hitsc
  have hit : ItOK it (defS ":it" (forkS true s)).2.tables := ⟨hitok, hitsc⟩
  obtain ⟨_, s2, h2, hC⟩ := bind_ok hB
  have hC' : ((do
      let pre ← curPos
      forinCond it
      let pcp ← emit opJumpFalsy [0]
      enterLoop
      forinBody d it k v body
      let loop ← leaveLoop
      let pb ← curPos
      (pure () : CM Unit)
      discard <| emit opJump [pre]
      let ps ← curPos
      changeOperand pcp ps
      patchAll loop.breaks ps
      patchAll loop.continues pb) >>= fun _ => unfork) s2 = .ok ((), s') := by
    simpa [bind_assoc] using hC
  obtain ⟨_, s3, h3, hD⟩ := bind_ok hC'
  have e3 : s' = unforkS s3 := by
    rw [unfork_run] at hD; injection hD with hD; exact (Prod.mk.inj hD).2.symm
  subst e3
  refine SResJ.forked hinv ?_
  refine SResJ.pre hst1 rfl ?_
  have r1 := forinInit_spec ih itx it h2 hinv1 hit (by omega)
  refine (SResJ.bindQ (Q := ItOK it) (fun c c' hc hi => hi.mono hc) hit r1 (fun L₁ F₁ hinv2 hit2 => ?_)).mono
    (by show szE d itx + 1 + 3 + (4 + 5 + (7 + (7 + szBlock d body)) + 5) ≤ _; omega)
  exact loopcoreJ (forinCond it) (forinBody d it k v body) 4 (7 + (7 + szBlock d body)) (ItOK it)
    (fun c c' hc hi => hi.mono hc)
    (fun s s' L F h hi hq => forinCond_spec it h hi hq)
    (fun s s' L F h hi hq => forinBody_spec ih it k v body h hi hq (by omega))
    h3 hinv2 hit2

end Tengo.Proofs.C16Fn

import Tengo.Proofs.C01BridgeF3VMEnc
import Tengo.Proofs.C01BridgeF3VMEqs
/-!
C01 bridge for fragment F3, VM side, layer 1: the relations.

* `DataRel S val`: the data semantics `S : F0.Sem V` of the fragment agrees, through the embedding
  `val : V → Spec.Value`, with the value-level operations the VM's opcodes call, in every heap and without
  touching it (what `binaryOp_sem`, `isFalsy_sem`, `equalsV_sem` say for the scalar semantics `vmSem`), and no
  value of `V` is an `ObjectPtr` (GETL / SETL of the VM dereference such a slot through the heap).
* `CodeRel3`: the VM's code is the byte encoding of the fragment's compiled program (`F3.Mach`): main followed
  by SUSPEND, every function constant `k` is `.fn { insts, numLocals, numParams, varargs := false } (ref k)` for
  an injective `ref`, value constants, the function values (`E.cs k = .cfn (ref k)`, `E.asFn`), operands fit.
* `Rel3`: machine state of the fragment ↔ `VM.Core`: current frame, `sp`, ALL `stackSize` slots, globals, the
  caller frames pointwise, the function objects of the function constants (`fobjs[ref k] = (k, [])`).
* `VM.exec` unfolded for a simple instruction / CALL / RET / SUSPEND of ANY function (`exec_simple_eq3`, …).
-/
set_option linter.unusedVariables false
set_option linter.unusedSimpArgs false
namespace Tengo.Proofs.C01BridgeF3
open Tengo.Model Tengo.Model.Spec Tengo.Model.VM Tengo.Proofs.C01Bridge

variable {V : Type}

/-! ### data -/

/-- The data semantics of the fragment is what the VM's value-level operations do, in every heap. -/
structure DataRel (S : F0.Sem V) (val : V → Value) : Prop where
  binop_ok : ∀ (t : Nat) (a b v : V) (σ : Spec.St), S.binop t a b = some v →
    binaryOp (tokOfNum t) (val a) (val b) σ = .ok (val v, σ)
  binop_err : ∀ (t : Nat) (a b : V) (σ : Spec.St), S.binop t a b = none →
    ∃ e, e ≠ Err.fuel ∧ binaryOp (tokOfNum t) (val a) (val b) σ = .error e
  falsy : ∀ (a : V) (σ : Spec.St), isFalsy (val a) σ = .ok (S.falsy a, σ)
  eqv : ∀ (a b : V) (σ : Spec.St), equalsV 64 (val a) (val b) σ = .ok (S.eqv a b, σ)
  neg_some : ∀ (a v : V), S.neg a = some v →
    (∃ n, val a = .int n ∧ val v = .int (wrap64 (-n))) ∨ (∃ x, val a = .float x ∧ val v = .float (-x))
  neg_none : ∀ (a : V), S.neg a = none → (∀ n, val a ≠ .int n) ∧ (∀ x, val a ≠ .float x)
  bnot_some : ∀ (a v : V), S.bnot a = some v → ∃ n, val a = .int n ∧ val v = .int (-n - 1)
  bnot_none : ∀ (a : V), S.bnot a = none → ∀ n, val a ≠ .int n
  ofBool : ∀ b, val (S.ofBool b) = .bool b
  undef : val S.undef = .undef
  noptr : ∀ (a : V) (c : Nat), val a ≠ .ptr c

/-- Values the VM's `OpCall` reports as "not callable". -/
def NotCallable (v : Value) : Prop := (∀ r, v ≠ .cfn r) ∧ (∀ n, v ≠ .builtin n) ∧ (∀ x, v ≠ .fn x)

/-! ### code -/

/-- Constant and global operands are inside the pool / the globals array. -/
def InsRange3 (K n : Nat) : F3.Ins → Prop
  | .const k => k < K
  | .getg i | .setg i => i < n
  | _ => True

/-- The `VM.Fn` of a compiled function of the fragment. -/
def fnOf (cf : F3.CFn) : Fn :=
  { insts := (encodeIns3 cf.code).toArray, numLocals := cf.nlocals, numParams := cf.nparams, varargs := false }

/-- The VM's code is the byte encoding of the fragment's compiled program. -/
structure CodeRel3 (M : F3.Mach) (K n : Nat) (E : F3.Env V) (val : V → Value) (ref : Nat → Nat) (code : Code) :
    Prop where
  main : code.main.insts = (encodeIns3 M.main ++ [UInt8.ofNat Opcodes.opSuspend]).toArray
  fns : ∀ k cf, M.fns k = some cf → code.consts[k]? = some (.fn (fnOf cf) (ref k))
  vals : ∀ k, k < K → M.fns k = none → code.consts[k]? = some (.val (val (E.cs k)))
  inj : ∀ a b, ref a = ref b → a = b
  csfn : ∀ k cf, M.fns k = some cf → val (E.cs k) = .cfn (ref k)
  asFn_some : ∀ v k, E.asFn v = some k → val v = .cfn (ref k)
  asFn_none : ∀ v, E.asFn v = none → NotCallable (val v)
  fits : ∀ fn is, M.code fn = some is → ∀ i, i ∈ is → InsFits3 i
  rng : ∀ fn is, M.code fn = some is → ∀ i, i ∈ is → InsRange3 K n i

/-! ### states -/

/-- Which function object a frame runs: none for main, the constant's own object for a function constant. -/
def FnRefOK (ref : Nat → Nat) : Nat → Option Nat → Prop
  | 0, r => r = none
  | k + 1, r => r = some (ref k)

/-- A frame of the VM ↔ a frame of the fragment's machine (`ip`: the VM keeps the index of the last consumed
byte, the fragment the offset of the next instruction). -/
structure FrameRel (ref : Nat → Nat) (vf : VM.Frame) (f : F3.Frame) : Prop where
  fn : vf.fnIdx = f.fn
  ip : vf.ip + 1 = (f.ip : Int)
  bp : vf.bp = f.bp
  dis : vf.discard = f.dis
  fref : FnRefOK ref vf.fnIdx vf.fnRef
  free : vf.free = []

/-- The caller frames, pointwise (innermost first). -/
inductive FramesRel (ref : Nat → Nat) : List VM.Frame → List F3.Frame → Prop where
  | nil : FramesRel ref [] []
  | cons {a : VM.Frame} {b : F3.Frame} {as : List VM.Frame} {bs : List F3.Frame} :
      FrameRel ref a b → FramesRel ref as bs → FramesRel ref (a :: as) (b :: bs)

theorem FramesRel.length {ref : Nat → Nat} {as : List VM.Frame} {bs : List F3.Frame} (h : FramesRel ref as bs) :
    as.length = bs.length := by
  induction h with
  | nil => rfl
  | cons _ _ ih => simp [ih]

/-- All `stackSize` slots of the VM's stack are the fragment's stack. -/
def SlotsRel (val : V → Value) (stk : Nat → V) (a : Array Value) : Prop :=
  a.size = stackSize ∧ ∀ i, i < stackSize → a.getD i .undef = val (stk i)

/-- The fragment's globals are `Regs.globals` (`n` slots). -/
def GlobRel3 (n : Nat) (val : V → Value) (g : Nat → V) (a : Array Value) : Prop :=
  a.size = n ∧ ∀ i, i < n → a.getD i .undef = val (g i)

/-- State of the fragment's machine ↔ core of the VM model. -/
structure Rel3 (M : F3.Mach) (n : Nat) (val : V → Value) (ref : Nat → Nat) (s : F3.St V) (c : Core) : Prop where
  cur : FrameRel ref c.cur ⟨s.fn, s.ip, s.bp, s.dis⟩
  sp : c.regs.sp = s.sp
  spb : s.sp ≤ stackSize
  stk : SlotsRel val s.stk c.regs.stack
  glb : GlobRel3 n val s.g c.regs.globals
  callers : FramesRel ref c.callers s.callers
  fobjs : ∀ k cf, M.fns k = some cf → c.regs.fobjs[ref k]? = some (k, [])

theorem SlotsRel.get {val : V → Value} {stk : Nat → V} {a : Array Value} (h : SlotsRel val stk a)
    (r : Regs) (hr : r.stack = a) (i : Nat) (hi : i < stackSize) : getSlot r i = val (stk i) := by
  unfold getSlot; rw [hr]; exact h.2 i hi

theorem SlotsRel.set {val : V → Value} {stk : Nat → V} {a : Array Value} (h : SlotsRel val stk a)
    (j : Nat) (v : V) : SlotsRel val (F0.upd stk j v) (a.setIfInBounds j (val v)) := by
  refine ⟨by simpa using h.1, ?_⟩
  intro i hi
  simp only [Array.getD_eq_getD_getElem?, Array.getElem?_setIfInBounds, F0.upd]
  by_cases hij : j = i
  · subst hij
    have : j < a.size := by rw [h.1]; exact hi
    simp [this]
  · have : ¬ i = j := fun e => hij e.symm
    simp only [hij, this, if_false]
    have := h.2 i hi
    simpa [Array.getD_eq_getD_getElem?] using this

theorem SlotsRel.set' {val : V → Value} {stk : Nat → V} {a : Array Value} (h : SlotsRel val stk a)
    (j : Nat) (v : V) (x : Value) (hx : x = val v) : SlotsRel val (F0.upd stk j v) (a.setIfInBounds j x) := by
  subst hx; exact h.set j v

theorem GlobRel3.set {n : Nat} {val : V → Value} {g : Nat → V} {a : Array Value} (h : GlobRel3 n val g a)
    (j : Nat) (v : V) : GlobRel3 n val (F0.upd g j v) (a.setIfInBounds j (val v)) := by
  refine ⟨by simpa using h.1, ?_⟩
  intro i hi
  simp only [Array.getD_eq_getD_getElem?, Array.getElem?_setIfInBounds, F0.upd]
  by_cases hij : j = i
  · subst hij
    have : j < a.size := by rw [h.1]; exact hi
    simp [this]
  · have : ¬ i = j := fun e => hij e.symm
    simp only [hij, this, if_false]
    have := h.2 i hi
    simpa [Array.getD_eq_getD_getElem?] using this

/-! ### the code of a function, the instruction at `ip` -/

section code
variable {M : F3.Mach} {K n : Nat} {E : F3.Env V} {val : V → Value} {ref : Nat → Nat} {code : Code}

/-- The bytes of function `fn` of the VM's code: the encoding of the fragment's code of `fn`, then nothing
(function constant) or SUSPEND (main). -/
theorem code_fn3 (hcode : CodeRel3 M K n E val ref code) {fn : Nat} {is : List F3.Ins}
    (hc : M.code fn = some is) :
    ∃ f tl, code.fn fn = some f ∧ f.insts = (encodeIns3 is ++ tl).toArray ∧ TailOK tl := by
  cases fn with
  | zero =>
    simp only [F3.Mach.code, Option.some.injEq] at hc
    subst hc
    exact ⟨code.main, _, by simp [Code.fn], hcode.main, .inr rfl⟩
  | succ k =>
    simp only [F3.Mach.code] at hc
    cases hk : M.fns k with
    | none => rw [hk] at hc; cases hc
    | some cf =>
      rw [hk] at hc
      simp only [Option.map_some, Option.some.injEq] at hc
      subst hc
      refine ⟨fnOf cf, [], ?_, by simp [fnOf], .inl rfl⟩
      simp [Code.fn, hcode.fns k cf hk]

/-- Everything the VM side needs about the instruction `i` at offset `p` of the code `is` of the running
function. -/
structure At3 (code : Code) (fnIdx : Nat) (is : List F3.Ins) (p : Nat) (i : F3.Ins) (f : Fn)
    (pre post : List F3.Ins) (tl : List UInt8) : Prop where
  fn : code.fn fnIdx = some f
  split : is = pre ++ i :: post
  off : F3.csize pre = p
  bytes : f.insts = (encodeIns3 is ++ tl).toArray
  tail : TailOK tl
  lt : p < f.insts.size
  fetch : VM.fetch f (p : Int) = fetchedOf3 i
  fits : InsFits3 i
  rng : InsRange3 K n i

theorem at_fetch3 (hcode : CodeRel3 M K n E val ref code) {fn p : Nat} {is : List F3.Ins} {i : F3.Ins}
    (hc : M.code fn = some is) (hf : F3.fetch is p = some i) :
    ∃ f pre post tl, At3 (K := K) (n := n) code fn is p i f pre post tl := by
  obtain ⟨f, tl, hfn, hb, ht⟩ := code_fn3 hcode hc
  obtain ⟨pre, post, he, hp⟩ := fetch_split3 is p i hf
  have hmem : i ∈ is := by rw [he]; simp
  have hfit := hcode.fits fn is hc i hmem
  have hb' : f.insts = (encodeIns3 (pre ++ i :: post) ++ tl).toArray := by rw [← he]; exact hb
  obtain ⟨h1, h2⟩ := fetch_at3 f pre post i tl hfit hb'
  rw [hp] at h1 h2
  exact ⟨f, pre, post, tl, ⟨hfn, he, hp, hb, ht, h1, h2, hfit, hcode.rng fn is hc i hmem⟩⟩

end code

/-! ### one dispatch, any function -/

theorem exec_simple_eq3 (code : Code) (c : Core) (f : Fn) (p : Nat) (hf : code.fn c.cur.fnIdx = some f)
    (hip : c.cur.ip + 1 = (p : Int)) (hlt : p < f.insts.size) (i : Fetched)
    (hi : VM.fetch f (p : Int) = i) (h1 : i.op ≠ Opcodes.opCall) (h2 : i.op ≠ Opcodes.opReturn)
    (h3 : i.op ≠ Opcodes.opSuspend) :
    exec code c = (do
      let o ← execSimple code c.cur i.a0 i.a1 i.op c.regs
      pure (.next (nextCore c p i.size o) o.alloc)) := by
  unfold exec
  simp only [hf, hip]
  have hnot : ((p : Int) < 0 || decide ((p : Int).toNat ≥ f.insts.size)) = false := by
    simp; omega
  simp only [hnot, hi]
  simp [h1, h2, h3, nextCore]
  rfl

theorem exec_call_eq3 (code : Code) (c : Core) (f : Fn) (p : Nat) (hf : code.fn c.cur.fnIdx = some f)
    (hip : c.cur.ip + 1 = (p : Int)) (hlt : p < f.insts.size) (i : Fetched)
    (hi : VM.fetch f (p : Int) = i) (h1 : i.op = Opcodes.opCall) :
    exec code c = execCall code f (p : Int) i.a0 i.a1 c := by
  unfold exec
  simp only [hf, hip]
  have hnot : ((p : Int) < 0 || decide ((p : Int).toNat ≥ f.insts.size)) = false := by
    simp; omega
  simp only [hnot, hi]
  simp [h1]

theorem exec_ret_eq3 (code : Code) (c : Core) (f : Fn) (p : Nat) (hf : code.fn c.cur.fnIdx = some f)
    (hip : c.cur.ip + 1 = (p : Int)) (hlt : p < f.insts.size) (i : Fetched)
    (hi : VM.fetch f (p : Int) = i) (h1 : i.op = Opcodes.opReturn) :
    exec code c = execReturn i.a0 c := by
  unfold exec
  simp only [hf, hip]
  have hnot : ((p : Int) < 0 || decide ((p : Int).toNat ≥ f.insts.size)) = false := by
    simp; omega
  simp only [hnot, hi]
  simp [h1, Opcodes.opReturn, Opcodes.opCall]

theorem exec_suspend3 (code : Code) (c : Core) (f : Fn) (p : Nat) (hf : code.fn c.cur.fnIdx = some f)
    (hip : c.cur.ip + 1 = (p : Int)) (hlt : p < f.insts.size)
    (hop : (VM.fetch f (p : Int)).op = Opcodes.opSuspend) :
    exec code c = pure (.halt { c with cur := { c.cur with ip := (p : Int) } }) := by
  unfold exec
  simp only [hf, hip]
  have hnot : ((p : Int) < 0 || decide ((p : Int).toNat ≥ f.insts.size)) = false := by
    simp; omega
  simp only [hnot, hop]
  simp [Opcodes.opSuspend, Opcodes.opCall, Opcodes.opReturn]

/-- The instructions of F3 that neither call nor return. -/
def Simple3 : F3.Ins → Prop
  | .call _ | .ret _ => False
  | _ => True

theorem fetchedOf3_simple (i : F3.Ins) (hs : Simple3 i) : (fetchedOf3 i).op ≠ Opcodes.opCall ∧
    (fetchedOf3 i).op ≠ Opcodes.opReturn ∧ (fetchedOf3 i).op ≠ Opcodes.opSuspend := by
  cases i <;> first
    | exact absurd hs id
    | simp [fetchedOf3, Opcodes.opCall, Opcodes.opReturn, Opcodes.opSuspend]

theorem xok_exec_of3 {code : Code} {c : Core} {f : Fn} {p : Nat} {i : F3.Ins} {g : GSt} {h : Spec.St} {o : SimpleOut}
    (hs : Simple3 i) (hf : code.fn c.cur.fnIdx = some f)
    (hip : c.cur.ip + 1 = (p : Int)) (hlt : p < f.insts.size)
    (hfetch : VM.fetch f (p : Int) = fetchedOf3 i)
    (ho : XOk (execSimple code c.cur (fetchedOf3 i).a0 (fetchedOf3 i).a1 (fetchedOf3 i).op c.regs) g h o) :
    XOk (exec code c) g h (.next (nextCore c p i.size o) o.alloc) := by
  obtain ⟨h1, h2, h3⟩ := fetchedOf3_simple i hs
  rw [exec_simple_eq3 code c f p hf hip hlt (fetchedOf3 i) hfetch h1 h2 h3, fetchedOf3_size]
  exact XOk.bind ho (XOk.pure _ g h)

theorem xfail_exec_of3 {code : Code} {c : Core} {f : Fn} {p : Nat} {i : F3.Ins} {g : GSt} {h : Spec.St} {e : Err}
    (hs : Simple3 i) (hf : code.fn c.cur.fnIdx = some f)
    (hip : c.cur.ip + 1 = (p : Int)) (hlt : p < f.insts.size)
    (hfetch : VM.fetch f (p : Int) = fetchedOf3 i)
    (ho : XFail (execSimple code c.cur (fetchedOf3 i).a0 (fetchedOf3 i).a1 (fetchedOf3 i).op c.regs) g h e) :
    XFail (exec code c) g h e := by
  obtain ⟨h1, h2, h3⟩ := fetchedOf3_simple i hs
  rw [exec_simple_eq3 code c f p hf hip hlt (fetchedOf3 i) hfetch h1 h2 h3]
  exact XFail.bind_left ho

/-- The relation after a simple instruction: only `ip`, `sp`, the stack and the globals may have changed. -/
theorem rel_next3 {M : F3.Mach} {n : Nat} {val : V → Value} {ref : Nat → Nat} {s : F3.St V} {c : Core}
    (hrel : Rel3 M n val ref s c) (size : Nat) (o : SimpleOut)
    (ip' sp' : Nat) (stk' g' : Nat → V)
    (hsp : o.regs.sp = sp') (hspb : sp' ≤ stackSize) (hstk : SlotsRel val stk' o.regs.stack)
    (hglb : GlobRel3 n val g' o.regs.globals) (hfo : o.regs.fobjs = c.regs.fobjs)
    (hip : match o.next with
      | .seq => ip' = s.ip + size
      | .jump t => ip' = t) :
    Rel3 M n val ref { s with ip := ip', sp := sp', stk := stk', g := g' } (nextCore c s.ip size o) := by
  refine ⟨⟨hrel.cur.fn, ?_, hrel.cur.bp, hrel.cur.dis, hrel.cur.fref, hrel.cur.free⟩, hsp, hspb, hstk, hglb,
    hrel.callers, ?_⟩
  · unfold nextCore
    cases hn : o.next with
    | seq => rw [hn] at hip; simp only [hip]; omega
    | jump t => rw [hn] at hip; simp only [hip, Int.ofNat_eq_natCast]; omega
  · intro k cf hk
    show o.regs.fobjs[ref k]? = _
    rw [hfo]
    exact hrel.fobjs k cf hk

end Tengo.Proofs.C01BridgeF3

import Tengo.Props.C17
import Tengo.Model.FormatSpecHex
/-!
Helper lemmas for C17 (`M = G` for `%x` / `%X` on strings and byte slices): the encoding loop of `fmtSbx`
(`sbxLead ++ sbxEnc … true`) is the declarative `hexBody`; the encoding is ASCII, so its rune count is its
length (= the `width` that `fmtSbx` computes, `sbx_width`); and the control flow of `fmtSbx` (left padding,
the O11 guard, the direct append, right padding) is ONE guarded write of the padded encoding.
-/
namespace Tengo.Proofs.C17Hex
open Tengo.Model.Format Tengo.Model.FormatSpec Tengo.Model.FormatSpecHex Tengo.Proofs.FormatGood
  Tengo.Proofs.FormatParse Tengo.Props.C17

/-! ### the encoding loop = `hexBody` -/

theorem hexByte_eq (up : Bool) (c : UInt8) : hexByte up c = hexPair up c := rfl

theorem sbxEnc_nospace (f : Fl) (up : Bool) (hsp : f.space = false) :
    ∀ (first : Bool) (bs : Bytes), sbxEnc f up first bs = bs.flatMap (hexPair up) := by
  intro first bs
  induction bs generalizing first with
  | nil => simp [sbxEnc]
  | cons c rest ih => simp [sbxEnc, hsp, ih, hexByte_eq]

/-- One element of the spaced form: the mark (with `#`) and the two digits. -/
def piece (sharp up : Bool) (c : UInt8) : Bytes := (if sharp then hexMark up else []) ++ hexPair up c

theorem sbxEnc_space_false (f : Fl) (up : Bool) (hsp : f.space = true) :
    ∀ bs : Bytes, sbxEnc f up false bs = bs.flatMap (fun c => 32 :: piece f.sharp up c) := by
  intro bs
  induction bs with
  | nil => simp [sbxEnc]
  | cons c rest ih =>
    simp only [sbxEnc, hsp, ih, hexByte_eq, List.flatMap_cons, piece, hexMark]
    cases f.sharp <;> simp

theorem joinBlank_map (sharp up : Bool) : ∀ (c : UInt8) (rest : Bytes),
    joinBlank ((c :: rest).map (piece sharp up)) = piece sharp up c ++ rest.flatMap (fun c => 32 :: piece sharp up c) := by
  intro c rest
  induction rest generalizing c with
  | nil => simp [joinBlank]
  | cons c2 rest ih =>
    have := ih c2
    simp only [List.map_cons] at this ⊢
    simp only [joinBlank, this, List.flatMap_cons, List.cons_append]

/-- What `fmtSbx` appends for a non-empty input is `G`'s encoding. -/
theorem sbx_body_eq (f : Fl) (up : Bool) (bs : Bytes) (hne : bs ≠ []) :
    sbxLead f up ++ sbxEnc f up true bs = hexBody f.sharp f.space up bs := by
  cases bs with
  | nil => exact absurd rfl hne
  | cons c rest =>
    unfold hexBody
    cases hsp : f.space with
    | false =>
      simp only [Bool.false_eq_true, if_false, List.cons_ne_nil]
      rw [sbxEnc_nospace f up hsp]
      rfl
    | true =>
      simp only [if_true]
      have hj := joinBlank_map f.sharp up c rest
      unfold piece at hj
      rw [hj]
      simp only [sbxEnc, hsp, Bool.not_true, Bool.and_false, Bool.false_eq_true, if_false, List.nil_append,
        sbxEnc_space_false f up hsp, hexByte_eq, sbxLead, hexMark, piece, List.append_assoc]

theorem hexBody_nil (sharp space up : Bool) : hexBody sharp space up [] = [] := by
  unfold hexBody
  cases space <;> simp [joinBlank]

/-! ### the encoding is ASCII: runes = bytes -/

def Ascii (l : Bytes) : Prop := ∀ b ∈ l, b.toNat < 128

theorem runeCount_ascii : ∀ l : Bytes, Ascii l → runeCount l = l.length := by
  intro l
  induction l with
  | nil => intro _; simp [runeCount]
  | cons b t ih =>
    intro h
    have hb : b.toNat < 128 := h b (by simp)
    have ht : Ascii t := fun x hx => h x (by simp [hx])
    rw [runeCount]
    have hd : (decodeRune (b :: t)).2 = 1 := by simp [decodeRune, hb]
    rw [hd]
    simp [ih ht]
    omega

theorem digitChar_ascii (up : Bool) (d : Nat) (h : d < 16) : (digitChar up d).toNat < 128 := by
  unfold digitChar
  split
  · simp [Nat.toUInt8]; omega
  · split <;> (simp [Nat.toUInt8]; omega)

theorem sbxEnc_ascii (f : Fl) (up : Bool) : ∀ (bs : Bytes) (first : Bool), Ascii (sbxEnc f up first bs) := by
  intro bs
  induction bs with
  | nil => intro first b hb; simp [sbxEnc] at hb
  | cons c rest ih =>
    intro first b hb
    have h1 := digitChar_ascii up (c.toNat / 16) (by have := c.toNat_lt; omega)
    have h2 := digitChar_ascii up (c.toNat % 16) (by omega)
    simp only [sbxEnc, hexByte, List.mem_append, List.mem_cons, List.not_mem_nil, or_false] at hb
    rcases hb with (hb | hb) | hb
    · split at hb
      · simp only [List.mem_cons] at hb
        rcases hb with hb | hb
        · subst hb; decide
        · split at hb
          · simp only [List.mem_cons, List.not_mem_nil, or_false] at hb
            rcases hb with hb | hb
            · subst hb; decide
            · subst hb; cases up <;> decide
          · simp at hb
      · simp at hb
    · rcases hb with hb | hb
      · subst hb; exact h1
      · subst hb; exact h2
    · exact ih false b hb

theorem sbx_ascii (f : Fl) (up : Bool) (bs : Bytes) : Ascii (sbxLead f up ++ sbxEnc f up true bs) := by
  intro b hb
  rw [List.mem_append] at hb
  rcases hb with hb | hb
  · unfold sbxLead at hb
    split at hb
    · simp only [List.mem_cons, List.not_mem_nil, or_false] at hb
      rcases hb with hb | hb
      · subst hb; decide
      · subst hb; cases up <;> decide
    · simp at hb
  · exact sbxEnc_ascii f up bs true b hb

/-! ### the control flow of `fmtSbx` is one guarded write -/

theorem write_nil (L : Nat) (buf : Bytes) (h : buf.length ≤ L) : write L buf [] = .ok buf := by
  unfold write
  simp; omega

/-- The non-empty branch, over an abstract body of the computed width. -/
theorem sbx_core (L : Nat) (f : Fl) (buf body : Bytes) (width : Nat) (hlen : body.length = width)
    (hrc : runeCount body = width) (h : buf.length ≤ L) :
    (match (if f.widPresent && decide (f.wid > width) && !f.minus then writePadding L f.zero buf ((f.wid : Int) - width) else .ok buf) with
      | .error e => .error e
      | .ok buf =>
        if buf.length + width > L then .error .limit
        else
          let buf := buf ++ body
          if f.widPresent && decide (f.wid > width) && f.minus then writePadding L f.zero buf ((f.wid : Int) - width) else .ok buf)
      = write L buf (padded f body) := by
  have hcore : ∀ b : Bytes, (if b.length + width > L then (Except.error Err.limit : R) else .ok (b ++ body)) = write L b body := by
    intro b; unfold write; rw [hlen]
  unfold padded
  rw [hrc]
  cases hwp : f.widPresent with
  | false =>
    simp only [Bool.false_and, Bool.false_eq_true, if_false, Bool.not_false, Bool.true_or, if_true]
    exact hcore buf
  | true =>
    simp only [Bool.true_and, Bool.not_true, Bool.false_or]
    cases hm : f.minus with
    | false =>
      simp only [Bool.not_false, Bool.and_true, Bool.and_false, Bool.false_eq_true, if_false, if_true]
      by_cases hgt : f.wid > width
      · have h0 : (f.wid == 0) = false := by simp; omega
        simp only [hgt, decide_true, if_true, h0, Bool.false_eq_true, if_false]
        rw [writePadding_eq L f.zero buf f.wid width h, ← write_write]
        cases hw : write L buf (List.replicate (f.wid - width) (if f.zero = true then (48 : UInt8) else 32)) with
        | error e => rfl
        | ok b => simp only [bind, Except.bind]; exact hcore b
      · have hr : f.wid - width = 0 := by omega
        simp only [hgt, decide_false, Bool.false_eq_true, if_false, hr, List.replicate_zero, List.nil_append]
        rw [hcore buf]
        split <;> rfl
    | true =>
      simp only [Bool.not_true, Bool.and_false, Bool.false_eq_true, if_false, Bool.and_true]
      by_cases hgt : f.wid > width
      · have h0 : (f.wid == 0) = false := by simp; omega
        simp only [hgt, decide_true, if_true, h0, Bool.false_eq_true, if_false]
        rw [← write_then_padding L f.zero buf body f.wid width]
        unfold write
        rw [hlen]
        split
        · rfl
        · rfl
      · have hr : f.wid - width = 0 := by omega
        simp only [hgt, decide_false, Bool.false_eq_true, if_false, hr, List.replicate_zero, List.append_nil]
        rw [hcore buf]
        split <;> rfl

theorem sbxLength_take (f : Fl) (s : Bytes) :
    s.take (sbxLength f s) = (if f.precPresent then s.take f.prec else s) := by
  unfold sbxLength
  cases hp : f.precPresent with
  | false => simp
  | true =>
    by_cases hlt : f.prec < s.length
    · simp [hlt]
    · simp only [Bool.true_and, hlt, decide_false, Bool.false_eq_true, if_false, if_true, List.take_length]
      rw [List.take_of_length_le (by omega)]

/-- **`fmtSbx` is one guarded write** of the padded encoding of the truncated input (any flag record). -/
theorem fmtSbx_eq_write (L : Nat) (f : Fl) (buf s : Bytes) (up : Bool) (h : buf.length ≤ L) :
    fmtSbx L f buf s up =
      write L buf (padded f (hexBody f.sharp f.space up (if f.precPresent then s.take f.prec else s))) := by
  rw [← sbxLength_take]
  unfold fmtSbx
  by_cases h0 : sbxLength f s = 0
  · simp only [h0, if_true, List.take_zero, hexBody_nil]
    unfold padded
    cases hwp : f.widPresent with
    | false => simp [write_nil L buf h]
    | true =>
      have hp := writePadding_eq L f.zero buf f.wid 0 h
      simp only [Int.natCast_zero, Int.sub_zero, Nat.sub_zero] at hp
      simp only [if_true, hp, Bool.not_true, Bool.false_or, runeCount, Nat.sub_zero, List.append_nil, List.nil_append]
      by_cases hw0 : f.wid = 0
      · simp [hw0]
      · have : (f.wid == 0) = false := by simpa using hw0
        simp only [this, Bool.false_eq_true, if_false]
        split <;> simp
  · simp only [h0, if_false]
    have hle := sbxLength_le f s
    have hne : s.take (sbxLength f s) ≠ [] := by
      intro hc
      have := congrArg List.length hc
      rw [List.length_take] at this
      simp only [List.length_nil] at this
      omega
    have hlen : (s.take (sbxLength f s)).length = sbxLength f s := by rw [List.length_take]; omega
    have hw := sbx_width f up _ hne
    rw [hlen] at hw
    have hrc := runeCount_ascii _ (sbx_ascii f up (s.take (sbxLength f s)))
    rw [hw] at hrc
    rw [← sbx_body_eq f up _ hne]
    exact sbx_core L f buf _ (sbxWidth f (sbxLength f s)) hw hrc h

/-! ### under the flags of a directive -/

/-- `fmtSbx` under the flags of a directive is one guarded write of `G`'s text. -/
theorem fmtSbx_eq_G (L : Nat) (d : GDir) (buf s : Bytes) (up : Bool) (hup : up = decide (d.verb = 88)) (h : buf.length ≤ L) :
    fmtSbx L (flOf d) buf s up = write L buf (renderHex d s) := by
  rw [fmtSbx_eq_write L (flOf d) buf s up h]
  unfold renderHex
  rw [← padded_eq_field d true, flOf_zero, hup]
  congr 2
  cases hp : d.prec with
  | none => simp [flOf, hp]
  | some p => simp [flOf, hp]

/-- **`%x` / `%X` on strings and bytes**, with `#`, ` `, `-`, `0`, width and precision (= number of input bytes): `M = G`. -/
theorem printArg_hex (O : Oracle) (L : Nat) (d : GDir) (buf s : Bytes) (hv : d.verb = 120 ∨ d.verb = 88) (h : buf.length ≤ L) :
    printArg O L (flOf d) buf (.str s) d.verb = write L buf (renderHex d s) ∧
    printArg O L (flOf d) buf (.bytes s) d.verb = write L buf (renderHex d s) := by
  rcases hv with hv | hv
  · have key := fmtSbx_eq_G L d buf s false (by simp [hv]) h
    constructor
    · simp [printArg, printStr, hv, key]
    · simp [printArg, printBytes, hv, key]
  · have key := fmtSbx_eq_G L d buf s true (by simp [hv]) h
    constructor
    · simp [printArg, printStr, hv, key]
    · simp [printArg, printBytes, hv, key]

end Tengo.Proofs.C17Hex

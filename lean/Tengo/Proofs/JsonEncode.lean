import Tengo.Proofs.JsonString
import Tengo.Proofs.JsonGrammar
/-!
C18: what `encode` writes for a float-free representable value is a JSON value of the grammar that
denotes the canonical form of that value.
-/
namespace Tengo.Proofs.JsonEncode
open Tengo.Model.Json Tengo.Proofs.JsonString Tengo.Proofs.JsonGrammar

/-! ### decimal digits -/

theorem digitChar_toNat (n : Nat) (h : n < 10) : (digitChar n).toNat = 0x30 + n := by
  unfold digitChar; exact toNat_ofNat_lt (0x30 + n) (by omega)

theorem isDigit_ofNat (n : Nat) (h : n < 10) : isDigit (digitChar n) = true := by
  unfold isDigit; rw [digitChar_toNat n h]; simp; omega

theorem digit_val (n : Nat) (h : n < 10) : (digitChar n).toNat - 0x30 = n := by
  rw [digitChar_toNat n h]; omega

theorem natDigitsF_digits : ∀ (f n : Nat), ∀ d ∈ natDigitsF f n, isDigit d = true := by
  intro f
  induction f with
  | zero => intro n d hd; simp [natDigitsF] at hd
  | succ f ih =>
    intro n d hd
    simp only [natDigitsF] at hd
    split at hd
    · simp at hd; subst hd; exact isDigit_ofNat n (by omega)
    · simp only [List.mem_append, List.mem_singleton] at hd
      rcases hd with hd | rfl
      · exact ih _ _ hd
      · exact isDigit_ofNat _ (Nat.mod_lt _ (by decide))

theorem parseDigitsAux_append (xs ys : Bytes) : ∀ acc, parseDigitsAux acc (xs ++ ys) =
    (parseDigitsAux acc xs).bind (fun a => parseDigitsAux a ys) := by
  induction xs with
  | nil => intro acc; simp [parseDigitsAux]
  | cons c xs ih =>
    intro acc
    simp only [List.cons_append, parseDigitsAux]
    split
    · exact ih _
    · rfl

theorem parseDigitsAux_natDigitsF : ∀ (f n : Nat), n < 10 ^ f → parseDigitsAux 0 (natDigitsF f n) = some n := by
  intro f
  induction f with
  | zero => intro n h; simp at h; subst h; simp [natDigitsF, parseDigitsAux]
  | succ f ih =>
    intro n h
    simp only [natDigitsF]
    split
    · rename_i h10
      simp [parseDigitsAux, isDigit_ofNat n h10, digit_val n h10]
    · have h1 : n / 10 < 10 ^ f := by
        rw [Nat.pow_succ] at h
        exact Nat.div_lt_of_lt_mul (by rw [Nat.mul_comm]; exact h)
      have hm : n % 10 < 10 := Nat.mod_lt _ (by decide)
      rw [parseDigitsAux_append, ih _ h1]
      simp [parseDigitsAux, isDigit_ofNat _ hm, digit_val _ hm]
      omega

theorem natDigitsF_ne_nil (f n : Nat) : natDigitsF (f + 1) n ≠ [] := by
  simp only [natDigitsF]; split <;> simp

/-- The first digit of a positive number is 1–9. -/
theorem natDigitsF_head : ∀ (f n : Nat), 0 < n → n < 10 ^ f →
    ∃ d ds, natDigitsF f n = d :: ds ∧ isDigit19 d = true := by
  intro f
  induction f with
  | zero => intro n h0 h; simp at h; omega
  | succ f ih =>
    intro n h0 h
    simp only [natDigitsF]
    split
    · rename_i h10
      refine ⟨_, [], rfl, ?_⟩
      unfold isDigit19; rw [digitChar_toNat n h10]; simp; omega
    · have h1 : n / 10 < 10 ^ f := by
        rw [Nat.pow_succ] at h
        exact Nat.div_lt_of_lt_mul (by rw [Nat.mul_comm]; exact h)
      obtain ⟨d, ds, he, hd⟩ := ih (n / 10) (by omega) h1
      exact ⟨d, ds ++ [digitChar (n % 10)], by rw [he]; rfl, hd⟩

theorem numRest_int_digits (ds : Bytes) (h : ∀ d ∈ ds, isDigit d = true) : NumRest .int ds := by
  induction ds with
  | nil => exact .intEnd
  | cons d ds ih => exact .intDigit (h d (by simp)) (ih (fun x hx => h x (by simp [hx])))

theorem digit_not_float (d : UInt8) (h : isDigit d = true) : isFloatByte d = false := by
  simp only [isDigit, Bool.and_eq_true, decide_eq_true_eq] at h
  simp only [isFloatByte, Bool.or_eq_false_iff, decide_eq_false_iff_not]
  refine ⟨⟨?_, ?_⟩, ?_⟩ <;> (intro e; subst e; simp at h)

theorem any_float_digits (ds : Bytes) (h : ∀ d ∈ ds, isDigit d = true) : ds.any isFloatByte = false := by
  induction ds with
  | nil => rfl
  | cons d ds ih => simp [List.any, digit_not_float d (h d (by simp)), ih (fun x hx => h x (by simp [hx]))]

theorem pow20 : (2 : Nat) ^ 63 < 10 ^ 20 := by decide

/-- `strconv.AppendInt` output for an int64 is a number token that the decoder types as that int. -/
theorem appendInt_tok (pf : Bytes → UInt64) (i : Int) (h1 : -(2 : Int) ^ 63 ≤ i) (h2 : i < (2 : Int) ^ 63) :
    NumTok (appendInt i) ∧ number pf ((appendInt i).any isFloatByte) (appendInt i) = .int i := by
  cases i with
  | ofNat n =>
    have hn : n < 2 ^ 63 := by
      have : (n : Int) < (2 : Int) ^ 63 := h2
      exact_mod_cast this
    have hlt : n < 10 ^ 20 := Nat.lt_trans hn pow20
    have hdig := natDigitsF_digits 20 n
    have hval := parseDigitsAux_natDigitsF 20 n hlt
    simp only [appendInt, natDigits]
    by_cases h0 : n = 0
    · subst h0
      exact ⟨by simpa [natDigitsF, digitChar] using NumTok.zero .zeroEnd, by simp [natDigitsF, digitChar, number, List.any, isFloatByte, parseInt, parseDigits, parseDigitsAux, isDigit]⟩
    · obtain ⟨d, ds, he, hd⟩ := natDigitsF_head 20 n (by omega) hlt
      rw [he] at hdig hval ⊢
      refine ⟨.int hd (numRest_int_digits ds (fun x hx => hdig x (by simp [hx]))), ?_⟩
      have hnf := any_float_digits (d :: ds) hdig
      have hd' := hdig d (by simp)
      have hne : d ≠ 0x2D ∧ d ≠ 0x2B := by
        simp only [isDigit, Bool.and_eq_true, decide_eq_true_eq] at hd'
        constructor <;> (intro e; subst e; simp at hd')
      simp only [number, hnf, Bool.false_eq_true, if_false]
      have : parseInt (d :: ds) = some (Int.ofNat n) := by
        unfold parseInt
        split
        · rename_i heq; simp at heq; exact absurd heq.1 hne.1
        · rename_i heq; simp at heq; exact absurd heq.1 hne.2
        · simp [parseDigits, hval, hn]
      rw [this]
  | negSucc m =>
    have hm : m + 1 ≤ 2 ^ 63 := by
      have : -(2 : Int) ^ 63 ≤ Int.negSucc m := h1
      rw [Int.negSucc_eq] at this
      have h3 : ((m : Int) + 1) ≤ (2 : Int) ^ 63 := by omega
      exact_mod_cast h3
    have hlt : m + 1 < 10 ^ 20 := Nat.lt_of_le_of_lt hm pow20
    have hdig := natDigitsF_digits 20 (m + 1)
    have hval := parseDigitsAux_natDigitsF 20 (m + 1) hlt
    simp only [appendInt, natDigits]
    obtain ⟨d, ds, he, hd⟩ := natDigitsF_head 20 (m + 1) (by omega) hlt
    rw [he] at hdig hval ⊢
    refine ⟨.neg (.negInt hd (numRest_int_digits ds (fun x hx => hdig x (by simp [hx])))), ?_⟩
    have hnf := any_float_digits (d :: ds) hdig
    have h2d : isFloatByte 0x2D = false := by decide
    simp only [number, List.any_cons, h2d, Bool.false_or, hnf, Bool.false_eq_true, if_false]
    have : parseInt (0x2D :: d :: ds) = some (Int.negSucc m) := by
      simp only [parseInt, parseDigits, hval, hm, if_true]
      rw [Int.negSucc_eq]; simp
    rw [this]

/-! ### strings -/

theorem isHex_hexDigit : ∀ n : Fin 16, isHex (hexDigit n.val) = true := by decide

/-- Whatever bytes a string holds, what `encodeString` puts between the quotes is a string body of the grammar. -/
theorem strBody_slowPath (s : Bytes) : StrBody (slowPath s) := by
  induction s with
  | nil => exact .nil
  | cons c s ih =>
    simp only [slowPath]
    split
    · rename_i hc
      split
      · rename_i hs
        simp only [safeSet, Bool.and_eq_true, decide_eq_true_eq, bne_iff_ne, ne_eq] at hs
        exact .plain (by omega) hs.1.2 hs.2 ih
      · unfold escByte
        split
        · rename_i h; exact .esc (by simp only [Bool.or_eq_true, decide_eq_true_eq] at h; rcases h with rfl | rfl <;> decide) ih
        · split
          · exact .esc (by decide) ih
          · split
            · exact .esc (by decide) ih
            · split
              · exact .esc (by decide) ih
              · have h1 := isHex_hexDigit ⟨c.toNat / 16, by omega⟩
                have h2 := isHex_hexDigit ⟨c.toNat % 16, by omega⟩
                exact .uni (by decide) (by decide) h1 h2 ih
    · rename_i hc
      obtain ⟨n1, n2, n3, _⟩ := high_ne c (by omega)
      exact .plain n3 n2 n1 ih

theorem encodeString_quote (s : Bytes) : encodeString s = quote (slowPath s) := by
  rw [encodeString_eq]; rfl

theorem strDen_slowPath (s : Bytes) (h : ValidUTF8 s) : strDen (slowPath s) = s := by
  obtain ⟨rs, hrs, rfl⟩ := h
  unfold strDen
  have : unquote (quote (slowPath (utf8 rs))) = some (utf8 rs) := by
    show unquoteBytes (0x22 :: slowPath (utf8 rs) ++ [0x22]) = _
    rw [unquoteBytes_quoted]
    have key := fast_then_slow rs hrs _ _ (Nat.le_refl _) (Nat.le_refl _)
    split
    · rename_i hlen
      rw [hlen] at key
      simp [unqLoop_nil] at key
      rw [key]
    · exact key
  rw [this]; rfl

/-! ### representable values and their canonical form -/

mutual
  /-- The canonical form: what a Go map holds after the members are inserted in order. -/
  def canon : J → J
    | .arr xs => .arr (canonList xs)
    | .obj es => .obj (insertAll (canonMems es) .nil)
    | .null => .null
    | .bool b => .bool b
    | .int i => .int i
    | .float f => .float f
    | .str s => .str s
  def canonList : JList → JList
    | .nil => .nil
    | .cons x xs => .cons (canon x) (canonList xs)
  def canonMems : JMems → JMems
    | .nil => .nil
    | .cons k v es => .cons k (canon v) (canonMems es)
end

mutual
  /-- Float-free JSON-representable values: ints within int64, strings and keys valid UTF-8. -/
  def Rep : J → Prop
    | .null => True
    | .bool _ => True
    | .int i => -(2 : Int) ^ 63 ≤ i ∧ i < (2 : Int) ^ 63
    | .float _ => False
    | .str s => ValidUTF8 s
    | .arr xs => RepList xs
    | .obj es => RepMems es
  def RepList : JList → Prop
    | .nil => True
    | .cons x xs => Rep x ∧ RepList xs
  def RepMems : JMems → Prop
    | .nil => True
    | .cons k v es => ValidUTF8 k ∧ Rep v ∧ RepMems es
end

mutual
  /-- Nesting depth of a value: 0 for a scalar, one more than the deepest element (member value) for an
  array (map); `[]` and `{}` have depth 1. It is the nesting depth of the text `encode` writes. -/
  def depth : J → Nat
    | .arr xs => depthList xs + 1
    | .obj es => depthMems es + 1
    | .null => 0
    | .bool _ => 0
    | .int _ => 0
    | .float _ => 0
    | .str _ => 0
  def depthList : JList → Nat
    | .nil => 0
    | .cons x xs => max (depth x) (depthList xs)
  def depthMems : JMems → Nat
    | .nil => 0
    | .cons _ v es => max (depth v) (depthMems es)
end

mutual
  /-- `encode` of a representable value is a `ValD` denoting its canonical form, nested as deep as the value. -/
  theorem enc_valD (pf : Bytes → UInt64) (ff : UInt64 → Bytes × Bytes) : ∀ (v : J), Rep v →
      ∃ t, encode ff v = some t ∧ ValD pf (depth v) t (canon v)
    | .null, _ => ⟨_, rfl, .null⟩
    | .bool true, _ => ⟨_, rfl, .true⟩
    | .bool false, _ => ⟨_, rfl, .false⟩
    | .int i, h => by
      obtain ⟨h1, h2⟩ := h
      obtain ⟨ht, hv⟩ := appendInt_tok pf i h1 h2
      refine ⟨appendInt i, rfl, ?_⟩
      have := ValD.num (pf := pf) (n := depth (.int i)) ht
      rw [hv] at this
      exact this
    | .float _, h => absurd h (by simp [Rep])
    | .str s, h => by
      refine ⟨encodeString s, rfl, ?_⟩
      have := ValD.str (pf := pf) (n := depth (.str s)) (strBody_slowPath s)
      rw [strDen_slowPath s h, ← encodeString_quote] at this
      exact this
    | .arr .nil, _ => ⟨[0x5B, 0x5D], by simp [encode, encodeList], by
        have := ValD.arrEmpty (pf := pf) (n := 0) ws_nil; simpa [canon, canonList, depth, depthList] using this⟩
    | .arr (.cons x xs), h => by
      obtain ⟨e, he, hel⟩ := enc_listD pf ff (.cons x xs) h (by simp)
      refine ⟨0x5B :: e ++ [0x5D], by simp [encode, he], ?_⟩
      simpa [canon, depth] using ValD.arr hel
    | .obj .nil, _ => ⟨[0x7B, 0x7D], by simp [encode, encodeMems], by
        have := ValD.objEmpty (pf := pf) (n := 0) ws_nil; simpa [canon, canonMems, insertAll, depth, depthMems] using this⟩
    | .obj (.cons k v es), h => by
      obtain ⟨m, hm, hml⟩ := enc_memsD pf ff (.cons k v es) h (by simp)
      refine ⟨0x7B :: m ++ [0x7D], by simp [encode, hm], ?_⟩
      simpa [canon, depth] using ValD.obj hml
  /-- A non-empty element list. -/
  theorem enc_listD (pf : Bytes → UInt64) (ff : UInt64 → Bytes × Bytes) : ∀ (l : JList), RepList l → l ≠ .nil →
      ∃ e, encodeList ff l = some e ∧ ElemsD pf (depthList l) e (canonList l)
    | .nil, _, hne => absurd rfl hne
    | .cons x .nil, h, _ => by
      obtain ⟨t, ht, hv⟩ := enc_valD pf ff x h.1
      refine ⟨t, by simp [encodeList, ht], ?_⟩
      have hle : depth x ≤ depthList (.cons x .nil) := by simp [depthList]
      have := ElemsD.one (pf := pf) ws_nil (hv.mono hle) ws_nil
      simpa [canonList] using this
    | .cons x (.cons y ys), h, _ => by
      obtain ⟨t, ht, hv⟩ := enc_valD pf ff x h.1
      obtain ⟨e, he, hel⟩ := enc_listD pf ff (.cons y ys) h.2 (by simp)
      refine ⟨t ++ 0x2C :: e, by simp [encodeList, ht, he], ?_⟩
      have hle : depth x ≤ depthList (.cons x (.cons y ys)) := by
        rw [depthList]; exact Nat.le_max_left _ _
      have hle2 : depthList (.cons y ys) ≤ depthList (.cons x (.cons y ys)) := by
        rw [depthList]; exact Nat.le_max_right _ _
      have := ElemsD.more (pf := pf) ws_nil (hv.mono hle) ws_nil ((mono_all pf).2.1 hel _ hle2)
      simpa [canonList] using this
  /-- A non-empty member list. -/
  theorem enc_memsD (pf : Bytes → UInt64) (ff : UInt64 → Bytes × Bytes) : ∀ (l : JMems), RepMems l → l ≠ .nil →
      ∃ m, encodeMems ff l = some m ∧ MembersD pf (depthMems l) m (canonMems l)
    | .nil, _, hne => absurd rfl hne
    | .cons k v .nil, h, _ => by
      obtain ⟨t, ht, hv⟩ := enc_valD pf ff v h.2.1
      refine ⟨encodeString k ++ 0x3A :: t, by simp [encodeMems, ht], ?_⟩
      have hle : depth v ≤ depthMems (.cons k v .nil) := by simp [depthMems]
      have := MembersD.one (pf := pf) ws_nil (strBody_slowPath k) ws_nil ws_nil (hv.mono hle) ws_nil
      rw [strDen_slowPath k h.1, ← encodeString_quote] at this
      simpa [canonMems] using this
    | .cons k v (.cons k2 v2 es), h, _ => by
      obtain ⟨t, ht, hv⟩ := enc_valD pf ff v h.2.1
      obtain ⟨m, hm, hml⟩ := enc_memsD pf ff (.cons k2 v2 es) h.2.2 (by simp)
      refine ⟨encodeString k ++ 0x3A :: t ++ 0x2C :: m, by simp [encodeMems, ht, hm], ?_⟩
      have hle : depth v ≤ depthMems (.cons k v (.cons k2 v2 es)) := by
        rw [depthMems]; exact Nat.le_max_left _ _
      have hle2 : depthMems (.cons k2 v2 es) ≤ depthMems (.cons k v (.cons k2 v2 es)) := by
        rw [depthMems]; exact Nat.le_max_right _ _
      have := MembersD.more (pf := pf) ws_nil (strBody_slowPath k) ws_nil ws_nil (hv.mono hle) ws_nil ((mono_all pf).2.2 hml _ hle2)
      rw [strDen_slowPath k h.1, ← encodeString_quote] at this
      simpa [canonMems] using this
end

/-- `encode` of a representable value is a `Val` of the RFC grammar denoting its canonical form. -/
theorem enc_val (pf : Bytes → UInt64) (ff : UInt64 → Bytes × Bytes) (v : J) (h : Rep v) :
    ∃ t, encode ff v = some t ∧ Val pf t (canon v) := by
  obtain ⟨t, ht, hv⟩ := enc_valD pf ff v h
  exact ⟨t, ht, hv.toVal⟩

end Tengo.Proofs.JsonEncode

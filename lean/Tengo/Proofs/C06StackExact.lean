import Tengo.Proofs.C06StackInv
import Tengo.Proofs.VMSafeSimple
/-!
# C06: exhaustion of the operand stack and of the frame array — exact outcomes of one dispatch

* a pure push at `sp ≥ StackSize` IS the Go index panic of the fixed array (`Err.gopanic`, the text vm.go's
  run-time produces), which `RunContext` recovers into an error;
* a non-tail call of a compiled function at `framesIndex = MaxFrames` never proceeds, and in the plain
  case IS the run-time error "stack overflow".
-/
namespace Tengo.Model.VM
open Tengo.Model.Spec Tengo.Model.Opcodes

def stackPanicText (sp : Nat) : String := s!"runtime error: index out of range [{sp}] with length {stackSize}"

theorem push_full_run (r : Regs) (v : Value) (h : stackSize ≤ r.sp) (g : GSt) (s : St) :
    ((push r v).run g).run s = .error (Err.gopanic (stackPanicText r.sp)) := by
  unfold push setSlot
  rw [if_neg (by omega)]
  rfl

theorem em_bind_error {α β} (m : VMM α) (k : α → XM β) (g : GSt) (s : St) (e : Err)
    (h : (m.run g).run s = .error e) : (((em m >>= k).run).run g).run s = .error e := by
  have hrun : (em m >>= k).run = (em m).run >>= ExceptT.bindCont k := rfl
  rw [hrun]
  unfold em
  show ((((m >>= fun a => pure (Except.ok a)) >>= ExceptT.bindCont k).run g).run s) = _
  simp only [StateT.run, bind, StateT.bind, Except.bind] at h ⊢
  rw [h]

theorem finishCompiled_full (f : Fn) (ipAfter : Int) (c : Core) (r : Regs) (numArgs cr k : Nat) (free : List Nat) (cf : Fn)
    (hnt : isSelfTail f c.cur cr ipAfter = false) (hfull : maxFrames ≤ c.callers.length + 1) :
    finishCompiled f ipAfter c r numArgs cr k free cf = rtE "stack overflow" := by
  unfold finishCompiled
  rw [if_neg (by simp [hnt]), if_pos (by omega)]


/-- The instructions that do nothing but push one value (when their operand is in range). -/
def pushOf (code : Code) (fr : Frame) (a0 op : Nat) (r : Regs) : Option Value :=
  if op = opNull then some .undef
  else if op = opTrue then some (.bool true)
  else if op = opFalse then some (.bool false)
  else if op = opConstant then
    (match code.consts[a0]? with
     | some (.val v) => some v
     | some (.fn _ ref) => some (.cfn ref)
     | none => none)
  else if op = opGetGlobal then (if a0 < r.globals.size then some (r.globals.getD a0 .undef) else none)
  else if op = opGetBuiltin then (builtinNames[a0]?).map .builtin
  else if op = opGetFreePtr then (fr.free[a0]?).map .ptr
  else none

theorem pushOf_not_ctl {code : Code} {fr : Frame} {a0 op : Nat} {r : Regs} {v : Value}
    (h : pushOf code fr a0 op r = some v) : op ≠ opCall ∧ op ≠ opReturn ∧ op ≠ opSuspend := by
  refine ⟨?_, ?_, ?_⟩ <;> (rintro rfl; simp [pushOf, opCall, opReturn, opSuspend, opNull, opTrue, opFalse, opConstant, opGetGlobal, opGetBuiltin, opGetFreePtr] at h)

theorem execSimple_pushOf {code : Code} {fr : Frame} {a0 a1 op : Nat} {r : Regs} {v : Value}
    (h : pushOf code fr a0 op r = some v) :
    execSimple code fr a0 a1 op r = (do pure { regs := ← em (push r v), next := .seq } : XM SimpleOut) := by
  unfold pushOf at h
  split at h
  · subst op; cases h; rw [execSimple_Null]; rfl
  split at h
  · subst op; cases h; rw [execSimple_True]; rfl
  split at h
  · subst op; cases h; rw [execSimple_False]; rfl
  split at h
  · subst op; rw [execSimple_Constant]; unfold exConstant
    split at h
    · rename_i hk; cases h; simp only [hk]
    · rename_i hk; cases h; simp only [hk]
    · cases h
  split at h
  · subst op; rw [execSimple_GetGlobal]; unfold exGetGlobal
    by_cases hg : a0 < r.globals.size
    · rw [if_pos hg] at h; cases h; simp only [hg, if_true]
    · rw [if_neg hg] at h; cases h
  split at h
  · subst op; rw [execSimple_GetBuiltin]; unfold exGetBuiltin
    cases hb : builtinNames[a0]? with
    | none => rw [hb] at h; cases h
    | some n => rw [hb] at h; cases h; dsimp only; rw [hb]
  split at h
  · subst op; rw [execSimple_GetFreePtr]; unfold exGetFreePtr
    cases hb : fr.free[a0]? with
    | none => rw [hb] at h; cases h
    | some n => rw [hb] at h; cases h; dsimp only; rw [hb]
  · cases h

/-- One dispatch of a pure push at a full stack IS the Go index panic. -/
theorem exec_push_full (code : Code) (c : Core) (f : Fn) (v : Value) (g : GSt) (s : St)
    (hf : code.fn c.cur.fnIdx = some f)
    (hip : 0 ≤ c.cur.ip + 1 ∧ (c.cur.ip + 1).toNat < f.insts.size)
    (hpush : pushOf code c.cur (fetch f (c.cur.ip + 1)).a0 (fetch f (c.cur.ip + 1)).op c.regs = some v)
    (hfull : stackSize ≤ c.regs.sp) :
    (((exec code c).run).run g).run s = .error (Err.gopanic (stackPanicText c.regs.sp)) := by
  obtain ⟨h1, h2, h3⟩ := pushOf_not_ctl hpush
  unfold exec
  simp only [hf]
  rw [if_neg (by simp; omega)]
  rw [if_neg (by simpa using h1), if_neg (by simpa using h2), if_neg (by simpa using h3)]
  rw [execSimple_pushOf hpush]
  simp only [bind_assoc]
  exact em_bind_error _ _ _ _ _ (push_full_run _ _ hfull _ _)

/-! ### a call when the frame array is full -/

/-- A call of a compiled function that is not a self tail call, at `framesIndex = MaxFrames`, never
proceeds: every way the dispatch can end is an error (whatever the arguments, spread or variadic). -/
theorem execCall_full (code : Code) (f : Fn) (ip : Int) (a0 a1 : Nat) (c : Core) (cr : Nat)
    (hcallee : getSlot c.regs (c.regs.sp - 1 - a0) = .cfn cr)
    (hneed : a0 + 1 ≤ c.regs.sp)
    (hnt : isSelfTail f c.cur cr (ip + 2) = false) (hfull : maxFrames ≤ c.callers.length + 1) :
    SafeX (execCall code f ip a0 a1 c) (fun _ => False) := by
  unfold execCall
  dsimp only
  refine SafeX_bind (SafeX_need hneed) (fun _ _ => ?_)
  rw [hcallee]
  dsimp only
  refine SafeX_bind_em ?_
  rintro ⟨r1, n1⟩
  dsimp only
  split
  · split
    · refine SafeX_bind_em ?_
      rintro ⟨r2, n2⟩
      dsimp only
      split
      · split <;> exact SafeX_rtE _
      · rw [finishCompiled_full _ _ _ _ _ _ _ _ _ hnt hfull]
        exact SafeX_rtE _
    · exact SafeX_unsupE _
  · exact SafeX_unsupE _

theorem exec_call_full (code : Code) (c : Core) (f : Fn) (cr : Nat)
    (hf : code.fn c.cur.fnIdx = some f)
    (hop : byteAt f (c.cur.ip + 1) = opCall)
    (hip : 0 ≤ c.cur.ip + 1 ∧ (c.cur.ip + 1).toNat < f.insts.size)
    (hcallee : calleeOf f c = .cfn cr)
    (hneed : (fetch f (c.cur.ip + 1)).a0 + 1 ≤ c.regs.sp)
    (hnt : isSelfTail f c.cur cr (c.cur.ip + 1 + 2) = false) (hfull : maxFrames ≤ c.callers.length + 1) :
    SafeX (exec code c) (fun _ => False) := by
  unfold exec
  rw [hf]
  dsimp only
  rw [if_neg (by simp; omega)]
  rw [if_pos (by rw [fetch_op]; simp [hop])]
  exact execCall_full code f _ _ _ c cr hcallee hneed hnt hfull

theorem em_pure {α} (x : α) : em (pure x : VMM α) = (pure x : XM α) := rfl

theorem need_ok (r : Regs) (k : Nat) (h : k ≤ r.sp) : need r k = pure () := by
  unfold need; rw [if_neg (by omega)]

theorem rtE_run {α} (msg : String) (g : GSt) (s : St) :
    (((rtE msg : XM α).run).run g).run s = .error (Err.runtime msg) := rfl

/-- The plain case, exactly: a call with the right number of arguments (no spread, not variadic) of a
compiled function at `framesIndex = MaxFrames` that is not a self tail call IS the run-time error
"stack overflow". -/
theorem exec_call_full_exact (code : Code) (c : Core) (f : Fn) (cr k : Nat) (free : List Nat) (cf : Fn) (ref : Nat)
    (g : GSt) (s : St)
    (hf : code.fn c.cur.fnIdx = some f)
    (hip : 0 ≤ c.cur.ip + 1 ∧ (c.cur.ip + 1).toNat < f.insts.size)
    (hop : byteAt f (c.cur.ip + 1) = opCall)
    (hspread : (fetch f (c.cur.ip + 1)).a1 = 0)
    (hneed : (fetch f (c.cur.ip + 1)).a0 + 1 ≤ c.regs.sp)
    (hcallee : calleeOf f c = .cfn cr)
    (hfo : c.regs.fobjs[cr]? = some (k, free)) (hk : code.consts[k]? = some (.fn cf ref))
    (hva : cf.varargs = false) (hn : (fetch f (c.cur.ip + 1)).a0 = cf.numParams)
    (hnt : isSelfTail f c.cur cr (c.cur.ip + 1 + 2) = false) (hfull : maxFrames ≤ c.callers.length + 1) :
    (((exec code c).run).run g).run s = .error (Err.runtime "stack overflow") := by
  unfold exec
  simp only [hf]
  rw [if_neg (by simp; omega)]
  rw [if_pos (by rw [fetch_op]; simp [hop])]
  unfold execCall
  unfold calleeOf at hcallee
  simp only [need_ok _ _ hneed, pure_bind, hcallee, hspread]
  unfold spreadArgs
  simp only [show ((0 : Nat) == 1) = false from rfl, Bool.false_eq_true, if_false, em_pure, pure_bind, hfo, hk]
  unfold rollUp
  simp only [hva, Bool.false_and, Bool.false_eq_true, if_false, em_pure, pure_bind, hn, bne_self_eq_false]
  rw [finishCompiled_full _ _ _ _ _ _ _ _ _ hnt hfull]
  rfl

/-! ### `sp` above the array is reachable (directly after a call) -/

/-- The plain call with room in the frame array, exactly: `sp` becomes `bp + NumLocals` without a test. -/
theorem exec_call_push_exact (code : Code) (c : Core) (f : Fn) (cr k : Nat) (free : List Nat) (cf : Fn) (ref : Nat)
    (g : GSt) (s : St)
    (hf : code.fn c.cur.fnIdx = some f)
    (hip : 0 ≤ c.cur.ip + 1 ∧ (c.cur.ip + 1).toNat < f.insts.size)
    (hop : byteAt f (c.cur.ip + 1) = opCall)
    (hspread : (fetch f (c.cur.ip + 1)).a1 = 0)
    (hneed : (fetch f (c.cur.ip + 1)).a0 + 1 ≤ c.regs.sp)
    (hcallee : calleeOf f c = .cfn cr)
    (hfo : c.regs.fobjs[cr]? = some (k, free)) (hk : code.consts[k]? = some (.fn cf ref))
    (hva : cf.varargs = false) (hn : (fetch f (c.cur.ip + 1)).a0 = cf.numParams)
    (hnt : isSelfTail f c.cur cr (c.cur.ip + 1 + 2) = false) (hroom : c.callers.length + 1 < maxFrames) :
    (((exec code c).run).run g).run s =
      .ok ((.ok (.next { regs := { c.regs with sp := c.regs.sp - cf.numParams + cf.numLocals },
                          cur := { fnIdx := k + 1, fnRef := some cr, ip := -1, bp := c.regs.sp - cf.numParams, free := free },
                          callers := { c.cur with ip := c.cur.ip + 1 + 2 } :: c.callers } false), g), s) := by
  unfold exec
  simp only [hf]
  rw [if_neg (by simp; omega)]
  rw [if_pos (by rw [fetch_op]; simp [hop])]
  unfold execCall
  unfold calleeOf at hcallee
  simp only [need_ok _ _ hneed, pure_bind, hcallee, hspread]
  unfold spreadArgs
  simp only [show ((0 : Nat) == 1) = false from rfl, Bool.false_eq_true, if_false, em_pure, pure_bind, hfo, hk]
  unfold rollUp
  simp only [hva, Bool.false_and, Bool.false_eq_true, if_false, em_pure, pure_bind, hn, bne_self_eq_false]
  unfold finishCompiled
  rw [if_neg (by simp [hnt]), if_neg (by omega)]
  rfl

def witFn : Fn := { insts := #[21, 0], numLocals := 3, numParams := 0, varargs := false }
def witCode : Code := { main := { insts := #[20, 0, 0, 41], numLocals := 0, numParams := 0, varargs := false },
                         consts := #[.fn witFn 0] }
def witCore : Core :=
  { regs := { stack := Array.replicate stackSize (.cfn 0), sp := stackSize, globals := #[], fobjs := #[(0, [])] },
    cur := { fnIdx := 0, fnRef := none, ip := -1, bp := 0, free := [] }, callers := [] }

theorem witCore_sinv : SInv witCode witCore :=
  ⟨by simp [witCore], Or.inl (Nat.le_refl _), by simp [witCore], by simp [witCore]⟩

theorem wit_callee : calleeOf witCode.main witCore = .cfn 0 := by
  have h : (fetch witCode.main (witCore.cur.ip + 1)).a0 = 0 := by decide
  unfold calleeOf getSlot
  rw [h]
  simp [witCore, stackSize]

end Tengo.Model.VM

import Tengo.Proofs.VMRenumBase
/-!
Constant renumbering on the whole-VM model: the relation `Renum code code' cm starts` ("`code'` is `code`
with its constant pool renumbered by `cm` and the operands of CONST / CLOSURE rewritten accordingly"),
one dispatch commutes with the state map (`exec_renum`), every frame stays at an instruction start of its
function (`exec_domC`), hence corresponding runs (`run_renum`). Generalises the relocation development
(`Tengo.Proofs.VMReloc`): there the positions move and the pool stays, here the pool moves and the
positions stay.
-/
set_option linter.unusedSectionVars false
set_option linter.unusedSimpArgs false
set_option linter.unusedVariables false
namespace Tengo.Model.VM
open Tengo.Model Tengo.Model.Spec Tengo.Model.Opcodes

/-- Two constants of the same kind; function constants with the same frame layout and as many
instruction bytes. -/
def ConstShape : Option Const → Option Const → Prop
  | some (.val _), some (.val _) => True
  | some (.fn f _), some (.fn f' _) =>
      f'.numLocals = f.numLocals ∧ f'.numParams = f.numParams ∧ f'.varargs = f.varargs ∧ f'.insts.size = f.insts.size
  | none, none => True
  | _, _ => False

/-- What CONST needs beyond `ConstShape`: function constants stand for the same function object, and the
constant exists. -/
def ConstRefOk : Option Const → Option Const → Prop
  | some (.val _), some (.val _) => True
  | some (.fn _ r), some (.fn _ r') => r' = r
  | _, _ => False

/-- Everything about "`code'` is `code` renumbered by `cm`" except the equality of value constants
(decidable: `Tengo.Model.VM.checkRenum`). `starts idx` is a set of instruction starts of function `idx`
(untrusted: any set with these closure properties will do). -/
structure RenumShape (code code' : Code) (cm : Nat → Nat) (starts : Nat → List Nat) : Prop where
  main : code'.main.numLocals = code.main.numLocals ∧ code'.main.numParams = code.main.numParams ∧
    code'.main.varargs = code.main.varargs ∧ code'.main.insts.size = code.main.insts.size
  consts : ∀ k : Nat, ConstShape (code.consts[k]?) (code'.consts[cm k]?)
  entry : ∀ idx f, code.fn idx = some f → 0 ∈ starts idx
  instr : ∀ idx f f' p, code.fn idx = some f → code'.fn (fim cm idx) = some f' → p ∈ starts idx →
    p < f.insts.size ∧ FetchRelC cm (fetch f p) (fetch f' p)
  constOk : ∀ idx f p, code.fn idx = some f → p ∈ starts idx → (fetch f p).op = opConstant →
    ConstRefOk (code.consts[(fetch f p).a0]?) (code'.consts[cm (fetch f p).a0]?)
  closOk : ∀ idx f p, code.fn idx = some f → p ∈ starts idx → (fetch f p).op = opClosure →
    IsFnPair (code.consts[(fetch f p).a0]?) (code'.consts[cm (fetch f p).a0]?)
  fall : ∀ idx f p, code.fn idx = some f → p ∈ starts idx → canFall (fetch f p).op →
    p + (fetch f p).size ∈ starts idx
  jump : ∀ idx f p, code.fn idx = some f → p ∈ starts idx → (fetch f p).op ∈ jumpOps →
    (fetch f p).a0 ∈ starts idx

/-- Value constants agree: constant `k` of `code` and constant `cm k` of `code'`, when both are values,
are the same value. -/
def ValsAgree (code code' : Code) (cm : Nat → Nat) : Prop :=
  ∀ k v v', code.consts[k]? = some (.val v) → code'.consts[cm k]? = some (.val v') → v' = v

/-- `code'` is `code` with the constant pool renumbered by `cm`. -/
structure Renum (code code' : Code) (cm : Nat → Nat) (starts : Nat → List Nat) : Prop extends
    RenumShape code code' cm starts where
  vals : ValsAgree code code' cm

section derived
variable {code code' : Code} {cm : Nat → Nat} {starts : Nat → List Nat}

theorem RenumShape.fnSome (hr : RenumShape code code' cm starts) (idx : Nat) (f : Fn) (hf : code.fn idx = some f) :
    ∃ f', code'.fn (fim cm idx) = some f' ∧ f'.numLocals = f.numLocals ∧ f'.numParams = f.numParams ∧
      f'.varargs = f.varargs ∧ f'.insts.size = f.insts.size := by
  cases idx with
  | zero =>
    have : f = code.main := by simpa [Code.fn] using hf.symm
    subst this
    exact ⟨code'.main, by simp [Code.fn], hr.main⟩
  | succ k =>
    have hc := hr.consts k
    simp only [Code.fn, Nat.add_one_ne_zero, beq_iff_eq, if_false, Nat.add_sub_cancel, fim_succ] at hf ⊢
    cases h1 : code.consts[k]? with
    | none => simp [h1] at hf
    | some c =>
      cases c with
      | val v => simp [h1] at hf
      | fn g r =>
        simp [h1] at hf
        subst hf
        rw [h1] at hc
        cases h2 : code'.consts[cm k]? with
        | none => rw [h2] at hc; simp [ConstShape] at hc
        | some c' =>
          rw [h2] at hc
          cases c' with
          | val v => simp [ConstShape] at hc
          | fn g' r' => exact ⟨g', rfl, hc⟩

theorem RenumShape.fnNone (hr : RenumShape code code' cm starts) (idx : Nat) (hf : code.fn idx = none) :
    code'.fn (fim cm idx) = none := by
  cases idx with
  | zero => simp [Code.fn] at hf
  | succ k =>
    have hc := hr.consts k
    simp only [Code.fn, Nat.add_one_ne_zero, beq_iff_eq, if_false, Nat.add_sub_cancel, fim_succ] at hf ⊢
    cases h1 : code.consts[k]? with
    | none =>
      rw [h1] at hc
      cases h2 : code'.consts[cm k]? with
      | none => rfl
      | some c' => rw [h2] at hc; simp [ConstShape] at hc
    | some c =>
      cases c with
      | fn g r => simp [h1] at hf
      | val v =>
        rw [h1] at hc
        cases h2 : code'.consts[cm k]? with
        | none => rfl
        | some c' =>
          rw [h2] at hc
          cases c' with
          | val v => rfl
          | fn g' r' => simp [ConstShape] at hc

/-- At a CONST instruction the two constants are the same for the VM. -/
theorem Renum.constSame (hr : Renum code code' cm starts) (idx : Nat) (f : Fn) (p : Nat) (hf : code.fn idx = some f)
    (hp : p ∈ starts idx) (hop : (fetch f p).op = opConstant) :
    ConstSame (code.consts[(fetch f p).a0]?) (code'.consts[cm (fetch f p).a0]?) := by
  have h := hr.constOk idx f p hf hp hop
  have hv := hr.vals (fetch f p).a0
  cases h1 : code.consts[(fetch f p).a0]? with
  | none => rw [h1] at h; simp [ConstRefOk] at h
  | some c =>
    cases h2 : code'.consts[cm (fetch f p).a0]? with
    | none => rw [h1, h2] at h; cases c <;> simp [ConstRefOk] at h
    | some c' =>
      rw [h1, h2] at h
      cases c <;> cases c' <;> simp only [ConstRefOk] at h
      · exact hv _ _ h1 h2
      · exact h

end derived

/-! ### the frame is at an instruction start -/

def AtC (starts : Nat → List Nat) (fr : Frame) (p : Nat) : Prop := fr.ip + 1 = (p : Int) ∧ p ∈ starts fr.fnIdx

/-! ### return -/

theorem execReturn_renum (cm : Nat → Nat) (a0 : Nat) (c : Core) :
    execReturn a0 (mapCoreC cm c) = mapOutC cm <$> execReturn a0 c := by
  unfold execReturn
  dsimp only
  have hd : (mapCoreC cm c).cur.discard = c.cur.discard := rfl
  have hb : (mapCoreC cm c).cur.bp = c.cur.bp := rfl
  have hr : (mapCoreC cm c).regs = mapRegsC cm c.regs := rfl
  rw [hd, hb, hr]
  have hcs : (mapCoreC cm c).callers = c.callers.map (mapFrameC cm) := rfl
  rw [hcs]
  simp only [need_mapRegsC, getSlot_mapRegsC, mapRegsC_sp]
  cases hc : c.callers with
  | nil =>
    simp only [List.map_nil, map_ite', map_bind, map_fault]
  | cons caller rest =>
    simp only [List.map_cons, map_bind, map_pure, mapRegsC_stack, mapRegsC_globals, mapRegsC_fobjs, mapRegsC_mk,
      setSlot_mapRegsC, em_map, bind_map_left, map_ite']
    rfl

/-! ### calls -/

theorem copyArgs_mapRegsC (cm : Nat → Nat) (r : Regs) (bp numArgs n : Nat) :
    copyArgs (mapRegsC cm r) bp numArgs n = mapRegsC cm <$> copyArgs r bp numArgs n := by
  induction n generalizing r with
  | zero => simp [copyArgs]
  | succ n ih => simp only [copyArgs, getSlot_mapRegsC, mapRegsC_sp, setSlot_mapRegsC, bind_map_left, map_bind, ih]

theorem map_eRt {α β} (F : α → β) (msg : String) : F <$> (eRt msg : VMM α) = eRt msg := by
  funext g
  funext st
  simp [eRt, rtErr, Spec.liftM, StateT.lift, throw, throwThe, MonadExceptOf.throw, bind, StateT.bind, Except.bind,
    Functor.map, StateT.map, Except.map]

abbrev mapRN (cm : Nat → Nat) (x : Regs × Nat) : Regs × Nat := (mapRegsC cm x.1, x.2)

theorem spreadArgs_mapRegsC (cm : Nat → Nat) (r : Regs) (n s : Nat) :
    spreadArgs (mapRegsC cm r) n s = mapRN cm <$> spreadArgs r n s := by
  unfold spreadArgs
  split
  · simp only [getSlot_mapRegsC, mapRegsC_sp, mapRegsC_stack, mapRegsC_globals, mapRegsC_fobjs, mapRegsC_mk]
    split
    · simp only [pushAll_mapRegsC, map_bind, bind_map_left, map_pure, mapRN]
    · simp only [pushAll_mapRegsC, map_bind, bind_map_left, map_pure, mapRN]
    · rw [map_eRt]
  · simp [mapRN]

theorem rollUp_mapRegsC (cm : Nat → Nat) (cf : Fn) (r : Regs) (n : Nat) :
    rollUp cf (mapRegsC cm r) n = mapRN cm <$> rollUp cf r n := by
  unfold rollUp
  split
  · simp only [slots_mapRegsC, mapRegsC_sp, setSlot_mapRegsC, map_bind, bind_map_left, map_pure, mapRN]
    rfl
  · simp [mapRN]

theorem mapCoreC_callers_length (cm : Nat → Nat) (c : Core) : (mapCoreC cm c).callers.length = c.callers.length := by
  simp [mapCoreC]

/-- The frame decision of OpCall commutes with renumbering. -/
theorem finishCompiled_renum (cm : Nat → Nat) (f f' : Fn) (ipAfter : Int) (c : Core) (r : Regs) (numArgs cr k : Nat)
    (free : List Nat) (cf cf' : Fn) (hloc : cf'.numLocals = cf.numLocals)
    (hpeek1 : byteAt f' (ipAfter + 1) = byteAt f (ipAfter + 1))
    (hpeek2 : byteAt f (ipAfter + 1) = opPop → byteAt f' (ipAfter + 2) = byteAt f (ipAfter + 2)) :
    finishCompiled f' ipAfter (mapCoreC cm c) (mapRegsC cm r) numArgs cr (cm k) free cf' =
      mapOutC cm <$> finishCompiled f ipAfter c r numArgs cr k free cf := by
  have htail : isSelfTail f' (mapCoreC cm c).cur cr ipAfter = isSelfTail f c.cur cr ipAfter := by
    unfold isSelfTail
    have : (mapCoreC cm c).cur.fnRef = c.cur.fnRef := rfl
    rw [this, hpeek1]
    by_cases hp : byteAt f (ipAfter + 1) = opPop
    · rw [hpeek2 hp]
    · have hb : (byteAt f (ipAfter + 1) == opPop) = false := by simpa using hp
      simp [hb]
  unfold finishCompiled
  rw [htail]
  split
  · have hbp : (mapCoreC cm c).cur.bp = c.cur.bp := rfl
    have hd : (mapCoreC cm c).cur.discard = c.cur.discard := rfl
    simp only [hbp, hd, hpeek1, copyArgs_mapRegsC, em_map, map_bind, bind_map_left, map_pure]
    rfl
  · rw [mapCoreC_callers_length]
    split
    · rw [map_rtE]
    · simp only [map_pure]
      congr 1
      simp [mapOutC, mapCoreC, mapFrameC, hloc, mapRegsC]

/-- OpCall commutes with renumbering. -/
theorem execCall_renum {code code' : Code} {cm : Nat → Nat} {starts : Nat → List Nat}
    (hr : RenumShape code code' cm starts) (f f' : Fn) (ip : Int) (a0 a1 : Nat) (c : Core)
    (hpeek1 : byteAt f' (ip + 2 + 1) = byteAt f (ip + 2 + 1))
    (hpeek2 : byteAt f (ip + 2 + 1) = opPop → byteAt f' (ip + 2 + 2) = byteAt f (ip + 2 + 2)) :
    execCall code' f' ip a0 a1 (mapCoreC cm c) = mapOutC cm <$> execCall code f ip a0 a1 c := by
  unfold execCall
  have hregs : (mapCoreC cm c).regs = mapRegsC cm c.regs := rfl
  simp only [hregs, need_mapRegsC, getSlot_mapRegsC, mapRegsC_sp, map_bind]
  refine bind_congr ?_; intro _
  generalize getSlot c.regs (c.regs.sp - 1 - a0) = callee
  cases callee with
  | cfn cr =>
    simp only [spreadArgs_mapRegsC, em_map, bind_map_left, map_bind]
    refine bind_congr ?_; intro rn
    obtain ⟨r1, n1⟩ := rn
    simp only [mapRN, mapRegsC_fobjs, Array.getElem?_map]
    cases hfo : r1.fobjs[cr]? with
    | none => simp [map_unsupE]
    | some kf =>
      obtain ⟨k, free⟩ := kf
      simp only [Option.map_some, mapFobj]
      have hc := hr.consts k
      cases hk : code.consts[k]? with
      | none =>
        rw [hk] at hc
        cases hk' : code'.consts[cm k]? with
        | none => simp [map_unsupE]
        | some c' => rw [hk'] at hc; simp [ConstShape] at hc
      | some cst =>
        rw [hk] at hc
        cases hk' : code'.consts[cm k]? with
        | none => rw [hk'] at hc; cases cst <;> simp [ConstShape] at hc
        | some c' =>
          rw [hk'] at hc
          cases cst with
          | val v =>
            cases c' with
            | val v' => simp [map_unsupE]
            | fn _ _ => simp [ConstShape] at hc
          | fn cf ref =>
            cases c' with
            | val v' => simp [ConstShape] at hc
            | fn cf' ref' =>
              obtain ⟨hl, hp, hv, _⟩ := hc
              simp only [map_bind]
              rw [rollUp_congr cf cf' hv hp, rollUp_mapRegsC, em_map, bind_map_left]
              refine bind_congr ?_; intro rn2
              obtain ⟨r2, n2⟩ := rn2
              dsimp only [mapRN]
              rw [hp, hv]
              rw [finishCompiled_renum cm f f' (ip + 2) c r2 n2 cr k free cf cf' hl hpeek1 hpeek2]
              simp only [map_ite', map_rtE]
  | builtin name =>
    simp only [spreadArgs_mapRegsC, em_map, bind_map_left, map_bind, map_pure]
    refine bind_congr ?_; intro rn
    simp only [mapRN, slots_mapRegsC, mapRegsC_sp]
    refine bind_congr ?_; intro ret
    simp only [mapRegsC_stack, mapRegsC_globals, mapRegsC_fobjs, mapRegsC_mk, push_mapRegsC, em_map, bind_map_left]
    rfl
  | fn _ => simp [map_unsupE]
  | _ => simp [map_rtE]

/-! ### one dispatch -/

theorem opCall_not_cc : ¬ (opCall = opConstant ∨ opCall = opClosure) := by decide
theorem opReturn_not_cc : ¬ (opReturn = opConstant ∨ opReturn = opClosure) := by decide

/-- One dispatch commutes with renumbering. -/
theorem exec_renum {code code' : Code} {cm : Nat → Nat} {starts : Nat → List Nat} (hr : Renum code code' cm starts)
    (c : Core) (p : Nat) (hat : AtC starts c.cur p) :
    exec code' (mapCoreC cm c) = mapOutC cm <$> exec code c := by
  unfold exec
  have hidx : (mapCoreC cm c).cur.fnIdx = fim cm c.cur.fnIdx := rfl
  have hip : (mapCoreC cm c).cur.ip = c.cur.ip := rfl
  rw [hidx, hip]
  cases hf : code.fn c.cur.fnIdx with
  | none => simp only [hr.fnNone _ hf, map_fault]
  | some f =>
    obtain ⟨f', hf', hloc, hpar, hvar, hsz⟩ := hr.fnSome _ _ hf
    simp only [hf']
    obtain ⟨hp, hi⟩ := hr.instr _ f f' p hf hf' hat.2
    rw [hat.1]
    have hb : ¬ (((p : Int) < 0 || (p : Int).toNat ≥ f.insts.size) = true) := by simp; omega
    have hb' : ¬ (((p : Int) < 0 || (p : Int).toNat ≥ f'.insts.size) = true) := by simp; omega
    rw [if_neg hb, if_neg hb']
    rw [hi.op]
    by_cases hcall : (fetch f p).op = opCall
    · have hc1 : ((fetch f p).op == opCall) = true := by simp [hcall]
      rw [if_pos hc1, if_pos hc1]
      have ha0 := hi.a0
      rw [hcall, if_neg opCall_not_cc] at ha0
      rw [ha0, hi.a1]
      have hsz3 := fetch_call_size hcall
      have hfall := hr.fall _ f p hf hat.2 (by rw [hcall]; unfold canFall; decide)
      rw [hsz3] at hfall
      obtain ⟨_, hi3⟩ := hr.instr _ f f' (p + 3) hf hf' hfall
      have e3 : byteAt f' ((p : Int) + 2 + 1) = byteAt f ((p : Int) + 2 + 1) := by
        have := hi3.op
        rw [fetch_op, fetch_op] at this
        have e2 : ((p : Int) + 2 + 1) = ((p + 3 : Nat) : Int) := by omega
        rw [e2]; exact this
      refine execCall_renum hr.toRenumShape f f' (p : Int) _ _ c e3 ?_
      intro hpop
      have hpop' : (fetch f ((p + 3 : Nat) : Int)).op = opPop := by
        rw [fetch_op]
        have e2 : ((p : Int) + 2 + 1) = ((p + 3 : Nat) : Int) := by omega
        rw [← e2]; exact hpop
      have hsz2 := fetch_pop_size hpop'
      have hfall2 := hr.fall _ f (p + 3) hf hfall (by rw [hpop']; unfold canFall; decide)
      rw [hsz2] at hfall2
      obtain ⟨_, hi4⟩ := hr.instr _ f f' (p + 3 + 1) hf hf' hfall2
      have := hi4.op
      rw [fetch_op, fetch_op] at this
      have e2 : ((p : Int) + 2 + 2) = ((p + 3 + 1 : Nat) : Int) := by omega
      rw [e2]; exact this
    · have hc1 : ¬ (((fetch f p).op == opCall) = true) := by simp [hcall]
      rw [if_neg hc1, if_neg hc1]
      by_cases hret : (fetch f p).op = opReturn
      · have hc2 : ((fetch f p).op == opReturn) = true := by simp [hret]
        rw [if_pos hc2, if_pos hc2]
        have ha0 := hi.a0
        rw [hret, if_neg opReturn_not_cc] at ha0
        rw [ha0]
        exact execReturn_renum cm _ c
      · have hc2 : ¬ (((fetch f p).op == opReturn) = true) := by simp [hret]
        rw [if_neg hc2, if_neg hc2]
        by_cases hsus : (fetch f p).op = opSuspend
        · have hc3 : ((fetch f p).op == opSuspend) = true := by simp [hsus]
          rw [if_pos hc3, if_pos hc3]
          simp [mapOutC, mapCoreC, mapFrameC]
        · have hc3 : ¬ (((fetch f p).op == opSuspend) = true) := by simp [hsus]
          rw [if_neg hc3, if_neg hc3]
          have hs := execSimple_renum cm code code' c.cur (mapCoreC cm c).cur rfl rfl _ _ hi c.regs
            (fun h => hr.constSame _ f p hf hat.2 h) (fun h => hr.closOk _ f p hf hat.2 h)
          rw [hi.op] at hs
          have hregs : (mapCoreC cm c).regs = mapRegsC cm c.regs := rfl
          rw [hregs, hs]
          simp only [map_bind, bind_map_left, map_pure, hi.size]
          rfl

/-! ### every frame stays at an instruction start -/

def InDomC (starts : Nat → List Nat) (fr : Frame) : Prop := ∃ p, AtC starts fr p
def InDomCoreC (starts : Nat → List Nat) (c : Core) : Prop := InDomC starts c.cur ∧ ∀ fr ∈ c.callers, InDomC starts fr
def DomPostC (starts : Nat → List Nat) : ExecOut → Prop
  | .next c' _ => InDomCoreC starts c'
  | .halt _ => True

theorem execReturn_domC (starts : Nat → List Nat) (a0 : Nat) (c : Core) (hd : InDomCoreC starts c) :
    PostX (execReturn a0 c) (DomPostC starts) := by
  unfold execReturn
  dsimp only
  post_walk
  all_goals
    apply PostX_pure
    rename_i caller rest hc _
    refine ⟨hd.2 _ (by rw [hc]; simp), fun fr hfr => hd.2 _ (by rw [hc]; simp [hfr])⟩

theorem finishCompiled_domC (starts : Nat → List Nat) (f : Fn) (c : Core) (p : Nat) (r : Regs) (numArgs cr k : Nat)
    (free : List Nat) (cf : Fn) (hd : InDomCoreC starts c) (hat : AtC starts c.cur p)
    (hafter : p + 3 ∈ starts c.cur.fnIdx)
    (hentry : 0 ∈ starts c.cur.fnIdx) (hentry' : 0 ∈ starts (k + 1)) :
    PostX (finishCompiled f ((p : Int) + 2) c r numArgs cr k free cf) (DomPostC starts) := by
  unfold finishCompiled
  split
  · apply PostX_bind'
    intro r'
    apply PostX_pure
    exact ⟨⟨0, by simp, hentry⟩, hd.2⟩
  · split
    · exact PostX_rtE _
    · apply PostX_pure
      refine ⟨⟨0, by simp, hentry'⟩, ?_⟩
      intro fr hfr
      simp only [List.mem_cons] at hfr
      rcases hfr with rfl | hfr
      · exact ⟨p + 3, by simp; omega, hafter⟩
      · exact hd.2 _ hfr

theorem execCall_domC {code code' : Code} {cm : Nat → Nat} {starts : Nat → List Nat}
    (hr : RenumShape code code' cm starts) (f : Fn) (c : Core) (p : Nat)
    (a0 a1 : Nat) (hd : InDomCoreC starts c) (hat : AtC starts c.cur p)
    (hafter : p + 3 ∈ starts c.cur.fnIdx) (hentry : 0 ∈ starts c.cur.fnIdx) :
    PostX (execCall code f (p : Int) a0 a1 c) (DomPostC starts) := by
  unfold execCall
  dsimp only
  post_walk
  all_goals first
    | (rename_i k free _ _ cf ref hk _ _
       exact finishCompiled_domC starts f c p _ _ _ k _ cf hd hat hafter hentry
         (hr.entry (k + 1) cf (by simp [Code.fn, hk])))
    | (apply PostX_pure
       exact ⟨⟨p + 3, by simp; omega, hafter⟩, hd.2⟩)

/-- One dispatch of the original keeps every frame at an instruction start. -/
theorem exec_domC {code code' : Code} {cm : Nat → Nat} {starts : Nat → List Nat}
    (hr : RenumShape code code' cm starts) (c : Core) (hd : InDomCoreC starts c) :
    PostX (exec code c) (DomPostC starts) := by
  obtain ⟨p, hat⟩ := hd.1
  unfold exec
  cases hf : code.fn c.cur.fnIdx with
  | none => exact PostX_fault _
  | some f =>
    simp only []
    rw [hat.1]
    split
    · exact PostX_fault _
    · split
      · rename_i hcall
        have hcall : (fetch f p).op = opCall := by simpa using hcall
        have hfall := hr.fall _ f p hf hat.2 (by rw [hcall]; unfold canFall; decide)
        rw [fetch_call_size hcall] at hfall
        exact execCall_domC hr f c p _ _ hd hat hfall (hr.entry _ f hf)
      · split
        · exact execReturn_domC starts _ c hd
        · split
          · exact PostX_pure trivial
          · rename_i hcall hret hsus
            have hret : (fetch f p).op ≠ opReturn := by simpa using hret
            have hsus : (fetch f p).op ≠ opSuspend := by simpa using hsus
            refine PostX_bind (PostX_and (execSimple_fall code c.cur _ _ _ c.regs hret hsus)
              (execSimple_jump_target code c.cur _ _ _ c.regs)) ?_
            intro o ⟨h1, h2⟩
            apply PostX_pure
            refine ⟨?_, hd.2⟩
            cases hn : o.next with
            | seq =>
              have hfall := hr.fall _ f p hf hat.2 (h1 hn)
              exact ⟨p + (fetch f p).size, by simp, hfall⟩
            | jump t =>
              obtain ⟨hj, rfl⟩ := h2 t hn
              exact ⟨_, by simp, hr.jump _ f p hf hat.2 hj⟩

/-! ### runs -/

def mapCfgC (cm : Nat → Nat) (cfg : Cfg) : Cfg := { cfg with core := mapCoreC cm cfg.core }

/-- What the renumbered run answers, given what the original answers: the same kind of outcome with the
same error / fault, at the configuration that corresponds under the state map (same stack, `sp`,
globals, heap, same `ip` / `bp` / captured cells in every frame; function indexes and the constant
indexes inside function objects renumbered); every frame of the original sits at an instruction start. -/
def OutcomeRelC (cm : Nat → Nat) (starts : Nat → List Nat) : Outcome → Outcome → Prop
  | .halted a, .halted b => b = mapCfgC cm a
  | .failed e a, .failed e' b => e' = e ∧ b = mapCfgC cm a ∧ InDomCoreC starts a.core
  | .fault ft a, .fault ft' b => ft' = ft ∧ b = mapCfgC cm a ∧ InDomCoreC starts a.core
  | .limit a, .limit b => b = mapCfgC cm a ∧ InDomCoreC starts a.core
  | .outOfFuel a, .outOfFuel b => b = mapCfgC cm a ∧ InDomCoreC starts a.core
  | _, _ => False

/-- **Renumbering the constant pool is invisible to a run**: started from corresponding configurations,
the original and the renumbered code take the same number of steps, perform the same tracked
allocations and end in corresponding outcomes — for every fuel, allocation budget and start
configuration. -/
theorem run_renum {code code' : Code} {cm : Nat → Nat} {starts : Nat → List Nat} (hr : Renum code code' cm starts)
    (keep keep' : Nat) :
    ∀ (fuel : Nat) (allocs : Int) (cfg : Cfg) (log log' : Log), InDomCoreC starts cfg.core → LogRel log log' →
      OutcomeRelC cm starts (run code keep fuel allocs cfg log).1 (run code' keep' fuel allocs (mapCfgC cm cfg) log').1 ∧
      LogRel (run code keep fuel allocs cfg log).2 (run code' keep' fuel allocs (mapCfgC cm cfg) log').2 := by
  intro fuel
  induction fuel with
  | zero => intro allocs cfg log log' hd hl; exact ⟨⟨rfl, hd⟩, hl⟩
  | succ fuel ih =>
    intro allocs cfg log log' hd hl
    obtain ⟨p, hat⟩ := hd.1
    have hl1 := hl.tick keep keep' (observe cfg.core allocs) (observe (mapCfgC cm cfg).core allocs)
    rw [run_succ, run_succ]
    have he := exec_renum hr cfg.core p hat
    have e1 : (mapCfgC cm cfg).core = mapCoreC cm cfg.core := rfl
    have e2 : (mapCfgC cm cfg).gst = cfg.gst := rfl
    have e3 : (mapCfgC cm cfg).heap = cfg.heap := rfl
    rw [e1, e2, e3, he, XM_run_map]
    have hdom := exec_domC hr.toRenumShape cfg.core hd cfg.gst cfg.heap
    cases hm : (((exec code cfg.core).run).run cfg.gst).run cfg.heap with
    | error e => exact ⟨⟨rfl, rfl, hd⟩, hl1⟩
    | ok x =>
      obtain ⟨⟨r, g⟩, h⟩ := x
      cases r with
      | error ft => exact ⟨⟨rfl, rfl, hd⟩, hl1⟩
      | ok out =>
        cases out with
        | halt c => exact ⟨rfl, hl1⟩
        | next c a =>
          have hd' : InDomCoreC starts c := hdom _ _ _ hm _ rfl
          cases a with
          | false => exact ih allocs ⟨c, g, h⟩ _ _ hd' hl1
          | true =>
            dsimp only [Except.map, mapOutC]
            split
            · exact ⟨⟨rfl, hd⟩, hl1⟩
            · exact ih (allocs - 1) ⟨c, g, h⟩ _ _ hd' hl1.count

end Tengo.Model.VM

import Tengo.Proofs.C01BridgeF2Defs
import Tengo.Proofs.C01BridgeRange
/-!
C01 bridge for fragment F2: the operands of the code `F2.compS` emits for a well-formed program are in range
(`compSs2_good`): constants below the number of literals, globals below the number of slots, binary tokens
operators of the language, jump targets — the `break` / `continue` targets included — at most `J` as soon as the
code ends at or before `J` and the outer targets are at most `J`.
-/
set_option linter.unusedVariables false
set_option linter.unusedSimpArgs false
namespace Tengo.Proofs.C01Bridge
open Tengo.Model Tengo.Model.F0

mutual
  theorem compS2_good (n K J : Nat) : ∀ (s : F2.Stm) (bt ct off k : Nat), wfS2 n k s = true →
      k + nlitsS2 s ≤ K → bt ≤ J → ct ≤ J → off + F2.ssize s ≤ J →
      ∀ i, i ∈ F2.compS bt ct off s → InsGood K n J i
    | .expr e, bt, ct, off, k, hw, hk, hbt, hct, hJ, i, hi => by
      simp only [wfS2] at hw
      simp only [nlitsS2] at hk
      simp only [F2.ssize, F2.esz_eq] at hJ
      simp only [F2.compS, List.mem_append, List.mem_singleton] at hi
      rcases hi with hi | hi
      · exact (comp_good n K e off k hw hk i hi).mono (by omega)
      · subst hi; trivial
    | .assign j e, bt, ct, off, k, hw, hk, hbt, hct, hJ, i, hi => by
      simp only [wfS2, Bool.and_eq_true, decide_eq_true_eq] at hw
      simp only [nlitsS2] at hk
      simp only [F2.ssize, F2.esz_eq] at hJ
      simp only [F2.compS, List.mem_append, List.mem_singleton] at hi
      rcases hi with hi | hi
      · exact (comp_good n K e off k hw.2 hk i hi).mono (by omega)
      · subst hi; exact hw.1
    | .ifs c body, bt, ct, off, k, hw, hk, hbt, hct, hJ, i, hi => by
      simp only [wfS2, Bool.and_eq_true] at hw
      simp only [nlitsS2] at hk
      simp only [F2.ssize, F2.esz_eq] at hJ
      simp only [F2.compS, F2.esz_eq, List.mem_append, List.mem_singleton] at hi
      rcases hi with (hi | hi) | hi
      · exact (comp_good n K c off k hw.1 (by omega) i hi).mono (by omega)
      · subst hi; simp only [InsGood]; omega
      · exact compSs2_good n K J body _ _ _ _ hw.2 (by omega) hbt hct (by omega) i hi
    | .ifelse c body els, bt, ct, off, k, hw, hk, hbt, hct, hJ, i, hi => by
      simp only [wfS2, Bool.and_eq_true] at hw
      simp only [nlitsS2] at hk
      simp only [F2.ssize, F2.esz_eq] at hJ
      simp only [F2.compS, F2.esz_eq, List.mem_append, List.mem_singleton] at hi
      rcases hi with (((hi | hi) | hi) | hi) | hi
      · exact (comp_good n K c off k hw.1.1 (by omega) i hi).mono (by omega)
      · subst hi; simp only [InsGood]; omega
      · exact compSs2_good n K J body _ _ _ _ hw.1.2 (by omega) hbt hct (by omega) i hi
      · subst hi; simp only [InsGood]; omega
      · exact compSs2_good n K J els _ _ _ _ hw.2 (by omega) hbt hct (by omega) i hi
    | .whil c body, bt, ct, off, k, hw, hk, hbt, hct, hJ, i, hi => by
      simp only [wfS2, Bool.and_eq_true] at hw
      simp only [nlitsS2] at hk
      simp only [F2.ssize, F2.esz_eq] at hJ
      simp only [F2.compS, F2.esz_eq, List.mem_append, List.mem_singleton] at hi
      rcases hi with ((hi | hi) | hi) | hi
      · exact (comp_good n K c off k hw.1 (by omega) i hi).mono (by omega)
      · subst hi; simp only [InsGood]; omega
      · exact compSs2_good n K J body _ _ _ _ hw.2 (by omega) (by omega) (by omega) (by omega) i hi
      · subst hi; simp only [InsGood]; omega
    | .forever body, bt, ct, off, k, hw, hk, hbt, hct, hJ, i, hi => by
      simp only [wfS2] at hw
      simp only [nlitsS2] at hk
      simp only [F2.ssize] at hJ
      simp only [F2.compS, List.mem_append, List.mem_singleton] at hi
      rcases hi with hi | hi
      · exact compSs2_good n K J body _ _ _ _ hw (by omega) (by omega) (by omega) (by omega) i hi
      · subst hi; simp only [InsGood]; omega
    | .for3 c body post, bt, ct, off, k, hw, hk, hbt, hct, hJ, i, hi => by
      simp only [wfS2, Bool.and_eq_true] at hw
      simp only [nlitsS2] at hk
      simp only [F2.ssize, F2.esz_eq] at hJ
      simp only [F2.compS, F2.esz_eq, List.mem_append, List.mem_singleton] at hi
      rcases hi with (((hi | hi) | hi) | hi) | hi
      · exact (comp_good n K c off k hw.1.1 (by omega) i hi).mono (by omega)
      · subst hi; simp only [InsGood]; omega
      · exact compSs2_good n K J body _ _ _ _ hw.1.2 (by omega) (by omega) (by omega) (by omega) i hi
      · exact compS2_good n K J post _ _ _ _ hw.2 (by omega) hbt hct (by omega) i hi
      · subst hi; simp only [InsGood]; omega
    | .brk, bt, ct, off, k, hw, hk, hbt, hct, hJ, i, hi => by
      simp only [F2.compS, List.mem_singleton] at hi
      subst hi; exact hbt
    | .cont, bt, ct, off, k, hw, hk, hbt, hct, hJ, i, hi => by
      simp only [F2.compS, List.mem_singleton] at hi
      subst hi; exact hct
  theorem compSs2_good (n K J : Nat) : ∀ (ss : F2.Stms) (bt ct off k : Nat), wfSs2 n k ss = true →
      k + nlitsSs2 ss ≤ K → bt ≤ J → ct ≤ J → off + F2.sssize ss ≤ J →
      ∀ i, i ∈ F2.compSs bt ct off ss → InsGood K n J i
    | .nil, bt, ct, off, k, hw, hk, hbt, hct, hJ, i, hi => by simp [F2.compSs] at hi
    | .cons s ss, bt, ct, off, k, hw, hk, hbt, hct, hJ, i, hi => by
      simp only [wfSs2, Bool.and_eq_true] at hw
      simp only [nlitsSs2] at hk
      simp only [F2.sssize] at hJ
      simp only [F2.compSs, List.mem_append] at hi
      rcases hi with hi | hi
      · exact compS2_good n K J s _ _ _ _ hw.1 (by omega) hbt hct (by omega) i hi
      · exact compSs2_good n K J ss _ _ _ _ hw.2 (by omega) hbt hct (by omega) i hi
end

end Tengo.Proofs.C01Bridge

import Tengo.Proofs.C11Rename
set_option linter.unusedSectionVars false
set_option linter.unusedSimpArgs false
set_option linter.unusedVariables false
namespace Tengo.Proofs.C11Rename
open Tengo.Model Tengo.Model.Compiler Tengo.Model.Opcodes
open Tengo.Model.Spec (Expr Stmt)

/-- The induction hypothesis: all eight compile functions at depth budget `d`. -/
structure IH (ρ : String → String) (d : Nat) : Prop where
  expr : ∀ e, Sim ρ Eq (compileExpr d e) (compileExpr d (renameExpr ρ e))
  exprs : ∀ es, Sim ρ Eq (compileExprs d es) (compileExprs d (renameExprs ρ es))
  kvs : ∀ kvs, Sim ρ Eq (compileKVs d kvs) (compileKVs d (renameKVs ρ kvs))
  sels : ∀ es, Sim ρ Eq (compileSelsRev d es) (compileSelsRev d (renameExprs ρ es))
  assign : ∀ lhs rhs op, Sim ρ Eq (compileAssign d lhs rhs op)
      (compileAssign d (renameExprs ρ lhs) (renameExprs ρ rhs) op)
  stmt : ∀ s, Sim ρ Eq (compileStmt d s) (compileStmt d (renameStmt ρ s))
  block : ∀ ss, Sim ρ Eq (compileBlock d ss) (compileBlock d (renameStmts ρ ss))
  stmts : ∀ ss, Sim ρ Eq (compileStmts d ss) (compileStmts d (renameStmts ρ ss))


attribute [local irreducible] emit curPos changeOperand addConstant enterLoop leaveLoop fork unfork enterScope
  leaveScope optimizeFunc emitBinary patchAll setAssigned localAssigned emitGet emitIt define resolve cerr
  unsupported compileExpr compileExprs compileKVs compileSelsRev compileStmt compileBlock compileStmts

macro "sim_prim" : tactic => `(tactic| first
  | exact sim_cerr_bind _
  | exact sim_demit _ _ | exact sim_emit _ _ | exact sim_curPos | exact sim_changeOperand _ _
  | exact sim_addConstant _ | exact sim_enterLoop | exact sim_leaveLoop | exact sim_fork _ | exact sim_unfork
  | exact sim_enterScope | exact sim_leaveScope | exact sim_optimizeFunc | exact sim_emitBinary _
  | exact sim_patchAll _ _ | exact sim_pure rfl | exact sim_cerr _ | exact sim_unsupported _
  | exact sim_unsupported_bind _ | exact sim_throw (ErrRel.same _) | exact sim_modify _ (fun _ => rfl)
  | exact sim_setAssigned rfl | exact sim_localAssigned rfl | exact sim_emitGet rfl | exact sim_emitIt rfl
  | exact sim_setAssigned ‹SymRel _ _ _› | exact sim_localAssigned ‹SymRel _ _ _›
  | exact sim_emitGet ‹SymRel _ _ _› | exact sim_emitIt ‹SymRel _ _ _›
  | exact IH.expr ‹IH _ _› _ | exact IH.exprs ‹IH _ _› _ | exact IH.kvs ‹IH _ _› _ | exact IH.sels ‹IH _ _› _
  | exact IH.assign ‹IH _ _› _ _ _ | exact IH.stmt ‹IH _ _› _ | exact IH.block ‹IH _ _› _
  | exact IH.stmts ‹IH _ _› _)

macro "sim_go" : tactic => `(tactic| repeat' (first
  | sim_prim
  | refine sim_bind_eq (by sim_prim) (fun _ => ?_)
  | refine sim_ite ?_ ?_
  | (refine sim_bind (sim_define _) (fun _ _ h => ?_); subst h; try simp only [renSym_scope, renSym_index])))

/-- `let st ← get`: the renamed run reads the renamed state. (Not part of `sim_go`: `get >>= k` unifies with
anything.) -/
macro "sim_get_step" : tactic => `(tactic|
  (refine sim_bind sim_get (fun _ _ h => ?_); subst h;
   try simp only [renState_tables, renState_saved, renState_loops, globalCtx_ren]))

variable {ρ : String → String}

theorem headD_ren (c : Chain) : (renChain ρ c).headD {} = renTable ρ (c.headD {}) := by
  cases c <;> rfl

theorem expr_func {d : Nat} (ih : IH ρ d) (va : Bool) (ps : List String) (body : List Stmt) :
    Sim ρ Eq (compileExpr (d + 1) (.func va ps body)) (compileExpr (d + 1) (renameExpr ρ (.func va ps body))) := by
    simp only [renameExpr, compileExpr.eq_17, List.length_map]
    refine sim_bind_eq sim_enterScope (fun _ => ?_)
    refine sim_bind_eq (sim_forM_map ρ _ _ ps (fun p => sim_bind (sim_define p) (fun a a' h => sim_setAssigned h)))
      (fun _ => ?_)
    refine sim_bind_eq (ih.block _) (fun _ => ?_)
    refine sim_bind_eq sim_optimizeFunc (fun _ => ?_)
    refine sim_bind sim_get (fun st st' h => ?_)
    subst h
    simp only [renState_tables, headD_ren, renTable_freeSymbols, renTable_maxDefinition, List.length_map]
    refine sim_bind_eq sim_leaveScope (fun _ => ?_)
    refine sim_ite (sim_cerr_bind _) ?_
    refine sim_ite (sim_cerr_bind _) ?_
    refine sim_bind_eq (sim_forM_map (renSym ρ) _ _ _ (fun a => ?_)) (fun _ => ?_)
    · simp only [renSym_scope, renSym_index]
      split <;> sim_go
    · sim_go

theorem expr_succ (hρ : Renaming ρ) {d : Nat} (ih : IH ρ d) (e : Expr) :
    Sim ρ Eq (compileExpr (d + 1) e) (compileExpr (d + 1) (renameExpr ρ e)) := by
  cases e with
  | paren x => simp only [renameExpr, compileExpr.eq_2]; sim_go
  | bin tok l r => simp only [renameExpr, compileExpr.eq_3]; sim_go
  | int v => simp only [renameExpr, compileExpr.eq_4]; sim_go
  | float v => simp only [renameExpr, compileExpr.eq_5]; sim_go
  | bool v => simp only [renameExpr, compileExpr.eq_6]; sim_go
  | str v => simp only [renameExpr, compileExpr.eq_7]; sim_go
  | char v => simp only [renameExpr, compileExpr.eq_8]; sim_go
  | undef => simp only [renameExpr, compileExpr.eq_9]; sim_go
  | un tok x => simp only [renameExpr, compileExpr.eq_10]; sim_go
  | ident n =>
    simp only [renameExpr, compileExpr.eq_11]
    refine sim_bind (sim_resolve hρ n) (fun r r' h => ?_)
    subst h
    cases r with
    | none => exact sim_cerr_rel (ErrRel.unresolved n)
    | some p => exact sim_emitGet rfl
  | arr es => simp only [renameExpr, compileExpr.eq_12, renameExprs_length]; sim_go
  | map kvs => simp only [renameExpr, compileExpr.eq_13, renameKVs_length]; sim_go
  | sel x s => simp only [renameExpr, compileExpr.eq_14]; sim_go
  | idx x s => simp only [renameExpr, compileExpr.eq_15]; sim_go
  | slice x lo hi =>
    simp only [renameExpr, compileExpr.eq_16]
    cases lo <;> cases hi <;> simp only [renameOptExpr] <;> sim_go
  | func va ps body => exact expr_func ih va ps body
  | call ell f args => simp only [renameExpr, compileExpr.eq_18, renameExprs_length]; sim_go
  | imp n => simp only [renameExpr, compileExpr.eq_19]; sim_go
  | error x => simp only [renameExpr, compileExpr.eq_20]; sim_go
  | immutable x => simp only [renameExpr, compileExpr.eq_21]; sim_go
  | cond c t f => simp only [renameExpr, compileExpr.eq_22]; sim_go
  | bad => simp only [renameExpr, compileExpr.eq_23]; sim_go

theorem exprs_succ {d : Nat} (ih : IH ρ d) (es : List Expr) :
    Sim ρ Eq (compileExprs (d + 1) es) (compileExprs (d + 1) (renameExprs ρ es)) := by
  cases es with
  | nil => simp only [renameExprs, compileExprs.eq_2]; sim_go
  | cons e es => simp only [renameExprs, compileExprs.eq_3]; sim_go

theorem kvs_succ {d : Nat} (ih : IH ρ d) (kvs : List (Spec.Bytes × Expr)) :
    Sim ρ Eq (compileKVs (d + 1) kvs) (compileKVs (d + 1) (renameKVs ρ kvs)) := by
  cases kvs with
  | nil => simp only [renameKVs, compileKVs.eq_2]; sim_go
  | cons e es => obtain ⟨k, v⟩ := e; simp only [renameKVs, compileKVs.eq_3]; sim_go

theorem sels_succ {d : Nat} (ih : IH ρ d) (es : List Expr) :
    Sim ρ Eq (compileSelsRev (d + 1) es) (compileSelsRev (d + 1) (renameExprs ρ es)) := by
  cases es with
  | nil => simp only [renameExprs, compileSelsRev.eq_2]; sim_go
  | cons e es => simp only [renameExprs, compileSelsRev.eq_3]; sim_go

theorem stmts_succ {d : Nat} (ih : IH ρ d) (ss : List Stmt) :
    Sim ρ Eq (compileStmts (d + 1) ss) (compileStmts (d + 1) (renameStmts ρ ss)) := by
  cases ss with
  | nil => simp only [renameStmts, compileStmts.eq_2]; sim_go
  | cons e es => simp only [renameStmts, compileStmts.eq_3]; sim_go

theorem block_succ {d : Nat} (ih : IH ρ d) (ss : List Stmt) :
    Sim ρ Eq (compileBlock (d + 1) ss) (compileBlock (d + 1) (renameStmts ρ ss)) := by
  cases ss with
  | nil => simp only [renameStmts, compileBlock.eq_2]; sim_go
  | cons e es =>
    rw [compileBlock.eq_3 _ _ (by simp), compileBlock.eq_3 _ _ (by simp [renameStmts])]
    sim_go

theorem ih_zero : IH ρ 0 where
  expr e := by rw [compileExpr.eq_1, compileExpr.eq_1]; exact sim_unsupported _
  exprs e := by rw [compileExprs.eq_1, compileExprs.eq_1]; exact sim_unsupported _
  kvs e := by rw [compileKVs.eq_1, compileKVs.eq_1]; exact sim_unsupported _
  sels e := by rw [compileSelsRev.eq_1, compileSelsRev.eq_1]; exact sim_unsupported _
  assign l r op := sim_unsupported _
  stmt e := by rw [compileStmt.eq_1, compileStmt.eq_1]; exact sim_unsupported _
  block e := by rw [compileBlock.eq_1, compileBlock.eq_1]; exact sim_unsupported _
  stmts e := by rw [compileStmts.eq_1, compileStmts.eq_1]; exact sim_unsupported _

end Tengo.Proofs.C11Rename

import Tengo.Model.F0
/-! Execution lemmas for the F0 machine: fetching inside concatenated code, composing runs. -/
namespace Tengo.Model.F0

variable {V : Type}

theorem size_pos (i : Ins) : 0 < i.size := by cases i <;> simp [Ins.size]

theorem fetch_append_right (pre c : List Ins) (k : Nat) :
    fetch (pre ++ c) (csize pre + k) = fetch c k := by
  induction pre with
  | nil => simp [csize]
  | cons i is ih =>
    have hp := size_pos i
    have : csize (i :: is) + k = (i.size + csize is + k - 1) + 1 := by simp [csize]; omega
    simp only [List.cons_append]
    rw [this, fetch]
    have h1 : i.size + csize is + k - 1 + 1 ≥ i.size := by omega
    simp only [h1, ↓reduceIte]
    have h2 : i.size + csize is + k - 1 + 1 - i.size = csize is + k := by omega
    rw [h2, ih]

theorem fetch_append_left (c post : List Ins) (k : Nat) (i : Ins) (h : fetch c k = some i) :
    fetch (c ++ post) k = some i := by
  induction c generalizing k with
  | nil => simp [fetch] at h
  | cons x xs ih =>
    cases k with
    | zero => simpa [fetch] using h
    | succ n =>
      simp only [List.cons_append, fetch] at h ⊢
      split
      · rename_i hge
        simp only [hge, ↓reduceIte] at h
        exact ih _ h
      · rename_i hlt
        simp [hlt] at h

/-- The instruction right after a prefix. -/
theorem fetch_at (pre post : List Ins) (i : Ins) : fetch (pre ++ i :: post) (csize pre) = some i := by
  have := fetch_append_right pre (i :: post) 0
  simpa [fetch] using this

/-- `s` reaches `s'` in some number of dispatches. -/
def Runs (S : Sem V) (cs : Nat → V) (code : List Ins) (s s' : St V) : Prop :=
  ∃ n, runN S cs code n s = .at s'

/-- `s` ends in a run-time error after some number of dispatches. -/
def Fails (S : Sem V) (cs : Nat → V) (code : List Ins) (s : St V) : Prop :=
  ∃ n, runN S cs code n s = .err

theorem runN_add (S : Sem V) (cs : Nat → V) (code : List Ins) (n m : Nat) (s : St V) :
    runN S cs code (n + m) s =
      match runN S cs code n s with
      | .at s' => runN S cs code m s'
      | .err => .err
      | .stuck => .stuck := by
  induction n generalizing s with
  | zero => simp [runN]
  | succ n ih =>
    have : n + 1 + m = (n + m) + 1 := by omega
    rw [this]
    simp only [runN]
    cases step S cs code s with
    | next s' => simpa using ih s'
    | err => rfl
    | stuck => rfl

theorem Runs.refl (S : Sem V) (cs : Nat → V) (code : List Ins) (s : St V) : Runs S cs code s s :=
  ⟨0, rfl⟩

theorem Runs.trans {S : Sem V} {cs : Nat → V} {code : List Ins} {a b c : St V}
    (h1 : Runs S cs code a b) (h2 : Runs S cs code b c) : Runs S cs code a c := by
  obtain ⟨n, hn⟩ := h1
  obtain ⟨m, hm⟩ := h2
  exact ⟨n + m, by rw [runN_add, hn]; exact hm⟩

theorem Runs.step {S : Sem V} {cs : Nat → V} {code : List Ins} {a b : St V}
    (h : step S cs code a = .next b) : Runs S cs code a b :=
  ⟨1, by simp [runN, h]⟩

theorem Runs.fails {S : Sem V} {cs : Nat → V} {code : List Ins} {a b : St V}
    (h1 : Runs S cs code a b) (h2 : Fails S cs code b) : Fails S cs code a := by
  obtain ⟨n, hn⟩ := h1
  obtain ⟨m, hm⟩ := h2
  exact ⟨n + m, by rw [runN_add, hn]; exact hm⟩

theorem Fails.step {S : Sem V} {cs : Nat → V} {code : List Ins} {a : St V}
    (h : step S cs code a = .err) : Fails S cs code a :=
  ⟨1, by simp [runN, h]⟩

/-! ### one lemma per instruction: the step once the fetched instruction is known -/

section steps
variable (S : Sem V) (cs : Nat → V) (code : List Ins)

theorem step_const {ip : Nat} {st : List V} {g : Nat → V} {k : Nat} (h : fetch code ip = some (.const k)) :
    step S cs code ⟨ip, st, g⟩ = .next ⟨ip + 3, cs k :: st, g⟩ := by simp [step, h, Ins.size]
theorem step_tru {ip : Nat} {st : List V} {g : Nat → V} (h : fetch code ip = some .tru) :
    step S cs code ⟨ip, st, g⟩ = .next ⟨ip + 1, S.ofBool true :: st, g⟩ := by simp [step, h, Ins.size]
theorem step_fls {ip : Nat} {st : List V} {g : Nat → V} (h : fetch code ip = some .fls) :
    step S cs code ⟨ip, st, g⟩ = .next ⟨ip + 1, S.ofBool false :: st, g⟩ := by simp [step, h, Ins.size]
theorem step_null {ip : Nat} {st : List V} {g : Nat → V} (h : fetch code ip = some .null) :
    step S cs code ⟨ip, st, g⟩ = .next ⟨ip + 1, S.undef :: st, g⟩ := by simp [step, h, Ins.size]
theorem step_getg {ip : Nat} {st : List V} {g : Nat → V} {j : Nat} (h : fetch code ip = some (.getg j)) :
    step S cs code ⟨ip, st, g⟩ = .next ⟨ip + 3, g j :: st, g⟩ := by simp [step, h, Ins.size]
theorem step_setg {ip : Nat} {st : List V} {g : Nat → V} {j : Nat} {v : V} (h : fetch code ip = some (.setg j)) :
    step S cs code ⟨ip, v :: st, g⟩ = .next ⟨ip + 3, st, upd g j v⟩ := by simp [step, h, Ins.size]
theorem step_pop {ip : Nat} {st : List V} {g : Nat → V} {v : V} (h : fetch code ip = some .pop) :
    step S cs code ⟨ip, v :: st, g⟩ = .next ⟨ip + 1, st, g⟩ := by simp [step, h, Ins.size]
theorem step_binop_ok {ip : Nat} {st : List V} {g : Nat → V} {tok : Nat} {a b v : V}
    (h : fetch code ip = some (.binop tok)) (hv : S.binop tok a b = some v) :
    step S cs code ⟨ip, b :: a :: st, g⟩ = .next ⟨ip + 2, v :: st, g⟩ := by simp [step, h, hv, Ins.size]
theorem step_binop_err {ip : Nat} {st : List V} {g : Nat → V} {tok : Nat} {a b : V}
    (h : fetch code ip = some (.binop tok)) (hv : S.binop tok a b = none) :
    step S cs code ⟨ip, b :: a :: st, g⟩ = .err := by simp [step, h, hv]
theorem step_eql {ip : Nat} {st : List V} {g : Nat → V} {a b : V} (h : fetch code ip = some .eql) :
    step S cs code ⟨ip, b :: a :: st, g⟩ = .next ⟨ip + 1, S.ofBool (S.eqv a b) :: st, g⟩ := by
  simp [step, h, Ins.size]
theorem step_neq {ip : Nat} {st : List V} {g : Nat → V} {a b : V} (h : fetch code ip = some .neq) :
    step S cs code ⟨ip, b :: a :: st, g⟩ = .next ⟨ip + 1, S.ofBool (!S.eqv a b) :: st, g⟩ := by
  simp [step, h, Ins.size]
theorem step_minus_ok {ip : Nat} {st : List V} {g : Nat → V} {a v : V}
    (h : fetch code ip = some .minus) (hv : S.neg a = some v) :
    step S cs code ⟨ip, a :: st, g⟩ = .next ⟨ip + 1, v :: st, g⟩ := by simp [step, h, hv, Ins.size]
theorem step_minus_err {ip : Nat} {st : List V} {g : Nat → V} {a : V}
    (h : fetch code ip = some .minus) (hv : S.neg a = none) :
    step S cs code ⟨ip, a :: st, g⟩ = .err := by simp [step, h, hv]
theorem step_bcompl_ok {ip : Nat} {st : List V} {g : Nat → V} {a v : V}
    (h : fetch code ip = some .bcompl) (hv : S.bnot a = some v) :
    step S cs code ⟨ip, a :: st, g⟩ = .next ⟨ip + 1, v :: st, g⟩ := by simp [step, h, hv, Ins.size]
theorem step_bcompl_err {ip : Nat} {st : List V} {g : Nat → V} {a : V}
    (h : fetch code ip = some .bcompl) (hv : S.bnot a = none) :
    step S cs code ⟨ip, a :: st, g⟩ = .err := by simp [step, h, hv]
theorem step_lnot {ip : Nat} {st : List V} {g : Nat → V} {a : V} (h : fetch code ip = some .lnot) :
    step S cs code ⟨ip, a :: st, g⟩ = .next ⟨ip + 1, S.ofBool (S.falsy a) :: st, g⟩ := by
  simp [step, h, Ins.size]
theorem step_jmpf {ip t : Nat} {st : List V} {g : Nat → V} {a : V} (h : fetch code ip = some (.jmpf t)) :
    step S cs code ⟨ip, a :: st, g⟩ = .next ⟨if S.falsy a then t else ip + 5, st, g⟩ := by
  simp [step, h, Ins.size]
theorem step_jmp {ip t : Nat} {st : List V} {g : Nat → V} (h : fetch code ip = some (.jmp t)) :
    step S cs code ⟨ip, st, g⟩ = .next ⟨t, st, g⟩ := by simp [step, h]
theorem step_andjmp {ip t : Nat} {st : List V} {g : Nat → V} {a : V} (h : fetch code ip = some (.andjmp t)) :
    step S cs code ⟨ip, a :: st, g⟩ =
      if S.falsy a then .next ⟨t, a :: st, g⟩ else .next ⟨ip + 5, st, g⟩ := by
  simp [step, h, Ins.size]
theorem step_orjmp {ip t : Nat} {st : List V} {g : Nat → V} {a : V} (h : fetch code ip = some (.orjmp t)) :
    step S cs code ⟨ip, a :: st, g⟩ =
      if S.falsy a then .next ⟨ip + 5, st, g⟩ else .next ⟨t, a :: st, g⟩ := by
  simp [step, h, Ins.size]

end steps

end Tengo.Model.F0

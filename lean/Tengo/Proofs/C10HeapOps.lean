import Tengo.Proofs.C10HeapFrame
/-!
C10 over the heap model — frame for ALL operations of the C09 model (`Heap9.step`): an operation modifies only
cells reachable from the value it is aimed at (its subject), everything else it does is allocation. Hence any
operation sequence none of whose mutating operations is aimed at a value reaching a cell of `b` leaves every cell
reachable from `b` unchanged.
-/
namespace Tengo.Proofs.C10Heap
open Tengo.Model.Heap9 Tengo.Model.HeapCopy Tengo.Props.C09

/-! ### Footprints -/

/-- `h'` has every old object, backing array and Go map of `h` outside the cell set `T` unchanged. -/
structure Foot (h h' : Heap) (T : Cell → Prop) : Prop where
  objs : ∀ (r : Nat) (o : Obj), h.objs[r]? = some o → ¬ T (.obj r) → h'.objs[r]? = some o
  astores : ∀ (s : Nat) (x : List Val), h.astores[s]? = some x → ¬ T (.arr s) → h'.astores[s]? = some x
  mstores : ∀ (s : Nat) (x : List (String × Val)), h.mstores[s]? = some x → ¬ T (.map s) → h'.mstores[s]? = some x

theorem Foot.of_ext {h h' : Heap} (e : Ext h h') (T : Cell → Prop) : Foot h h' T :=
  ⟨fun r o x _ => e.objs r o x, fun s v x _ => e.astores s v x, fun s v x _ => e.mstores s v x⟩

theorem Foot.refl (h : Heap) (T : Cell → Prop) : Foot h h T := Foot.of_ext (Ext.refl h) T

theorem Foot.trans {a b c : Heap} {T : Cell → Prop} (x : Foot a b T) (y : Foot b c T) : Foot a c T :=
  ⟨fun r o e n => y.objs r o (x.objs r o e n) n, fun s v e n => y.astores s v (x.astores s v e n) n,
   fun s v e n => y.mstores s v (x.mstores s v e n) n⟩

theorem Foot.mono {h h' : Heap} {T T' : Cell → Prop} (f : Foot h h' T) (sub : ∀ c, T c → T' c) : Foot h h' T' :=
  ⟨fun r o e n => f.objs r o e (fun t => n (sub _ t)), fun s v e n => f.astores s v e (fun t => n (sub _ t)),
   fun s v e n => f.mstores s v e (fun t => n (sub _ t))⟩

theorem foot_setA {h : Heap} {s : Nat} (xs : List Val) {T : Cell → Prop} (ht : T (.arr s)) : Foot h (h.setA s xs) T := by
  refine ⟨fun _ _ e _ => e, ?_, fun _ _ e _ => e⟩
  intro t x e nt
  unfold Heap.setA; simp only
  rw [List.getElem?_set_ne (fun e' => nt (by rw [← e']; exact ht))]; exact e

theorem foot_setM {h : Heap} {s : Nat} (xs : List (String × Val)) {T : Cell → Prop} (ht : T (.map s)) :
    Foot h (h.setM s xs) T := by
  refine ⟨fun _ _ e _ => e, fun _ _ e _ => e, ?_⟩
  intro t x e nt
  unfold Heap.setM; simp only
  rw [List.getElem?_set_ne (fun e' => nt (by rw [← e']; exact ht))]; exact e

theorem foot_setObj {h : Heap} {r : Nat} (o : Obj) {T : Cell → Prop} (ht : T (.obj r)) : Foot h (h.setObj r o) T := by
  refine ⟨?_, fun _ _ e _ => e, fun _ _ e _ => e⟩
  intro t x e nt
  unfold Heap.setObj; simp only
  rw [List.getElem?_set_ne (fun e' => nt (by rw [← e']; exact ht))]; exact e

theorem pushNew_foot {h : Heap} {p : Heap × Ref} {T : Cell → Prop} (f : Foot h p.1 T) : Foot h (pushNew p).1 T :=
  f.trans (Foot.of_ext (ext_push _ _) T)

theorem obj_reach {h : Heap} {r : Nat} {o : Obj} (ho : h.obj r = o) (nd : o ≠ .dead) : Reach h (.ref r) (.obj r) :=
  .obj (lt_of_lookup (obj_some ho nd))

/-! ### Every mutating operation -/

theorem arrSet_foot {h : Heap} {s : Nat} {T : Cell → Prop} (ht : T (.arr s)) (off len : Nat) (n : Int) (v : Val) :
    Foot h (arrSet h s off len n v).1 T := by
  unfold arrSet
  split
  · exact Foot.refl _ _
  · exact foot_setA _ ht

theorem indexSet_foot (h : Heap) (dst idx v : Val) : Foot h (indexSet h dst idx v).1 (Reach h dst) := by
  unfold indexSet
  repeat' split
  all_goals first
    | exact Foot.refl _ _
    | exact arrSet_foot (.arrStore (by assumption)) _ _ _ _
    | exact foot_setM _ (.mapStore (by assumption))

theorem indexAssign_foot (h : Heap) (a : Val) (sels : List Val) (src : Val) :
    Foot h (indexAssign h a sels src).1 (Reach h a) := by
  induction sels generalizing a with
  | nil => exact Foot.refl _ _
  | cons i rest ih =>
    cases rest with
    | nil => exact indexSet_foot _ _ _ _
    | cons j rest' =>
      unfold indexAssign
      split
      · rename_i next e
        exact (ih next).mono (fun c rc => indexGet_reach e rc)
      · exact Foot.refl _ _
      · exact Foot.refl _ _

/-- The cells an operation aimed at handle `x` may modify: those reachable from the value in `x`. -/
def Aim (h : Heap) (x : Nat) : Cell → Prop := fun c => ∃ v, h.regs[x]? = some v ∧ Reach h v c

theorem stepAppend_foot (h : Heap) (x : Nat) (items : List Nat) (nc : Nat) :
    Foot h (stepAppend h x items nc).1 (Aim h x) := by
  unfold stepAppend
  split
  · rename_i v vs hx _
    refine Foot.mono (T := Reach h v) ?_ (fun c rc => ⟨v, hx, rc⟩)
    repeat' split
    all_goals first
      | exact Foot.refl _ _
      | exact pushNew_foot (Foot.of_ext (ext_newArr _ _ _ _) _)
      | exact pushNew_foot (Foot.trans (foot_setA _ (.arrStore (by assumption))) (Foot.of_ext (ext_allocObj _ _) _))
  · exact Foot.refl _ _

theorem stepDelete_foot (h : Heap) (x k : Nat) : Foot h (stepDelete h x k).1 (Aim h x) := by
  unfold stepDelete
  split
  · rename_i v kv hx _
    refine Foot.mono (T := Reach h v) ?_ (fun c rc => ⟨v, hx, rc⟩)
    repeat' split
    all_goals first
      | exact Foot.refl _ _
      | exact foot_setM _ (.mapStore (by assumption))
  · exact Foot.refl _ _

theorem foot_realloc (h : Heap) (r : Ref) (xs : List Val) (o : Obj) {T : Cell → Prop} (ht : T (.obj r)) :
    Foot h { h with astores := h.astores ++ [xs], objs := h.objs.set r o } T := by
  refine ⟨?_, ?_, fun _ _ e _ => e⟩
  · intro t x e nt
    simp only
    rw [List.getElem?_set_ne (fun e' => nt (by rw [← e']; exact ht))]; exact e
  · intro t x e _
    exact getElem?_append_some _ _ _ e

theorem spliceWrite_foot (h : Heap) (r : Ref) (s off len cap st : Nat) (items : List Val) (nc : Nat)
    {T : Cell → Prop} (t1 : T (.obj r)) (t2 : T (.arr s)) : Foot h (spliceWrite h r s off len cap st items nc) T := by
  unfold spliceWrite
  simp only
  split
  · exact (foot_setA _ t2).trans (foot_setObj _ t1)
  · exact foot_realloc h r _ _ t1

theorem stepSplice_foot (h : Heap) (x : Nat) (args : List Nat) (nc dc : Nat) :
    Foot h (stepSplice h x args nc dc).1 (Aim h x) := by
  unfold stepSplice
  split
  · rename_i v avs hx _
    refine Foot.mono (T := Reach h v) ?_ (fun c rc => ⟨v, hx, rc⟩)
    repeat' split
    all_goals first
      | exact Foot.refl _ _
      | exact pushNew_foot (Foot.trans
          (spliceWrite_foot _ _ _ _ _ _ _ _ _ (obj_reach (by assumption) (by simp)) (.arrStore (by assumption)))
          (Foot.of_ext (ext_newArr _ _ _ _) _))
  · exact Foot.refl _ _

theorem foot_consume (h : Heap) (r : Ref) (x : Nat) {T : Cell → Prop} (ht : T (.obj r)) :
    Foot h { h.setObj r Obj.dead with regs := h.regs.set x Val.undef } T :=
  have e : Ext (h.setObj r Obj.dead) { h.setObj r Obj.dead with regs := h.regs.set x Val.undef } :=
    ⟨fun _ _ e => e, fun _ _ e => e, fun _ _ e => e⟩
  (foot_setObj Obj.dead ht).trans (Foot.of_ext e T)

theorem stepImmutable_foot (h : Heap) (c : Bool) (x : Nat) : Foot h (stepImmutable h c x).1 (Aim h x) := by
  unfold stepImmutable
  split
  · rename_i r hx
    refine Foot.mono (T := Reach h (.ref r)) ?_ (fun c rc => ⟨_, hx, rc⟩)
    repeat' split
    all_goals first
      | exact Foot.of_ext (ext_push _ _) _
      | exact pushNew_foot (Foot.of_ext (ext_allocObj _ _) _)
      | exact pushNew_foot (Foot.trans (foot_consume h _ _ (obj_reach (by assumption) (by simp)))
          (Foot.of_ext (ext_allocObj _ _) _))
      | exact Foot.refl _ _
  · exact Foot.of_ext (ext_push _ _) _
  · exact Foot.refl _ _

/-- The handle a mutating operation is aimed at; `none`: the operation only allocates (and pushes handles). -/
def subject : Op → Option Nat
  | .setSel x _ _ => some x
  | .append x _ _ => some x
  | .splice x _ _ _ => some x
  | .delete x _ => some x
  | .immutable _ x => some x
  | _ => none

/-- Operations without a subject are pure extensions of the heap. -/
theorem step_ext_of_pure (h : Heap) (op : Op) (hs : subject op = none) : Ext h (step h op).1 := by
  cases op with
  | lit l => exact ext_push _ _
  | mkArr elems cap =>
    simp only [step]; split
    · exact pushNew_ext (ext_newArr _ _ _ _)
    · exact Ext.refl _
  | mkMap kvs =>
    simp only [step]; split
    · exact pushNew_ext (ext_newMap _ _ _)
    · exact Ext.refl _
  | mkErr x =>
    simp only [step]; split
    · exact pushNew_ext (ext_allocObj _ _)
    · exact Ext.refl _
  | immutable c x => simp [subject] at hs
  | idxGet x i =>
    simp only [step]
    repeat' split
    all_goals first | exact Ext.refl _ | exact ext_push _ _
  | setSel x sels v => simp [subject] at hs
  | append x items nc => simp [subject] at hs
  | splice x args nc dc => simp [subject] at hs
  | delete x k => simp [subject] at hs
  | slice x lo hi nc =>
    simp only [step, stepSlice]
    repeat' split
    all_goals first
      | exact Ext.refl _
      | exact pushNew_ext (ext_newArr _ _ _ _)
      | exact pushNew_ext (ext_allocObj _ _)
  | add x y =>
    simp only [step, stepAdd]
    repeat' split
    all_goals first
      | exact Ext.refl _
      | exact ext_push _ _
      | exact pushNew_ext (ext_newArr _ _ _ _)
  | copy x caps =>
    simp only [step]
    repeat' split
    all_goals first
      | exact Ext.refl _
      | exact Ext.trans (copyN_ext _ _ _ _ _ _ _ (by assumption)) (ext_push _ _)
  | freeze x =>
    simp only [step]
    repeat' split
    all_goals first
      | exact Ext.refl _
      | exact Ext.trans (freeze_pure _ _ _ _ _ _ _ (by assumption)) (ext_push _ _)
  | iter x =>
    simp only [step, stepIter]
    repeat' split
    all_goals first
      | exact Ext.refl _
      | exact ext_pushAll _ _
  | eq x y =>
    simp only [step]
    repeat' split
    all_goals exact Ext.refl _

/-- Every operation leaves unchanged every old cell that is not reachable from its subject. -/
theorem step_foot (h : Heap) (op : Op) :
    Foot h (step h op).1 (fun c => ∃ x, subject op = some x ∧ Aim h x c) := by
  cases hs : subject op with
  | none => exact Foot.of_ext (step_ext_of_pure h op hs) _
  | some x =>
    cases op with
    | setSel y sels v =>
      simp only [subject, Option.some.injEq] at hs; subst hs
      simp only [step]
      split
      · rename_i d ss src hx _ _
        exact (indexAssign_foot h d ss src).mono (fun c rc => ⟨_, rfl, d, hx, rc⟩)
      · exact Foot.refl _ _
    | append y items nc =>
      simp only [subject, Option.some.injEq] at hs; subst hs
      exact (stepAppend_foot _ _ _ _).mono (fun c a => ⟨_, rfl, a⟩)
    | splice y args nc dc =>
      simp only [subject, Option.some.injEq] at hs; subst hs
      exact (stepSplice_foot _ _ _ _ _).mono (fun c a => ⟨_, rfl, a⟩)
    | delete y k =>
      simp only [subject, Option.some.injEq] at hs; subst hs
      exact (stepDelete_foot _ _ _).mono (fun c a => ⟨_, rfl, a⟩)
    | immutable c y =>
      simp only [subject, Option.some.injEq] at hs; subst hs
      exact (stepImmutable_foot _ _ _).mono (fun c a => ⟨_, rfl, a⟩)
    | lit _ | mkArr _ _ | mkMap _ | mkErr _ | idxGet _ _ | slice _ _ _ _ | add _ _ | copy _ _ | freeze _ | iter _ | eq _ _ =>
      simp [subject] at hs

/-! ### What is kept for a value while the heap grows -/

/-- Every cell reachable from `b` in `h` is still there in `h2`, with the same contents. -/
structure KeptF (h h2 : Heap) (b : Val) : Prop where
  objs : ∀ (r : Nat) (o : Obj), Reach h b (.obj r) → h.objs[r]? = some o → h2.objs[r]? = some o
  arr : ∀ (s : Nat) (st : List Val), Reach h b (.arr s) → h.astores[s]? = some st → h2.astores[s]? = some st
  map : ∀ (s : Nat) (st : List (String × Val)), Reach h b (.map s) → h.mstores[s]? = some st → h2.mstores[s]? = some st

theorem KeptF.refl (h : Heap) (b : Val) : KeptF h h b := ⟨fun _ _ _ e => e, fun _ _ _ e => e, fun _ _ _ e => e⟩

theorem KeptF.sub {h h2 : Heap} {b x : Val} (k : KeptF h h2 b) (hs : ∀ c, Reach h x c → Reach h b c) : KeptF h h2 x :=
  ⟨fun r o rc => k.objs r o (hs _ rc), fun s st rc => k.arr s st (hs _ rc), fun s st rc => k.map s st (hs _ rc)⟩

theorem KeptF.obj_eq {h h2 : Heap} {r : Nat} {o : Obj} (k : KeptF h h2 (.ref r)) (ho : h.obj r = o) (nd : o ≠ .dead) :
    h2.obj r = o :=
  obj_of_some (k.objs r o (obj_reach ho nd) (obj_some ho nd))

theorem KeptF.reach_to {h h2 : Heap} (c : Closed h) {b : Val} {x : Cell} (rc : Reach h b x) :
    KeptF h h2 b → Reach h2 b x := by
  induction rc with
  | obj hl =>
    intro k
    exact .obj (lt_of_lookup (k.objs _ _ (.obj hl) (List.getElem?_eq_getElem hl)))
  | arrStore ho => intro k; exact .arrStore (k.obj_eq ho (by simp))
  | arrElem ho hx _ ih =>
    intro k
    obtain ⟨st, hs⟩ := closed_arr c (obj_some ho (by simp))
    refine .arrElem (k.obj_eq ho (by simp)) ?_ (ih (k.sub (fun c r => .arrElem ho hx r)))
    rw [content_eq (k.arr _ _ (.arrStore ho) hs), ← content_eq hs]; exact hx
  | mapStore ho => intro k; exact .mapStore (k.obj_eq ho (by simp))
  | mapElem ho hx _ ih =>
    intro k
    obtain ⟨st, hs⟩ := closed_map c (obj_some ho (by simp))
    refine .mapElem (k.obj_eq ho (by simp)) ?_ (ih (k.sub (fun c r => .mapElem ho hx r)))
    rw [mstore_eq (k.map _ _ (.mapStore ho) hs), ← mstore_eq hs]; exact hx
  | errPayload ho _ ih =>
    intro k
    exact .errPayload (k.obj_eq ho (by simp)) (ih (k.sub (fun c r => .errPayload ho r)))

/-- One more step whose footprint misses what `b` reaches now. -/
theorem KeptF.step {h0 h h1 : Heap} (c : Closed h0) {b : Val} (k : KeptF h0 h b) {T : Cell → Prop} (f : Foot h h1 T)
    (d : ∀ x, Reach h b x → ¬ T x) : KeptF h0 h1 b :=
  ⟨fun r o rc e => f.objs r o (k.objs r o rc e) (d _ (KeptF.reach_to c rc k)),
   fun s st rc e => f.astores s st (k.arr s st rc e) (d _ (KeptF.reach_to c rc k)),
   fun s st rc e => f.mstores s st (k.map s st rc e) (d _ (KeptF.reach_to c rc k))⟩

/-- The deep snapshot of a kept value without dangling references is the same, at every depth. -/
theorem KeptF.snap {h h2 : Heap} (c : Closed h) (ro : RefsOk h) :
    ∀ (n : Nat) (b : Val), OldVal h b → KeptF h h2 b → snapN n h2 b = snapN n h b := by
  intro n
  induction n with
  | zero => intro b _ _; rfl
  | succ n ih =>
    intro b ob k
    cases b with
    | undef => rfl
    | int i => rfl
    | str s => rfl
    | opq s => rfl
    | ref r =>
      have hl := ob r rfl
      have hor : h.objs[r]? = some h.objs[r] := List.getElem?_eq_getElem hl
      have e2 : h2.obj r = h.obj r := by
        rw [obj_of_some (k.objs _ _ (.obj hl) hor), obj_of_some hor]
      simp only [snapN, e2]
      cases ho : h.obj r with
      | arr m s off len cap =>
        simp only
        obtain ⟨st, hs⟩ := closed_arr c (obj_some ho (by simp))
        have hc : h2.content s off len = h.content s off len := by
          rw [content_eq (k.arr _ _ (.arrStore ho) hs), ← content_eq hs]
        rw [hc]
        congr 2
        apply congrArg String.join
        apply List.map_congr_left
        intro x hx
        obtain ⟨st2, hs2, hm⟩ := mem_content hx
        rw [ih x (ro.arrs _ (List.mem_of_getElem? hs2) _ hm) (k.sub (fun c r => .arrElem ho hx r))]
      | map m s =>
        simp only
        obtain ⟨st, hs⟩ := closed_map c (obj_some ho (by simp))
        rw [mstore_eq (k.map _ _ (.mapStore ho) hs), ← mstore_eq hs]
        congr 2
        apply congrArg String.join
        apply List.map_congr_left
        intro kv hkv
        have hx : kv.2 ∈ (h.mstore s).map Prod.snd := List.mem_map_of_mem hkv
        obtain ⟨st2, hs2, hm⟩ := mem_mstore hx
        rw [ih kv.2 (ro.maps _ (List.mem_of_getElem? hs2) _ hm) (k.sub (fun c r => .mapElem ho hx r))]
      | err p =>
        simp only
        rw [ih p (ro.errs _ (List.mem_of_getElem? (obj_some ho (by simp)))) (k.sub (fun c r => .errPayload ho r))]
      | dead => rfl

/-! ### Operation sequences -/

/-- No mutating operation of the sequence is aimed at a value that — at that moment — reaches a cell of `b`. -/
def OpsAway (b : Val) : Heap → List Op → Prop
  | _, [] => True
  | h, op :: ops => (∀ x v, subject op = some x → h.regs[x]? = some v → Sep h v b) ∧ OpsAway b (step h op).1 ops

theorem ops_frame_from {b : Val} : ∀ (ops : List Op) (h0 h : Heap), Closed h0 → KeptF h0 h b → OpsAway b h ops →
    KeptF h0 (run h ops) b := by
  intro ops
  induction ops with
  | nil => intro h0 h _ k _; exact k
  | cons op ops ih =>
    intro h0 h c k ok
    have k1 : KeptF h0 (step h op).1 b := by
      refine k.step c (step_foot h op) ?_
      intro x rb ⟨y, hs, v, hv, rv⟩
      exact ok.1 y v hs hv x rv rb
    exact ih h0 _ c k1 ok.2

/-- Any operation sequence (every operation of the model: reads, slices, appends, splices, deletes, copies, freezes,
selector assignments …) whose mutating operations are never aimed at a value reaching a cell of `b` leaves every cell
reachable from `b` unchanged. -/
theorem ops_frame {b : Val} {h : Heap} (c : Closed h) (ops : List Op) (ok : OpsAway b h ops) : KeptF h (run h ops) b :=
  ops_frame_from ops h h c (KeptF.refl h b) ok

/-! ### `copy` keeps references well-formed -/

theorem OldVal.mono {h h' : Heap} (hl : h.objs.length ≤ h'.objs.length) {v : Val} (o : OldVal h v) : OldVal h' v :=
  fun r e => Nat.lt_of_lt_of_le (o r e) hl

theorem ext_olen {h h' : Heap} (e : Ext h h') : h.objs.length ≤ h'.objs.length := by
  apply Nat.le_of_not_lt
  intro hlt
  have h1 : h.objs[h'.objs.length]? = some h.objs[h'.objs.length] := List.getElem?_eq_getElem hlt
  have := lt_of_lookup (e.objs _ _ h1)
  omega

theorem refsOk_newArr {h : Heap} (ro : RefsOk h) (mu : Bool) {xs : List Val} (hx : ∀ x ∈ xs, OldVal h x) (cap : Nat) :
    RefsOk (h.newArr mu xs cap).1 := by
  have hl : h.objs.length ≤ (h.newArr mu xs cap).1.objs.length := by simp [Heap.newArr]
  refine ⟨?_, ?_, ?_⟩
  · intro st hs x hxs
    simp only [Heap.newArr, List.mem_append, List.mem_singleton] at hs
    rcases hs with hs | hs
    · exact (ro.arrs st hs x hxs).mono hl
    · subst hs
      rcases List.mem_append.mp hxs with hm | hm
      · exact (hx x hm).mono hl
      · rw [List.mem_replicate] at hm; intro r er; rw [hm.2] at er; cases er
  · intro st hs x hxs
    exact (ro.maps st hs x hxs).mono hl
  · intro p hp
    simp only [Heap.newArr, List.mem_append, List.mem_singleton] at hp
    rcases hp with hp | hp
    · exact (ro.errs p hp).mono hl
    · cases hp

theorem refsOk_newMap {h : Heap} (ro : RefsOk h) (mu : Bool) {kvs : List (String × Val)}
    (hx : ∀ x ∈ kvs.map Prod.snd, OldVal h x) : RefsOk (h.newMap mu kvs).1 := by
  have hl : h.objs.length ≤ (h.newMap mu kvs).1.objs.length := by simp [Heap.newMap]
  refine ⟨?_, ?_, ?_⟩
  · intro st hs x hxs
    exact (ro.arrs st hs x hxs).mono hl
  · intro st hs x hxs
    simp only [Heap.newMap, List.mem_append, List.mem_singleton] at hs
    rcases hs with hs | hs
    · exact (ro.maps st hs x hxs).mono hl
    · subst hs; exact (hx x hxs).mono hl
  · intro p hp
    simp only [Heap.newMap, List.mem_append, List.mem_singleton] at hp
    rcases hp with hp | hp
    · exact (ro.errs p hp).mono hl
    · cases hp

theorem refsOk_allocErr {h : Heap} (ro : RefsOk h) {p : Val} (hp : OldVal h p) : RefsOk (h.allocObj (.err p)).1 := by
  have hl : h.objs.length ≤ (h.allocObj (.err p)).1.objs.length := by simp [Heap.allocObj]
  refine ⟨fun st hs x hxs => (ro.arrs st hs x hxs).mono hl, fun st hs x hxs => (ro.maps st hs x hxs).mono hl, ?_⟩
  intro q hq
  simp only [Heap.allocObj, List.mem_append, List.mem_singleton] at hq
  rcases hq with hq | hq
  · exact (ro.errs q hq).mono hl
  · injection hq with hq; subst hq; exact hp.mono hl

theorem foldVals_copy_refsOk {n : Nat}
    (ih : ∀ (h : Heap) (caps : List Nat) (v : Val) (h' : Heap) (caps' : List Nat) (v' : Val),
      copyN n h caps v = some (h', caps', v') → RefsOk h → OldVal h v → RefsOk h' ∧ OldVal h' v') :
    ∀ (vs : List Val) (h : Heap) (caps : List Nat) (h' : Heap) (caps' : List Nat) (cs : List Val),
      foldVals (copyN n) h caps vs = some (h', caps', cs) → RefsOk h → (∀ x ∈ vs, OldVal h x) →
      RefsOk h' ∧ ∀ x ∈ cs, OldVal h' x := by
  intro vs
  induction vs with
  | nil =>
    intro h caps h' caps' cs e ro _
    simp [foldVals] at e
    obtain ⟨e1, _, e3⟩ := e
    subst e1 e3
    exact ⟨ro, (fun x hx => by cases hx)⟩
  | cons v vs ihl =>
    intro h caps h' caps' cs e ro ov
    unfold foldVals at e
    split at e
    · cases e
    · rename_i h1 c1 v1 e1
      split at e
      · cases e
      · rename_i h2 c2 vs2 e2
        injection e with e; injection e with e3 e4; injection e4 with e4 e5
        subst e3 e4 e5
        obtain ⟨ro1, o1⟩ := ih _ _ _ _ _ _ e1 ro (ov v (List.mem_cons_self ..))
        have l1 := ext_olen (copyN_ext _ _ _ _ _ _ _ e1)
        obtain ⟨ro2, o2⟩ := ihl _ _ _ _ _ e2 ro1 (fun x hx => (ov x (List.mem_cons_of_mem _ hx)).mono l1)
        have l2 := ext_olen (foldVals_ext _ (copyN_ext n) _ _ _ _ _ _ e2)
        refine ⟨ro2, ?_⟩
        intro x hx
        rcases List.mem_cons.mp hx with rfl | hx
        · exact o1.mono l2
        · exact o2 x hx

/-- `Copy` leaves no dangling reference behind and hands out none. -/
theorem copyN_refsOk : ∀ (n : Nat) (h : Heap) (caps : List Nat) (v : Val) (h' : Heap) (caps' : List Nat) (v' : Val),
    copyN n h caps v = some (h', caps', v') → RefsOk h → OldVal h v → RefsOk h' ∧ OldVal h' v' := by
  intro n
  induction n with
  | zero => intro h caps v h' caps' v' e; simp [copyN] at e
  | succ n ih =>
    intro h caps v h' caps' v' e ro ov
    unfold copyN at e
    split at e
    · rename_i r
      split at e
      · rename_i m s off len cap ho
        split at e
        · cases e
        · rename_i h1 caps1 cs ef
          injection e with e; injection e with e1 e2; injection e2 with e2 e3; subst e1 e2 e3
          obtain ⟨ro1, o1⟩ := foldVals_copy_refsOk ih _ _ _ _ _ _ ef ro
            (fun x hx => by obtain ⟨st, hs, hm⟩ := mem_content hx; exact ro.arrs _ (List.mem_of_getElem? hs) _ hm)
          refine ⟨refsOk_newArr ro1 _ o1 _, ?_⟩
          intro q eq; injection eq with eq; subst eq; simp [Heap.newArr]
      · rename_i m s ho
        split at e
        · cases e
        · rename_i h1 caps1 cs ef
          injection e with e; injection e with e1 e2; injection e2 with e2 e3; subst e1 e2 e3
          obtain ⟨ro1, o1⟩ := foldVals_copy_refsOk ih _ _ _ _ _ _ ef ro
            (fun x hx => by obtain ⟨st, hs, hm⟩ := mem_mstore hx; exact ro.maps _ (List.mem_of_getElem? hs) _ hm)
          refine ⟨refsOk_newMap ro1 _ ?_, ?_⟩
          · intro x hx
            have : x ∈ cs := by
              rw [List.mem_map] at hx
              obtain ⟨kv, hkv, rfl⟩ := hx
              exact (List.of_mem_zip hkv).2
            exact o1 x this
          · intro q eq; injection eq with eq; subst eq; simp [Heap.newMap]
      · rename_i p ho
        split at e
        · cases e
        · rename_i h1 caps1 p' ep
          injection e with e; injection e with e1 e2; injection e2 with e2 e3; subst e1 e2 e3
          obtain ⟨ro1, o1⟩ := ih _ _ _ _ _ _ ep ro (ro.errs _ (List.mem_of_getElem? (obj_some ho (by simp))))
          refine ⟨refsOk_allocErr ro1 o1, ?_⟩
          intro q eq; injection eq with eq; subst eq; simp [Heap.allocObj]
      · cases e
    · injection e with e; injection e with e1 e2; injection e2 with e2 e3; subst e1 e2 e3
      exact ⟨ro, ov⟩

end Tengo.Proofs.C10Heap

import Tengo.Proofs.VMSafeSimple
import Tengo.Proofs.VMRun
set_option linter.unusedSimpArgs false
namespace Tengo.Model.VM
open Tengo.Model Tengo.Model.Spec Tengo.Model.Opcodes Tengo.Model.Verifier

/-! ### what `checkProgram` guarantees -/

theorem instrAt_mem' {is : List Instr} {p : Nat} {i : Instr} (h : instrAt is p = some i) : i ∈ is ∧ i.pos = p := by
  unfold instrAt at h
  exact ⟨List.mem_of_find?_eq_some h, by simpa using List.find?_some h⟩

theorem tab_mem {t : ProgTabs} {idx : Nat} {ft : FnTab} (h : t.tab idx = some ft) : ft ∈ t.fns ∧ ft.idx = idx := by
  unfold ProgTabs.tab at h
  exact ⟨List.mem_of_find?_eq_some h, by simpa using List.find?_some h⟩

structure FnFacts (code : Code) (t : ProgTabs) (G : Nat) (idx : Nat) (ft : FnTab) (f : Fn) : Prop where
  fn : code.fn idx = some f
  dec : decode f.insts.toList = some ft.is
  opd : ∀ i ∈ ft.is, operandOk (envOf code t G idx f) i = none
  chk : ∀ i ∈ ft.is, checkInstr ft.is ft.hm heightLimit i = true
  h0 : ft.hm.get 0 = some 0
  i0 : (instrAt ft.is 0).isSome = true
  ext : ∀ i ∈ ft.is, extraOk code t idx f.insts.toList ft.hm i = true

section
variable {code : Code} {t : ProgTabs} {G : Nat} (hck : checkProgram code G t = true)
include hck

theorem fn_facts {idx : Nat} {ft : FnTab} (ht : t.tab idx = some ft) : ∃ f, FnFacts code t G idx ft f := by
  obtain ⟨hmem, hidx⟩ := tab_mem ht
  unfold checkProgram at hck
  simp only [Bool.and_eq_true] at hck
  have hfn := (List.all_eq_true.mp hck.1.1.1.1) ft hmem
  unfold checkFn at hfn
  rw [hidx] at hfn
  cases hf : code.fn idx with
  | none => rw [hf] at hfn; cases hfn
  | some f =>
    rw [hf] at hfn
    simp only [Bool.and_eq_true, beq_iff_eq] at hfn
    obtain ⟨⟨⟨⟨⟨hdec, hopd⟩, hchk⟩, h0⟩, i0⟩, hext⟩ := hfn
    refine ⟨f, hf, hdec, ?_, ?_, h0, i0, ?_⟩
    · intro i hi
      unfold operandsOk at hopd
      cases hfs : List.findSome? (fun i => (operandOk (envOf code t G idx f) i).map (fun w => VErr.badOperand i.pos w)) ft.is with
      | some e => rw [hfs] at hopd; cases hopd
      | none =>
        have := List.findSome?_eq_none_iff.mp hfs i hi
        simpa using this
    · intro i hi
      exact (List.all_eq_true.mp (by simpa [checkAll] using hchk)) i hi
    · intro i hi
      exact (List.all_eq_true.mp hext) i hi

theorem main_tab : ∃ ft, t.tab 0 = some ft := by
  unfold checkProgram at hck
  simp only [Bool.and_eq_true] at hck
  exact Option.isSome_iff_exists.mp hck.1.1.1.2

theorem main_locals : code.main.numLocals = 0 := by
  unfold checkProgram at hck
  simp only [Bool.and_eq_true, beq_iff_eq] at hck
  exact hck.1.1.2

/-- A function constant with a declared capture count is tabulated. -/
theorem declared_tab {k : Nat} {n : Nat} {fn : Fn} {ref : Nat} (hk : code.consts[k]? = some (.fn fn ref))
    (hn : t.numFree.lookup k = some n) : ∃ ft, t.tab (k + 1) = some ft := by
  unfold checkProgram at hck
  simp only [Bool.and_eq_true] at hck
  have hall := hck.1.2
  have hklt : k < code.consts.size := by
    rcases Array.getElem?_eq_some_iff.mp hk with ⟨h, _⟩; exact h
  have := (List.all_eq_true.mp hall) k (List.mem_range.mpr hklt)
  rw [hk] at this
  simp only [Bool.or_eq_true, Bool.and_eq_true, Bool.not_eq_true', hn, Option.isNone_some, Bool.and_false, Bool.false_or] at this
  exact Option.isSome_iff_exists.mp this

end

/-! ### the invariant -/

/-- A frame stands at an instruction boundary of its (verified) function with the stack pointer the
height table predicts. -/
def FrameAt (code : Code) (t : ProgTabs) (fr : Frame) (sp : Nat) : Prop :=
  ∃ ft f i h, t.tab fr.fnIdx = some ft ∧ code.fn fr.fnIdx = some f ∧ instrAt ft.is i.pos = some i ∧
    fr.ip + 1 = (i.pos : Int) ∧ ft.hm.get i.pos = some h ∧ sp = fr.bp + f.numLocals + h ∧
    fr.free.length = t.free fr.fnIdx

/-- The suspended frames: each caller resumes, with the stack pointer at the callee's base, at a
tabulated boundary; the bottom frame runs the main function. -/
def Chain (code : Code) (t : ProgTabs) : Frame → List Frame → Prop
  | callee, [] => callee.fnIdx = 0 ∧ callee.bp = 0
  | callee, caller :: rest => 1 ≤ callee.bp ∧ callee.fnIdx ≠ 0 ∧ FrameAt code t caller callee.bp ∧ Chain code t caller rest

def FobjsOK (code : Code) (t : ProgTabs) (fo : Array FnObj) : Prop :=
  ∀ (r k : Nat) (free : List Nat), fo[r]? = some (k, free) →
    t.numFree.lookup k = some free.length ∧ ∃ fn ref, code.consts[k]? = some (.fn fn ref)

structure Inv (code : Code) (t : ProgTabs) (G : Nat) (c : Core) : Prop where
  cur : FrameAt code t c.cur c.regs.sp
  chain : Chain code t c.cur c.callers
  gl : c.regs.globals.size = G
  fo : FobjsOK code t c.regs.fobjs

theorem Chain_congr {code : Code} {t : ProgTabs} {a b : Frame} {l : List Frame}
    (h1 : a.fnIdx = b.fnIdx) (h2 : a.bp = b.bp) (h : Chain code t a l) : Chain code t b l := by
  cases l with
  | nil => unfold Chain at *; rw [← h1, ← h2]; exact h
  | cons c rest => unfold Chain at *; rw [← h1, ← h2]; exact h

theorem FobjsOK_step {code : Code} {t : ProgTabs} {fo fo' : Array FnObj}
    (h : FobjsOK code t fo) (hs : FobjsStep code t fo fo') : FobjsOK code t fo' := by
  rcases hs with rfl | ⟨k, free, fn, ref, rfl, hk, hn⟩
  · exact h
  · unfold FobjsOK
    intro r k' free' hr
    rw [Array.getElem?_push] at hr
    split at hr
    · simp only [Option.some.injEq, Prod.mk.injEq] at hr
      obtain ⟨rfl, rfl⟩ := hr
      exact ⟨hn, fn, ref, hk⟩
    · exact h r k' free' hr


section
variable {code : Code} {t : ProgTabs} {G : Nat} (hck : checkProgram code G t = true)
include hck

theorem frame_ctx {fr : Frame} {r : Regs} (hfa : FrameAt code t fr r.sp) (hgl : r.globals.size = G) :
    ∃ ft f i h, t.tab fr.fnIdx = some ft ∧ FnFacts code t G fr.fnIdx ft f ∧ AtInstr code t G f ft fr r i h := by
  obtain ⟨ft, f, i, h, htab, hfn, hat, hip, hget, hsp, hfree⟩ := hfa
  obtain ⟨f', facts⟩ := fn_facts hck htab
  have : f' = f := by have := facts.fn; rw [hfn] at this; injection this with this; exact this.symm
  subst this
  obtain ⟨hmem, _⟩ := instrAt_mem' hat
  exact ⟨ft, f', i, h, htab, facts,
    { dec := facts.dec, mem := hmem, ipEq := hip, hget := hget, spEq := hsp, chk := facts.chk i hmem,
      opd := facts.opd i hmem, ext := facts.ext i hmem, freeLen := hfree, gl := hgl }⟩

omit hck in
/-- Entering function `idx` at its first instruction with an empty operand stack. -/
theorem entry_frame {idx : Nat} {ft : FnTab} {f : Fn} (htab : t.tab idx = some ft) (facts : FnFacts code t G idx ft f)
    (fr : Frame) (hidx : fr.fnIdx = idx) (hip : fr.ip = -1) (hfree : fr.free.length = t.free idx) :
    FrameAt code t fr (fr.bp + f.numLocals) := by
  obtain ⟨i0, hi0⟩ := Option.isSome_iff_exists.mp facts.i0
  obtain ⟨_, hpos⟩ := instrAt_mem' hi0
  refine ⟨ft, f, i0, 0, by rw [hidx]; exact htab, by rw [hidx]; exact facts.fn, by rw [hpos]; exact hi0, ?_, ?_, rfl, ?_⟩
  · rw [hip, hpos]; rfl
  · rw [hpos]; exact facts.h0
  · rw [hidx]; exact hfree


/-- What one dispatch guarantees. -/
def StepGoal (code : Code) (t : ProgTabs) (G : Nat) : ExecOut → Prop
  | .next c' _ => Inv code t G c'
  | .halt c' => c'.regs.sp = 0 ∧ c'.callers = []

theorem exec_simple_case {c : Core} (hinv : Inv code t G c) {ft : FnTab} {f : Fn} {i : Instr} {h : Nat}
    (ctx : AtInstr code t G f ft c.cur c.regs i h) (htab : t.tab c.cur.fnIdx = some ft) (hfn : code.fn c.cur.fnIdx = some f)
    (hnc : i.op ≠ opCall) (hnr : i.op ≠ opReturn) (hns : i.op ≠ opSuspend) :
    SafeX (do
      let o ← execSimple code c.cur (A0 i.args) (A1 i.args) i.op c.regs
      let ip' : Int := match o.next with
        | .seq => (i.pos : Int) + i.size - 1
        | .jump t => Int.ofNat t - 1
      pure (ExecOut.next { c with regs := o.regs, cur := { c.cur with ip := ip' } } o.alloc)) (StepGoal code t G) := by
  refine SafeX_bind (execSimple_step ctx hnc hnr hns) ?_
  rintro o ⟨⟨p', h', hat, hget, hnext, hsp, hgl⟩, hfs⟩
  apply SafeX_pure
  obtain ⟨i', hi'⟩ := Option.isSome_iff_exists.mp hat
  obtain ⟨_, hpos⟩ := instrAt_mem' hi'
  refine ⟨⟨ft, f, i', h', htab, hfn, by rw [hpos]; exact hi', ?_, by rw [hpos]; exact hget, hsp, ctx.freeLen⟩, ?_, hgl,
    FobjsOK_step hinv.fo hfs⟩
  · rw [hpos]
    dsimp only
    cases hn : o.next with
    | seq => rw [hn] at hnext; dsimp only at hnext ⊢; rw [hnext]; push_cast; omega
    | jump tg => rw [hn] at hnext; dsimp only at hnext ⊢; rw [hnext]; simp
  · exact Chain_congr (a := c.cur) rfl rfl hinv.chain

omit hck in
theorem byteAt_getD (f : Fn) (n : Nat) : byteAt f (n : Int) = (f.insts.toList.getD n 0).toNat := by
  unfold byteAt
  have h0 : ¬ ((n : Int) < 0) := by omega
  simp only [h0, ↓reduceIte, Int.toNat_natCast]
  simp [Array.getD_eq_getD_getElem?, List.getD_eq_getElem?_getD]

/-- The facts about a CALL instruction of a verified function. -/
structure CallFacts (f : Fn) (ft : FnTab) (pos h : Nat) (args : List Nat) : Prop where
  le : A0 args + 1 ≤ h
  next : (instrAt ft.is (pos + 3)).isSome = true ∧ ft.hm.get (pos + 3) = some (h - (A0 args + 1) + 1)
  spread : A1 args = 1 → 1 ≤ A0 args
  tail : (byteAt f ((pos : Int) + 2 + 1) = opReturn ∨
          (byteAt f ((pos : Int) + 2 + 1) = opPop ∧ byteAt f ((pos : Int) + 2 + 2) = opReturn)) →
         h = A0 args + 1

omit hck in
theorem call_facts {f : Fn} {ft : FnTab} {fr : Frame} {r : Regs} {pos : Nat} {args : List Nat} {h : Nat}
    (ctx : AtInstr code t G f ft fr r ⟨pos, opCall, args⟩ h) : CallFacts f ft pos h args := by
  have hs : succs ⟨pos, opCall, args⟩ h =
      if h < A0 args + 1 then none
      else some [(pos + (1 + 2), h - (A0 args + 1) + 1)] := by succs_simp
  obtain ⟨l, hl, hall⟩ := ctx.succs_ok
  rw [hs] at hl
  split at hl
  · cases hl
  rename_i hge
  injection hl with hl
  subst hl
  have hnext := hall _ _ (List.mem_singleton.mpr rfl)
  have hext := ctx.ext
  have e0 : A0 args = args.head?.getD 0 := by simp [A0]
  have e1 : A1 args = args[1]?.getD 0 := by simp [A1]
  simp only [extraOk, opCall, opClosure, opConstant,
    Nat.reduceBEq, Bool.false_eq_true, ↓reduceIte, ctx.hget, Bool.and_eq_true, Bool.or_eq_true, bne_iff_ne, ne_eq,
    decide_eq_true_eq] at hext
  obtain ⟨hsp, htl⟩ := hext
  have e3 : ((pos : Int) + 2 + 1) = ((pos + 3 : Nat) : Int) := by push_cast; omega
  have e4 : ((pos : Int) + 2 + 2) = ((pos + 4 : Nat) : Int) := by push_cast; omega
  refine ⟨by omega, by simpa using hnext, ?_, ?_⟩
  · intro h1
    rcases hsp with h | h
    · exact absurd h1 h
    · simpa using h
  · intro htail
    rw [e3, e4, byteAt_getD, byteAt_getD] at htail
    have : ((f.insts.toList.getD (pos + 3) 0).toNat == opReturn) = true ∨
          ((f.insts.toList.getD (pos + 3) 0).toNat == opPop) = true ∧
            ((f.insts.toList.getD (pos + 4) 0).toNat == opReturn) = true := by
      rcases htail with h | ⟨h1, h2⟩
      · left; rw [h]; rfl
      · right; rw [h1, h2]; exact ⟨rfl, rfl⟩
    rw [if_pos this] at htl
    simpa using htl

omit hck in
/-- The frame that made a call, as it will be resumed: at the instruction after the CALL, with the
stack pointer just above the result slot. -/
theorem resume_frame {c : Core} {ft : FnTab} {f : Fn} {pos h : Nat} {args : List Nat} (cf : CallFacts f ft pos h args)
    (htab : t.tab c.cur.fnIdx = some ft) (hfn : code.fn c.cur.fnIdx = some f)
    (hsp : c.regs.sp = c.cur.bp + f.numLocals + h) (hfree : c.cur.free.length = t.free c.cur.fnIdx)
    (fr' : Frame) (h1 : fr'.fnIdx = c.cur.fnIdx) (h2 : fr'.bp = c.cur.bp) (h3 : fr'.free = c.cur.free)
    (h4 : fr'.ip = (pos : Int) + 2) (sp' : Nat) (h5 : sp' + A0 args = c.regs.sp) :
    FrameAt code t fr' sp' := by
  obtain ⟨i', hi'⟩ := Option.isSome_iff_exists.mp cf.next.1
  obtain ⟨_, hpos⟩ := instrAt_mem' hi'
  refine ⟨ft, f, i', _, by rw [h1]; exact htab, by rw [h1]; exact hfn, by rw [hpos]; exact hi', ?_,
    by rw [hpos]; exact cf.next.2, ?_, by rw [h1, h3]; exact hfree⟩
  · rw [h4, hpos]; push_cast; omega
  · have := cf.le; rw [h2]; omega

theorem exec_call_case {c : Core} (hinv : Inv code t G c) {ft : FnTab} {f : Fn} {pos : Nat} {args : List Nat} {h : Nat}
    (ctx : AtInstr code t G f ft c.cur c.regs ⟨pos, opCall, args⟩ h) (htab : t.tab c.cur.fnIdx = some ft)
    (facts : FnFacts code t G c.cur.fnIdx ft f) :
    SafeX (execCall code f (pos : Int) (A0 args) (A1 args) c) (StepGoal code t G) := by
  have cf := call_facts ctx
  have hfn := facts.fn
  have hsp := ctx.spEq
  refine SafeX_mono (execCall_spec code f pos (A0 args) (A1 args) c (by have := cf.le; omega) cf.spread) ?_
  intro o hpost
  cases hpost with
  | builtin c' h1 h2 h3 h4 h5 =>
    refine ⟨?_, ?_, by rw [h2]; exact hinv.gl, by rw [h3]; exact hinv.fo⟩
    · exact resume_frame cf htab hfn hsp ctx.freeLen c'.cur (by rw [h4]) (by rw [h4]) (by rw [h4]) (by rw [h4]) _ h1
    · rw [h5]; exact Chain_congr (a := c.cur) (by rw [h4]) (by rw [h4]) hinv.chain
  | tail c' cr h1 h2 h3 h4 h5 h6 h7 h8 ht =>
    have hh : h = A0 args + 1 := by
      apply cf.tail
      unfold isSelfTail at ht
      simp only [Bool.and_eq_true, Bool.or_eq_true, beq_iff_eq] at ht
      exact ht.2
    refine ⟨?_, ?_, by rw [h2]; exact hinv.gl, by rw [h3]; exact hinv.fo⟩
    · have := entry_frame htab facts c'.cur h5 h4 (by rw [h7]; exact ctx.freeLen)
      have hsp' : c'.regs.sp = c'.cur.bp + f.numLocals := by rw [h6]; omega
      rw [hsp']; exact this
    · rw [h8]; exact Chain_congr (a := c.cur) h5.symm h6.symm hinv.chain
  | push c' cr k free cfn ref hfo hk h1 h2 h3 h4 h5 h6 h7 h8 =>
    obtain ⟨hlk, _⟩ := hinv.fo cr k free hfo
    obtain ⟨ft', htab'⟩ := declared_tab hck hk hlk
    obtain ⟨f', facts'⟩ := fn_facts hck htab'
    have hf' : f' = cfn := by
      have := facts'.fn
      unfold Code.fn at this
      simp [hk] at this
      exact this.symm
    subst hf'
    refine ⟨?_, ?_, by rw [h6]; exact hinv.gl, by rw [h7]; exact hinv.fo⟩
    · have := entry_frame htab' facts' c'.cur h1 h2 (by rw [h4]; unfold ProgTabs.free; simp [hlk])
      rw [h5]; exact this
    · rw [h8]
      refine ⟨by have := cf.le; omega, by rw [h1]; omega, ?_, Chain_congr (a := c.cur) rfl rfl hinv.chain⟩
      exact resume_frame cf htab hfn hsp ctx.freeLen { c.cur with ip := (pos : Int) + 2 } rfl rfl rfl rfl _ h3

theorem exec_return_case {c : Core} (hinv : Inv code t G c) {ft : FnTab} {f : Fn} {pos : Nat} {args : List Nat} {h : Nat}
    (ctx : AtInstr code t G f ft c.cur c.regs ⟨pos, opReturn, args⟩ h) :
    SafeX (execReturn (A0 args) c) (StepGoal code t G) := by
  have hs : succs ⟨pos, opReturn, args⟩ h =
      if h < A0 args then none else some [] := by succs_simp
  obtain ⟨l, hl, _⟩ := ctx.succs_ok
  rw [hs] at hl
  split at hl
  · cases hl
  rename_i hge
  have hext := ctx.ext
  simp only [extraOk, opReturn, opCall, opClosure, opConstant, Nat.reduceBEq, Bool.false_eq_true, ↓reduceIte,
    ctx.hget, Bool.or_eq_true, bne_iff_ne, ne_eq] at hext
  have hidx : c.cur.fnIdx ≠ 0 := by
    rcases hext with h | h
    · exact h
    · simp at h
  cases hcs : c.callers with
  | nil =>
    have := hinv.chain
    rw [hcs] at this
    exact absurd this.1 hidx
  | cons caller rest =>
    have hch := hinv.chain
    rw [hcs] at hch
    obtain ⟨_, _, hfa, hrest⟩ := hch
    refine SafeX_mono (execReturn_spec (A0 args) c caller rest hcs (by intro h1; have := ctx.spEq; omega)) ?_
    rintro o ⟨c', rfl, h1, h2, h3, h4, h5⟩
    refine ⟨by rw [h1, h3]; exact hfa, by rw [h1, h2]; exact hrest, by rw [h4]; exact hinv.gl, by rw [h5]; exact hinv.fo⟩

/-- **One dispatch of a verified program preserves the invariant and cannot fault.** -/
theorem exec_inv {c : Core} (hinv : Inv code t G c) : SafeX (exec code c) (StepGoal code t G) := by
  obtain ⟨ft, f, i, h, htab, facts, ctx⟩ := frame_ctx hck hinv.cur hinv.gl
  obtain ⟨hop, hlt⟩ := op_at f ft.is ctx.dec i ctx.mem
  unfold exec
  rw [facts.fn]
  dsimp only
  rw [ctx.ipEq]
  have hb : ¬ ((decide ((i.pos : Int) < 0) || decide (((i.pos : Int)).toNat ≥ f.insts.size)) = true) := by
    simp only [Bool.or_eq_true, decide_eq_true_eq, Int.toNat_natCast, not_or]
    exact ⟨by omega, by omega⟩
  rw [if_neg hb, fetch_decoded f ft.is ctx.dec i ctx.mem]
  dsimp only
  obtain ⟨pos, op, args⟩ := i
  dsimp only at hop ctx ⊢
  by_cases hcall : op = opCall
  · subst hcall
    rw [if_pos (by rfl)]
    exact exec_call_case hck hinv ctx htab facts
  rw [if_neg (by simpa using hcall)]
  by_cases hret : op = opReturn
  · subst hret
    rw [if_pos (by rfl)]
    exact exec_return_case hck hinv ctx
  rw [if_neg (by simpa using hret)]
  by_cases hsus : op = opSuspend
  · subst hsus
    rw [if_pos (by rfl)]
    apply SafeX_pure
    -- SUSPEND is reachable only in the main function, at height 0
    have hext := ctx.ext
    simp only [extraOk, opSuspend, opReturn, opCall, opClosure, opConstant, Nat.reduceBEq, Bool.false_eq_true,
      ↓reduceIte, ctx.hget] at hext
    have hmain : c.cur.fnIdx = 0 ∧ h = 0 := by
      by_cases h0 : c.cur.fnIdx = 0
      · simp [h0] at hext
        exact ⟨h0, hext⟩
      · simp [h0] at hext
    have hcallers : c.callers = [] := by
      cases hcs : c.callers with
      | nil => rfl
      | cons a l => have := hinv.chain; rw [hcs] at this; exact absurd hmain.1 this.2.1
    have hbp : c.cur.bp = 0 := by have := hinv.chain; rw [hcallers] at this; exact this.2
    have hf : f = code.main := by
      have := facts.fn
      unfold Code.fn at this
      simp [hmain.1] at this
      exact this.symm
    refine ⟨?_, hcallers⟩
    show c.regs.sp = 0
    rw [ctx.spEq, hbp, hmain.2, hf, main_locals hck]
  rw [if_neg (by simpa using hsus)]
  exact exec_simple_case hck hinv ctx htab facts.fn hcall hret hsus

end

/-! ### the run -/

/-- What a run of a verified program can end in. -/
def GoodOutcome (code : Code) (t : ProgTabs) (G : Nat) : Outcome → Prop
  | .fault _ _ => False
  | .halted cfg' => cfg'.core.regs.sp = 0 ∧ cfg'.core.callers = []
  | .failed _ at_ => Inv code t G at_.core
  | .limit at_ => Inv code t G at_.core
  | .outOfFuel cfg' => Inv code t G cfg'.core

/-- **C02, consequence clause, for the whole-VM model.** For a program accepted by the whole-program
verifier, started as `VM.Run` starts it, no run — of any length, under any allocation budget, from any
heap — ends in an internal fault (unknown opcode, operand outside its table, closure over a
non-function, fetch outside the instruction stream, operand-stack underflow, return from the main
function), every configuration it reaches satisfies the invariant (in particular the operand stack
has exactly the verified height at every instruction), and a run that halts leaves the operand
stack empty. -/
theorem run_safe {code : Code} {t : ProgTabs} {G : Nat} (hck : checkProgram code G t = true) (keep : Nat) :
    ∀ (fuel : Nat) (allocs : Int) (cfg : Cfg) (log : Log), Inv code t G cfg.core →
      GoodOutcome code t G (run code keep fuel allocs cfg log).1 := by
  intro fuel
  induction fuel with
  | zero => intro allocs cfg log hinv; simpa [run, GoodOutcome] using hinv
  | succ fuel ih =>
    intro allocs cfg log hinv
    rw [run_succ]
    have hstep := exec_inv hck hinv
    split
    · exact hinv
    · rename_i heq
      obtain ⟨v, hv, _⟩ := hstep _ _ _ _ _ heq
      cases hv
    · rename_i heq
      obtain ⟨v, hv, hp⟩ := hstep _ _ _ _ _ heq
      cases hv
      exact hp
    · rename_i c g hh heq
      obtain ⟨v, hv, hp⟩ := hstep _ _ _ _ _ heq
      cases hv
      exact ih allocs ⟨c, g, hh⟩ _ hp
    · rename_i c g hh heq
      obtain ⟨v, hv, hp⟩ := hstep _ _ _ _ _ heq
      cases hv
      split
      · exact hinv
      · exact ih (allocs - 1) ⟨c, g, hh⟩ _ hp


/-! ### the initial configuration -/

theorem lookup_mem {α β} [BEq α] [LawfulBEq α] {l : List (α × β)} {k : α} {v : β} (h : l.lookup k = some v) : (k, v) ∈ l := by
  induction l with
  | nil => simp [List.lookup] at h
  | cons p l ih =>
    obtain ⟨a, b⟩ := p
    simp only [List.lookup] at h
    split at h
    · rename_i heq
      have : k = a := by simpa using heq
      subst this
      injection h with h; subst h
      exact List.mem_cons_self
    · exact List.mem_cons_of_mem _ (ih h)

/-- `VM.Run` starts a verified program in a state satisfying the invariant. -/
theorem init_inv {code : Code} {t : ProgTabs} {G : Nat} (hck : checkProgram code G t = true)
    (globals : Array Value) (hG : globals.size = G) (fobjs : Array FnObj) (hi : initOk code t fobjs = true) :
    Inv code t G (initCore globals fobjs) := by
  obtain ⟨ft, htab⟩ := main_tab hck
  obtain ⟨f, facts⟩ := fn_facts hck htab
  have hf : f = code.main := by
    have := facts.fn; unfold Code.fn at this; simp at this; exact this.symm
  refine ⟨?_, ⟨rfl, rfl⟩, hG, ?_⟩
  · have := entry_frame htab facts (initCore globals fobjs).cur rfl rfl (by simp [initCore, ProgTabs.free])
    rw [hf, main_locals hck] at this
    exact this
  · intro r k free hr
    unfold initOk at hi
    simp only [Bool.and_eq_true] at hi
    have hmem : (k, free) ∈ fobjs.toList := by
      obtain ⟨hlt, heq⟩ := Array.getElem?_eq_some_iff.mp hr
      have hm : (k, free) ∈ fobjs := by rw [← heq]; exact Array.getElem_mem hlt
      exact Array.mem_def.mp hm
    have h1 := (List.all_eq_true.mp hi.1) (k, free) hmem
    simp only [Bool.and_eq_true, List.isEmpty_iff, beq_iff_eq] at h1
    obtain ⟨rfl, hlk⟩ := h1
    refine ⟨by simpa using hlk, ?_⟩
    unfold checkProgram at hck
    simp only [Bool.and_eq_true] at hck
    have := (List.all_eq_true.mp hck.2) (k, 0) (lookup_mem hlk)
    dsimp only at this
    cases hc : code.consts[k]? with
    | none => rw [hc] at this; cases this
    | some cst =>
      cases cst with
      | val v => rw [hc] at this; cases this
      | fn fn ref => exact ⟨fn, ref, rfl⟩

end Tengo.Model.VM

namespace Tengo.Model.VM
open Tengo.Model Tengo.Model.Spec Tengo.Model.Opcodes Tengo.Model.Verifier

/-- In a verified program a frame that stands at the start of its function has an empty operand
stack: `sp = bp + NumLocals`. (After a self tail call the frame stands there again — see
`Tengo.Props.VM.tail_call_constant_space`.) -/
theorem entry_sp {code : Code} {t : ProgTabs} {G : Nat} (hck : checkProgram code G t = true) {c : Core}
    (hinv : Inv code t G c) (hip : c.cur.ip = -1) :
    ∃ f, code.fn c.cur.fnIdx = some f ∧ c.regs.sp = c.cur.bp + f.numLocals := by
  obtain ⟨ft, f, i, h, htab, hfn, hat, hipEq, hget, hsp, _⟩ := hinv.cur
  obtain ⟨f', facts⟩ := fn_facts hck htab
  have hpos : i.pos = 0 := by rw [hip] at hipEq; omega
  rw [hpos, facts.h0] at hget
  injection hget with hget
  exact ⟨f, hfn, by rw [hsp, ← hget]; rfl⟩

end Tengo.Model.VM

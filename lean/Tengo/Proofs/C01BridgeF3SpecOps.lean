import Tengo.Proofs.C01BridgeF3SpecBase
/-!
C01 bridge for fragment F3, reference-interpreter side, layer 1: the interpreter's primitives on the invariants of
layer 0 — variables (`readVar`, `writeVar`, `declare`), the data operations through the value relation, the call
(`callTail`, `callClosure` unfolded, the parameter loop).
-/
set_option linter.unusedVariables false
set_option linter.unusedSimpArgs false
namespace Tengo.Proofs.C01BridgeF3Spec
open Tengo.Model Tengo.Model.Spec
open Tengo.Model.F3 (Ex Exs Stm Stms FnDef Prog Locals ERes EsRes Res updL bindArgs)
open Tengo.Proofs.C01Bridge
open Tengo.Proofs.C01BridgeF3 (DataRel NotCallable)
open Tengo.Proofs.C01BridgeF3Comp
open Tengo.Proofs.C01F3Opt (EnvOk)

variable {V : Type} {C : Cx V}

/-! ### environments -/

theorem lookupVar_cons (f : Spec.Frame) (env : Spec.Env) (x : String) :
    lookupVar (f :: env) x = (match f.vars.lookup x with | some r => some r | none => lookupVar env x) := by
  simp only [lookupVar, List.findSome?_cons]
  cases f.vars.lookup x <;> rfl

theorem lookupVar_push (env : Spec.Env) (x : String) : lookupVar ({ vars := [] } :: env) x = lookupVar env x := by
  rw [lookupVar_cons]; rfl

theorem EInv.push {env : Spec.Env} {m : Nat} {lc : Nat → Nat} (h : EInv C env m lc) :
    EInv C ({ vars := [] } :: env) m lc :=
  ⟨fun i hi => by rw [lookupVar_push]; exact h.glob i hi, fun i hi => by rw [lookupVar_push]; exact h.loc i hi⟩

theorem lookup_filter_ne {x y : String} (h : x ≠ y) : ∀ (l : List (String × Nat)),
    (l.filter (fun p => p.1 != y)).lookup x = l.lookup x
  | [] => rfl
  | (k, r) :: l => by
    by_cases hk : k = y
    · subst hk
      have h1 : (x == k) = false := by simp [h]
      simp only [List.filter, bne_self_eq_false, List.lookup, h1]
      exact lookup_filter_ne h l
    · have h1 : (k != y) = true := by simp [hk]
      simp only [List.filter, h1, List.lookup]
      cases x == k
      · exact lookup_filter_ne h l
      · rfl

/-- What `declare` does to the environment inside a function. -/
def bindEnv (env : Spec.Env) (nm : String) (r : Nat) : Spec.Env :=
  match env with
  | f :: rest => { f with vars := (nm, r) :: f.vars.filter (fun p => p.1 != nm) } :: rest
  | [] => [{ vars := [(nm, r)] }]

theorem lookupVar_bind_eq (env : Spec.Env) (nm : String) (r : Nat) : lookupVar (bindEnv env nm r) nm = some r := by
  cases env <;> simp [bindEnv, lookupVar_cons, List.lookup]

theorem lookupVar_bind_ne (env : Spec.Env) {nm x : String} (r : Nat) (h : x ≠ nm) :
    lookupVar (bindEnv env nm r) x = lookupVar env x := by
  have h1 : (x == nm) = false := by simp [h]
  cases env with
  | nil => simp [bindEnv, lookupVar_cons, List.lookup, h1, lookupVar]
  | cons f rest =>
    simp only [bindEnv, lookupVar_cons, List.lookup, h1, lookup_filter_ne h]

theorem declare_run (ctx : Ctx) (nm : String) (v : Value) (h : ctx.callDepth ≠ 0) (gs : GSt) (σ : St) :
    EOk (declare ctx nm v) gs σ (bindEnv ctx.env nm σ.heap.size) (pushSt σ (.cell v false)) := by
  unfold declare
  have h1 : (ctx.callDepth == 0) = false := by simp [h]
  simp only [h1, Bool.false_eq_true, if_false]
  refine EOk.bind (EOk.lift (alloc_run _ σ)) ?_
  cases hc : ctx.env <;> exact EOk.pure _ gs _


/-! ### variables -/

theorem readVar_run {env : Spec.Env} {nm : String} {r : Nat} {σ : St} {w : Value} {b : Bool}
    (hl : lookupVar env nm = some r) (hc : σ.heap[r]? = some (.cell w b)) (gs : GSt) :
    EOk (readVar env nm) gs σ w σ := by
  unfold readVar
  rw [hl]
  exact EOk.bind (EOk.lift (getObj_run hc)) (EOk.pure _ gs σ)

theorem writeVar_run {env : Spec.Env} {nm : String} {r : Nat} (hl : lookupVar env nm = some r) (v : Value)
    (gs : GSt) (σ : St) : EOk (writeVar env nm v) gs σ () (setSt σ r (.cell v false)) := by
  unfold writeVar
  rw [hl]
  exact EOk.lift (setObj_run _ _ _)

/-! ### data operations through the value relation -/

theorem scalar_or_cfn (hy : Hyp C) (v : V) : Scalar (C.val v) = true ∨ ∃ r, C.val v = .cfn r := hy.vals v

theorem vr_falsy (hy : Hyp C) {σ : St} {a : V} {wa : Value} (ha : VR C σ a wa) (gs : GSt) (σ' : St) :
    EOk (Spec.liftM (isFalsy wa)) gs σ' (C.E.S.falsy a) σ' := by
  refine EOk.lift ?_
  rw [isFalsy_sim (ha.sim hy)]
  exact hy.data.falsy a σ'

theorem vr_eqv (hy : Hyp C) {σ : St} {a b : V} {wa wb : Value} (ha : VR C σ a wa) (hb : VR C σ b wb)
    (gs : GSt) (σ' : St) : EOk (Spec.liftM (equalsV 64 wa wb)) gs σ' (C.E.S.eqv a b) σ' := by
  refine EOk.lift ?_
  rw [equalsV_sim (ha.sim hy) (hb.sim hy)]
  exact hy.data.eqv a b σ'

theorem vr_binop (hy : Hyp C) {σ : St} {a b : V} {wa wb : Value} (ha : VR C σ a wa) (hb : VR C σ b wb)
    (t : Nat) (gs : GSt) (σ' : St) :
    (∀ v, C.E.S.binop t a b = some v →
      EOk (Spec.liftM (binaryOp (VM.tokOfNum t) wa wb)) gs σ' (C.val v) σ' ∧ Scalar (C.val v) = true) ∧
    (C.E.S.binop t a b = none →
      ∃ err, err ≠ Err.fuel ∧ EErr (Spec.liftM (binaryOp (VM.tokOfNum t) wa wb)) gs σ' err) := by
  rw [binaryOp_sim (VM.tokOfNum t) (ha.sim hy) (hb.sim hy)]
  constructor
  · intro v hv
    have h1 := hy.data.binop_ok t a b v σ' hv
    refine ⟨EOk.lift h1, ?_⟩
    rcases Tengo.Proofs.C01BridgeF3.binaryOp_pure3 (VM.tokOfNum t) (C.val a) (C.val b) (hy.vals a) (hy.vals b) with
      ⟨v0, hs, hv0⟩ | ⟨e, _, he⟩
    · have := hv0 σ'
      rw [h1] at this
      injection this with this
      injection this with this
      rw [this]; exact hs
    · have := he σ'
      rw [h1] at this
      cases this
  · intro hv
    obtain ⟨e, hne, he⟩ := hy.data.binop_err t a b σ' hv
    exact ⟨e, hne, EErr.lift he⟩

/-- The continuation of unary minus on the operand's value. -/
def negK (a : Value) : EM Value :=
  match a with
  | .int n => pure (.int (wrap64 (-n)))
  | .float f => pure (.float (-f))
  | _ => eRt s!"invalid operation: -{typeName a}"

def bnotK (a : Value) : EM Value :=
  match a with
  | .int n => pure (.int (-n - 1))
  | _ => eRt s!"invalid operation: ^{typeName a}"

theorem sim_scalar_eq {v w : Value} (h : Sim v w) (hs : Scalar v = true) : w = v := by
  rcases h with ⟨_, h⟩ | ⟨r, r', h1, h2⟩
  · exact h
  · subst h1; cases hs

theorem vr_neg (hy : Hyp C) {σ : St} {a : V} {wa : Value} (ha : VR C σ a wa) (gs : GSt) (σ' : St) :
    (∀ v, C.E.S.neg a = some v → EOk (negK wa) gs σ' (C.val v) σ' ∧ Scalar (C.val v) = true) ∧
    (C.E.S.neg a = none → ∃ err, err ≠ Err.fuel ∧ EErr (negK wa) gs σ' err) := by
  have hsim := ha.sim hy
  constructor
  · intro v hv
    rcases hy.data.neg_some a v hv with ⟨x, h1, h2⟩ | ⟨x, h1, h2⟩
    · have : wa = .int x := by rw [← h1]; exact sim_scalar_eq hsim (by rw [h1]; rfl)
      subst this
      rw [h2]
      exact ⟨EOk.pure _ gs σ', rfl⟩
    · have : wa = .float x := by rw [← h1]; exact sim_scalar_eq hsim (by rw [h1]; rfl)
      subst this
      rw [h2]
      exact ⟨EOk.pure _ gs σ', rfl⟩
  · intro hv
    obtain ⟨h1, h2⟩ := hy.data.neg_none a hv
    have e1 : ∀ x, wa ≠ .int x := by
      intro x hx
      rcases hsim with ⟨_, h⟩ | ⟨r, r', _, h⟩
      · exact h1 x (by rw [← h]; exact hx)
      · rw [h] at hx; cases hx
    have e2 : ∀ x, wa ≠ .float x := by
      intro x hx
      rcases hsim with ⟨_, h⟩ | ⟨r, r', _, h⟩
      · exact h2 x (by rw [← h]; exact hx)
      · rw [h] at hx; cases hx
    have hE : ∃ msg, EErr (negK wa) gs σ' (Err.runtime msg) := by
      unfold negK
      split
      · exact absurd rfl (e1 _)
      · exact absurd rfl (e2 _)
      · exact ⟨_, eerr_eRt _ gs σ'⟩
    obtain ⟨msg, hm⟩ := hE
    exact ⟨_, (fun h => by cases h), hm⟩

theorem vr_bnot (hy : Hyp C) {σ : St} {a : V} {wa : Value} (ha : VR C σ a wa) (gs : GSt) (σ' : St) :
    (∀ v, C.E.S.bnot a = some v → EOk (bnotK wa) gs σ' (C.val v) σ' ∧ Scalar (C.val v) = true) ∧
    (C.E.S.bnot a = none → ∃ err, err ≠ Err.fuel ∧ EErr (bnotK wa) gs σ' err) := by
  have hsim := ha.sim hy
  constructor
  · intro v hv
    obtain ⟨x, h1, h2⟩ := hy.data.bnot_some a v hv
    have : wa = .int x := by rw [← h1]; exact sim_scalar_eq hsim (by rw [h1]; rfl)
    subst this
    rw [h2]
    exact ⟨EOk.pure _ gs σ', rfl⟩
  · intro hv
    have h1 := hy.data.bnot_none a hv
    have e1 : ∀ x, wa ≠ .int x := by
      intro x hx
      rcases hsim with ⟨_, h⟩ | ⟨r, r', _, h⟩
      · exact h1 x (by rw [← h]; exact hx)
      · rw [h] at hx; cases hx
    have hE : ∃ msg, EErr (bnotK wa) gs σ' (Err.runtime msg) := by
      unfold bnotK
      split
      · exact absurd rfl (e1 _)
      · exact ⟨_, eerr_eRt _ gs σ'⟩
    obtain ⟨msg, hm⟩ := hE
    exact ⟨_, (fun h => by cases h), hm⟩

/-! ### the call -/

/-- What `evalExpr` does with the values of the callee and the arguments (no spread). -/
def callTail (F : Nat) (ctx : Ctx) (fv : Value) (avs : List Value) : EM Value := do
  match fv with
  | .fn _ | .builtin _ => pure ()
  | _ => eRt s!"not callable: {typeName fv}"
  match fv with
  | .builtin n => callBuiltin n avs
  | .fn r => do
      match ← Spec.liftM (getObj r) with
      | .clos c => callClosure F ctx c avs
      | _ => eUnsup "bad closure"
  | _ => eRt s!"not callable: {typeName fv}"

theorem ev_call (F : Nat) (ctx : Ctx) (f : Expr) (args : List Expr) :
    evalExpr (F + 1) ctx (.call false f args) = (do
      let fv ← evalExpr F ctx f
      let avs ← evalExprs F ctx args
      callTail F ctx fv avs) := by
  rw [evalExpr.eq_def]
  simp only [callTail]
  rfl

theorem callTail_fn (F : Nat) (ctx : Ctx) (r : Nat) (avs : List Value) (c : Closure) (gs : GSt) (σ : St)
    (h : σ.heap[r]? = some (.clos c)) :
    callTail F ctx (.fn r) avs gs σ = callClosure F ctx c avs gs σ := by
  unfold callTail
  simp only [pure_bind]
  rw [em_bind, show Spec.liftM (getObj r) gs σ = .ok ((Obj.clos c, gs), σ) from EOk.lift (getObj_run h)]

theorem callTail_notfn (F : Nat) (ctx : Ctx) (w : Value) (avs : List Value) (gs : GSt) (σ : St)
    (h1 : ∀ r, w ≠ .fn r) (h2 : ∀ nm, w ≠ .builtin nm) :
    ∃ err, err ≠ Err.fuel ∧ EErr (callTail F ctx w avs) gs σ err := by
  have hE : ∃ msg, EErr (callTail F ctx w avs) gs σ (Err.runtime msg) := by
    cases w <;> first
      | exact absurd rfl (h1 _)
      | exact absurd rfl (h2 _)
      | exact ⟨_, EErr.bind_left (eerr_eRt _ gs σ)⟩
  obtain ⟨msg, hm⟩ := hE
  exact ⟨_, (fun h => by cases h), hm⟩

def pStep (x : String × Value) (fr : Spec.Frame) : EM (ForInStep Spec.Frame) := do
  let r ← Spec.liftM (alloc (Obj.cell x.snd false))
  pure (ForInStep.yield { vars := (x.fst, r) :: List.filter (fun q => q.fst != x.fst) fr.vars, isFn := fr.isFn })

theorem callClosure_unf (F : Nat) (ctx : Ctx) (c : Closure) (args : List Value) (hv : c.varargs = false)
    (hl : args.length = c.params.length) (hd : ctx.callDepth < 900) :
    callClosure (F + 1) ctx c args = (do
      let fr ← forIn (c.params.zip args) ({ vars := [], isFn := true } : Spec.Frame) pStep
      let fl ← execBlock F { env := fr :: c.env, callDepth := ctx.callDepth + 1, path := [] } c.body 0
      match fl with
      | .ret v => pure v
      | _ => pure .undef) := by
  rw [callClosure.eq_2]
  simp only [hv, Bool.false_eq_true, if_false, pure_bind]
  have h1 : (args.length != c.params.length) = false := by simp [hl]
  simp only [h1, Bool.false_eq_true, if_false, if_neg (Nat.not_le.mpr hd)]
  rfl

theorem callClosure_wrong (F : Nat) (ctx : Ctx) (c : Closure) (args : List Value) (hv : c.varargs = false)
    (hl : args.length ≠ c.params.length) (gs : GSt) (σ : St) :
    ∃ err, err ≠ Err.fuel ∧ EErr (callClosure (F + 1) ctx c args) gs σ err := by
  rw [callClosure.eq_2]
  simp only [hv, Bool.false_eq_true, if_false, pure_bind]
  have h1 : (args.length != c.params.length) = true := by simp [hl]
  simp only [h1, if_true]
  exact ⟨Err.runtime _, (fun h => by cases h), EErr.bind_left (eerr_eRt _ gs σ)⟩

/-- The parameter loop of `callClosure`: one fresh cell per argument, the frame binds the parameters to them. -/
theorem params_loop (gs : GSt) : ∀ (ps : List String) (as : List Value) (fr : Spec.Frame) (σ : St),
    ps.length = as.length → (∀ (i j : Nat) (p : String), ps[i]? = some p → ps[j]? = some p → i = j) →
    ∃ fr' σ', EOk (forIn (ps.zip as) fr pStep) gs σ fr' σ' ∧
      σ'.heap.size = σ.heap.size + as.length ∧
      (∀ r, r < σ.heap.size → σ'.heap[r]? = σ.heap[r]?) ∧
      (∀ (j : Nat) (a : Value), as[j]? = some a → σ'.heap[σ.heap.size + j]? = some (.cell a false)) ∧
      (∀ (j : Nat) (p : String), ps[j]? = some p → fr'.vars.lookup p = some (σ.heap.size + j)) ∧
      (∀ x, x ∉ ps → fr'.vars.lookup x = fr.vars.lookup x)
  | [], [], fr, σ, _, _ => ⟨fr, σ, by simpa using EOk.pure fr gs σ, by simp, fun _ _ => rfl, by simp, by simp,
      fun _ _ => rfl⟩
  | [], _ :: _, _, _, h, _ => by simp at h
  | _ :: _, [], _, _, h, _ => by simp at h
  | p :: ps, a :: as, fr, σ, hlen, hinj => by
    simp only [List.zip_cons_cons, List.forIn_cons]
    have hstep : EOk (pStep (p, a) fr) gs σ
        (ForInStep.yield { vars := (p, σ.heap.size) :: List.filter (fun q => q.fst != p) fr.vars, isFn := fr.isFn })
        (pushSt σ (.cell a false)) :=
      EOk.bind (EOk.lift (alloc_run _ σ)) (EOk.pure _ gs _)
    have hnot : p ∉ ps := by
      intro hm
      obtain ⟨j, hj⟩ := List.getElem?_of_mem hm
      have := hinj 0 (j + 1) p (by simp) (by simpa using hj)
      omega
    obtain ⟨fr', σ', hok, hsz, hold, hnew, hlk, hoth⟩ := params_loop gs ps as
      { vars := (p, σ.heap.size) :: List.filter (fun q => q.fst != p) fr.vars, isFn := fr.isFn }
      (pushSt σ (.cell a false)) (by simpa using hlen)
      (fun i j q hi hj => by
        have := hinj (i + 1) (j + 1) q (by simpa using hi) (by simpa using hj)
        omega)
    refine ⟨fr', σ', EOk.bind hstep hok, ?_, ?_, ?_, ?_, ?_⟩
    · rw [hsz, pushSt_size]; simp only [List.length_cons]; omega
    · intro r hr
      rw [hold r (by rw [pushSt_size]; omega), pushSt_get_lt hr]
    · intro j b hj
      cases j with
      | zero =>
        simp only [List.getElem?_cons_zero, Option.some.injEq] at hj
        subst hj
        rw [Nat.add_zero, hold _ (by rw [pushSt_size]; omega)]
        exact pushSt_get_new σ _
      | succ j =>
        simp only [List.getElem?_cons_succ] at hj
        have := hnew j b hj
        rw [pushSt_size] at this
        rw [← this]; congr 1; omega
    · intro j q hj
      cases j with
      | zero =>
        simp only [List.getElem?_cons_zero, Option.some.injEq] at hj
        subst hj
        rw [hoth _ hnot]
        simp [List.lookup]
      | succ j =>
        simp only [List.getElem?_cons_succ] at hj
        have := hlk j q hj
        rw [pushSt_size] at this
        rw [this]; congr 1; omega
    · intro x hx
      simp only [List.mem_cons, not_or] at hx
      rw [hoth x hx.2]
      have h1 : (x == p) = false := by simp [hx.1]
      simp only [List.lookup, h1]
      exact lookup_filter_ne hx.1 _

end Tengo.Proofs.C01BridgeF3Spec

import Tengo.Proofs.C01BridgeBoundedExpr
/-!
C01 bridge: compiler correctness of fragment F1 (statements, if / else, loops; fuel-indexed reference
semantics) on the machine with a bounded operand stack (`all_okB`, `program_correct_F1_bounded`). The proofs are
those of Proofs/F1Stmts.lean with the stack bound carried along; statements need no stack of their own,
so the bound is the deepest expression of the program (`depthSs`).
-/
set_option linter.unusedSimpArgs false
namespace Tengo.Model.F1
open Tengo.Model.F0
variable {V : Type}


mutual
  /-- Deepest operand stack any expression of the statement needs. -/
  def depthS : Stm → Nat
    | .expr e => depthE e
    | .assign _ e => depthE e
    | .ifs c body => max (depthE c) (depthSs body)
    | .ifelse c body els => max (depthE c) (max (depthSs body) (depthSs els))
    | .whil c body => max (depthE c) (depthSs body)
    | .forever body => depthSs body
  def depthSs : Stms → Nat
    | .nil => 0
    | .cons s ss => max (depthS s) (depthSs ss)
end

def depthC : Code → Nat
  | .inl s => depthS s
  | .inr ss => depthSs ss

macro "bnd'" : tactic =>
  `(tactic| ((try dsimp only) <;> (try simp only [List.length_cons, depthC, depthS, depthSs] at *) <;> omega))

/-- What has to hold for one piece of code at one fuel. -/
def OkB (lim : Nat) (S : Sem V) (cs : Nat → V) (f : Nat) (c : Code) : Prop :=
  ∀ (g : Nat → V) (pre post : List Ins) (st : List V), st.length + depthC c ≤ lim →
    (∀ g', exec S cs f c g = .done g' →
      RunsB lim S cs (pre ++ compC (csize pre) c ++ post) ⟨csize pre, st, g⟩ ⟨csize pre + codeSize c, st, g'⟩) ∧
    (exec S cs f c g = .err → FailsB lim S cs (pre ++ compC (csize pre) c ++ post) ⟨csize pre, st, g⟩)


theorem okB_zero (lim : Nat) (S : Sem V) (cs : Nat → V) (c : Code) : OkB lim S cs 0 c := by
  intro g pre post st hd
  simp only [depthC, depthS, depthSs] at hd
  constructor <;> intro <;> simp [exec] at *

theorem okB_expr (lim : Nat) (S : Sem V) (cs : Nat → V) (f : Nat) (e : Ex) : OkB lim S cs (f + 1) (.inl (.expr e)) := by
  intro g pre post st hd
  simp only [depthC, depthS, depthSs] at hd
  have hcode : pre ++ compC (csize pre) (.inl (.expr e)) ++ post = pre ++ comp (csize pre) e ++ ([Ins.pop] ++ post) := by
    simp [compC, compS, List.append_assoc]
  have hf : fetch (pre ++ compC (csize pre) (.inl (.expr e)) ++ post) (csize pre + esize e) = some Ins.pop := by
    have h := fetch_mid' pre (comp (csize pre) e) [] post Ins.pop (csize pre + esize e) (by simp [csize_comp])
    simpa [compC, compS, List.append_assoc] using h
  obtain ⟨h1, h2⟩ := comp_correctB lim S cs g e pre ([Ins.pop] ++ post) st (by bnd')
  rw [← hcode] at h1 h2
  constructor
  · intro g' hg
    simp only [exec] at hg
    cases he : eval S cs g e with
    | none => simp [he] at hg
    | some v =>
      simp only [he, Res.done.injEq] at hg
      subst hg
      exact ((h1 v he).trans (RunsB.step (lim := lim) (step_pop S cs _ hf) (by bnd'))).to (by simp [codeSize, ssize]; omega)
  · intro hg
    simp only [exec] at hg
    cases he : eval S cs g e with
    | none => exact h2 he
    | some v => simp [he] at hg

theorem okB_assign (lim : Nat) (S : Sem V) (cs : Nat → V) (f : Nat) (i : Nat) (e : Ex) : OkB lim S cs (f + 1) (.inl (.assign i e)) := by
  intro g pre post st hd
  simp only [depthC, depthS, depthSs] at hd
  have hcode : pre ++ compC (csize pre) (.inl (.assign i e)) ++ post = pre ++ comp (csize pre) e ++ ([Ins.setg i] ++ post) := by
    simp [compC, compS, List.append_assoc]
  have hf : fetch (pre ++ compC (csize pre) (.inl (.assign i e)) ++ post) (csize pre + esize e) = some (Ins.setg i) := by
    have h := fetch_mid' pre (comp (csize pre) e) [] post (Ins.setg i) (csize pre + esize e) (by simp [csize_comp])
    simpa [compC, compS, List.append_assoc] using h
  obtain ⟨h1, h2⟩ := comp_correctB lim S cs g e pre ([Ins.setg i] ++ post) st (by bnd')
  rw [← hcode] at h1 h2
  constructor
  · intro g' hg
    simp only [exec] at hg
    cases he : eval S cs g e with
    | none => simp [he] at hg
    | some v =>
      simp only [he, Res.done.injEq] at hg
      subst hg
      exact ((h1 v he).trans (RunsB.step (lim := lim) (step_setg S cs _ hf) (by bnd'))).to (by simp [codeSize, ssize]; omega)
  · intro hg
    simp only [exec] at hg
    cases he : eval S cs g e with
    | none => exact h2 he
    | some v => simp [he] at hg

theorem okB_nil (lim : Nat) (S : Sem V) (cs : Nat → V) (f : Nat) : OkB lim S cs (f + 1) (.inr .nil) := by
  intro g pre post st hd
  simp only [depthC, depthS, depthSs] at hd
  constructor
  · intro g' hg
    simp only [exec, Res.done.injEq] at hg
    subst hg
    simpa [codeSize, sssize] using RunsB.refl lim S cs (pre ++ compC (csize pre) (.inr .nil) ++ post) ⟨csize pre, st, g⟩
  · intro hg; simp [exec] at hg

theorem okB_cons (lim : Nat) (S : Sem V) (cs : Nat → V) (f : Nat) (s : Stm) (ss : Stms)
    (ih : ∀ c, OkB lim S cs f c) : OkB lim S cs (f + 1) (.inr (.cons s ss)) := by
  intro g pre post st hd
  simp only [depthC, depthS, depthSs] at hd
  have hcode0 : pre ++ compC (csize pre) (.inr (.cons s ss)) ++ post =
      pre ++ compC (csize pre) (.inl s) ++ (compSs (csize pre + ssize s) ss ++ post) := by
    simp [compC, compSs, csize_compS, List.append_assoc]
  have hcode1 : pre ++ compC (csize pre) (.inr (.cons s ss)) ++ post =
      (pre ++ compS (csize pre) s) ++ compC (csize (pre ++ compS (csize pre) s)) (.inr ss) ++ post := by
    simp [compC, compSs, csize_compS, csize_append, List.append_assoc]
  obtain ⟨h1, h2⟩ := ih (.inl s) g pre (compSs (csize pre + ssize s) ss ++ post) st (by bnd')
  rw [← hcode0] at h1 h2
  have hr := fun g1 => ih (.inr ss) g1 (pre ++ compS (csize pre) s) post st (by bnd')
  rw [← hcode1] at hr
  simp only [csize_append, csize_compS] at hr
  constructor
  · intro g' hg
    simp only [exec] at hg
    cases hes : exec S cs f (.inl s) g with
    | out => simp [hes] at hg
    | err => simp [hes] at hg
    | done g1 =>
      simp only [hes] at hg
      exact ((h1 g1 hes).trans ((hr g1).1 g' hg)).to (by simp [codeSize, sssize]; omega)
  · intro hg
    simp only [exec] at hg
    cases hes : exec S cs f (.inl s) g with
    | out => simp [hes] at hg
    | err => exact h2 hes
    | done g1 =>
      simp only [hes] at hg
      exact (h1 g1 hes).fails ((hr g1).2 hg)


theorem okB_ifs (lim : Nat) (S : Sem V) (cs : Nat → V) (f : Nat) (c : Ex) (body : Stms)
    (ih : ∀ c, OkB lim S cs f c) : OkB lim S cs (f + 1) (.inl (.ifs c body)) := by
  intro g pre post st hd
  simp only [depthC, depthS, depthSs] at hd
  have hboff : csize (pre ++ comp (csize pre) c ++ [Ins.jmpf (csize pre + esize c + 5 + sssize body)]) =
      csize pre + esize c + 5 := by simp [csize_append, csize_comp, csize, Ins.size]; omega
  have hcomp : compC (csize pre) (.inl (.ifs c body)) =
      comp (csize pre) c ++ [Ins.jmpf (csize pre + esize c + 5 + sssize body)] ++ compSs (csize pre + esize c + 5) body := by
    simp [compC, compS, csize_comp, csize_compSs, List.append_assoc]
  have hcode0 : pre ++ compC (csize pre) (.inl (.ifs c body)) ++ post =
      pre ++ comp (csize pre) c ++ ([Ins.jmpf (csize pre + esize c + 5 + sssize body)] ++
        compSs (csize pre + esize c + 5) body ++ post) := by
    rw [hcomp]; simp [List.append_assoc]
  have hcode1 : pre ++ compC (csize pre) (.inl (.ifs c body)) ++ post =
      (pre ++ comp (csize pre) c ++ [Ins.jmpf (csize pre + esize c + 5 + sssize body)]) ++
        compC (csize (pre ++ comp (csize pre) c ++ [Ins.jmpf (csize pre + esize c + 5 + sssize body)])) (.inr body) ++ post := by
    rw [hcomp, hboff]; simp [compC, List.append_assoc]
  have hfj : fetch (pre ++ compC (csize pre) (.inl (.ifs c body)) ++ post) (csize pre + esize c) =
      some (Ins.jmpf (csize pre + esize c + 5 + sssize body)) := by
    rw [hcomp]
    have h := fetch_mid' pre (comp (csize pre) c) (compSs (csize pre + esize c + 5) body) post
      (Ins.jmpf (csize pre + esize c + 5 + sssize body)) (csize pre + esize c) (by simp [csize_comp])
    simpa [List.append_assoc] using h
  obtain ⟨hc1, hc2⟩ := comp_correctB lim S cs g c pre ([Ins.jmpf (csize pre + esize c + 5 + sssize body)] ++
        compSs (csize pre + esize c + 5) body ++ post) st (by bnd')
  rw [← hcode0] at hc1 hc2
  obtain ⟨hb1, hb2⟩ := ih (.inr body) g
    (pre ++ comp (csize pre) c ++ [Ins.jmpf (csize pre + esize c + 5 + sssize body)]) post st (by bnd')
  rw [← hcode1, hboff] at hb1 hb2
  constructor
  · intro g' hg
    simp only [exec] at hg
    cases hec : eval S cs g c with
    | none => simp [hec] at hg
    | some a =>
      simp only [hec] at hg
      have hstep := RunsB.step (lim := lim) (step_jmpf S cs _ (st := st) (g := g) (a := a) hfj) (by bnd')
      by_cases hfa : S.falsy a = true
      · simp only [hfa, ↓reduceIte, Res.done.injEq] at hg hstep
        subst hg
        exact ((hc1 a hec).trans hstep).to (by simp [codeSize, ssize]; omega)
      · simp only [hfa, Bool.false_eq_true, ↓reduceIte] at hg hstep
        exact (((hc1 a hec).trans hstep).trans (hb1 g' hg)).to (by simp [codeSize, ssize]; omega)
  · intro hg
    simp only [exec] at hg
    cases hec : eval S cs g c with
    | none => exact hc2 hec
    | some a =>
      simp only [hec] at hg
      have hstep := RunsB.step (lim := lim) (step_jmpf S cs _ (st := st) (g := g) (a := a) hfj) (by bnd')
      by_cases hfa : S.falsy a = true
      · simp [hfa] at hg
      · simp only [hfa, Bool.false_eq_true, ↓reduceIte] at hg hstep
        exact ((hc1 a hec).trans hstep).fails (hb2 hg)

theorem okB_ifelse (lim : Nat) (S : Sem V) (cs : Nat → V) (f : Nat) (c : Ex) (body els : Stms)
    (ih : ∀ c, OkB lim S cs f c) : OkB lim S cs (f + 1) (.inl (.ifelse c body els)) := by
  intro g pre post st hd
  simp only [depthC, depthS, depthSs] at hd
  have hboff : csize (pre ++ comp (csize pre) c ++ [Ins.jmpf (csize pre + esize c + 5 + sssize body + 5)]) =
      csize pre + esize c + 5 := by simp [csize_append, csize_comp, csize, Ins.size]; omega
  have heoff : csize (pre ++ comp (csize pre) c ++ [Ins.jmpf (csize pre + esize c + 5 + sssize body + 5)] ++
      compSs (csize pre + esize c + 5) body ++ [Ins.jmp (csize pre + esize c + 5 + sssize body + 5 + sssize els)]) =
      csize pre + esize c + 5 + sssize body + 5 := by
    simp [csize_append, csize_comp, csize_compSs, csize, Ins.size]; omega
  have hcomp : compC (csize pre) (.inl (.ifelse c body els)) =
      comp (csize pre) c ++ [Ins.jmpf (csize pre + esize c + 5 + sssize body + 5)] ++
        compSs (csize pre + esize c + 5) body ++ [Ins.jmp (csize pre + esize c + 5 + sssize body + 5 + sssize els)] ++
        compSs (csize pre + esize c + 5 + sssize body + 5) els := by
    simp [compC, compS, csize_comp, csize_compSs, List.append_assoc]
  have hcode0 : pre ++ compC (csize pre) (.inl (.ifelse c body els)) ++ post =
      pre ++ comp (csize pre) c ++ ([Ins.jmpf (csize pre + esize c + 5 + sssize body + 5)] ++
        compSs (csize pre + esize c + 5) body ++ [Ins.jmp (csize pre + esize c + 5 + sssize body + 5 + sssize els)] ++
        compSs (csize pre + esize c + 5 + sssize body + 5) els ++ post) := by
    rw [hcomp]; simp [List.append_assoc]
  have hcode1 : pre ++ compC (csize pre) (.inl (.ifelse c body els)) ++ post =
      (pre ++ comp (csize pre) c ++ [Ins.jmpf (csize pre + esize c + 5 + sssize body + 5)]) ++
        compC (csize (pre ++ comp (csize pre) c ++ [Ins.jmpf (csize pre + esize c + 5 + sssize body + 5)])) (.inr body) ++
        ([Ins.jmp (csize pre + esize c + 5 + sssize body + 5 + sssize els)] ++
        compSs (csize pre + esize c + 5 + sssize body + 5) els ++ post) := by
    rw [hcomp, hboff]; simp [compC, List.append_assoc]
  have hcode2 : pre ++ compC (csize pre) (.inl (.ifelse c body els)) ++ post =
      (pre ++ comp (csize pre) c ++ [Ins.jmpf (csize pre + esize c + 5 + sssize body + 5)] ++
        compSs (csize pre + esize c + 5) body ++ [Ins.jmp (csize pre + esize c + 5 + sssize body + 5 + sssize els)]) ++
        compC (csize (pre ++ comp (csize pre) c ++ [Ins.jmpf (csize pre + esize c + 5 + sssize body + 5)] ++
        compSs (csize pre + esize c + 5) body ++ [Ins.jmp (csize pre + esize c + 5 + sssize body + 5 + sssize els)])) (.inr els) ++ post := by
    rw [hcomp, heoff]; simp [compC, List.append_assoc]
  have hfj : fetch (pre ++ compC (csize pre) (.inl (.ifelse c body els)) ++ post) (csize pre + esize c) =
      some (Ins.jmpf (csize pre + esize c + 5 + sssize body + 5)) := by
    rw [hcomp]
    have h := fetch_mid' pre (comp (csize pre) c)
      (compSs (csize pre + esize c + 5) body ++ [Ins.jmp (csize pre + esize c + 5 + sssize body + 5 + sssize els)] ++
        compSs (csize pre + esize c + 5 + sssize body + 5) els) post
      (Ins.jmpf (csize pre + esize c + 5 + sssize body + 5)) (csize pre + esize c) (by simp [csize_comp])
    simpa [List.append_assoc] using h
  have hfj2 : fetch (pre ++ compC (csize pre) (.inl (.ifelse c body els)) ++ post) (csize pre + esize c + 5 + sssize body) =
      some (Ins.jmp (csize pre + esize c + 5 + sssize body + 5 + sssize els)) := by
    rw [hcomp]
    have h := fetch_mid' pre (comp (csize pre) c ++ [Ins.jmpf (csize pre + esize c + 5 + sssize body + 5)] ++
        compSs (csize pre + esize c + 5) body)
      (compSs (csize pre + esize c + 5 + sssize body + 5) els) post
      (Ins.jmp (csize pre + esize c + 5 + sssize body + 5 + sssize els)) (csize pre + esize c + 5 + sssize body)
      (by simp [csize_append, csize_comp, csize_compSs, csize, Ins.size]; omega)
    simpa [List.append_assoc] using h
  obtain ⟨hc1, hc2⟩ := comp_correctB lim S cs g c pre ([Ins.jmpf (csize pre + esize c + 5 + sssize body + 5)] ++
        compSs (csize pre + esize c + 5) body ++ [Ins.jmp (csize pre + esize c + 5 + sssize body + 5 + sssize els)] ++
        compSs (csize pre + esize c + 5 + sssize body + 5) els ++ post) st (by bnd')
  rw [← hcode0] at hc1 hc2
  obtain ⟨hb1, hb2⟩ := ih (.inr body) g
    (pre ++ comp (csize pre) c ++ [Ins.jmpf (csize pre + esize c + 5 + sssize body + 5)])
    ([Ins.jmp (csize pre + esize c + 5 + sssize body + 5 + sssize els)] ++
        compSs (csize pre + esize c + 5 + sssize body + 5) els ++ post) st (by bnd')
  rw [← hcode1, hboff] at hb1 hb2
  obtain ⟨he1, he2⟩ := ih (.inr els) g
    (pre ++ comp (csize pre) c ++ [Ins.jmpf (csize pre + esize c + 5 + sssize body + 5)] ++
        compSs (csize pre + esize c + 5) body ++ [Ins.jmp (csize pre + esize c + 5 + sssize body + 5 + sssize els)]) post st (by bnd')
  rw [← hcode2, heoff] at he1 he2
  constructor
  · intro g' hg
    simp only [exec] at hg
    cases hec : eval S cs g c with
    | none => simp [hec] at hg
    | some a =>
      simp only [hec] at hg
      have hstep := RunsB.step (lim := lim) (step_jmpf S cs _ (st := st) (g := g) (a := a) hfj) (by bnd')
      by_cases hfa : S.falsy a = true
      · simp only [hfa, ↓reduceIte] at hg hstep
        exact (((hc1 a hec).trans hstep).trans (he1 g' hg)).to (by simp [codeSize, ssize]; omega)
      · simp only [hfa, Bool.false_eq_true, ↓reduceIte] at hg hstep
        exact ((((hc1 a hec).trans hstep).trans (hb1 g' hg)).trans
          (RunsB.step (lim := lim) (step_jmp S cs _ hfj2) (by bnd'))).to (by simp [codeSize, ssize]; omega)
  · intro hg
    simp only [exec] at hg
    cases hec : eval S cs g c with
    | none => exact hc2 hec
    | some a =>
      simp only [hec] at hg
      have hstep := RunsB.step (lim := lim) (step_jmpf S cs _ (st := st) (g := g) (a := a) hfj) (by bnd')
      by_cases hfa : S.falsy a = true
      · simp only [hfa, ↓reduceIte] at hg hstep
        exact ((hc1 a hec).trans hstep).fails (he2 hg)
      · simp only [hfa, Bool.false_eq_true, ↓reduceIte] at hg hstep
        exact ((hc1 a hec).trans hstep).fails (hb2 hg)

theorem okB_whil (lim : Nat) (S : Sem V) (cs : Nat → V) (f : Nat) (c : Ex) (body : Stms)
    (ih : ∀ c, OkB lim S cs f c) : OkB lim S cs (f + 1) (.inl (.whil c body)) := by
  intro g pre post st hd
  simp only [depthC, depthS, depthSs] at hd
  have hboff : csize (pre ++ comp (csize pre) c ++ [Ins.jmpf (csize pre + esize c + 5 + sssize body + 5)]) =
      csize pre + esize c + 5 := by simp [csize_append, csize_comp, csize, Ins.size]; omega
  have hcomp : compC (csize pre) (.inl (.whil c body)) =
      comp (csize pre) c ++ [Ins.jmpf (csize pre + esize c + 5 + sssize body + 5)] ++
        compSs (csize pre + esize c + 5) body ++ [Ins.jmp (csize pre)] := by
    simp [compC, compS, csize_comp, csize_compSs, List.append_assoc]
  have hcode0 : pre ++ compC (csize pre) (.inl (.whil c body)) ++ post =
      pre ++ comp (csize pre) c ++ ([Ins.jmpf (csize pre + esize c + 5 + sssize body + 5)] ++
        compSs (csize pre + esize c + 5) body ++ [Ins.jmp (csize pre)] ++ post) := by
    rw [hcomp]; simp [List.append_assoc]
  have hcode1 : pre ++ compC (csize pre) (.inl (.whil c body)) ++ post =
      (pre ++ comp (csize pre) c ++ [Ins.jmpf (csize pre + esize c + 5 + sssize body + 5)]) ++
        compC (csize (pre ++ comp (csize pre) c ++ [Ins.jmpf (csize pre + esize c + 5 + sssize body + 5)])) (.inr body) ++
        ([Ins.jmp (csize pre)] ++ post) := by
    rw [hcomp, hboff]; simp [compC, List.append_assoc]
  have hfj : fetch (pre ++ compC (csize pre) (.inl (.whil c body)) ++ post) (csize pre + esize c) =
      some (Ins.jmpf (csize pre + esize c + 5 + sssize body + 5)) := by
    rw [hcomp]
    have h := fetch_mid' pre (comp (csize pre) c)
      (compSs (csize pre + esize c + 5) body ++ [Ins.jmp (csize pre)]) post
      (Ins.jmpf (csize pre + esize c + 5 + sssize body + 5)) (csize pre + esize c) (by simp [csize_comp])
    simpa [List.append_assoc] using h
  have hfj2 : fetch (pre ++ compC (csize pre) (.inl (.whil c body)) ++ post) (csize pre + esize c + 5 + sssize body) =
      some (Ins.jmp (csize pre)) := by
    rw [hcomp]
    have h := fetch_mid' pre (comp (csize pre) c ++ [Ins.jmpf (csize pre + esize c + 5 + sssize body + 5)] ++
        compSs (csize pre + esize c + 5) body) [] post
      (Ins.jmp (csize pre)) (csize pre + esize c + 5 + sssize body)
      (by simp [csize_append, csize_comp, csize_compSs, csize, Ins.size]; omega)
    simpa [List.append_assoc] using h
  obtain ⟨hc1, hc2⟩ := comp_correctB lim S cs g c pre ([Ins.jmpf (csize pre + esize c + 5 + sssize body + 5)] ++
        compSs (csize pre + esize c + 5) body ++ [Ins.jmp (csize pre)] ++ post) st (by bnd')
  rw [← hcode0] at hc1 hc2
  obtain ⟨hb1, hb2⟩ := ih (.inr body) g
    (pre ++ comp (csize pre) c ++ [Ins.jmpf (csize pre + esize c + 5 + sssize body + 5)])
    ([Ins.jmp (csize pre)] ++ post) st (by bnd')
  rw [← hcode1, hboff] at hb1 hb2
  -- the loop itself again, at smaller fuel, from the globals after the body
  have hloop := fun g1 => ih (.inl (.whil c body)) g1 pre post st (by bnd')
  constructor
  · intro g' hg
    simp only [exec] at hg
    cases hec : eval S cs g c with
    | none => simp [hec] at hg
    | some a =>
      simp only [hec] at hg
      have hstep := RunsB.step (lim := lim) (step_jmpf S cs _ (st := st) (g := g) (a := a) hfj) (by bnd')
      by_cases hfa : S.falsy a = true
      · simp only [hfa, ↓reduceIte, Res.done.injEq] at hg hstep
        subst hg
        exact ((hc1 a hec).trans hstep).to (by simp [codeSize, ssize]; omega)
      · simp only [hfa, Bool.false_eq_true, ↓reduceIte] at hg hstep
        cases heb : exec S cs f (.inr body) g with
        | out => simp [heb] at hg
        | err => simp [heb] at hg
        | done g1 =>
          simp only [heb] at hg
          have hback := RunsB.step (lim := lim) (step_jmp S cs _ (st := st) (g := g1) hfj2) (by bnd')
          exact ((((hc1 a hec).trans hstep).trans (hb1 g1 heb)).trans hback).trans ((hloop g1).1 g' hg)
  · intro hg
    simp only [exec] at hg
    cases hec : eval S cs g c with
    | none => exact hc2 hec
    | some a =>
      simp only [hec] at hg
      have hstep := RunsB.step (lim := lim) (step_jmpf S cs _ (st := st) (g := g) (a := a) hfj) (by bnd')
      by_cases hfa : S.falsy a = true
      · simp [hfa] at hg
      · simp only [hfa, Bool.false_eq_true, ↓reduceIte] at hg hstep
        cases heb : exec S cs f (.inr body) g with
        | out => simp [heb] at hg
        | err => exact ((hc1 a hec).trans hstep).fails (hb2 heb)
        | done g1 =>
          simp only [heb] at hg
          have hback := RunsB.step (lim := lim) (step_jmp S cs _ (st := st) (g := g1) hfj2) (by bnd')
          exact ((((hc1 a hec).trans hstep).trans (hb1 g1 heb)).trans hback).fails ((hloop g1).2 hg)

theorem okB_forever (lim : Nat) (S : Sem V) (cs : Nat → V) (f : Nat) (body : Stms)
    (ih : ∀ c, OkB lim S cs f c) : OkB lim S cs (f + 1) (.inl (.forever body)) := by
  intro g pre post st hd
  simp only [depthC, depthS, depthSs] at hd
  have hcomp : compC (csize pre) (.inl (.forever body)) = compSs (csize pre) body ++ [Ins.jmp (csize pre)] := by
    simp [compC, compS]
  have hcode1 : pre ++ compC (csize pre) (.inl (.forever body)) ++ post =
      pre ++ compC (csize pre) (.inr body) ++ ([Ins.jmp (csize pre)] ++ post) := by
    rw [hcomp]; simp [compC, List.append_assoc]
  have hfj2 : fetch (pre ++ compC (csize pre) (.inl (.forever body)) ++ post) (csize pre + sssize body) =
      some (Ins.jmp (csize pre)) := by
    rw [hcomp]
    have h := fetch_mid' pre (compSs (csize pre) body) [] post (Ins.jmp (csize pre)) (csize pre + sssize body)
      (by simp [csize_compSs])
    simpa [List.append_assoc] using h
  obtain ⟨hb1, hb2⟩ := ih (.inr body) g pre ([Ins.jmp (csize pre)] ++ post) st (by bnd')
  rw [← hcode1] at hb1 hb2
  have hloop := fun g1 => ih (.inl (.forever body)) g1 pre post st (by bnd')
  constructor
  · intro g' hg
    simp only [exec] at hg
    cases heb : exec S cs f (.inr body) g with
    | out => simp [heb] at hg
    | err => simp [heb] at hg
    | done g1 =>
      simp only [heb] at hg
      have hback := RunsB.step (lim := lim) (step_jmp S cs _ (st := st) (g := g1) hfj2) (by bnd')
      exact ((hb1 g1 heb).trans (by simpa [codeSize] using hback)).trans ((hloop g1).1 g' hg)
  · intro hg
    simp only [exec] at hg
    cases heb : exec S cs f (.inr body) g with
    | out => simp [heb] at hg
    | err => exact hb2 heb
    | done g1 =>
      simp only [heb] at hg
      have hback := RunsB.step (lim := lim) (step_jmp S cs _ (st := st) (g := g1) hfj2) (by bnd')
      exact ((hb1 g1 heb).trans (by simpa [codeSize] using hback)).fails ((hloop g1).2 hg)

/-- **F1 correctness.** For every fuel, every statement or statement list of the fragment with loops,
every placement: if the fuel-indexed reference semantics finishes with globals `g'`, the machine
runs from the first byte of the code to the first byte after it with the same operand stack and
globals `g'`; if the reference semantics reports a run-time error, the machine stops with an error.
(When the fuel runs out nothing is claimed: the loop may not terminate.) -/
theorem all_okB (lim : Nat) (S : Sem V) (cs : Nat → V) : ∀ (f : Nat) (c : Code), OkB lim S cs f c := by
  intro f
  induction f with
  | zero => exact okB_zero lim S cs
  | succ f ih =>
    intro c
    cases c with
    | inl s =>
      cases s with
      | expr e => exact okB_expr lim S cs f e
      | assign i e => exact okB_assign lim S cs f i e
      | ifs c body => exact okB_ifs lim S cs f c body ih
      | ifelse c body els => exact okB_ifelse lim S cs f c body els ih
      | whil c body => exact okB_whil lim S cs f c body ih
      | forever body => exact okB_forever lim S cs f body ih
    | inr ss =>
      cases ss with
      | nil => exact okB_nil lim S cs f
      | cons s ss => exact okB_cons lim S cs f s ss ih


/-- **C01 on fragment F1, with the bounded operand stack.** As `Tengo.Props.C01.program_correct_F1`, but the
machine never uses more than `depthSs ss` stack slots — in particular not more than `lim` — and a
run-time error of the reference semantics is a DATA error of the machine (`FailsB`). -/
theorem program_correct_F1_bounded (lim : Nat) (S : Sem V) (cs g : Nat → V) (ss : Stms) (f : Nat)
    (hd : depthSs ss ≤ lim) :
    (∀ g', exec S cs f (.inr ss) g = .done g' →
      RunsB lim S cs (compSs 0 ss) ⟨0, [], g⟩ ⟨sssize ss, [], g'⟩) ∧
    (exec S cs f (.inr ss) g = .err → FailsB lim S cs (compSs 0 ss) ⟨0, [], g⟩) := by
  have h := all_okB lim S cs f (.inr ss) g [] [] [] (by simpa [depthC] using hd)
  simpa [csize, compC, codeSize] using h

end Tengo.Model.F1

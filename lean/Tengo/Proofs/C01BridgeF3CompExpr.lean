import Tengo.Proofs.C01BridgeF3CompBase
import Tengo.Proofs.F3Base
/-!
C01 bridge for fragment F3, compile side, layer 2 (expressions): in a compiler state whose table stack resolves
`names i` (`i < n`) to global slot `i` and `lnames i` (`i < m`) to local slot `i` (`ResOK`), the compiler model run
on the embedded expression `toAstE3 … e` appends exactly the encoding of `F3.comp off e` (`off` = current position)
to the current function, appends exactly the value constants of `e` to the pool, and changes nothing else
(`exprOK3`; `exprsOK3` for argument lists). New over F0–F2: `loc i ↦ GETL i`, `call f args ↦ f; args; CALL n 0`.
-/
set_option linter.unusedVariables false
set_option linter.unusedSimpArgs false
namespace Tengo.Proofs.C01BridgeF3Comp
open Tengo.Model Tengo.Model.Compiler Tengo.Model.Opcodes
open Tengo.Model.Spec (Expr Stmt)
open Tengo.Model.F3 (Ex Exs Stm Stms FnDef Prog Ins)
open Tengo.Proofs.C01Bridge

theorem toAstEs3_length (names lnames : Nat → String) (ctab : Nat → F0.Const) :
    ∀ es : Exs, (toAstEs3 names lnames ctab es).length = es.len
  | .nil => rfl
  | .cons e es => by simp [toAstEs3, F3.Exs.len, toAstEs3_length names lnames ctab es]

theorem call_unfold (d : Nat) (f : Expr) (args : List Expr) (h : args.length ≤ 255) :
    compileExpr (d + 1) (.call false f args) =
      (do compileExpr d f; compileExprs d args; discard (emit opCall [args.length, 0])) := by
  rw [compileExpr.eq_18]
  have : ¬ args.length > 255 := by omega
  simp only [this, if_false, Bool.false_eq_true]

theorem ident_unfold (d : Nat) (nm : String) :
    compileExpr (d + 1) (.ident nm) = (do
      match ← resolve nm with
      | none => cerr s!"unresolved reference '{nm}'"
      | some (sym, _) => emitGet sym) := by
  rw [compileExpr.eq_11]
  rfl

theorem emitGet_global (nm : String) (i id : Nat) :
    emitGet ⟨nm, .global, i, id⟩ = discard (emit opGetGlobal [i]) := rfl
theorem emitGet_local (nm : String) (i id : Nat) :
    emitGet ⟨nm, .local, i, id⟩ = discard (emit opGetLocal [i]) := rfl

section
variable (names lnames : Nat → String) (ctab : Nat → F0.Const) (isFn : Nat → Bool)
  (K : Nat → Compiler.Const) (n m : Nat)

/-- The compiler model emits for the embedded expression exactly the fragment's code, placed at the current
position, and adds exactly the literals of the expression to the pool. -/
def ExprOK3 (e : Ex) : Prop :=
  ∀ (d : Nat) (s : CState), budE3 e ≤ d → ResOK names lnames n m s.tables s.assigned →
    wfE3 isFn n m s.consts.size e = true →
    Steps (compileExpr d (toAstE3 names lnames ctab e)) s ()
      (app s (encodeIns3 (F3.comp s.insts.size e)) (litsK K s.consts.size (nlitsE3 e)))

def ExprsOK3 (es : Exs) : Prop :=
  ∀ (d : Nat) (s : CState), budEs3 es ≤ d → ResOK names lnames n m s.tables s.assigned →
    wfEs3 isFn n m s.consts.size es = true →
    Steps (compileExprs d (toAstEs3 names lnames ctab es)) s ()
      (app s (encodeIns3 (F3.compEs s.insts.size es)) (litsK K s.consts.size (nlitsEs3 es)))

variable {names lnames ctab isFn K n m}

theorem ExprOK3.at {e : Ex} (he : ExprOK3 names lnames ctab isFn K n m e) (d : Nat) (s : CState)
    (pre : List UInt8) (kpre : List Compiler.Const) (off k : Nat) (hd : budE3 e ≤ d)
    (hg : ResOK names lnames n m s.tables s.assigned)
    (hoff : off = s.insts.size + pre.length) (hk : k = s.consts.size + kpre.length)
    (hw : wfE3 isFn n m k e = true) :
    Steps (compileExpr d (toAstE3 names lnames ctab e)) (app s pre kpre) ()
      (app s (pre ++ encodeIns3 (F3.comp off e)) (kpre ++ litsK K k (nlitsE3 e))) := by
  subst hoff hk
  have h := he d (app s pre kpre) hd (by simpa using hg) (by simpa using hw)
  rw [app_app, app_insts_size, app_consts_size] at h
  exact h

theorem ExprsOK3.at {es : Exs} (he : ExprsOK3 names lnames ctab isFn K n m es) (d : Nat) (s : CState)
    (pre : List UInt8) (kpre : List Compiler.Const) (off k : Nat) (hd : budEs3 es ≤ d)
    (hg : ResOK names lnames n m s.tables s.assigned)
    (hoff : off = s.insts.size + pre.length) (hk : k = s.consts.size + kpre.length)
    (hw : wfEs3 isFn n m k es = true) :
    Steps (compileExprs d (toAstEs3 names lnames ctab es)) (app s pre kpre) ()
      (app s (pre ++ encodeIns3 (F3.compEs off es)) (kpre ++ litsK K k (nlitsEs3 es))) := by
  subst hoff hk
  have h := he d (app s pre kpre) hd (by simpa using hg) (by simpa using hw)
  rw [app_app, app_insts_size, app_consts_size] at h
  exact h

theorem steps_two3 {l r : Ex} (hl : ExprOK3 names lnames ctab isFn K n m l)
    (hr : ExprOK3 names lnames ctab isFn K n m r)
    (d : Nat) (s : CState) (hdl : budE3 l ≤ d) (hdr : budE3 r ≤ d)
    (hg : ResOK names lnames n m s.tables s.assigned)
    (hwl : wfE3 isFn n m s.consts.size l = true) (hwr : wfE3 isFn n m (s.consts.size + nlitsE3 l) r = true)
    {β : Type} (X : CM β) (b : β) (sX : CState)
    (hX : Steps X (app s (encodeIns3 (F3.comp s.insts.size l ++ F3.comp (s.insts.size + F3.esize l) r))
            (litsK K s.consts.size (nlitsE3 l + nlitsE3 r))) b sX) :
    Steps (do compileExpr d (toAstE3 names lnames ctab l); compileExpr d (toAstE3 names lnames ctab r); X)
      s b sX := by
  refine Steps.bind (hl d s hdl hg hwl) ?_
  refine Steps.bind (hr.at d s _ _ (s.insts.size + F3.esize l) (s.consts.size + nlitsE3 l) hdr hg
    (by simp [encodeIns3_length, F3.csize_comp]) (by simp [litsK_length]) hwr) ?_
  rw [encodeIns3_append, litsK_add] at hX
  exact hX

theorem steps_one3 {e : Ex} (he : ExprOK3 names lnames ctab isFn K n m e)
    (d : Nat) (s : CState) (hd : budE3 e ≤ d) (hg : ResOK names lnames n m s.tables s.assigned)
    (hw : wfE3 isFn n m s.consts.size e = true)
    {β : Type} (X : CM β) (b : β) (sX : CState)
    (hX : Steps X (app s (encodeIns3 (F3.comp s.insts.size e)) (litsK K s.consts.size (nlitsE3 e))) b sX) :
    Steps (do compileExpr d (toAstE3 names lnames ctab e); X) s b sX :=
  Steps.bind (he d s hd hg hw) hX

theorem steps_logical3 {l r : Ex} (hl : ExprOK3 names lnames ctab isFn K n m l)
    (hr : ExprOK3 names lnames ctab isFn K n m r)
    (op : Nat) (hw4 : widths op = some [4]) (hop : op < 256) (I : Nat → Ins)
    (hI : ∀ t, encodeInstr op [t] = encodeIns3 [I t]) (hsz : ∀ t, (I t).size = 5)
    (d : Nat) (s : CState) (hdl : budE3 l ≤ d) (hdr : budE3 r ≤ d)
    (hg : ResOK names lnames n m s.tables s.assigned)
    (hwl : wfE3 isFn n m s.consts.size l = true) (hwr : wfE3 isFn n m (s.consts.size + nlitsE3 l) r = true) :
    Steps (do
        compileExpr d (toAstE3 names lnames ctab l)
        let jumpPos ← emit op [0]
        compileExpr d (toAstE3 names lnames ctab r)
        let p ← curPos
        changeOperand jumpPos p) s ()
      (app s (encodeIns3 (F3.comp s.insts.size l ++ [I (s.insts.size + F3.esize l + 5 + F3.esize r)] ++
          F3.comp (s.insts.size + F3.esize l + 5) r)) (litsK K s.consts.size (nlitsE3 l + nlitsE3 r))) := by
  have h5 : ∀ t, (encodeInstr op [t]).length = 5 := by
    intro t; rw [hI, encodeIns3_length]; simp [F3.csize, hsz]
  refine Steps.bind (hl d s hdl hg hwl) ?_
  refine Steps.bind (steps_emit_at s _ _ op [0]) ?_
  refine Steps.bind (hr.at d s _ _ (s.insts.size + F3.esize l + 5) (s.consts.size + nlitsE3 l) hdr hg
    (by simp [encodeIns3_length, F3.csize_comp, h5]; omega) (by simp [litsK_length]) hwr) ?_
  refine Steps.bind (steps_curPos_at s _ _) ?_
  refine (steps_patch_at s (encodeIns3 (F3.comp s.insts.size l)) op 0 _
    (encodeIns3 (F3.comp (s.insts.size + F3.esize l + 5) r)) _ _ _ hw4 hop rfl
    (by simp [encodeIns3_length, F3.csize_comp])).to ?_
  refine app_congr s ?_ ?_
  · simp [encodeIns3_length, F3.csize_comp, h5, encodeIns3_append, hI, List.append_assoc, Nat.add_assoc,
      F3.csize, hsz, encodeIns3_cons, encI3_length]
  · rw [litsK_add]

theorem budE3_pos (e : Ex) : 1 ≤ budE3 e := by cases e <;> simp [budE3] <;> omega

theorem exprOK3_lit (hK : ∀ j, isFn j = false → K j = constOf (ctab j)) (k : Nat) :
    ExprOK3 names lnames ctab isFn K n m (.lit k) := by
  intro d s hd hg hw
  cases d with
  | zero => simp [budE3] at hd
  | succ d =>
    simp only [wfE3, Bool.and_eq_true, beq_iff_eq, Bool.not_eq_true'] at hw
    obtain ⟨hw, hf⟩ := hw
    subst hw
    have key : ∀ c : Compiler.Const, c = constOf (ctab s.consts.size) →
        Steps (do let k ← addConstant c; discard (emit opConstant [k])) s ()
          (app s (encodeIns3 (F3.comp s.insts.size (.lit s.consts.size)))
            (litsK K s.consts.size (nlitsE3 (.lit s.consts.size)))) := by
      intro c hc
      refine (Steps.bind (steps_addConstant c s) (steps_emitI3 (.const s.consts.size) _)).to ?_
      rw [app_app, hc, ← hK _ hf]; rfl
    simp only [toAstE3]
    cases hc : ctab s.consts.size with
    | int v => simp only [litExpr, compileExpr.eq_4]; exact key _ (by rw [hc]; rfl)
    | float v => simp only [litExpr, compileExpr.eq_5]; exact key _ (by rw [hc]; rfl)
    | char v => simp only [litExpr, compileExpr.eq_8]; exact key _ (by rw [hc]; rfl)
    | str v => simp only [litExpr, compileExpr.eq_7]; exact key _ (by rw [hc]; rfl)

theorem exprOK3_tru : ExprOK3 names lnames ctab isFn K n m .tru := by
  intro d s hd hg hw
  cases d with
  | zero => simp [budE3] at hd
  | succ d =>
    simp only [toAstE3, compileExpr.eq_6]
    exact (steps_emitI3 .tru s).to (by rfl)

theorem exprOK3_fls : ExprOK3 names lnames ctab isFn K n m .fls := by
  intro d s hd hg hw
  cases d with
  | zero => simp [budE3] at hd
  | succ d =>
    simp only [toAstE3, compileExpr.eq_6]
    exact (steps_emitI3 .fls s).to (by rfl)

theorem exprOK3_undef : ExprOK3 names lnames ctab isFn K n m .undef := by
  intro d s hd hg hw
  cases d with
  | zero => simp [budE3] at hd
  | succ d =>
    simp only [toAstE3, compileExpr.eq_9]
    exact (steps_emitI3 .null s).to (by rfl)

theorem exprOK3_glob (i : Nat) : ExprOK3 names lnames ctab isFn K n m (.glob i) := by
  intro d s hd hg hw
  cases d with
  | zero => simp [budE3] at hd
  | succ d =>
    simp only [wfE3, decide_eq_true_eq] at hw
    obtain ⟨id, k, hres⟩ := hg.steps_glob hw
    simp only [toAstE3, ident_unfold]
    refine Steps.bind hres ?_
    simp only [emitGet_global]
    exact steps_emitI3 (.getg i) s

theorem exprOK3_loc (i : Nat) : ExprOK3 names lnames ctab isFn K n m (.loc i) := by
  intro d s hd hg hw
  cases d with
  | zero => simp [budE3] at hd
  | succ d =>
    simp only [wfE3, decide_eq_true_eq] at hw
    obtain ⟨id, k, _, _, hres⟩ := hg.steps_loc hw
    simp only [toAstE3, ident_unfold]
    refine Steps.bind hres ?_
    simp only [emitGet_local]
    exact steps_emitI3 (.getl i) s

theorem exprOK3_bin (tok : Nat) (l r : Ex) (ihl : ExprOK3 names lnames ctab isFn K n m l)
    (ihr : ExprOK3 names lnames ctab isFn K n m r) : ExprOK3 names lnames ctab isFn K n m (.bin tok l r) := by
  intro d s hd hg hw
  cases d with
  | zero => simp [budE3] at hd
  | succ d =>
    simp only [wfE3, Bool.and_eq_true] at hw
    obtain ⟨⟨ht, hwl⟩, hwr⟩ := hw
    simp only [budE3] at hd
    simp only [toAstE3, bin_tok d tok ht]
    refine steps_two3 ihl ihr d s (by omega) (by omega) hg hwl hwr _ _ _ ((steps_emitI3 (.binop tok) _).to ?_)
    rw [app_app]
    exact app_congr s (by simp [F3.comp, encodeIns3_append]) (by simp [nlitsE3])

theorem exprOK3_eq (l r : Ex) (ihl : ExprOK3 names lnames ctab isFn K n m l)
    (ihr : ExprOK3 names lnames ctab isFn K n m r) : ExprOK3 names lnames ctab isFn K n m (.eq l r) := by
  intro d s hd hg hw
  cases d with
  | zero => simp [budE3] at hd
  | succ d =>
    simp only [wfE3, Bool.and_eq_true] at hw
    obtain ⟨hwl, hwr⟩ := hw
    simp only [budE3] at hd
    simp only [toAstE3, bin_eq]
    refine steps_two3 ihl ihr d s (by omega) (by omega) hg hwl hwr _ _ _ ((steps_emitI3 .eql _).to ?_)
    rw [app_app]
    exact app_congr s (by simp [F3.comp, encodeIns3_append]) (by simp [nlitsE3])

theorem exprOK3_ne (l r : Ex) (ihl : ExprOK3 names lnames ctab isFn K n m l)
    (ihr : ExprOK3 names lnames ctab isFn K n m r) : ExprOK3 names lnames ctab isFn K n m (.ne l r) := by
  intro d s hd hg hw
  cases d with
  | zero => simp [budE3] at hd
  | succ d =>
    simp only [wfE3, Bool.and_eq_true] at hw
    obtain ⟨hwl, hwr⟩ := hw
    simp only [budE3] at hd
    simp only [toAstE3, bin_ne]
    refine steps_two3 ihl ihr d s (by omega) (by omega) hg hwl hwr _ _ _ ((steps_emitI3 .neq _).to ?_)
    rw [app_app]
    exact app_congr s (by simp [F3.comp, encodeIns3_append]) (by simp [nlitsE3])

theorem exprOK3_neg (e : Ex) (ih : ExprOK3 names lnames ctab isFn K n m e) :
    ExprOK3 names lnames ctab isFn K n m (.neg e) := by
  intro d s hd hg hw
  cases d with
  | zero => simp [budE3] at hd
  | succ d =>
    simp only [wfE3] at hw
    simp only [budE3] at hd
    simp only [toAstE3, un_sub]
    refine steps_one3 ih d s (by omega) hg hw _ _ _ ((steps_emitI3 .minus _).to ?_)
    rw [app_app]
    exact app_congr s (by simp [F3.comp, encodeIns3_append]) (by simp [nlitsE3])

theorem exprOK3_bnot (e : Ex) (ih : ExprOK3 names lnames ctab isFn K n m e) :
    ExprOK3 names lnames ctab isFn K n m (.bnot e) := by
  intro d s hd hg hw
  cases d with
  | zero => simp [budE3] at hd
  | succ d =>
    simp only [wfE3] at hw
    simp only [budE3] at hd
    simp only [toAstE3, un_xor]
    refine steps_one3 ih d s (by omega) hg hw _ _ _ ((steps_emitI3 .bcompl _).to ?_)
    rw [app_app]
    exact app_congr s (by simp [F3.comp, encodeIns3_append]) (by simp [nlitsE3])

theorem exprOK3_lnot (e : Ex) (ih : ExprOK3 names lnames ctab isFn K n m e) :
    ExprOK3 names lnames ctab isFn K n m (.lnot e) := by
  intro d s hd hg hw
  cases d with
  | zero => simp [budE3] at hd
  | succ d =>
    simp only [wfE3] at hw
    simp only [budE3] at hd
    simp only [toAstE3, un_not]
    refine steps_one3 ih d s (by omega) hg hw _ _ _ ((steps_emitI3 .lnot _).to ?_)
    rw [app_app]
    exact app_congr s (by simp [F3.comp, encodeIns3_append]) (by simp [nlitsE3])

theorem exprOK3_plus (e : Ex) (ih : ExprOK3 names lnames ctab isFn K n m e) :
    ExprOK3 names lnames ctab isFn K n m (.plus e) := by
  intro d s hd hg hw
  cases d with
  | zero => simp [budE3] at hd
  | succ d =>
    simp only [wfE3] at hw
    simp only [budE3] at hd
    simp only [toAstE3, un_add]
    refine steps_one3 ih d s (by omega) hg hw _ _ _ ((Steps.pure () _).to ?_)
    exact app_congr s (by simp [F3.comp]) (by simp [nlitsE3])

theorem e5_jmpf3 (t : Nat) : (encodeInstr opJumpFalsy [t]).length = 5 := by rw [enc_jump _ _ rfl]; rfl
theorem e5_jmp3 (t : Nat) : (encodeInstr opJump [t]).length = 5 := by rw [enc_jump _ _ rfl]; rfl

theorem exprOK3_cond (c t f : Ex) (ihc : ExprOK3 names lnames ctab isFn K n m c)
    (iht : ExprOK3 names lnames ctab isFn K n m t) (ihf : ExprOK3 names lnames ctab isFn K n m f) :
    ExprOK3 names lnames ctab isFn K n m (.cond c t f) := by
  intro d s hd hg hw
  cases d with
  | zero => simp [budE3] at hd
  | succ d =>
    simp only [wfE3, Bool.and_eq_true] at hw
    obtain ⟨⟨hwc, hwt⟩, hwf⟩ := hw
    simp only [budE3] at hd
    simp only [toAstE3, compileExpr.eq_22]
    refine Steps.bind (ihc d s (by omega) hg hwc) ?_
    refine Steps.bind (steps_emit_at s _ _ opJumpFalsy [0]) ?_
    refine Steps.bind (iht.at d s _ _ (s.insts.size + F3.esize c + 5) (s.consts.size + nlitsE3 c) (by omega) hg
      (by simp [encodeIns3_length, F3.csize_comp, e5_jmpf3]; omega) (by simp [litsK_length]) hwt) ?_
    refine Steps.bind (steps_emit_at s _ _ opJump [0]) ?_
    refine Steps.bind (steps_curPos_at s _ _) ?_
    refine Steps.bind (steps_patch_at s (encodeIns3 (F3.comp s.insts.size c)) opJumpFalsy 0 _
      (encodeIns3 (F3.comp (s.insts.size + F3.esize c + 5) t) ++ encodeInstr opJump [0]) _ _ _ rfl (by decide)
      (by simp [List.append_assoc]) rfl) ?_
    refine Steps.bind (ihf.at d s _ _ (s.insts.size + F3.esize c + 5 + F3.esize t + 5)
      (s.consts.size + nlitsE3 c + nlitsE3 t) (by omega) hg
      (by simp [encodeIns3_length, F3.csize_comp, e5_jmpf3, e5_jmp3]; omega)
      (by simp [litsK_length]; omega) hwf) ?_
    refine Steps.bind (steps_curPos_at s _ _) ?_
    refine (steps_patch_at s (encodeIns3 (F3.comp s.insts.size c) ++ encodeInstr opJumpFalsy
        [s.insts.size + F3.esize c + 5 + F3.esize t + 5] ++ encodeIns3 (F3.comp (s.insts.size + F3.esize c + 5) t))
      opJump 0 _ (encodeIns3 (F3.comp (s.insts.size + F3.esize c + 5 + F3.esize t + 5) f)) _ _ _ rfl (by decide)
      ?_ ?_).to ?_
    · simp [List.append_assoc, encodeIns3_length, F3.csize_comp, e5_jmpf3, e5_jmp3, Nat.add_assoc]
    · simp [List.append_assoc, encodeIns3_length, F3.csize_comp, e5_jmpf3, e5_jmp3]
    · refine app_congr s ?_ ?_
      · simp [F3.comp, F3.csize_comp, encodeIns3_append, encodeIns3_cons, List.append_assoc, encodeIns3_length,
          e5_jmpf3, e5_jmp3, enc_jmpf3, enc_jmp3, Nat.add_assoc, encI3_length, F3.Ins.size]
      · simp [nlitsE3, litsK_add, List.append_assoc, Nat.add_assoc]

theorem exprOK3_land (l r : Ex) (ihl : ExprOK3 names lnames ctab isFn K n m l)
    (ihr : ExprOK3 names lnames ctab isFn K n m r) : ExprOK3 names lnames ctab isFn K n m (.land l r) := by
  intro d s hd hg hw
  cases d with
  | zero => simp [budE3] at hd
  | succ d =>
    simp only [wfE3, Bool.and_eq_true] at hw
    obtain ⟨hwl, hwr⟩ := hw
    simp only [budE3] at hd
    simp only [toAstE3, bin_land]
    refine (steps_logical3 ihl ihr opAndJump rfl (by decide) Ins.andjmp (fun t => enc_of3 (.andjmp t))
      (fun _ => rfl) d s (by omega) (by omega) hg hwl hwr).to ?_
    exact app_congr s (by simp [F3.comp]) (by simp [nlitsE3])

theorem exprOK3_lor (l r : Ex) (ihl : ExprOK3 names lnames ctab isFn K n m l)
    (ihr : ExprOK3 names lnames ctab isFn K n m r) : ExprOK3 names lnames ctab isFn K n m (.lor l r) := by
  intro d s hd hg hw
  cases d with
  | zero => simp [budE3] at hd
  | succ d =>
    simp only [wfE3, Bool.and_eq_true] at hw
    obtain ⟨hwl, hwr⟩ := hw
    simp only [budE3] at hd
    simp only [toAstE3, bin_lor]
    refine (steps_logical3 ihl ihr opOrJump rfl (by decide) Ins.orjmp (fun t => enc_of3 (.orjmp t))
      (fun _ => rfl) d s (by omega) (by omega) hg hwl hwr).to ?_
    exact app_congr s (by simp [F3.comp]) (by simp [nlitsE3])

theorem exprOK3_call (f : Ex) (args : Exs) (ihf : ExprOK3 names lnames ctab isFn K n m f)
    (iha : ExprsOK3 names lnames ctab isFn K n m args) :
    ExprOK3 names lnames ctab isFn K n m (.call f args) := by
  intro d s hd hg hw
  cases d with
  | zero => simp [budE3] at hd
  | succ d =>
    simp only [wfE3, Bool.and_eq_true, decide_eq_true_eq] at hw
    obtain ⟨⟨hlen, hwf⟩, hwa⟩ := hw
    simp only [budE3] at hd
    simp only [toAstE3]
    rw [call_unfold d _ _ (by rw [toAstEs3_length]; exact hlen), toAstEs3_length]
    refine Steps.bind (ihf d s (by omega) hg hwf) ?_
    refine Steps.bind (iha.at d s _ _ (s.insts.size + F3.esize f) (s.consts.size + nlitsE3 f) (by omega) hg
      (by simp [encodeIns3_length, F3.csize_comp]) (by simp [litsK_length]) hwa) ?_
    refine (steps_emitI3 (.call args.len) _).to ?_
    rw [app_app]
    exact app_congr s (by simp [F3.comp, encodeIns3_append, List.append_assoc])
      (by simp [nlitsE3, litsK_add])

theorem exprsOK3_nil : ExprsOK3 names lnames ctab isFn K n m .nil := by
  intro d s hd hg hw
  cases d with
  | zero => simp [budEs3] at hd
  | succ d =>
    simp only [toAstEs3, compileExprs.eq_2]
    exact (Steps.pure () _).to (by simp [F3.compEs, nlitsEs3, litsK_zero])

theorem exprsOK3_cons (e : Ex) (es : Exs) (ihe : ExprOK3 names lnames ctab isFn K n m e)
    (ihs : ExprsOK3 names lnames ctab isFn K n m es) : ExprsOK3 names lnames ctab isFn K n m (.cons e es) := by
  intro d s hd hg hw
  cases d with
  | zero => simp [budEs3] at hd
  | succ d =>
    simp only [wfEs3, Bool.and_eq_true] at hw
    obtain ⟨hw1, hw2⟩ := hw
    simp only [budEs3] at hd
    simp only [toAstEs3, compileExprs.eq_3]
    refine Steps.bind (ihe d s (by omega) hg hw1) ?_
    refine (ihs.at d s _ _ (s.insts.size + F3.esize e) (s.consts.size + nlitsE3 e) (by omega) hg
      (by simp [encodeIns3_length, F3.csize_comp]) (by simp [litsK_length]) hw2).to ?_
    exact app_congr s (by simp [F3.compEs, encodeIns3_append]) (by simp [nlitsEs3, litsK_add])

mutual
  theorem exprOK3 (hK : ∀ j, isFn j = false → K j = constOf (ctab j)) :
      ∀ e : Ex, ExprOK3 names lnames ctab isFn K n m e
    | .lit k => exprOK3_lit hK k
    | .tru => exprOK3_tru
    | .fls => exprOK3_fls
    | .undef => exprOK3_undef
    | .glob i => exprOK3_glob i
    | .loc i => exprOK3_loc i
    | .bin tok l r => exprOK3_bin tok l r (exprOK3 hK l) (exprOK3 hK r)
    | .eq l r => exprOK3_eq l r (exprOK3 hK l) (exprOK3 hK r)
    | .ne l r => exprOK3_ne l r (exprOK3 hK l) (exprOK3 hK r)
    | .neg e => exprOK3_neg e (exprOK3 hK e)
    | .bnot e => exprOK3_bnot e (exprOK3 hK e)
    | .lnot e => exprOK3_lnot e (exprOK3 hK e)
    | .plus e => exprOK3_plus e (exprOK3 hK e)
    | .cond c t f => exprOK3_cond c t f (exprOK3 hK c) (exprOK3 hK t) (exprOK3 hK f)
    | .land l r => exprOK3_land l r (exprOK3 hK l) (exprOK3 hK r)
    | .lor l r => exprOK3_lor l r (exprOK3 hK l) (exprOK3 hK r)
    | .call f args => exprOK3_call f args (exprOK3 hK f) (exprsOK3 hK args)
  theorem exprsOK3 (hK : ∀ j, isFn j = false → K j = constOf (ctab j)) :
      ∀ es : Exs, ExprsOK3 names lnames ctab isFn K n m es
    | .nil => exprsOK3_nil
    | .cons e es => exprsOK3_cons e es (exprOK3 hK e) (exprsOK3 hK es)
end

end
end Tengo.Proofs.C01BridgeF3Comp

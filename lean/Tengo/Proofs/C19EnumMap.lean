import Tengo.Proofs.C19EnumFns
/-!
C19, enum module, layer 5: what `map` needs beyond the read-only loops: `dst := []`, `dst = append(dst, e)`
(the `append` builtin with its hidden-capacity bookkeeping, assignment to a local), `return dst`.
-/
set_option linter.unusedVariables false
set_option linter.unusedSimpArgs false
namespace Tengo.Proofs.C19Enum
open Tengo.Model Tengo.Model.Spec

def setSt (σ : St) (r : Nat) (o : Obj) : St := { σ with heap := σ.heap.setIfInBounds r o }

theorem newArray_run (vs : List Value) (σ : St) :
    newArray vs σ = .ok (σ.heap.size + 1,
      pushSt (pushSt σ (.store vs.toArray 1)) (.arr σ.heap.size 0 vs.length)) := by
  unfold newArray
  rw [m_bind_ok (alloc_run _ σ), alloc_run, pushSt_size]

theorem ev_arr_nil (F : Nat) (ctx : Ctx) (gs : GSt) (σ : St) :
    evalExpr (F + 2) ctx (.arr []) gs σ = .ok ((.arr (σ.heap.size + 1), gs),
      pushSt (pushSt σ (.store #[] 1)) (.arr σ.heap.size 0 0)) := by
  simp only [evalExpr, evalExprs, pure_bind]
  rw [em_bind_ok (liftM_ok (newArray_run [] σ))]
  rfl

theorem execStmt_define_arr (F : Nat) (ctx : Ctx) (n : String) :
    execStmt (F + 2) ctx (.assign "Define" [.ident n] [.arr []]) = (do
      let v ← evalExpr (F + 1) ctx (.arr [])
      let env' ← declare ctx n v
      pure (.normal, env')) := by
  have h1 : ("Define" == "Define") = true := by decide
  simp only [execStmt, assignTo, lhsName, lhsSelectors, h1, Bool.and_false, Bool.false_eq_true, if_false,
    Bool.true_or, if_true, List.isEmpty_nil, bind_assoc, pure_bind]

theorem execStmt_assign_call (F : Nat) (ctx : Ctx) (n : String) (g : Expr) (args : List Expr) :
    execStmt (F + 2) ctx (.assign "Assign" [.ident n] [.call false g args]) = (do
      let v ← evalExpr (F + 1) ctx (.call false g args)
      writeVar ctx.env n v
      pure (.normal, ctx.env)) := by
  have h1 : ("Assign" == "Define") = false := by decide
  have h2 : ("Assign" == "Assign") = true := by decide
  simp only [execStmt, assignTo, lhsName, lhsSelectors, h1, h2, Bool.and_false, Bool.false_eq_true, if_false,
    Bool.or_true, if_true, List.isEmpty_nil, bind_assoc, pure_bind]

theorem writeVar_run {env : Env} {n : String} {c : Nat} (h : lookupVar env n = some c) (v : Value) (gs : GSt) (σ : St) :
    writeVar env n v gs σ = .ok (((), gs), setSt σ c (.cell v false)) := by
  unfold writeVar
  simp only [h]
  rfl

/-- `rd` is a freshly built array (its own store, one header, never appended to) reading as `ds`. -/
structure DstArr (σ : St) (rd sd : Nat) (ds : List Value) : Prop where
  hdr : σ.heap[rd]? = some (.arr sd 0 ds.length)
  store : σ.heap[sd]? = some (.store ds.toArray 1)
  clean : σ.appendedFrom.lookup rd = none

theorem DstArr.arrAt {σ : St} {rd sd : Nat} {ds : List Value} (h : DstArr σ rd sd ds) : ArrAt σ rd sd ds :=
  ⟨⟨0, ds.length, h.hdr, ds.toArray, 1, h.store, by simp⟩, h.clean⟩

theorem DstArr.ext {σ σ' : St} {rd sd : Nat} {ds : List Value} (h : DstArr σ rd sd ds) (he : Ext σ σ') :
    DstArr σ' rd sd ds :=
  ⟨he.keep _ _ h.hdr, he.keep _ _ h.store, by rw [he.app rd (lt_size_of_get h.hdr)]; exact h.clean⟩

/-- Heap after `append(<rd>, y)`. -/
def appSt (σ : St) (rd : Nat) (ds : List Value) (y : Value) : St :=
  { pushSt (pushSt σ (.store (ds ++ [y]).toArray 1)) (.arr σ.heap.size 0 (ds ++ [y]).length) with
    appendedFrom := (rd, σ.heap.size) :: σ.appendedFrom }

theorem noteAppend_run {σ : St} {src res st off len : Nat} (hc : σ.appendedFrom.lookup src = none)
    (hr : σ.heap[res]? = some (.arr st off len)) :
    noteAppend src res σ = .ok ((), { σ with appendedFrom := (src, st) :: σ.appendedFrom }) := by
  unfold noteAppend
  rw [m_bind_ok (show (get : M St) σ = .ok (σ, σ) from rfl)]
  simp only [hc, hr, Option.isSome_none, Bool.false_eq_true, if_false]
  rfl

theorem callBuiltin_append_run {σ : St} {rd sd : Nat} {ds : List Value} (h : DstArr σ rd sd ds) (y : Value)
    (gs : GSt) :
    callBuiltin "append" [.arr rd, y] gs σ = .ok ((.arr (σ.heap.size + 1), gs), appSt σ rd ds y) := by
  have hu : callBuiltin "append" [.arr rd, y] = (do
      match ← Spec.liftM (getObj rd) with
        | .arr st _ _ =>
          match ← Spec.liftM (getObj st) with
          | .store _ h => if h > 1 then Spec.liftM (throw (Err.excluded "append to an array whose storage is shared (hidden capacity)")) else pure ()
          | _ => eUnsup "bad store"
        | _ => eUnsup "bad array"
      let es ← Spec.liftM (arrElems rd)
      let res ← Spec.liftM (newArray (es ++ [y]))
      Spec.liftM (noteAppend rd res)
      pure (.arr res)) := by
    unfold callBuiltin
    rfl
  rw [hu, em_bind_ok (liftM_ok (getObj_run h.hdr))]
  simp only []
  rw [em_bind_ok (liftM_ok (getObj_run h.store))]
  simp only [Nat.lt_irrefl, if_false, gt_iff_lt]
  rw [em_bind_ok (liftM_ok (arrElems_run h.arrAt)), em_bind_ok (liftM_ok (newArray_run _ _))]
  have hr : (pushSt (pushSt σ (.store (ds ++ [y]).toArray 1)) (.arr σ.heap.size 0 (ds ++ [y]).length)).heap[σ.heap.size + 1]?
      = some (.arr σ.heap.size 0 (ds ++ [y]).length) := by
    have := pushSt_new (pushSt σ (.store (ds ++ [y]).toArray 1)) (.arr σ.heap.size 0 (ds ++ [y]).length)
    rwa [pushSt_size] at this
  rw [em_bind_ok (liftM_ok (noteAppend_run
    (σ := pushSt (pushSt σ (.store (ds ++ [y]).toArray 1)) (.arr σ.heap.size 0 (ds ++ [y]).length))
    (src := rd) h.clean hr))]
  rfl

theorem call_builtin_run2 {F : Nat} {ctx : Ctx} {f : Expr} {args : List Expr} {gs : GSt} {σ σ' : St} {n : String}
    {avs : List Value}
    (hf : evalExpr F ctx f gs σ = .ok ((.builtin n, gs), σ)) (ha : evalExprs F ctx args gs σ = .ok ((avs, gs), σ')) :
    evalExpr (F + 1) ctx (.call false f args) gs σ = callBuiltin n avs gs σ' := by
  simp only [evalExpr]
  rw [em_bind_ok hf, em_bind_ok ha]
  simp only [Bool.false_eq_true, if_false]
  rw [em_bind_ok (em_pure _ _ _)]

theorem evalExprs_nil (F : Nat) (ctx : Ctx) : evalExprs (F + 1) ctx [] = pure [] := by
  simp only [evalExprs]

def mapLoop : List Stmt :=
  [.assign "Assign" [.ident "dst"] [.call false (.ident "append") [.ident "dst", fnKV]]]

theorem var_dst_push {σ : St} {E : Env} {cd : Nat} {v : Value} {b : Bool} (h1 : lookupVar E "dst" = some cd)
    (h2 : σ.heap[cd]? = some (.cell v b)) : Var σ ({ vars := [] } :: E) "dst" v :=
  var_push ⟨cd, b, h1, h2⟩ 0

/-- One iteration of `map`'s loop body `dst = append(dst, fn(k, v))`. -/
theorem map_body_run {Fc F : Nat} {σ0 σI : St} {cr : Nat} {f : Nat → Value → Value} {cx : Ctx} {i : Nat}
    {x : Value} {rd sd cd : Nat} {ds : List Value} (gs : GSt)
    (hcb : CallsAs Fc σ0 cr f) (hF : Fc ≤ F) (hext : Ext σ0 σI) (hd : cx.callDepth < 900)
    (hfn : Var σI cx.env "fn" (.fn cr)) (hk : Var σI cx.env "k" (.int i)) (hv : Var σI cx.env "v" x)
    (happ : lookupVar cx.env "append" = none) (hdv : lookupVar cx.env "dst" = some cd)
    (hdc : σI.heap[cd]? = some (.cell (.arr rd) false)) (hda : DstArr σI rd sd ds) :
    ∃ σ2, Ext σI σ2 ∧ execBlock (F + 10) cx mapLoop 1 gs σI =
      .ok ((.normal, gs), setSt (appSt σ2 rd ds (f i x)) cd (.cell (.arr (σ2.heap.size + 1)) false)) := by
  obtain ⟨σ2, hcall, he2⟩ := fn_call_run (F := F)
    (ctx := { env := { vars := [] } :: cx.env, callDepth := cx.callDepth, path := 0 :: 1 :: cx.path })
    gs hcb hF hext hd (var_push hfn 0) (var_push hk 0) (var_push hv 0)
  refine ⟨σ2, he2, ?_⟩
  have hargs : evalExprs (F + 6) { env := { vars := [] } :: cx.env, callDepth := cx.callDepth, path := 0 :: 1 :: cx.path }
      [.ident "dst", fnKV] gs σI = .ok (([.arr rd, f i x], gs), σ2) := by
    rw [evalExprs_cons, em_bind_ok (ev_ident
      (ctx := { env := { vars := [] } :: cx.env, callDepth := cx.callDepth, path := 0 :: 1 :: cx.path })
      (var_dst_push hdv hdc) (F + 4) gs), evalExprs_cons,
      bind_assoc, em_bind_ok hcall, evalExprs_nil]
    rfl
  have hcallA := call_builtin_run2 (F := F + 6)
    (ev_builtin_ident (ctx := { env := { vars := [] } :: cx.env, callDepth := cx.callDepth, path := 0 :: 1 :: cx.path })
      (n := "append") (by rw [lookupVar_cons]; exact happ) (by decide) (F + 5) gs σI) hargs
  rw [callBuiltin_append_run (hda.ext he2) (f i x) gs] at hcallA
  unfold mapLoop
  rw [execBlock_cons, execStmts_cons, execStmt_assign_call]
  simp only [bind_assoc, pure_bind]
  rw [em_bind_ok hcallA]
  rw [em_bind_ok (writeVar_run (env := { vars := [] } :: cx.env) (n := "dst") (c := cd)
    (by rw [lookupVar_cons]; exact hdv) _ gs _)]
  simp only [execStmts_nil]
  rfl

/-! ### heap facts of `appSt` / `setSt` -/

theorem setSt_get_ne {σ : St} {c r : Nat} (o : Obj) (h : r ≠ c) : (setSt σ c o).heap[r]? = σ.heap[r]? := by
  simp [setSt, Array.getElem?_setIfInBounds, h.symm]

theorem setSt_get_eq {σ : St} {c : Nat} (o : Obj) (h : c < σ.heap.size) : (setSt σ c o).heap[c]? = some o := by
  simp [setSt, Array.getElem?_setIfInBounds, h]

theorem appSt_size (σ : St) (rd : Nat) (ds : List Value) (y : Value) :
    (appSt σ rd ds y).heap.size = σ.heap.size + 2 := by
  simp [appSt, pushSt]

theorem appSt_get_lt {σ : St} (rd : Nat) (ds : List Value) (y : Value) {r : Nat} {o : Obj}
    (h : σ.heap[r]? = some o) : (appSt σ rd ds y).heap[r]? = some o :=
  ((ext_push _ _).trans (ext_push _ _)).keep _ _ h

theorem appSt_get0 (σ : St) (rd : Nat) (ds : List Value) (y : Value) :
    (appSt σ rd ds y).heap[σ.heap.size]? = some (.store (ds ++ [y]).toArray 1) :=
  (ext_push _ _).keep _ _ (pushSt_new σ _)

theorem appSt_get1 (σ : St) (rd : Nat) (ds : List Value) (y : Value) :
    (appSt σ rd ds y).heap[σ.heap.size + 1]? = some (.arr σ.heap.size 0 (ds ++ [y]).length) := by
  have := pushSt_new (pushSt σ (.store (ds ++ [y]).toArray 1)) (.arr σ.heap.size 0 (ds ++ [y]).length)
  rwa [pushSt_size] at this

/-- What `map` has built after `i` iterations. -/
def mapped (f : Nat → Value → Value) (es : List Value) (i : Nat) : List Value :=
  ((es.take i).zipIdx).map (fun q => f q.2 q.1)

theorem mapped_succ (f : Nat → Value → Value) {es : List Value} {i : Nat} {x : Value} (h : es[i]? = some x) :
    mapped f es (i + 1) = mapped f es i ++ [f i x] := by
  have hi : i < es.length := by
    rcases Nat.lt_or_ge i es.length with hc | hc
    · exact hc
    · have : es[i]? = none := by simp; omega
      rw [this] at h; cases h
  unfold mapped
  rw [List.take_add_one, h]
  simp [List.zipIdx_append, List.length_take, Nat.min_eq_left (Nat.le_of_lt hi)]

theorem mapped_all (f : Nat → Value → Value) (es : List Value) :
    mapped f es es.length = es.zipIdx.map (fun q => f q.2 q.1) := by
  simp [mapped]

/-- Invariant of `map`'s loop relative to the heap `σ` in which the call started: cells of `x`, `fn`
(`σ.size`, `σ.size+1`) and `dst` (`σ.size+5`) and the array built so far. -/
structure AccInv (σ : St) (xv : Value) (cr : Nat) (acc : Nat → List Value) (i : Nat) (σ' : St) : Prop where
  ext : Ext σ σ'
  wf : WfApp σ'
  cx : σ'.heap[σ.heap.size]? = some (.cell xv false)
  cf : σ'.heap[σ.heap.size + 1]? = some (.cell (.fn cr) false)
  dst : ∃ rd sd, σ'.heap[σ.heap.size + 5]? = some (.cell (.arr rd) false) ∧ DstArr σ' rd sd (acc i) ∧
    σ.heap.size ≤ rd

theorem accInv_step {σ σ' σ2 : St} {xv : Value} {cr : Nat} {acc : Nat → List Value} {i : Nat} {y : Value}
    {rd sd : Nat} (hI : AccInv σ xv cr acc i σ')
    (hdc : σ'.heap[σ.heap.size + 5]? = some (.cell (.arr rd) false)) (hda : DstArr σ' rd sd (acc i))
    (hrd : σ.heap.size ≤ rd) (hacc : acc (i + 1) = acc i ++ [y]) (he2 : Ext σ' σ2) :
    AccInv σ xv cr acc (i + 1)
      (setSt (appSt σ2 rd (acc i) y) (σ.heap.size + 5) (.cell (.arr (σ2.heap.size + 1)) false)) := by
  have hcd2 : σ.heap.size + 5 < σ2.heap.size := lt_size_of_get (he2.keep _ _ hdc)
  have hrd2 : rd < σ2.heap.size := lt_size_of_get (he2.keep _ _ hda.hdr)
  have hwf2 : WfApp σ2 := he2.wf hI.wf
  have hlook : ∀ r0, r0 ≠ rd → (appSt σ2 rd (acc i) y).appendedFrom.lookup r0 = σ2.appendedFrom.lookup r0 := by
    intro r0 h
    have hb : (r0 == rd) = false := by simp [h]
    simp [appSt, pushSt, List.lookup, hb]
  refine ⟨⟨?_, ?_, ?_, fun _ => ?_⟩, ?_, ?_, ?_, ?_⟩
  · intro r0 o h
    have h0 := lt_size_of_get h
    rw [setSt_get_ne _ (by omega)]
    exact appSt_get_lt _ _ _ (he2.keep _ _ (hI.ext.keep _ _ h))
  · intro r0 h0
    show (appSt σ2 rd (acc i) y).appendedFrom.lookup r0 = _
    rw [hlook r0 (by omega), he2.app r0 (Nat.lt_of_lt_of_le h0 hI.ext.size_le), hI.ext.app r0 h0]
  · show σ2.dirty = σ.dirty
    rw [he2.dirty, hI.ext.dirty]
  · -- well-formedness
    intro r0 h0
    rw [show (setSt (appSt σ2 rd (acc i) y) (σ.heap.size + 5) _).heap.size = σ2.heap.size + 2 from by
      simp [setSt, appSt_size]] at h0
    show (appSt σ2 rd (acc i) y).appendedFrom.lookup r0 = none
    rw [hlook r0 (by omega)]
    exact hwf2 r0 (by omega)
  · intro r0 h0
    rw [show (setSt (appSt σ2 rd (acc i) y) (σ.heap.size + 5) _).heap.size = σ2.heap.size + 2 from by
      simp [setSt, appSt_size]] at h0
    show (appSt σ2 rd (acc i) y).appendedFrom.lookup r0 = none
    rw [hlook r0 (by omega)]
    exact hwf2 r0 (by omega)
  · rw [setSt_get_ne _ (by omega)]
    exact appSt_get_lt _ _ _ (he2.keep _ _ hI.cx)
  · rw [setSt_get_ne _ (by omega)]
    exact appSt_get_lt _ _ _ (he2.keep _ _ hI.cf)
  · refine ⟨σ2.heap.size + 1, σ2.heap.size, ?_, ⟨?_, ?_, ?_⟩, ?_⟩
    · exact setSt_get_eq _ (by rw [appSt_size]; omega)
    · rw [setSt_get_ne _ (by omega), hacc]
      exact appSt_get1 _ _ _ _
    · rw [setSt_get_ne _ (by omega), hacc]
      exact appSt_get0 _ _ _ _
    · show (appSt σ2 rd (acc i) y).appendedFrom.lookup (σ2.heap.size + 1) = none
      rw [hlook _ (by omega)]
      exact hwf2 _ (by omega)
    · have := hI.ext.size_le
      have := he2.size_le
      omega

theorem accInv_keep {σ σ' σ2 : St} {xv : Value} {cr : Nat} {acc : Nat → List Value} {i : Nat}
    (hI : AccInv σ xv cr acc i σ') (hacc : acc (i + 1) = acc i) (he2 : Ext σ' σ2) :
    AccInv σ xv cr acc (i + 1) σ2 := by
  obtain ⟨rd, sd, hdc, hda, hrd⟩ := hI.dst
  exact ⟨hI.ext.trans he2, he2.wf hI.wf, he2.keep _ _ hI.cx, he2.keep _ _ hI.cf,
    rd, sd, he2.keep _ _ hdc, by rw [hacc]; exact hda.ext he2, hrd⟩

/-- Environment of `map`'s statements after `dst := []`. -/
def mapEnv (menv : Env) (σ : St) : Env :=
  { vars := [("dst", σ.heap.size + 5)] } ::
    { vars := [("fn", σ.heap.size + 1), ("x", σ.heap.size)], isFn := true } :: menv

def mapRest : List Stmt :=
  [.assign "Define" [.ident "dst"] [.arr []], forKV mapLoop, .ret (some (.ident "dst"))]

theorem mapBody_eq : mapBody = guardEnum :: mapRest := rfl

theorem mapEnv_x (menv : Env) (σ : St) : lookupVar (mapEnv menv σ) "x" = some σ.heap.size := by
  simp [mapEnv, lookupVar_cons, List.lookup]
theorem mapEnv_fn (menv : Env) (σ : St) : lookupVar (mapEnv menv σ) "fn" = some (σ.heap.size + 1) := by
  simp [mapEnv, lookupVar_cons, List.lookup]
theorem mapEnv_dst (menv : Env) (σ : St) : lookupVar (mapEnv menv σ) "dst" = some (σ.heap.size + 5) := by
  simp [mapEnv, lookupVar_cons, List.lookup]
theorem mapEnv_append {menv : Env} (h : lookupVar menv "append" = none) (σ : St) :
    lookupVar (mapEnv menv σ) "append" = none := by
  simp [mapEnv, lookupVar_cons, List.lookup, h]

theorem map_after_define {Fc : Nat} {σ σD : St} {menv : Env} {ctx : Ctx} {r st cr : Nat} {es : List Value}
    {f : Nat → Value → Value} (gs : GSt)
    (harr : ArrAt σ r st es) (hcb : CallsAs Fc σ cr f) (hd : ctx.callDepth < 899)
    (happ : lookupVar menv "append" = none) (F : Nat) (hF : Fc ≤ F) (hI0 : AccInv σ (.arr r) cr (mapped f es) 0 σD) :
    ∃ σ'' rd sd, AccInv σ (.arr r) cr (mapped f es) es.length σ'' ∧
      σ''.heap[σ.heap.size + 5]? = some (.cell (.arr rd) false) ∧ DstArr σ'' rd sd (es.zipIdx.map (fun q => f q.2 q.1)) ∧
      (do let p ← execStmts (F + es.length + 11 + 2)
                    { env := mapEnv menv σ, callDepth := ctx.callDepth + 1, path := [0] }
                    [forKV mapLoop, .ret (some (.ident "dst"))] 2
          match p.1 with
          | .ret v => pure v
          | _ => pure Value.undef : EM Value) gs σD = .ok ((.arr rd, gs), σ'') := by
  have hloop := forin_loop_run (Fb := F + 10)
    (ctx := { env := mapEnv menv σ, callDepth := ctx.callDepth + 1, path := 2 :: [0] })
    (r := r) (st := st) (es := es) (body := mapLoop) gs
    (AccInv σ (.arr r) cr (mapped f es)) (fun _ _ => none)
    (fun _ σ' h => harr.ext h.ext)
    (fun _ σ' h => ⟨σ.heap.size, false, mapEnv_x menv σ, h.cx⟩)
    (by show (ctx.callDepth + 1 == 0) = false; simp)
    (by
      intro F' hF' i x σ' hget hI
      obtain ⟨k, rfl⟩ : ∃ k, F' = k + 10 := ⟨F' - 10, by omega⟩
      obtain ⟨rd, sd, hdc, hda, hrd⟩ := hI.dst
      have hfnV : Var σ' (mapEnv menv σ) "fn" (.fn cr) := ⟨_, false, mapEnv_fn menv σ, hI.cf⟩
      obtain ⟨σ2, he2, hrun⟩ := map_body_run (F := k) (σ0 := σ) (σI := st2 σ' (.int i) x)
        (cx := iterCtx (pushCtx { env := mapEnv menv σ, callDepth := ctx.callDepth + 1, path := 2 :: [0] })
          (mapEnv menv σ) σ') (i := i) (x := x) (cd := σ.heap.size + 5) gs hcb (by omega)
        (hI.ext.trans (ext_st2 _ _ _)) (by show ctx.callDepth + 1 < 900; omega)
        (iter_var_other _ _ hfnV (by decide) (by decide)) (iter_var_k _ _ _ _ _) (iter_var_v _ _ _ _ _)
        (by simp [iterCtx, lookupVar_cons, List.lookup, mapEnv_append happ])
        (by simp [iterCtx, lookupVar_cons, List.lookup, mapEnv_dst])
        ((ext_st2 _ _ _).keep _ _ hdc) (hda.ext (ext_st2 _ _ _))
      exact ⟨_, hrun, accInv_step hI hdc hda hrd (mapped_succ f hget) ((ext_st2 _ _ _).trans he2)⟩)
    σD hI0
  obtain ⟨σ', j, hrun, hI', hj⟩ := hloop
  have hjn : j = es.length := hj (firstRes_none es 0)
  subst hjn
  obtain ⟨rd, sd, hdc, hda, hrd⟩ := hI'.dst
  refine ⟨σ', rd, sd, hI', hdc, by rw [← mapped_all]; exact hda, ?_⟩
  rw [execStmts_cons]
  simp only [bind_assoc]
  have hfu : F + 10 + es.length + 2 = F + es.length + 11 + 1 := by omega
  rw [hfu, firstRes_none] at hrun
  rw [em_bind_ok hrun]
  simp only [flowOf]
  rw [show F + es.length + 11 + 1 = (F + es.length + 10) + 2 from by omega, execStmts_cons, execStmt_ret]
  simp only [bind_assoc, pure_bind]
  rw [em_bind_ok (ev_ident (ctx := { env := mapEnv menv σ, callDepth := ctx.callDepth + 1, path := (2 + 1) :: [0] })
    ⟨σ.heap.size + 5, false, mapEnv_dst menv σ, hdc⟩ (F + es.length + 9) gs)]
  rfl

theorem map_run {Fc : Nat} {σ : St} {menv : Env} {ctx : Ctx} {r st cr : Nat} {es : List Value}
    {f : Nat → Value → Value} (gs : GSt)
    (hb : IsEnumBound σ menv) (harr : ArrAt σ r st es) (hcb : CallsAs Fc σ cr f) (hd : ctx.callDepth < 899)
    (hwf : WfApp σ) (happ : lookupVar menv "append" = none) (F : Nat) (hF : Fc ≤ F) :
    ∃ σ'' rd sd, AccInv σ (.arr r) cr (mapped f es) es.length σ'' ∧
      σ''.heap[σ.heap.size + 5]? = some (.cell (.arr rd) false) ∧ DstArr σ'' rd sd (es.zipIdx.map (fun q => f q.2 q.1)) ∧
      callClosure (F + es.length + 17) ctx ⟨["x", "fn"], false, mapBody, menv⟩ [.arr r, .fn cr] gs σ =
        .ok ((.arr rd, gs), σ'') := by
  rw [mapBody_eq, show F + es.length + 17 = (F + es.length + 1) + 16 from by omega,
    guarded_call (F := F + es.length + 1) gs σ (by decide) (by decide) hb hd]
  simp only [isEnum, if_true]
  unfold mapRest
  rw [execStmts_cons, show F + es.length + 1 + 12 = (F + es.length + 11) + 2 from by omega, execStmt_define_arr]
  simp only [bind_assoc, pure_bind]
  rw [show F + es.length + 11 + 1 = (F + es.length + 10) + 2 from by omega]
  rw [em_bind_ok (ev_arr_nil (F + es.length + 10) _ gs _)]
  rw [em_bind_ok (declare_fn (f := { vars := [] }) (E := (enter2 menv ctx "x" "fn" σ).env) "dst" _ 0 gs _
    (by show (ctx.callDepth + 1 == 0) = false; simp) rfl)]
  have hG : (stG σ (.arr r) (.fn cr)).heap.size = σ.heap.size + 3 := by simp [stG, st2, pushSt_size]
  have hsz : (pushSt (pushSt (stG σ (Value.arr r) (Value.fn cr)) (Obj.store #[] 1))
      (Obj.arr (stG σ (Value.arr r) (Value.fn cr)).heap.size 0 0)).heap.size = σ.heap.size + 5 := by
    simp [pushSt_size, hG]
  have hI0 : AccInv σ (.arr r) cr (mapped f es) 0 (pushSt (pushSt (pushSt (stG σ (Value.arr r) (Value.fn cr)) (Obj.store #[] 1))
      (Obj.arr (stG σ (Value.arr r) (Value.fn cr)).heap.size 0 0))
      (Obj.cell (Value.arr ((stG σ (Value.arr r) (Value.fn cr)).heap.size + 1)) false)) := by
    have he : Ext σ (pushSt (pushSt (pushSt (stG σ (Value.arr r) (Value.fn cr)) (Obj.store #[] 1))
      (Obj.arr (stG σ (Value.arr r) (Value.fn cr)).heap.size 0 0))
      (Obj.cell (Value.arr ((stG σ (Value.arr r) (Value.fn cr)).heap.size + 1)) false)) :=
      (ext_stG σ _ _).trans (((ext_push _ _).trans (ext_push _ _)).trans (ext_push _ _))
    have hk := (((ext_push (stG σ (Value.arr r) (Value.fn cr)) (Obj.store #[] 1)).trans (ext_push _ (Obj.arr (stG σ (Value.arr r) (Value.fn cr)).heap.size 0 0))).trans
      (ext_push _ (Obj.cell (Value.arr ((stG σ (Value.arr r) (Value.fn cr)).heap.size + 1)) false)))
    refine ⟨he, he.wf hwf, ?_, ?_, (stG σ (.arr r) (.fn cr)).heap.size + 1, (stG σ (.arr r) (.fn cr)).heap.size, ?_, ⟨?_, ?_, ?_⟩, ?_⟩
    · exact hk.keep _ _ ((ext_push _ _).keep _ _ (st2_get0 σ _ _))
    · exact hk.keep _ _ ((ext_push _ _).keep _ _ (st2_get1 σ _ _))
    · have := pushSt_new (pushSt (pushSt (stG σ (Value.arr r) (Value.fn cr)) (Obj.store #[] 1))
        (Obj.arr (stG σ (Value.arr r) (Value.fn cr)).heap.size 0 0))
        (Obj.cell (Value.arr ((stG σ (Value.arr r) (Value.fn cr)).heap.size + 1)) false)
      rwa [hsz] at this
    · have := pushSt_new (pushSt (stG σ (Value.arr r) (Value.fn cr)) (Obj.store #[] 1))
        (Obj.arr (stG σ (Value.arr r) (Value.fn cr)).heap.size 0 0)
      rw [pushSt_size] at this
      exact (ext_push _ _).keep _ _ this
    · exact ((ext_push _ _).trans (ext_push _ _)).keep _ _ (pushSt_new (stG σ (Value.arr r) (Value.fn cr)) (Obj.store #[] 1))
    · exact hwf _ (by omega)
    · omega
  obtain ⟨σ'', rd, sd, h1, h2, h3, h4⟩ := map_after_define (ctx := ctx) (menv := menv) gs harr hcb hd happ F hF hI0
  refine ⟨σ'', rd, sd, h1, h2, h3, ?_⟩
  rw [hsz]
  exact h4

end Tengo.Proofs.C19Enum

import Tengo.Proofs.C15HeapOps
/-!
C15 (heap model): the invariants hold after every history (no side condition); whole histories refine the
specification under `safeOps`; a Run through one handle leaves the objects of every isolated other handle alone.
-/
namespace Tengo.Proofs.C15Heap
open Tengo.Model.Host hiding execC Host ScriptSt CompiledSt Abs AScript ACompiled
open Tengo.Model.HostHeap
open Tengo.Props.C15 (mem_set SlotsOK VarsOK mem_of_getElem?)

/-- `Run` keeps the invariants whatever the code does (no side condition). -/
theorem inv_run (L : Limits) (h : Host) (c : Nat) (hw : WF h) (hi : Iso h) :
    WF (hstep L h (.run c)).1 ∧ Iso (hstep L h (.run c)).1 := by
  cases hs : h.compiled[c]? with
  | none => simp [hstep, hs, hw, hi]
  | some cs =>
    have hcs := mem_of_getElem? hs
    obtain ⟨h1, h2, h3, _, _⟩ := exec_sim cs.code h.store cs.slots (hw.compiled cs hcs)
    simp only [hstep, hs]
    refine ⟨⟨?_, ?_⟩, ?_⟩
    · intro s' hs'
      exact (hw.scripts s' hs').mono h1
    · intro c' hc'
      rcases mem_set hc' with rfl | hc'
      · exact h2
      · exact (hw.compiled c' hc').mono h1
    · exact iso_update h hw hi c cs _ _ hs h3

theorem inv_step (L : Limits) (h : Host) (op : HOp) (hw : WF h) (hi : Iso h) :
    WF (hstep L h op).1 ∧ Iso (hstep L h op).1 := by
  cases op with
  | run c => exact inv_run L h c hw hi
  | newScript src => exact ⟨(step_sim L h _ hw hi rfl).1, (step_sim L h _ hw hi rfl).2.1⟩
  | add s n g => exact ⟨(step_sim L h _ hw hi rfl).1, (step_sim L h _ hw hi rfl).2.1⟩
  | remove s n => exact ⟨(step_sim L h _ hw hi rfl).1, (step_sim L h _ hw hi rfl).2.1⟩
  | compile s => exact ⟨(step_sim L h _ hw hi rfl).1, (step_sim L h _ hw hi rfl).2.1⟩
  | set c n g => exact ⟨(step_sim L h _ hw hi rfl).1, (step_sim L h _ hw hi rfl).2.1⟩
  | get c n => exact ⟨(step_sim L h _ hw hi rfl).1, (step_sim L h _ hw hi rfl).2.1⟩
  | getAll c => exact ⟨(step_sim L h _ hw hi rfl).1, (step_sim L h _ hw hi rfl).2.1⟩
  | isDefined c n => exact ⟨(step_sim L h _ hw hi rfl).1, (step_sim L h _ hw hi rfl).2.1⟩
  | clone c => exact ⟨(step_sim L h _ hw hi rfl).1, (step_sim L h _ hw hi rfl).2.1⟩

theorem inv_ops (L : Limits) : ∀ (ops : List HOp) (h : Host), WF h → Iso h →
    WF (hstate L h ops) ∧ Iso (hstate L h ops)
  | [], _, hw, hi => ⟨hw, hi⟩
  | op :: ops, h, hw, hi => by
      obtain ⟨hw', hi'⟩ := inv_step L h op hw hi
      exact inv_ops L ops _ hw' hi'

theorem wf_empty : WF {} := ⟨fun _ h => (by cases h), fun _ h => (by cases h)⟩
theorem iso_empty : Iso {} := ⟨fun i j ci cj h => (by simp at h), fun i ci h => (by simp at h)⟩

theorem runOps_sim (L : Limits) : ∀ (ops : List HOp) (h : Host), WF h → Iso h → safeOps L h ops = true →
    hrunOps L h ops = srunOps L (absOf h) ops
  | [], _, _, _, _ => rfl
  | op :: ops, h, hw, hi, hsafe => by
      simp only [safeOps, Bool.and_eq_true] at hsafe
      obtain ⟨hw', hi', hs⟩ := step_sim L h op hw hi hsafe.1
      simp only [hrunOps, srunOps, hs]
      rw [runOps_sim L ops _ hw' hi' hsafe.2]

/-- The made-by-Clone mark of a handle never changes, and handles are never removed. -/
theorem cloned_step (L : Limits) (h : Host) (op : HOp) (k : Nat) (ck : CompiledSt) (hk : h.compiled[k]? = some ck) :
    ∃ ck', (hstep L h op).1.compiled[k]? = some ck' ∧ ck'.cloned = ck.cloned := by
  have hlen : k < h.compiled.length := by
    rcases Nat.lt_or_ge k h.compiled.length with h1 | h1
    · exact h1
    · rw [List.getElem?_eq_none h1] at hk; cases hk
  have happ : ∀ x, (h.compiled ++ [x])[k]? = some ck := by
    intro x; rw [List.getElem?_append_left hlen]; exact hk
  have hset : ∀ (c : Nat) (cs : CompiledSt) (sl : List (String × Option Nat)), h.compiled[c]? = some cs →
      ∃ ck', (h.compiled.set c { cs with slots := sl })[k]? = some ck' ∧ ck'.cloned = ck.cloned := by
    intro c cs sl hc
    by_cases hck : c = k
    · subst hck
      rw [hk] at hc; cases hc
      exact ⟨{ ck with slots := sl }, by rw [List.getElem?_set_self hlen], rfl⟩
    · exact ⟨ck, by rw [List.getElem?_set_ne hck]; exact hk, rfl⟩
  cases op with
  | newScript src => exact ⟨ck, hk, rfl⟩
  | add s n g =>
    simp only [hstep]
    split
    · exact ⟨ck, hk, rfl⟩
    · split
      · exact ⟨ck, hk, rfl⟩
      · exact ⟨ck, hk, rfl⟩
  | remove s n =>
    simp only [hstep]
    split
    · exact ⟨ck, hk, rfl⟩
    · split
      · exact ⟨ck, hk, rfl⟩
      · exact ⟨ck, hk, rfl⟩
  | compile s =>
    simp only [hstep]
    split
    · exact ⟨ck, hk, rfl⟩
    · split
      · exact ⟨ck, hk, rfl⟩
      · exact ⟨ck, happ _, rfl⟩
  | set c n g =>
    simp only [hstep]
    split
    · exact ⟨ck, hk, rfl⟩
    · rename_i cs hc
      split
      · exact ⟨ck, hk, rfl⟩
      · split
        · exact hset c cs _ hc
        · exact ⟨ck, hk, rfl⟩
  | run c =>
    simp only [hstep]
    split
    · exact ⟨ck, hk, rfl⟩
    · rename_i cs hc
      exact hset c cs _ hc
  | get c n => simp only [hstep]; split <;> exact ⟨ck, hk, rfl⟩
  | getAll c => simp only [hstep]; split <;> exact ⟨ck, hk, rfl⟩
  | isDefined c n => simp only [hstep]; split <;> exact ⟨ck, hk, rfl⟩
  | clone c =>
    simp only [hstep]
    split
    · exact ⟨ck, hk, rfl⟩
    · exact ⟨ck, happ _, rfl⟩

theorem cloned_ops (L : Limits) : ∀ (ops : List HOp) (h : Host) (k : Nat) (ck : CompiledSt), h.compiled[k]? = some ck →
    ∃ ck', (hstate L h ops).compiled[k]? = some ck' ∧ ck'.cloned = ck.cloned
  | [], _, _, ck, hk => ⟨ck, hk, rfl⟩
  | op :: ops, h, k, ck, hk => by
      obtain ⟨ck1, hk1, e1⟩ := cloned_step L h op k ck hk
      obtain ⟨ck2, hk2, e2⟩ := cloned_ops L ops _ k ck1 hk1
      exact ⟨ck2, hk2, e2.trans e1⟩

/-- A Run through handle `c` (any code, in-place updates included) changes no object held by another handle
`c'` when one of the two was made by Clone, and leaves `c'` itself alone. -/
theorem run_frame (L : Limits) (h : Host) (hw : WF h) (hi : Iso h) (c c' : Nat) (cs cs' : CompiledSt)
    (hc : h.compiled[c]? = some cs) (hc' : h.compiled[c']? = some cs') (hne : c ≠ c')
    (hcl : cs.cloned = true ∨ cs'.cloned = true) :
    (hstep L h (.run c)).1.compiled[c']? = some cs' ∧
    ∀ r, Refs cs'.slots r → deref (hstep L h (.run c)).1.store r = deref h.store r := by
  obtain ⟨_, _, _, h4, _⟩ := exec_sim cs.code h.store cs.slots (hw.compiled cs (mem_of_getElem? hc))
  simp only [hstep, hc]
  refine ⟨by rw [List.getElem?_set_ne hne]; exact hc', ?_⟩
  intro r hr
  apply h4 r ((slotsOK_iff _ _).1 (hw.compiled cs' (mem_of_getElem? hc')) r hr)
  right
  intro hrc
  rcases hcl with hcl | hcl
  · exact hi.comp c c' cs cs' hc hc' hne hcl r hrc hr
  · exact hi.comp c' c cs' cs hc' hc (fun e => hne e.symm) hcl r hr hrc

end Tengo.Proofs.C15Heap

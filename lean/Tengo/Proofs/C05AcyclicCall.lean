import Tengo.Proofs.C05AcyclicBuiltin
/-!
C05 `no_fatal_acyclic`, layer 6: CALL (spread of the last argument, builtin callee), and one dispatch of `VM.exec`.
-/
set_option linter.unusedVariables false
namespace Tengo.Proofs.C05Acyclic
open Tengo.Model.Spec Tengo.Model.VM

/-! ### the stack under `setSlot`/`push`/`pushAll` (spread of the last argument) -/

theorem getSlot_set (r : Regs) (i j : Nat) (v : Value) :
    getSlot { r with stack := r.stack.setIfInBounds i v } j = getSlot r j ∨
    getSlot { r with stack := r.stack.setIfInBounds i v } j = v := by
  unfold getSlot
  simp only [Array.getD_eq_getD_getElem?, Array.getElem?_setIfInBounds]
  by_cases hij : i = j
  · subst hij
    by_cases hb : i < r.stack.size
    · simp [hb]
    · left; simp [hb]
  · simp [hij]

theorem ero_setSlot (g : GSt) (s : St) (r : Regs) (i : Nat) (v : Value) (h : SS r s) (hv : fits s 64 v = true) :
    ERO (setSlot r i v) g s (fun r' => SS r' s) := by
  unfold setSlot
  split
  · refine ero_pure (fun j => ?_)
    rcases getSlot_set r i j v with e | e <;> rw [e]
    · exact h j
    · exact hv
  · exact ero_goPanic _

theorem ero_push (g : GSt) (s : St) (r : Regs) (v : Value) (h : SS r s) (hv : fits s 64 v = true) :
    ERO (push r v) g s (fun r' => SS r' s) := by
  unfold push
  exact ero_bind (ero_setSlot g s r _ v h hv) (fun r' h' => ero_pure (fun j => h' j))

theorem ero_pushAll (g : GSt) (s : St) : ∀ (vs : List Value) (r : Regs), SS r s → (∀ v ∈ vs, fits s 64 v = true) →
    ERO (pushAll r vs) g s (fun r' => SS r' s)
  | [], r, h, _ => by unfold pushAll; exact ero_pure h
  | v :: vs, r, h, hv => by
    unfold pushAll
    exact ero_bind (ero_push g s r v h (hv v (by simp)))
      (fun r' h' => ero_pushAll g s vs r' h' (fun x hx => hv x (by simp [hx])))

theorem ero_spreadArgs (g : GSt) (s : St) (r : Regs) (n sp : Nat) (h : SS r s) :
    ERO (spreadArgs r n sp) g s (fun p => SS p.1 s) := by
  unfold spreadArgs
  split
  · have hkids : ∀ a, (kids s (getSlot r (r.sp - 1)) = some a) → ∀ v ∈ a, fits s 64 v = true := by
      intro a ha v hv
      obtain ⟨ks, hk, hall⟩ := fits_kids (h (r.sp - 1))
      rw [ha] at hk; cases hk
      exact fits_mono s 63 64 v (hall v hv) (by omega)
    split
    · rename_i a heq
      refine ero_bind (ero_lift (RO_arrElems a s)) ?_
      rintro es ⟨h1, _⟩
      refine ero_bind (ero_pushAll g s es _ (fun j => h j) (hkids es (by rw [heq]; exact h1))) (fun r' h' => ero_pure h')
    · rename_i a heq
      refine ero_bind (ero_lift (RO_arrElems a s)) ?_
      rintro es ⟨_, h2⟩
      refine ero_bind (ero_pushAll g s es _ (fun j => h j) (hkids es (by rw [heq]; exact h2))) (fun r' h' => ero_pure h')
    · exact ero_eRt _
  · exact ero_pure h


theorem execCall_XG (code : Code) (f : Fn) (ip : Int) (n sp : Nat) (c : Core) (g : GSt) (s : St) (h : SS c.regs s) :
    XG (execCall code f ip n sp c) g s := by
  unfold execCall
  dsimp only
  refine xg_bind (xro_need _ _ g s) (fun _ _ => ?_)
  split
  · exact xg_of_nf (by nf)
  · refine xg_bind (xro_em (ero_spreadArgs g s _ _ _ h)) (fun p hp => ?_)
    refine xg_bind_nf (xg_em (callBuiltin_EG g s _ _ (ss_slots hp _ _))) (fun _ => ?_)
    nf
  · exact xg_of_nf (nfx_unsupE _)
  · exact xg_of_nf (nfx_rtE _)

/-- **One dispatch of `VM.exec` at a state whose operand stack is shallow never answers `Err.fuel`.** -/
theorem exec_XG (code : Code) (c : Core) (g : GSt) (s : St) (h : SS c.regs s) : XG (exec code c) g s := by
  unfold exec
  split
  · dsimp only
    refine xg_ite (xg_of_nf (nfx_fault _)) ?_
    refine xg_ite (execCall_XG _ _ _ _ _ _ g s h) ?_
    refine xg_ite (xg_of_nf (nfx_execReturn _ _)) ?_
    refine xg_ite (xg_of_nf (nfx_pure _)) ?_
    refine xg_bind_nf (execSimple_XG _ _ _ _ _ _ g s h) (fun _ => nfx_pure _)
  · exact xg_of_nf (nfx_fault _)

end Tengo.Proofs.C05Acyclic

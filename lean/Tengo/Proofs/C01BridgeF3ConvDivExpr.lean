import Tengo.Proofs.C01BridgeF3ConvDivBase
/-!
Fragment F3, DIVERGENCE: the successor step of every expression form except the call (forward counterparts:
`okE_*` of `F3Expr.lean` / `F3Expr2.lean`).
-/
set_option linter.unusedSimpArgs false
set_option linter.unusedVariables false
namespace Tengo.Model.F3
open Tengo.Model.F0 (Sem upd)
variable {V : Type} {E : Env V} {P : Prog} {K : Nat}

/-! ### atoms: never `out` with positive fuel -/

theorem divE_lit (f k : Nat) : DivE E P K (f + 1) (.lit k) := by
  intro g l fn code nl off bp sp stk dis cl hc hnt hat hl hsp h j hj
  simp only [evalE] at h <;> cases h

theorem divE_tru (f : Nat) : DivE E P K (f + 1) .tru := by
  intro g l fn code nl off bp sp stk dis cl hc hnt hat hl hsp h j hj
  simp only [evalE] at h <;> cases h

theorem divE_fls (f : Nat) : DivE E P K (f + 1) .fls := by
  intro g l fn code nl off bp sp stk dis cl hc hnt hat hl hsp h j hj
  simp only [evalE] at h <;> cases h

theorem divE_undef (f : Nat) : DivE E P K (f + 1) .undef := by
  intro g l fn code nl off bp sp stk dis cl hc hnt hat hl hsp h j hj
  simp only [evalE] at h <;> cases h

theorem divE_glob (f i : Nat) : DivE E P K (f + 1) (.glob i) := by
  intro g l fn code nl off bp sp stk dis cl hc hnt hat hl hsp h j hj
  simp only [evalE] at h <;> cases h

theorem divE_loc (f i : Nat) : DivE E P K (f + 1) (.loc i) := by
  intro g l fn code nl off bp sp stk dis cl hc hnt hat hl hsp h j hj
  simp only [evalE] at h
  cases hli : l i with
  | none => rw [hli] at h; cases h
  | some v => rw [hli] at h; cases h

/-! ### helpers -/

/-- Two operands in sequence, followed by the instruction `I`: if the first diverges, or the first has a value and
the second diverges, the start state is alive. -/
theorem div2 {f : Nat} {a b : Ex} (ok : AllOk E P f) (ih : AllDiv E P K f)
    {g : Nat → V} {l : Locals V} {fn : Nat} {code : List Ins} {nl off bp sp : Nat} {stk : Nat → V} {dis : Bool}
    {cl : List Frame} (I : Ins)
    (hc : (compProg P).code fn = some code) (hnt : FrameOk P fn nl)
    (hat : At code off (comp off a ++ comp (off + esize a) b ++ [I])) (hl : LocRel nl l stk bp)
    (hsp : bp + nl ≤ sp) (j : Nat) (hj : j * K + max (hE a) (hE b) ≤ f)
    (h : evalE E P f a g l = .out ∨
      ∃ x g1, evalE E P f a g l = .val x g1 ∧ evalE E P f b g1 l = .out) :
    Alive E (compProg P) j ⟨fn, off, bp, sp, stk, g, dis, cl⟩ := by
  rcases h with ha | ⟨x, g1, ha, hb⟩
  · exact ih.e a g l fn code nl off bp sp stk dis cl hc hnt hat.left.left hl hsp ha j (by omega)
  · have h1 := ok.e a g l fn code nl off bp sp stk dis cl hc hnt hat.left.left hl hsp
    have hB : At code (off + esize a) (comp (off + esize a) b ++ [I]) := by
      have : At code off (comp off a ++ (comp (off + esize a) b ++ [I])) := by simpa using hat
      exact this.right (by rw [csize_comp])
    rw [ha] at h1
    obtain ⟨stk1, hr1, hx, hs1⟩ := h1.normal (tailNext_comp hB)
    dsimp only at hr1 hs1
    exact Alive.of_runs hr1 (ih.e b g1 l fn code nl (off + esize a) bp (sp + 1) stk1 dis cl hc hnt
      (hat.left.right (by rw [csize_comp])) (hl.frame hsp hs1) (by omega) hb j (by omega))

/-- What `div2` needs, from the shape `match a with | val x g1 => match b with | val .. => (not out) | r => r | r => r`
of the evaluator. -/
theorem out2 {f : Nat} {a b : Ex} {g : Nat → V} {l : Locals V} {F : V → V → (Nat → V) → ERes V}
    (hF : ∀ x y g2, F x y g2 ≠ .out)
    (h : (match evalE E P f a g l with
      | .val x g1 =>
        match evalE E P f b g1 l with
        | .val y g2 => F x y g2
        | r => r
      | r => r) = .out) :
    evalE E P f a g l = .out ∨
      ∃ x g1, evalE E P f a g l = .val x g1 ∧ evalE E P f b g1 l = .out := by
  cases ha : evalE E P f a g l with
  | val x g1 =>
    rw [ha] at h
    dsimp only at h
    cases hb : evalE E P f b g1 l with
    | val y g2 => rw [hb] at h; exact absurd h (hF x y g2)
    | err => rw [hb] at h; cases h
    | out => exact Or.inr ⟨x, g1, rfl, hb⟩
    | bad => rw [hb] at h; cases h
  | err => rw [ha] at h; cases h
  | out => exact Or.inl rfl
  | bad => rw [ha] at h; cases h

/-! ### binary operators -/

theorem divE_bin (f tok : Nat) (a b : Ex) (ok : AllOk E P f) (ih : AllDiv E P K f) :
    DivE E P K (f + 1) (.bin tok a b) := by
  intro g l fn code nl off bp sp stk dis cl hc hnt hat hl hsp h j hj
  have hA : At code off (comp off a ++ comp (off + esize a) b ++ [Ins.binop tok]) := by
    simpa [comp] using hat
  simp only [evalE] at h
  simp only [hE] at hj
  refine div2 ok ih _ hc hnt hA hl hsp j (by omega)
    (out2 (F := fun x y g2 => match E.S.binop tok x y with | some v => .val v g2 | none => .err) ?_ h)
  intro x y g2
  cases E.S.binop tok x y <;> intro h' <;> cases h'

theorem divE_eq (f : Nat) (a b : Ex) (ok : AllOk E P f) (ih : AllDiv E P K f) :
    DivE E P K (f + 1) (.eq a b) := by
  intro g l fn code nl off bp sp stk dis cl hc hnt hat hl hsp h j hj
  have hA : At code off (comp off a ++ comp (off + esize a) b ++ [Ins.eql]) := by
    simpa [comp] using hat
  simp only [evalE] at h
  simp only [hE] at hj
  exact div2 ok ih _ hc hnt hA hl hsp j (by omega)
    (out2 (F := fun x y g2 => .val (E.S.ofBool (E.S.eqv x y)) g2) (fun _ _ _ h' => by cases h') h)

theorem divE_ne (f : Nat) (a b : Ex) (ok : AllOk E P f) (ih : AllDiv E P K f) :
    DivE E P K (f + 1) (.ne a b) := by
  intro g l fn code nl off bp sp stk dis cl hc hnt hat hl hsp h j hj
  have hA : At code off (comp off a ++ comp (off + esize a) b ++ [Ins.neq]) := by
    simpa [comp] using hat
  simp only [evalE] at h
  simp only [hE] at hj
  exact div2 ok ih _ hc hnt hA hl hsp j (by omega)
    (out2 (F := fun x y g2 => .val (E.S.ofBool (!E.S.eqv x y)) g2) (fun _ _ _ h' => by cases h') h)

/-! ### unary operators -/

/-- One operand followed by something that cannot be `out`. -/
theorem out1 {f : Nat} {a : Ex} {g : Nat → V} {l : Locals V} {F : V → (Nat → V) → ERes V}
    (hF : ∀ x g1, F x g1 ≠ .out)
    (h : (match evalE E P f a g l with
      | .val x g1 => F x g1
      | r => r) = .out) : evalE E P f a g l = .out := by
  cases ha : evalE E P f a g l with
  | val x g1 => rw [ha] at h; exact absurd h (hF x g1)
  | err => rw [ha] at h; cases h
  | out => rfl
  | bad => rw [ha] at h; cases h

theorem divE_neg (f : Nat) (a : Ex) (ok : AllOk E P f) (ih : AllDiv E P K f) : DivE E P K (f + 1) (.neg a) := by
  intro g l fn code nl off bp sp stk dis cl hc hnt hat hl hsp h j hj
  have hA : At code off (comp off a ++ [Ins.minus]) := by simpa [comp] using hat
  simp only [evalE] at h
  simp only [hE] at hj
  refine ih.e a g l fn code nl off bp sp stk dis cl hc hnt hA.left hl hsp
    (out1 (F := fun x g1 => match E.S.neg x with | some v => .val v g1 | none => .err) ?_ h) j (by omega)
  intro x g1
  cases E.S.neg x <;> intro h' <;> cases h'

theorem divE_bnot (f : Nat) (a : Ex) (ok : AllOk E P f) (ih : AllDiv E P K f) : DivE E P K (f + 1) (.bnot a) := by
  intro g l fn code nl off bp sp stk dis cl hc hnt hat hl hsp h j hj
  have hA : At code off (comp off a ++ [Ins.bcompl]) := by simpa [comp] using hat
  simp only [evalE] at h
  simp only [hE] at hj
  refine ih.e a g l fn code nl off bp sp stk dis cl hc hnt hA.left hl hsp
    (out1 (F := fun x g1 => match E.S.bnot x with | some v => .val v g1 | none => .err) ?_ h) j (by omega)
  intro x g1
  cases E.S.bnot x <;> intro h' <;> cases h'

theorem divE_lnot (f : Nat) (a : Ex) (ok : AllOk E P f) (ih : AllDiv E P K f) : DivE E P K (f + 1) (.lnot a) := by
  intro g l fn code nl off bp sp stk dis cl hc hnt hat hl hsp h j hj
  have hA : At code off (comp off a ++ [Ins.lnot]) := by simpa [comp] using hat
  simp only [evalE] at h
  simp only [hE] at hj
  exact ih.e a g l fn code nl off bp sp stk dis cl hc hnt hA.left hl hsp
    (out1 (F := fun x g1 => .val (E.S.ofBool (E.S.falsy x)) g1) (fun _ _ h' => by cases h') h) j (by omega)

theorem divE_plus (f : Nat) (a : Ex) (ok : AllOk E P f) (ih : AllDiv E P K f) : DivE E P K (f + 1) (.plus a) := by
  intro g l fn code nl off bp sp stk dis cl hc hnt hat hl hsp h j hj
  have hA : At code off (comp off a) := by simpa [comp] using hat
  simp only [evalE] at h
  simp only [hE] at hj
  exact ih.e a g l fn code nl off bp sp stk dis cl hc hnt hA hl hsp h j (by omega)

/-! ### conditional and short-circuit operators -/

theorem divE_cond (f : Nat) (c t e : Ex) (ok : AllOk E P f) (ih : AllDiv E P K f) :
    DivE E P K (f + 1) (.cond c t e) := by
  intro g l fn code nl off bp sp stk dis cl hc hnt hat hl hsp h j hj
  have hA : At code off (comp off c ++ [Ins.jmpf (off + esize c + 5 + esize t + 5)] ++
      comp (off + esize c + 5) t ++ [Ins.jmp (off + esize c + 5 + esize t + 5 + esize e)] ++
      comp (off + esize c + 5 + esize t + 5) e) := by simpa [comp] using hat
  obtain ⟨hfj, h1⟩ := eval1 (g := g) (dis := dis) (cl := cl) (ok.e c) _ hc hnt hA.left.left.left hl hsp
  simp only [evalE] at h
  simp only [hE] at hj
  cases ha : evalE E P f c g l with
  | val x g1 =>
    rw [ha] at h h1
    obtain ⟨stk1, hr, hx, hs⟩ := h1.normal (tailNext_of_fetch hfj rfl)
    dsimp only at hr hs h
    have hst := step_jmpf (E := E) (bp := bp) (g := g1) (dis := dis) (cl := cl) hc hfj (stk := stk1) (sp := sp)
    rw [hx] at hst
    have hl1 := hl.frame hsp hs
    by_cases hfa : E.S.falsy x = true
    · simp only [hfa, if_true] at hst h
      exact Alive.of_runs hr (Alive.step_runs hst (ih.e e g1 l fn code nl _ bp sp stk1 dis cl hc hnt
        (hA.right (by simp [csize_append, csize_comp, csize, Ins.size] <;> omega)) hl1 hsp h j (by omega)))
    · simp only [hfa, Bool.false_eq_true, if_false] at hst h
      exact Alive.of_runs hr (Alive.step_runs hst (ih.e t g1 l fn code nl _ bp sp stk1 dis cl hc hnt
        (hA.left.left.right (by simp [csize_append, csize_comp, csize, Ins.size] <;> omega)) hl1 hsp h j
        (by omega)))
  | err => rw [ha] at h; cases h
  | out => exact ih.e c g l fn code nl off bp sp stk dis cl hc hnt hA.left.left.left.left hl hsp ha j (by omega)
  | bad => rw [ha] at h; cases h

theorem divE_land (f : Nat) (a b : Ex) (ok : AllOk E P f) (ih : AllDiv E P K f) :
    DivE E P K (f + 1) (.land a b) := by
  intro g l fn code nl off bp sp stk dis cl hc hnt hat hl hsp h j hj
  have hA : At code off (comp off a ++ [Ins.andjmp (off + esize a + 5 + esize b)] ++
      comp (off + esize a + 5) b) := by simpa [comp] using hat
  obtain ⟨hfj, h1⟩ := eval1 (g := g) (dis := dis) (cl := cl) (ok.e a) _ hc hnt hA.left hl hsp
  simp only [evalE] at h
  simp only [hE] at hj
  cases ha : evalE E P f a g l with
  | val x g1 =>
    rw [ha] at h h1
    obtain ⟨stk1, hr, hx, hs⟩ := h1.normal (tailNext_of_fetch hfj rfl)
    dsimp only at hr hs h
    have hst := step_andjmp (E := E) (bp := bp) (g := g1) (dis := dis) (cl := cl) hc hfj (stk := stk1) (sp := sp)
    rw [hx] at hst
    by_cases hfa : E.S.falsy x = true
    · simp only [hfa, if_true] at h
      cases h
    · simp only [hfa, Bool.false_eq_true, if_false] at hst h
      exact Alive.of_runs hr (Alive.step_runs hst (ih.e b g1 l fn code nl _ bp sp stk1 dis cl hc hnt
        (hA.right (by simp [csize_append, csize_comp, csize, Ins.size] <;> omega)) (hl.frame hsp hs) hsp h j
        (by omega)))
  | err => rw [ha] at h; cases h
  | out => exact ih.e a g l fn code nl off bp sp stk dis cl hc hnt hA.left.left hl hsp ha j (by omega)
  | bad => rw [ha] at h; cases h

theorem divE_lor (f : Nat) (a b : Ex) (ok : AllOk E P f) (ih : AllDiv E P K f) :
    DivE E P K (f + 1) (.lor a b) := by
  intro g l fn code nl off bp sp stk dis cl hc hnt hat hl hsp h j hj
  have hA : At code off (comp off a ++ [Ins.orjmp (off + esize a + 5 + esize b)] ++
      comp (off + esize a + 5) b) := by simpa [comp] using hat
  obtain ⟨hfj, h1⟩ := eval1 (g := g) (dis := dis) (cl := cl) (ok.e a) _ hc hnt hA.left hl hsp
  simp only [evalE] at h
  simp only [hE] at hj
  cases ha : evalE E P f a g l with
  | val x g1 =>
    rw [ha] at h h1
    obtain ⟨stk1, hr, hx, hs⟩ := h1.normal (tailNext_of_fetch hfj rfl)
    dsimp only at hr hs h
    have hst := step_orjmp (E := E) (bp := bp) (g := g1) (dis := dis) (cl := cl) hc hfj (stk := stk1) (sp := sp)
    rw [hx] at hst
    by_cases hfa : E.S.falsy x = true
    · simp only [hfa, if_true] at hst h
      exact Alive.of_runs hr (Alive.step_runs hst (ih.e b g1 l fn code nl _ bp sp stk1 dis cl hc hnt
        (hA.right (by simp [csize_append, csize_comp, csize, Ins.size] <;> omega)) (hl.frame hsp hs) hsp h j
        (by omega)))
    · simp only [hfa, Bool.false_eq_true, if_false] at h
      cases h
  | err => rw [ha] at h; cases h
  | out => exact ih.e a g l fn code nl off bp sp stk dis cl hc hnt hA.left.left hl hsp ha j (by omega)
  | bad => rw [ha] at h; cases h

end Tengo.Model.F3

import Tengo.Proofs.C02CompileProg
import Tengo.Proofs.C02CompileFobjs
import Tengo.Proofs.VMSafe
/-!
C02 / `compile_verifies`, final layer part 3: the compiled program as the driver runs it
(`VM.initFobjs (toCode bc)`): tables restricted to the function constants some instruction refers to,
for which `checkProgram` AND `initOk` hold — so that the safety theorem of the whole-VM model applies
without any residual hypothesis.
-/
set_option linter.unusedVariables false
set_option linter.unusedSimpArgs false
namespace Tengo.Proofs.C02Compile
open Tengo.Model Tengo.Model.Opcodes Tengo.Model.Compiler Tengo.Model.Optimizer Tengo.Model.Verifier
open Tengo.Model.VM
open Tengo.Model.Spec (Expr Stmt)
open Tengo.Proofs.C03 Tengo.Proofs.C03Reloc

/-- every instruction of the final (optimized) code of a function constant satisfies the operand
requirement -/
theorem fn_final_req {bc : Bytecode'} {F : List Nat} (hcok : ConstsOK bc.consts F bc.maxGlobals)
    (hclen : bc.consts.length ≤ 65536) (hgle : bc.maxGlobals ≤ 65536)
    {k : Nat} {code : Tengo.Model.Bytes} {nl np : Nat} {va : Bool}
    (hk : bc.consts[k]? = some (Compiler.Const.fn code nl np va))
    {is : List Instr} (hd : decode code = some is) :
    ∀ y ∈ is, opReq bc.consts F ⟨nl, F.getD k 0, bc.maxGlobals, true⟩ y := by
  obtain ⟨n, hFk, Lb, H, r, hlay, hshape, hopt, hcode, hcore, hops, hnl, hn, hsz⟩ := hcok k code nl np va hk
  have hFn : F.getD k 0 = n := by rw [List.getD_eq_getElem?_getD, hFk]; rfl
  rw [hFn]
  have hbnd : Bnd bc.consts ⟨nl, n, bc.maxGlobals, true⟩ := ⟨hclen, hnl, by show n ≤ 256; omega, hgle⟩
  have hdec : decode (encode Lb) = some Lb := core_decode hcore hshape hops hbnd (by omega)
  have hlen : (encode Lb).length = totalSize Lb := encode_length hshape
  have hcore' : Core 0 (encode Lb).length 0 0 H Lb NoT := by rw [hlen]; exact hcore
  obtain ⟨H', hd', _, _, _, _, horigin, _, _⟩ := opt_transfer hdec (by rw [hlen]; omega) hopt hcore'
  rw [hcode, hd'] at hd
  injection hd with hd; subst hd
  intro y hy
  rcases horigin y hy with ⟨x, hx, hop, hargs⟩ | ⟨hop, hargs⟩
  · have hrx := hops x hx
    by_cases hj : isJump x.op = true
    · exact opReq_jump (by rw [hop]; exact hj)
    · have hargs' := hargs (by simpa using hj)
      unfold opReq at hrx ⊢
      simp only [arg0, arg1, hop, hargs'] at hrx ⊢
      exact hrx
  · obtain ⟨pos, op, args⟩ := y
    simp only at hop hargs; subst hop; subst hargs
    unfold opReq
    have hc : opClass (Instr.mk pos opReturn [0]).op = .ret := rfl
    simp only [hc, arg0, List.headD_cons]
    exact ⟨trivial, by omega⟩

/-- … and of the main function (whose last instruction is SUSPEND) -/
theorem main_final_req {bc : Bytecode'} {F : List Nat} {B : List Instr} {H : Nat → Nat}
    (hmain : bc.main = encode B ++ [UInt8.ofNat opSuspend])
    (hshape : ∀ i ∈ B, Shape i)
    (hops : ∀ i ∈ B, opReq bc.consts F ⟨0, 0, bc.maxGlobals, false⟩ i)
    (hcore : Core 0 (totalSize B) 0 0 H B NoT) (hsz : totalSize B < 2 ^ 30)
    (hclen : bc.consts.length ≤ 65536) (hgle : bc.maxGlobals ≤ 65536)
    {is : List Instr} (hd : decode bc.main = some is) :
    ∀ y ∈ is, y.op = opSuspend ∨ opReq bc.consts F ⟨0, 0, bc.maxGlobals, false⟩ y := by
  have hbnd : Bnd bc.consts ⟨0, 0, bc.maxGlobals, false⟩ := ⟨hclen, by simp, by simp, hgle⟩
  have hwf : WFCode B := core_wf hcore hshape hops hbnd (by omega)
  have hdec := main_decode hcore.lay hwf
  rw [hmain, hdec] at hd
  injection hd with hd; subst hd
  intro y hy
  rcases List.mem_append.mp hy with hm | hm
  · exact Or.inr (hops y hm)
  · simp only [List.mem_singleton] at hm; subst hm
    exact Or.inl rfl

/-! ### the function constants some instruction refers to -/

/-- `bytes` is the code of the main function or of a function constant of `bc` -/
def IsFnOf (bc : Bytecode') (bytes : Tengo.Model.Bytes) : Prop :=
  bytes = bc.main ∨ ∃ (j : Nat) (nl np : Nat) (va : Bool), bc.consts[j]? = some (Compiler.Const.fn bytes nl np va)

/-- constant `k` is the operand of a CONST / CLOSURE instruction of some function of the program -/
def Refd (bc : Bytecode') (k : Nat) : Prop :=
  ∃ bytes, IsFnOf bc bytes ∧ ∃ is, decode bytes = some is ∧
    ∃ y ∈ is, (y.op = opConstant ∨ y.op = opClosure) ∧ arg0 y = k

open Classical in
/-- the capture table restricted to the referenced function constants -/
noncomputable def numFreeR (bc : Bytecode') (F : List Nat) : List (Nat × Nat) :=
  (numFreeOf bc.consts F).filter (fun p => decide (Refd bc p.1))

theorem mem_numFreeR {bc : Bytecode'} {F : List Nat} {k n : Nat} :
    (k, n) ∈ numFreeR bc F ↔ (k, n) ∈ numFreeOf bc.consts F ∧ Refd bc k := by
  unfold numFreeR
  simp [List.mem_filter]

theorem numFreeR_lookup {bc : Bytecode'} {F : List Nat} {k : Nat} {c : Compiler.Const}
    (hc : bc.consts[k]? = some c) (hf : isFnC c = true) (hr : Refd bc k) :
    (numFreeR bc F).lookup k = some (F.getD k 0) :=
  lookup_of_functional (mem_numFreeR.mpr ⟨mem_numFreeOf.mpr ⟨c, hc, hf, rfl⟩, hr⟩) (fun b' hb' => by
    obtain ⟨_, _, _, e⟩ := mem_numFreeOf.mp (mem_numFreeR.mp hb').1
    exact e)

theorem lookup_mem' {l : List (Nat × Nat)} {a b : Nat} (h : l.lookup a = some b) : (a, b) ∈ l := by
  induction l with
  | nil => simp [List.lookup] at h
  | cons p l ih =>
    obtain ⟨a', b'⟩ := p
    simp only [List.lookup] at h
    split at h
    · rename_i he
      have : a = a' := by simpa using he
      subst this
      injection h with h; subst h
      exact List.mem_cons_self
    · exact List.mem_cons_of_mem _ (ih h)

theorem numFreeR_lookup_some {bc : Bytecode'} {F : List Nat} {k n : Nat}
    (h : (numFreeR bc F).lookup k = some n) :
    Refd bc k ∧ n = F.getD k 0 ∧ ∃ c, bc.consts[k]? = some c ∧ isFnC c = true := by
  obtain ⟨h1, h2⟩ := mem_numFreeR.mp (lookup_mem' h)
  obtain ⟨c, hc, hf, e⟩ := mem_numFreeOf.mp h1
  exact ⟨h2, e, c, hc, hf⟩

theorem numFreeR_lookup_none {bc : Bytecode'} {F : List Nat} {k : Nat} (hr : ¬ Refd bc k) :
    (numFreeR bc F).lookup k = none := by
  cases h : (numFreeR bc F).lookup k with
  | none => rfl
  | some n => exact absurd (numFreeR_lookup_some h).1 hr

theorem refOK_R {bc : Bytecode'} {F : List Nat} {bytes : Tengo.Model.Bytes} (hb : IsFnOf bc bytes) :
    RefOK (numFreeR bc F) bc.consts F bytes := by
  intro is hd y hy ho c hc hf
  exact numFreeR_lookup hc hf ⟨bytes, hb, is, hd, y, hy, ho, rfl⟩

/-! ### the program as the driver runs it -/

theorem setRef_toVMConst (r r0 : Nat) (c : Compiler.Const) : setRef r (toVMConst r0 c) = toVMConst r c := by
  cases c <;> rfl

/-- `initFobjs` only re-labels the function constants of `toCode bc` -/
theorem initFobjs_toCode (bc : Bytecode') : ∃ refs : Nat → Nat, (initFobjs (toCode bc)).1 = toCodeR refs bc := by
  obtain ⟨hm, refs, hc⟩ := initFobjs_code (toCode bc)
  refine ⟨refs, ?_⟩
  generalize hcode : (initFobjs (toCode bc)).1 = code' at hm hc
  obtain ⟨m, cs⟩ := code'
  simp only at hm hc
  have hcs : cs = (toCodeR refs bc).consts := by
    apply Array.ext_getElem?
    intro k
    rw [hc k, toCode_const, toCode, toCode_const]
    cases bc.consts[k]? with
    | none => rfl
    | some c => simp [setRef_toVMConst]
  subst hcs; subst hm
  rfl

/-- the bytes of a function of `toCodeR refs bc` -/
theorem fn_bytes {refs : Nat → Nat} {bc : Bytecode'} {idx : Nat} {f : Fn} (h : (toCodeR refs bc).fn idx = some f) :
    IsFnOf bc f.insts.toList := by
  unfold Code.fn at h
  split at h
  · injection h with h; subst h
    left; simp [toCodeR]
  · rw [toCode_const] at h
    cases hc : bc.consts[idx - 1]? with
    | none => simp [hc] at h
    | some c =>
      cases c with
      | fn code nl np va =>
        simp only [hc, Option.map_some, toVMConst, Option.some.injEq] at h
        subst h
        right
        exact ⟨idx - 1, nl, np, va, by simpa using hc⟩
      | _ => simp [hc, toVMConst] at h

theorem checkFn_decode {code : VM.Code} {t : ProgTabs} {G : Nat} {ft : FnTab} (h : checkFn code t G ft = true) :
    ∃ f, code.fn ft.idx = some f ∧ decode f.insts.toList = some ft.is := by
  unfold checkFn at h
  split at h
  · cases h
  · rename_i f hf
    simp only [Bool.and_eq_true, beq_iff_eq] at h
    exact ⟨f, hf, h.1.1.1.1.1⟩

/-- what the CONST / CLOSURE instructions of every function of the program satisfy -/
def ReqAll (bc : Bytecode') (F : List Nat) : Prop :=
  ∀ bytes, IsFnOf bc bytes → ∀ is, decode bytes = some is → ∀ y ∈ is,
    (y.op = opConstant → ∀ c, bc.consts[arg0 y]? = some c → isFnC c = true → F[arg0 y]? = some 0) ∧
    (y.op = opClosure → F[arg0 y]? = some (arg1 y) ∧ 1 ≤ arg1 y)

theorem opReq_const_closure {cs : List Compiler.Const} {F : List Nat} {env : Env} {y : Instr}
    (h : opReq cs F env y) :
    (y.op = opConstant → ∀ c, cs[arg0 y]? = some c → isFnC c = true → F[arg0 y]? = some 0) ∧
    (y.op = opClosure → F[arg0 y]? = some (arg1 y) ∧ 1 ≤ arg1 y) := by
  unfold opReq at h
  constructor
  · intro ho c hc hf
    have hcl : opClass y.op = .const := by rw [ho]; rfl
    simp only [hcl] at h
    obtain ⟨c', hc', h2⟩ := h
    rw [hc] at hc'; injection hc' with hc'; subst hc'
    exact h2 hf
  · intro ho
    have hcl : opClass y.op = .closure := by rw [ho]; rfl
    simp only [hcl] at h
    obtain ⟨c', _, _, h3, _, h5⟩ := h
    exact ⟨h3, h5⟩

/-- **Tables for the program with its function constants re-labelled**: `checkProgram` holds for tables
whose capture table lists exactly the referenced function constants. -/
theorem compile_tabs {ss : List Stmt} {inputs : List String} {bc : Bytecode'}
    (h : compileFile ss inputs = .ok bc) (hsz : szSs fuel ss < 2 ^ 30)
    (hclen : bc.consts.length ≤ 65536) (hgle : bc.maxGlobals ≤ 65536) (refs : Nat → Nat) :
    ∃ (F : List Nat) (t : ProgTabs), t.numFree = numFreeR bc F ∧
      checkProgram (toCodeR refs bc) bc.maxGlobals t = true ∧ ReqAll bc F := by
  obtain ⟨s, B, F, H, t', hmain, hcs, htab, hG, hinv, hcore, hszB⟩ := compile_run h hsz
  have hwfc := hinv.wfc
  rw [htab] at hwfc
  have hblock : t'.block = false := hwfc
  have henv : envOf s.tables = ⟨0, 0, bc.maxGlobals, false⟩ := by
    rw [htab, hG]
    simp [envOf, locMax, freeCnt, rootMax, globalCtx, hblock]
  have hops : ∀ i ∈ B, opReq bc.consts F ⟨0, 0, bc.maxGlobals, false⟩ i := by
    intro i hi
    have := hinv.ops i hi
    rw [henv, ← hcs] at this
    exact this
  have hcok : ConstsOK bc.consts F bc.maxGlobals := by
    have := hinv.cok
    rw [htab, ← hcs] at this
    rw [hG]; exact this
  have hreq : ReqAll bc F := by
    intro bytes hb is hd y hy
    rcases hb with rfl | ⟨j, nl, np, va, hj⟩
    · rcases main_final_req hmain hinv.em.shape hops hcore hszB hclen hgle hd y hy with hs | hr
      · refine ⟨fun ho => ?_, fun ho => ?_⟩
        · rw [hs] at ho; exact absurd ho (by decide)
        · rw [hs] at ho; exact absurd ho (by decide)
      · exact opReq_const_closure hr
    · exact opReq_const_closure (fn_final_req hcok hclen hgle hj hd y hy)
  obtain ⟨mt, hmidx, hmchk⟩ := main_tab refs hmain hinv.em.shape hops hcore hszB hclen hgle (numFreeR bc F)
    (refOK_R (Or.inl rfl))
  obtain ⟨fns, hf1, hf2, hf3⟩ := tabs_exist refs hcok hclen hgle (numFreeR bc F) (Refd bc)
    (fun k code nl np va hk hr => ⟨numFreeR_lookup hk rfl hr, refOK_R (Or.inr ⟨k, nl, np, va, hk⟩)⟩)
    bc.consts.length
  refine ⟨F, ⟨mt :: fns, numFreeR bc F⟩, rfl, ?_, hreq⟩
  have hall : ∀ ft ∈ mt :: fns, checkFn (toCodeR refs bc) ⟨mt :: fns, numFreeR bc F⟩ bc.maxGlobals ft = true := by
    intro ft hft
    rcases List.mem_cons.mp hft with rfl | hm
    · exact hmchk _
    · exact hf1 ft hm _
  unfold checkProgram
  simp only [Bool.and_eq_true]
  refine ⟨⟨⟨⟨?_, ?_⟩, ?_⟩, ?_⟩, ?_⟩
  · rw [List.all_eq_true]; exact hall
  · exact tab_isSome ⟨mt, List.mem_cons_self, hmidx⟩
  · rfl
  · rw [List.all_eq_true]
    intro k hk
    rw [toCode_const]
    cases hc : bc.consts[k]? with
    | none => rfl
    | some c =>
      cases c with
      | fn code nl np va =>
        simp only [Option.map_some, toVMConst, Bool.or_eq_true, Bool.and_eq_true, Bool.not_eq_true']
        by_cases hr : Refd bc k
        · right
          obtain ⟨ft, hm, hi⟩ := hf2 k (get?_lt hc) hr _ hc rfl
          exact tab_isSome ⟨ft, List.mem_cons_of_mem _ hm, hi⟩
        · left
          refine ⟨?_, by rw [numFreeR_lookup_none hr]; rfl⟩
          -- no tabulated function refers to `k`
          cases hcon : (referenced ⟨mt :: fns, numFreeR bc F⟩).contains k with
          | false => rfl
          | true =>
            exfalso
            apply hr
            have hmem : k ∈ referenced ⟨mt :: fns, numFreeR bc F⟩ := by simpa using hcon
            unfold referenced at hmem
            simp only [List.mem_flatMap, List.mem_filterMap] at hmem
            obtain ⟨ft, hft, i, hi, hik⟩ := hmem
            obtain ⟨f, hfn, hdec⟩ := checkFn_decode (hall ft hft)
            split at hik
            · rename_i hop
              injection hik with hik
              refine ⟨f.insts.toList, fn_bytes hfn, ft.is, hdec, i, hi, ?_, hik⟩
              simp only [Bool.or_eq_true, beq_iff_eq] at hop
              rcases hop with e | e
              · exact Or.inr e
              · exact Or.inl e
            · cases hik
      | _ => rfl
  · rw [List.all_eq_true]
    intro p hp
    obtain ⟨k, n⟩ := p
    obtain ⟨c, hc, hf, _⟩ := mem_numFreeOf.mp (mem_numFreeR.mp hp).1
    simp only [toCode_const, hc, Option.map_some]
    cases c with
    | fn code nl np va => rfl
    | _ => cases hf

/-! ### the initial function objects agree with the tables -/

theorem fnOf_code {bc : Bytecode'} {g : Fn}
    (hg : g = (toCode bc).main ∨ ∃ (j : Nat) (r : Nat), (toCode bc).consts[j]? = some (VM.Const.fn g r)) :
    IsFnOf bc g.insts.toList := by
  rcases hg with rfl | ⟨j, r, hj⟩
  · exact fn_bytes (refs := fun _ => 0) (idx := 0) rfl
  · refine fn_bytes (refs := fun _ => 0) (idx := j + 1) ?_
    show (toCode bc).fn (j + 1) = some g
    unfold Code.fn
    simp [hj]

/-- a function of the program, as a `Fn` of `toCode bc` with the given bytes -/
theorem code_of_fnOf {bc : Bytecode'} {bytes : Tengo.Model.Bytes} (hb : IsFnOf bc bytes) :
    ∃ g : Fn, (g = (toCode bc).main ∨ ∃ (j : Nat) (r : Nat), (toCode bc).consts[j]? = some (VM.Const.fn g r)) ∧
      g.insts.toList = bytes := by
  rcases hb with rfl | ⟨j, nl, np, va, hj⟩
  · exact ⟨(toCode bc).main, Or.inl rfl, by simp [toCode, toCodeR]⟩
  · refine ⟨{ insts := bytes.toArray, numLocals := nl, numParams := np, varargs := va }, Or.inr ⟨j, 0, ?_⟩, by simp⟩
    show (toCodeR (fun _ => 0) bc).consts[j]? = _
    rw [toCode_const, hj]; rfl

theorem initOk_run {bc : Bytecode'} {F : List Nat} {t : ProgTabs} (ht : t.numFree = numFreeR bc F)
    (hreq : ReqAll bc F) :
    initOk (initFobjs (toCode bc)).1 t (initFobjs (toCode bc)).2 = true := by
  unfold initOk
  simp only [Bool.and_eq_true]
  constructor
  · rw [List.all_eq_true]
    intro p hp
    obtain ⟨hp2, hl, f, r, hfr⟩ := initFobjs_objs (toCode bc) p hp
    have hmem : p.1 ∈ constLoaded (toCode bc) := by simpa using hl
    obtain ⟨g, hg, is, hdec, i, hi, hop, ha0, f', r', hfr'⟩ := (mem_constLoaded (toCode bc) p.1).mp hmem
    have hb := fnOf_code hg
    have hd : decode g.insts.toList = some is := hdec
    have hc : (toCodeR (fun _ => 0) bc).consts[p.1]? = some (VM.Const.fn f r) := hfr
    rw [toCode_const] at hc
    cases hbc : bc.consts[p.1]? with
    | none => simp [hbc] at hc
    | some c =>
      simp only [hbc, Option.map_some, Option.some.injEq] at hc
      have hfn := toVMConst_fn hc
      have ha : arg0 i = p.1 := ha0
      have h0 := (hreq _ hb is hd i hi).1 hop c (by rw [ha]; exact hbc) hfn
      rw [ha] at h0
      have hlk := numFreeR_lookup (F := F) hbc hfn ⟨_, hb, is, hd, i, hi, Or.inl hop, ha⟩
      obtain ⟨k, free⟩ := p
      simp only at hp2 hlk h0 ⊢
      subst hp2
      rw [ht, hlk, List.getD_eq_getElem?_getD, h0]
      rfl
  · rw [List.all_eq_true]
    intro k hk
    cases hck : (initFobjs (toCode bc)).1.consts[k]? with
    | none => rfl
    | some c =>
      cases c with
      | val v => rfl
      | fn f ref =>
        simp only [Bool.or_eq_true, bne_iff_ne, ne_eq, beq_iff_eq]
        by_cases hz : t.numFree.lookup k = some 0
        · right
          rw [ht] at hz
          obtain ⟨hr, hF0, c, hc, hf⟩ := numFreeR_lookup_some hz
          obtain ⟨bytes, hb, is, hd, y, hy, ho, hyk⟩ := hr
          have hq := hreq bytes hb is hd y hy
          rcases ho with ho | ho
          · obtain ⟨g, hg, hgb⟩ := code_of_fnOf hb
            have hl : (constLoaded (toCode bc)).contains k = true := by
              have : k ∈ constLoaded (toCode bc) := by
                refine (mem_constLoaded (toCode bc) k).mpr ⟨g, hg, is, ?_, y, hy, ho, hyk, ?_⟩
                · show decode g.insts.toList = some is
                  rw [hgb]; exact hd
                · cases c with
                  | fn code nl np va =>
                    exact ⟨_, 0, by show (toCodeR (fun _ => 0) bc).consts[k]? = _; rw [toCode_const, hc]; rfl⟩
                  | _ => cases hf
              simpa using this
            exact initFobjs_ref (toCode bc) k f ref hck hl
          · exfalso
            obtain ⟨h3, h5⟩ := hq.2 ho
            rw [hyk] at h3
            rw [List.getD_eq_getElem?_getD, h3] at hF0
            simp only [Option.getD_some] at hF0
            omega
        · left; exact hz

/-- **Everything the safety theorem of the whole-VM model needs, for the compiled program as the driver
runs it**: tables for which `checkProgram` and `initOk` hold. -/
theorem compile_run_ready {ss : List Stmt} {inputs : List String} {bc : Bytecode'}
    (h : compileFile ss inputs = .ok bc) (hsz : szSs fuel ss < 2 ^ 30)
    (hclen : bc.consts.length ≤ 65536) (hgle : bc.maxGlobals ≤ 65536) :
    ∃ t : ProgTabs, checkProgram (initFobjs (toCode bc)).1 bc.maxGlobals t = true ∧
      initOk (initFobjs (toCode bc)).1 t (initFobjs (toCode bc)).2 = true := by
  obtain ⟨refs, he⟩ := initFobjs_toCode bc
  obtain ⟨F, t, ht, hck, hreq⟩ := compile_tabs h hsz hclen hgle refs
  exact ⟨t, by rw [he]; exact hck, initOk_run ht hreq⟩

end Tengo.Proofs.C02Compile

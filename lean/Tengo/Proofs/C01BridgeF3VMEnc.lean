import Tengo.Model.F3
import Tengo.Proofs.C01BridgeVMOps
/-!
C01 bridge for fragment F3, VM side, layer 0: the byte encoding of `F3.Ins` (`encI3`, `encodeIns3`), its
length (`= F3.csize`), from the fragment's `F3.fetch` to a split of the instruction list (`fetch_split3`,
`fetch_append3`), and what `VM.fetch` decodes from the bytes of an instruction inside ANY byte array
(`fetch_enc3`, `fetchedOf3`); the opcode byte that follows an instruction (`firstOp`), which is what the
tail-call test of the VM looks at (`tailNext_bytes`, `nextIsPop_bytes`).
-/
set_option linter.unusedVariables false
set_option linter.unusedSimpArgs false
namespace Tengo.Proofs.C01BridgeF3
open Tengo.Model Tengo.Model.Spec Tengo.Model.VM Tengo.Proofs.C01Bridge

/-! ### encoding -/

/-- The bytes of one instruction of F3 (parser/opcodes.go): the 17 instructions of F0 as `encI`, GETL / SETL /
DEFL with one 1-byte operand, `CALL n` with the operands `n` and the spread flag 0, `RET` with 0 / 1. -/
def encI3 : F3.Ins → List UInt8
  | .const k => 0 :: be2 k
  | .getg i => 22 :: be2 i
  | .setg i => 23 :: be2 i
  | .binop t => [40, UInt8.ofNat (t % 256)]
  | .eql => [5] | .neq => [6] | .minus => [7] | .bcompl => [1] | .lnot => [8]
  | .tru => [3] | .fls => [4] | .null => [13] | .pop => [2]
  | .jmpf t => 9 :: be4 t
  | .jmp t => 12 :: be4 t
  | .andjmp t => 10 :: be4 t
  | .orjmp t => 11 :: be4 t
  | .getl i => [25, UInt8.ofNat (i % 256)]
  | .setl i => [26, UInt8.ofNat (i % 256)]
  | .defl i => [27, UInt8.ofNat (i % 256)]
  | .call n => [20, UInt8.ofNat (n % 256), 0]
  | .ret b => [21, if b then 1 else 0]

def encodeIns3 (is : List F3.Ins) : List UInt8 := is.flatMap encI3

@[simp] theorem encodeIns3_nil : encodeIns3 [] = [] := rfl

theorem encodeIns3_cons (i : F3.Ins) (is : List F3.Ins) : encodeIns3 (i :: is) = encI3 i ++ encodeIns3 is := by
  simp [encodeIns3]

theorem encodeIns3_append (a b : List F3.Ins) : encodeIns3 (a ++ b) = encodeIns3 a ++ encodeIns3 b := by
  simp [encodeIns3]

theorem encI3_length (i : F3.Ins) : (encI3 i).length = i.size := by
  cases i <;> simp [encI3, F3.Ins.size, be2, be4]

theorem encodeIns3_length (is : List F3.Ins) : (encodeIns3 is).length = F3.csize is := by
  induction is with
  | nil => rfl
  | cons i is ih => rw [encodeIns3_cons, List.length_append, encI3_length, ih]; rfl

theorem size_pos3 (i : F3.Ins) : 0 < i.size := by cases i <;> simp [F3.Ins.size]

theorem csize3_append (a b : List F3.Ins) : F3.csize (a ++ b) = F3.csize a + F3.csize b := by
  induction a with
  | nil => simp [F3.csize]
  | cons i is ih => simp [F3.csize, ih, Nat.add_assoc]

/-! ### from the fragment's `fetch` to a split of the instruction list -/

theorem fetch_split3 : ∀ (is : List F3.Ins) (p : Nat) (i : F3.Ins), F3.fetch is p = some i →
    ∃ pre post, is = pre ++ i :: post ∧ F3.csize pre = p
  | [], p, i, h => by simp [F3.fetch] at h
  | x :: xs, 0, i, h => by
    simp only [F3.fetch, Option.some.injEq] at h
    subst h
    exact ⟨[], xs, rfl, rfl⟩
  | x :: xs, p + 1, i, h => by
    simp only [F3.fetch] at h
    split at h
    · rename_i hge
      obtain ⟨pre, post, he, hc⟩ := fetch_split3 xs _ i h
      refine ⟨x :: pre, post, by rw [he]; rfl, ?_⟩
      simp only [F3.csize, hc]
      omega
    · cases h

/-- Fetching behind a prefix of whole instructions is fetching in the rest. -/
theorem fetch_append3 : ∀ (pre post : List F3.Ins) (q : Nat),
    F3.fetch (pre ++ post) (F3.csize pre + q) = F3.fetch post q
  | [], post, q => by simp [F3.csize]
  | x :: xs, post, q => by
    have hx := size_pos3 x
    obtain ⟨m, hm⟩ : ∃ m, F3.csize (x :: xs) + q = m + 1 := ⟨x.size + F3.csize xs + q - 1, by
      simp only [F3.csize]; omega⟩
    rw [hm]
    simp only [F3.csize] at hm
    simp only [List.cons_append, F3.fetch]
    rw [if_pos (by omega)]
    have : m + 1 - x.size = F3.csize xs + q := by omega
    rw [this]
    exact fetch_append3 xs post q

theorem fetch_head3 (i : F3.Ins) (post : List F3.Ins) : F3.fetch (i :: post) 0 = some i := rfl

/-! ### what `VM.fetch` decodes -/

/-- What `VM.fetch` decodes from the bytes of an instruction of F3. -/
def fetchedOf3 : F3.Ins → Fetched
  | .const k => { op := 0, a0 := k, size := 3 }
  | .getg i => { op := 22, a0 := i, size := 3 }
  | .setg i => { op := 23, a0 := i, size := 3 }
  | .binop t => { op := 40, a0 := t, size := 2 }
  | .eql => { op := 5 } | .neq => { op := 6 } | .minus => { op := 7 } | .bcompl => { op := 1 }
  | .lnot => { op := 8 } | .tru => { op := 3 } | .fls => { op := 4 } | .null => { op := 13 } | .pop => { op := 2 }
  | .jmpf t => { op := 9, a0 := t, size := 5 }
  | .jmp t => { op := 12, a0 := t, size := 5 }
  | .andjmp t => { op := 10, a0 := t, size := 5 }
  | .orjmp t => { op := 11, a0 := t, size := 5 }
  | .getl i => { op := 25, a0 := i, size := 2 }
  | .setl i => { op := 26, a0 := i, size := 2 }
  | .defl i => { op := 27, a0 := i, size := 2 }
  | .call n => { op := 20, a0 := n, a1 := 0, size := 3 }
  | .ret b => { op := 21, a0 := if b then 1 else 0, size := 2 }

/-- The operands fit their encoded width. -/
def InsFits3 : F3.Ins → Prop
  | .const k | .getg k | .setg k => k < 65536
  | .binop t => t < 256
  | .jmpf t | .jmp t | .andjmp t | .orjmp t => t < 4294967296
  | .getl i | .setl i | .defl i => i < 256
  | .call n => n < 256
  | _ => True

theorem fetchedOf3_size (i : F3.Ins) : (fetchedOf3 i).size = i.size := by cases i <;> rfl

theorem fetch_enc3 (f : Fn) (pre post : List UInt8) (i : F3.Ins) (hfit : InsFits3 i)
    (hf : f.insts = (pre ++ encI3 i ++ post).toArray) : VM.fetch f (pre.length : Int) = fetchedOf3 i := by
  have b0 := byteAt0 f pre (encI3 i) post hf
  have b1 := byteAt1 f pre (encI3 i) post hf
  have b2 := byteAt2 f pre (encI3 i) post hf
  have b3 := byteAt3 f pre (encI3 i) post hf
  have b4 := byteAt4 f pre (encI3 i) post hf
  cases i <;> simp only [encI3, be2, be4, InsFits3] at * <;>
    simp only [VM.fetch, op16, op32, b0 _ rfl, shape, fetchedOf3] <;>
    (try simp only [b1 _ rfl]) <;> (try simp only [b2 _ rfl]) <;> (try simp only [b3 _ rfl, b4 _ rfl]) <;>
    (try (rename_i b; cases b)) <;>
    simp [UInt8.toNat_ofNat'] <;> omega

/-- The instruction at offset `csize pre` of ANY byte array that holds the encoding of `pre ++ i :: post`
followed by arbitrary bytes `tl`: inside the array, and decoded as `fetchedOf3 i`. -/
theorem fetch_at3 (f : Fn) (pre post : List F3.Ins) (i : F3.Ins) (tl : List UInt8) (hfit : InsFits3 i)
    (hf : f.insts = (encodeIns3 (pre ++ i :: post) ++ tl).toArray) :
    F3.csize pre < f.insts.size ∧ VM.fetch f ((F3.csize pre : Nat) : Int) = fetchedOf3 i := by
  have hbytes : f.insts = (encodeIns3 pre ++ encI3 i ++ (encodeIns3 post ++ tl)).toArray := by
    rw [hf, encodeIns3_append, encodeIns3_cons]
    simp only [List.append_assoc]
  have hlen : (encodeIns3 pre).length = F3.csize pre := encodeIns3_length pre
  constructor
  · rw [hbytes]
    have := encI3_length i
    have := size_pos3 i
    simp only [List.size_toArray, List.length_append]
    omega
  · have := fetch_enc3 f (encodeIns3 pre) (encodeIns3 post ++ tl) i hfit hbytes
    rw [hlen] at this
    exact this

/-! ### the bytes behind an instruction -/

/-- Byte `j` of a byte list as the VM reads it (`byteAt`: 0 outside). -/
def firstOp (bs : List UInt8) (j : Nat) : Nat := ((bs[j]?).getD 0).toNat

theorem byteAt_off (f : Fn) (pre rest : List UInt8) (hf : f.insts = (pre ++ rest).toArray) (j : Nat) :
    byteAt f ((pre.length : Int) + (j : Int)) = firstOp rest j := by
  unfold byteAt firstOp
  have hnn : ¬ ((pre.length : Int) + (j : Int) < 0) := by omega
  rw [if_neg hnn]
  have : ((pre.length : Int) + (j : Int)).toNat = pre.length + j := by omega
  rw [this, hf]
  simp only [Array.getD_eq_getD_getElem?, List.getElem?_toArray]
  rw [List.getElem?_append_right (by omega)]
  simp only [Nat.add_sub_cancel_left]

theorem firstOp_head (i : F3.Ins) (rest : List UInt8) : firstOp (encI3 i ++ rest) 0 = (fetchedOf3 i).op := by
  cases i <;> simp [firstOp, encI3, be2, be4, fetchedOf3]

theorem firstOp_pop_succ (rest : List UInt8) : firstOp (encI3 .pop ++ rest) 1 = firstOp rest 0 := by
  simp [firstOp, encI3]

theorem op_ret_iff (i : F3.Ins) : (fetchedOf3 i).op = 21 ↔ ∃ b, i = .ret b := by
  cases i <;> simp [fetchedOf3]

theorem op_pop_iff (i : F3.Ins) : (fetchedOf3 i).op = 2 ↔ i = .pop := by
  cases i <;> simp [fetchedOf3]

/-- The byte tails of the VM's functions: nothing (a function constant) or SUSPEND (main). -/
def TailOK (tl : List UInt8) : Prop := tl = [] ∨ tl = [UInt8.ofNat Opcodes.opSuspend]

theorem firstOp_tail0 (tl : List UInt8) (h : TailOK tl) : firstOp tl 0 ≠ 21 ∧ firstOp tl 0 ≠ 2 := by
  rcases h with h | h <;> subst h <;> simp [firstOp, Opcodes.opSuspend]

/-- `isRet bs` = the byte list starts with the RET opcode. -/
theorem firstOp_ret (post : List F3.Ins) (tl : List UInt8) (h : TailOK tl) :
    (firstOp (encodeIns3 post ++ tl) 0 == 21) =
      (match F3.fetch post 0 with
       | some (.ret _) => true
       | _ => false) := by
  cases post with
  | nil => simp [F3.fetch, (firstOp_tail0 tl h).1]
  | cons i post =>
    rw [encodeIns3_cons, List.append_assoc, firstOp_head, fetch_head3]
    cases i <;> simp [fetchedOf3]

theorem firstOp_pop (post : List F3.Ins) (tl : List UInt8) (h : TailOK tl) :
    (firstOp (encodeIns3 post ++ tl) 0 == 2) =
      (match F3.fetch post 0 with
       | some .pop => true
       | _ => false) := by
  cases post with
  | nil => simp [F3.fetch, (firstOp_tail0 tl h).2]
  | cons i post =>
    rw [encodeIns3_cons, List.append_assoc, firstOp_head, fetch_head3]
    cases i <;> simp [fetchedOf3]

theorem fetch_pop_succ (post : List F3.Ins) (q : Nat) : F3.fetch (F3.Ins.pop :: post) (q + 1) = F3.fetch post q := by
  simp [F3.fetch, F3.Ins.size]

/-- The VM's byte test "RET, or POP directly followed by RET" is the fragment's `tailNext`. -/
theorem tailNext_bytes (pre post : List F3.Ins) (i : F3.Ins) (tl : List UInt8) (h : TailOK tl) :
    F3.tailNext (pre ++ i :: post) (F3.csize pre + i.size) =
      (firstOp (encodeIns3 post ++ tl) 0 == 21 ||
        (firstOp (encodeIns3 post ++ tl) 0 == 2 && firstOp (encodeIns3 post ++ tl) 1 == 21)) := by
  have e0 : F3.fetch (pre ++ i :: post) (F3.csize pre + i.size) = F3.fetch post 0 := by
    have := fetch_append3 (pre ++ [i]) post 0
    simp only [List.append_assoc, List.singleton_append, csize3_append, F3.csize, Nat.add_zero] at this
    exact this
  have e1 : F3.fetch (pre ++ i :: post) (F3.csize pre + i.size + 1) = F3.fetch post 1 := by
    have := fetch_append3 (pre ++ [i]) post 1
    simp only [List.append_assoc, List.singleton_append, csize3_append, F3.csize, Nat.add_zero] at this
    exact this
  unfold F3.tailNext
  rw [e0, e1, firstOp_ret post tl h, firstOp_pop post tl h]
  cases post with
  | nil => simp [F3.fetch]
  | cons j post =>
    rw [fetch_head3]
    cases j <;> simp
    -- `pop`: look one byte further
    rw [encodeIns3_cons, List.append_assoc, firstOp_pop_succ, fetch_pop_succ]
    have := firstOp_ret post tl h
    cases hf : F3.fetch post 0 with
    | none => rw [hf] at this; simpa using this
    | some k =>
      rw [hf] at this
      cases k <;> simpa using this

theorem nextIsPop_bytes (pre post : List F3.Ins) (i : F3.Ins) (tl : List UInt8) (h : TailOK tl) :
    F3.nextIsPop (pre ++ i :: post) (F3.csize pre + i.size) = (firstOp (encodeIns3 post ++ tl) 0 == 2) := by
  have e0 : F3.fetch (pre ++ i :: post) (F3.csize pre + i.size) = F3.fetch post 0 := by
    have := fetch_append3 (pre ++ [i]) post 0
    simp only [List.append_assoc, List.singleton_append, csize3_append, F3.csize, Nat.add_zero] at this
    exact this
  unfold F3.nextIsPop
  rw [e0, firstOp_pop post tl h]
  cases hf : F3.fetch post 0 with
  | none => rfl
  | some k => cases k <;> rfl

end Tengo.Proofs.C01BridgeF3

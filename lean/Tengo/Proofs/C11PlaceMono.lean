import Tengo.Model.F3
/-!
Fuel monotonicity of the fuel-indexed reference evaluator of fragment F3 (`evalE` / `evalEs` / `callFn` /
`execS` / `execSs` / `exec`): a result other than `out` (fuel exhausted) is the result for every larger fuel.
-/
set_option linter.unusedVariables false
set_option linter.unusedSimpArgs false
namespace Tengo.Proofs.C11Place
open Tengo.Model Tengo.Model.F3
variable {V : Type}

structure AllMono (E : Env V) (P : Prog) (f : Nat) : Prop where
  e  : ∀ (e : Ex) (g : Nat → V) (l : Locals V) (r : ERes V), evalE E P f e g l = r → r ≠ .out →
    evalE E P (f + 1) e g l = r
  es : ∀ (es : Exs) (g : Nat → V) (l : Locals V) (r : EsRes V), evalEs E P f es g l = r → r ≠ .out →
    evalEs E P (f + 1) es g l = r
  call : ∀ (fv : V) (vs : List V) (g : Nat → V) (r : ERes V), callFn E P f fv vs g = r → r ≠ .out →
    callFn E P (f + 1) fv vs g = r
  s  : ∀ (s : Stm) (g : Nat → V) (l : Locals V) (r : Res V), execS E P f s g l = r → r ≠ .out →
    execS E P (f + 1) s g l = r
  ss : ∀ (ss : Stms) (g : Nat → V) (l : Locals V) (r : Res V), execSs E P f ss g l = r → r ≠ .out →
    execSs E P (f + 1) ss g l = r

/-! ### the matches of the evaluator, with explicit continuations -/

/-- `ERes → ERes`, `| .val x g1 => … | r => r`. -/
theorem bindE_mono {r r' : ERes V} (hr : r ≠ .out → r' = r) {k k' : V → (Nat → V) → ERes V}
    (hk : ∀ x g1, k x g1 ≠ .out → k' x g1 = k x g1)
    (h : (match (generalizing := false) r with | .val x g1 => k x g1 | r => r) ≠ .out) :
    (match (generalizing := false) r' with | .val x g1 => k' x g1 | r => r) = (match (generalizing := false) r with | .val x g1 => k x g1 | r => r) := by
  cases r with
  | out => exact absurd rfl h
  | val x g1 => rw [hr (by intro hh; cases hh)]; exact hk x g1 h
  | err => rw [hr (by intro hh; cases hh)]
  | bad => rw [hr (by intro hh; cases hh)]

/-- `ERes → Res`, `| .val x g1 => … | r => r.toRes`. -/
theorem bindS_mono {r r' : ERes V} (hr : r ≠ .out → r' = r) {k k' : V → (Nat → V) → Res V}
    (hk : ∀ x g1, k x g1 ≠ .out → k' x g1 = k x g1)
    (h : (match (generalizing := false) r with | .val x g1 => k x g1 | r => r.toRes) ≠ .out) :
    (match (generalizing := false) r' with | .val x g1 => k' x g1 | r => r.toRes)
      = (match (generalizing := false) r with | .val x g1 => k x g1 | r => r.toRes) := by
  cases r with
  | out => exact absurd rfl h
  | val x g1 => rw [hr (by intro hh; cases hh)]; exact hk x g1 h
  | err => rw [hr (by intro hh; cases hh)]
  | bad => rw [hr (by intro hh; cases hh)]

/-- `EsRes → ERes`, all four alternatives explicit (the call). -/
theorem bindArgs_mono {r r' : EsRes V} (hr : r ≠ .out → r' = r) {k k' : List V → (Nat → V) → ERes V}
    (hk : ∀ vs g2, k vs g2 ≠ .out → k' vs g2 = k vs g2)
    (h : (match (generalizing := false) r with | .vals vs g2 => k vs g2 | .err => .err | .out => .out | .bad => .bad) ≠ .out) :
    (match (generalizing := false) r' with | .vals vs g2 => k' vs g2 | .err => .err | .out => .out | .bad => .bad)
      = (match (generalizing := false) r with | .vals vs g2 => k vs g2 | .err => .err | .out => .out | .bad => .bad) := by
  cases r with
  | out => exact absurd rfl h
  | vals vs g2 => rw [hr (by intro hh; cases hh)]; exact hk vs g2 h
  | err => rw [hr (by intro hh; cases hh)]
  | bad => rw [hr (by intro hh; cases hh)]

/-- `ERes → EsRes`, all four alternatives explicit (head of an argument list). -/
theorem bindHead_mono {r r' : ERes V} (hr : r ≠ .out → r' = r) {k k' : V → (Nat → V) → EsRes V}
    (hk : ∀ x g1, k x g1 ≠ .out → k' x g1 = k x g1)
    (h : (match (generalizing := false) r with | .val x g1 => k x g1 | .err => .err | .out => .out | .bad => .bad) ≠ .out) :
    (match (generalizing := false) r' with | .val x g1 => k' x g1 | .err => .err | .out => .out | .bad => .bad)
      = (match (generalizing := false) r with | .val x g1 => k x g1 | .err => .err | .out => .out | .bad => .bad) := by
  cases r with
  | out => exact absurd rfl h
  | val x g1 => rw [hr (by intro hh; cases hh)]; exact hk x g1 h
  | err => rw [hr (by intro hh; cases hh)]
  | bad => rw [hr (by intro hh; cases hh)]

/-- `EsRes → EsRes`, `| .vals vs g2 => … | r => r` (tail of an argument list). -/
theorem bindTail_mono {r r' : EsRes V} (hr : r ≠ .out → r' = r) {k : List V → (Nat → V) → EsRes V}
    (h : (match (generalizing := false) r with | .vals vs g2 => k vs g2 | r => r) ≠ .out) :
    (match (generalizing := false) r' with | .vals vs g2 => k vs g2 | r => r) = (match (generalizing := false) r with | .vals vs g2 => k vs g2 | r => r) := by
  cases r with
  | out => exact absurd rfl h
  | vals vs g2 => rw [hr (by intro hh; cases hh)]
  | err => rw [hr (by intro hh; cases hh)]
  | bad => rw [hr (by intro hh; cases hh)]

/-- `Res → Res`, `| .done g1 l1 => … | r => r` (statement lists, the post statement of `for`). -/
theorem bindDone_mono {r r' : Res V} (hr : r ≠ .out → r' = r) {k k' : (Nat → V) → Locals V → Res V}
    (hk : ∀ g1 l1, k g1 l1 ≠ .out → k' g1 l1 = k g1 l1)
    (h : (match (generalizing := false) r with | .done g1 l1 => k g1 l1 | r => r) ≠ .out) :
    (match (generalizing := false) r' with | .done g1 l1 => k' g1 l1 | r => r) = (match (generalizing := false) r with | .done g1 l1 => k g1 l1 | r => r) := by
  cases r with
  | out => exact absurd rfl h
  | done g1 l1 => rw [hr (by intro hh; cases hh)]; exact hk g1 l1 h
  | brk g1 l1 => rw [hr (by intro hh; cases hh)]
  | cont g1 l1 => rw [hr (by intro hh; cases hh)]
  | ret v g1 => rw [hr (by intro hh; cases hh)]
  | err => rw [hr (by intro hh; cases hh)]
  | bad => rw [hr (by intro hh; cases hh)]

/-- `Res → Res`, the loop bodies: `| .done … | .cont … | .brk g2 l2 => .done g2 l2 | r => r`. -/
theorem bindLoop_mono {r r' : Res V} (hr : r ≠ .out → r' = r) {k1 k1' k2 k2' : (Nat → V) → Locals V → Res V}
    (hk1 : ∀ g1 l1, k1 g1 l1 ≠ .out → k1' g1 l1 = k1 g1 l1)
    (hk2 : ∀ g1 l1, k2 g1 l1 ≠ .out → k2' g1 l1 = k2 g1 l1)
    (h : (match (generalizing := false) r with
      | .done g2 l2 => k1 g2 l2 | .cont g2 l2 => k2 g2 l2 | .brk g2 l2 => .done g2 l2 | r => r) ≠ .out) :
    (match (generalizing := false) r' with
      | .done g2 l2 => k1' g2 l2 | .cont g2 l2 => k2' g2 l2 | .brk g2 l2 => .done g2 l2 | r => r)
    = (match (generalizing := false) r with
      | .done g2 l2 => k1 g2 l2 | .cont g2 l2 => k2 g2 l2 | .brk g2 l2 => .done g2 l2 | r => r) := by
  cases r with
  | out => exact absurd rfl h
  | done g1 l1 => rw [hr (by intro hh; cases hh)]; exact hk1 g1 l1 h
  | cont g1 l1 => rw [hr (by intro hh; cases hh)]; exact hk2 g1 l1 h
  | brk g1 l1 => rw [hr (by intro hh; cases hh)]
  | ret v g1 => rw [hr (by intro hh; cases hh)]
  | err => rw [hr (by intro hh; cases hh)]
  | bad => rw [hr (by intro hh; cases hh)]

/-- `Res → ERes`, the result of a function body. -/
theorem bindBody_mono (u : V) {r r' : Res V} (hr : r ≠ .out → r' = r)
    (h : (match (generalizing := false) r with
      | .done g' _ => ERes.val u g' | .ret v g' => .val v g' | .brk _ _ => .bad | .cont _ _ => .bad
      | .err => .err | .out => .out | .bad => .bad) ≠ .out) :
    (match (generalizing := false) r' with
      | .done g' _ => ERes.val u g' | .ret v g' => .val v g' | .brk _ _ => .bad | .cont _ _ => .bad
      | .err => .err | .out => .out | .bad => .bad)
    = (match (generalizing := false) r with
      | .done g' _ => ERes.val u g' | .ret v g' => .val v g' | .brk _ _ => .bad | .cont _ _ => .bad
      | .err => .err | .out => .out | .bad => .bad) := by
  cases r with
  | out => exact absurd rfl h
  | done g1 l1 => rw [hr (by intro hh; cases hh)]
  | cont g1 l1 => rw [hr (by intro hh; cases hh)]
  | brk g1 l1 => rw [hr (by intro hh; cases hh)]
  | ret v g1 => rw [hr (by intro hh; cases hh)]
  | err => rw [hr (by intro hh; cases hh)]
  | bad => rw [hr (by intro hh; cases hh)]

section step
variable {E : Env V} {P : Prog}

theorem monoE_succ {f : Nat} (ih : AllMono E P f) (e : Ex) (g : Nat → V) (l : Locals V)
    (h : evalE E P (f + 1) e g l ≠ .out) : evalE E P (f + 1 + 1) e g l = evalE E P (f + 1) e g l := by
  cases e with
  | lit k => simp only [evalE]
  | tru => simp only [evalE]
  | fls => simp only [evalE]
  | undef => simp only [evalE]
  | glob i => simp only [evalE]
  | loc i => simp only [evalE]
  | bin tok a b =>
    simp only [evalE] at h ⊢
    exact bindE_mono (ih.e a g l _ rfl) (fun x g1 hh => bindE_mono (ih.e b g1 l _ rfl) (fun _ _ _ => rfl) hh) h
  | eq a b =>
    simp only [evalE] at h ⊢
    exact bindE_mono (ih.e a g l _ rfl) (fun x g1 hh => bindE_mono (ih.e b g1 l _ rfl) (fun _ _ _ => rfl) hh) h
  | ne a b =>
    simp only [evalE] at h ⊢
    exact bindE_mono (ih.e a g l _ rfl) (fun x g1 hh => bindE_mono (ih.e b g1 l _ rfl) (fun _ _ _ => rfl) hh) h
  | neg a =>
    simp only [evalE] at h ⊢
    exact bindE_mono (ih.e a g l _ rfl) (fun _ _ _ => rfl) h
  | bnot a =>
    simp only [evalE] at h ⊢
    exact bindE_mono (ih.e a g l _ rfl) (fun _ _ _ => rfl) h
  | lnot a =>
    simp only [evalE] at h ⊢
    exact bindE_mono (ih.e a g l _ rfl) (fun _ _ _ => rfl) h
  | plus a =>
    simp only [evalE] at h ⊢
    exact ih.e a g l _ rfl h
  | cond c t e =>
    simp only [evalE] at h ⊢
    refine bindE_mono (ih.e c g l _ rfl) (fun x g1 hh => ?_) h
    by_cases hfa : E.S.falsy x = true
    · simp only [hfa, if_true] at hh ⊢; exact ih.e e g1 l _ rfl hh
    · simp only [hfa, Bool.false_eq_true, if_false] at hh ⊢; exact ih.e t g1 l _ rfl hh
  | land a b =>
    simp only [evalE] at h ⊢
    refine bindE_mono (ih.e a g l _ rfl) (fun x g1 hh => ?_) h
    by_cases hfa : E.S.falsy x = true
    · simp only [hfa, if_true] at hh ⊢
    · simp only [hfa, Bool.false_eq_true, if_false] at hh ⊢; exact ih.e b g1 l _ rfl hh
  | lor a b =>
    simp only [evalE] at h ⊢
    refine bindE_mono (ih.e a g l _ rfl) (fun x g1 hh => ?_) h
    by_cases hfa : E.S.falsy x = true
    · simp only [hfa, if_true] at hh ⊢; exact ih.e b g1 l _ rfl hh
    · simp only [hfa, Bool.false_eq_true, if_false] at hh ⊢
  | call fe args =>
    simp only [evalE] at h ⊢
    exact bindE_mono (ih.e fe g l _ rfl)
      (fun fv g1 hh => bindArgs_mono (ih.es args g1 l _ rfl) (fun vs g2 hh2 => ih.call fv vs g2 _ rfl hh2) hh) h

theorem monoEs_succ {f : Nat} (ih : AllMono E P f) (es : Exs) (g : Nat → V) (l : Locals V)
    (h : evalEs E P (f + 1) es g l ≠ .out) : evalEs E P (f + 1 + 1) es g l = evalEs E P (f + 1) es g l := by
  cases es with
  | nil => simp only [evalEs]
  | cons e es =>
    simp only [evalEs] at h ⊢
    exact bindHead_mono (ih.e e g l _ rfl) (fun v g1 hh => bindTail_mono (ih.es es g1 l _ rfl) hh) h

theorem monoCall_succ {f : Nat} (ih : AllMono E P f) (fv : V) (vs : List V) (g : Nat → V)
    (h : callFn E P (f + 1) fv vs g ≠ .out) : callFn E P (f + 1 + 1) fv vs g = callFn E P (f + 1) fv vs g := by
  simp only [callFn] at h ⊢
  cases hfn : E.asFn fv with
  | none => rfl
  | some k =>
    simp only [hfn] at h ⊢
    cases hfd : P.fns k with
    | none => rfl
    | some fd =>
      simp only [hfd] at h ⊢
      by_cases hlen : vs.length ≠ fd.nparams
      · rw [if_pos hlen, if_pos hlen]
      · rw [if_neg hlen] at h
        rw [if_neg hlen, if_neg hlen]
        exact bindBody_mono E.S.undef (ih.ss fd.body g (bindArgs vs) _ rfl) h

theorem monoS_succ {f : Nat} (ih : AllMono E P f) (s : Stm) (g : Nat → V) (l : Locals V)
    (h : execS E P (f + 1) s g l ≠ .out) : execS E P (f + 1 + 1) s g l = execS E P (f + 1) s g l := by
  cases s with
  | expr e =>
    simp only [execS] at h ⊢
    exact bindS_mono (ih.e e g l _ rfl) (fun _ _ _ => rfl) h
  | assign i e =>
    simp only [execS] at h ⊢
    exact bindS_mono (ih.e e g l _ rfl) (fun _ _ _ => rfl) h
  | defl i e =>
    simp only [execS] at h ⊢
    exact bindS_mono (ih.e e g l _ rfl) (fun _ _ _ => rfl) h
  | setl i e =>
    simp only [execS] at h ⊢
    exact bindS_mono (ih.e e g l _ rfl) (fun _ _ _ => rfl) h
  | ret e =>
    simp only [execS] at h ⊢
    exact bindS_mono (ih.e e g l _ rfl) (fun _ _ _ => rfl) h
  | ret0 => simp only [execS]
  | brk => simp only [execS]
  | cont => simp only [execS]
  | ifs c body =>
    simp only [execS] at h ⊢
    refine bindS_mono (ih.e c g l _ rfl) (fun x g1 hh => ?_) h
    by_cases hfa : E.S.falsy x = true
    · simp only [hfa, if_true] at hh ⊢
    · simp only [hfa, Bool.false_eq_true, if_false] at hh ⊢; exact ih.ss body g1 l _ rfl hh
  | ifelse c body els =>
    simp only [execS] at h ⊢
    refine bindS_mono (ih.e c g l _ rfl) (fun x g1 hh => ?_) h
    by_cases hfa : E.S.falsy x = true
    · simp only [hfa, if_true] at hh ⊢; exact ih.ss els g1 l _ rfl hh
    · simp only [hfa, Bool.false_eq_true, if_false] at hh ⊢; exact ih.ss body g1 l _ rfl hh
  | whil c body =>
    simp only [execS] at h ⊢
    refine bindS_mono (ih.e c g l _ rfl) (fun x g1 hh => ?_) h
    by_cases hfa : E.S.falsy x = true
    · simp only [hfa, if_true] at hh ⊢
    · simp only [hfa, Bool.false_eq_true, if_false] at hh ⊢
      exact bindLoop_mono (ih.ss body g1 l _ rfl) (fun g2 l2 hh2 => ih.s _ g2 l2 _ rfl hh2)
        (fun g2 l2 hh2 => ih.s _ g2 l2 _ rfl hh2) hh
  | forever body =>
    simp only [execS] at h ⊢
    exact bindLoop_mono (ih.ss body g l _ rfl) (fun g2 l2 hh2 => ih.s _ g2 l2 _ rfl hh2)
      (fun g2 l2 hh2 => ih.s _ g2 l2 _ rfl hh2) h
  | for3 c body post =>
    simp only [execS] at h ⊢
    refine bindS_mono (ih.e c g l _ rfl) (fun x g1 hh => ?_) h
    by_cases hfa : E.S.falsy x = true
    · simp only [hfa, if_true] at hh ⊢
    · simp only [hfa, Bool.false_eq_true, if_false] at hh ⊢
      exact bindLoop_mono (ih.ss body g1 l _ rfl)
        (fun g2 l2 hh2 => bindDone_mono (ih.s post g2 l2 _ rfl) (fun g3 l3 hh3 => ih.s _ g3 l3 _ rfl hh3) hh2)
        (fun g2 l2 hh2 => bindDone_mono (ih.s post g2 l2 _ rfl) (fun g3 l3 hh3 => ih.s _ g3 l3 _ rfl hh3) hh2)
        hh

theorem monoSs_succ {f : Nat} (ih : AllMono E P f) (ss : Stms) (g : Nat → V) (l : Locals V)
    (h : execSs E P (f + 1) ss g l ≠ .out) : execSs E P (f + 1 + 1) ss g l = execSs E P (f + 1) ss g l := by
  cases ss with
  | nil => simp only [execSs]
  | cons s ss =>
    simp only [execSs] at h ⊢
    exact bindDone_mono (ih.s s g l _ rfl) (fun g1 l1 hh => ih.ss ss g1 l1 _ rfl hh) h

end step

/-- Fuel monotonicity, one more unit of fuel, all five evaluators. -/
theorem all_mono (E : Env V) (P : Prog) : ∀ f, AllMono E P f
  | 0 =>
    { e := fun e g l r h hr => by simp only [evalE] at h; exact absurd h.symm hr
      es := fun es g l r h hr => by simp only [evalEs] at h; exact absurd h.symm hr
      call := fun fv vs g r h hr => by simp only [callFn] at h; exact absurd h.symm hr
      s := fun s g l r h hr => by simp only [execS] at h; exact absurd h.symm hr
      ss := fun ss g l r h hr => by simp only [execSs] at h; exact absurd h.symm hr }
  | f + 1 =>
    have ih := all_mono E P f
    { e := fun e g l r h hr => by subst h; exact monoE_succ ih e g l hr
      es := fun es g l r h hr => by subst h; exact monoEs_succ ih es g l hr
      call := fun fv vs g r h hr => by subst h; exact monoCall_succ ih fv vs g hr
      s := fun s g l r h hr => by subst h; exact monoS_succ ih s g l hr
      ss := fun ss g l r h hr => by subst h; exact monoSs_succ ih ss g l hr }

theorem execSs_mono (E : Env V) (P : Prog) {f f' : Nat} (h : f ≤ f') {ss : Stms} {g : Nat → V} {l : Locals V}
    {r : Res V} : execSs E P f ss g l = r → r ≠ .out → execSs E P f' ss g l = r := by
  intro h1 hr
  induction h with
  | refl => exact h1
  | step _ ih => exact (all_mono E P _).ss ss g l r ih hr

theorem execS_mono (E : Env V) (P : Prog) {f f' : Nat} (h : f ≤ f') {s : Stm} {g : Nat → V} {l : Locals V}
    {r : Res V} : execS E P f s g l = r → r ≠ .out → execS E P f' s g l = r := by
  intro h1 hr
  induction h with
  | refl => exact h1
  | step _ ih => exact (all_mono E P _).s s g l r ih hr

theorem evalE_mono (E : Env V) (P : Prog) {f f' : Nat} (h : f ≤ f') {e : Ex} {g : Nat → V} {l : Locals V}
    {r : ERes V} : evalE E P f e g l = r → r ≠ .out → evalE E P f' e g l = r := by
  intro h1 hr
  induction h with
  | refl => exact h1
  | step _ ih => exact (all_mono E P _).e e g l r ih hr

theorem evalEs_mono (E : Env V) (P : Prog) {f f' : Nat} (h : f ≤ f') {es : Exs} {g : Nat → V} {l : Locals V}
    {r : EsRes V} : evalEs E P f es g l = r → r ≠ .out → evalEs E P f' es g l = r := by
  intro h1 hr
  induction h with
  | refl => exact h1
  | step _ ih => exact (all_mono E P _).es es g l r ih hr

theorem callFn_mono (E : Env V) (P : Prog) {f f' : Nat} (h : f ≤ f') {fv : V} {vs : List V} {g : Nat → V}
    {r : ERes V} : callFn E P f fv vs g = r → r ≠ .out → callFn E P f' fv vs g = r := by
  intro h1 hr
  induction h with
  | refl => exact h1
  | step _ ih => exact (all_mono E P _).call fv vs g r ih hr

theorem exec_mono (E : Env V) (P : Prog) {f f' : Nat} (h : f ≤ f') {g : Nat → V} {r : PRes V} :
    exec E P f g = r → r ≠ .out → exec E P f' g = r := by
  intro h1 hr
  subst h1
  have hne : execSs E P f P.main g (fun _ => none) ≠ .out := by
    intro hx
    apply hr
    simp only [exec, hx]
  have := execSs_mono E P h rfl hne
  simp only [exec, this]

end Tengo.Proofs.C11Place

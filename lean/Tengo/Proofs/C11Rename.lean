import Tengo.Model.Compiler
/-!
C11, rename invariance of the compiler model `Tengo.Model.Compiler.compileFile`.
-/
set_option linter.unusedSectionVars false
set_option linter.unusedSimpArgs false
set_option linter.unusedVariables false
namespace Tengo.Proofs.C11Rename
open Tengo.Model Tengo.Model.Compiler Tengo.Model.Opcodes
open Tengo.Model.Spec (Expr Stmt)

/-! ## 1. Renaming a program -/

mutual
  def renameExpr (ρ : String → String) : Expr → Expr
    | .ident n => .ident (ρ n)
    | .int v => .int v
    | .float b => .float b
    | .char v => .char v
    | .str b => .str b
    | .bool b => .bool b
    | .undef => .undef
    | .bin tok l r => .bin tok (renameExpr ρ l) (renameExpr ρ r)
    | .un tok e => .un tok (renameExpr ρ e)
    | .cond c t f => .cond (renameExpr ρ c) (renameExpr ρ t) (renameExpr ρ f)
    | .paren e => .paren (renameExpr ρ e)
    | .arr es => .arr (renameExprs ρ es)
    | .map kvs => .map (renameKVs ρ kvs)
    | .sel e s => .sel (renameExpr ρ e) (renameExpr ρ s)
    | .idx e i => .idx (renameExpr ρ e) (renameExpr ρ i)
    | .slice e lo hi => .slice (renameExpr ρ e) (renameOptExpr ρ lo) (renameOptExpr ρ hi)
    | .call ell f args => .call ell (renameExpr ρ f) (renameExprs ρ args)
    | .func va ps body => .func va (ps.map ρ) (renameStmts ρ body)
    | .imp n => .imp n
    | .error e => .error (renameExpr ρ e)
    | .immutable e => .immutable (renameExpr ρ e)
    | .bad => .bad
  def renameOptExpr (ρ : String → String) : Option Expr → Option Expr
    | none => none
    | some e => some (renameExpr ρ e)
  def renameExprs (ρ : String → String) : List Expr → List Expr
    | [] => []
    | e :: es => renameExpr ρ e :: renameExprs ρ es
  def renameKVs (ρ : String → String) : List (Spec.Bytes × Expr) → List (Spec.Bytes × Expr)
    | [] => []
    | (k, v) :: rest => (k, renameExpr ρ v) :: renameKVs ρ rest
  def renameStmt (ρ : String → String) : Stmt → Stmt
    | .expr e => .expr (renameExpr ρ e)
    | .assign tok lhs rhs => .assign tok (renameExprs ρ lhs) (renameExprs ρ rhs)
    | .incdec tok e => .incdec tok (renameExpr ρ e)
    | .ifs ini c body els => .ifs (renameOptStmt ρ ini) (renameExpr ρ c) (renameStmts ρ body) (renameOptStmt ρ els)
    | .fors ini c post body =>
        .fors (renameOptStmt ρ ini) (renameOptExpr ρ c) (renameOptStmt ρ post) (renameStmts ρ body)
    | .forin k v it body => .forin (ρ k) (ρ v) (renameExpr ρ it) (renameStmts ρ body)
    | .block ss => .block (renameStmts ρ ss)
    | .branch tok => .branch tok
    | .ret e => .ret (renameOptExpr ρ e)
    | .export e => .export (renameExpr ρ e)
    | .empty => .empty
    | .bad => .bad
  def renameOptStmt (ρ : String → String) : Option Stmt → Option Stmt
    | none => none
    | some s => some (renameStmt ρ s)
  def renameStmts (ρ : String → String) : List Stmt → List Stmt
    | [] => []
    | s :: ss => renameStmt ρ s :: renameStmts ρ ss
end


theorem renameExprs_eq_map (ρ : String → String) (es : List Expr) : renameExprs ρ es = es.map (renameExpr ρ) := by
  induction es with
  | nil => simp [renameExprs]
  | cons e es ih => simp [renameExprs, ih]

theorem renameExprs_length (ρ : String → String) (es : List Expr) : (renameExprs ρ es).length = es.length := by
  simp [renameExprs_eq_map]

theorem renameKVs_length (ρ : String → String) (kvs : List (Spec.Bytes × Expr)) : (renameKVs ρ kvs).length = kvs.length := by
  induction kvs with
  | nil => simp [renameKVs]
  | cons e es ih => obtain ⟨k, v⟩ := e; simp [renameKVs, ih]

/-! ## 2. The hypothesis on the renaming -/

/-- What the theorem needs of `ρ`: it is injective and leaves alone the names the compiler itself uses
(the builtin function names, the hidden iterator symbol `:it` of for-in, the blank identifier `_`, and the
empty name `resolveAssignLHS` answers for a target that is not a variable). -/
structure Renaming (ρ : String → String) : Prop where
  inj : ∀ a b, ρ a = ρ b → a = b
  builtin : ∀ n, n ∈ Spec.builtinNames → ρ n = n
  hidden : ρ ":it" = ":it"
  blank : ρ "_" = "_"
  empty : ρ "" = ""

/-! ## 3. Renaming the compiler state -/

def renSym (ρ : String → String) (s : Sym) : Sym := { s with name := ρ s.name }
def renEntry (ρ : String → String) (p : String × Sym) : String × Sym := (ρ p.1, renSym ρ p.2)
def renTable (ρ : String → String) (t : Table) : Table :=
  { t with store := t.store.map (renEntry ρ), freeSymbols := t.freeSymbols.map (renSym ρ) }
def renChain (ρ : String → String) (c : Chain) : Chain := c.map (renTable ρ)
def renState (ρ : String → String) (s : CState) : CState := { s with tables := renChain ρ s.tables }

section
variable (ρ : String → String)

@[simp] theorem renSym_scope (s : Sym) : (renSym ρ s).scope = s.scope := rfl
@[simp] theorem renSym_index (s : Sym) : (renSym ρ s).index = s.index := rfl
@[simp] theorem renSym_id (s : Sym) : (renSym ρ s).id = s.id := rfl
@[simp] theorem renSym_name (s : Sym) : (renSym ρ s).name = ρ s.name := rfl
@[simp] theorem renTable_block (t : Table) : (renTable ρ t).block = t.block := rfl
@[simp] theorem renTable_numDefinition (t : Table) : (renTable ρ t).numDefinition = t.numDefinition := rfl
@[simp] theorem renTable_maxDefinition (t : Table) : (renTable ρ t).maxDefinition = t.maxDefinition := rfl
@[simp] theorem renTable_freeSymbols (t : Table) : (renTable ρ t).freeSymbols = t.freeSymbols.map (renSym ρ) := rfl
@[simp] theorem renTable_store (t : Table) : (renTable ρ t).store = t.store.map (renEntry ρ) := rfl
@[simp] theorem renChain_nil : renChain ρ [] = [] := rfl
@[simp] theorem renChain_cons (t : Table) (c : Chain) : renChain ρ (t :: c) = renTable ρ t :: renChain ρ c := rfl
@[simp] theorem renChain_isEmpty (c : Chain) : (renChain ρ c).isEmpty = c.isEmpty := by cases c <;> rfl
@[simp] theorem renState_consts (s : CState) : (renState ρ s).consts = s.consts := rfl
@[simp] theorem renState_tables (s : CState) : (renState ρ s).tables = renChain ρ s.tables := rfl
@[simp] theorem renState_nextId (s : CState) : (renState ρ s).nextId = s.nextId := rfl
@[simp] theorem renState_assigned (s : CState) : (renState ρ s).assigned = s.assigned := rfl
@[simp] theorem renState_insts (s : CState) : (renState ρ s).insts = s.insts := rfl
@[simp] theorem renState_saved (s : CState) : (renState ρ s).saved = s.saved := rfl
@[simp] theorem renState_loops (s : CState) : (renState ρ s).loops = s.loops := rfl
theorem renTable_empty (b : Bool) : renTable ρ { block := b } = { block := b } := rfl

theorem nextIndex_ren (c : Chain) : nextIndex (renChain ρ c) = nextIndex c := by
  induction c with
  | nil => rfl
  | cons t ps ih => simp [nextIndex, ih]

theorem globalCtx_ren (c : Chain) : globalCtx (renChain ρ c) = globalCtx c := by
  induction c with
  | nil => rfl
  | cons t ps ih => simp [globalCtx, ih]

theorem parentSkip_ren (c : Chain) : parentSkip (renChain ρ c) = renChain ρ (parentSkip c) := by
  induction c with
  | nil => rfl
  | cons t ps ih =>
    simp only [renChain_cons, parentSkip, renTable_block, ih]
    split <;> rfl

theorem updateMax_ren (k : Nat) (c : Chain) : updateMax k (renChain ρ c) = renChain ρ (updateMax k c) := by
  induction c with
  | nil => rfl
  | cons t ps ih =>
    simp only [renChain_cons, updateMax, renTable_block, ih]
    split <;> rfl

theorem incRoot_ren (c : Chain) : incRoot (renChain ρ c) = renChain ρ (incRoot c) := by
  induction c with
  | nil => rfl
  | cons t ps ih =>
    cases ps with
    | nil => rfl
    | cons p ps =>
      simp only [renChain_cons, incRoot] at ih ⊢
      rw [ih]

theorem defineIn_ren (n : String) (id : Nat) (c : Chain) :
    defineIn (ρ n) id (renChain ρ c) = (renSym ρ (defineIn n id c).1, renChain ρ (defineIn n id c).2) := by
  cases c with
  | nil => rfl
  | cons t ps =>
    have h1 := nextIndex_ren ρ (t :: ps)
    have h2 := globalCtx_ren ρ (t :: ps)
    simp only [renChain_cons] at h1 h2
    simp only [defineIn, renChain_cons, h1, h2]
    refine Prod.ext ?_ ?_
    · simp only [renSym]
    · simp only []
      split
      · rw [← updateMax_ren]
        congr 1
        exact incRoot_ren ρ ({ t with store := (n, ⟨n, .global, nextIndex (t :: ps), id⟩) :: t.store } :: ps)
      · rw [← updateMax_ren]
        rfl

theorem defineFree_ren (t : Table) (orig : Sym) (id : Nat) :
    (renTable ρ t).defineFree (renSym ρ orig) id
      = (renSym ρ (t.defineFree orig id).1, renTable ρ (t.defineFree orig id).2) := by
  simp [Table.defineFree, renTable, renSym, renEntry]

end

theorem lookup_ren {ρ : String → String} (hρ : Renaming ρ) (n : String) (st : List (String × Sym)) :
    (st.map (renEntry ρ)).lookup (ρ n) = (st.lookup n).map (renSym ρ) := by
  induction st with
  | nil => rfl
  | cons p st ih =>
    obtain ⟨k, s⟩ := p
    simp only [List.map_cons, renEntry, List.lookup_cons]
    by_cases h : n = k
    · subst h; simp
    · have h' : ρ n ≠ ρ k := fun e => h (hρ.inj _ _ e)
      have e1 : (n == k) = false := by simpa using h
      have e2 : (ρ n == ρ k) = false := by simpa using h'
      rw [e1, e2]; exact ih

/-- The answer of `Resolve` under renaming. -/
def renRes (ρ : String → String) (r : Option (Sym × Nat)) : Option (Sym × Nat) :=
  r.map (fun p => (renSym ρ p.1, p.2))

theorem resolveIn_ren {ρ : String → String} (hρ : Renaming ρ) (asg : Nat → Bool) (n : String) (c : Chain) :
    ∀ (recur : Bool) (id : Nat),
      resolveIn asg (ρ n) (renChain ρ c) recur id
        = (renRes ρ (resolveIn asg n c recur id).1, renChain ρ (resolveIn asg n c recur id).2.1,
            (resolveIn asg n c recur id).2.2) := by
  induction c with
  | nil => intro recur id; rfl
  | cons t ps ih =>
    intro recur id
    simp only [renChain_cons, resolveIn, renTable_store, lookup_ren hρ, renChain_isEmpty, renTable_block]
    rw [ih true id]
    rcases hr : resolveIn asg n ps true id with ⟨r, ps', id'⟩
    have tail : ∀ (b : Bool),
        (if ps.isEmpty = true then ((none : Option (Sym × Nat)), renTable ρ t :: renChain ρ ps, id)
          else
            match (renRes ρ r, renChain ρ ps', id') with
            | (none, ps', id') => (none, renTable ρ t :: ps', id')
            | (some (s, d), ps', id') =>
              if (!t.block && s.scope != Scope.global && s.scope != Scope.builtin) = true then
                (some (((renTable ρ t).defineFree s id').fst, d + 1), ((renTable ρ t).defineFree s id').snd :: ps', id' + 1)
              else (some (s, d + 1), renTable ρ t :: ps', id'))
        = (renRes ρ (if ps.isEmpty = true then ((none : Option (Sym × Nat)), t :: ps, id)
          else
            match (r, ps', id') with
            | (none, ps', id') => (none, t :: ps', id')
            | (some (s, d), ps', id') =>
              if (!t.block && s.scope != Scope.global && s.scope != Scope.builtin) = true then
                (some ((t.defineFree s id').fst, d + 1), (t.defineFree s id').snd :: ps', id' + 1)
              else (some (s, d + 1), t :: ps', id')).1,
           renChain ρ (if ps.isEmpty = true then ((none : Option (Sym × Nat)), t :: ps, id)
          else
            match (r, ps', id') with
            | (none, ps', id') => (none, t :: ps', id')
            | (some (s, d), ps', id') =>
              if (!t.block && s.scope != Scope.global && s.scope != Scope.builtin) = true then
                (some ((t.defineFree s id').fst, d + 1), (t.defineFree s id').snd :: ps', id' + 1)
              else (some (s, d + 1), t :: ps', id')).2.1,
           (if ps.isEmpty = true then ((none : Option (Sym × Nat)), t :: ps, id)
          else
            match (r, ps', id') with
            | (none, ps', id') => (none, t :: ps', id')
            | (some (s, d), ps', id') =>
              if (!t.block && s.scope != Scope.global && s.scope != Scope.builtin) = true then
                (some ((t.defineFree s id').fst, d + 1), (t.defineFree s id').snd :: ps', id' + 1)
              else (some (s, d + 1), t :: ps', id')).2.2) := by
      intro _
      by_cases he : ps.isEmpty = true
      · simp only [he, if_true]; rfl
      · simp only [he, if_false]
        cases r with
        | none => rfl
        | some p =>
          obtain ⟨s2, dd⟩ := p
          simp only [renRes, Option.map_some, renSym_scope]
          by_cases hc : (!t.block && s2.scope != Scope.global && s2.scope != Scope.builtin) = true
          · simp only [hc, if_true, defineFree_ren]; rfl
          · simp only [hc, if_false]; rfl
    cases hl : t.store.lookup n with
    | some s =>
      simp only [Option.map_some, renSym_scope, renSym_id]
      by_cases hc : (s.scope != Scope.local || asg s.id || recur) = true
      · simp only [hc, if_true]; rfl
      · simp only [hc, if_false]
        exact tail true
    | none =>
      simp only [Option.map_none]
      exact tail true

/-! ## 4. Errors and the simulation relation -/

/-- The renamed program's error: the same error, with the name inside the message renamed. -/
inductive ErrRel (ρ : String → String) : CompileErr → CompileErr → Prop
  | unresolved (n : String) :
      ErrRel ρ (.err s!"unresolved reference '{n}'") (.err s!"unresolved reference '{ρ n}'")
  | redeclared (n : String) :
      ErrRel ρ (.err s!"'{n}' redeclared in this block") (.err s!"'{ρ n}' redeclared in this block")
  | same (e : CompileErr) : ErrRel ρ e e

inductive ResRel (ρ : String → String) {α : Type} (R : α → α → Prop) :
    Except CompileErr (α × CState) → Except CompileErr (α × CState) → Prop
  | ok {a a' : α} (t : CState) : R a a' → ResRel ρ R (.ok (a, t)) (.ok (a', renState ρ t))
  | err {e e' : CompileErr} : ErrRel ρ e e' → ResRel ρ R (.error e) (.error e')

/-- `m'` run on the renamed state does what `m` does on the state, up to renaming. -/
def Sim (ρ : String → String) {α : Type} (R : α → α → Prop) (m m' : CM α) : Prop :=
  ∀ s, ResRel ρ R (m s) (m' (renState ρ s))

section
variable {ρ : String → String}

theorem bind_run {α β : Type} (m : CM α) (k : α → CM β) (s : CState) :
    (m >>= k) s = match m s with
      | .ok (a, t) => k a t
      | .error e => .error e := by
  show (m s >>= fun p => k p.1 p.2) = _
  cases m s with
  | error e => rfl
  | ok p => rfl

theorem sim_pure {α : Type} {R : α → α → Prop} {a a' : α} (h : R a a') :
    Sim ρ R (Pure.pure a) (Pure.pure a') := fun s => ResRel.ok s h

theorem sim_bind {α β : Type} {R : α → α → Prop} {Q : β → β → Prop} {m m' : CM α} {k k' : α → CM β}
    (h1 : Sim ρ R m m') (h2 : ∀ a a', R a a' → Sim ρ Q (k a) (k' a')) :
    Sim ρ Q (m >>= k) (m' >>= k') := by
  intro s
  rw [bind_run, bind_run]
  have := h1 s
  generalize m s = x at this
  generalize m' (renState ρ s) = y at this
  cases this with
  | ok t h => exact h2 _ _ h t
  | err h => exact ResRel.err h

theorem sim_bind_eq {α β : Type} {Q : β → β → Prop} {m m' : CM α} {k k' : α → CM β}
    (h1 : Sim ρ Eq m m') (h2 : ∀ a, Sim ρ Q (k a) (k' a)) :
    Sim ρ Q (m >>= k) (m' >>= k') :=
  sim_bind h1 (fun a a' h => h ▸ h2 a)

theorem sim_throw {α : Type} {R : α → α → Prop} {e e' : CompileErr} (h : ErrRel ρ e e') :
    Sim ρ R (throw e) (throw e') := fun s => ResRel.err h

theorem sim_cerr {α : Type} {R : α → α → Prop} (msg : String) :
    Sim ρ R (cerr msg) (cerr msg) := sim_throw (ErrRel.same _)

theorem sim_unsupported {α : Type} {R : α → α → Prop} (msg : String) :
    Sim ρ R (unsupported msg) (unsupported msg) := sim_throw (ErrRel.same _)

/-- An error stops the run: what follows does not matter. -/
theorem sim_throw_bind {α β : Type} {Q : β → β → Prop} {e e' : CompileErr} {k k' : α → CM β}
    (h : ErrRel ρ e e') : Sim ρ Q ((throw e : CM α) >>= k) ((throw e' : CM α) >>= k') := by
  intro s; rw [bind_run, bind_run]; exact ResRel.err h

theorem sim_cerr_bind {α β : Type} {Q : β → β → Prop} (msg : String) {k k' : α → CM β} :
    Sim ρ Q ((cerr msg : CM α) >>= k) ((cerr msg : CM α) >>= k') := sim_throw_bind (ErrRel.same _)

theorem sim_cerr_rel {α : Type} {R : α → α → Prop} {m m' : String} (h : ErrRel ρ (.err m) (.err m')) :
    Sim ρ R (cerr m) (cerr m') := sim_throw h

theorem sim_cerr_bind_rel {α β : Type} {Q : β → β → Prop} {m m' : String} {k k' : α → CM β}
    (h : ErrRel ρ (.err m) (.err m')) : Sim ρ Q ((cerr m : CM α) >>= k) ((cerr m' : CM α) >>= k') :=
  sim_throw_bind h

theorem sim_unsupported_bind {α β : Type} {Q : β → β → Prop} (msg : String) {k k' : α → CM β} :
    Sim ρ Q ((unsupported msg : CM α) >>= k) ((unsupported msg : CM α) >>= k') := sim_throw_bind (ErrRel.same _)

/-- An action that does not look at the names in the tables. -/
theorem sim_oblivious {α : Type} {m : CM α}
    (h : ∀ s, m (renState ρ s) = (m s).map (fun p => (p.1, renState ρ p.2))) : Sim ρ Eq m m := by
  intro s
  rw [h s]
  cases m s with
  | error e => exact ResRel.err (ErrRel.same _)
  | ok p => exact ResRel.ok p.2 rfl

theorem sim_discard {α : Type} {R : α → α → Prop} {m m' : CM α} (h : Sim ρ R m m') :
    Sim ρ Eq (discard m) (discard m') := by
  intro s
  show ResRel ρ Eq ((m >>= fun _ => Pure.pure PUnit.unit) s) ((m' >>= fun _ => Pure.pure PUnit.unit) (renState ρ s))
  exact sim_bind h (fun _ _ _ => sim_pure rfl) s

end

/-! ## 5. The primitive actions -/

section
variable {ρ : String → String}

/-- Symbols handed out by `define`. -/
abbrev SymRel (ρ : String → String) (a a' : Sym) : Prop := a' = renSym ρ a
/-- States read by `get`. -/
abbrev StRel (ρ : String → String) (a a' : CState) : Prop := a' = renState ρ a
/-- Answers of `resolve`. -/
abbrev ResoRel (ρ : String → String) (a a' : Option (Sym × Nat)) : Prop := a' = renRes ρ a

theorem sim_emit (op : Nat) (args : List Nat) : Sim ρ Eq (emit op args) (emit op args) :=
  sim_oblivious (fun s => rfl)

theorem sim_demit (op : Nat) (args : List Nat) : Sim ρ Eq (discard (emit op args)) (discard (emit op args)) :=
  sim_discard (sim_emit op args)

theorem sim_curPos : Sim ρ Eq curPos curPos := sim_oblivious (fun s => rfl)

theorem sim_modify (f : CState → CState) (h : ∀ s, f (renState ρ s) = renState ρ (f s)) :
    Sim ρ Eq (modify f) (modify f) := by
  refine sim_oblivious (fun s => ?_)
  show Except.ok ((), f (renState ρ s)) = Except.ok ((), renState ρ (f s))
  rw [h]

theorem sim_set (t : CState) : Sim ρ Eq (set t) (set (renState ρ t)) := fun s => ResRel.ok t rfl

theorem sim_changeOperand (p o : Nat) : Sim ρ Eq (changeOperand p o) (changeOperand p o) := by
  refine sim_modify _ (fun s => ?_)
  simp only [renState_insts]
  split <;> rfl

theorem sim_addConstant (k : Const) : Sim ρ Eq (addConstant k) (addConstant k) :=
  sim_oblivious (fun s => rfl)

theorem sim_enterLoop : Sim ρ Eq enterLoop enterLoop := sim_oblivious (fun s => rfl)
theorem sim_leaveLoop : Sim ρ Eq leaveLoop leaveLoop := sim_oblivious (fun s => rfl)
theorem sim_fork (b : Bool) : Sim ρ Eq (fork b) (fork b) := sim_oblivious (fun s => rfl)
theorem sim_unfork : Sim ρ Eq unfork unfork := by
  refine sim_oblivious (fun s => ?_)
  show Except.ok ((), { renState ρ s with tables := (renChain ρ s.tables).drop 1 }) =
    Except.ok ((), renState ρ { s with tables := s.tables.drop 1 })
  simp only [renState, renChain, List.map_drop]
theorem sim_enterScope : Sim ρ Eq enterScope enterScope := sim_oblivious (fun s => rfl)
theorem sim_leaveScope : Sim ρ Eq leaveScope leaveScope := by
  refine sim_oblivious (fun s => ?_)
  obtain ⟨c, t, n, a, i, sv, l⟩ := s
  cases sv with
  | nil => rfl
  | cons x rest =>
    show Except.ok (i, _) = Except.ok (i, _)
    simp only [renState, parentSkip_ren]

theorem sim_get : Sim ρ (StRel ρ) get get := fun s => ResRel.ok s rfl

theorem sim_optimizeFunc : Sim ρ Eq optimizeFunc optimizeFunc := by
  unfold optimizeFunc
  refine sim_bind sim_get (fun a a' h => ?_)
  subst h
  simp only [renState_insts]
  split
  · exact sim_set _
  · exact sim_throw (ErrRel.same _)

theorem sim_setAssigned {a a' : Sym} (h : SymRel ρ a a') : Sim ρ Eq (setAssigned a) (setAssigned a') := by
  subst h; exact sim_oblivious (fun s => rfl)

theorem sim_localAssigned {a a' : Sym} (h : SymRel ρ a a') : Sim ρ Eq (localAssigned a) (localAssigned a') := by
  subst h; exact sim_oblivious (fun s => rfl)

theorem sim_modify_loops (f : List Loop → List Loop) :
    Sim ρ Eq (modify fun s => { s with loops := f s.loops }) (modify fun s => { s with loops := f s.loops }) :=
  sim_oblivious (fun s => rfl)

theorem define_run (n : String) (s : CState) :
    define n s = .ok ((defineIn n s.nextId s.tables).1,
      { s with tables := (defineIn n s.nextId s.tables).2, nextId := s.nextId + 1,
               assigned := s.assigned.push false }) := rfl

theorem resolve_run (n : String) (s : CState) :
    resolve n s = .ok ((resolveIn (isAssigned s) n s.tables false s.nextId).1,
      { s with tables := (resolveIn (isAssigned s) n s.tables false s.nextId).2.1,
               nextId := (resolveIn (isAssigned s) n s.tables false s.nextId).2.2,
               assigned := s.assigned ++ (List.replicate
                  ((resolveIn (isAssigned s) n s.tables false s.nextId).2.2 - s.nextId) false).toArray }) := rfl

theorem sim_define (n : String) : Sim ρ (SymRel ρ) (define n) (define (ρ n)) := by
  intro s
  rw [define_run, define_run, renState_tables, renState_nextId, defineIn_ren]
  exact ResRel.ok (R := SymRel ρ) _ rfl

theorem sim_resolve (hρ : Renaming ρ) (n : String) : Sim ρ (ResoRel ρ) (resolve n) (resolve (ρ n)) := by
  intro s
  rw [resolve_run, resolve_run, renState_tables, renState_nextId]
  have : isAssigned (renState ρ s) = isAssigned s := rfl
  rw [this, resolveIn_ren hρ]
  exact ResRel.ok (R := ResoRel ρ) _ rfl

theorem sim_ite {α : Type} {R : α → α → Prop} {c : Prop} [Decidable c] {t t' e e' : CM α}
    (h1 : Sim ρ R t t') (h2 : Sim ρ R e e') : Sim ρ R (if c then t else e) (if c then t' else e') := by
  split <;> assumption

theorem sim_emitGet {a a' : Sym} (h : SymRel ρ a a') : Sim ρ Eq (emitGet a) (emitGet a') := by
  subst h
  unfold emitGet
  simp only [renSym_scope, renSym_index]
  split <;> exact sim_demit _ _

theorem sim_emitIt {a a' : Sym} (h : SymRel ρ a a') : Sim ρ Eq (emitIt a) (emitIt a') := by
  subst h
  unfold emitIt
  simp only [renSym_scope, renSym_index]
  exact sim_ite (sim_demit _ _) (sim_demit _ _)

theorem sim_emitBinary (tok : String) : Sim ρ Eq (emitBinary tok) (emitBinary tok) := by
  unfold emitBinary
  split
  · exact sim_demit _ _
  · split
    · exact sim_demit _ _
    · split
      · exact sim_demit _ _
      · exact sim_unsupported _

theorem sim_patchAll (ps : List Nat) (t : Nat) : Sim ρ Eq (patchAll ps t) (patchAll ps t) := by
  unfold patchAll
  induction ps with
  | nil => exact sim_pure rfl
  | cons p ps ih =>
    exact sim_bind_eq (sim_changeOperand _ _) (fun _ => ih)

theorem sim_forM_map {α : Type} (g : α → α) (f f' : α → CM PUnit) (l : List α)
    (h : ∀ a, Sim ρ Eq (f a) (f' (g a))) : Sim ρ Eq (l.forM f) ((l.map g).forM f') := by
  induction l with
  | nil => exact sim_pure rfl
  | cons p ps ih =>
    exact sim_bind_eq (h p) (fun _ => ih)

end

end Tengo.Proofs.C11Rename

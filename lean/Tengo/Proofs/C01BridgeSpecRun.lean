import Tengo.Proofs.C01BridgeSpecStmt
import Tengo.Proofs.C01BridgeSpecCheck
/-!
C01 bridge, reference-interpreter side, layer 3 (`runProgram`): the inputs become one heap cell per global
slot (`inputs_loop`), the static check accepts the embedded program (`checkProgram_fragment`), the main
program runs as the fragment's evaluator says (`all_sim`), and the read-out lists the final globals
(`readOut_all`) — together `runProgram_fragment`.
-/
set_option linter.unusedVariables false
set_option linter.unusedSimpArgs false
namespace Tengo.Proofs.C01Bridge
open Tengo.Model Tengo.Model.Spec Tengo.Model.F0

/-! ### `runProgram`: inputs, the main program, the read-out of the globals -/

/-- The step of `runProgram`'s input loop. -/
def inputStep (x : String × Value) (fr : Spec.Frame) : EM (ForInStep Spec.Frame) :=
  match x with
  | (nm, v) => do
    let r ← Spec.liftM (alloc (Obj.cell v false))
    pure (ForInStep.yield { vars := (nm, r) :: fr.vars, isFn := fr.isFn })

/-- The read-out of one global. -/
def readOut (x : String × Nat) : EM (String × Value) :=
  match x with
  | (nm, r) => do
    match ← Spec.liftM (getObj r) with
    | Obj.cell v _ => pure (nm, v)
    | _ => pure (nm, Value.undef)

/-- The body of `runProgram` after the static check. -/
def progOf (fuel : Nat) (inputs : List (String × Value)) (ss : List Stmt) : EM (List (String × Value)) := do
  let fr ← forIn inputs ({ vars := [] } : Spec.Frame) inputStep
  let (_, env) ← execStmts fuel { env := [fr] } ss 0
  match env.getLast? with
  | some f => f.vars.reverse.mapM readOut
  | none => pure []

def outcomeOf (r : Except Err ((List (String × Value) × GSt) × St)) : Spec.Outcome :=
  match r with
  | .ok ((gs, _), st) => .ok gs st
  | .error (.runtime m) => .runtimeErr m
  | .error (.gopanic m) => .goPanic m
  | .error (.unsupported w) => .unsupported w
  | .error (.excluded w) => .excluded w
  | .error .fuel => .fuel

theorem runProgram_eq (fuel : Nat) (inputs : List (String × Value)) (initHeap : St) (ss : List Stmt)
    (hc : checkProgram (inputs.map Prod.fst) ss = none) :
    runProgram fuel inputs initHeap ss = outcomeOf (progOf fuel inputs ss {} initHeap) := by
  unfold runProgram
  rw [hc]
  rfl


/-- Cells `base … base+j-1` hold the globals `0 … j-1`, the frame lists them newest first. -/
structure InInv (names : Nat → String) (g : Nat → SV) (base j : Nat) (fr : Spec.Frame) (σ : St) : Prop where
  vars : fr.vars = ((List.range j).map (fun i => (names i, base + i))).reverse
  size : σ.heap.size = base + j
  cell : ∀ i, i < j → σ.heap[base + i]? = some (.cell (g i).1 false)

theorem alloc_run (o : Obj) (σ : St) : alloc o σ = .ok (σ.heap.size, { σ with heap := σ.heap.push o }) := rfl

theorem inputs_loop (names : Nat → String) (g : Nat → SV) (base : Nat) (gs : GSt) :
    ∀ (m j : Nat) (fr : Spec.Frame) (σ : St), InInv names g base j fr σ →
      ∃ fr' σ', EOk (forIn ((List.range' j m).map (fun i => (names i, (g i).1))) fr inputStep) gs σ fr' σ' ∧
        InInv names g base (j + m) fr' σ'
  | 0, j, fr, σ, h => ⟨fr, σ, by simpa using EOk.pure fr gs σ, by simpa using h⟩
  | m + 1, j, fr, σ, h => by
    simp only [List.range'_succ, List.map_cons, List.forIn_cons]
    have hstep : EOk (inputStep (names j, (g j).1) fr) gs σ
        (ForInStep.yield { vars := (names j, σ.heap.size) :: fr.vars, isFn := fr.isFn })
        { σ with heap := σ.heap.push (.cell (g j).1 false) } :=
      EOk.bind (EOk.lift (alloc_run _ σ)) (EOk.pure _ gs _)
    have hinv : InInv names g base (j + 1) { vars := (names j, σ.heap.size) :: fr.vars, isFn := fr.isFn }
        { σ with heap := σ.heap.push (.cell (g j).1 false) } := by
      refine ⟨?_, by simp [h.size]; omega, ?_⟩
      · simp only [h.vars, h.size, List.range_succ, List.map_append, List.map_cons, List.map_nil,
          List.reverse_append, List.reverse_cons, List.reverse_nil, List.nil_append, List.cons_append]
      · intro i hi
        by_cases hij : i = j
        · subst hij
          have hsz := h.size
          rw [← hsz]
          simp
        · have := h.cell i (by omega)
          simp only [Array.getElem?_push, h.size]
          rw [if_neg (by omega)]
          exact this
    obtain ⟨fr', σ', hok, hinv'⟩ := inputs_loop names g base gs m (j + 1) _ _ hinv
    refine ⟨fr', σ', EOk.bind hstep hok, ?_⟩
    have e : j + 1 + m = j + (m + 1) := by omega
    rw [e] at hinv'
    exact hinv'


theorem lookup_rev_range (names : Nat → String) (base : Nat) :
    ∀ (j i : Nat), i < j → (∀ a b, a < j → b < j → names a = names b → a = b) →
      (((List.range j).map (fun i => (names i, base + i))).reverse).lookup (names i) = some (base + i)
  | 0, i, hi, _ => by omega
  | j + 1, i, hi, hinj => by
    simp only [List.range_succ, List.map_append, List.map_cons, List.map_nil, List.reverse_append,
      List.reverse_cons, List.reverse_nil, List.nil_append, List.cons_append, List.lookup]
    by_cases hij : i = j
    · subst hij; simp
    · have hne : (names i == names j) = false := by
        simp only [beq_eq_false_iff_ne, ne_eq]
        intro e
        exact hij (hinj i j (by omega) (by omega) e)
      simp only [hne]
      exact lookup_rev_range names base j i (by omega) (fun a b ha hb => hinj a b (by omega) (by omega))

theorem InInv.env {names : Nat → String} {g : Nat → SV} {base n : Nat} {fr : Spec.Frame} {σ : St}
    (h : InInv names g base n fr σ) (hinj : ∀ a b, a < n → b < n → names a = names b → a = b) :
    EnvOK names n (fun i => base + i) [fr] := by
  intro i hi
  have := lookup_rev_range names base n i hi hinj
  simp [lookupVar, List.findSome?, h.vars, this]

theorem InInv.heap {names : Nat → String} {g : Nat → SV} {base n : Nat} {fr : Spec.Frame} {σ : St}
    (h : InInv names g base n fr σ) : HeapOK n (fun i => base + i) g σ :=
  ⟨fun i j _ _ e => by simpa using e, fun i hi => ⟨false, h.cell i hi⟩⟩

theorem readOut_all (names : Nat → String) (n : Nat) (cells : Nat → Nat) (g : Nat → SV) (σ : St)
    (hh : HeapOK n cells g σ) (gs : GSt) :
    ∀ (L : List Nat), (∀ i, i ∈ L → i < n) →
      EOk ((L.map (fun i => (names i, cells i))).mapM readOut) gs σ (L.map (fun i => (names i, (g i).1))) σ
  | [], _ => by simpa using EOk.pure [] gs σ
  | i :: L, h => by
    simp only [List.map_cons, List.mapM_cons]
    obtain ⟨b, hb⟩ := hh.cell i (h i (by simp))
    have h1 : EOk (readOut (names i, cells i)) gs σ (names i, (g i).1) σ :=
      EOk.bind (EOk.lift (getObj_run hb)) (EOk.pure _ gs σ)
    exact EOk.bind h1 (EOk.bind (readOut_all names n cells g σ hh gs L (fun j hj => h j (by simp [hj])))
      (EOk.pure _ gs σ))

/-- The inputs of the embedded program: slot names with their initial values. -/
def inputsV (names : Nat → String) (n : Nat) (g : Nat → SV) : List (String × Value) :=
  (List.range n).map (fun i => (names i, (g i).1))

/-- What `runProgram` reports as the globals for final values `g'`. -/
def globalsV (names : Nat → String) (n : Nat) (g' : Nat → SV) : List (String × Value) :=
  (List.range n).map (fun i => (names i, (g' i).1))

/-- `runProgram`'s outcome for a failed run. -/
def errOutcome : Err → Spec.Outcome
  | .runtime m => .runtimeErr m
  | .gopanic m => .goPanic m
  | .unsupported w => .unsupported w
  | .excluded w => .excluded w
  | .fuel => .fuel

/-- **The fragment's evaluator and the reference interpreter agree.** For every embedded fragment program: if the
fragment's evaluator `F1.exec vmSem` with fuel `f` finishes with globals `g'`, then `Spec.runProgram` — the
static check included, with every fuel `F ≥ 4 f + budSs ss`, from every initial heap — answers `ok` with
exactly the globals `names i ↦ g' i`; if the fragment's evaluator reports an error, `runProgram` reports the
run-time outcome of an error other than fuel exhaustion (never `ok`, never a compile error). -/
theorem runProgram_fragment (names : Nat → String) (ctab : Nat → F0.Const) (n : Nat) (ss : F1.Stms) (f F : Nat)
    (hinj : ∀ i j, i < n → j < n → names i = names j → i = j)
    (hwf : wfSs n 0 ss = true) (hbud : budSs ss ≤ 4000) (hF : 4 * f + budSs ss ≤ F)
    (g : Nat → SV) (initHeap : St) :
    (∀ g', F1.exec vmSem (svConst ctab) f (.inr ss) g = .done g' →
      ∃ st, runProgram F (inputsV names n g) initHeap (toAstSs names ctab ss) = .ok (globalsV names n g') st) ∧
    (F1.exec vmSem (svConst ctab) f (.inr ss) g = .err →
      ∃ err, err ≠ Err.fuel ∧
        runProgram F (inputsV names n g) initHeap (toAstSs names ctab ss) = errOutcome err) := by
  have hc : checkProgram ((inputsV names n g).map Prod.fst) (toAstSs names ctab ss) = none := by
    have : (inputsV names n g).map Prod.fst = inputsOf names n := by
      simp [inputsV, inputsOf, List.map_map, Function.comp_def]
    rw [this]
    exact checkProgram_fragment names ctab n ss hwf hbud
  rw [runProgram_eq F _ initHeap _ hc]
  have h0 : InInv names g initHeap.heap.size 0 { vars := [] } initHeap :=
    ⟨rfl, rfl, fun i hi => by omega⟩
  obtain ⟨fr, σ, hin, hinv⟩ := inputs_loop names g initHeap.heap.size {} n 0 _ _ h0
  simp only [Nat.zero_add] at hinv
  have hin' : EOk (forIn (inputsV names n g) ({ vars := [] } : Spec.Frame) inputStep) {} initHeap fr σ := by
    simpa [inputsV, List.range_eq_range'] using hin
  obtain ⟨h1, h2⟩ := (all_sim (names := names) (ctab := ctab) (n := n)
    (cells := fun i => initHeap.heap.size + i) f).2.1 ss F { env := [fr] } {} σ g 0 0 hF
    (hinv.env hinj) hinv.heap hwf
  constructor
  · intro g' hg
    obtain ⟨σ', hok, hh'⟩ := h1 g' hg
    have hout := readOut_all names n (fun i => initHeap.heap.size + i) g' σ' hh' {} (List.range n)
      (fun i hi => by simpa using hi)
    have hvars : fr.vars.reverse = (List.range n).map (fun i => (names i, initHeap.heap.size + i)) := by
      rw [hinv.vars, List.reverse_reverse]
    refine ⟨σ', ?_⟩
    have : EOk (progOf F (inputsV names n g) (toAstSs names ctab ss)) {} initHeap (globalsV names n g') σ' := by
      unfold progOf
      refine EOk.bind hin' (EOk.bind hok ?_)
      simp only [List.getLast?_singleton, hvars]
      exact hout
    unfold EOk at this
    rw [this]; rfl
  · intro hg
    obtain ⟨err, hne, herr⟩ := h2 hg
    refine ⟨err, hne, ?_⟩
    have : EErr (progOf F (inputsV names n g) (toAstSs names ctab ss)) {} initHeap err := by
      unfold progOf
      exact EErr.bind_right hin' (EErr.bind_left herr)
    unfold EErr at this
    rw [this]
    cases err <;> first | rfl | exact absurd rfl hne

end Tengo.Proofs.C01Bridge

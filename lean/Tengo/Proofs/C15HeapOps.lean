import Tengo.Proofs.C15HeapSim
/-!
C15 (heap model): every API call, concrete shared-store machine vs. tagged specification.
-/
namespace Tengo.Proofs.C15Heap
open Tengo.Model.Host hiding execC Host ScriptSt CompiledSt Abs AScript ACompiled
open Tengo.Model.HostHeap
open Tengo.Props.C15 (mapVals hasKey_mapVals setKey_mapVals upsert_mapVals eraseKey_mapVals lookup_mapVals
  keys_mapVals length_mapVals mapVals_congr lookup_mem mem_set SlotsOK VarsOK deref_append deref_new slotOf_ok
  slotsOK_const mem_of_getElem?)

/-- One call keeps the invariants, and the specification answers alike and stays the abstraction. -/
def Sim (L : Limits) (h : Host) (op : HOp) : Prop :=
  WF (hstep L h op).1 ∧ Iso (hstep L h op).1 ∧ sstep L (absOf h) op = (absOf (hstep L h op).1, (hstep L h op).2)

theorem vrefs_upsert {vars : List (String × Nat)} {n : String} {x r : Nat} (h : VRefs (upsert n x vars) r) :
    r = x ∨ VRefs vars r := by
  obtain ⟨k, hk⟩ := h
  unfold upsert at hk
  split at hk
  · simp only [setKey, List.mem_map] at hk
    obtain ⟨q, hq, he⟩ := hk
    split at he
    · simp only [Prod.mk.injEq] at he; exact Or.inl he.2.symm
    · subst he; exact Or.inr ⟨_, hq⟩
  · simp only [List.mem_append, List.mem_singleton, Prod.mk.injEq] at hk
    rcases hk with hk | hk
    · exact Or.inr ⟨_, hk⟩
    · exact Or.inl hk.2

theorem vrefs_erase {vars : List (String × Nat)} {n : String} {r : Nat} (h : VRefs (eraseKey n vars) r) : VRefs vars r := by
  obtain ⟨k, hk⟩ := h
  simp only [eraseKey, List.mem_filter] at hk
  exact ⟨k, hk.1⟩

theorem absVars_upsert (S : List TVal) (v : TVal) (n : String) (vars : List (String × Nat)) (h : VarsOK S.length vars) :
    absVars (S ++ [v]) (upsert n S.length vars) = upsert n (S.length, v) (absVars S vars) := by
  unfold absVars
  rw [← upsert_mapVals (tag (S ++ [v])), tag_new]
  congr 1
  exact absVars_congr _ _ _ (fun r hr => deref_append _ _ _ ((varsOK_iff _ _).1 h r hr))

theorem sim_newScript (L : Limits) (h : Host) (src : List HStmt) (hw : WF h) (hi : Iso h) :
    Sim L h (.newScript src) := by
  refine ⟨⟨?_, hw.compiled⟩, ⟨hi.comp, ?_⟩, ?_⟩
  · intro s hs
    simp only [hstep, List.mem_append, List.mem_singleton] at hs
    rcases hs with hs | rfl
    · exact hw.scripts s hs
    · intro p hp; cases hp
  · intro i ci hci hcl s hs r hri hrs
    simp only [hstep, List.mem_append, List.mem_singleton] at hs hci
    rcases hs with hs | rfl
    · exact hi.scr i ci hci hcl s hs r hri hrs
    · obtain ⟨x, hx⟩ := hrs; cases hx
  · simp [hstep, sstep, absOf, absScript, absVars, mapVals]

theorem sim_add (L : Limits) (h : Host) (s : Nat) (n : String) (g : GoVal) (hw : WF h) (hi : Iso h) :
    Sim L h (.add s n g) := by
  unfold Sim
  cases hs : h.scripts[s]? with
  | none => simp [hstep, sstep, absOf, hs, hw, hi]
  | some sc =>
    cases hg : fromInterface L g with
    | error e => simp [hstep, sstep, absOf, hs, hg, hw, hi]
    | ok v =>
      have hsc := mem_of_getElem? hs
      simp only [hstep, hs, hg]
      refine ⟨⟨?_, ?_⟩, ?_, ?_⟩
      · intro s' hs'
        rcases mem_set hs' with rfl | hs'
        · apply (varsOK_iff _ _).2
          intro r hr
          rcases vrefs_upsert hr with rfl | hr
          · simp
          · have := (varsOK_iff _ _).1 (hw.scripts sc hsc) r hr
            simp; omega
        · exact (hw.scripts s' hs').mono (by simp)
      · intro c hc
        exact (hw.compiled c hc).mono (by simp)
      · apply iso_script h hw hi s sc _ _ hs
        intro r hr
        rcases vrefs_upsert hr with rfl | hr
        · exact Or.inr (Nat.le_refl _)
        · exact Or.inl hr
      · simp only [sstep, absOf, List.getElem?_map, hs, Option.map_some, hg, List.map_set]
        rw [absCompileds_append h hw, absScripts_append h hw]
        simp [absScript, absVars_upsert _ _ _ _ (hw.scripts sc hsc)]

theorem sim_remove (L : Limits) (h : Host) (s : Nat) (n : String) (hw : WF h) (hi : Iso h) :
    Sim L h (.remove s n) := by
  unfold Sim
  cases hs : h.scripts[s]? with
  | none => simp [hstep, sstep, absOf, hs, hw, hi]
  | some sc =>
    have hsc := mem_of_getElem? hs
    by_cases hk : hasKey n sc.vars = true
    · simp only [hstep, hs, hk, if_true]
      refine ⟨⟨?_, hw.compiled⟩, ?_, ?_⟩
      · intro s' hs'
        rcases mem_set hs' with rfl | hs'
        · intro p hp'
          simp only [eraseKey, List.mem_filter] at hp'
          exact hw.scripts sc hsc p hp'.1
        · exact hw.scripts s' hs'
      · apply iso_script h hw hi s sc _ _ hs
        intro r hr
        exact Or.inl (vrefs_erase hr)
      · simp only [sstep, absOf, List.getElem?_map, hs, Option.map_some, List.map_set, absScript, absVars,
          hasKey_mapVals, hk, if_true, eraseKey_mapVals]
    · simp only [hstep, hs, hk]
      refine ⟨hw, hi, ?_⟩
      simp [sstep, absOf, List.getElem?_map, hs, absScript, absVars, hasKey_mapVals, hk]

theorem sim_compile (L : Limits) (h : Host) (s : Nat) (hw : WF h) (hi : Iso h) :
    Sim L h (.compile s) := by
  unfold Sim
  cases hs : h.scripts[s]? with
  | none => simp [hstep, sstep, absOf, hs, hw, hi]
  | some sc =>
    have hsc := mem_of_getElem? hs
    cases hc : compileNames (sc.src.map HStmt.toStmt) (sc.vars.map (·.1)) with
    | error e =>
      simp only [hstep, hs, hc]
      refine ⟨hw, hi, ?_⟩
      simp [sstep, absOf, List.getElem?_map, hs, absScript, absVars, keys_mapVals, hc]
    | ok names =>
      simp only [hstep, hs, hc]
      have hrefs : ∀ r, Refs (sc.vars.map (fun p => (p.1, some p.2)) ++
          ((names.drop sc.vars.length).map (fun n => ((n, none) : String × Option Nat)))) r → VRefs sc.vars r := by
        intro r ⟨x, hx⟩
        simp only [List.mem_append, List.mem_map] at hx
        rcases hx with ⟨q, hq, he⟩ | ⟨q, _, he⟩
        · simp only [Prod.mk.injEq, Option.some.injEq] at he
          obtain ⟨rfl, rfl⟩ := he
          exact ⟨_, hq⟩
        · simp at he
      refine ⟨⟨hw.scripts, ?_⟩, ?_, ?_⟩
      · intro c hc'
        simp only [List.mem_append, List.mem_singleton] at hc'
        rcases hc' with hc' | rfl
        · exact hw.compiled c hc'
        · apply (slotsOK_iff _ _).2
          intro r hr
          exact (varsOK_iff _ _).1 (hw.scripts sc hsc) r (hrefs r hr)
      · exact iso_new h hw hi _ _ (Or.inl ⟨rfl, sc, hsc, hrefs⟩)
      · simp only [sstep, absOf, List.getElem?_map, hs, Option.map_some, absScript, absVars, keys_mapVals, hc,
          length_mapVals, List.length_map]
        simp [absCompiled, absEnv, mapVals, Function.comp_def]

theorem sim_set (L : Limits) (h : Host) (c : Nat) (n : String) (g : GoVal) (hw : WF h) (hi : Iso h) :
    Sim L h (.set c n g) := by
  unfold Sim
  cases hs : h.compiled[c]? with
  | none => simp [hstep, sstep, absOf, hs, hw, hi]
  | some cs =>
    have hcs := mem_of_getElem? hs
    cases hg : fromInterface L g with
    | error e => simp [hstep, sstep, absOf, hs, hg, hw, hi]
    | ok v =>
      by_cases hk : hasKey n cs.slots = true
      · simp only [hstep, hs, hg, hk, if_true]
        refine ⟨⟨?_, ?_⟩, ?_, ?_⟩
        · intro s' hs'
          exact (hw.scripts s' hs').mono (by simp)
        · intro c' hc'
          rcases mem_set hc' with rfl | hc'
          · exact slotsOK_const (hw.compiled cs hcs) n v
          · exact (hw.compiled c' hc').mono (by simp)
        · apply iso_update h hw hi c cs _ _ hs
          intro r hr
          rcases refs_setKey hr with hr | hr
          · cases hr; exact Or.inr (Nat.le_refl _)
          · exact Or.inl hr
        · have hk' : hasKey n (absCompiled h.store cs).env = true := by
            simp only [absCompiled, absEnv, hasKey_mapVals, hk]
          simp only [sstep, absOf, List.getElem?_map, hs, Option.map_some, hg, List.map_set, hk', if_true]
          rw [absScripts_append h hw, absCompileds_append h hw]
          simp [absCompiled, absEnv_const h.store cs.slots n v (hw.compiled cs hcs)]
      · simp only [hstep, hs, hg, hk]
        refine ⟨hw, hi, ?_⟩
        simp [sstep, absOf, List.getElem?_map, hs, hg, absCompiled, absEnv, hasKey_mapVals, hk]

theorem sim_get (L : Limits) (h : Host) (c : Nat) (n : String) (hw : WF h) (hi : Iso h) : Sim L h (.get c n) := by
  unfold Sim
  cases hs : h.compiled[c]? with
  | none => simp [hstep, sstep, absOf, hs, hw, hi]
  | some cs =>
    simp only [hstep, hs]
    refine ⟨hw, hi, ?_⟩
    simp only [sstep, absOf, List.getElem?_map, hs, Option.map_some, absCompiled, objOf_absEnv]
    cases slotOf cs.slots n <;> simp [tag]

theorem sim_getAll (L : Limits) (h : Host) (c : Nat) (hw : WF h) (hi : Iso h) : Sim L h (.getAll c) := by
  unfold Sim
  cases hs : h.compiled[c]? with
  | none => simp [hstep, sstep, absOf, hs, hw, hi]
  | some cs =>
    simp only [hstep, hs]
    refine ⟨hw, hi, ?_⟩
    simp only [sstep, absOf, List.getElem?_map, hs, Option.map_some, absCompiled, absEnv, mapVals, List.map_map]
    congr 2
    apply List.map_congr_left
    intro p _
    obtain ⟨x, o⟩ := p
    cases o <;> simp [tag]

theorem sim_isDefined (L : Limits) (h : Host) (c : Nat) (n : String) (hw : WF h) (hi : Iso h) :
    Sim L h (.isDefined c n) := by
  unfold Sim
  cases hs : h.compiled[c]? with
  | none => simp [hstep, sstep, absOf, hs, hw, hi]
  | some cs =>
    simp only [hstep, hs]
    refine ⟨hw, hi, ?_⟩
    simp only [sstep, absOf, List.getElem?_map, hs, Option.map_some, absCompiled, objOf_absEnv]
    cases slotOf cs.slots n <;> simp [tag]

theorem sim_clone (L : Limits) (h : Host) (c : Nat) (hw : WF h) (hi : Iso h) : Sim L h (.clone c) := by
  unfold Sim
  cases hs : h.compiled[c]? with
  | none => simp [hstep, sstep, absOf, hs, hw, hi]
  | some cs =>
    have hcs := mem_of_getElem? hs
    obtain ⟨⟨ext, he⟩, h2, h3⟩ := clone_sim cs.slots h.store (hw.compiled cs hcs)
    simp only [hstep, hs]
    refine ⟨⟨?_, ?_⟩, ?_, ?_⟩
    · intro s' hs'
      exact (hw.scripts s' hs').mono (by rw [he]; simp)
    · intro c' hc'
      simp only [List.mem_append, List.mem_singleton] at hc'
      rcases hc' with hc' | rfl
      · exact (hw.compiled c' hc').mono (by rw [he]; simp)
      · exact (slotsOK_iff _ _).2 (fun r hr => (h2 r hr).2)
    · exact iso_new h hw hi _ _ (Or.inr (fun r hr => (h2 r hr).1))
    · simp only [sstep, absOf, List.getElem?_map, hs, Option.map_some, List.map_append, List.map_cons, List.map_nil,
        absCompiled, h3, List.length_map]
      have e1 := absScripts_append h hw ext
      have e2 := absCompileds_append h hw ext
      rw [he, e1, e2]

/-- `Run`: the only call with a side condition — code that updates objects in place runs on a Clone. -/
theorem sim_run (L : Limits) (h : Host) (c : Nat) (hw : WF h) (hi : Iso h) (hsafe : safeOp h (.run c) = true) :
    Sim L h (.run c) := by
  unfold Sim
  cases hs : h.compiled[c]? with
  | none => simp [hstep, sstep, absOf, hs, hw, hi]
  | some cs =>
    have hcs := mem_of_getElem? hs
    obtain ⟨h1, h2, h3, h4, h5⟩ := exec_sim cs.code h.store cs.slots (hw.compiled cs hcs)
    simp only [safeOp, hs, Bool.or_eq_true] at hsafe
    simp only [hstep, hs]
    refine ⟨⟨?_, ?_⟩, ?_, ?_⟩
    · intro s' hs'
      exact (hw.scripts s' hs').mono h1
    · intro c' hc'
      rcases mem_set hc' with rfl | hc'
      · exact h2
      · exact (hw.compiled c' hc').mono h1
    · exact iso_update h hw hi c cs _ _ hs h3
    · have hscr : h.scripts.map (absScript (execC cs.code h.store cs.slots).1) = h.scripts.map (absScript h.store) := by
        apply absScripts_congr
        intro s' hs' r hr
        apply h4 r ((varsOK_iff _ _).1 (hw.scripts s' hs') r hr)
        rcases hsafe with hcl | hp
        · exact Or.inr (fun hrc => hi.scr c cs hs hcl s' hs' r hrc hr)
        · exact Or.inl hp
      have hcomp : ∀ x, (h.compiled.map (absCompiled (execC cs.code h.store cs.slots).1)).set c x =
          (h.compiled.map (absCompiled h.store)).set c x := by
        intro x
        apply map_set_congr
        intro j cj hj hcj
        apply absCompiled_congr
        intro r hr
        apply h4 r ((slotsOK_iff _ _).1 (hw.compiled cj (mem_of_getElem? hcj)) r hr)
        rcases hsafe with hcl | hp
        · exact Or.inr (fun hrc => hi.comp c j cs cj hs hcj (fun e => hj e.symm) hcl r hrc hr)
        · exact Or.inl hp
      simp only [sstep, absOf, List.getElem?_map, hs, Option.map_some, List.map_set, absCompiled, h5]
      rw [hscr, hcomp]

theorem step_sim (L : Limits) (h : Host) (op : HOp) (hw : WF h) (hi : Iso h) (hsafe : safeOp h op = true) :
    Sim L h op := by
  cases op with
  | newScript src => exact sim_newScript L h src hw hi
  | add s n g => exact sim_add L h s n g hw hi
  | remove s n => exact sim_remove L h s n hw hi
  | compile s => exact sim_compile L h s hw hi
  | set c n g => exact sim_set L h c n g hw hi
  | run c => exact sim_run L h c hw hi hsafe
  | get c n => exact sim_get L h c n hw hi
  | getAll c => exact sim_getAll L h c hw hi
  | isDefined c n => exact sim_isDefined L h c n hw hi
  | clone c => exact sim_clone L h c hw hi

end Tengo.Proofs.C15Heap

import Tengo.Model.VM
namespace Tengo.Model.VM
open Tengo.Model.Spec Tengo.Model.Opcodes

/-- Partial-correctness triple for the VM monad: every successful result satisfies `P`. -/
def Post {β} (m : VMM β) (P : β → Prop) : Prop :=
  ∀ g s v g' s', (m.run g).run s = .ok ((v, g'), s') → P v

theorem Post_pure {β} {P : β → Prop} {v : β} (h : P v) : Post (pure v : VMM β) P := by
  intro g s v' g' s' hr
  simp [StateT.run, pure, StateT.pure, Except.pure] at hr
  obtain ⟨⟨rfl, _⟩, _⟩ := hr
  exact h

theorem Post_bind {α β} {x : VMM α} {f : α → VMM β} {Q : α → Prop} {P : β → Prop}
    (hx : Post x Q) (hf : ∀ a, Q a → Post (f a) P) : Post (x >>= f) P := by
  intro g s v g' s' hr
  simp only [StateT.run, bind, StateT.bind, Except.bind] at hr
  split at hr
  · cases hr
  · rename_i r heq
    obtain ⟨⟨a, g1⟩, s1⟩ := r
    simp only at hr
    exact hf a (hx g s a g1 s1 heq) g1 s1 v g' s' hr

theorem Post_true {β} (m : VMM β) : Post m (fun _ => True) := fun _ _ _ _ _ _ => trivial

theorem Post_mono {β} {m : VMM β} {P Q : β → Prop} (h : Post m P) (hpq : ∀ v, P v → Q v) : Post m Q :=
  fun g s v g' s' hr => hpq v (h g s v g' s' hr)

/-- Triple for the dispatch monad: a successful, fault-free result satisfies `P`. -/
def PostX {β} (m : XM β) (P : β → Prop) : Prop :=
  Post m.run (fun r => ∀ v, r = .ok v → P v)

theorem PostX_pure {β} {P : β → Prop} {v : β} (h : P v) : PostX (pure v : XM β) P := by
  unfold PostX
  show Post (pure (Except.ok v)) _
  apply Post_pure
  intro v' hv; cases hv; exact h

theorem PostX_bind {α β} {x : XM α} {f : α → XM β} {Q : α → Prop} {P : β → Prop}
    (hx : PostX x Q) (hf : ∀ a, Q a → PostX (f a) P) : PostX (x >>= f) P := by
  unfold PostX at *
  have hrun : (x >>= f).run = x.run >>= ExceptT.bindCont f := rfl
  rw [hrun]
  refine Post_bind hx ?_
  intro r hr
  cases r with
  | error e => exact Post_pure (by intro v hv; cases hv)
  | ok a => exact hf a (hr a rfl)

theorem PostX_true {β} (m : XM β) : PostX m (fun _ => True) := fun _ _ _ _ _ _ _ _ => trivial

theorem PostX_bind' {α β} {x : XM α} {f : α → XM β} {P : β → Prop}
    (hf : ∀ a, PostX (f a) P) : PostX (x >>= f) P :=
  PostX_bind (PostX_true x) (fun a _ => hf a)

theorem PostX_em {β} {m : VMM β} {P : β → Prop} (h : Post m P) : PostX (em m) P := by
  unfold PostX em
  show Post (m >>= fun a => pure (Except.ok a)) _
  refine Post_bind h ?_
  intro a ha
  apply Post_pure
  intro v hv; cases hv; exact ha

theorem PostX_fault {β} {P : β → Prop} (f : Fault) : PostX (fault f : XM β) P := by
  unfold PostX fault
  show Post (pure (Except.error f)) _
  apply Post_pure
  intro v hv; cases hv

theorem PostX_mono {β} {m : XM β} {P Q : β → Prop} (h : PostX m P) (hpq : ∀ v, P v → Q v) : PostX m Q :=
  Post_mono h (fun _ hr v hv => hpq v (hr v hv))

theorem Post_throw {β} {P : β → Prop} (e : Err) : Post (hp (throw e) : VMM β) P := by
  intro g s v g' s' hr
  simp [hp, Spec.liftM, StateT.run, StateT.lift, throw, throwThe, MonadExceptOf.throw, bind, StateT.bind, Except.bind] at hr

theorem Post_eRt {β} {P : β → Prop} (m : String) : Post (eRt m : VMM β) P := by
  intro g s v g' s' hr
  simp [eRt, rtErr, Spec.liftM, StateT.run, StateT.lift, throw, throwThe, MonadExceptOf.throw, bind, StateT.bind, Except.bind] at hr

theorem Post_eUnsup {β} {P : β → Prop} (m : String) : Post (eUnsup m : VMM β) P := by
  intro g s v g' s' hr
  simp [eUnsup, unsupported, Spec.liftM, StateT.run, StateT.lift, throw, throwThe, MonadExceptOf.throw, bind, StateT.bind, Except.bind] at hr

theorem PostX_rtE {β} {P : β → Prop} (m : String) : PostX (rtE m : XM β) P := PostX_em (Post_eRt m)
theorem PostX_unsupE {β} {P : β → Prop} (m : String) : PostX (unsupE m : XM β) P := PostX_em (Post_eUnsup m)
theorem PostX_panicE {β} {P : β → Prop} (m : String) : PostX (panicE m : XM β) P := PostX_em (Post_throw _)

theorem PostX_need (r : Regs) (k : Nat) : PostX (need r k) (fun _ => k ≤ r.sp) := by
  unfold need
  split
  · exact PostX_fault _
  · rename_i h; exact PostX_pure (by omega)

end Tengo.Model.VM

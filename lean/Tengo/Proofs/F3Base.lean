import Tengo.Model.F3
/-!
Fragment F3 (F2 + first-order functions), proof layer 0: sizes of the emitted code, fetching inside
concatenated code, code placement (`At`), runs of the machine (`Runs` / `Fails`), and the condition under which
the self-tail-call rule of the machine never fires (`noTail`).
-/
set_option linter.unusedSimpArgs false
set_option linter.unusedVariables false
namespace Tengo.Model.F3
open Tengo.Model.F0 (Sem upd)
variable {V : Type}

/-! ### sizes -/

theorem size_pos (i : Ins) : 0 < i.size := by cases i <;> simp [Ins.size]

theorem csize_append (a b : List Ins) : csize (a ++ b) = csize a + csize b := by
  induction a with
  | nil => simp [csize]
  | cons i is ih => simp [csize, ih, Nat.add_assoc]

mutual
  theorem csize_comp : ∀ (e : Ex) (o : Nat), csize (comp o e) = esize e
    | .lit _, _ | .tru, _ | .fls, _ | .undef, _ | .glob _, _ | .loc _, _ => by
      simp [comp, csize, esize, Ins.size]
    | .bin _ l r, o | .eq l r, o | .ne l r, o => by
      simp [comp, csize_append, csize, esize, Ins.size, csize_comp l, csize_comp r]; omega
    | .neg e, o | .bnot e, o | .lnot e, o => by
      simp [comp, csize_append, csize, esize, Ins.size, csize_comp e]
    | .plus e, o => by simpa [comp, esize] using csize_comp e o
    | .cond c t f, o => by
      simp [comp, csize_append, csize, esize, Ins.size, csize_comp c, csize_comp t, csize_comp f]; omega
    | .land l r, o | .lor l r, o => by
      simp [comp, csize_append, csize, esize, Ins.size, csize_comp l, csize_comp r]; omega
    | .call f args, o => by
      simp [comp, csize_append, csize, esize, Ins.size, csize_comp f, csize_compEs args]; omega
  theorem csize_compEs : ∀ (es : Exs) (o : Nat), csize (compEs o es) = essize es
    | .nil, _ => by simp [compEs, csize, essize]
    | .cons e es, o => by simp [compEs, csize_append, essize, csize_comp e, csize_compEs es]
end

mutual
  theorem csize_compS : ∀ (s : Stm) (bt ct o : Nat), csize (compS bt ct o s) = ssize s
    | .expr e, bt, ct, o | .assign _ e, bt, ct, o | .defl _ e, bt, ct, o | .setl _ e, bt, ct, o
    | .ret e, bt, ct, o => by
      simp [compS, ssize, csize_append, csize_comp, csize, Ins.size]
    | .ifs c body, bt, ct, o => by
      simp [compS, ssize, csize_append, csize_comp, csize, Ins.size, csize_compSs body]; omega
    | .ifelse c body els, bt, ct, o => by
      simp [compS, ssize, csize_append, csize_comp, csize, Ins.size, csize_compSs body, csize_compSs els]
      omega
    | .whil c body, bt, ct, o => by
      simp [compS, ssize, csize_append, csize_comp, csize, Ins.size, csize_compSs body]; omega
    | .forever body, bt, ct, o => by
      simp [compS, ssize, csize_append, csize, Ins.size, csize_compSs body]
    | .for3 c body post, bt, ct, o => by
      simp [compS, ssize, csize_append, csize_comp, csize, Ins.size, csize_compSs body, csize_compS post]
      omega
    | .brk, bt, ct, o | .cont, bt, ct, o | .ret0, bt, ct, o => by simp [compS, ssize, csize, Ins.size]
  theorem csize_compSs : ∀ (ss : Stms) (bt ct o : Nat), csize (compSs bt ct o ss) = sssize ss
    | .nil, bt, ct, o => by simp [compSs, sssize, csize]
    | .cons s ss, bt, ct, o => by simp [compSs, sssize, csize_append, csize_compS s, csize_compSs ss]
end

/-! ### fetching -/

theorem fetch_append_right (pre c : List Ins) (k : Nat) :
    fetch (pre ++ c) (csize pre + k) = fetch c k := by
  induction pre with
  | nil => simp [csize]
  | cons i is ih =>
    have hp := size_pos i
    have : csize (i :: is) + k = (i.size + csize is + k - 1) + 1 := by simp [csize]; omega
    simp only [List.cons_append]
    rw [this, fetch]
    have h1 : i.size + csize is + k - 1 + 1 ≥ i.size := by omega
    simp only [h1, ↓reduceIte]
    have h2 : i.size + csize is + k - 1 + 1 - i.size = csize is + k := by omega
    rw [h2, ih]

theorem fetch_zero (c : List Ins) : fetch c 0 = c.head? := by
  cases c <;> simp [fetch]

/-- The instruction right after a prefix. -/
theorem fetch_at (pre post : List Ins) (i : Ins) : fetch (pre ++ i :: post) (csize pre) = some i := by
  have := fetch_append_right pre (i :: post) 0
  simpa [fetch] using this

/-- An instruction that is fetched sits in the list at that byte offset. -/
theorem fetch_split : ∀ (c : List Ins) (p : Nat) (i : Ins), fetch c p = some i →
    ∃ pre post, c = pre ++ i :: post ∧ csize pre = p
  | [], p, i, h => by simp [fetch] at h
  | x :: xs, 0, i, h => by
    simp only [fetch, Option.some.injEq] at h
    exact ⟨[], xs, by simp [h], rfl⟩
  | x :: xs, n + 1, i, h => by
    simp only [fetch] at h
    split at h
    · rename_i hge
      obtain ⟨pre, post, he, hp⟩ := fetch_split xs _ i h
      exact ⟨x :: pre, post, by simp [he], by simp [csize, hp]; omega⟩
    · cases h

/-! ### code placement -/

/-- The instruction list `frag` occurs in `code` starting at byte offset `off`. -/
def At (code : List Ins) (off : Nat) (frag : List Ins) : Prop :=
  ∃ pre post, code = pre ++ frag ++ post ∧ csize pre = off

theorem At.left {code : List Ins} {off : Nat} {a b : List Ins} (h : At code off (a ++ b)) : At code off a := by
  obtain ⟨pre, post, rfl, rfl⟩ := h
  exact ⟨pre, b ++ post, by simp [List.append_assoc], rfl⟩

theorem At.right {code : List Ins} {off : Nat} {a b : List Ins} (h : At code off (a ++ b)) {off' : Nat}
    (e : off' = off + csize a) : At code off' b := by
  obtain ⟨pre, post, rfl, rfl⟩ := h
  exact ⟨pre ++ a, post, by simp [List.append_assoc], by simp [csize_append, e]⟩

theorem At.fetch {code : List Ins} {off : Nat} {i : Ins} {rest : List Ins} (h : At code off (i :: rest)) :
    fetch code off = some i := by
  obtain ⟨pre, post, rfl, rfl⟩ := h
  have : pre ++ i :: rest ++ post = pre ++ i :: (rest ++ post) := by simp
  rw [this]
  exact fetch_at pre _ i

theorem At.whole (frag : List Ins) : At frag 0 frag := ⟨[], [], by simp, rfl⟩

theorem At.prefix (a b : List Ins) : At (a ++ b) 0 a := ⟨[], b, by simp, rfl⟩

theorem At.suffix (a b : List Ins) : At (a ++ b) (csize a) b := ⟨a, [], by simp, rfl⟩

/-! ### the self-tail-call rule never fires: no `CALL` directly followed by `RET` or by `POP; RET` -/

/-- The list starts with `RET`, or with `POP; RET`. -/
def tailHead : List Ins → Bool
  | .ret _ :: _ => true
  | .pop :: .ret _ :: _ => true
  | _ => false

/-- No `CALL` of the list is directly followed by `RET`, or by `POP` and `RET`. -/
def noTail : List Ins → Bool
  | [] => true
  | .call _ :: rest => !tailHead rest && noTail rest
  | _ :: rest => noTail rest

theorem noTail_tail (i : Ins) (rest : List Ins) (h : noTail (i :: rest) = true) : noTail rest = true := by
  cases i <;> simp_all [noTail]

theorem noTail_suffix (pre x : List Ins) (h : noTail (pre ++ x) = true) : noTail x = true := by
  induction pre with
  | nil => simpa using h
  | cons i pre ih => exact ih (noTail_tail i _ (by simpa using h))

theorem tailNext_at (pre post : List Ins) : tailNext (pre ++ post) (csize pre) = tailHead post := by
  have h0 : fetch (pre ++ post) (csize pre) = post.head? := by
    have := fetch_append_right pre post 0
    simpa [fetch_zero] using this
  unfold tailNext
  rw [h0]
  cases post with
  | nil => simp [tailHead]
  | cons i post' =>
    cases i <;> simp only [List.head?_cons, tailHead]
    -- `POP`: look one instruction further
    have h1 : fetch (pre ++ Ins.pop :: post') (csize pre + 1) = post'.head? := by
      have h := fetch_append_right (pre ++ [Ins.pop]) post' 0
      simp only [csize_append, csize, Ins.size, Nat.add_zero, List.append_assoc, List.singleton_append,
        fetch_zero] at h
      exact h
    rw [h1]
    cases post' with
    | nil => simp [tailHead]
    | cons j post'' => cases j <;> simp [tailHead]

/-- After a `CALL` of code without tail patterns the tail-call test fails. -/
theorem noTail_call {code : List Ins} {p n : Nat} (hnt : noTail code = true)
    (hf : fetch code p = some (.call n)) : tailNext code (p + 3) = false := by
  obtain ⟨pre, post, rfl, rfl⟩ := fetch_split code p _ hf
  have h1 : noTail (Ins.call n :: post) = true := noTail_suffix pre _ hnt
  have h2 : tailHead post = false := by
    simp only [noTail, Bool.and_eq_true, Bool.not_eq_true'] at h1
    exact h1.1
  have h3 := tailNext_at (pre ++ [Ins.call n]) post
  simp only [csize_append, csize, Ins.size, Nat.add_zero, List.append_assoc, List.singleton_append] at h3
  rw [h3, h2]

/-- The instruction at `p` is a `RET`. -/
def retNext (code : List Ins) (p : Nat) : Bool :=
  match fetch code p with
  | some (.ret _) => true
  | _ => false

/-- Neither `RET` nor `POP`: after such an instruction-to-come the tail-call test fails. -/
def Ins.plain : Ins → Bool
  | .ret _ => false
  | .pop => false
  | _ => true

theorem tailNext_of_fetch {code : List Ins} {p : Nat} {i : Ins} (hf : fetch code p = some i)
    (hp : i.plain = true) : tailNext code p = false := by
  unfold tailNext
  rw [hf]
  cases i <;> simp_all [Ins.plain]

theorem tailNext_ret {code : List Ins} {p : Nat} {b : Bool} (hf : fetch code p = some (.ret b)) :
    tailNext code p = true ∧ nextIsPop code p = false := by
  unfold tailNext nextIsPop
  rw [hf]
  exact ⟨rfl, rfl⟩

/-- After a `POP` the tail-call test holds exactly when a `RET` follows the `POP`. -/
theorem tailNext_pop {code : List Ins} {p : Nat} (hf : fetch code p = some .pop) :
    tailNext code p = retNext code (p + 1) ∧ nextIsPop code p = true := by
  unfold tailNext nextIsPop retNext
  rw [hf]
  refine ⟨?_, rfl⟩
  cases fetch code (p + 1) with
  | none => rfl
  | some j => cases j <;> rfl

theorem retNext_of_fetch {code : List Ins} {p : Nat} {i : Ins} (hf : fetch code p = some i)
    (hp : ∀ b, i ≠ .ret b) : retNext code p = false := by
  unfold retNext
  rw [hf]
  cases i <;> simp_all

theorem fetch_end (c : List Ins) : fetch c (csize c) = none := by
  have := fetch_append_right c [] 0
  simpa [fetch] using this

theorem retNext_end (c : List Ins) : retNext c (csize c) = false := by
  unfold retNext
  rw [fetch_end]

/-! ### `copyArgs` when source and destination do not overlap -/

theorem copyArgs_spec (bp src n : Nat) (hsrc : bp + n ≤ src) :
    ∀ (m : Nat) (stk : Nat → V), m ≤ n → ∀ j,
      copyArgs stk bp src n m j =
        if bp + (n - m) ≤ j ∧ j < bp + n then stk (src + (j - bp)) else stk j
  | 0, stk, _, j => by
    simp only [copyArgs]
    rw [if_neg (by omega)]
  | m + 1, stk, hm, j => by
    simp only [copyArgs]
    rw [copyArgs_spec bp src n hsrc m _ (by omega) j]
    by_cases h1 : bp + (n - m) ≤ j ∧ j < bp + n
    · rw [if_pos h1, if_pos (by omega)]
      simp only [upd]
      rw [if_neg (by omega)]
    · rw [if_neg h1]
      by_cases h2 : j = bp + (n - (m + 1))
      · rw [if_pos (by omega)]
        simp only [upd, h2, if_true]
        congr 1; omega
      · rw [if_neg (by omega)]
        simp only [upd]
        rw [if_neg h2]

/-- All `n` arguments copied from `src …` to `bp …`. -/
theorem copyArgs_all (stk : Nat → V) (bp src n : Nat) (hsrc : bp + n ≤ src) (j : Nat) :
    copyArgs stk bp src n n j = if bp ≤ j ∧ j < bp + n then stk (src + (j - bp)) else stk j := by
  rw [copyArgs_spec bp src n hsrc n stk (Nat.le_refl _) j]
  simp

/-! ### runs -/

/-- `s` reaches `s'` in some number of dispatches. -/
def Runs (E : Env V) (M : Mach) (s s' : St V) : Prop := ∃ n, runN E M n s = .at s'

/-- `s` ends in a run-time error after some number of dispatches. -/
def Fails (E : Env V) (M : Mach) (s : St V) : Prop := ∃ n, runN E M n s = .err

theorem runN_add (E : Env V) (M : Mach) (n m : Nat) (s : St V) :
    runN E M (n + m) s =
      match runN E M n s with
      | .at s' => runN E M m s'
      | .err => .err
      | .stuck => .stuck := by
  induction n generalizing s with
  | zero => simp [runN]
  | succ n ih =>
    have : n + 1 + m = (n + m) + 1 := by omega
    rw [this]
    simp only [runN]
    cases step E M s with
    | next s' => simpa using ih s'
    | err => rfl
    | stuck => rfl

theorem Runs.refl (E : Env V) (M : Mach) (s : St V) : Runs E M s s := ⟨0, rfl⟩

theorem Runs.trans {E : Env V} {M : Mach} {a b c : St V} (h1 : Runs E M a b) (h2 : Runs E M b c) :
    Runs E M a c := by
  obtain ⟨n, hn⟩ := h1
  obtain ⟨m, hm⟩ := h2
  exact ⟨n + m, by rw [runN_add, hn]; exact hm⟩

theorem Runs.step {E : Env V} {M : Mach} {a b : St V} (h : step E M a = .next b) : Runs E M a b :=
  ⟨1, by simp [runN, h]⟩

theorem Runs.fails {E : Env V} {M : Mach} {a b : St V} (h1 : Runs E M a b) (h2 : Fails E M b) :
    Fails E M a := by
  obtain ⟨n, hn⟩ := h1
  obtain ⟨m, hm⟩ := h2
  exact ⟨n + m, by rw [runN_add, hn]; exact hm⟩

theorem Fails.step {E : Env V} {M : Mach} {a : St V} (h : F3.step E M a = .err) : Fails E M a :=
  ⟨1, by simp [runN, h]⟩

theorem Runs.of_eq {E : Env V} {M : Mach} {a b b' : St V} (h : Runs E M a b) (e : b = b') : Runs E M a b' :=
  e ▸ h

end Tengo.Model.F3

import Tengo.Proofs.C01ConverseDiverge
import Tengo.Proofs.C01BridgeVMRun
/-!
C01 bridge, converse direction, VM side: a fragment program on which the fragment's evaluator `F1.exec` runs
out of EVERY fuel keeps `VM.run` running: `VM.run` answers `outOfFuel` for every fuel (`diverges_outOfFuel`).
With `run_fuel_mono` (fuel is only a bound): an outcome of `VM.run` that holds for all large fuels is the
outcome at every fuel that is not `outOfFuel` (`run_agree`).
-/
set_option linter.unusedVariables false
set_option linter.unusedSimpArgs false
namespace Tengo.Proofs.C01Bridge
open Tengo.Model Tengo.Model.Spec Tengo.Model.VM Tengo.Model.F0

theorem run_zero (code : Code) (keep : Nat) (allocs : Int) (cfg : Cfg) (log : Log) :
    run code keep 0 allocs cfg log = (.outOfFuel cfg, log) := by
  rw [run]

/-- An outcome reached for all fuels `fuel + k` is the outcome at every fuel `m` that is not `outOfFuel`. -/
theorem run_agree (code : Code) (keep m fuel : Nat) (allocs : Int) (cfg : Cfg) (log : Log) (o : VM.Outcome)
    (h : ∀ k, (run code keep (fuel + k) allocs cfg log).1 = o) :
    (∃ c, (run code keep m allocs cfg log).1 = .outOfFuel c) ∨ (run code keep m allocs cfg log).1 = o := by
  by_cases hx : ∃ c, (run code keep m allocs cfg log).1 = .outOfFuel c
  · exact .inl hx
  · right
    have h1 := run_fuel_mono code keep m allocs cfg log fuel (fun c hc => hx ⟨c, hc⟩)
    have h2 := h m
    rw [Nat.add_comm, h1] at h2
    exact h2

section lift
variable {is : List Ins} {K n : Nat} {cs : Nat → SV} {code : Code}

/-- If the fragment's machine is still running after `m` dispatches, `VM.run` with fuel `≤ m` is out of fuel. -/
theorem steps_outOfFuel (hcode : CodeRel is K n cs code) {s s' : F0.St SV} {c : Core} (hrel : Rel n s c)
    (m : Nat) (hm : runNB stackSize vmSem cs is m s = .at s')
    (keep : Nat) (allocs : Int) (log : Log) (g : GSt) (h : Spec.St) (ha : allocs ≤ 0) :
    ∀ fuel, fuel ≤ m → ∃ cfg, (run code keep fuel allocs ⟨c, g, h⟩ log).1 = .outOfFuel cfg := by
  intro fuel hf
  obtain ⟨c1, a1, l1, ha1, hrel1, hrun⟩ := runNB_sim hcode keep g h m s s' c 0 allocs log hm hrel ha
  rw [Nat.add_zero, run_zero] at hrun
  by_cases hx : ∃ cfg, (run code keep fuel allocs ⟨c, g, h⟩ log).1 = .outOfFuel cfg
  · exact hx
  · exfalso
    have h1 := run_fuel_mono code keep fuel allocs ⟨c, g, h⟩ log (m - fuel) (fun c hc => hx ⟨c, hc⟩)
    have e : fuel + (m - fuel) = m := by omega
    rw [e, hrun] at h1
    exact hx ⟨⟨c1, g, h⟩, by rw [← h1]⟩

/-- **VM bridge, diverging runs.** If the fragment's evaluator runs out of every fuel, `VM.run` runs out of
every fuel: it never halts, never fails. -/
theorem diverges_outOfFuel {ss : F1.Stms} (hcode : CodeRel (F1.compSs 0 ss) K n cs code) {gl : Nat → SV} {c : Core}
    (hrel : Rel n ⟨0, [], gl⟩ c) (hd : F1.depthSs ss ≤ stackSize)
    (hout : ∀ f, F1.exec vmSem cs f (.inr ss) gl = .out)
    (keep : Nat) (allocs : Int) (log : Log) (g : GSt) (h : Spec.St) (ha : allocs ≤ 0) :
    ∀ fuel, ∃ cfg, (run code keep fuel allocs ⟨c, g, h⟩ log).1 = .outOfFuel cfg := by
  intro fuel
  obtain ⟨m, s', hm, hr⟩ := F1.program_diverges_bounded stackSize vmSem cs gl ss (fuel + F1.heightSs ss) hd (hout _)
  exact steps_outOfFuel hcode hrel m hr keep allocs log g h ha fuel (by omega)

end lift

/-- The fragment's evaluator, over all fuels: it runs out of every fuel, or finishes with some fuel, or
reports an error with some fuel. (Classical.) -/
theorem exec_cases {V : Type} (S : F0.Sem V) (cs : Nat → V) (c : F1.Code) (g : Nat → V) :
    (∀ f, F1.exec S cs f c g = .out) ∨ (∃ f g', F1.exec S cs f c g = .done g') ∨ (∃ f, F1.exec S cs f c g = .err) := by
  by_cases h : ∀ f, F1.exec S cs f c g = .out
  · exact .inl h
  · right
    have ⟨f, hf⟩ : ∃ f, F1.exec S cs f c g ≠ .out := Classical.not_forall.mp h
    cases hr : F1.exec S cs f c g with
    | done g' => exact .inl ⟨f, g', hr⟩
    | err => exact .inr ⟨f, hr⟩
    | out => exact absurd hr hf

end Tengo.Proofs.C01Bridge

import Tengo.Proofs.C02CompileStmt
/-!
C02 / `compile_verifies`: the induction over the compiler model, part 5 (loops).
-/
set_option linter.unusedVariables false
set_option linter.unusedSimpArgs false
namespace Tengo.Proofs.C02Compile
open Tengo.Model Tengo.Model.Opcodes Tengo.Model.Compiler Tengo.Model.Optimizer Tengo.Model.Verifier
open Tengo.Model.Spec (Expr Stmt)
open Tengo.Proofs.C03 Tengo.Proofs.C03Reloc

/-! ### `patchAll` -/

def patchLf (ps : List Nat) (t : Nat) (i : Instr) : Instr := if i.pos ∈ ps then { i with args := [t] } else i

theorem patchLf_patchI (p : Nat) (ps : List Nat) (t : Nat) (i : Instr) :
    patchLf ps t (patchI p t i) = patchLf (p :: ps) t i := by
  unfold patchLf patchI
  by_cases h1 : i.pos = p
  · simp [h1]
  · by_cases h2 : i.pos ∈ ps
    · simp [h1, h2]
    · simp [h1, h2]

theorem patchLf_nil (t : Nat) (i : Instr) : patchLf [] t i = i := by simp [patchLf]

theorem patchAll_spec : ∀ (ps : List Nat) (t : Nat) (s s' : CState) (M : List Instr) (F : List Nat),
    patchAll ps t s = .ok ((), s') → Inv s M F →
    (∀ p ∈ ps, ∃ i ∈ M, i.pos = p ∧ isJump i.op = true) →
    Inv s' (M.map (patchLf ps t)) F ∧ s'.consts = s.consts ∧ s'.tables = s.tables ∧ s'.saved = s.saved ∧
      s'.loops = s.loops
  | [], t, s, s', M, F, h, hinv, _ => by
    unfold patchAll at h
    rw [forM_nil'] at h
    have e : s' = s := (Prod.mk.inj (pure_ok h)).2
    subst e
    refine ⟨?_, rfl, rfl, rfl, rfl⟩
    have : M.map (patchLf [] t) = M := by
      conv => rhs; rw [← List.map_id M]
      exact List.map_congr_left (fun i _ => patchLf_nil t i)
    rw [this]; exact hinv
  | p :: ps, t, s, s', M, F, h, hinv, hj => by
    unfold patchAll at h
    rw [forM_cons'] at h
    obtain ⟨_, s1, h1, h2⟩ := bind_ok h
    have e1 := changeOperand_ok h1
    have es1 : s1 = chgS p t s := (Prod.mk.inj e1).2
    subst es1
    obtain ⟨i, hi, hip, hij⟩ := hj p List.mem_cons_self
    have hinv1 := hinv.chg (t := t) hi hip hij
    have hf := chgS_frame p t s
    have hj1 : ∀ q ∈ ps, ∃ i ∈ M.map (patchI p t), i.pos = q ∧ isJump i.op = true := by
      intro q hq
      obtain ⟨j, hjm, hjp, hjj⟩ := hj q (List.mem_cons_of_mem _ hq)
      exact ⟨patchI p t j, List.mem_map_of_mem hjm, by simpa using hjp, by simpa using hjj⟩
    obtain ⟨hinv', q1, q2, q3, q4⟩ := patchAll_spec ps t _ s' _ F h2 hinv1 hj1
    refine ⟨?_, by rw [q1, hf.1], by rw [q2, hf.2.1], by rw [q3, hf.2.2.1], by rw [q4, hf.2.2.2]⟩
    have : (M.map (patchI p t)).map (patchLf ps t) = M.map (patchLf (p :: ps) t) := by
      rw [List.map_map]
      exact List.map_congr_left (fun i _ => patchLf_patchI p ps t i)
    rw [← this]; exact hinv'

theorem patchLf_two (bs : List Nat) (tb : Nat) (cs : List Nat) (tc : Nat) (M : List Instr) :
    (M.map (patchLf bs tb)).map (patchLf cs tc) = P2 bs tb cs tc M := by
  rw [List.map_map]
  unfold P2
  refine List.map_congr_left (fun i _ => ?_)
  simp only [Function.comp, patchLf, patch2]
  by_cases h1 : i.pos ∈ bs <;> by_cases h2 : i.pos ∈ cs <;> simp [h1, h2]

/-- patches only touch the block that holds the pending jumps -/
theorem P2_local {X B Y : List Instr} {bs cs : List Nat} {tb tc lo hi : Nat} (hl : Layout 0 (X ++ B ++ Y))
    (hlo : lo = totalSize X) (hhi : hi = lo + totalSize B)
    (hr : ∀ p, p ∈ bs ∨ p ∈ cs → lo ≤ p ∧ p < hi) :
    P2 bs tb cs tc (X ++ B ++ Y) = X ++ P2 bs tb cs tc B ++ Y := by
  obtain ⟨h1, h2⟩ := layout_split hl
  obtain ⟨h3, h4⟩ := layout_split h1
  rw [P2_append, P2_append]
  have eX : P2 bs tb cs tc X = X := by
    refine P2_id (fun i hi' => ?_)
    have := layout_end h3 i hi'
    have := size_pos i
    exact ⟨fun h => by have := hr _ (Or.inl h); omega, fun h => by have := hr _ (Or.inr h); omega⟩
  have eY : P2 bs tb cs tc Y = Y := by
    refine P2_id (fun i hi' => ?_)
    have := layout_ge h2 i hi'
    rw [totalSize_append] at this
    exact ⟨fun h => by have := hr _ (Or.inl h); omega, fun h => by have := hr _ (Or.inr h); omega⟩
  rw [eX, eY]

/-! ### the common middle of `for` and `for-in` -/

def enterLS (s : CState) : CState := { s with loops := {} :: s.loops }
def leaveLS (s : CState) : CState := { s with loops := s.loops.drop 1 }

theorem enterLoop_ok {s : CState} {r : Unit × CState} (h : enterLoop s = .ok r) : r.2 = enterLS s := by
  have : enterLoop s = .ok ((), enterLS s) := rfl
  rw [this] at h; injection h with h; subst h; rfl

theorem leaveLoop_ok {s : CState} {r : Loop × CState} (h : leaveLoop s = .ok r) :
    r = (s.loops.headD {}, leaveLS s) := by
  have : leaveLoop s = .ok (s.loops.headD {}, leaveLS s) := rfl
  rw [this] at h; injection h with h; exact h.symm

/-- `enterLoop; body; leaveLoop; post; JMP pre`, up to the position after the jump back. `K` is the rest
(the patches), which receives the loop record, the post-body position and the end position. -/
theorem loop_mid (bodyM postM : CM Unit) (nb np : Nat) (Q : Chain → Prop)
    (hQ : ∀ c c', ChainLe c c' → Q c → Q c')
    (hbody : ∀ s s' L F, bodyM s = .ok ((), s') → Inv s L F → Q s.tables → SRes s s' L F nb)
    (hpost : ∀ s s' L F, postM s = .ok ((), s') → Inv s L F → Q s.tables → SRes s s' L F np)
    (pre : Nat) {s s' : CState} {M : List Instr} {F : List Nat} {K : Loop → Nat → Nat → CM Unit}
    (h : (do
      enterLoop
      bodyM
      let loop ← leaveLoop
      let pb ← curPos
      postM
      discard <| emit opJump [pre]
      let ps ← curPos
      K loop pb ps) s = .ok ((), s'))
    (hinv : Inv s M F) (hq : Q s.tables) :
    ∃ s8 Bd P F' bs cs bsP csP,
      K { continues := cs, breaks := bs } (totalSize M + totalSize Bd)
        (totalSize M + totalSize Bd + totalSize P + 5) s8 = .ok ((), s') ∧
      Inv s8 (M ++ Bd ++ P ++ [⟨totalSize M + totalSize Bd + totalSize P, opJump, [pre]⟩]) F' ∧
      Step s s8 F F' ∧ s8.loops = addPend s.loops bsP csP ∧ (s.loops = [] → bsP = [] ∧ csP = []) ∧
      SBlk (totalSize M) (totalSize M + totalSize Bd) Bd bs cs ∧
      SBlk (totalSize M + totalSize Bd) (totalSize M + totalSize Bd + totalSize P) P bsP csP ∧
      totalSize Bd ≤ nb ∧ totalSize P ≤ np := by
  have hjj : isJump opJump = true := rfl
  obtain ⟨_, s1, h1, hA⟩ := bind_ok h
  obtain ⟨_, s2, h2, hB⟩ := bind_ok hA
  obtain ⟨loop, s3, h3, hC⟩ := bind_ok hB
  obtain ⟨pb, s3', h4, hD⟩ := bind_ok hC
  obtain ⟨_, s5, h5, hE⟩ := bind_ok hD
  obtain ⟨_, s6, h6, hF⟩ := bind_ok hE
  obtain ⟨ps, s6', h7, hG⟩ := bind_ok hF
  clear h hA hB hC hD hE hF
  have e1 := enterLoop_ok h1; simp only at e1; subst e1
  have hinv1 : Inv (enterLS s) M F := hinv.of_eq rfl rfl rfl
  obtain ⟨Bd, F₁, bs, cs, o1⟩ := hbody _ s2 M F h2 hinv1 hq
  have e3 := leaveLoop_ok h3
  have eloop : loop = s2.loops.headD {} := (Prod.mk.inj e3).1
  have es3 : s3 = leaveLS s2 := (Prod.mk.inj e3).2
  subst es3
  have hl2 : s2.loops = { continues := cs, breaks := bs } :: s.loops := by
    rw [o1.loops]; rfl
  have eloop' : loop = { continues := cs, breaks := bs } := by rw [eloop, hl2]; rfl
  subst eloop'
  have e4 := curPos_ok h4
  have epb : pb = (leaveLS s2).insts.size := (Prod.mk.inj e4).1
  have es3' : s3' = leaveLS s2 := (Prod.mk.inj e4).2
  subst es3'
  have hinv3 : Inv (leaveLS s2) (M ++ Bd) F₁ := o1.inv.of_eq rfl rfl rfl
  obtain ⟨P, F₂, bsP, csP, o2⟩ := hpost _ s5 _ F₁ h5 hinv3 (hQ _ _ o1.step.tabs hq)
  have e6 := demit_ok h6; simp only at e6; subst e6
  have inv6 := o2.inv.emit (op := opJump) (args := [pre]) (jump_shape hjj) (opReq_jump hjj)
  have e7 := curPos_ok h7
  have eps : ps = (emitS opJump [pre] s5).insts.size := (Prod.mk.inj e7).1
  have es6' : s6' = emitS opJump [pre] s5 := (Prod.mk.inj e7).2
  subst es6'
  have hszb : (leaveLS s2).insts.size = totalSize M + totalSize Bd := by
    rw [hinv3.em.size, totalSize_append]
  have hL : totalSize (M ++ Bd ++ P) = totalSize M + totalSize Bd + totalSize P := by
    simp only [totalSize_append]
  rw [hL] at inv6
  have hszs : (emitS opJump [pre] s5).insts.size = totalSize M + totalSize Bd + totalSize P + 5 := by
    rw [inv6.em.size]; simp only [totalSize_append, totalSize_cons, totalSize_nil, jump_size hjj] <;> omega
  rw [epb, eps, hszb, hszs] at hG
  refine ⟨_, Bd, P, F₂, bs, cs, bsP, csP, hG, inv6, ?_, ?_, ?_, ?_, ?_, o1.size, o2.size⟩
  · have st1 : Step s (enterLS s) F F := Step.of_eq F rfl rfl rfl
    have st3 : Step s2 (leaveLS s2) F₁ F₁ := Step.of_eq F₁ rfl rfl rfl
    have st6 : Step s5 (emitS opJump [pre] s5) F₂ F₂ := Step.of_eq F₂ rfl rfl rfl
    exact (((st1.trans o1.step).trans st3).trans o2.step).trans st6
  · show s5.loops = _
    rw [o2.loops]
    show addPend (s2.loops.drop 1) bsP csP = _
    rw [hl2]; rfl
  · intro hn
    exact o2.nopend (by show s2.loops.drop 1 = []; rw [hl2]; exact hn)
  · exact o1.blk
  · have := o2.blk
    rw [totalSize_append] at this
    exact this

/-! ### `for` -/

def forCond (d : Nat) (c : Option Expr) : CM (Option Nat) :=
  match c with
  | some c => do compileExpr d c; let p ← emit opJumpFalsy [0]; pure (some p)
  | none => pure none

def forPatch (pcp : Option Nat) (ps : Nat) : CM Unit :=
  match pcp with
  | some p => changeOperand p ps
  | none => pure ()

def szOC (d : Nat) (c : Option Expr) : Nat := match c with | some c => szE d c + 5 | none => 0

theorem compile_fors (d : Nat) (ini : Option Stmt) (c : Option Expr) (post : Option Stmt) (body : List Stmt) :
    compileStmt (d + 1) (.fors ini c post body) = (do
      fork true
      compOS d ini
      let pre ← curPos
      let pcp ← forCond d c
      enterLoop
      compileBlock d body
      let loop ← leaveLoop
      let pb ← curPos
      compOS d post
      discard <| emit opJump [pre]
      let ps ← curPos
      forPatch pcp ps
      patchAll loop.breaks ps
      patchAll loop.continues pb
      unfork) := by
  rw [compileStmt]; cases ini <;> cases c <;> cases post <;> simp [compOS, forCond, forPatch]

theorem szS_fors (d : Nat) (ini : Option Stmt) (c : Option Expr) (post : Option Stmt) (body : List Stmt) :
    szS (d + 1) (.fors ini c post body) = szOS d ini + szOC d c + szBlock d body + szOS d post + 5 := by
  cases ini <;> cases c <;> cases post <;> simp only [szS, szOS, szOC]

/-- the patches at the end of a loop, on the instruction list -/
theorem loop_patches {s8 s' : CState} {X Bd Y : List Instr} {F : List Nat} {bs cs : List Nat} {lo hi pb ps : Nat}
    (h : (do patchAll bs ps; patchAll cs pb) s8 = .ok ((), s'))
    (hinv : Inv s8 (X ++ Bd ++ Y) F) (hblk : SBlk lo hi Bd bs cs) (hlo : lo = totalSize X) :
    Inv s' (X ++ P2 bs ps cs pb Bd ++ Y) F ∧ s'.consts = s8.consts ∧ s'.tables = s8.tables ∧
      s'.saved = s8.saved ∧ s'.loops = s8.loops := by
  obtain ⟨_, s9, h1, h2⟩ := bind_ok h
  have hjmp : ∀ (M : List Instr), (∀ i ∈ Bd, ∃ j ∈ M, j.pos = i.pos ∧ j.op = i.op) →
      ∀ p, p ∈ bs ∨ p ∈ cs → ∃ i ∈ M, i.pos = p ∧ isJump i.op = true := by
    intro M hM p hp
    obtain ⟨i, hi, hip, hio⟩ := hblk.pend p hp
    obtain ⟨j, hj, hjp, hjo⟩ := hM i hi
    exact ⟨j, hj, by rw [hjp, hip], by rw [hjo, hio]; rfl⟩
  obtain ⟨hinv9, q1, q2, q3, q4⟩ := patchAll_spec bs ps s8 s9 _ F h1 hinv
    (fun p hp => hjmp _ (fun i hi => ⟨i, by simp [hi], rfl, rfl⟩) p (Or.inl hp))
  obtain ⟨hinv', r1, r2, r3, r4⟩ := patchAll_spec cs pb s9 s' _ F h2 hinv9
    (fun p hp => hjmp _ (fun i hi => ⟨patchLf bs ps i, List.mem_map_of_mem (by simp [hi]), by
      unfold patchLf; split <;> rfl, by unfold patchLf; split <;> rfl⟩) p (Or.inr hp))
  rw [patchLf_two] at hinv'
  rw [P2_local (lo := lo) (hi := hi) hinv.em.lay hlo (by rw [hblk.hi_eq]) (fun p hp => hblk.pend_range hp)] at hinv'
  exact ⟨hinv', by rw [r1, q1], by rw [r2, q2], by rw [r3, q3], by rw [r4, q4]⟩

theorem forcore_none {d : Nat} (ih : All d) (post : Option Stmt) (body : List Stmt) (s s' : CState)
    (L : List Instr) (F : List Nat)
    (h : (do
      let pre ← curPos
      let pcp ← forCond d none
      enterLoop
      compileBlock d body
      let loop ← leaveLoop
      let pb ← curPos
      compOS d post
      discard <| emit opJump [pre]
      let ps ← curPos
      forPatch pcp ps
      patchAll loop.breaks ps
      patchAll loop.continues pb) s = .ok ((), s'))
    (hinv : Inv s L F) (hszb : szBlock d body < 2 ^ 30) (hszp : szOS d post < 2 ^ 30) :
    SRes s s' L F (0 + szBlock d body + szOS d post + 5) := by
  obtain ⟨pre, s0, h0, hA⟩ := bind_ok h
  have e0 := curPos_ok h0
  have epre : pre = s.insts.size := (Prod.mk.inj e0).1
  have es0 : s0 = s := (Prod.mk.inj e0).2
  subst es0
  obtain ⟨pcp, s0', h0', hB⟩ := bind_ok hA
  have e0' := pure_ok h0'
  have epcp : pcp = none := (Prod.mk.inj e0').1
  have es0' : s0' = s0 := (Prod.mk.inj e0').2
  subst es0'; subst epcp
  clear h hA e0 e0' h0 h0'
  obtain ⟨s8, Bd, P, F', bs, cs, bsP, csP, hK, hinv8, hst, hl8, hnp, hbd, hbp, hsb, hsp⟩ :=
    loop_mid (compileBlock d body) (compOS d post) (szBlock d body) (szOS d post) (fun _ => True)
      (fun _ _ _ _ => trivial)
      (fun s s' L F h hi _ => ih.b body s s' L F h hi hszb) (fun s s' L F h hi _ => sres_optS ih post h hi hszp)
      pre (K := fun loop pb ps => do forPatch none ps; patchAll loop.breaks ps; patchAll loop.continues pb)
      hB hinv trivial
  obtain ⟨_, s8', h8, hK2⟩ := bind_ok hK
  have e8 : s8' = s8 := (Prod.mk.inj (pure_ok h8)).2
  subst e8
  have hpre : pre = totalSize L := by rw [epre, hinv.em.size]
  subst hpre
  have hinv8' : Inv s8' (L ++ Bd ++ (P ++ [⟨totalSize L + totalSize Bd + totalSize P, opJump, [totalSize L]⟩])) F' := by
    simpa using hinv8
  obtain ⟨hinv', q1, q2, q3, q4⟩ := loop_patches hK2 hinv8' hbd rfl
  refine ⟨P2 bs (totalSize L + totalSize Bd + totalSize P + 5) cs (totalSize L + totalSize Bd) Bd ++ P ++
      [⟨totalSize L + totalSize Bd + totalSize P, opJump, [totalSize L]⟩], F', bsP, csP,
    ⟨by simpa using hinv', hst.trans (Step.of_eq F' q3 q2 q1), by rw [q4, hl8], hnp, ?_, ?_⟩⟩
  · simp only [totalSize_append, totalSize_cons, totalSize_nil, totalSize_P2, jump_size (rfl : isJump opJump = true)]
    omega
  · exact (SBlk.loopN hbd hbp).cast rfl (by
      simp only [totalSize_append, totalSize_cons, totalSize_nil, totalSize_P2,
        jump_size (rfl : isJump opJump = true)] <;> omega)

theorem forcore_some {d : Nat} (ih : All d) (c : Expr) (post : Option Stmt) (body : List Stmt) (s s' : CState)
    (L : List Instr) (F : List Nat)
    (h : (do
      let pre ← curPos
      let pcp ← forCond d (some c)
      enterLoop
      compileBlock d body
      let loop ← leaveLoop
      let pb ← curPos
      compOS d post
      discard <| emit opJump [pre]
      let ps ← curPos
      forPatch pcp ps
      patchAll loop.breaks ps
      patchAll loop.continues pb) s = .ok ((), s'))
    (hinv : Inv s L F) (hszc : szE d c < 2 ^ 30) (hszb : szBlock d body < 2 ^ 30) (hszp : szOS d post < 2 ^ 30) :
    SRes s s' L F (szE d c + 5 + szBlock d body + szOS d post + 5) := by
  have hjf : isJump opJumpFalsy = true := rfl
  have hjj : isJump opJump = true := rfl
  obtain ⟨pre, s0, h0, hA⟩ := bind_ok h
  have e0 := curPos_ok h0
  have epre : pre = s.insts.size := (Prod.mk.inj e0).1
  have es0 : s0 = s := (Prod.mk.inj e0).2
  subst es0
  obtain ⟨pcp, s3, hc, hB⟩ := bind_ok hA
  clear h hA e0 h0
  -- the condition
  unfold forCond at hc
  obtain ⟨_, s1, h1, hc1⟩ := bind_ok hc
  obtain ⟨jp, s2, h2, hc2⟩ := bind_ok hc1
  have e3 := pure_ok hc2
  have epcp : pcp = some jp := (Prod.mk.inj e3).1
  have es3 : s3 = s2 := (Prod.mk.inj e3).2
  subst es3; subst epcp
  clear hc hc1 hc2 e3
  obtain ⟨C, F₁, o1, hb1⟩ := ih.e c s0 s1 L F h1 hinv hszc
  have e2 := emit_ok h2
  have ejp : jp = s1.insts.size := (Prod.mk.inj e2).1
  have es2 : s3 = emitS opJumpFalsy [0] s1 := (Prod.mk.inj e2).2
  subst es2
  have inv2 := o1.inv.emit (op := opJumpFalsy) (args := [0]) (jump_shape hjf) (opReq_jump hjf)
  have hsz1 : s1.insts.size = totalSize L + totalSize C := by rw [o1.inv.em.size, totalSize_append]
  have hjp : jp = totalSize L + totalSize C := by rw [ejp, hsz1]
  subst hjp
  have hL : totalSize (L ++ C) = totalSize L + totalSize C := totalSize_append _ _
  rw [hL] at inv2
  have hpre : pre = totalSize L := by rw [epre, hinv.em.size]
  subst hpre
  obtain ⟨s8, Bd, P, F', bs, cs, bsP, csP, hK, hinv8, hst, hl8, hnp, hbd, hbp, hsb, hsp⟩ :=
    loop_mid (compileBlock d body) (compOS d post) (szBlock d body) (szOS d post) (fun _ => True)
      (fun _ _ _ _ => trivial)
      (fun s s' L F h hi _ => ih.b body s s' L F h hi hszb) (fun s s' L F h hi _ => sres_optS ih post h hi hszp)
      (totalSize L) (K := fun loop pb ps => do
        forPatch (some (totalSize L + totalSize C)) ps; patchAll loop.breaks ps; patchAll loop.continues pb)
      hB inv2 trivial
  have hM : totalSize (L ++ C ++ [⟨totalSize L + totalSize C, opJumpFalsy, [0]⟩]) = totalSize L + totalSize C + 5 := by
    simp only [totalSize_append, totalSize_cons, totalSize_nil, jump_size hjf]
  rw [hM] at hK hinv8 hbd hbp
  obtain ⟨_, s9, h9, hK2⟩ := bind_ok hK
  have e9 := changeOperand_ok h9
  have es9 : s9 = _ := (Prod.mk.inj e9).2
  subst es9
  have hinv8' : Inv s8 ((L ++ C) ++ ⟨totalSize L + totalSize C, opJumpFalsy, [0]⟩ ::
      (Bd ++ P ++ [⟨totalSize L + totalSize C + 5 + totalSize Bd + totalSize P, opJump, [totalSize L]⟩])) F' := by
    simpa using hinv8
  have hinv9 := hinv8'.patch (t := totalSize L + totalSize C + 5 + totalSize Bd + totalSize P + 5) hjf
  have hf9 := chgS_frame (totalSize L + totalSize C) (totalSize L + totalSize C + 5 + totalSize Bd + totalSize P + 5) s8
  have hinv9' : Inv (chgS (totalSize L + totalSize C) (totalSize L + totalSize C + 5 + totalSize Bd + totalSize P + 5) s8)
      ((L ++ C ++ [⟨totalSize L + totalSize C, opJumpFalsy, [totalSize L + totalSize C + 5 + totalSize Bd + totalSize P + 5]⟩])
        ++ Bd ++ (P ++ [⟨totalSize L + totalSize C + 5 + totalSize Bd + totalSize P, opJump, [totalSize L]⟩])) F' := by
    simpa using hinv9
  obtain ⟨hinv', q1, q2, q3, q4⟩ := loop_patches hK2 hinv9' hbd (by
    simp only [totalSize_append, totalSize_cons, totalSize_nil, jump_size hjf])
  refine ⟨C ++ ⟨totalSize L + totalSize C, opJumpFalsy, [totalSize L + totalSize C + 5 + totalSize Bd + totalSize P + 5]⟩ ::
      (P2 bs (totalSize L + totalSize C + 5 + totalSize Bd + totalSize P + 5) cs (totalSize L + totalSize C + 5 + totalSize Bd) Bd
        ++ P ++ [⟨totalSize L + totalSize C + 5 + totalSize Bd + totalSize P, opJump, [totalSize L]⟩]), F', bsP, csP,
    ⟨by simpa using hinv', ?_, ?_, ?_, ?_, ?_⟩⟩
  · have st2 : Step s1 (emitS opJumpFalsy [0] s1) F₁ F₁ := Step.of_eq F₁ rfl rfl rfl
    exact (((o1.step.trans st2).trans hst).trans (Step.of_eq F' hf9.2.2.1 hf9.2.1 hf9.1)).trans
      (Step.of_eq F' q3 q2 q1)
  · rw [q4, hf9.2.2.2, hl8]
    show addPend s1.loops bsP csP = _
    rw [o1.loops]
  · intro hn
    exact hnp (by show s1.loops = []; rw [o1.loops]; exact hn)
  · simp only [totalSize_append, totalSize_cons, totalSize_nil, totalSize_P2, jump_size hjf, jump_size hjj]
    have := o1.size; omega
  · exact (SBlk.loopC (hb1 0) hbd hbp).cast rfl (by
      simp only [totalSize_append, totalSize_cons, totalSize_nil, totalSize_P2, jump_size hjf, jump_size hjj] <;> omega)

theorem sspec_fors {d : Nat} (ih : All d) (ini : Option Stmt) (c : Option Expr) (post : Option Stmt)
    (body : List Stmt) (s s' : CState) (L : List Instr) (F : List Nat)
    (h : compileStmt (d + 1) (.fors ini c post body) s = .ok ((), s')) (hinv : Inv s L F)
    (hsz : szS (d + 1) (.fors ini c post body) < 2 ^ 30) :
    SRes s s' L F (szS (d + 1) (.fors ini c post body)) := by
  rw [compile_fors] at h
  rw [szS_fors] at hsz ⊢
  obtain ⟨_, s0, h0, hA⟩ := bind_ok h
  have e0 : s0 = forkS true s := by
    rw [fork_run] at h0; injection h0 with h0; exact (Prod.mk.inj h0).2.symm
  subst e0
  obtain ⟨_, s1, h1, hB⟩ := bind_ok hA
  have hB' : ((do
      let pre ← curPos
      let pcp ← forCond d c
      enterLoop
      compileBlock d body
      let loop ← leaveLoop
      let pb ← curPos
      compOS d post
      discard <| emit opJump [pre]
      let ps ← curPos
      forPatch pcp ps
      patchAll loop.breaks ps
      patchAll loop.continues pb) >>= fun _ => unfork) s1 = .ok ((), s') := by
    simpa [bind_assoc] using hB
  obtain ⟨_, s2, h2, hC⟩ := bind_ok hB'
  have e2 : s' = unforkS s2 := by
    rw [unfork_run] at hC; injection hC with hC; exact (Prod.mk.inj hC).2.symm
  subst e2
  refine SRes.forked hinv ?_
  have r1 := sres_optS ih ini h1 hinv.fork (by omega)
  have hass : szOS d ini + szOC d c + szBlock d body + szOS d post + 5 =
      szOS d ini + (szOC d c + szBlock d body + szOS d post + 5) := by omega
  rw [hass]
  refine r1.bind (fun L₁ F₁ hinv1 => ?_)
  cases c with
  | none => exact forcore_none ih post body s1 s2 L₁ F₁ h2 hinv1 (by omega) (by omega)
  | some c =>
    simp only [szOC] at hsz ⊢
    exact forcore_some ih c post body s1 s2 L₁ F₁ h2 hinv1 (by omega) (by omega) (by omega)

end Tengo.Proofs.C02Compile

import Tengo.Model.Verifier
import Tengo.Proofs.C02CompileLayout
/-!
C02 / `compile_verifies`, pure block layer: the abstract stack discipline (`Verifier.succs`) of
instruction blocks, independent of the compiler monad.

* `Core lo hi a b H B T`: block `B` on `[lo, hi)` entered at height `a`, left at height `b`, every
  instruction consistent with the height function `H`; jumps stay inside the block (instruction
  starts or its end) except to the open targets `T`. `Core.seq` (composition), `Core.single`,
  `Core.fwd` / `Core.ifelse` / `Core.loopC` / `Core.loopN` (the jump structures the compiler emits),
  `Core.close`.
* `EBlk lo hi a B`: the code of an expression (height `a` to `a + 1`, closed, no POP / RET, a final
  CALL sits at `a + args + 1`); `Seq`: closed straight-line compositions.
* `SBlk lo hi B bs cs`: the code of a statement (height 0 to 0) with pending `break` / `continue`
  jumps at `bs` / `cs`, for every final target (`P2`); shapes `exprStmt`, `ofSeq` (assignments),
  `ret0/ret1`, `brk/cont`, `if1`, `ifelse`, `loopC`, `loopN`, `append`.
-/
set_option linter.unusedVariables false
set_option linter.unusedSimpArgs false
namespace Tengo.Proofs.C02Compile
open Tengo.Model Tengo.Model.Opcodes Tengo.Model.Optimizer Tengo.Model.Verifier Tengo.Proofs.C03

/-- Allowed successor positions of a block: the start of one of its instructions, or its end. -/
def Tgt (B : List Instr) (hi p : Nat) : Prop := p = hi ∨ ∃ j ∈ B, j.pos = p

/-- Instruction `i` is consistent with the height function `H`: it does not underflow and each of
its abstract successors is an allowed position of the block carrying the height `H` says, or one of
the still open outside targets `T` (position, height). -/
def OKi (H : Nat → Nat) (B : List Instr) (hi : Nat) (T : Nat → Nat → Prop) (i : Instr) : Prop :=
  ∃ l, succs i (H i.pos) = some l ∧ ∀ q ∈ l, (Tgt B hi q.1 ∧ H q.1 = q.2) ∨ T q.1 q.2

def callArity (x : Instr) : Nat := x.args.headD 0 + 1
def isPR (y : Instr) : Prop := y.op = opPop ∨ y.op = opReturn

/-- A block `B` laid out on `[lo, hi)`, entered at height `a`, left (by falling off its end) at height
`b`, consistent with `H`; jumps may leave the block only to the open targets `T`. -/
structure Core (lo hi a b : Nat) (H : Nat → Nat) (B : List Instr) (T : Nat → Nat → Prop) : Prop where
  lay : Layout lo B
  hi_eq : hi = lo + totalSize B
  hlo : H lo = a
  hhi : H hi = b
  ok : ∀ i ∈ B, OKi H B hi T i
  bnd : ∀ i ∈ B, H i.pos ≤ a + (i.pos - lo)
  bhi : b ≤ a + (hi - lo)
  /-- a CALL directly followed by POP or RET sits at height `args + 1` (tail-call shape) -/
  tc : ∀ x ∈ B, ∀ y ∈ B, y.pos = x.pos + x.size → x.op = opCall → isPR y → H x.pos = callArity x

theorem OKi.congr {H H' : Nat → Nat} {B B' : List Instr} {hi hi' : Nat} {T T' : Nat → Nat → Prop} {i : Instr}
    (h : OKi H B hi T i) (hp : H' i.pos = H i.pos)
    (ht : ∀ p, Tgt B hi p → Tgt B' hi' p ∧ H' p = H p) (hT : ∀ p h, T p h → T' p h) :
    OKi H' B' hi' T' i := by
  obtain ⟨l, hl, hq⟩ := h
  refine ⟨l, by rw [hp]; exact hl, ?_⟩
  intro q hqm
  rcases hq q hqm with ⟨h1, h2⟩ | h1
  · obtain ⟨h3, h4⟩ := ht q.1 h1
    exact Or.inl ⟨h3, by rw [h4]; exact h2⟩
  · exact Or.inr (hT _ _ h1)

theorem mem_range {lo : Nat} {B : List Instr} (hl : Layout lo B) {i : Instr} (hi : i ∈ B) :
    lo ≤ i.pos ∧ i.pos + i.size ≤ lo + totalSize B ∧ i.pos < lo + totalSize B :=
  ⟨layout_ge hl i hi, layout_end hl i hi, by have := layout_end hl i hi; have := size_pos i; omega⟩

theorem layout_head_pos {lo : Nat} {B : List Instr} (hl : Layout lo B) (hne : B ≠ []) :
    ∃ y ∈ B, y.pos = lo := by
  cases B with
  | nil => exact absurd rfl hne
  | cons y B => exact ⟨y, List.mem_cons_self, hl.1⟩

theorem totalSize_pos {B : List Instr} (hne : B ≠ []) : 0 < totalSize B := by
  cases B with
  | nil => exact absurd rfl hne
  | cons y B => rw [totalSize_cons]; have := size_pos y; omega

/-- the end of the first block is the start of the second, or the common end -/
theorem tgt_mid {m hi : Nat} {B₁ B₂ : List Instr} (hl : Layout m B₂) (hhi : hi = m + totalSize B₂) :
    Tgt (B₁ ++ B₂) hi m := by
  by_cases hne : B₂ = []
  · subst hne; left; simpa using hhi.symm
  · obtain ⟨y, hy, hp⟩ := layout_head_pos hl hne
    exact Or.inr ⟨y, List.mem_append_right _ hy, hp⟩

theorem tgt_append_left {m hi p : Nat} {B₁ B₂ : List Instr} (hl : Layout m B₂) (hhi : hi = m + totalSize B₂)
    (h : Tgt B₁ m p) : Tgt (B₁ ++ B₂) hi p := by
  rcases h with rfl | ⟨j, hj, hp⟩
  · exact tgt_mid hl hhi
  · exact Or.inr ⟨j, List.mem_append_left _ hj, hp⟩

theorem tgt_append_right {hi p : Nat} {B₁ B₂ : List Instr} (h : Tgt B₂ hi p) : Tgt (B₁ ++ B₂) hi p := by
  rcases h with rfl | ⟨j, hj, hp⟩
  · exact Or.inl rfl
  · exact Or.inr ⟨j, List.mem_append_right _ hj, hp⟩

/-- every allowed position of a block lies in `[lo, hi]` -/
theorem tgt_range {lo hi p : Nat} {B : List Instr} (hl : Layout lo B) (hhi : hi = lo + totalSize B)
    (h : Tgt B hi p) : lo ≤ p ∧ p ≤ hi := by
  rcases h with rfl | ⟨j, hj, hp⟩
  · omega
  · have := mem_range hl hj; omega

/-- Two height functions glued at `m`. -/
def glue (m : Nat) (H₁ H₂ : Nat → Nat) : Nat → Nat := fun p => if p < m then H₁ p else H₂ p

theorem glue_lt {m p : Nat} (H₁ H₂ : Nat → Nat) (h : p < m) : glue m H₁ H₂ p = H₁ p := by simp [glue, h]
theorem glue_ge {m p : Nat} (H₁ H₂ : Nat → Nat) (h : m ≤ p) : glue m H₁ H₂ p = H₂ p := by
  simp [glue, Nat.not_lt.mpr h]

/-- Sequential composition. The side condition concerns a CALL ending the first block that is
directly followed by a POP / RET starting the second. -/
theorem Core.seq {lo m hi a b c : Nat} {H₁ H₂ : Nat → Nat} {B₁ B₂ : List Instr} {T : Nat → Nat → Prop}
    (h1 : Core lo m a b H₁ B₁ T) (h2 : Core m hi b c H₂ B₂ T)
    (hb : ∀ x ∈ B₁, x.pos + x.size = m → x.op = opCall → ∀ y ∈ B₂, y.pos = m → isPR y →
      H₁ x.pos = callArity x) :
    Core lo hi a c (glue m H₁ H₂) (B₁ ++ B₂) T := by
  have hlm : lo ≤ m := by have := h1.hi_eq; omega
  have hmh : m ≤ hi := by have := h2.hi_eq; omega
  have hH1m : H₁ m = b := h1.hhi
  have hH2m : H₂ m = b := h2.hlo
  have hlay : Layout lo (B₁ ++ B₂) := layout_append h1.lay (by rw [← h1.hi_eq]; exact h2.lay)
  have hgl1 : ∀ p, Tgt B₁ m p → Tgt (B₁ ++ B₂) hi p ∧ glue m H₁ H₂ p = H₁ p := by
    intro p hp
    refine ⟨tgt_append_left h2.lay h2.hi_eq hp, ?_⟩
    rcases hp with rfl | ⟨j, hj, hjp⟩
    · rw [glue_ge _ _ (Nat.le_refl _), hH2m, hH1m]
    · have := mem_range h1.lay hj
      rw [glue_lt]; have := h1.hi_eq; have := size_pos j; omega
  have hgl2 : ∀ p, Tgt B₂ hi p → Tgt (B₁ ++ B₂) hi p ∧ glue m H₁ H₂ p = H₂ p := by
    intro p hp
    exact ⟨tgt_append_right hp, glue_ge _ _ (tgt_range h2.lay h2.hi_eq hp).1⟩
  refine ⟨hlay, ?_, ?_, ?_, ?_, ?_, ?_, ?_⟩
  · rw [totalSize_append, h2.hi_eq, h1.hi_eq]; omega
  · by_cases hlt : lo < m
    · rw [glue_lt _ _ hlt]; exact h1.hlo
    · have e : lo = m := by omega
      subst e
      rw [glue_ge _ _ (Nat.le_refl _), hH2m, ← hH1m]; exact h1.hlo
  · rw [glue_ge _ _ hmh]; exact h2.hhi
  · intro i hi'
    rcases List.mem_append.mp hi' with hm | hm
    · have hr := mem_range h1.lay hm
      have hlt : i.pos < m := by have := h1.hi_eq; omega
      exact (h1.ok i hm).congr (glue_lt _ _ hlt) hgl1 (fun _ _ h => h)
    · have hr := mem_range h2.lay hm
      exact (h2.ok i hm).congr (glue_ge _ _ hr.1) hgl2 (fun _ _ h => h)
  · intro i hi'
    rcases List.mem_append.mp hi' with hm | hm
    · have hr := mem_range h1.lay hm
      rw [glue_lt _ _ (by have := h1.hi_eq; omega)]; exact h1.bnd i hm
    · have hr := mem_range h2.lay hm
      rw [glue_ge _ _ hr.1]
      have := h2.bnd i hm
      have := h1.bhi
      omega
  · have := h1.bhi; have := h2.bhi; omega
  · intro x hx y hy hxy hop hpr
    rcases List.mem_append.mp hx with hxm | hxm <;> rcases List.mem_append.mp hy with hym | hym
    · have hr := mem_range h1.lay hxm
      rw [glue_lt _ _ (by have := h1.hi_eq; omega)]
      exact h1.tc x hxm y hym hxy hop hpr
    · have hr := mem_range h1.lay hxm
      have hr2 := mem_range h2.lay hym
      rw [glue_lt _ _ (by have := h1.hi_eq; omega)]
      have := h1.hi_eq
      exact hb x hxm (by omega) hop y hym (by omega) hpr
    · have hr := mem_range h2.lay hxm
      have hr2 := mem_range h1.lay hym
      have := h1.hi_eq; have := size_pos x; omega
    · have hr := mem_range h2.lay hxm
      rw [glue_ge _ _ hr.1]
      exact h2.tc x hxm y hym hxy hop hpr

theorem Core.mono {lo hi a b : Nat} {H : Nat → Nat} {B : List Instr} {T T' : Nat → Nat → Prop}
    (h : Core lo hi a b H B T) (hT : ∀ p k, T p k → T' p k) : Core lo hi a b H B T' :=
  ⟨h.lay, h.hi_eq, h.hlo, h.hhi, fun i hi => (h.ok i hi).congr rfl (fun _ hp => ⟨hp, rfl⟩) hT, h.bnd, h.bhi, h.tc⟩

/-- Closing open targets that are the block's own start or end. -/
theorem Core.close {lo hi a b : Nat} {H : Nat → Nat} {B : List Instr} {T T' : Nat → Nat → Prop}
    (h : Core lo hi a b H B T)
    (hT : ∀ p k, T p k → (p = hi ∧ k = b) ∨ (p = lo ∧ k = a) ∨ T' p k) : Core lo hi a b H B T' := by
  refine ⟨h.lay, h.hi_eq, h.hlo, h.hhi, ?_, h.bnd, h.bhi, h.tc⟩
  intro i hi'
  obtain ⟨l, hl, hq⟩ := h.ok i hi'
  refine ⟨l, hl, ?_⟩
  intro q hqm
  rcases hq q hqm with h1 | h1
  · exact Or.inl h1
  · rcases hT _ _ h1 with ⟨e1, e2⟩ | ⟨e1, e2⟩ | h2
    · exact Or.inl ⟨Or.inl e1, by rw [e1, e2]; exact h.hhi⟩
    · refine Or.inl ⟨?_, by rw [e1, e2]; exact h.hlo⟩
      rw [e1]
      have := tgt_mid (B₁ := []) h.lay h.hi_eq
      simpa using this
    · exact Or.inr h2

theorem Core.nil (lo a : Nat) (T : Nat → Nat → Prop) : Core lo lo a a (fun _ => a) [] T := by
  refine ⟨trivial, by simp, rfl, rfl, ?_, ?_, by omega, ?_⟩
  · intro i hi; cases hi
  · intro i hi; cases hi
  · intro i hi; cases hi

/-! ### `succs` of the instruction classes -/

theorem stackEffect_control {i : Instr} (h : i.op = opReturn ∨ i.op = opSuspend ∨ i.op = opJump ∨
    i.op = opJumpFalsy ∨ i.op = opAndJump ∨ i.op = opOrJump) : stackEffect i = none := by
  obtain ⟨pos, op, args⟩ := i
  simp only at h
  rcases h with h | h | h | h | h | h <;> subst h <;> rfl

theorem succs_straight {i : Instr} {pops pushes h : Nat} (he : stackEffect i = some (pops, pushes))
    (hp : pops ≤ h) : succs i h = some [(i.pos + i.size, h - pops + pushes)] := by
  have hn : ∀ op, (op = opReturn ∨ op = opSuspend ∨ op = opJump ∨ op = opJumpFalsy ∨
    op = opAndJump ∨ op = opOrJump) → (i.op == op) = false := by
    intro op hop
    cases hb : i.op == op with
    | false => rfl
    | true =>
      have : i.op = op := by simpa using hb
      rw [stackEffect_control (by rw [this]; exact hop)] at he
      cases he
  unfold succs
  simp only [hn opReturn (by simp), hn opSuspend (by simp), hn opJump (by simp), hn opJumpFalsy (by simp),
    hn opAndJump (by simp), hn opOrJump (by simp), he, Bool.false_eq_true, if_false, Bool.or_self]
  rw [if_neg (by omega)]

theorem succs_jump {i : Instr} (h : i.op = opJump) (k : Nat) : succs i k = some [(i.args.headD 0, k)] := by
  obtain ⟨pos, op, args⟩ := i
  simp only at h; subst h; rfl

theorem succs_jumpFalsy {i : Instr} (h : i.op = opJumpFalsy) {k : Nat} (hk : 1 ≤ k) :
    succs i k = some [(i.args.headD 0, k - 1), (i.pos + i.size, k - 1)] := by
  obtain ⟨pos, op, args⟩ := i
  simp only at h; subst h
  have : ¬ k < 1 := by omega
  simp [succs, opJumpFalsy, opReturn, opSuspend, opJump, this]

theorem succs_andor {i : Instr} (h : i.op = opAndJump ∨ i.op = opOrJump) {k : Nat} (hk : 1 ≤ k) :
    succs i k = some [(i.args.headD 0, k), (i.pos + i.size, k - 1)] := by
  obtain ⟨pos, op, args⟩ := i
  have : ¬ k < 1 := by omega
  simp only at h
  rcases h with h | h <;> subst h <;>
    simp [succs, opJumpFalsy, opReturn, opSuspend, opJump, opAndJump, opOrJump, this]

theorem succs_return {i : Instr} (h : i.op = opReturn) {k : Nat} (hk : i.args.headD 0 ≤ k) :
    succs i k = some [] := by
  obtain ⟨pos, op, args⟩ := i
  simp only at h; subst h
  simp [succs, opReturn]
  simpa using hk

/-! ### one-instruction blocks -/

theorem Core.single {lo a b : Nat} {i : Instr} {T : Nat → Nat → Prop} {l : List (Nat × Nat)}
    (hp : i.pos = lo) (hs : succs i a = some l)
    (hl : ∀ q ∈ l, (q.1 = lo + i.size ∧ q.2 = b) ∨ T q.1 q.2) (hb : b ≤ a + i.size) :
    Core lo (lo + i.size) a b (glue (lo + 1) (fun _ => a) (fun _ => b)) [i] T := by
  have hsz := size_pos i
  have h0 : glue (lo + 1) (fun _ => a) (fun _ => b) lo = a := glue_lt _ _ (by omega)
  have h1 : glue (lo + 1) (fun _ => a) (fun _ => b) (lo + i.size) = b := glue_ge _ _ (by omega)
  refine ⟨⟨hp, trivial⟩, by simp, h0, h1, ?_, ?_, by omega, ?_⟩
  · intro j hj
    simp only [List.mem_singleton] at hj; subst hj
    refine ⟨l, by rw [hp, h0]; exact hs, ?_⟩
    intro q hq
    rcases hl q hq with ⟨e1, e2⟩ | h
    · exact Or.inl ⟨Or.inl e1, by rw [e1, h1, e2]⟩
    · exact Or.inr h
  · intro j hj
    simp only [List.mem_singleton] at hj; subst hj
    rw [hp, h0]; omega
  · intro x hx y hy hxy
    simp only [List.mem_singleton] at hx hy; subst hx; subst hy
    omega

/-- A straight-line instruction. -/
theorem Core.straight {lo a pops pushes : Nat} {i : Instr} (T : Nat → Nat → Prop)
    (hp : i.pos = lo) (he : stackEffect i = some (pops, pushes)) (hpop : pops ≤ a) (hpush : pushes ≤ 1) :
    ∃ H, Core lo (lo + i.size) a (a - pops + pushes) H [i] T := by
  refine ⟨_, Core.single hp (succs_straight he hpop) ?_ ?_⟩
  · intro q hq
    simp only [List.mem_singleton] at hq; subst hq
    exact Or.inl ⟨by rw [hp], rfl⟩
  · have := size_pos i; omega

/-! ### jump structures -/

theorem jump_size {p op : Nat} {args : List Nat} (h : isJump op = true) : (Instr.mk p op args).size = 5 := by
  simp only [isJump, Bool.or_eq_true, beq_iff_eq] at h
  rcases h with ((h | h) | h) | h <;> subst h <;> rfl

theorem jmp_facts : opJump ≠ opCall ∧ opJump ≠ opPop ∧ opJump ≠ opReturn := by decide
theorem jmpf_facts : opJumpFalsy ≠ opCall ∧ opJumpFalsy ≠ opPop ∧ opJumpFalsy ≠ opReturn := by decide
theorem not_isPR_of {j : Instr} (h1 : j.op ≠ opPop) (h2 : j.op ≠ opReturn) : ¬ isPR j :=
  fun h => h.elim h1 h2

/-- A block, a conditional forward jump over a second block to its end. -/
theorem Core.fwd {lo m hi a0 c a1 b : Nat} {H₁ H₂ : Nat → Nat} {B₁ B₂ : List Instr} {T : Nat → Nat → Prop}
    {j : Instr} (h1 : Core lo m a0 c H₁ B₁ T) (h2 : Core (m + 5) hi a1 b H₂ B₂ T)
    (hjp : j.pos = m) (hjs : j.size = 5) (hs : succs j c = some [(hi, b), (m + 5, a1)])
    (hjc : j.op ≠ opCall) (hjpr : ¬ isPR j) (ha : a1 ≤ c + 5) :
    ∃ H, Core lo hi a0 b H (B₁ ++ j :: B₂) T ∧ (∀ x ∈ B₂, H x.pos = H₂ x.pos) ∧ (∀ x ∈ B₁, H x.pos = H₁ x.pos) := by
  let T' : Nat → Nat → Prop := fun p k => (p = hi ∧ k = b) ∨ T p k
  have hcj : Core m (m + j.size) c a1 _ [j] T' :=
    Core.single (i := j) hjp hs (by
      intro q hq
      simp only [List.mem_cons, List.mem_nil_iff, or_false] at hq
      rcases hq with rfl | rfl
      · exact Or.inr (Or.inl ⟨rfl, rfl⟩)
      · exact Or.inl ⟨by simp [hjs], rfl⟩) (by omega)
  rw [hjs] at hcj
  have hc2' := h2.mono (T' := T') (fun _ _ h => Or.inr h)
  have hcr := hcj.seq hc2' (fun x hx _ hxo => by
    simp only [List.mem_singleton] at hx; subst hx; exact absurd hxo hjc)
  have hc1' := h1.mono (T' := T') (fun _ _ h => Or.inr h)
  have hall := hc1'.seq hcr (fun x _ _ _ y hy hyp hpr => by
    rcases List.mem_append.mp hy with hm | hm
    · simp only [List.mem_singleton] at hm; subst hm; exact absurd hpr hjpr
    · have := mem_range h2.lay hm; omega)
  have hclosed := hall.close (T' := T) (fun p k h => by
    rcases h with h | h
    · exact Or.inl h
    · exact Or.inr (Or.inr h))
  refine ⟨_, hclosed, ?_, ?_⟩
  · intro x hx
    have hr := mem_range h2.lay hx
    rw [glue_ge _ _ (by omega), glue_ge _ _ (by omega)]
  · intro x hx
    have hr := mem_range h1.lay hx
    rw [glue_lt _ _ (by have := h1.hi_eq; omega)]

/-- `cond; JMPF else; then; JMP end; else: …; end:` -/
theorem Core.ifelse {lo m n hi a0 a1 b : Nat} {Hc Ht Hf : Nat → Nat} {Bc Bt Bf : List Instr}
    {T : Nat → Nat → Prop} (hc : Core lo m a0 (a1 + 1) Hc Bc T) (ht : Core (m + 5) n a1 b Ht Bt T)
    (hf : Core (n + 5) hi a1 b Hf Bf T) (hab : a1 ≤ b + 5) :
    ∃ H, Core lo hi a0 b H (Bc ++ ⟨m, opJumpFalsy, [n + 5]⟩ :: (Bt ++ ⟨n, opJump, [hi]⟩ :: Bf)) T ∧
      (∀ x ∈ Bf, H x.pos = Hf x.pos) := by
  let T' : Nat → Nat → Prop := fun p k => (p = hi ∧ k = b) ∨ T p k
  let j1 : Instr := ⟨m, opJumpFalsy, [n + 5]⟩
  let j2 : Instr := ⟨n, opJump, [hi]⟩
  have hj2s : j2.size = 5 := rfl
  have hcj2 : Core n (n + j2.size) b a1 _ [j2] T' :=
    Core.single (i := j2) rfl (succs_jump rfl b) (by
      intro q hq
      simp only [List.mem_singleton] at hq; subst hq
      exact Or.inr (Or.inl ⟨rfl, rfl⟩)) (by omega)
  rw [hj2s] at hcj2
  have ht' := ht.mono (T' := T') (fun _ _ h => Or.inr h)
  have hc' := hc.mono (T' := T') (fun _ _ h => Or.inr h)
  have hf' := hf.mono (T' := T') (fun _ _ h => Or.inr h)
  have hj2pr : ¬ isPR j2 := not_isPR_of jmp_facts.2.1 jmp_facts.2.2
  have hmid := ht'.seq hcj2 (fun x _ _ _ y hy _ hpr => by
    simp only [List.mem_singleton] at hy; subst hy; exact absurd hpr hj2pr)
  obtain ⟨H1, hc1, _, _⟩ := Core.fwd (j := j1) hc' hmid rfl rfl (succs_jumpFalsy rfl (by omega))
    jmpf_facts.1 (not_isPR_of jmpf_facts.2.1 jmpf_facts.2.2) (by omega)
  have hall := hc1.seq hf' (fun x hx hxe hxo y _ _ _ => by
    exfalso
    rcases List.mem_append.mp hx with hm | hm
    · have := mem_range hc.lay hm; have := hc.hi_eq; have := ht.hi_eq; omega
    · rcases List.mem_cons.mp hm with rfl | hm
      · exact absurd hxo jmpf_facts.1
      · rcases List.mem_append.mp hm with hm | hm
        · have := mem_range ht.lay hm; have := ht.hi_eq; omega
        · simp only [List.mem_singleton] at hm; subst hm; exact absurd hxo jmp_facts.1)
  have hclosed := hall.close (T' := T) (fun p k h => by
    rcases h with h | h
    · exact Or.inl h
    · exact Or.inr (Or.inr h))
  refine ⟨glue (n + 5) H1 Hf, ?_, ?_⟩
  · have e : Bc ++ j1 :: (Bt ++ [j2]) ++ Bf = Bc ++ j1 :: (Bt ++ j2 :: Bf) := by simp
    rw [← e]; exact hclosed
  · intro x hx
    have hr := mem_range hf.lay hx
    rw [glue_ge _ _ (by omega)]

/-- A loop: `cond; JMPF end; body; JMP cond; end:` where the body may also jump to `end`. -/
theorem Core.loopC {lo m pe : Nat} {Hc Hr : Nat → Nat} {C R : List Instr} {T : Nat → Nat → Prop}
    (hc : Core lo m 0 1 Hc C T) (hr : Core (m + 5) pe 0 0 Hr R (fun p k => (p = pe + 5 ∧ k = 0) ∨ T p k)) :
    ∃ H, Core lo (pe + 5) 0 0 H (C ++ ⟨m, opJumpFalsy, [pe + 5]⟩ :: (R ++ [⟨pe, opJump, [lo]⟩])) T := by
  let T' : Nat → Nat → Prop := fun p k => (p = lo ∧ k = 0) ∨ (p = pe + 5 ∧ k = 0) ∨ T p k
  let j1 : Instr := ⟨m, opJumpFalsy, [pe + 5]⟩
  let j2 : Instr := ⟨pe, opJump, [lo]⟩
  have hj2s : j2.size = 5 := rfl
  have hcj2 : Core pe (pe + j2.size) 0 0 _ [j2] T' :=
    Core.single (i := j2) rfl (succs_jump rfl 0) (by
      intro q hq
      simp only [List.mem_singleton] at hq; subst hq
      exact Or.inr (Or.inl ⟨rfl, rfl⟩)) (by omega)
  rw [hj2s] at hcj2
  have hr' := hr.mono (T' := T') (fun _ _ h => Or.inr h)
  have hc' := hc.mono (T' := T') (fun _ _ h => Or.inr (Or.inr h))
  have hj2pr : ¬ isPR j2 := not_isPR_of jmp_facts.2.1 jmp_facts.2.2
  have hmid := hr'.seq hcj2 (fun x _ _ _ y hy _ hpr => by
    simp only [List.mem_singleton] at hy; subst hy; exact absurd hpr hj2pr)
  obtain ⟨H1, hc1, _, _⟩ := Core.fwd (j := j1) hc' hmid rfl rfl (succs_jumpFalsy rfl (by omega))
    jmpf_facts.1 (not_isPR_of jmpf_facts.2.1 jmpf_facts.2.2) (by omega)
  exact ⟨H1, hc1.close (T' := T) (fun p k h => by
    rcases h with h | h | h
    · exact Or.inr (Or.inl h)
    · exact Or.inl h
    · exact Or.inr (Or.inr h))⟩

/-- A loop without condition: `body; JMP body; end:`. -/
theorem Core.loopN {lo pe : Nat} {Hr : Nat → Nat} {R : List Instr} {T : Nat → Nat → Prop}
    (hr : Core lo pe 0 0 Hr R (fun p k => (p = pe + 5 ∧ k = 0) ∨ T p k)) :
    ∃ H, Core lo (pe + 5) 0 0 H (R ++ [⟨pe, opJump, [lo]⟩]) T := by
  let T' : Nat → Nat → Prop := fun p k => (p = lo ∧ k = 0) ∨ (p = pe + 5 ∧ k = 0) ∨ T p k
  let j2 : Instr := ⟨pe, opJump, [lo]⟩
  have hj2s : j2.size = 5 := rfl
  have hcj2 : Core pe (pe + j2.size) 0 0 _ [j2] T' :=
    Core.single (i := j2) rfl (succs_jump rfl 0) (by
      intro q hq
      simp only [List.mem_singleton] at hq; subst hq
      exact Or.inr (Or.inl ⟨rfl, rfl⟩)) (by omega)
  rw [hj2s] at hcj2
  have hr' := hr.mono (T' := T') (fun _ _ h => Or.inr h)
  have hj2pr : ¬ isPR j2 := not_isPR_of jmp_facts.2.1 jmp_facts.2.2
  have hmid := hr'.seq hcj2 (fun x _ _ _ y hy _ hpr => by
    simp only [List.mem_singleton] at hy; subst hy; exact absurd hpr hj2pr)
  exact ⟨_, hmid.close (T' := T) (fun p k h => by
    rcases h with h | h | h
    · exact Or.inr (Or.inl h)
    · exact Or.inl h
    · exact Or.inr (Or.inr h))⟩

/-! ### expression blocks -/

def NoPR (B : List Instr) : Prop := ∀ i ∈ B, i.op ≠ opPop ∧ i.op ≠ opReturn
/-- no open target -/
def NoT : Nat → Nat → Prop := fun _ _ => False

/-- A closed block without POP / RET from height `a` to height `b`. -/
def Seq (lo hi a b : Nat) (B : List Instr) : Prop := ∃ H, Core lo hi a b H B NoT ∧ NoPR B

/-- A CALL ending the block sits at height `a + args + 1`. -/
def LastCall (H : Nat → Nat) (hi a : Nat) (B : List Instr) : Prop :=
  ∀ x ∈ B, x.pos + x.size = hi → x.op = opCall → H x.pos = a + callArity x

/-- The code of an expression compiled at height `a`: closed, pushes exactly one value. -/
def EBlk (lo hi a : Nat) (B : List Instr) : Prop :=
  ∃ H, Core lo hi a (a + 1) H B NoT ∧ NoPR B ∧ LastCall H hi a B

theorem NoPR.append {B₁ B₂ : List Instr} (h1 : NoPR B₁) (h2 : NoPR B₂) : NoPR (B₁ ++ B₂) := by
  intro i hi
  rcases List.mem_append.mp hi with h | h
  · exact h1 i h
  · exact h2 i h

theorem NoPR.not_isPR {B : List Instr} (h : NoPR B) {y : Instr} (hy : y ∈ B) : ¬ isPR y := by
  intro hpr
  rcases hpr with e | e
  · exact (h y hy).1 e
  · exact (h y hy).2 e

theorem EBlk.toSeq {lo hi a : Nat} {B : List Instr} (h : EBlk lo hi a B) : Seq lo hi a (a + 1) B := by
  obtain ⟨H, hc, hn, _⟩ := h
  exact ⟨H, hc, hn⟩

theorem Seq.nil (lo a : Nat) : Seq lo lo a a [] :=
  ⟨_, Core.nil lo a NoT, fun _ h => by cases h⟩

theorem Seq.append {lo m hi a b c : Nat} {B₁ B₂ : List Instr} (h1 : Seq lo m a b B₁) (h2 : Seq m hi b c B₂) :
    Seq lo hi a c (B₁ ++ B₂) := by
  obtain ⟨H₁, hc1, hn1⟩ := h1
  obtain ⟨H₂, hc2, hn2⟩ := h2
  exact ⟨_, hc1.seq hc2 (fun x _ _ _ y hy _ hpr => absurd hpr (hn2.not_isPR hy)), hn1.append hn2⟩

theorem Seq.hi_eq {lo hi a b : Nat} {B : List Instr} (h : Seq lo hi a b B) : hi = lo + totalSize B := by
  obtain ⟨H, hc, _⟩ := h; exact hc.hi_eq

theorem EBlk.hi_eq {lo hi a : Nat} {B : List Instr} (h : EBlk lo hi a B) : hi = lo + totalSize B :=
  h.toSeq.hi_eq

theorem stackEffect_not_return {i : Instr} {e : Nat × Nat} (h : stackEffect i = some e) : i.op ≠ opReturn := by
  intro hr
  rw [stackEffect_control (Or.inl hr)] at h; cases h

theorem Seq.single {lo a pops pushes : Nat} {i : Instr} (hp : i.pos = lo)
    (he : stackEffect i = some (pops, pushes)) (hpop : pops ≤ a) (hpush : pushes ≤ 1) (hn : i.op ≠ opPop) :
    Seq lo (lo + i.size) a (a - pops + pushes) [i] := by
  obtain ⟨H, hc⟩ := Core.straight NoT hp he hpop hpush
  refine ⟨H, hc, ?_⟩
  intro j hj
  simp only [List.mem_singleton] at hj; subst hj
  exact ⟨hn, stackEffect_not_return he⟩

theorem stackEffect_call {i : Instr} (h : i.op = opCall) : stackEffect i = some (callArity i, 1) := by
  obtain ⟨pos, op, args⟩ := i
  simp only at h; subst h; rfl

/-- An expression block from a closed prefix and a final straight-line instruction that leaves
exactly one value above the base. -/
theorem EBlk.ofSeq {lo m a c pops : Nat} {B : List Instr} {i : Instr} (h : Seq lo m a c B)
    (hp : i.pos = m) (he : stackEffect i = some (pops, 1)) (hc : c = a + pops) (hn : i.op ≠ opPop) :
    EBlk lo (m + i.size) a (B ++ [i]) := by
  obtain ⟨H₁, hc1, hn1⟩ := h
  obtain ⟨H₂, hc2⟩ := Core.straight (pushes := 1) NoT hp he (by omega : pops ≤ c) (by omega)
  have hni : NoPR [i] := by
    intro j hj
    simp only [List.mem_singleton] at hj; subst hj
    exact ⟨hn, stackEffect_not_return he⟩
  have hcc : c - pops + 1 = a + 1 := by omega
  rw [hcc] at hc2
  refine ⟨_, hc1.seq hc2 (fun x _ _ _ y hy _ hpr => absurd hpr (hni.not_isPR hy)), hn1.append hni, ?_⟩
  intro x hx hxe hop
  rcases List.mem_append.mp hx with hm | hm
  · have := mem_range hc1.lay hm
    have := hc1.hi_eq; have := size_pos i; omega
  · simp only [List.mem_singleton] at hm; subst hm
    rw [glue_ge _ _ (by omega), hp, hc2.hlo]
    rw [stackEffect_call hop] at he
    injection he with he; injection he with he
    omega

theorem EBlk.push {lo a : Nat} {i : Instr} (hp : i.pos = lo) (he : stackEffect i = some (0, 1))
    (hn : i.op ≠ opPop) : EBlk lo (lo + i.size) a [i] := by
  have := EBlk.ofSeq (Seq.nil lo a) hp he (by omega) hn
  simpa using this

theorem EBlk.seq1 {lo hi a : Nat} {B : List Instr} (h : EBlk lo hi a B) : Seq lo hi a (a + 1) B := h.toSeq

/-- `l && r`, `l || r`. -/
theorem EBlk.andor {lo m hi a op : Nat} {B₁ B₂ : List Instr} (h1 : EBlk lo m a B₁) (h2 : EBlk (m + 5) hi a B₂)
    (hop : op = opAndJump ∨ op = opOrJump) : EBlk lo hi a (B₁ ++ ⟨m, op, [hi]⟩ :: B₂) := by
  obtain ⟨H₁, hc1, hn1, _⟩ := h1
  obtain ⟨H₂, hc2, hn2, hl2⟩ := h2
  have hopn : op ≠ opCall ∧ op ≠ opPop ∧ op ≠ opReturn := by rcases hop with e | e <;> subst e <;> decide
  have hjs : (Instr.mk m op [hi]).size = 5 := jump_size (by rcases hop with h | h <;> subst h <;> rfl)
  have hs : succs ⟨m, op, [hi]⟩ (a + 1) = some [(hi, a + 1), (m + 5, a)] := by
    have := succs_andor (i := ⟨m, op, [hi]⟩) hop (k := a + 1) (by omega)
    rw [hjs] at this
    simpa using this
  obtain ⟨H, hc, hH2, _⟩ := Core.fwd (j := ⟨m, op, [hi]⟩) hc1 hc2 rfl hjs hs
    hopn.1 (not_isPR_of hopn.2.1 hopn.2.2) (by omega)
  refine ⟨H, hc, ?_, ?_⟩
  · refine hn1.append ?_
    intro i hi'
    rcases List.mem_cons.mp hi' with rfl | hm
    · exact ⟨hopn.2.1, hopn.2.2⟩
    · exact hn2 i hm
  · intro x hx hxe hxo
    rcases List.mem_append.mp hx with hm | hm
    · have := mem_range hc1.lay hm
      have := hc1.hi_eq; have := hc2.hi_eq; omega
    · rcases List.mem_cons.mp hm with rfl | hm
      · exact absurd hxo hopn.1
      · rw [hH2 x hm]; exact hl2 x hm hxe hxo

/-- `c ? t : f`. -/
theorem EBlk.cond {lo m n hi a : Nat} {Bc Bt Bf : List Instr} (hc : EBlk lo m a Bc)
    (ht : EBlk (m + 5) n a Bt) (hf : EBlk (n + 5) hi a Bf) :
    EBlk lo hi a (Bc ++ ⟨m, opJumpFalsy, [n + 5]⟩ :: (Bt ++ ⟨n, opJump, [hi]⟩ :: Bf)) := by
  obtain ⟨Hc, hcc, hnc, _⟩ := hc
  obtain ⟨Ht, hct, hnt, _⟩ := ht
  obtain ⟨Hf, hcf, hnf, hlf⟩ := hf
  obtain ⟨H, hcore, hHf⟩ := Core.ifelse hcc hct hcf (by omega)
  refine ⟨H, hcore, ?_, ?_⟩
  · refine hnc.append ?_
    intro i hi'
    rcases List.mem_cons.mp hi' with rfl | hm
    · exact ⟨jmpf_facts.2.1, jmpf_facts.2.2⟩
    · rcases List.mem_append.mp hm with hm | hm
      · exact hnt i hm
      · rcases List.mem_cons.mp hm with rfl | hm
        · exact ⟨jmp_facts.2.1, jmp_facts.2.2⟩
        · exact hnf i hm
  · intro x hx hxe hxo
    have e1 := hcc.hi_eq; have e2 := hct.hi_eq; have e3 := hcf.hi_eq
    rcases List.mem_append.mp hx with hm | hm
    · have := mem_range hcc.lay hm; omega
    · rcases List.mem_cons.mp hm with rfl | hm
      · exact absurd hxo jmpf_facts.1
      · rcases List.mem_append.mp hm with hm | hm
        · have := mem_range hct.lay hm; omega
        · rcases List.mem_cons.mp hm with rfl | hm
          · exact absurd hxo jmp_facts.1
          · rw [hHf x hm]; exact hlf x hm hxe hxo

/-! ### statement blocks -/

/-- The final operands of pending jumps: positions `cs` (`continue`) get `tc`, positions `bs`
(`break`) get `tb`; `cs` wins, as `patchAll breaks` runs before `patchAll continues`. -/
def patch2 (bs : List Nat) (tb : Nat) (cs : List Nat) (tc : Nat) (i : Instr) : Instr :=
  if i.pos ∈ cs then { i with args := [tc] } else if i.pos ∈ bs then { i with args := [tb] } else i

def P2 (bs : List Nat) (tb : Nat) (cs : List Nat) (tc : Nat) (B : List Instr) : List Instr :=
  B.map (patch2 bs tb cs tc)

@[simp] theorem patch2_pos (bs : List Nat) (tb : Nat) (cs : List Nat) (tc : Nat) (i : Instr) :
    (patch2 bs tb cs tc i).pos = i.pos := by
  unfold patch2; split
  · rfl
  · split <;> rfl
@[simp] theorem patch2_op (bs : List Nat) (tb : Nat) (cs : List Nat) (tc : Nat) (i : Instr) :
    (patch2 bs tb cs tc i).op = i.op := by
  unfold patch2; split
  · rfl
  · split <;> rfl
@[simp] theorem patch2_size (bs : List Nat) (tb : Nat) (cs : List Nat) (tc : Nat) (i : Instr) :
    (patch2 bs tb cs tc i).size = i.size := by simp [Instr.size]

theorem patch2_id {bs cs : List Nat} {tb tc : Nat} {i : Instr} (h1 : i.pos ∉ bs) (h2 : i.pos ∉ cs) :
    patch2 bs tb cs tc i = i := by simp [patch2, h1, h2]

theorem P2_id {bs cs : List Nat} {tb tc : Nat} {B : List Instr} (h : ∀ i ∈ B, i.pos ∉ bs ∧ i.pos ∉ cs) :
    P2 bs tb cs tc B = B := by
  unfold P2
  conv => rhs; rw [← List.map_id B]
  exact List.map_congr_left (fun i hi => patch2_id (h i hi).1 (h i hi).2)

@[simp] theorem P2_nil (tb tc : Nat) (B : List Instr) : P2 [] tb [] tc B = B :=
  P2_id (fun _ _ => ⟨by simp, by simp⟩)

theorem P2_append (bs : List Nat) (tb : Nat) (cs : List Nat) (tc : Nat) (B₁ B₂ : List Instr) :
    P2 bs tb cs tc (B₁ ++ B₂) = P2 bs tb cs tc B₁ ++ P2 bs tb cs tc B₂ := by simp [P2]

theorem P2_congr {bs bs' cs cs' : List Nat} {tb tc : Nat} {B : List Instr}
    (h : ∀ i ∈ B, (i.pos ∈ bs ↔ i.pos ∈ bs') ∧ (i.pos ∈ cs ↔ i.pos ∈ cs')) :
    P2 bs tb cs tc B = P2 bs' tb cs' tc B := by
  unfold P2
  refine List.map_congr_left (fun i hi => ?_)
  obtain ⟨h1, h2⟩ := h i hi
  unfold patch2
  by_cases hc : i.pos ∈ cs
  · rw [if_pos hc, if_pos (h2.mp hc)]
  · rw [if_neg hc, if_neg (fun h => hc (h2.mpr h))]
    by_cases hb : i.pos ∈ bs
    · rw [if_pos hb, if_pos (h1.mp hb)]
    · rw [if_neg hb, if_neg (fun h => hb (h1.mpr h))]

theorem totalSize_P2 (bs : List Nat) (tb : Nat) (cs : List Nat) (tc : Nat) (B : List Instr) :
    totalSize (P2 bs tb cs tc B) = totalSize B := by
  induction B with
  | nil => rfl
  | cons a B ih => simp only [P2, List.map_cons, totalSize_cons, patch2_size] at ih ⊢; rw [ih]

theorem mem_P2 {bs cs : List Nat} {tb tc : Nat} {B : List Instr} {x : Instr} (h : x ∈ P2 bs tb cs tc B) :
    ∃ x0 ∈ B, x = patch2 bs tb cs tc x0 := by
  obtain ⟨x0, h0, rfl⟩ := List.mem_map.mp h
  exact ⟨x0, h0, rfl⟩

/-- open targets of a statement: where its pending `break` / `continue` jumps will go (height 0) -/
def OT (bs cs : List Nat) (tb tc : Nat) : Nat → Nat → Prop :=
  fun p k => ((p = tb ∧ bs ≠ []) ∨ (p = tc ∧ cs ≠ [])) ∧ k = 0

theorem OT.mono {bs cs bs' cs' : List Nat} {tb tc : Nat} (hb : bs ≠ [] → bs' ≠ []) (hc : cs ≠ [] → cs' ≠ []) :
    ∀ p k, OT bs cs tb tc p k → OT bs' cs' tb tc p k := by
  intro p k h
  obtain ⟨h1, h2⟩ := h
  refine ⟨?_, h2⟩
  rcases h1 with ⟨e, h⟩ | ⟨e, h⟩
  · exact Or.inl ⟨e, hb h⟩
  · exact Or.inr ⟨e, hc h⟩

theorem append_ne_nil_left {α : Type} {a b : List α} (h : a ≠ []) : a ++ b ≠ [] := by
  cases a with
  | nil => exact absurd rfl h
  | cons x xs => simp

theorem append_ne_nil_right {α : Type} {a b : List α} (h : b ≠ []) : a ++ b ≠ [] := by
  cases b with
  | nil => exact absurd rfl h
  | cons x xs => simp

/-- The code of a statement: entered and left at height 0, closed except for the pending
`break` (`bs`) / `continue` (`cs`) jumps of the enclosing loop — for whatever targets they are
finally patched to — and not ending in a CALL. -/
structure SBlk (lo hi : Nat) (B : List Instr) (bs cs : List Nat) : Prop where
  pend : ∀ p, p ∈ bs ∨ p ∈ cs → ∃ i ∈ B, i.pos = p ∧ i.op = opJump
  core : ∀ tb tc, ∃ H, Core lo hi 0 0 H (P2 bs tb cs tc B) (OT bs cs tb tc)
  nce : ∀ x ∈ B, x.pos + x.size = hi → x.op ≠ opCall
  lay : Layout lo B
  hi_eq : hi = lo + totalSize B

theorem SBlk.pend_range {lo hi : Nat} {B : List Instr} {bs cs : List Nat} (h : SBlk lo hi B bs cs)
    {p : Nat} (hp : p ∈ bs ∨ p ∈ cs) : lo ≤ p ∧ p < hi := by
  obtain ⟨i, hi', rfl, _⟩ := h.pend p hp
  have := mem_range h.lay hi'
  have := h.hi_eq
  omega

theorem SBlk.ofClosed {lo hi : Nat} {H : Nat → Nat} {B : List Instr} (hc : Core lo hi 0 0 H B NoT)
    (hn : ∀ x ∈ B, x.pos + x.size = hi → x.op ≠ opCall) : SBlk lo hi B [] [] := by
  refine ⟨?_, ?_, hn, hc.lay, hc.hi_eq⟩
  · intro p hp
    rcases hp with h | h <;> cases h
  · intro tb tc
    exact ⟨H, by rw [P2_nil]; exact hc.mono (fun _ _ h => h.elim)⟩

theorem SBlk.nil (lo : Nat) : SBlk lo lo [] [] [] :=
  SBlk.ofClosed (Core.nil lo 0 NoT) (fun _ h => by cases h)

theorem SBlk.append {lo m hi : Nat} {B₁ B₂ : List Instr} {bs₁ cs₁ bs₂ cs₂ : List Nat}
    (h1 : SBlk lo m B₁ bs₁ cs₁) (h2 : SBlk m hi B₂ bs₂ cs₂) :
    SBlk lo hi (B₁ ++ B₂) (bs₁ ++ bs₂) (cs₁ ++ cs₂) := by
  have hlm := h1.hi_eq
  have hmh := h2.hi_eq
  refine ⟨?_, ?_, ?_, ?_, ?_⟩
  · intro p hp
    have : (p ∈ bs₁ ∨ p ∈ cs₁) ∨ (p ∈ bs₂ ∨ p ∈ cs₂) := by
      simp only [List.mem_append] at hp
      rcases hp with (h | h) | (h | h)
      · exact Or.inl (Or.inl h)
      · exact Or.inr (Or.inl h)
      · exact Or.inl (Or.inr h)
      · exact Or.inr (Or.inr h)
    rcases this with h | h
    · obtain ⟨i, hi', e1, e2⟩ := h1.pend p h
      exact ⟨i, List.mem_append_left _ hi', e1, e2⟩
    · obtain ⟨i, hi', e1, e2⟩ := h2.pend p h
      exact ⟨i, List.mem_append_right _ hi', e1, e2⟩
  · intro tb tc
    obtain ⟨H₁, hc1⟩ := h1.core tb tc
    obtain ⟨H₂, hc2⟩ := h2.core tb tc
    have e1 : P2 (bs₁ ++ bs₂) tb (cs₁ ++ cs₂) tc B₁ = P2 bs₁ tb cs₁ tc B₁ := by
      refine P2_congr (fun i hi' => ?_)
      have hr := mem_range h1.lay hi'
      simp only [List.mem_append]
      refine ⟨⟨fun h => h.elim id (fun h => ?_), Or.inl⟩, ⟨fun h => h.elim id (fun h => ?_), Or.inl⟩⟩
      · have := h2.pend_range (Or.inl h); omega
      · have := h2.pend_range (Or.inr h); omega
    have e2 : P2 (bs₁ ++ bs₂) tb (cs₁ ++ cs₂) tc B₂ = P2 bs₂ tb cs₂ tc B₂ := by
      refine P2_congr (fun i hi' => ?_)
      have hr := mem_range h2.lay hi'
      simp only [List.mem_append]
      refine ⟨⟨fun h => h.elim (fun h => ?_) id, Or.inr⟩, ⟨fun h => h.elim (fun h => ?_) id, Or.inr⟩⟩
      · have := h1.pend_range (Or.inl h); omega
      · have := h1.pend_range (Or.inr h); omega
    rw [P2_append, e1, e2]
    have hc1 := hc1.mono (OT.mono (bs' := bs₁ ++ bs₂) (cs' := cs₁ ++ cs₂) append_ne_nil_left append_ne_nil_left)
    have hc2 := hc2.mono (OT.mono (bs' := bs₁ ++ bs₂) (cs' := cs₁ ++ cs₂) append_ne_nil_right append_ne_nil_right)
    refine ⟨_, hc1.seq hc2 ?_⟩
    intro x hx hxe hxo
    obtain ⟨x0, hx0, rfl⟩ := mem_P2 hx
    simp only [patch2_pos, patch2_size, patch2_op] at hxe hxo
    exact absurd hxo (h1.nce x0 hx0 hxe)
  · intro x hx hxe
    rcases List.mem_append.mp hx with hm | hm
    · by_cases hne : B₂ = []
      · subst hne
        simp only [totalSize_nil, Nat.add_zero] at hmh
        exact h1.nce x hm (by omega)
      · have := mem_range h1.lay hm
        have := totalSize_pos hne
        omega
    · exact h2.nce x hm hxe
  · exact layout_append h1.lay (by rw [← hlm]; exact h2.lay)
  · rw [totalSize_append]; omega

theorem pop_ne_call : opPop ≠ opCall := by decide
theorem ret_ne_call : opReturn ≠ opCall := by decide
theorem pop_effect (p : Nat) : stackEffect ⟨p, opPop, []⟩ = some (1, 0) := rfl

/-- Expression statement: `e; POP`. -/
theorem SBlk.exprStmt {lo m : Nat} {B : List Instr} (h : EBlk lo m 0 B) :
    SBlk lo (m + 1) (B ++ [⟨m, opPop, []⟩]) [] [] := by
  obtain ⟨H, hc, hn, hl⟩ := h
  obtain ⟨H₂, hc2⟩ := Core.straight (i := ⟨m, opPop, []⟩) (a := 0 + 1) NoT rfl (pop_effect m) (by omega) (by omega)
  have hsz : (Instr.mk m opPop []).size = 1 := rfl
  rw [hsz] at hc2
  refine SBlk.ofClosed (hc.seq hc2 ?_) ?_
  · intro x hx hxe hxo y _ _ _
    have := hl x hx hxe hxo
    omega
  · intro x hx hxe
    rcases List.mem_append.mp hx with hm | hm
    · have := mem_range hc.lay hm; have := hc.hi_eq; omega
    · simp only [List.mem_singleton] at hm; subst hm; exact pop_ne_call

/-- A closed prefix and a final instruction that consumes everything above the base (assignments). -/
theorem SBlk.ofSeq {lo m c : Nat} {B : List Instr} {i : Instr} (h : Seq lo m 0 c B)
    (hp : i.pos = m) (he : stackEffect i = some (c, 0)) (hn : i.op ≠ opPop) :
    SBlk lo (m + i.size) (B ++ [i]) [] [] := by
  obtain ⟨H, hc, hnpr⟩ := h
  obtain ⟨H₂, hc2⟩ := Core.straight (pushes := 0) NoT hp he (Nat.le_refl c) (by omega)
  have e : c - c + 0 = 0 := by omega
  rw [e] at hc2
  refine SBlk.ofClosed (hc.seq hc2 ?_) ?_
  · intro x _ _ _ y hy _ hpr
    simp only [List.mem_singleton] at hy; subst hy
    exact absurd hpr (not_isPR_of hn (stackEffect_not_return he))
  · intro x hx hxe hxo
    rcases List.mem_append.mp hx with hm | hm
    · have := mem_range hc.lay hm; have := hc.hi_eq; have := size_pos i; omega
    · simp only [List.mem_singleton] at hm; subst hm
      rw [stackEffect_call hxo] at he
      injection he with he; injection he with _ he; cases he

theorem SBlk.ret0 (lo : Nat) : SBlk lo (lo + 2) [⟨lo, opReturn, [0]⟩] [] [] := by
  have hc := Core.single (i := ⟨lo, opReturn, [0]⟩) (a := 0) (b := 0) (T := NoT) rfl
    (succs_return rfl (by simp)) (fun q h => by cases h) (by omega)
  have hsz : (Instr.mk lo opReturn [0]).size = 2 := rfl
  rw [hsz] at hc
  refine SBlk.ofClosed hc ?_
  intro x hx _
  simp only [List.mem_singleton] at hx; subst hx; exact ret_ne_call

theorem SBlk.ret1 {lo m : Nat} {B : List Instr} (h : EBlk lo m 0 B) :
    SBlk lo (m + 2) (B ++ [⟨m, opReturn, [1]⟩]) [] [] := by
  obtain ⟨H, hc, hn, hl⟩ := h
  have hc2 := Core.single (i := ⟨m, opReturn, [1]⟩) (a := 0 + 1) (b := 0) (T := NoT) rfl
    (succs_return rfl (by simp)) (fun q h => by cases h) (by omega)
  have hsz : (Instr.mk m opReturn [1]).size = 2 := rfl
  rw [hsz] at hc2
  refine SBlk.ofClosed (hc.seq hc2 ?_) ?_
  · intro x hx hxe hxo y _ _ _
    have := hl x hx hxe hxo
    omega
  · intro x hx hxe
    rcases List.mem_append.mp hx with hm | hm
    · have := mem_range hc.lay hm; have := hc.hi_eq; omega
    · simp only [List.mem_singleton] at hm; subst hm; exact ret_ne_call

/-- `break`: a pending jump. -/
theorem SBlk.brk (lo x : Nat) : SBlk lo (lo + 5) [⟨lo, opJump, [x]⟩] [lo] [] := by
  refine ⟨?_, ?_, ?_, ⟨rfl, trivial⟩, rfl⟩
  · intro p hp
    rcases hp with h | h
    · simp only [List.mem_singleton] at h; subst h
      exact ⟨_, List.mem_singleton.mpr rfl, rfl, rfl⟩
    · cases h
  · intro tb tc
    have e : P2 [lo] tb [] tc [⟨lo, opJump, [x]⟩] = [⟨lo, opJump, [tb]⟩] := by simp [P2, patch2]
    rw [e]
    have hc := Core.single (i := ⟨lo, opJump, [tb]⟩) (a := 0) (b := 0) (T := OT [lo] [] tb tc) rfl
      (succs_jump rfl 0) (fun q h => by
        simp only [List.mem_singleton] at h; subst h
        exact Or.inr ⟨Or.inl ⟨rfl, by simp⟩, rfl⟩) (by omega)
    exact ⟨_, hc⟩
  · intro y hy _
    simp only [List.mem_singleton] at hy; subst hy; exact jmp_facts.1

/-- `continue`: a pending jump. -/
theorem SBlk.cont (lo x : Nat) : SBlk lo (lo + 5) [⟨lo, opJump, [x]⟩] [] [lo] := by
  refine ⟨?_, ?_, ?_, ⟨rfl, trivial⟩, rfl⟩
  · intro p hp
    rcases hp with h | h
    · cases h
    · simp only [List.mem_singleton] at h; subst h
      exact ⟨_, List.mem_singleton.mpr rfl, rfl, rfl⟩
  · intro tb tc
    have e : P2 [] tb [lo] tc [⟨lo, opJump, [x]⟩] = [⟨lo, opJump, [tc]⟩] := by simp [P2, patch2]
    rw [e]
    have hc := Core.single (i := ⟨lo, opJump, [tc]⟩) (a := 0) (b := 0) (T := OT [] [lo] tb tc) rfl
      (succs_jump rfl 0) (fun q h => by
        simp only [List.mem_singleton] at h; subst h
        exact Or.inr ⟨Or.inr ⟨rfl, by simp⟩, rfl⟩) (by omega)
    exact ⟨_, hc⟩
  · intro y hy _
    simp only [List.mem_singleton] at hy; subst hy; exact jmp_facts.1

theorem layout_P2 (bs : List Nat) (tb : Nat) (cs : List Nat) (tc : Nat) :
    ∀ {lo : Nat} {B : List Instr}, Layout lo (P2 bs tb cs tc B) ↔ Layout lo B
  | _, [] => Iff.rfl
  | lo, a :: B => by
    simp only [P2, List.map_cons, Layout, patch2_pos, patch2_size]
    exact and_congr Iff.rfl (layout_P2 bs tb cs tc (B := B))

theorem SBlk.mk' {lo hi : Nat} {B : List Instr} {bs cs : List Nat}
    (pend : ∀ p, p ∈ bs ∨ p ∈ cs → ∃ i ∈ B, i.pos = p ∧ i.op = opJump)
    (core : ∀ tb tc, ∃ H, Core lo hi 0 0 H (P2 bs tb cs tc B) (OT bs cs tb tc))
    (nce : ∀ x ∈ B, x.pos + x.size = hi → x.op ≠ opCall) : SBlk lo hi B bs cs := by
  obtain ⟨H, hc⟩ := core 0 0
  exact ⟨pend, core, nce, (layout_P2 _ _ _ _).mp hc.lay, by rw [← totalSize_P2 bs 0 cs 0 B]; exact hc.hi_eq⟩

theorem jmpf_size (p : Nat) (args : List Nat) : (Instr.mk p opJumpFalsy args).size = 5 := rfl
theorem jmp_size (p : Nat) (args : List Nat) : (Instr.mk p opJump args).size = 5 := rfl

/-- `if c { body }`. -/
theorem SBlk.if1 {lo m hi : Nat} {C Bd : List Instr} {bs cs : List Nat} (hC : EBlk lo m 0 C)
    (hd : SBlk (m + 5) hi Bd bs cs) : SBlk lo hi (C ++ ⟨m, opJumpFalsy, [hi]⟩ :: Bd) bs cs := by
  obtain ⟨Hc, hcc, _, _⟩ := hC
  have hce := hcc.hi_eq
  refine SBlk.mk' ?_ ?_ ?_
  · intro p hp
    obtain ⟨i, hi', e1, e2⟩ := hd.pend p hp
    exact ⟨i, List.mem_append_right _ (List.mem_cons_of_mem _ hi'), e1, e2⟩
  · intro tb tc
    obtain ⟨Hd, hcd⟩ := hd.core tb tc
    have e : P2 bs tb cs tc (C ++ ⟨m, opJumpFalsy, [hi]⟩ :: Bd) =
        C ++ ⟨m, opJumpFalsy, [hi]⟩ :: P2 bs tb cs tc Bd := by
      have e1 : patch2 bs tb cs tc ⟨m, opJumpFalsy, [hi]⟩ = ⟨m, opJumpFalsy, [hi]⟩ :=
        patch2_id (fun h => by have := hd.pend_range (p := m) (Or.inl h); omega)
          (fun h => by have := hd.pend_range (p := m) (Or.inr h); omega)
      rw [P2_append, P2_id (B := C)]
      · simp only [P2, List.map_cons, e1]
      · intro i hi'
        have := mem_range hcc.lay hi'
        exact ⟨fun h => by have := hd.pend_range (Or.inl h); omega,
          fun h => by have := hd.pend_range (Or.inr h); omega⟩
    rw [e]
    obtain ⟨H, hc, _, _⟩ := Core.fwd (j := ⟨m, opJumpFalsy, [hi]⟩) (hcc.mono (fun _ _ h => h.elim)) hcd rfl rfl
      (succs_jumpFalsy rfl (by omega)) jmpf_facts.1 (not_isPR_of jmpf_facts.2.1 jmpf_facts.2.2) (by omega)
    exact ⟨H, hc⟩
  · intro x hx hxe
    have := hd.hi_eq
    rcases List.mem_append.mp hx with hm | hm
    · have := mem_range hcc.lay hm; omega
    · rcases List.mem_cons.mp hm with rfl | hm
      · exact jmpf_facts.1
      · exact hd.nce x hm hxe

/-- `if c { body } else …`. -/
theorem SBlk.ifelse {lo m n hi : Nat} {C Bd Be : List Instr} {bs₁ cs₁ bs₂ cs₂ : List Nat} (hC : EBlk lo m 0 C)
    (hd : SBlk (m + 5) n Bd bs₁ cs₁) (he : SBlk (n + 5) hi Be bs₂ cs₂) :
    SBlk lo hi (C ++ ⟨m, opJumpFalsy, [n + 5]⟩ :: (Bd ++ ⟨n, opJump, [hi]⟩ :: Be)) (bs₁ ++ bs₂) (cs₁ ++ cs₂) := by
  obtain ⟨Hc, hcc, _, _⟩ := hC
  have hce := hcc.hi_eq
  have hde := hd.hi_eq
  have hee := he.hi_eq
  have hr1 : ∀ p, p ∈ bs₁ ++ bs₂ ∨ p ∈ cs₁ ++ cs₂ → (m + 5 ≤ p ∧ p < n) ∨ (n + 5 ≤ p ∧ p < hi) := by
    intro p hp
    simp only [List.mem_append] at hp
    rcases hp with (h | h) | (h | h)
    · exact Or.inl (hd.pend_range (Or.inl h))
    · exact Or.inr (he.pend_range (Or.inl h))
    · exact Or.inl (hd.pend_range (Or.inr h))
    · exact Or.inr (he.pend_range (Or.inr h))
  refine SBlk.mk' ?_ ?_ ?_
  · intro p hp
    simp only [List.mem_append] at hp
    have : (p ∈ bs₁ ∨ p ∈ cs₁) ∨ (p ∈ bs₂ ∨ p ∈ cs₂) := by
      rcases hp with (h | h) | (h | h)
      · exact Or.inl (Or.inl h)
      · exact Or.inr (Or.inl h)
      · exact Or.inl (Or.inr h)
      · exact Or.inr (Or.inr h)
    rcases this with h | h
    · obtain ⟨i, hi', e1, e2⟩ := hd.pend p h
      exact ⟨i, by simp [hi'], e1, e2⟩
    · obtain ⟨i, hi', e1, e2⟩ := he.pend p h
      exact ⟨i, by simp [hi'], e1, e2⟩
  · intro tb tc
    obtain ⟨Hd, hcd⟩ := hd.core tb tc
    obtain ⟨He, hcee⟩ := he.core tb tc
    have e : P2 (bs₁ ++ bs₂) tb (cs₁ ++ cs₂) tc (C ++ ⟨m, opJumpFalsy, [n + 5]⟩ :: (Bd ++ ⟨n, opJump, [hi]⟩ :: Be)) =
        C ++ ⟨m, opJumpFalsy, [n + 5]⟩ :: (P2 bs₁ tb cs₁ tc Bd ++ ⟨n, opJump, [hi]⟩ :: P2 bs₂ tb cs₂ tc Be) := by
      have eC : P2 (bs₁ ++ bs₂) tb (cs₁ ++ cs₂) tc C = C := by
        refine P2_id (fun i hi' => ?_)
        have := mem_range hcc.lay hi'
        exact ⟨fun h => by have := hr1 _ (Or.inl h); omega, fun h => by have := hr1 _ (Or.inr h); omega⟩
      have eD : P2 (bs₁ ++ bs₂) tb (cs₁ ++ cs₂) tc Bd = P2 bs₁ tb cs₁ tc Bd := by
        refine P2_congr (fun i hi' => ?_)
        have hr := mem_range hd.lay hi'
        simp only [List.mem_append]
        refine ⟨⟨fun h => h.elim id (fun h => ?_), Or.inl⟩, ⟨fun h => h.elim id (fun h => ?_), Or.inl⟩⟩
        · have := he.pend_range (Or.inl h); omega
        · have := he.pend_range (Or.inr h); omega
      have eE : P2 (bs₁ ++ bs₂) tb (cs₁ ++ cs₂) tc Be = P2 bs₂ tb cs₂ tc Be := by
        refine P2_congr (fun i hi' => ?_)
        have hr := mem_range he.lay hi'
        simp only [List.mem_append]
        refine ⟨⟨fun h => h.elim (fun h => ?_) id, Or.inr⟩, ⟨fun h => h.elim (fun h => ?_) id, Or.inr⟩⟩
        · have := hd.pend_range (Or.inl h); omega
        · have := hd.pend_range (Or.inr h); omega
      have e1 : patch2 (bs₁ ++ bs₂) tb (cs₁ ++ cs₂) tc ⟨m, opJumpFalsy, [n + 5]⟩ = ⟨m, opJumpFalsy, [n + 5]⟩ :=
        patch2_id (fun h => by have := hr1 m (Or.inl h); omega)
          (fun h => by have := hr1 m (Or.inr h); omega)
      have e2 : patch2 (bs₁ ++ bs₂) tb (cs₁ ++ cs₂) tc ⟨n, opJump, [hi]⟩ = ⟨n, opJump, [hi]⟩ :=
        patch2_id (fun h => by have := hr1 n (Or.inl h); omega)
          (fun h => by have := hr1 n (Or.inr h); omega)
      rw [P2_append, eC]
      conv => lhs; rw [P2]
      simp only [List.map_cons, List.map_append, e1, e2]
      change C ++ _ :: (P2 (bs₁ ++ bs₂) tb (cs₁ ++ cs₂) tc Bd ++ _ :: P2 (bs₁ ++ bs₂) tb (cs₁ ++ cs₂) tc Be) = _
      rw [eD, eE]
    rw [e]
    have hcd := hcd.mono (OT.mono (bs' := bs₁ ++ bs₂) (cs' := cs₁ ++ cs₂) append_ne_nil_left append_ne_nil_left)
    have hcee := hcee.mono (OT.mono (bs' := bs₁ ++ bs₂) (cs' := cs₁ ++ cs₂) append_ne_nil_right append_ne_nil_right)
    obtain ⟨H, hc, _⟩ := Core.ifelse (hcc.mono (fun _ _ h => h.elim)) hcd hcee (by omega)
    exact ⟨H, hc⟩
  · intro x hx hxe
    rcases List.mem_append.mp hx with hm | hm
    · have := mem_range hcc.lay hm; omega
    · rcases List.mem_cons.mp hm with rfl | hm
      · exact jmpf_facts.1
      · rcases List.mem_append.mp hm with hm | hm
        · have := mem_range hd.lay hm; omega
        · rcases List.mem_cons.mp hm with rfl | hm
          · exact jmp_facts.1
          · exact he.nce x hm hxe

/-- loop body (its `break`s go to the loop end `pe + 5`, its `continue`s to the post position `pb`)
followed by the post statement -/
theorem loop_body {lo pb pe : Nat} {Bd P : List Instr} {bs cs bsP csP : List Nat}
    (hd : SBlk lo pb Bd bs cs) (hp : SBlk pb pe P bsP csP) (tb tc : Nat) :
    ∃ H, Core lo pe 0 0 H (P2 bs (pe + 5) cs pb Bd ++ P2 bsP tb csP tc P)
      (fun p k => (p = pe + 5 ∧ k = 0) ∨ OT bsP csP tb tc p k) := by
  obtain ⟨Hd, hcd⟩ := hd.core (pe + 5) pb
  obtain ⟨Hp, hcp⟩ := hp.core tb tc
  have hcd' := hcd.close (T' := fun p k => (p = pe + 5 ∧ k = 0) ∨ OT bsP csP tb tc p k) (fun p k h => by
    obtain ⟨h1, h2⟩ := h
    rcases h1 with h1 | h1
    · exact Or.inr (Or.inr (Or.inl ⟨h1.1, h2⟩))
    · exact Or.inl ⟨h1.1, h2⟩)
  have hcp' := hcp.mono (T' := fun p k => (p = pe + 5 ∧ k = 0) ∨ OT bsP csP tb tc p k) (fun _ _ h => Or.inr h)
  refine ⟨_, hcd'.seq hcp' ?_⟩
  intro x hx hxe hxo
  obtain ⟨x0, hx0, rfl⟩ := mem_P2 hx
  simp only [patch2_pos, patch2_size, patch2_op] at hxe hxo
  exact absurd hxo (hd.nce x0 hx0 hxe)

/-- `for cond { body } post`: `cond; JMPF end; body; post; JMP cond; end:`. -/
theorem SBlk.loopC {lo m pb pe : Nat} {C Bd P : List Instr} {bs cs bsP csP : List Nat} (hC : EBlk lo m 0 C)
    (hd : SBlk (m + 5) pb Bd bs cs) (hp : SBlk pb pe P bsP csP) :
    SBlk lo (pe + 5)
      (C ++ ⟨m, opJumpFalsy, [pe + 5]⟩ :: (P2 bs (pe + 5) cs pb Bd ++ P ++ [⟨pe, opJump, [lo]⟩])) bsP csP := by
  obtain ⟨Hc, hcc, _, _⟩ := hC
  have hce := hcc.hi_eq
  have hde := hd.hi_eq
  have hpe := hp.hi_eq
  refine SBlk.mk' ?_ ?_ ?_
  · intro p hp'
    obtain ⟨i, hi', e1, e2⟩ := hp.pend p hp'
    exact ⟨i, by simp [hi'], e1, e2⟩
  · intro tb tc
    obtain ⟨HR, hR⟩ := loop_body hd hp tb tc
    have e : P2 bsP tb csP tc (C ++ ⟨m, opJumpFalsy, [pe + 5]⟩ :: (P2 bs (pe + 5) cs pb Bd ++ P ++ [⟨pe, opJump, [lo]⟩])) =
        C ++ ⟨m, opJumpFalsy, [pe + 5]⟩ :: ((P2 bs (pe + 5) cs pb Bd ++ P2 bsP tb csP tc P) ++ [⟨pe, opJump, [lo]⟩]) := by
      have eC : P2 bsP tb csP tc C = C := by
        refine P2_id (fun i hi' => ?_)
        have := mem_range hcc.lay hi'
        exact ⟨fun h => by have := hp.pend_range (Or.inl h); omega,
          fun h => by have := hp.pend_range (Or.inr h); omega⟩
      have eD : P2 bsP tb csP tc (P2 bs (pe + 5) cs pb Bd) = P2 bs (pe + 5) cs pb Bd := by
        refine P2_id (fun i hi' => ?_)
        obtain ⟨i0, hi0, rfl⟩ := mem_P2 hi'
        have := mem_range hd.lay hi0
        simp only [patch2_pos]
        exact ⟨fun h => by have := hp.pend_range (Or.inl h); omega,
          fun h => by have := hp.pend_range (Or.inr h); omega⟩
      have e1 : patch2 bsP tb csP tc ⟨m, opJumpFalsy, [pe + 5]⟩ = ⟨m, opJumpFalsy, [pe + 5]⟩ :=
        patch2_id (fun h => by have := hp.pend_range (p := m) (Or.inl h); omega)
          (fun h => by have := hp.pend_range (p := m) (Or.inr h); omega)
      have e2 : patch2 bsP tb csP tc ⟨pe, opJump, [lo]⟩ = ⟨pe, opJump, [lo]⟩ :=
        patch2_id (fun h => by have := hp.pend_range (p := pe) (Or.inl h); omega)
          (fun h => by have := hp.pend_range (p := pe) (Or.inr h); omega)
      rw [P2_append, eC]
      conv => lhs; rw [P2]
      simp only [List.map_cons, List.map_append, e1, e2, List.map_nil]
      change C ++ _ :: (P2 bsP tb csP tc (P2 bs (pe + 5) cs pb Bd) ++ P2 bsP tb csP tc P ++ _) = _
      rw [eD]
    rw [e]
    exact Core.loopC (hcc.mono (fun _ _ h => h.elim)) hR
  · intro x hx hxe
    rcases List.mem_append.mp hx with hm | hm
    · have := mem_range hcc.lay hm; omega
    · rcases List.mem_cons.mp hm with rfl | hm
      · exact jmpf_facts.1
      · rcases List.mem_append.mp hm with hm | hm
        · rcases List.mem_append.mp hm with hm | hm
          · obtain ⟨i0, hi0, rfl⟩ := mem_P2 hm
            have := mem_range hd.lay hi0
            simp only [patch2_pos, patch2_size] at hxe
            omega
          · have := mem_range hp.lay hm; omega
        · simp only [List.mem_singleton] at hm; subst hm; exact jmp_facts.1

/-- `for { body } post` without condition: `body; post; JMP body; end:`. -/
theorem SBlk.loopN {lo pb pe : Nat} {Bd P : List Instr} {bs cs bsP csP : List Nat}
    (hd : SBlk lo pb Bd bs cs) (hp : SBlk pb pe P bsP csP) :
    SBlk lo (pe + 5) (P2 bs (pe + 5) cs pb Bd ++ P ++ [⟨pe, opJump, [lo]⟩]) bsP csP := by
  have hde := hd.hi_eq
  have hpe := hp.hi_eq
  refine SBlk.mk' ?_ ?_ ?_
  · intro p hp'
    obtain ⟨i, hi', e1, e2⟩ := hp.pend p hp'
    exact ⟨i, by simp [hi'], e1, e2⟩
  · intro tb tc
    obtain ⟨HR, hR⟩ := loop_body hd hp tb tc
    have e : P2 bsP tb csP tc (P2 bs (pe + 5) cs pb Bd ++ P ++ [⟨pe, opJump, [lo]⟩]) =
        (P2 bs (pe + 5) cs pb Bd ++ P2 bsP tb csP tc P) ++ [⟨pe, opJump, [lo]⟩] := by
      have eD : P2 bsP tb csP tc (P2 bs (pe + 5) cs pb Bd) = P2 bs (pe + 5) cs pb Bd := by
        refine P2_id (fun i hi' => ?_)
        obtain ⟨i0, hi0, rfl⟩ := mem_P2 hi'
        have := mem_range hd.lay hi0
        simp only [patch2_pos]
        exact ⟨fun h => by have := hp.pend_range (Or.inl h); omega,
          fun h => by have := hp.pend_range (Or.inr h); omega⟩
      have e2 : patch2 bsP tb csP tc ⟨pe, opJump, [lo]⟩ = ⟨pe, opJump, [lo]⟩ :=
        patch2_id (fun h => by have := hp.pend_range (p := pe) (Or.inl h); omega)
          (fun h => by have := hp.pend_range (p := pe) (Or.inr h); omega)
      rw [P2_append, P2_append, eD]
      simp only [P2, List.map_cons, List.map_nil, e2]
    rw [e]
    exact Core.loopN hR
  · intro x hx hxe
    rcases List.mem_append.mp hx with hm | hm
    · rcases List.mem_append.mp hm with hm | hm
      · obtain ⟨i0, hi0, rfl⟩ := mem_P2 hm
        have := mem_range hd.lay hi0
        simp only [patch2_pos, patch2_size] at hxe
        omega
      · have := mem_range hp.lay hm; omega
    · simp only [List.mem_singleton] at hm; subst hm; exact jmp_facts.1

/-- a statement block without pending jumps is closed -/
theorem SBlk.closed {lo hi : Nat} {B : List Instr} (h : SBlk lo hi B [] []) : ∃ H, Core lo hi 0 0 H B NoT := by
  obtain ⟨H, hc⟩ := h.core 0 0
  rw [P2_nil] at hc
  exact ⟨H, hc.mono (fun p k hh => by
    obtain ⟨h1, _⟩ := hh
    rcases h1 with ⟨_, h⟩ | ⟨_, h⟩ <;> exact absurd rfl h)⟩

/-! ### whole functions -/

/-- A whole function is consistent with `H`: every instruction's abstract successors are
instruction starts of the function carrying the height `H` says. -/
def Closed (H : Nat → Nat) (is : List Instr) : Prop :=
  ∀ i ∈ is, ∃ l, succs i (H i.pos) = some l ∧ ∀ q ∈ l, (∃ j ∈ is, j.pos = q.1) ∧ H q.1 = q.2

end Tengo.Proofs.C02Compile

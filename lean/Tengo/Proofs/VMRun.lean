import Tengo.Model.VM
/-!
Theorems about the VM loop `Tengo.Model.VM.run` (all opcodes, any code, any heap): the allocation
budget (property C06, first sentence) for every program, every fuel and every budget.
They do not depend on what the individual instructions do — only on the fact, checked in lock step
against vm.go on every run, that the counter is touched by the loop exactly where `exec` reports a
tracked allocation.
-/
namespace Tengo.Model.VM
open Tengo.Model.Spec

@[simp] theorem tick_counted (log : Log) (keep : Nat) (o : Obs) : (log.tick keep o).counted = log.counted := rfl
@[simp] theorem tick_steps (log : Log) (keep : Nat) (o : Obs) : (log.tick keep o).steps = log.steps + 1 := rfl
@[simp] theorem count_counted (log : Log) : log.count.counted = log.counted + 1 := rfl
@[simp] theorem count_steps (log : Log) : log.count.steps = log.steps := rfl

/-- The loop, unfolded once. -/
theorem run_succ (code : Code) (keep fuel : Nat) (allocs : Int) (cfg : Cfg) (log : Log) :
    run code keep (fuel + 1) allocs cfg log =
      match (((exec code cfg.core).run).run cfg.gst).run cfg.heap with
      | .error e => (.failed e cfg, log.tick keep (observe cfg.core allocs))
      | .ok ((.error ft, _), _) => (.fault ft cfg, log.tick keep (observe cfg.core allocs))
      | .ok ((.ok (.halt c), g), h) => (.halted ⟨c, g, h⟩, log.tick keep (observe cfg.core allocs))
      | .ok ((.ok (.next c false), g), h) => run code keep fuel allocs ⟨c, g, h⟩ (log.tick keep (observe cfg.core allocs))
      | .ok ((.ok (.next c true), g), h) =>
        if allocs - 1 == 0 then (.limit cfg, log.tick keep (observe cfg.core allocs))
        else run code keep fuel (allocs - 1) ⟨c, g, h⟩ (log.tick keep (observe cfg.core allocs)).count := by
  rw [run]; rfl

/-- **Budget.** Started with `v.allocs = N + 1` (`N ≥ 0` the configured budget), a run performs at
most `N` tracked allocations — whatever the program, however long it runs. -/
theorem run_counted_le (code : Code) (keep : Nat) :
    ∀ (fuel : Nat) (allocs : Int) (cfg : Cfg) (log : Log), 1 ≤ allocs →
      ((run code keep fuel allocs cfg log).2.counted : Int) ≤ log.counted + (allocs - 1) := by
  intro fuel
  induction fuel with
  | zero => intro allocs cfg log h; simp [run]; omega
  | succ fuel ih =>
    intro allocs cfg log h
    rw [run_succ]
    split
    · simp; omega
    · simp; omega
    · simp; omega
    · rename_i c g hh _
      have := ih allocs ⟨c, g, hh⟩ (log.tick keep (observe cfg.core allocs)) h
      simpa using this
    · rename_i c g hh _
      split
      · simp; omega
      · rename_i hne
        have hne' : allocs - 1 ≠ 0 := by simpa using hne
        have h1 : 1 ≤ allocs - 1 := by omega
        have := ih (allocs - 1) ⟨c, g, hh⟩ (log.tick keep (observe cfg.core allocs)).count h1
        simp only [count_counted, tick_counted] at this
        push_cast at this
        omega

/-- **Budget, in the terms of the API**: with `maxAllocs = N ≥ 0` a run started by `VM.Run` (which
sets `v.allocs = N + 1`) performs at most `N` tracked allocations. -/
theorem run_budget (code : Code) (keep fuel : Nat) (N : Nat) (cfg : Cfg) :
    (run code keep fuel (N + 1) cfg {}).2.counted ≤ N := by
  have := run_counted_le code keep fuel (N + 1) cfg {} (by omega)
  simp at this
  omega

/-- **The limit error is exact.** When a run stops with the allocation-limit error, exactly
`allocs - 1` tracked allocations had succeeded: the budget was used up, not merely approached. -/
theorem run_limit_exact (code : Code) (keep : Nat) :
    ∀ (fuel : Nat) (allocs : Int) (cfg : Cfg) (log : Log) (at_ : Cfg), 1 ≤ allocs →
      (run code keep fuel allocs cfg log).1 = .limit at_ →
      ((run code keep fuel allocs cfg log).2.counted : Int) = log.counted + (allocs - 1) := by
  intro fuel
  induction fuel with
  | zero => intro allocs cfg log at_ h hl; simp [run] at hl
  | succ fuel ih =>
    intro allocs cfg log at_ h
    rw [run_succ]
    split
    · intro hl; simp at hl
    · intro hl; simp at hl
    · intro hl; simp at hl
    · intro hl
      have := ih allocs _ _ at_ h hl
      simpa using this
    · split
      · rename_i h0
        intro _
        have : allocs - 1 = 0 := by simpa using h0
        simp; omega
      · rename_i hne
        intro hl
        have hne' : allocs - 1 ≠ 0 := by simpa using hne
        have h1 : 1 ≤ allocs - 1 := by omega
        have := ih (allocs - 1) _ _ at_ h1 hl
        simp only [count_counted, tick_counted] at this
        push_cast at this
        omega

/-- **Unlimited.** With `maxAllocs < 0` (`v.allocs ≤ 0` at the start) the limit error never fires. -/
theorem run_unlimited (code : Code) (keep : Nat) :
    ∀ (fuel : Nat) (allocs : Int) (cfg : Cfg) (log : Log) (at_ : Cfg), allocs ≤ 0 →
      (run code keep fuel allocs cfg log).1 ≠ .limit at_ := by
  intro fuel
  induction fuel with
  | zero => intro allocs cfg log at_ h; simp [run]
  | succ fuel ih =>
    intro allocs cfg log at_ h
    rw [run_succ]
    split
    · simp
    · simp
    · simp
    · exact ih allocs _ _ at_ h
    · split
      · rename_i h0
        have : allocs - 1 = 0 := by simpa using h0
        omega
      · exact ih (allocs - 1) _ _ at_ (by omega)

/-- **Monotonicity.** A run that does not end in the limit error ends in exactly the same way — same
final machine state and heap, or same error at the same configuration — under every larger budget
and under no budget at all. -/
theorem run_mono (code : Code) (keep : Nat) :
    ∀ (fuel : Nat) (a a' : Int) (cfg : Cfg) (log log' : Log) (o : Outcome),
      1 ≤ a → (a ≤ a' ∨ a' ≤ 0) →
      (run code keep fuel a cfg log).1 = o → (∀ c, o ≠ .limit c) →
      (run code keep fuel a' cfg log').1 = o := by
  intro fuel
  induction fuel with
  | zero => intro a a' cfg log log' o _ _ h _; simpa [run] using h
  | succ fuel ih =>
    intro a a' cfg log log' o ha hle
    rw [run_succ, run_succ]
    split
    · intro h _; simpa using h
    · intro h _; simpa using h
    · intro h _; simpa using h
    · intro h hn; exact ih a a' _ _ _ o ha hle h hn
    · split
      · intro h hn
        exact absurd h.symm (hn cfg)
      · rename_i hne
        have hne' : a - 1 ≠ 0 := by simpa using hne
        have hne2 : ¬ ((a' - 1 == 0) = true) := by
          simp only [beq_iff_eq]
          rcases hle with hle | hle <;> omega
        simp only [hne2]
        intro h hn
        refine ih (a - 1) (a' - 1) _ _ _ o (by omega) ?_ h hn
        rcases hle with hle | hle
        · left; omega
        · right; omega

/-- The number of dispatches and of tracked allocations of such a run does not depend on the budget
either. -/
theorem run_mono_counts (code : Code) (keep : Nat) :
    ∀ (fuel : Nat) (a a' : Int) (cfg : Cfg) (log log' : Log),
      1 ≤ a → (a ≤ a' ∨ a' ≤ 0) → log.steps = log'.steps → log.counted = log'.counted →
      (∀ c, (run code keep fuel a cfg log).1 ≠ .limit c) →
      (run code keep fuel a' cfg log').2.steps = (run code keep fuel a cfg log).2.steps ∧
      (run code keep fuel a' cfg log').2.counted = (run code keep fuel a cfg log).2.counted := by
  intro fuel
  induction fuel with
  | zero => intro a a' cfg log log' _ _ hs hc _; simp [run, hs, hc]
  | succ fuel ih =>
    intro a a' cfg log log' ha hle hs hc
    rw [run_succ, run_succ]
    split
    · intro _; simp [hs, hc]
    · intro _; simp [hs, hc]
    · intro _; simp [hs, hc]
    · intro hn; exact ih a a' _ _ _ ha hle (by simp [hs]) (by simp [hc]) hn
    · split
      · intro hn
        exact absurd rfl (hn cfg)
      · rename_i hne
        have hne' : a - 1 ≠ 0 := by simpa using hne
        have hne2 : ¬ ((a' - 1 == 0) = true) := by
          simp only [beq_iff_eq]
          rcases hle with hle | hle <;> omega
        simp only [hne2]
        intro hn
        refine ih (a - 1) (a' - 1) _ _ _ (by omega) ?_ (by simp [hs]) (by simp [hc]) hn
        rcases hle with hle | hle
        · left; omega
        · right; omega

end Tengo.Model.VM

namespace Tengo.Model.VM
open Tengo.Model.Spec

/-- **Fuel is only a bound.** An outcome other than "out of fuel" does not depend on how much fuel
was given beyond what the run needed: outcome, dispatch count, allocation count and the whole log
are the same for every larger fuel. -/
theorem run_fuel_mono (code : Code) (keep : Nat) :
    ∀ (fuel : Nat) (allocs : Int) (cfg : Cfg) (log : Log) (k : Nat),
      (∀ c, (run code keep fuel allocs cfg log).1 ≠ .outOfFuel c) →
      run code keep (fuel + k) allocs cfg log = run code keep fuel allocs cfg log := by
  intro fuel
  induction fuel with
  | zero => intro allocs cfg log k h; exact absurd rfl (h cfg)
  | succ fuel ih =>
    intro allocs cfg log k
    have hk : fuel + 1 + k = (fuel + k) + 1 := by omega
    rw [hk, run_succ, run_succ]
    split
    · intro _; rfl
    · intro _; rfl
    · intro _; rfl
    · intro h; exact ih allocs _ _ k h
    · split
      · intro _; rfl
      · intro h; exact ih (allocs - 1) _ _ k h

end Tengo.Model.VM

import Tengo.Proofs.F2Program
import Tengo.Proofs.C01ConverseDiverge
/-!
Fragment F2, machine side of the converse: DIVERGENCE. When `F2.exec` with fuel `f` runs OUT OF FUEL on a piece
of code, the (stack-bounded) machine started at that code makes at least `f - height` dispatches without stopping
(`all_divB`, `program_diverges_bounded`): every unit of fuel beyond the nesting height is a loop iteration, and
every loop iteration — whether its body ends normally or with `continue` — dispatches at least its back jump.
(`StepsB` and its lemmas are those of Proofs/C01ConverseDiverge.lean: they are about the machine only.)
-/
set_option linter.unusedSimpArgs false
set_option linter.unusedVariables false
namespace Tengo.Model.F2
open Tengo.Model.F0
open Tengo.Model.F1 (StepsB)
variable {V : Type}

mutual
  /-- Nesting height: the fuel `F2.exec` uses up without iterating any loop. -/
  def heightS : Stm → Nat
    | .expr _ => 0
    | .assign _ _ => 0
    | .ifs _ body => heightSs body + 1
    | .ifelse _ body els => max (heightSs body) (heightSs els) + 1
    | .whil _ body => heightSs body + 1
    | .forever body => heightSs body + 1
    | .for3 _ body post => max (heightSs body) (heightS post) + 1
    | .brk => 0
    | .cont => 0
  def heightSs : Stms → Nat
    | .nil => 0
    | .cons s ss => max (heightS s) (heightSs ss) + 1
end

def heightC : Code → Nat
  | .inl s => heightS s
  | .inr ss => heightSs ss

/-- What has to hold for one piece of code at one fuel: out of fuel ⇒ at least `f - height` dispatches. -/
def DivB (lim : Nat) (S : Sem V) (cs : Nat → V) (f : Nat) (c : Code) : Prop :=
  ∀ (g : Nat → V) (code : List Ins) (bt ct off : Nat) (st : List V),
    At code off (compC bt ct off c) → st.length + depthC c ≤ lim →
    exec S cs f c g = .out →
    StepsB lim S cs code (f - heightC c) ⟨off, st, g⟩

theorem divB_zero (lim : Nat) (S : Sem V) (cs : Nat → V) (c : Code) : DivB lim S cs 0 c := by
  intro g code bt ct off st hat hd hg
  rw [Nat.zero_sub]
  exact StepsB.zero _ _ _ _ _

theorem divB_expr (lim : Nat) (S : Sem V) (cs : Nat → V) (f : Nat) (e : Ex) :
    DivB lim S cs (f + 1) (.inl (.expr e)) := by
  intro g code bt ct off st hat hd hg
  simp only [exec] at hg
  cases he : eval S cs g e <;> simp [he] at hg

theorem divB_assign (lim : Nat) (S : Sem V) (cs : Nat → V) (f : Nat) (i : Nat) (e : Ex) :
    DivB lim S cs (f + 1) (.inl (.assign i e)) := by
  intro g code bt ct off st hat hd hg
  simp only [exec] at hg
  cases he : eval S cs g e <;> simp [he] at hg

theorem divB_brk (lim : Nat) (S : Sem V) (cs : Nat → V) (f : Nat) : DivB lim S cs (f + 1) (.inl .brk) := by
  intro g code bt ct off st hat hd hg
  simp [exec] at hg

theorem divB_cont (lim : Nat) (S : Sem V) (cs : Nat → V) (f : Nat) : DivB lim S cs (f + 1) (.inl .cont) := by
  intro g code bt ct off st hat hd hg
  simp [exec] at hg

theorem divB_nil (lim : Nat) (S : Sem V) (cs : Nat → V) (f : Nat) : DivB lim S cs (f + 1) (.inr .nil) := by
  intro g code bt ct off st hat hd hg
  simp [exec] at hg

theorem divB_cons (lim : Nat) (S : Sem V) (cs : Nat → V) (f : Nat) (s : Stm) (ss : Stms)
    (ih : ∀ c, DivB lim S cs f c) : DivB lim S cs (f + 1) (.inr (.cons s ss)) := by
  intro g code bt ct off st hat hd hg
  have hA : At code off (compS bt ct off s ++ compSs bt ct (off + ssize s) ss) := by
    simpa [compC, compSs] using hat
  have hs := ih (.inl s) g code bt ct off st hA.left (by bnd2)
  have h1 := all_okB lim S cs f (.inl s) g code bt ct off st hA.left (by bnd2)
  have hr := fun g1 => ih (.inr ss) g1 code bt ct (off + ssize s) st
    (hA.right (by rw [csize_compS])) (by bnd2)
  simp only [exec] at hg
  cases hes : exec S cs f (.inl s) g with
  | out => exact (hs hes).mono (by simp only [heightC, heightSs]; omega)
  | err => simp [hes] at hg
  | brk g1 => simp [hes] at hg
  | cont g1 => simp [hes] at hg
  | done g1 =>
    rw [hes] at h1
    simp only [hes] at hg
    exact (RunsB.steps h1 (hr g1 hg)).mono (by simp only [heightC, heightSs]; omega)

theorem divB_ifs (lim : Nat) (S : Sem V) (cs : Nat → V) (f : Nat) (c : Ex) (body : Stms)
    (ih : ∀ c, DivB lim S cs f c) : DivB lim S cs (f + 1) (.inl (.ifs c body)) := by
  intro g code bt ct off st hat hd hg
  have hA : At code off (comp off c ++ [Ins.jmpf (off + esize c + 5 + sssize body)] ++
      compSs bt ct (off + esize c + 5) body) := by simpa [compC, compS, esz_eq] using hat
  obtain ⟨hc1, _⟩ := compB_at lim S cs g c hA.left.left (st := st) (by bnd2)
  have hfj := (hA.left.right (off' := off + esize c) (by rw [csize_comp])).fetch
  have hb := ih (.inr body) g code bt ct (off + esize c + 5) st
    (hA.right (by simp [csize_append, csize_comp, csize, Ins.size] <;> omega)) (by bnd2)
  simp only [exec] at hg
  cases hec : eval S cs g c with
  | none => simp [hec] at hg
  | some a =>
    simp only [hec] at hg
    have hstep := RunsB.step (lim := lim) (step_jmpf S cs _ (st := st) (g := g) (a := a) hfj) (by bnd2)
    by_cases hfa : S.falsy a = true
    · simp [hfa] at hg
    · simp only [hfa, Bool.false_eq_true, if_false] at hg hstep
      exact (RunsB.steps ((hc1 a hec).trans hstep) (hb hg)).mono (by simp only [heightC, heightS]; omega)

theorem divB_ifelse (lim : Nat) (S : Sem V) (cs : Nat → V) (f : Nat) (c : Ex) (body els : Stms)
    (ih : ∀ c, DivB lim S cs f c) : DivB lim S cs (f + 1) (.inl (.ifelse c body els)) := by
  intro g code bt ct off st hat hd hg
  have hA : At code off (comp off c ++ [Ins.jmpf (off + esize c + 5 + sssize body + 5)] ++
      compSs bt ct (off + esize c + 5) body ++ [Ins.jmp (off + esize c + 5 + sssize body + 5 + sssize els)] ++
      compSs bt ct (off + esize c + 5 + sssize body + 5) els) := by simpa [compC, compS, esz_eq] using hat
  obtain ⟨hc1, _⟩ := compB_at lim S cs g c hA.left.left.left.left (st := st) (by bnd2)
  have hfj := (hA.left.left.left.right (off' := off + esize c) (by rw [csize_comp])).fetch
  have hb := ih (.inr body) g code bt ct (off + esize c + 5) st
    (hA.left.left.right (by simp [csize_append, csize_comp, csize, Ins.size] <;> omega)) (by bnd2)
  have he := ih (.inr els) g code bt ct (off + esize c + 5 + sssize body + 5) st
    (hA.right (by simp [csize_append, csize_comp, csize_compSs, csize, Ins.size] <;> omega)) (by bnd2)
  simp only [exec] at hg
  cases hec : eval S cs g c with
  | none => simp [hec] at hg
  | some a =>
    simp only [hec] at hg
    have hstep := RunsB.step (lim := lim) (step_jmpf S cs _ (st := st) (g := g) (a := a) hfj) (by bnd2)
    by_cases hfa : S.falsy a = true
    · simp only [hfa, if_true] at hg hstep
      exact (RunsB.steps ((hc1 a hec).trans hstep) (he hg)).mono (by simp only [heightC, heightS]; omega)
    · simp only [hfa, Bool.false_eq_true, if_false] at hg hstep
      exact (RunsB.steps ((hc1 a hec).trans hstep) (hb hg)).mono (by simp only [heightC, heightS]; omega)

theorem divB_whil (lim : Nat) (S : Sem V) (cs : Nat → V) (f : Nat) (c : Ex) (body : Stms)
    (ih : ∀ c, DivB lim S cs f c) : DivB lim S cs (f + 1) (.inl (.whil c body)) := by
  intro g code bt ct off st hat hd hg
  have hA : At code off (comp off c ++ [Ins.jmpf (off + esize c + 5 + sssize body + 5)] ++
      compSs (off + esize c + 5 + sssize body + 5) (off + esize c + 5 + sssize body) (off + esize c + 5) body ++
      [Ins.jmp off]) := by simpa [compC, compS, esz_eq] using hat
  obtain ⟨hc1, _⟩ := compB_at lim S cs g c hA.left.left.left (st := st) (by bnd2)
  have hfj := (hA.left.left.right (off' := off + esize c) (by rw [csize_comp])).fetch
  have hAb := hA.left.right (off' := off + esize c + 5) (by simp [csize_append, csize_comp, csize, Ins.size] <;> omega)
  have hb := ih (.inr body) g code _ _ (off + esize c + 5) st hAb (by bnd2)
  have hbok := all_okB lim S cs f (.inr body) g code _ _ (off + esize c + 5) st hAb (by bnd2)
  have hfb := (hA.right (off' := off + esize c + 5 + sssize body)
    (by simp [csize_append, csize_comp, csize_compSs, csize, Ins.size] <;> omega)).fetch
  have hloop := fun g1 => ih (.inl (.whil c body)) g1 code bt ct off st hat hd
  -- a completed iteration: the back jump, then the loop again with one unit of fuel less
  have hagain : ∀ g1, RunsB lim S cs code ⟨off, st, g⟩ ⟨off + esize c + 5 + sssize body, st, g1⟩ →
      exec S cs f (.inl (.whil c body)) g1 = .out →
      StepsB lim S cs code (f + 1 - heightC (.inl (.whil c body))) ⟨off, st, g⟩ := by
    intro g1 hrun hout
    have hback := StepsB.succ (step_jmp S cs code (st := st) (g := g1) hfb) (by bnd2) (hloop g1 hout)
    exact (RunsB.steps hrun hback).mono (by simp only [heightC, heightS]; omega)
  simp only [exec] at hg
  cases hec : eval S cs g c with
  | none => simp [hec] at hg
  | some a =>
    simp only [hec] at hg
    have hstep := RunsB.step (lim := lim) (step_jmpf S cs _ (st := st) (g := g) (a := a) hfj) (by bnd2)
    by_cases hfa : S.falsy a = true
    · simp [hfa] at hg
    · simp only [hfa, Bool.false_eq_true, if_false] at hg hstep
      have hpre := (hc1 a hec).trans hstep
      cases heb : exec S cs f (.inr body) g with
      | out => exact (RunsB.steps hpre (hb heb)).mono (by simp only [heightC, heightS]; omega)
      | err => simp [heb] at hg
      | brk g1 => simp [heb] at hg
      | done g1 =>
        rw [heb] at hbok
        simp only [heb] at hg
        exact hagain g1 (hpre.trans hbok) hg
      | cont g1 =>
        rw [heb] at hbok
        simp only [heb] at hg
        exact hagain g1 (hpre.trans hbok) hg

theorem divB_forever (lim : Nat) (S : Sem V) (cs : Nat → V) (f : Nat) (body : Stms)
    (ih : ∀ c, DivB lim S cs f c) : DivB lim S cs (f + 1) (.inl (.forever body)) := by
  intro g code bt ct off st hat hd hg
  have hA : At code off (compSs (off + sssize body + 5) (off + sssize body) off body ++ [Ins.jmp off]) := by
    simpa [compC, compS] using hat
  have hb := ih (.inr body) g code _ _ off st hA.left (by bnd2)
  have hbok := all_okB lim S cs f (.inr body) g code _ _ off st hA.left (by bnd2)
  have hfb := (hA.right (off' := off + sssize body) (by simp [csize_compSs])).fetch
  have hloop := fun g1 => ih (.inl (.forever body)) g1 code bt ct off st hat hd
  have hagain : ∀ g1, RunsB lim S cs code ⟨off, st, g⟩ ⟨off + sssize body, st, g1⟩ →
      exec S cs f (.inl (.forever body)) g1 = .out →
      StepsB lim S cs code (f + 1 - heightC (.inl (.forever body))) ⟨off, st, g⟩ := by
    intro g1 hrun hout
    have hback := StepsB.succ (step_jmp S cs code (st := st) (g := g1) hfb) (by bnd2) (hloop g1 hout)
    exact (RunsB.steps hrun hback).mono (by simp only [heightC, heightS]; omega)
  simp only [exec] at hg
  cases heb : exec S cs f (.inr body) g with
  | out => exact (hb heb).mono (by simp only [heightC, heightS]; omega)
  | err => simp [heb] at hg
  | brk g1 => simp [heb] at hg
  | done g1 =>
    rw [heb] at hbok
    simp only [heb] at hg
    exact hagain g1 (by simpa [Good, codeSize] using hbok) hg
  | cont g1 =>
    rw [heb] at hbok
    simp only [heb] at hg
    exact hagain g1 hbok hg

theorem divB_for3 (lim : Nat) (S : Sem V) (cs : Nat → V) (f : Nat) (c : Ex) (body : Stms) (post : Stm)
    (ih : ∀ c, DivB lim S cs f c) : DivB lim S cs (f + 1) (.inl (.for3 c body post)) := by
  intro g code bt ct off st hat hd hg
  have hA : At code off (comp off c ++ [Ins.jmpf (off + esize c + 5 + sssize body + ssize post + 5)] ++
      compSs (off + esize c + 5 + sssize body + ssize post + 5) (off + esize c + 5 + sssize body)
        (off + esize c + 5) body ++
      compS bt ct (off + esize c + 5 + sssize body) post ++ [Ins.jmp off]) := by
    simpa [compC, compS, esz_eq] using hat
  obtain ⟨hc1, _⟩ := compB_at lim S cs g c hA.left.left.left.left (st := st) (by bnd2)
  have hfj := (hA.left.left.left.right (off' := off + esize c) (by rw [csize_comp])).fetch
  have hAb := hA.left.left.right (off' := off + esize c + 5)
    (by simp [csize_append, csize_comp, csize, Ins.size] <;> omega)
  have hb := ih (.inr body) g code _ _ (off + esize c + 5) st hAb (by bnd2)
  have hbok := all_okB lim S cs f (.inr body) g code _ _ (off + esize c + 5) st hAb (by bnd2)
  have hAp := hA.left.right (off' := off + esize c + 5 + sssize body)
    (by simp [csize_append, csize_comp, csize_compSs, csize, Ins.size] <;> omega)
  have hp := fun g1 => ih (.inl post) g1 code bt ct (off + esize c + 5 + sssize body) st hAp (by bnd2)
  have hpok := fun g1 => all_okB lim S cs f (.inl post) g1 code bt ct (off + esize c + 5 + sssize body) st hAp
    (by bnd2)
  have hfb := (hA.right (off' := off + esize c + 5 + sssize body + ssize post)
    (by simp [csize_append, csize_comp, csize_compSs, csize_compS, csize, Ins.size] <;> omega)).fetch
  have hloop := fun g1 => ih (.inl (.for3 c body post)) g1 code bt ct off st hat hd
  -- after the body (normal end or `continue`): the post statement, the back jump, the loop again
  have hrest : ∀ g1, RunsB lim S cs code ⟨off, st, g⟩ ⟨off + esize c + 5 + sssize body, st, g1⟩ →
      ∀ r : Res V, r = .out →
      (∀ g2, exec S cs f (.inl post) g1 = .done g2 → r = exec S cs f (.inl (.for3 c body post)) g2) →
      (∀ g2, exec S cs f (.inl post) g1 = .brk g2 → r = .brk g2) →
      (∀ g2, exec S cs f (.inl post) g1 = .cont g2 → r = .cont g2) →
      (exec S cs f (.inl post) g1 = .err → r = .err) →
      StepsB lim S cs code (f + 1 - heightC (.inl (.for3 c body post))) ⟨off, st, g⟩ := by
    intro g1 hrun r hr h1 h2 h3 h4
    have hpok1 := hpok g1
    cases hep : exec S cs f (.inl post) g1 with
    | out => exact (RunsB.steps hrun (hp g1 hep)).mono (by simp only [heightC, heightS]; omega)
    | err => rw [h4 hep] at hr; cases hr
    | brk g2 => rw [h2 g2 hep] at hr; cases hr
    | cont g2 => rw [h3 g2 hep] at hr; cases hr
    | done g2 =>
      rw [hep] at hpok1
      have hout : exec S cs f (.inl (.for3 c body post)) g2 = .out := by rw [← h1 g2 hep]; exact hr
      have hback := StepsB.succ (step_jmp S cs code (st := st) (g := g2) hfb) (by bnd2) (hloop g2 hout)
      exact (RunsB.steps (hrun.trans hpok1) hback).mono (by simp only [heightC, heightS]; omega)
  simp only [exec] at hg
  cases hec : eval S cs g c with
  | none => simp [hec] at hg
  | some a =>
    simp only [hec] at hg
    have hstep := RunsB.step (lim := lim) (step_jmpf S cs _ (st := st) (g := g) (a := a) hfj) (by bnd2)
    by_cases hfa : S.falsy a = true
    · simp [hfa] at hg
    · simp only [hfa, Bool.false_eq_true, if_false] at hg hstep
      have hpre := (hc1 a hec).trans hstep
      cases heb : exec S cs f (.inr body) g with
      | out => exact (RunsB.steps hpre (hb heb)).mono (by simp only [heightC, heightS]; omega)
      | err => simp [heb] at hg
      | brk g1 => simp [heb] at hg
      | done g1 =>
        rw [heb] at hbok
        simp only [heb] at hg
        exact hrest g1 (hpre.trans hbok) _ hg (fun g2 h => by rw [h]) (fun g2 h => by rw [h])
          (fun g2 h => by rw [h]) (fun h => by rw [h])
      | cont g1 =>
        rw [heb] at hbok
        simp only [heb] at hg
        exact hrest g1 (hpre.trans hbok) _ hg (fun g2 h => by rw [h]) (fun g2 h => by rw [h])
          (fun g2 h => by rw [h]) (fun h => by rw [h])

/-- **F2 divergence** (every fuel, every statement or statement list, every placement and pair of targets). -/
theorem all_divB (lim : Nat) (S : Sem V) (cs : Nat → V) : ∀ (f : Nat) (c : Code), DivB lim S cs f c := by
  intro f
  induction f with
  | zero => exact divB_zero lim S cs
  | succ f ih =>
    intro c
    cases c with
    | inl s =>
      cases s with
      | expr e => exact divB_expr lim S cs f e
      | assign i e => exact divB_assign lim S cs f i e
      | ifs c body => exact divB_ifs lim S cs f c body ih
      | ifelse c body els => exact divB_ifelse lim S cs f c body els ih
      | whil c body => exact divB_whil lim S cs f c body ih
      | forever body => exact divB_forever lim S cs f body ih
      | for3 c body post => exact divB_for3 lim S cs f c body post ih
      | brk => exact divB_brk lim S cs f
      | cont => exact divB_cont lim S cs f
    | inr ss =>
      cases ss with
      | nil => exact divB_nil lim S cs f
      | cons s ss => exact divB_cons lim S cs f s ss ih

/-- Whole programs: out of fuel `f` ⇒ the machine is still running after `m ≥ f - heightSs ss` dispatches. -/
theorem program_diverges_bounded (lim : Nat) (S : Sem V) (cs g : Nat → V) (ss : Stms) (f : Nat)
    (hd : depthSs ss ≤ lim) (hout : exec S cs f (.inr ss) g = .out) :
    ∃ m s', f - heightSs ss ≤ m ∧ runNB lim S cs (compProg ss) m ⟨0, [], g⟩ = .at s' := by
  have h := all_divB lim S cs f (.inr ss) g (compProg ss) 0 0 0 [] (At.whole _) (by simpa [depthC] using hd) hout
  simpa [heightC, StepsB] using h

end Tengo.Model.F2

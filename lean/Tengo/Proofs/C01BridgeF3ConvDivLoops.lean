import Tengo.Proofs.C01BridgeF3ConvDivBase
/-!
Fragment F3, divergence: `if`, `if … else` and the three loop forms (successor steps; forward counterparts in
`F3Loops.lean`).
-/
set_option linter.unusedSimpArgs false
set_option linter.unusedVariables false
namespace Tengo.Model.F3
open Tengo.Model.F0 (Sem upd)
variable {V : Type} {E : Env V} {P : Prog} {K : Nat}

/-! ### a statement that starts with `RET` runs out of fuel only below its height -/

mutual
  private theorem startsRetS_out : ∀ (s : Stm), startsRetS s = true → ∀ (f : Nat) (g : Nat → V) (l : Locals V),
      execS E P f s g l = .out → f < hS s
    | .ret0, _, 0, g, l, _ => by simp only [hS]; omega
    | .ret0, _, f + 1, g, l, h => by simp only [execS] at h; cases h
    | .forever body, hs, 0, g, l, _ => by have := hS_pos (.forever body); omega
    | .forever body, hs, f + 1, g, l, h => by
      have hb : startsRetSs body = true := by simpa [startsRetS] using hs
      simp only [execS] at h
      rcases execSs_startsRet (E := E) (P := P) body hb f g l with h1 | h1
      · rw [h1] at h; cases h
      · have := startsRetSs_out body hb f g l h1
        simp only [hS]; omega
    | .expr _, h, _, _, _, _ | .assign _ _, h, _, _, _, _ | .defl _ _, h, _, _, _, _ | .setl _ _, h, _, _, _, _
    | .ifs _ _, h, _, _, _, _ | .ifelse _ _ _, h, _, _, _, _ | .whil _ _, h, _, _, _, _
    | .for3 _ _ _, h, _, _, _, _
    | .brk, h, _, _, _, _ | .cont, h, _, _, _, _ | .ret _, h, _, _, _, _ => by simp [startsRetS] at h
  private theorem startsRetSs_out : ∀ (ss : Stms), startsRetSs ss = true →
      ∀ (f : Nat) (g : Nat → V) (l : Locals V), execSs E P f ss g l = .out → f < hSs ss
    | .nil, h, _, _, _, _ => by simp [startsRetSs] at h
    | .cons s ss, hs, 0, g, l, _ => by have := hSs_pos (.cons s ss); omega
    | .cons s ss, hs, f + 1, g, l, h => by
      have hb : startsRetS s = true := by simpa [startsRetSs] using hs
      simp only [execSs] at h
      rcases execS_startsRet (E := E) (P := P) s hb f g l with h1 | h1
      · rw [h1] at h; cases h
      · have := startsRetS_out s hb f g l h1
        simp only [hSs]; omega
end

private theorem execS_at_ret_out {code : List Ins} {p bt ct : Nat} {s : Stm} (hat : At code p (compS bt ct p s))
    (hr : retNext code p = true) (f : Nat) (g : Nat → V) (l : Locals V) (h : execS E P f s g l = .out) :
    f < hS s := by
  obtain ⟨i, rest, hh, hs⟩ := compS_head s bt ct p
  rw [hh] at hat
  exact startsRetS_out s (hs (ret_of_retNext hat.fetch hr)) f g l h

/-! ### `if`, `if … else` -/

theorem divS_ifs (f : Nat) (c : Ex) (body : Stms) (ok : AllOk E P f) (ih : AllDiv E P K f) :
    DivS E P K (f + 1) (.ifs c body) := by
  intro g l fn code nl bt ct off bp sp stk dis cl hc hnt hat hsl hl hsp h j hj
  have hA : At code off (comp off c ++ [Ins.jmpf (off + esize c + 5 + sssize body)] ++
      compSs bt ct (off + esize c + 5) body) := by simpa [compS] using hat
  have hslb : slotsSs nl body = true := by simpa [slotsS] using hsl
  have hcj := condJ (g := g) (dis := dis) (cl := cl) (ok.e c) _ hc hnt hA.left hl hsp
  simp only [execS] at h
  simp only [hS] at hj
  cases ha : evalE E P f c g l with
  | val a g1 =>
    rw [ha] at hcj h
    obtain ⟨stk1, hr, hsm, hl1⟩ := hcj
    dsimp only at h
    by_cases hfa : E.S.falsy a = true
    · simp only [hfa, if_true] at h; cases h
    · simp only [hfa, Bool.false_eq_true, if_false] at hr h
      exact Alive.of_runs hr (ih.ss body g1 l fn code nl bt ct (off + esize c + 5) bp sp stk1 dis cl hc hnt
        (hA.right (by simp [csize_append, csize_comp, csize, Ins.size] <;> omega)) hslb hl1 hsp h j (by omega))
  | err => rw [ha] at h; simp [ERes.toRes] at h
  | out => exact ih.e c g l fn code nl off bp sp stk dis cl hc hnt hA.left.left hl hsp ha j (by omega)
  | bad => rw [ha] at h; simp [ERes.toRes] at h

theorem divS_ifelse (f : Nat) (c : Ex) (body els : Stms) (ok : AllOk E P f) (ih : AllDiv E P K f) :
    DivS E P K (f + 1) (.ifelse c body els) := by
  intro g l fn code nl bt ct off bp sp stk dis cl hc hnt hat hsl hl hsp h j hj
  have hA : At code off (comp off c ++ [Ins.jmpf (off + esize c + 5 + sssize body + 5)] ++
      compSs bt ct (off + esize c + 5) body ++ [Ins.jmp (off + esize c + 5 + sssize body + 5 + sssize els)] ++
      compSs bt ct (off + esize c + 5 + sssize body + 5) els) := by simpa [compS] using hat
  simp only [slotsS, Bool.and_eq_true] at hsl
  have hcj := condJ (g := g) (dis := dis) (cl := cl) (ok.e c) _ hc hnt hA.left.left.left hl hsp
  simp only [execS] at h
  simp only [hS] at hj
  cases ha : evalE E P f c g l with
  | val a g1 =>
    rw [ha] at hcj h
    obtain ⟨stk1, hr, hsm, hl1⟩ := hcj
    dsimp only at h
    by_cases hfa : E.S.falsy a = true
    · simp only [hfa, if_true] at hr h
      exact Alive.of_runs hr (ih.ss els g1 l fn code nl bt ct (off + esize c + 5 + sssize body + 5) bp sp stk1 dis cl
        hc hnt (hA.right (by simp [csize_append, csize_comp, csize_compSs, csize, Ins.size] <;> omega)) hsl.2 hl1 hsp
        h j (by omega))
    · simp only [hfa, Bool.false_eq_true, if_false] at hr h
      exact Alive.of_runs hr (ih.ss body g1 l fn code nl bt ct (off + esize c + 5) bp sp stk1 dis cl hc hnt
        (hA.left.left.right (by simp [csize_append, csize_comp, csize, Ins.size] <;> omega)) hsl.1 hl1 hsp
        h j (by omega))
  | err => rw [ha] at h; simp [ERes.toRes] at h
  | out =>
    exact ih.e c g l fn code nl off bp sp stk dis cl hc hnt hA.left.left.left.left hl hsp ha j (by omega)
  | bad => rw [ha] at h; simp [ERes.toRes] at h

/-! ### the loops -/

theorem divS_whil (hK : 1 ≤ K) (f : Nat) (c : Ex) (body : Stms) (ok : AllOk E P f) (ih : AllDiv E P K f) :
    DivS E P K (f + 1) (.whil c body) := by
  intro g l fn code nl bt ct off bp sp stk dis cl hc hnt hat hsl hl hsp h j hj
  have hA : At code off (comp off c ++ [Ins.jmpf (off + esize c + 5 + sssize body + 5)] ++
      compSs (off + esize c + 5 + sssize body + 5) (off + esize c + 5 + sssize body) (off + esize c + 5) body ++
      [Ins.jmp off]) := by simpa [compS] using hat
  have hslb : slotsSs nl body = true := by simpa [slotsS] using hsl
  have hcj := condJ (g := g) (dis := dis) (cl := cl) (ok.e c) _ hc hnt hA.left.left hl hsp
  have hfb := (hA.right (off' := off + esize c + 5 + sssize body)
    (by simp [csize_append, csize_comp, csize_compSs, csize, Ins.size] <;> omega)).fetch
  -- after the body (normal end or `continue`): the jump back, the loop again at smaller fuel
  have hrest : ∀ g2 l2, Landed E (compProg P) ⟨fn, off, bp, sp, stk, g, dis, cl⟩ nl
      (off + esize c + 5 + sssize body) g2 l2 → execS E P f (.whil c body) g2 l2 = .out →
      Alive E (compProg P) j ⟨fn, off, bp, sp, stk, g, dis, cl⟩ := by
    intro g2 l2 hland hw
    obtain ⟨stk2, hr2, hl2, hsm2⟩ := hland
    dsimp only at hr2 hl2 hsm2
    have hst := step_jmp (E := E) (bp := bp) (sp := sp) (g := g2) (dis := dis) (cl := cl) (stk := stk2) hc hfb
    cases j with
    | zero => exact Alive.zero _ _ _
    | succ j' =>
      have hb : j' * K + hS (.whil c body) ≤ f := by
        have := Nat.add_one_mul j' K
        omega
      exact Alive.of_runs hr2 (Alive.step hst
        (ih.s (.whil c body) g2 l2 fn code nl bt ct off bp sp stk2 dis cl hc hnt hat hsl hl2 hsp hw j' hb))
  simp only [execS] at h
  simp only [hS] at hj
  cases ha : evalE E P f c g l with
  | val a g1 =>
    rw [ha] at hcj h
    obtain ⟨stk1, hr, hsm, hl1⟩ := hcj
    dsimp only at h
    by_cases hfa : E.S.falsy a = true
    · simp only [hfa, if_true] at h; cases h
    · simp only [hfa, Bool.false_eq_true, if_false] at hr h
      have hAb := hA.left.right (off' := off + esize c + 5)
        (by simp [csize_append, csize_comp, csize, Ins.size] <;> omega)
      have hb := ok.ss body g1 l fn code nl _ _ (off + esize c + 5) bp sp stk1 dis cl hc hnt hAb hslb hl1 hsp
      have hb' := GoodS.pre (s := ⟨fn, off, bp, sp, stk, g, dis, cl⟩) hr hsm (by dsimp only; omega) hb
      cases heb : execSs E P f body g1 l with
      | done g2 l2 =>
        rw [heb] at hb' h
        dsimp only at h
        rcases hb' with hland | ⟨hrn, _⟩
        · exact hrest g2 l2 hland h
        · rw [retNext_of_fetch hfb (by intro b hb; cases hb)] at hrn; cases hrn
      | cont g2 l2 =>
        rw [heb] at hb' h
        exact hrest g2 l2 hb' h
      | brk g2 l2 => rw [heb] at h; cases h
      | ret v g2 => rw [heb] at h; cases h
      | err => rw [heb] at h; cases h
      | out =>
        exact Alive.of_runs hr (ih.ss body g1 l fn code nl _ _ (off + esize c + 5) bp sp stk1 dis cl hc hnt hAb hslb
          hl1 hsp heb j (by omega))
      | bad => rw [heb] at h; cases h
  | err => rw [ha] at h; simp [ERes.toRes] at h
  | out => exact ih.e c g l fn code nl off bp sp stk dis cl hc hnt hA.left.left.left hl hsp ha j (by omega)
  | bad => rw [ha] at h; simp [ERes.toRes] at h

theorem divS_forever (hK : 1 ≤ K) (f : Nat) (body : Stms) (ok : AllOk E P f) (ih : AllDiv E P K f) :
    DivS E P K (f + 1) (.forever body) := by
  intro g l fn code nl bt ct off bp sp stk dis cl hc hnt hat hsl hl hsp h j hj
  have hA : At code off (compSs (off + sssize body + 5) (off + sssize body) off body ++ [Ins.jmp off]) := by
    simpa [compS] using hat
  have hslb : slotsSs nl body = true := by simpa [slotsS] using hsl
  have hfb := (hA.right (off' := off + sssize body) (by simp [csize_compSs])).fetch
  have hrest : ∀ g2 l2, Landed E (compProg P) ⟨fn, off, bp, sp, stk, g, dis, cl⟩ nl (off + sssize body) g2 l2 →
      execS E P f (.forever body) g2 l2 = .out →
      Alive E (compProg P) j ⟨fn, off, bp, sp, stk, g, dis, cl⟩ := by
    intro g2 l2 hland hw
    obtain ⟨stk2, hr2, hl2, hsm2⟩ := hland
    dsimp only at hr2 hl2 hsm2
    have hst := step_jmp (E := E) (bp := bp) (sp := sp) (g := g2) (dis := dis) (cl := cl) (stk := stk2) hc hfb
    cases j with
    | zero => exact Alive.zero _ _ _
    | succ j' =>
      have hb : j' * K + hS (.forever body) ≤ f := by
        have := Nat.add_one_mul j' K
        omega
      exact Alive.of_runs hr2 (Alive.step hst
        (ih.s (.forever body) g2 l2 fn code nl bt ct off bp sp stk2 dis cl hc hnt hat hsl hl2 hsp hw j' hb))
  have hb := ok.ss body g l fn code nl _ _ off bp sp stk dis cl hc hnt hA.left hslb hl hsp
  simp only [execS] at h
  simp only [hS] at hj
  cases heb : execSs E P f body g l with
  | done g2 l2 =>
    rw [heb] at hb h
    dsimp only at h
    rcases hb with hland | ⟨hrn, _⟩
    · exact hrest g2 l2 hland h
    · rw [retNext_of_fetch hfb (by intro b hb; cases hb)] at hrn; cases hrn
  | cont g2 l2 =>
    rw [heb] at hb h
    exact hrest g2 l2 hb h
  | brk g2 l2 => rw [heb] at h; cases h
  | ret v g2 => rw [heb] at h; cases h
  | err => rw [heb] at h; cases h
  | out =>
    exact ih.ss body g l fn code nl _ _ off bp sp stk dis cl hc hnt hA.left hslb hl hsp heb j (by omega)
  | bad => rw [heb] at h; cases h

theorem divS_for3 (hK : 1 ≤ K) (f : Nat) (c : Ex) (body : Stms) (post : Stm) (ok : AllOk E P f)
    (ih : AllDiv E P K f) : DivS E P K (f + 1) (.for3 c body post) := by
  intro g l fn code nl bt ct off bp sp stk dis cl hc hnt hat hsl hl hsp h j hj
  have hA : At code off (comp off c ++ [Ins.jmpf (off + esize c + 5 + sssize body + ssize post + 5)] ++
      compSs (off + esize c + 5 + sssize body + ssize post + 5) (off + esize c + 5 + sssize body)
        (off + esize c + 5) body ++
      compS bt ct (off + esize c + 5 + sssize body) post ++ [Ins.jmp off]) := by
    simpa [compS] using hat
  have hsl' := hsl
  simp only [slotsS, Bool.and_eq_true] at hsl'
  have hcj := condJ (g := g) (dis := dis) (cl := cl) (ok.e c) _ hc hnt hA.left.left.left hl hsp
  have hfb := (hA.right (off' := off + esize c + 5 + sssize body + ssize post)
    (by simp [csize_append, csize_comp, csize_compSs, csize_compS, csize, Ins.size] <;> omega)).fetch
  have hApost := hA.left.right (off' := off + esize c + 5 + sssize body)
    (by simp [csize_append, csize_comp, csize_compSs, csize, Ins.size] <;> omega)
  -- after the body (normal end or `continue`): the post statement, the jump back, the loop again
  have hrest : ∀ g2 l2, Landed E (compProg P) ⟨fn, off, bp, sp, stk, g, dis, cl⟩ nl
      (off + esize c + 5 + sssize body) g2 l2 →
      (match execS E P f post g2 l2 with
        | .done g3 l3 => execS E P f (.for3 c body post) g3 l3
        | r => r) = .out →
      Alive E (compProg P) j ⟨fn, off, bp, sp, stk, g, dis, cl⟩ := by
    intro g2 l2 hland hw
    obtain ⟨stk2, hr2, hl2, hsm2⟩ := hland
    dsimp only at hr2 hl2 hsm2
    have hp := ok.s post g2 l2 fn code nl bt ct (off + esize c + 5 + sssize body) bp sp stk2 dis cl hc hnt hApost
      hsl'.2 hl2 hsp
    cases hep : execS E P f post g2 l2 with
    | done g3 l3 =>
      rw [hep] at hp hw
      dsimp only at hw
      rcases hp with ⟨stk3, hr3, hl3, hsm3⟩ | ⟨hrn, _⟩
      · dsimp only at hr3 hl3 hsm3
        have hst := step_jmp (E := E) (bp := bp) (sp := sp) (g := g3) (dis := dis) (cl := cl) (stk := stk3) hc hfb
        cases j with
        | zero => exact Alive.zero _ _ _
        | succ j' =>
          have hb : j' * K + hS (.for3 c body post) ≤ f := by
            have := Nat.add_one_mul j' K
            omega
          exact Alive.of_runs hr2 (Alive.of_runs hr3 (Alive.step hst
            (ih.s (.for3 c body post) g3 l3 fn code nl bt ct off bp sp stk3 dis cl hc hnt hat hsl hl3 hsp hw j' hb)))
      · rw [retNext_of_fetch hfb (by intro b hb; cases hb)] at hrn; cases hrn
    | brk g3 l3 => rw [hep] at hw; cases hw
    | cont g3 l3 => rw [hep] at hw; cases hw
    | ret v g3 => rw [hep] at hw; cases hw
    | err => rw [hep] at hw; cases hw
    | out =>
      exact Alive.of_runs hr2 (ih.s post g2 l2 fn code nl bt ct (off + esize c + 5 + sssize body) bp sp stk2 dis cl
        hc hnt hApost hsl'.2 hl2 hsp hep j (by simp only [hS] at hj; omega))
    | bad => rw [hep] at hw; cases hw
  simp only [execS] at h
  cases ha : evalE E P f c g l with
  | val a g1 =>
    rw [ha] at hcj h
    obtain ⟨stk1, hr, hsm, hl1⟩ := hcj
    dsimp only at h
    by_cases hfa : E.S.falsy a = true
    · simp only [hfa, if_true] at h; cases h
    · simp only [hfa, Bool.false_eq_true, if_false] at hr h
      have hAb := hA.left.left.right (off' := off + esize c + 5)
        (by simp [csize_append, csize_comp, csize, Ins.size] <;> omega)
      have hb := ok.ss body g1 l fn code nl _ _ (off + esize c + 5) bp sp stk1 dis cl hc hnt hAb hsl'.1 hl1 hsp
      have hb' := GoodS.pre (s := ⟨fn, off, bp, sp, stk, g, dis, cl⟩) hr hsm (by dsimp only; omega) hb
      cases heb : execSs E P f body g1 l with
      | done g2 l2 =>
        rw [heb] at hb' h
        dsimp only at h
        rcases hb' with hland | ⟨hrn, hret⟩
        · exact hrest g2 l2 hland h
        · -- the post statement starts with a `RET`: it returns at once, or its fuel is below its height
          rcases execS_at_ret (E := E) (P := P) hApost hrn f g2 l2 with he | he
          · rw [he] at h; cases h
          · have := execS_at_ret_out (E := E) (P := P) hApost hrn f g2 l2 he
            simp only [hS] at hj
            omega
      | cont g2 l2 =>
        rw [heb] at hb' h
        exact hrest g2 l2 hb' h
      | brk g2 l2 => rw [heb] at h; cases h
      | ret v g2 => rw [heb] at h; cases h
      | err => rw [heb] at h; cases h
      | out =>
        exact Alive.of_runs hr (ih.ss body g1 l fn code nl _ _ (off + esize c + 5) bp sp stk1 dis cl hc hnt hAb
          hsl'.1 hl1 hsp heb j (by simp only [hS] at hj; omega))
      | bad => rw [heb] at h; cases h
  | err => rw [ha] at h; simp [ERes.toRes] at h
  | out =>
    exact ih.e c g l fn code nl off bp sp stk dis cl hc hnt hA.left.left.left.left hl hsp ha j
      (by simp only [hS] at hj; omega)
  | bad => rw [ha] at h; simp [ERes.toRes] at h

end Tengo.Model.F3

import Tengo.Proofs.C01BridgeF3VMStep
import Tengo.Proofs.C01BridgeVMRun
/-!
C01 bridge for fragment F3, VM side, layer 4: RUNS.

* `RunsB3 E M m s s'`: `m` steps of the fragment's machine `F3.step` from `s` to `s'`, each within the VM's
  fixed sizes (`Bnd3`); it is a run of `F3.runN` (`RunsB3.runN`).
* `runB3_sim`: such a run is `m` dispatches of `VM.run` (allocation counter unlimited: `allocs ≤ 0`);
* `runs_halt3` / `fails_failed3`: a run to the end of main / into a run-time error becomes the `halted` /
  `failed` outcome of `VM.run`, for every sufficient fuel, heap untouched;
* `rel_init3`: the VM's initial core is related to the fragment's initial state.
-/
set_option linter.unusedVariables false
set_option linter.unusedSimpArgs false
namespace Tengo.Proofs.C01BridgeF3
open Tengo.Model Tengo.Model.Spec Tengo.Model.VM Tengo.Proofs.C01Bridge

variable {V : Type}

/-- `m` steps of the fragment's machine, each within the VM's fixed sizes. -/
inductive RunsB3 (E : F3.Env V) (M : F3.Mach) : Nat → F3.St V → F3.St V → Prop where
  | refl (s : F3.St V) : RunsB3 E M 0 s s
  | step {m : Nat} {s s1 s' : F3.St V} :
      F3.step E M s = .next s1 → Bnd3 M s s1 → RunsB3 E M m s1 s' → RunsB3 E M (m + 1) s s'

theorem RunsB3.runN {E : F3.Env V} {M : F3.Mach} {m : Nat} {s s' : F3.St V} (h : RunsB3 E M m s s') :
    F3.runN E M m s = .at s' := by
  induction h with
  | refl s => rfl
  | step hs _ _ ih => simp only [F3.runN, hs]; exact ih

section lift
variable {M : F3.Mach} {K n : Nat} {E : F3.Env V} {val : V → Value} {ref : Nat → Nat} {code : Code}

/-- **VM bridge for F3, runs.** `m` bounded steps of the fragment's machine are `m` dispatches of `VM.run`. -/
theorem runB3_sim (hcode : CodeRel3 M K n E val ref code) (hD : DataRel E.S val) (keep : Nat) (g : GSt)
    (h : Spec.St) {m : Nat} {s s' : F3.St V} (hr : RunsB3 E M m s s') :
    ∀ (c : Core) (fuel : Nat) (allocs : Int) (log : Log), Rel3 M n val ref s c → allocs ≤ 0 →
      ∃ c' allocs' log', allocs' ≤ 0 ∧ Rel3 M n val ref s' c' ∧
        run code keep (m + fuel) allocs ⟨c, g, h⟩ log = run code keep fuel allocs' ⟨c', g, h⟩ log' := by
  induction hr with
  | refl s =>
    intro c fuel allocs log hrel ha
    exact ⟨c, allocs, log, ha, hrel, by simp⟩
  | @step m s s1 s' hs hb _ ih =>
    intro c fuel allocs log hrel ha
    obtain ⟨c1, al, hx, hrel1⟩ := step_sim3 hcode hD hrel hs hb g h
    have e : m + 1 + fuel = (m + fuel) + 1 := by omega
    obtain ⟨a1, l1, ha1, hrun1⟩ := run_next code keep (m + fuel) allocs c c1 g h log al hx ha
    obtain ⟨c', a', l', ha', hrel', hrun'⟩ := ih c1 fuel a1 l1 hrel1 ha1
    exact ⟨c', a', l', ha', hrel', by rw [e, hrun1, hrun']⟩

/-- **VM bridge for F3, complete runs.** If the fragment's machine runs (within the VM's sizes) from `s` to the
end of the main function, `VM.run` started in a related configuration halts — for every sufficient fuel, with
the heap untouched — in a core whose globals are the fragment's final globals and whose `sp` is the
fragment's. -/
theorem runs_halt3 (hcode : CodeRel3 M K n E val ref code) (hD : DataRel E.S val) {s s' : F3.St V} {c : Core}
    (hrel : Rel3 M n val ref s c) {m : Nat} (hruns : RunsB3 E M m s s') (hfn : s'.fn = 0)
    (hend : s'.ip = F3.csize M.main)
    (keep : Nat) (allocs : Int) (log : Log) (g : GSt) (h : Spec.St) (ha : allocs ≤ 0) :
    ∃ c' : Core, GlobRel3 n val s'.g c'.regs.globals ∧ c'.regs.sp = s'.sp ∧
      ∀ k, (run code keep (m + 1 + k) allocs ⟨c, g, h⟩ log).1 = .halted ⟨c', g, h⟩ := by
  obtain ⟨c1, a1, l1, ha1, hrel1, hrun⟩ := runB3_sim hcode hD keep g h hruns c 1 allocs log hrel ha
  have hx := halt_sim3 hcode hrel1 hfn hend g h
  refine ⟨{ c1 with cur := { c1.cur with ip := (s'.ip : Int) } }, hrel1.glb, hrel1.sp, ?_⟩
  have h1 : (run code keep (m + 1) allocs ⟨c, g, h⟩ log).1 =
      .halted ⟨{ c1 with cur := { c1.cur with ip := (s'.ip : Int) } }, g, h⟩ := by
    rw [hrun, run_succ]
    unfold XOk runX at hx
    simp only [hx]
  intro k
  exact run_halted_mono code keep (m + 1) allocs _ log _ h1 (by intro c hc; cases hc) k

/-- **VM bridge for F3, failing runs.** If the fragment's machine runs (within the VM's sizes) from `s` into a
run-time error, `VM.run` started in a related configuration ends in a failed outcome (not `fuel`), for every
sufficient fuel. -/
theorem fails_failed3 (hcode : CodeRel3 M K n E val ref code) (hD : DataRel E.S val) {s b : F3.St V} {c : Core}
    (hrel : Rel3 M n val ref s c) {m : Nat} (hruns : RunsB3 E M m s b) (herr : F3.step E M b = .err)
    (keep : Nat) (allocs : Int) (log : Log) (g : GSt) (h : Spec.St) (ha : allocs ≤ 0) :
    ∃ (e : Err) (at_ : Cfg), e ≠ Err.fuel ∧
      ∀ k, (run code keep (m + 1 + k) allocs ⟨c, g, h⟩ log).1 = .failed e at_ := by
  obtain ⟨c1, a1, l1, ha1, hrel1, hrun⟩ := runB3_sim hcode hD keep g h hruns c 1 allocs log hrel ha
  obtain ⟨e, hne, hx⟩ := err_sim3 hcode hD hrel1 herr g h
  refine ⟨e, ⟨c1, g, h⟩, hne, ?_⟩
  have h1 : (run code keep (m + 1) allocs ⟨c, g, h⟩ log).1 = .failed e ⟨c1, g, h⟩ := by
    rw [hrun, run_succ]
    unfold XFail runX at hx
    simp only [hx]
  intro k
  exact run_halted_mono code keep (m + 1) allocs _ log _ h1 (by intro c hc; cases hc) k

/-- The VM's initial core is related to the fragment's initial state (a stack of undefined values). -/
theorem rel_init3 (globals : Array Value) (fobjs : Array FnObj) (stk gl : Nat → V)
    (hsz : globals.size = n) (hg : ∀ i, i < n → globals.getD i .undef = val (gl i))
    (hstk : ∀ i, i < stackSize → val (stk i) = .undef)
    (hfo : ∀ k cf, M.fns k = some cf → fobjs[ref k]? = some (k, [])) :
    Rel3 M n val ref (F3.St.init stk gl) (initCore globals fobjs) := by
  refine ⟨⟨rfl, by simp [initCore, F3.St.init], rfl, rfl, rfl, rfl⟩, rfl, Nat.zero_le _, ⟨by simp [initCore], ?_⟩,
    ⟨hsz, hg⟩, .nil, hfo⟩
  intro i hi
  show _ = val (stk i)
  rw [hstk i hi]
  simp [initCore, hi]

end lift

end Tengo.Proofs.C01BridgeF3

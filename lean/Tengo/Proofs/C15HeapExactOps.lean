import Tengo.Proofs.C15HeapExact
/-!
C15 (heap model): every API call under the exact side condition `safeOpG`, and whole histories.
-/
namespace Tengo.Proofs.C15Heap
open Tengo.Model.Host hiding execC Host ScriptSt CompiledSt Abs AScript ACompiled
open Tengo.Model.HostHeap
open Tengo.Props.C15 (mapVals hasKey_mapVals setKey_mapVals upsert_mapVals eraseKey_mapVals lookup_mapVals
  keys_mapVals length_mapVals mapVals_congr lookup_mem mem_set SlotsOK VarsOK deref_append deref_new slotOf_ok
  slotsOK_const mem_of_getElem?)

def SimG (L : Limits) (h : Host) (fz : List (Nat × TVal)) (op : HOp) : Prop :=
  WF (hstep L h op).1 ∧ Iso (hstep L h op).1 ∧ FzOK (hstep L h op).1.store.length (dirtyStep h fz op) ∧
  sstep L (absOfG h fz) op = (absOfG (hstep L h op).1 (dirtyStep h fz op), (hstep L h op).2)

theorem FzOK.mono {n m : Nat} {fz : List (Nat × TVal)} (h : FzOK n fz) (hnm : n ≤ m) : FzOK m fz :=
  fun r hr => h r (Nat.le_trans hnm hr)

theorem mem_refsOf (sl : List (String × Option Nat)) (r : Nat) : r ∈ refsOf sl ↔ Refs sl r := by
  simp only [refsOf, List.mem_filterMap, Refs]
  constructor
  · rintro ⟨⟨x, o⟩, hp, ho⟩
    simp only at ho; subst ho
    exact ⟨x, hp⟩
  · rintro ⟨x, hx⟩
    exact ⟨(x, some r), hx, rfl⟩

theorem lookup_graph (f : Nat → TVal) : ∀ (l : List Nat) (k : Nat),
    (l.map (fun r => (r, f r))).lookup k = if k ∈ l then some (f k) else none
  | [], k => by simp
  | r :: l, k => by
      simp only [List.map_cons, List.lookup_cons, List.mem_cons]
      by_cases hk : k = r
      · subst hk; simp
      · have : (k == r) = false := by simpa using hk
        simp [this, hk, lookup_graph f l k]

theorem exclusive_spec (h : Host) (c : Nat) (cs : CompiledSt) (he : exclusive h c cs = true) :
    ∀ (j : Nat) (cj : CompiledSt), j ≠ c → h.compiled[j]? = some cj → ∀ r, Refs cj.slots r → ¬ Refs cs.slots r := by
  intro j cj hj hcj r hr hrc
  simp only [exclusive, List.all_eq_true, List.mem_range] at he
  have hlt : j < h.compiled.length := by
    rcases Nat.lt_or_ge j h.compiled.length with h1 | h1
    · exact h1
    · rw [List.getElem?_eq_none h1] at hcj; cases hcj
  have := he j hlt
  simp only [hcj, Bool.or_eq_true, beq_iff_eq, hj, false_or, disjointRefs, List.all_eq_true] at this
  have := this r ((mem_refsOf _ _).2 hr)
  simp [(mem_refsOf _ _).2 hrc] at this

theorem store_mono (L : Limits) (h : Host) (op : HOp) (hw : WF h) : h.store.length ≤ (hstep L h op).1.store.length := by
  cases op with
  | newScript src => exact Nat.le_refl _
  | add s n g =>
    simp only [hstep]
    split
    · exact Nat.le_refl _
    · split
      · exact Nat.le_refl _
      · simp
  | remove s n =>
    simp only [hstep]
    split
    · exact Nat.le_refl _
    · split <;> exact Nat.le_refl _
  | compile s =>
    simp only [hstep]
    split
    · exact Nat.le_refl _
    · split <;> exact Nat.le_refl _
  | set c n g =>
    simp only [hstep]
    split
    · exact Nat.le_refl _
    · split
      · exact Nat.le_refl _
      · split
        · simp
        · exact Nat.le_refl _
  | run c =>
    simp only [hstep]
    split
    · exact Nat.le_refl _
    · rename_i cs hc
      exact (exec_sim cs.code h.store cs.slots (hw.compiled cs (mem_of_getElem? hc))).1
  | get c n => simp only [hstep]; split <;> exact Nat.le_refl _
  | getAll c => simp only [hstep]; split <;> exact Nat.le_refl _
  | isDefined c n => simp only [hstep]; split <;> exact Nat.le_refl _
  | clone c =>
    simp only [hstep]
    split
    · exact Nat.le_refl _
    · rename_i cs hc
      obtain ⟨⟨ext, he⟩, _, _⟩ := clone_sim cs.slots h.store (hw.compiled cs (mem_of_getElem? hc))
      simp only [he]; simp

/-- Calls on a Compiled that leave the snapshot alone and keep the Scripts' objects. -/
theorem simG_comp (L : Limits) (h : Host) (fz : List (Nat × TVal)) (op : HOp) (hw : WF h) (hi : Iso h)
    (hf : FzOK h.store.length fz) (hop : compOp op = true) (hsafe : safeOp h op = true)
    (hd : dirtyStep h fz op = fz)
    (hfr : ∀ s ∈ h.scripts, ∀ r, VRefs s.vars r → deref (hstep L h op).1.store r = deref h.store r) :
    SimG L h fz op := by
  obtain ⟨hw', hi', hold⟩ := step_sim L h op hw hi hsafe
  refine ⟨hw', hi', ?_, ?_⟩
  · rw [hd]; exact hf.mono (store_mono L h op hw)
  · rw [hd]
    apply simG_of_holdC L h fz fz op hop (holdC_of_sim L h op hop hold)
    apply absScriptsF_congr
    intro s hs r hr
    unfold derefF
    cases fz.lookup r with
    | some v => rfl
    | none => exact hfr s hs r hr

theorem frame_append (h : Host) (hw : WF h) (ext : List TVal) :
    ∀ s ∈ h.scripts, ∀ r, VRefs s.vars r → deref (h.store ++ ext) r = deref h.store r :=
  fun s hs r hr => deref_append _ _ _ ((varsOK_iff _ _).1 (hw.scripts s hs) r hr)

theorem simG_set (L : Limits) (h : Host) (fz : List (Nat × TVal)) (c : Nat) (n : String) (g : GoVal) (hw : WF h)
    (hi : Iso h) (hf : FzOK h.store.length fz) : SimG L h fz (.set c n g) := by
  apply simG_comp L h fz _ hw hi hf rfl rfl rfl
  simp only [hstep]
  split
  · intro s hs r hr; rfl
  · split
    · intro s hs r hr; rfl
    · split
      · exact frame_append h hw _
      · intro s hs r hr; rfl

theorem simG_get (L : Limits) (h : Host) (fz : List (Nat × TVal)) (c : Nat) (n : String) (hw : WF h)
    (hi : Iso h) (hf : FzOK h.store.length fz) : SimG L h fz (.get c n) := by
  apply simG_comp L h fz _ hw hi hf rfl rfl rfl
  simp only [hstep]
  split <;> (intro s hs r hr; rfl)

theorem simG_getAll (L : Limits) (h : Host) (fz : List (Nat × TVal)) (c : Nat) (hw : WF h)
    (hi : Iso h) (hf : FzOK h.store.length fz) : SimG L h fz (.getAll c) := by
  apply simG_comp L h fz _ hw hi hf rfl rfl rfl
  simp only [hstep]
  split <;> (intro s hs r hr; rfl)

theorem simG_isDefined (L : Limits) (h : Host) (fz : List (Nat × TVal)) (c : Nat) (n : String) (hw : WF h)
    (hi : Iso h) (hf : FzOK h.store.length fz) : SimG L h fz (.isDefined c n) := by
  apply simG_comp L h fz _ hw hi hf rfl rfl rfl
  simp only [hstep]
  split <;> (intro s hs r hr; rfl)

theorem simG_clone (L : Limits) (h : Host) (fz : List (Nat × TVal)) (c : Nat) (hw : WF h)
    (hi : Iso h) (hf : FzOK h.store.length fz) : SimG L h fz (.clone c) := by
  apply simG_comp L h fz _ hw hi hf rfl rfl rfl
  simp only [hstep]
  split
  · intro s hs r hr; rfl
  · rename_i cs hc
    obtain ⟨⟨ext, he⟩, _, _⟩ := clone_sim cs.slots h.store (hw.compiled cs (mem_of_getElem? hc))
    simp only [he]
    exact frame_append h hw _

theorem simG_run (L : Limits) (h : Host) (fz : List (Nat × TVal)) (c : Nat) (hw : WF h) (hi : Iso h)
    (hf : FzOK h.store.length fz) (hsafe : safeOpG h fz (.run c) = true) : SimG L h fz (.run c) := by
  cases hs : h.compiled[c]? with
  | none =>
    apply simG_comp L h fz _ hw hi hf rfl (by simp [safeOp, hs]) (by simp [dirtyStep, hs])
    simp [hstep, hs]
  | some cs =>
    obtain ⟨h1, _, _, h4, _⟩ := exec_sim cs.code h.store cs.slots (hw.compiled cs (mem_of_getElem? hs))
    have hst : (hstep L h (.run c)).1.store = (execC cs.code h.store cs.slots).1 := by simp [hstep, hs]
    cases hfree : (cs.cloned || cs.code.all HStmt.pure) with
    | true =>
      have hsafe' : safeOp h (.run c) = true := by simp only [safeOp, hs]; exact hfree
      apply simG_comp L h fz _ hw hi hf rfl hsafe' (by simp [dirtyStep, hs, hfree])
      intro s hs' r hr
      rw [hst]
      apply h4 r ((varsOK_iff _ _).1 (hw.scripts s hs') r hr)
      simp only [Bool.or_eq_true] at hfree
      rcases hfree with hcl | hp
      · exact Or.inr (fun hrc => hi.scr c cs hs hcl s hs' r hrc hr)
      · exact Or.inl hp
    | false =>
      have hex : exclusive h c cs = true := by
        simp only [safeOpG, hs] at hsafe
        rw [hfree] at hsafe
        simpa using hsafe
      have hd : dirtyStep h fz (.run c) = fz ++ (refsOf cs.slots).map (fun r => (r, deref h.store r)) := by
        simp [dirtyStep, hs, hfree]
      obtain ⟨hw', hi'⟩ := inv_run L h c hw hi
      have hlook : ∀ r, (fz ++ (refsOf cs.slots).map (fun r => (r, deref h.store r))).lookup r =
          (fz.lookup r).or (if r ∈ refsOf cs.slots then some (deref h.store r) else none) := by
        intro r
        rw [List.lookup_append, lookup_graph (deref h.store)]
      refine ⟨hw', hi', ?_, ?_⟩
      · rw [hd, hst]
        intro r hr
        rw [hlook, hf r (Nat.le_trans h1 hr)]
        have : r ∉ refsOf cs.slots := by
          intro hm
          have := (slotsOK_iff _ _).1 (hw.compiled cs (mem_of_getElem? hs)) r ((mem_refsOf _ _).1 hm)
          omega
        simp [this]
      · rw [hd]
        apply simG_of_holdC L h fz _ _ rfl
        · apply run_holdC L h c cs hw hs
          intro j cj hj hcj r hr
          exact Or.inr (exclusive_spec h c cs hex j cj hj hcj r hr)
        · apply absScriptsF_congr
          intro s hs' r hr
          rw [hst]
          unfold derefF
          rw [hlook]
          cases fz.lookup r with
          | some v => rfl
          | none =>
            by_cases hm : r ∈ refsOf cs.slots
            · simp [hm]
            · simp only [hm, if_false, Option.or_none]
              apply h4 r ((varsOK_iff _ _).1 (hw.scripts s hs') r hr)
              exact Or.inr (fun hrc => hm ((mem_refsOf _ _).2 hrc))

end Tengo.Proofs.C15Heap

import Tengo.Proofs.C01BridgeF2Defs
import Tengo.Proofs.C01BridgeStmt
/-!
C01 bridge for fragment F2, layer 1 (back-patching): the real compiler emits `JMP 0` for `break` / `continue`,
records the position in the innermost loop record, and overwrites the operands when the loop is finished
(`patchAll loop.breaks postStmtPos`, `patchAll loop.continues postBodyPos`). The fragment compiler takes the two
targets as parameters. `patchS` / `patchSs`: running `patchAll` over the recorded positions `jposS w off st` of
code compiled with targets `b`, `c` yields, byte for byte, the code compiled with the `break` target (`w = true`)
resp. the `continue` target (`w = false`) replaced by the patched value.
-/
set_option linter.unusedVariables false
set_option linter.unusedSimpArgs false
namespace Tengo.Proofs.C01Bridge
open Tengo.Model Tengo.Model.F0 Tengo.Model.Compiler Tengo.Model.Opcodes
open Tengo.Model.Spec (Expr Stmt)

theorem Steps.conv {α : Type} {x : CM α} {s s' t t' : CState} {a : α} (h : Steps x s a s')
    (e1 : s = t) (e2 : s' = t') : Steps x t a t' := e1 ▸ e2 ▸ h

theorem patchAll_nil (t : Nat) : patchAll [] t = pure () := rfl

theorem patchAll_cons (p : Nat) (ps : List Nat) (t : Nat) :
    patchAll (p :: ps) t = (do changeOperand p t; patchAll ps t) := rfl

theorem patchAll_append (l1 l2 : List Nat) (t : Nat) :
    patchAll (l1 ++ l2) t = (do patchAll l1 t; patchAll l2 t) := by
  induction l1 with
  | nil => rw [List.nil_append, patchAll_nil, pure_bind]
  | cons p ps ih => rw [List.cons_append, patchAll_cons, patchAll_cons, ih, bind_assoc]

theorem steps_patchAll_append {l1 l2 : List Nat} {t : Nat} {s s1 s2 : CState}
    (h1 : Steps (patchAll l1 t) s () s1) (h2 : Steps (patchAll l2 t) s1 () s2) :
    Steps (patchAll (l1 ++ l2) t) s () s2 := by
  rw [patchAll_append]; exact Steps.bind h1 h2

theorem steps_patchAll_one {p t : Nat} {s s1 : CState} (h : Steps (changeOperand p t) s () s1) :
    Steps (patchAll [p] t) s () s1 := by
  rw [patchAll_cons, patchAll_nil]; exact Steps.bind h (Steps.pure () _)

def PatchS (st : F2.Stm) : Prop :=
  ∀ (w : Bool) (s : CState) (A B : List UInt8) (ks : List Compiler.Const) (off b c t : Nat),
    off = s.insts.size + A.length →
    Steps (patchAll (jposS w off st) t) (app s (A ++ encodeIns (F2.compS b c off st) ++ B) ks) ()
      (app s (A ++ encodeIns (F2.compS (if w then t else b) (if w then c else t) off st) ++ B) ks)

def PatchSs (ss : F2.Stms) : Prop :=
  ∀ (w : Bool) (s : CState) (A B : List UInt8) (ks : List Compiler.Const) (off b c t : Nat),
    off = s.insts.size + A.length →
    Steps (patchAll (jposSs w off ss) t) (app s (A ++ encodeIns (F2.compSs b c off ss) ++ B) ks) ()
      (app s (A ++ encodeIns (F2.compSs (if w then t else b) (if w then c else t) off ss) ++ B) ks)

theorem patch_jmp (s : CState) (A B : List UInt8) (ks : List Compiler.Const) (off x t : Nat)
    (hoff : off = s.insts.size + A.length) :
    Steps (patchAll [off] t) (app s (A ++ encodeIns [Ins.jmp x] ++ B) ks) ()
      (app s (A ++ encodeIns [Ins.jmp t] ++ B) ks) := by
  refine steps_patchAll_one ?_
  have h := steps_patch_at s A opJump x t B (A ++ encodeInstr opJump [x] ++ B) ks off rfl (by decide) rfl hoff
  rw [enc_jmp, enc_jmp, ← encodeIns_single, ← encodeIns_single] at h
  exact h

theorem patchS_brk : PatchS .brk := by
  intro w s A B ks off b c t hoff
  cases w with
  | true =>
    simp only [jposS, F2.compS, if_true]
    exact patch_jmp s A B ks off b t hoff
  | false =>
    simp only [jposS, F2.compS, Bool.false_eq_true, if_false]
    exact Steps.pure () _

theorem patchS_cont : PatchS .cont := by
  intro w s A B ks off b c t hoff
  cases w with
  | true =>
    simp only [jposS, F2.compS, if_true]
    exact Steps.pure () _
  | false =>
    simp only [jposS, F2.compS, Bool.false_eq_true, if_false]
    exact patch_jmp s A B ks off c t hoff

theorem patchS_ifs (cnd : Ex) (body : F2.Stms) (hb : PatchSs body) : PatchS (.ifs cnd body) := by
  intro w s A B ks off b c t hoff
  have ih := hb w s (A ++ encodeIns (comp off cnd ++ [Ins.jmpf (off + F2.esz cnd + 5 + F2.sssize body)])) B ks
    (off + F2.esz cnd + 5) b c t
    (by simp [encodeIns_length, csize_append, csize_comp, csize, Ins.size, F2.esz_eq, hoff]; omega)
  simp only [jposS]
  refine ih.conv ?_ ?_ <;> simp only [F2.compS, encodeIns_append, List.append_assoc]

theorem patchS_ifelse (cnd : Ex) (body els : F2.Stms) (hb : PatchSs body) (he : PatchSs els) :
    PatchS (.ifelse cnd body els) := by
  intro w s A B ks off b c t hoff
  have ih1 := hb w s (A ++ encodeIns (comp off cnd ++ [Ins.jmpf (off + F2.esz cnd + 5 + F2.sssize body + 5)]))
    (encodeIns ([Ins.jmp (off + F2.esz cnd + 5 + F2.sssize body + 5 + F2.sssize els)] ++
      F2.compSs b c (off + F2.esz cnd + 5 + F2.sssize body + 5) els) ++ B) ks
    (off + F2.esz cnd + 5) b c t
    (by simp [encodeIns_length, csize_append, csize_comp, csize, Ins.size, F2.esz_eq, hoff]; omega)
  have ih2 := he w s (A ++ encodeIns (comp off cnd ++ [Ins.jmpf (off + F2.esz cnd + 5 + F2.sssize body + 5)] ++
      F2.compSs (if w then t else b) (if w then c else t) (off + F2.esz cnd + 5) body ++
      [Ins.jmp (off + F2.esz cnd + 5 + F2.sssize body + 5 + F2.sssize els)])) B ks
    (off + F2.esz cnd + 5 + F2.sssize body + 5) b c t
    (by simp [encodeIns_length, csize_append, csize_comp, F2.csize_compSs, csize, Ins.size, F2.esz_eq, hoff]; omega)
  simp only [jposS]
  refine steps_patchAll_append (ih1.conv ?_ rfl) (ih2.conv ?_ ?_) <;>
    simp only [F2.compS, encodeIns_append, List.append_assoc]

theorem patchS_for3 (cnd : Ex) (body : F2.Stms) (post : F2.Stm) (hp : PatchS post) :
    PatchS (.for3 cnd body post) := by
  intro w s A B ks off b c t hoff
  have ih := hp w s (A ++ encodeIns (comp off cnd ++
      [Ins.jmpf (off + F2.esz cnd + 5 + F2.sssize body + F2.ssize post + 5)] ++
      F2.compSs (off + F2.esz cnd + 5 + F2.sssize body + F2.ssize post + 5) (off + F2.esz cnd + 5 + F2.sssize body)
        (off + F2.esz cnd + 5) body))
    (encodeIns [Ins.jmp off] ++ B) ks (off + F2.esz cnd + 5 + F2.sssize body) b c t
    (by simp [encodeIns_length, csize_append, csize_comp, F2.csize_compSs, csize, Ins.size, F2.esz_eq, hoff]; omega)
  simp only [jposS]
  refine ih.conv ?_ ?_ <;> simp only [F2.compS, encodeIns_append, List.append_assoc]

theorem patchSs_cons (st : F2.Stm) (ss : F2.Stms) (h1 : PatchS st) (h2 : PatchSs ss) : PatchSs (.cons st ss) := by
  intro w s A B ks off b c t hoff
  have ih1 := h1 w s A (encodeIns (F2.compSs b c (off + F2.ssize st) ss) ++ B) ks off b c t hoff
  have ih2 := h2 w s (A ++ encodeIns (F2.compS (if w then t else b) (if w then c else t) off st)) B ks
    (off + F2.ssize st) b c t (by simp [encodeIns_length, F2.csize_compS, hoff]; omega)
  simp only [jposSs]
  refine steps_patchAll_append (ih1.conv ?_ rfl) (ih2.conv ?_ ?_) <;>
    simp only [F2.compSs, encodeIns_append, List.append_assoc]

mutual
  theorem patchS : ∀ st : F2.Stm, PatchS st
    | .expr e => by
      intro w s A B ks off b c t hoff
      simp only [jposS, F2.compS]; exact Steps.pure () _
    | .assign i e => by
      intro w s A B ks off b c t hoff
      simp only [jposS, F2.compS]; exact Steps.pure () _
    | .ifs cnd body => patchS_ifs cnd body (patchSs body)
    | .ifelse cnd body els => patchS_ifelse cnd body els (patchSs body) (patchSs els)
    | .whil cnd body => by
      intro w s A B ks off b c t hoff
      simp only [jposS, F2.compS]; exact Steps.pure () _
    | .forever body => by
      intro w s A B ks off b c t hoff
      simp only [jposS, F2.compS]; exact Steps.pure () _
    | .for3 cnd body post => patchS_for3 cnd body post (patchS post)
    | .brk => patchS_brk
    | .cont => patchS_cont
  theorem patchSs : ∀ ss : F2.Stms, PatchSs ss
    | .nil => by
      intro w s A B ks off b c t hoff
      simp only [jposSs, F2.compSs]; exact Steps.pure () _
    | .cons st ss => patchSs_cons st ss (patchS st) (patchSs ss)
end

end Tengo.Proofs.C01Bridge

import Tengo.Proofs.C01BridgeF2ConvStmt
import Tengo.Proofs.C01BridgeF2SpecRun
import Tengo.Proofs.C01ConverseRun
/-!
C01 bridge for fragment F2, converse direction (`runProgram`): for EVERY fuel `F` of the reference interpreter,
the outcome of `Spec.runProgram` on an embedded F2 program is fuel exhaustion, or it is what the fragment's
evaluator `F2.exec vmSem` answers with every fuel `f ≥ F` (`runProgram_total2`). Hence the converse of
`runProgram_fragment2` (`runProgram_converse2`): an `ok` answer of the interpreter forces the fragment's evaluator
to terminate with the same globals, a failure other than fuel exhaustion forces it to report an error.
-/
set_option linter.unusedVariables false
set_option linter.unusedSimpArgs false
namespace Tengo.Proofs.C01Bridge
open Tengo.Model Tengo.Model.Spec Tengo.Model.F0

/-- **The reference interpreter on fragment F2, at every fuel.** `Spec.runProgram` with fuel `F` on the embedded
program (static check included, from every initial heap) answers `fuel`, or `ok` with the globals
`names i ↦ g' i` where `g'` is what the fragment's evaluator finishes with for EVERY fuel `f ≥ F`, or the outcome
of an error other than fuel exhaustion while the fragment's evaluator reports an error for every fuel `f ≥ F`. -/
theorem runProgram_total2 (names : Nat → String) (ctab : Nat → F0.Const) (n : Nat) (ss : F2.Stms) (F : Nat)
    (hinj : ∀ i j, i < n → j < n → names i = names j → i = j)
    (hwf : wfSs2 n 0 ss = true) (hsc : F2.scopedSs false ss = true) (hsp : simplePostSs ss = true)
    (hbud : budSs2 ss ≤ 4000)
    (g : Nat → SV) (initHeap : St) :
    runProgram F (inputsV names n g) initHeap (toAstSs2 names ctab ss) = .fuel ∨
    (∃ g' st, (∀ f, F ≤ f → F2.exec vmSem (svConst ctab) f (.inr ss) g = .done g') ∧
      runProgram F (inputsV names n g) initHeap (toAstSs2 names ctab ss) = .ok (globalsV names n g') st) ∨
    ((∀ f, F ≤ f → F2.exec vmSem (svConst ctab) f (.inr ss) g = .err) ∧
      ∃ err, err ≠ Err.fuel ∧
        runProgram F (inputsV names n g) initHeap (toAstSs2 names ctab ss) = errOutcome err) := by
  have hc : checkProgram ((inputsV names n g).map Prod.fst) (toAstSs2 names ctab ss) = none := by
    have : (inputsV names n g).map Prod.fst = inputsOf names n := by
      simp [inputsV, inputsOf, List.map_map, Function.comp_def]
    rw [this]
    exact checkProgram_fragment2 names ctab n ss hwf hsc hbud
  rw [runProgram_eq F _ initHeap _ hc]
  have h0 : InInv names g initHeap.heap.size 0 { vars := [] } initHeap :=
    ⟨rfl, rfl, fun i hi => by omega⟩
  obtain ⟨fr, σ, hin, hinv⟩ := inputs_loop names g initHeap.heap.size {} n 0 _ _ h0
  simp only [Nat.zero_add] at hinv
  have hin' : EOk (forIn (inputsV names n g) ({ vars := [] } : Spec.Frame) inputStep) {} initHeap fr σ := by
    simpa [inputsV, List.range_eq_range'] using hin
  rcases (all_conv2 (names := names) (ctab := ctab) (n := n)
    (cells := fun i => initHeap.heap.size + i) F).stmts ss { env := [fr] } {} σ g 0 0
    (hinv.env hinj) hinv.heap hwf hsp with hf | ⟨r, hne, hR, hs⟩
  · left
    have : EErr (progOf F (inputsV names n g) (toAstSs2 names ctab ss)) {} initHeap Err.fuel := by
      unfold progOf
      exact EErr.bind_right hin' (EErr.bind_left hf)
    unfold EErr at this
    rw [this]; rfl
  · have hesc := F2.exec_scoped vmSem (svConst ctab) F (.inr ss) g hsc
    have hRF : F2.exec vmSem (svConst ctab) F (.inr ss) g = r := hR F (Nat.le_refl F)
    rw [hRF] at hesc
    cases r with
    | done g' =>
      obtain ⟨σ', hok, hh'⟩ := hs
      right; left
      have hout := readOut_all names n (fun i => initHeap.heap.size + i) g' σ' hh' {} (List.range n)
        (fun i hi => by simpa using hi)
      have hvars : fr.vars.reverse = (List.range n).map (fun i => (names i, initHeap.heap.size + i)) := by
        rw [hinv.vars, List.reverse_reverse]
      refine ⟨g', σ', hR, ?_⟩
      have : EOk (progOf F (inputsV names n g) (toAstSs2 names ctab ss)) {} initHeap (globalsV names n g') σ' := by
        unfold progOf
        refine EOk.bind hin' (EOk.bind hok ?_)
        simp only [List.getLast?_singleton, hvars]
        exact hout
      unfold EOk at this
      rw [this]; rfl
    | brk g' => cases hesc
    | cont g' => cases hesc
    | err =>
      obtain ⟨err, hne', herr⟩ := hs
      right; right
      refine ⟨hR, err, hne', ?_⟩
      have : EErr (progOf F (inputsV names n g) (toAstSs2 names ctab ss)) {} initHeap err := by
        unfold progOf
        exact EErr.bind_right hin' (EErr.bind_left herr)
      unfold EErr at this
      rw [this]
      cases err <;> first | rfl | exact absurd rfl hne'
    | out => exact absurd rfl hne

/-- **The converse of `runProgram_fragment2`.** For every embedded F2 program (`break` / `continue` inside loops,
simple post statements), every fuel `F` of the reference interpreter, every initial heap:

1. if `Spec.runProgram` answers `ok gs st`, the fragment's evaluator `F2.exec vmSem` TERMINATES — with fuel `F`,
   and with every larger fuel — with globals `g'`, and `gs` lists exactly `names i ↦ g' i`;
2. if `Spec.runProgram` answers anything that is neither `ok` nor fuel exhaustion, the fragment's evaluator
   reports a run-time error (with fuel `F` and every larger fuel).

(If the interpreter runs out of fuel nothing is claimed.) -/
theorem runProgram_converse2 (names : Nat → String) (ctab : Nat → F0.Const) (n : Nat) (ss : F2.Stms) (F : Nat)
    (hinj : ∀ i j, i < n → j < n → names i = names j → i = j)
    (hwf : wfSs2 n 0 ss = true) (hsc : F2.scopedSs false ss = true) (hsp : simplePostSs ss = true)
    (hbud : budSs2 ss ≤ 4000)
    (g : Nat → SV) (initHeap : St) :
    (∀ gs st, runProgram F (inputsV names n g) initHeap (toAstSs2 names ctab ss) = .ok gs st →
      ∃ g', (∀ f, F ≤ f → F2.exec vmSem (svConst ctab) f (.inr ss) g = .done g') ∧ gs = globalsV names n g') ∧
    ((∀ gs st, runProgram F (inputsV names n g) initHeap (toAstSs2 names ctab ss) ≠ .ok gs st) →
      runProgram F (inputsV names n g) initHeap (toAstSs2 names ctab ss) ≠ .fuel →
      ∀ f, F ≤ f → F2.exec vmSem (svConst ctab) f (.inr ss) g = .err) := by
  rcases runProgram_total2 names ctab n ss F hinj hwf hsc hsp hbud g initHeap with
    hf | ⟨g', st', hR, hrun⟩ | ⟨hR, err, hne, hrun⟩
  · exact ⟨fun gs st h => (by rw [hf] at h; cases h), fun _ h => absurd hf h⟩
  · refine ⟨fun gs st h => ?_, fun h _ => absurd hrun (h _ _)⟩
    rw [hrun] at h
    injection h with h1 h2
    exact ⟨g', hR, h1.symm⟩
  · refine ⟨fun gs st h => ?_, fun _ _ => hR⟩
    rw [hrun] at h
    exact absurd h (errOutcome_ne_ok err gs st)

end Tengo.Proofs.C01Bridge

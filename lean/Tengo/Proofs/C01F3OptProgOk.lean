import Tengo.Proofs.C01F3OptCode
import Tengo.Proofs.F3Program
/-!
C01 on fragment F3, closing the optimizer gap: `ProgOk` (the side condition of `program_correct_F3`: parameters are
among the locals, bodies write only their own local slots, main writes no local slot) FOLLOWS from `SrcOk` (the
well-formedness check of the compiler bridge) — `progOk_of_srcOk`. So the end-to-end theorem needs one
well-formedness hypothesis on the program, not two.
-/
set_option linter.unusedVariables false
set_option linter.unusedSimpArgs false
namespace Tengo.Proofs.C01F3Opt
open Tengo.Model
open Tengo.Model.F3 (Ex Exs Stm Stms FnDef Prog slotsS slotsSs FnOk ProgOk)
open Tengo.Proofs.C01BridgeF3Comp

mutual
  theorem slotsS_mono : ∀ (s : Stm) (a b : Nat), a ≤ b → slotsS a s = true → slotsS b s = true
    | .expr _, _, _, _, _ | .assign _ _, _, _, _, _ | .brk, _, _, _, _ | .cont, _, _, _, _ | .ret _, _, _, _, _
    | .ret0, _, _, _, _ => by simp only [slotsS]
    | .defl i _, a, b, hab, h | .setl i _, a, b, hab, h => by
      simp only [slotsS, decide_eq_true_eq] at h ⊢; omega
    | .ifs _ body, a, b, hab, h | .whil _ body, a, b, hab, h | .forever body, a, b, hab, h => by
      simp only [slotsS] at h ⊢; exact slotsSs_mono body a b hab h
    | .ifelse _ body els, a, b, hab, h => by
      simp only [slotsS, Bool.and_eq_true] at h ⊢
      exact ⟨slotsSs_mono body a b hab h.1, slotsSs_mono els a b hab h.2⟩
    | .for3 _ body post, a, b, hab, h => by
      simp only [slotsS, Bool.and_eq_true] at h ⊢
      exact ⟨slotsSs_mono body a b hab h.1, slotsS_mono post a b hab h.2⟩
  theorem slotsSs_mono : ∀ (ss : Stms) (a b : Nat), a ≤ b → slotsSs a ss = true → slotsSs b ss = true
    | .nil, _, _, _, _ => by simp only [slotsSs]
    | .cons s ss, a, b, hab, h => by
      simp only [slotsSs, Bool.and_eq_true] at h ⊢
      exact ⟨slotsS_mono s a b hab h.1, slotsSs_mono ss a b hab h.2⟩
end

section wf
variable {isFn : Nat → Bool} {n : Nat}

mutual
  theorem slotsS_of_wf : ∀ (s : Stm) (m : Nat) (inFn inl : Bool) (k : Nat), wfS3 isFn n m inFn inl k s = true →
      slotsS m s = true
    | .expr _, _, _, _, _, _ | .assign _ _, _, _, _, _, _ | .brk, _, _, _, _, _ | .cont, _, _, _, _, _
    | .ret _, _, _, _, _, _ | .ret0, _, _, _, _, _ => by simp only [slotsS]
    | .defl i e, m, inFn, inl, k, h => by simp only [wfS3] at h; cases h
    | .setl i e, m, inFn, inl, k, h => by
      simp only [wfS3, Bool.and_eq_true, decide_eq_true_eq] at h
      simp only [slotsS, decide_eq_true_eq]; exact h.1
    | .ifs c body, m, inFn, inl, k, h => by
      simp only [wfS3, Bool.and_eq_true] at h
      simp only [slotsS]; exact slotsSs_of_wf body m inFn inl _ h.2
    | .ifelse c body els, m, inFn, inl, k, h => by
      simp only [wfS3, Bool.and_eq_true] at h
      simp only [slotsS, Bool.and_eq_true]
      exact ⟨slotsSs_of_wf body m inFn inl _ h.1.2, slotsSs_of_wf els m inFn inl _ h.2⟩
    | .whil c body, m, inFn, inl, k, h => by
      simp only [wfS3, Bool.and_eq_true] at h
      simp only [slotsS]; exact slotsSs_of_wf body m inFn true _ h.2
    | .forever body, m, inFn, inl, k, h => by
      simp only [wfS3] at h
      simp only [slotsS]; exact slotsSs_of_wf body m inFn true _ h
    | .for3 c body post, m, inFn, inl, k, h => by
      simp only [wfS3, Bool.and_eq_true] at h
      simp only [slotsS, Bool.and_eq_true]
      exact ⟨slotsSs_of_wf body m inFn true _ h.1.1.2, slotsS_of_wf post m inFn inl _ h.2⟩
  theorem slotsSs_of_wf : ∀ (ss : Stms) (m : Nat) (inFn inl : Bool) (k : Nat), wfSs3 isFn n m inFn inl k ss = true →
      slotsSs m ss = true
    | .nil, _, _, _, _, _ => by simp only [slotsSs]
    | .cons s ss, m, inFn, inl, k, h => by
      simp only [wfSs3, Bool.and_eq_true] at h
      simp only [slotsSs, Bool.and_eq_true]
      exact ⟨slotsS_of_wf s m inFn inl k h.1, slotsSs_of_wf ss m inFn inl _ h.2⟩
end

theorem slots_of_body : ∀ (ss : Stms) (m k : Nat), wfBody isFn n m k ss = true → slotsSs (m + ndefs ss) ss = true
  | .nil, _, _, _ => by simp only [slotsSs]
  | .cons st ss, m, k, hw => by
    simp only [slotsSs, Bool.and_eq_true]
    rcases isDefl_cases st with ⟨i, e, rfl⟩ | hnd
    · rw [wfBody_defl] at hw
      simp only [Bool.and_eq_true, beq_iff_eq] at hw
      obtain ⟨⟨rfl, hwe⟩, hws⟩ := hw
      rw [ndefs_defl]
      refine ⟨by simp only [slotsS, decide_eq_true_eq]; omega, ?_⟩
      have := slots_of_body ss (i + 1) _ hws
      have e1 : i + (ndefs ss + 1) = i + 1 + ndefs ss := by omega
      rw [e1]; exact this
    · rw [wfBody_other _ _ _ _ _ _ hnd] at hw
      simp only [Bool.and_eq_true] at hw
      rw [ndefs_other _ _ hnd]
      exact ⟨slotsS_mono st m _ (by omega) (slotsS_of_wf st m true false k hw.1), slots_of_body ss m _ hw.2⟩

end wf

theorem slots_of_main (P : Prog) (n : Nat) : ∀ (ss : Stms) (k : Nat), wfMain P n k ss = true → slotsSs 0 ss = true
  | .nil, _, _ => by simp only [slotsSs]
  | .cons s ss, k, hw => by
    simp only [wfMain, Bool.and_eq_true] at hw
    simp only [slotsSs, Bool.and_eq_true]
    refine ⟨?_, slots_of_main P n ss _ hw.2⟩
    cases ht : topFn P s with
    | none =>
      have h1 := hw.1
      simp only [ht] at h1
      exact slotsS_of_wf s 0 false false k h1
    | some x =>
      obtain ⟨i, j, fd⟩ := x
      obtain ⟨rfl, _⟩ := topFn_some ht
      simp only [slotsS]

/-- **`ProgOk` follows from `SrcOk`.** -/
theorem progOk_of_srcOk {P : Prog} {n : Nat} (hs : SrcOk P n) : ProgOk P where
  fns := by
    intro k fd hf
    obtain ⟨i, hm⟩ := hs.decl k fd hf
    obtain ⟨k', hwf, _, _, _⟩ := wfMain_fn P n P.main 0 (nlitsMain P P.main) hs.wf (by omega) i k fd hm hf
    simp only [wfFn, Bool.and_eq_true, beq_iff_eq, decide_eq_true_eq] at hwf
    obtain ⟨⟨hnl, _⟩, hbody⟩ := hwf
    refine ⟨by omega, ?_⟩
    rw [hnl]
    exact slots_of_body fd.body fd.nparams k' hbody
  main := slots_of_main P n P.main 0 hs.wf

end Tengo.Proofs.C01F3Opt

import Tengo.Proofs.C01BridgeF3ConvFwdBase
/-!
C01 bridge for fragment F3, reference-interpreter side: the FORWARD simulation WITHOUT the fuel bound
(statements and loops). The proofs of `C01BridgeF3SpecStmt` with the hypothesis `2·depth + f ≤ 1800` dropped and the
outcome `Xz` (the interpreter ends `excluded`) allowed at every use of an induction hypothesis.
-/
set_option linter.unusedVariables false
set_option linter.unusedSimpArgs false
namespace Tengo.Proofs.C01BridgeF3Conv
open Tengo.Model Tengo.Model.Spec
open Tengo.Model.F3 (Ex Exs Stm Stms FnDef Prog Locals ERes EsRes Res updL bindArgs)
open Tengo.Proofs.C01Bridge
open Tengo.Proofs.C01BridgeF3 (DataRel NotCallable)
open Tengo.Proofs.C01BridgeF3Comp
open Tengo.Proofs.C01F3Opt (EnvOk)
open Tengo.Proofs.C11Rename (isFuncLit)
open Tengo.Proofs.C01BridgeF3Spec
variable {V : Type} {C : Cx V}

/-! ### evaluator fuel 0: the evaluator answers `out`, nothing is claimed -/

theorem stmtFwd_zero (st : Stm) : StmtFwd C 0 st := by
  intro F ctx gs σ g l m lc B k inFn inl hF he hh hw
  exact .inr (by simp only [F3.execS]; exact True.intro)

theorem stmtsFwd_zero (ss : Stms) : StmtsFwd C 0 ss := by
  intro F ctx gs σ g l m lc B k i inFn inl hF he hh hw
  exact .inr (by simp only [F3.execSs]; exact True.intro)

theorem whileFwd_zero (c : Ex) (body : Stms) : WhileFwd C 0 c body := by
  intro F ctx gs σ g l m lc B k inFn inl hF he hh hw
  exact .inr (by simp only [F3.execS]; exact True.intro)

theorem foreverFwd_zero (body : Stms) : ForeverFwd C 0 body := by
  intro F ctx gs σ g l m lc B k inFn inl hF he hh hw
  exact .inr (by simp only [F3.execS]; exact True.intro)

theorem for3Fwd_zero (c : Ex) (body : Stms) (post : Stm) : For3Fwd C 0 c body post := by
  intro F ctx gs σ g l m lc B k inFn inl hF he hh hw
  exact .inr (by simp only [F3.execS]; exact True.intro)

theorem blockFwd_of {f : Nat} {ss : Stms} (h : StmtsFwd C f ss) : BlockFwd C f ss := by
  intro F ctx gs σ g l m lc B k tag inFn inl hF he hh hw
  obtain ⟨F, rfl⟩ : ∃ F', F = F' + 1 := ⟨F - 1, by omega⟩
  cases ss with
  | nil =>
    simp only [toAstSs3, execBlock.eq_2]
    cases f with
    | zero => exact .inr (by simp only [F3.execSs]; exact True.intro)
    | succ f =>
      refine .inr ?_
      simp only [F3.execSs]
      exact ⟨σ, EOk.pure _ gs σ, hh, FrB.refl B σ⟩
  | cons st ss =>
    rw [toAstSs3, execBlock.eq_3 _ _ _ _ (by simp), ← toAstSs3]
    exact RS.wrapX (h F { env := { vars := [] } :: ctx.env, callDepth := ctx.callDepth, path := tag :: ctx.path }
      gs σ g l m lc B k 0 inFn inl (by omega) he.push hh hw) (fun fl σ' => EOk.pure _ gs σ')

section
variable (hy : Hyp C) (f : Nat) (ihE : ∀ e, EvalFwd C f e)
include hy ihE

omit hy in
theorem stmtFwd_expr (e : Ex) : StmtFwd C (f + 1) (.expr e) := by
  intro F ctx gs σ g l m lc B k inFn inl hF he hh hw
  obtain ⟨F, rfl⟩ : ∃ F', F = F' + 1 := ⟨F - 1, by omega⟩
  simp only [wfS3] at hw
  have ha := ihE e F ctx gs σ g l m lc B _ (by omega) he hh hw
  simp only [toAstS3, ex_expr, F3.execS]
  rcases ha with hx | ha
  · exact .inl hx.bind_left
  cases hea : F3.evalE C.E C.P f e g l with
  | val x g1 =>
    rw [hea] at ha
    obtain ⟨wx, σ1, hok1, hvx, hh1, hf1⟩ := ha
    exact .inr ⟨σ1, EOk.bind hok1 (EOk.pure _ gs σ1), hh1, hf1⟩
  | err => rw [hea] at ha; obtain ⟨err, hne, herr⟩ := ha; exact .inr ⟨err, hne, EErr.bind_left herr⟩
  | out => exact .inr True.intro
  | bad => exact .inr True.intro

theorem stmtFwd_assign (i : Nat) (e : Ex) : StmtFwd C (f + 1) (.assign i e) := by
  intro F ctx gs σ g l m lc B k inFn inl hF he hh hw
  obtain ⟨F, rfl⟩ : ∃ F', F = F' + 1 + 1 := ⟨F - 2, by omega⟩
  simp only [wfS3, Bool.and_eq_true, decide_eq_true_eq] at hw
  obtain ⟨hi, hw⟩ := hw
  have ha := ihE e (F + 1) ctx gs σ g l m lc B _ (by omega) he hh hw
  simp only [toAstS3, ex_assign _ _ _ _ (C01BridgeF3Spec.isFuncLit_toAstE3 _ _ _ e), ex_assignTo, F3.execS]
  rcases ha with hx | ha
  · exact .inl hx.bind_left
  cases hea : F3.evalE C.E C.P f e g l with
  | val x g1 =>
    rw [hea] at ha
    obtain ⟨wx, σ1, hok1, hvx, hh1, hf1⟩ := ha
    obtain ⟨wi, bi, hci, _⟩ := hh1.glob i hi
    exact .inr ⟨_, EOk.bind hok1 (EOk.bind (EOk.bind (writeVar_run (he.glob i hi) wx gs σ1) (EOk.pure _ gs _))
      (EOk.pure _ gs _)), hh1.setGlob hy hi hvx, hf1.trans (frB_setGlob hi hci)⟩
  | err => rw [hea] at ha; obtain ⟨err, hne, herr⟩ := ha; exact .inr ⟨err, hne, EErr.bind_left herr⟩
  | out => exact .inr True.intro
  | bad => exact .inr True.intro

omit hy in
theorem stmtFwd_setl (i : Nat) (e : Ex) : StmtFwd C (f + 1) (.setl i e) := by
  intro F ctx gs σ g l m lc B k inFn inl hF he hh hw
  obtain ⟨F, rfl⟩ : ∃ F', F = F' + 1 + 1 := ⟨F - 2, by omega⟩
  simp only [wfS3, Bool.and_eq_true, decide_eq_true_eq] at hw
  obtain ⟨hi, hw⟩ := hw
  have ha := ihE e (F + 1) ctx gs σ g l m lc B _ (by omega) he hh hw
  simp only [toAstS3, ex_assign _ _ _ _ (C01BridgeF3Spec.isFuncLit_toAstE3 _ _ _ e), ex_assignTo, F3.execS]
  rcases ha with hx | ha
  · exact .inl hx.bind_left
  cases hea : F3.evalE C.E C.P f e g l with
  | val x g1 =>
    rw [hea] at ha
    obtain ⟨wx, σ1, hok1, hvx, hh1, hf1⟩ := ha
    obtain ⟨vi, wi, bi, _, hci, _⟩ := hh1.loc.loc i hi
    exact .inr ⟨_, EOk.bind hok1 (EOk.bind (EOk.bind (writeVar_run (he.loc i hi) wx gs σ1) (EOk.pure _ gs _))
      (EOk.pure _ gs _)), hh1.setLoc hi hvx, hf1.trans (frB_setLoc (hh1.loc.base i hi) hci)⟩
  | err => rw [hea] at ha; obtain ⟨err, hne, herr⟩ := ha; exact .inr ⟨err, hne, EErr.bind_left herr⟩
  | out => exact .inr True.intro
  | bad => exact .inr True.intro

omit hy in
theorem stmtFwd_ret (e : Ex) : StmtFwd C (f + 1) (.ret e) := by
  intro F ctx gs σ g l m lc B k inFn inl hF he hh hw
  obtain ⟨F, rfl⟩ : ∃ F', F = F' + 1 := ⟨F - 1, by omega⟩
  simp only [wfS3, Bool.and_eq_true] at hw
  have ha := ihE e F ctx gs σ g l m lc B _ (by omega) he hh hw.2
  simp only [toAstS3, ex_ret, F3.execS]
  rcases ha with hx | ha
  · exact .inl hx.bind_left
  cases hea : F3.evalE C.E C.P f e g l with
  | val x g1 =>
    rw [hea] at ha
    obtain ⟨wx, σ1, hok1, hvx, hh1, hf1⟩ := ha
    exact .inr ⟨wx, σ1, EOk.bind hok1 (EOk.pure _ gs σ1), hvx, hh1.glob, hf1⟩
  | err => rw [hea] at ha; obtain ⟨err, hne, herr⟩ := ha; exact .inr ⟨err, hne, EErr.bind_left herr⟩
  | out => exact .inr True.intro
  | bad => exact .inr True.intro

omit ihE in
theorem stmtFwd_ret0 : StmtFwd C (f + 1) .ret0 := by
  intro F ctx gs σ g l m lc B k inFn inl hF he hh hw
  obtain ⟨F, rfl⟩ : ∃ F', F = F' + 1 := ⟨F - 1, by omega⟩
  simp only [toAstS3, ex_ret0, F3.execS]
  exact .inr ⟨.undef, σ, EOk.pure _ gs σ, by rw [← hy.data.undef]; exact VR.scalar (by rw [hy.data.undef]; rfl),
    hh.glob, FrB.refl B σ⟩

omit hy ihE in
theorem stmtFwd_brk : StmtFwd C (f + 1) .brk := by
  intro F ctx gs σ g l m lc B k inFn inl hF he hh hw
  obtain ⟨F, rfl⟩ : ∃ F', F = F' + 1 := ⟨F - 1, by omega⟩
  simp only [toAstS3, ex_branch_break, F3.execS]
  exact .inr ⟨σ, EOk.pure _ gs σ, hh, FrB.refl B σ⟩

omit hy ihE in
theorem stmtFwd_cont : StmtFwd C (f + 1) .cont := by
  intro F ctx gs σ g l m lc B k inFn inl hF he hh hw
  obtain ⟨F, rfl⟩ : ∃ F', F = F' + 1 := ⟨F - 1, by omega⟩
  simp only [toAstS3, ex_branch_continue, F3.execS]
  exact .inr ⟨σ, EOk.pure _ gs σ, hh, FrB.refl B σ⟩

theorem stmtFwd_ifs (c : Ex) (body : Stms) (hb : BlockFwd C f body) : StmtFwd C (f + 1) (.ifs c body) := by
  intro F ctx gs σ g l m lc B k inFn inl hF he hh hw
  obtain ⟨F, rfl⟩ : ∃ F', F = F' + 1 := ⟨F - 1, by omega⟩
  simp only [wfS3, Bool.and_eq_true] at hw
  obtain ⟨hwc, hwb⟩ := hw
  have ha := ihE c F { ctx with env := { vars := [] } :: ctx.env } gs σ g l m lc B _ (by omega) he.push hh hwc
  simp only [toAstS3, ex_ifs, F3.execS]
  rcases ha with hx | ha
  · exact .inl hx.bind_left
  cases hea : F3.evalE C.E C.P f c g l with
  | val x g1 =>
    rw [hea] at ha
    obtain ⟨wx, σ1, hok1, hvx, hh1, hf1⟩ := ha
    refine RS.bind_okX hok1 hf1 (RS.bind_okX (vr_falsy hy hvx gs σ1) (FrB.refl B σ1) ?_)
    dsimp only
    cases hfa : C.E.S.falsy x with
    | true =>
      simp only [Bool.not_true, Bool.false_eq_true, if_false, if_true]
      exact .inr ⟨σ1, EOk.pure _ gs σ1, hh1, FrB.refl B σ1⟩
    | false =>
      simp only [Bool.not_false, Bool.false_eq_true, if_false, if_true]
      exact RS.wrapX (hb F { ctx with env := { vars := [] } :: ctx.env } gs σ1 g1 l m lc B _ 1 inFn inl (by omega)
        he.push hh1 hwb) (fun fl σ' => EOk.pure _ gs σ')
  | err => rw [hea] at ha; obtain ⟨err, hne, herr⟩ := ha; exact .inr ⟨err, hne, EErr.bind_left herr⟩
  | out => exact .inr True.intro
  | bad => exact .inr True.intro

theorem stmtFwd_ifelse (c : Ex) (body els : Stms) (hb : BlockFwd C f body) (hel : BlockFwd C f els) :
    StmtFwd C (f + 1) (.ifelse c body els) := by
  intro F ctx gs σ g l m lc B k inFn inl hF he hh hw
  obtain ⟨F, rfl⟩ : ∃ F', F = F' + 1 + 1 := ⟨F - 2, by omega⟩
  simp only [wfS3, Bool.and_eq_true] at hw
  obtain ⟨⟨hwc, hwb⟩, hwe⟩ := hw
  have ha := ihE c (F + 1) { ctx with env := { vars := [] } :: ctx.env } gs σ g l m lc B _ (by omega)
    he.push hh hwc
  simp only [toAstS3, ex_ifelse, F3.execS]
  rcases ha with hx | ha
  · exact .inl hx.bind_left
  cases hea : F3.evalE C.E C.P f c g l with
  | val x g1 =>
    rw [hea] at ha
    obtain ⟨wx, σ1, hok1, hvx, hh1, hf1⟩ := ha
    refine RS.bind_okX hok1 hf1 (RS.bind_okX (vr_falsy hy hvx gs σ1) (FrB.refl B σ1) ?_)
    dsimp only
    cases hfa : C.E.S.falsy x with
    | true =>
      simp only [Bool.not_true, Bool.false_eq_true, if_false, if_true]
      have hx := RS.wrapX (hel F { env := { vars := [] } :: ctx.env, callDepth := ctx.callDepth, path := 2 :: ctx.path }
        gs σ1 g1 l m lc B _ 0 inFn inl (by omega) he.push hh1 hwe)
        (K := fun fl => (pure (fl, ({ vars := [] } : Spec.Frame) :: ctx.env) : EM (Flow × Spec.Env)))
        (mk' := fun fl => (fl, ({ vars := [] } : Spec.Frame) :: ctx.env)) (fun fl σ' => EOk.pure _ gs σ')
      exact RS.wrapX hx (fun fl σ' => EOk.pure _ gs σ')
    | false =>
      simp only [Bool.not_false, Bool.false_eq_true, if_false, if_true]
      exact RS.wrapX (hb (F + 1) { ctx with env := { vars := [] } :: ctx.env } gs σ1 g1 l m lc B _ 1 inFn inl
        (by omega) he.push hh1 hwb) (fun fl σ' => EOk.pure _ gs σ')
  | err => rw [hea] at ha; obtain ⟨err, hne, herr⟩ := ha; exact .inr ⟨err, hne, EErr.bind_left herr⟩
  | out => exact .inr True.intro
  | bad => exact .inr True.intro


theorem whileFwd_succ (c : Ex) (body : Stms) (hb : BlockFwd C f body) (hloop : WhileFwd C f c body) :
    WhileFwd C (f + 1) c body := by
  intro F ctx gs σ g l m lc B k inFn inl hF he hh hw
  obtain ⟨F, rfl⟩ : ∃ F', F = F' + 1 := ⟨F - 1, by omega⟩
  have hw0 := hw
  simp only [wfS3, Bool.and_eq_true] at hw
  obtain ⟨hwc, hwb⟩ := hw
  have ha := ihE c F ctx gs σ g l m lc B _ (by omega) he hh hwc
  simp only [ex_loop_some, F3.execS]
  rcases ha with hx | ha
  · exact .inl hx.bind_left
  cases hea : F3.evalE C.E C.P f c g l with
  | val x g1 =>
    rw [hea] at ha
    obtain ⟨wx, σ1, hok1, hvx, hh1, hf1⟩ := ha
    refine RS.bind_okX hok1 hf1 (RS.bind_okX (vr_falsy hy hvx gs σ1) (FrB.refl B σ1) ?_)
    dsimp only
    cases hfa : C.E.S.falsy x with
    | true =>
      simp only [Bool.not_true, Bool.not_false, Bool.false_eq_true, if_false, if_true]
      exact .inr ⟨σ1, EOk.pure _ gs σ1, hh1, FrB.refl B σ1⟩
    | false =>
      simp only [Bool.not_false, Bool.not_true, Bool.false_eq_true, if_false, if_true]
      have hbody := hb F ctx gs σ1 g1 l m lc B _ 1 inFn true (by omega) he hh1 hwb
      rcases hbody with hx | hbody
      · exact .inl hx.bind_left
      cases hex : F3.execSs C.E C.P f body g1 l with
      | done g2 l2 =>
        rw [hex] at hbody
        obtain ⟨σ2, hok2, hh2, hf2⟩ := hbody
        exact RS.bind_okX hok2 hf2 (hloop F ctx gs σ2 g2 l2 m lc B k inFn inl (by omega) he hh2 hw0)
      | cont g2 l2 =>
        rw [hex] at hbody
        obtain ⟨σ2, hok2, hh2, hf2⟩ := hbody
        exact RS.bind_okX hok2 hf2 (hloop F ctx gs σ2 g2 l2 m lc B k inFn inl (by omega) he hh2 hw0)
      | brk g2 l2 =>
        rw [hex] at hbody
        obtain ⟨σ2, hok2, hh2, hf2⟩ := hbody
        exact .inr ⟨σ2, EOk.bind hok2 (EOk.pure _ gs σ2), hh2, hf2⟩
      | ret v g2 =>
        rw [hex] at hbody
        obtain ⟨w, σ2, hok2, hv2, hg2, hf2⟩ := hbody
        exact .inr ⟨w, σ2, EOk.bind hok2 (EOk.pure _ gs σ2), hv2, hg2, hf2⟩
      | err => rw [hex] at hbody; obtain ⟨err, hne, herr⟩ := hbody; exact .inr ⟨err, hne, EErr.bind_left herr⟩
      | out => exact .inr True.intro
      | bad => exact .inr True.intro
  | err => rw [hea] at ha; obtain ⟨err, hne, herr⟩ := ha; exact .inr ⟨err, hne, EErr.bind_left herr⟩
  | out => exact .inr True.intro
  | bad => exact .inr True.intro

omit hy ihE in
theorem foreverFwd_succ (body : Stms) (hb : BlockFwd C f body) (hloop : ForeverFwd C f body) :
    ForeverFwd C (f + 1) body := by
  intro F ctx gs σ g1 l m lc B k inFn inl hF he hh1 hw
  obtain ⟨F, rfl⟩ : ∃ F', F = F' + 1 := ⟨F - 1, by omega⟩
  have hw0 := hw
  simp only [wfS3] at hw
  simp only [ex_loop_none, F3.execS]
  have hbody := hb F ctx gs σ g1 l m lc B _ 1 inFn true (by omega) he hh1 hw
  rcases hbody with hx | hbody
  · exact .inl hx.bind_left
  cases hex : F3.execSs C.E C.P f body g1 l with
  | done g2 l2 =>
    rw [hex] at hbody
    obtain ⟨σ2, hok2, hh2, hf2⟩ := hbody
    exact RS.bind_okX hok2 hf2 (hloop F ctx gs σ2 g2 l2 m lc B k inFn inl (by omega) he hh2 hw0)
  | cont g2 l2 =>
    rw [hex] at hbody
    obtain ⟨σ2, hok2, hh2, hf2⟩ := hbody
    exact RS.bind_okX hok2 hf2 (hloop F ctx gs σ2 g2 l2 m lc B k inFn inl (by omega) he hh2 hw0)
  | brk g2 l2 =>
    rw [hex] at hbody
    obtain ⟨σ2, hok2, hh2, hf2⟩ := hbody
    exact .inr ⟨σ2, EOk.bind hok2 (EOk.pure _ gs σ2), hh2, hf2⟩
  | ret v g2 =>
    rw [hex] at hbody
    obtain ⟨w, σ2, hok2, hv2, hg2, hf2⟩ := hbody
    exact .inr ⟨w, σ2, EOk.bind hok2 (EOk.pure _ gs σ2), hv2, hg2, hf2⟩
  | err => rw [hex] at hbody; obtain ⟨err, hne, herr⟩ := hbody; exact .inr ⟨err, hne, EErr.bind_left herr⟩
  | out => exact .inr True.intro
  | bad => exact .inr True.intro

theorem for3Fwd_succ (c : Ex) (body : Stms) (post : Stm) (hb : BlockFwd C f body) (hp : StmtFwd C f post)
    (hloop : For3Fwd C f c body post) : For3Fwd C (f + 1) c body post := by
  intro F ctx gs σ g l m lc B k inFn inl hF he hh hw
  obtain ⟨F, rfl⟩ : ∃ F', F = F' + 1 := ⟨F - 1, by omega⟩
  have hw0 := hw
  simp only [wfS3, Bool.and_eq_true] at hw
  obtain ⟨⟨⟨hwc, hwb⟩, hsimple⟩, hwp⟩ := hw
  have ha := ihE c F ctx gs σ g l m lc B _ (by omega) he hh hwc
  -- after the body (normal end or `continue`): the post statement, then the loop again
  have hrest : ∀ (σ2 : St) (g2 : Nat → V) (l2 : Locals V), HInv C B σ2 g2 m lc l2 →
      Xz (do
          let _ ← execStmt F { ctx with path := 3 :: ctx.path } (toAstS3 C.names C.lnames C.ctab post)
          loopFor F ctx (some (toAstE3 C.names C.lnames C.ctab c)) (some (toAstS3 C.names C.lnames C.ctab post))
            (toAstSs3 C.names C.lnames C.ctab body)) gs σ2 ∨
      RS C (do
          let _ ← execStmt F { ctx with path := 3 :: ctx.path } (toAstS3 C.names C.lnames C.ctab post)
          loopFor F ctx (some (toAstE3 C.names C.lnames C.ctab c)) (some (toAstS3 C.names C.lnames C.ctab post))
            (toAstSs3 C.names C.lnames C.ctab body))
        (fun fl => fl) gs σ2 B m lc
        (match F3.execS C.E C.P f post g2 l2 with
          | .done g3 l3 => F3.execS C.E C.P f (.for3 c body post) g3 l3
          | r => r) := by
    intro σ2 g2 l2 hh2
    have hpost := hp F { ctx with path := 3 :: ctx.path } gs σ2 g2 l2 m lc B _ inFn inl (by omega) he hh2 hwp
    have hsr := simple_res C.E C.P f post g2 l2 hsimple
    rcases hpost with hx | hpost
    · exact .inl hx.bind_left
    cases hex : F3.execS C.E C.P f post g2 l2 with
    | done g3 l3 =>
      rw [hex] at hpost
      obtain ⟨σ3, hok3, hh3, hf3⟩ := hpost
      exact RS.bind_okX hok3 hf3 (hloop F ctx gs σ3 g3 l3 m lc B k inFn inl (by omega) he hh3 hw0)
    | brk g3 l3 => rw [hex] at hsr; exact hsr.elim
    | cont g3 l3 => rw [hex] at hsr; exact hsr.elim
    | ret v g3 => rw [hex] at hsr; exact hsr.elim
    | err => rw [hex] at hpost; obtain ⟨err, hne, herr⟩ := hpost; exact .inr ⟨err, hne, EErr.bind_left herr⟩
    | out => exact .inr True.intro
    | bad => exact .inr True.intro
  simp only [ex_loop_post, F3.execS]
  rcases ha with hx | ha
  · exact .inl hx.bind_left
  cases hea : F3.evalE C.E C.P f c g l with
  | val x g1 =>
    rw [hea] at ha
    obtain ⟨wx, σ1, hok1, hvx, hh1, hf1⟩ := ha
    refine RS.bind_okX hok1 hf1 (RS.bind_okX (vr_falsy hy hvx gs σ1) (FrB.refl B σ1) ?_)
    dsimp only
    cases hfa : C.E.S.falsy x with
    | true =>
      simp only [Bool.not_true, Bool.not_false, Bool.false_eq_true, if_false, if_true]
      exact .inr ⟨σ1, EOk.pure _ gs σ1, hh1, FrB.refl B σ1⟩
    | false =>
      simp only [Bool.not_false, Bool.not_true, Bool.false_eq_true, if_false, if_true]
      have hbody := hb F ctx gs σ1 g1 l m lc B _ 1 inFn true (by omega) he hh1 hwb
      rcases hbody with hx | hbody
      · exact .inl hx.bind_left
      cases hex : F3.execSs C.E C.P f body g1 l with
      | done g2 l2 =>
        rw [hex] at hbody
        obtain ⟨σ2, hok2, hh2, hf2⟩ := hbody
        exact RS.bind_okX hok2 hf2 (hrest σ2 g2 l2 hh2)
      | cont g2 l2 =>
        rw [hex] at hbody
        obtain ⟨σ2, hok2, hh2, hf2⟩ := hbody
        exact RS.bind_okX hok2 hf2 (hrest σ2 g2 l2 hh2)
      | brk g2 l2 =>
        rw [hex] at hbody
        obtain ⟨σ2, hok2, hh2, hf2⟩ := hbody
        exact .inr ⟨σ2, EOk.bind hok2 (EOk.pure _ gs σ2), hh2, hf2⟩
      | ret v g2 =>
        rw [hex] at hbody
        obtain ⟨w, σ2, hok2, hv2, hg2, hf2⟩ := hbody
        exact .inr ⟨w, σ2, EOk.bind hok2 (EOk.pure _ gs σ2), hv2, hg2, hf2⟩
      | err => rw [hex] at hbody; obtain ⟨err, hne, herr⟩ := hbody; exact .inr ⟨err, hne, EErr.bind_left herr⟩
      | out => exact .inr True.intro
      | bad => exact .inr True.intro
  | err => rw [hea] at ha; obtain ⟨err, hne, herr⟩ := ha; exact .inr ⟨err, hne, EErr.bind_left herr⟩
  | out => exact .inr True.intro
  | bad => exact .inr True.intro

omit hy ihE in
theorem stmtFwd_whil (c : Ex) (body : Stms) (hloop : WhileFwd C (f + 1) c body) :
    StmtFwd C (f + 1) (.whil c body) := by
  intro F ctx gs σ g l m lc B k inFn inl hF he hh hw
  obtain ⟨F, rfl⟩ : ∃ F', F = F' + 1 := ⟨F - 1, by omega⟩
  simp only [toAstS3, ex_while]
  exact RS.wrapX (hloop F { ctx with env := { vars := [] } :: ctx.env } gs σ g l m lc B k inFn inl (by omega) he.push
    hh hw) (fun fl σ' => EOk.pure _ gs σ')

omit hy ihE in
theorem stmtFwd_forever (body : Stms) (hloop : ForeverFwd C (f + 1) body) :
    StmtFwd C (f + 1) (.forever body) := by
  intro F ctx gs σ g l m lc B k inFn inl hF he hh hw
  obtain ⟨F, rfl⟩ : ∃ F', F = F' + 1 := ⟨F - 1, by omega⟩
  simp only [toAstS3, ex_forever]
  exact RS.wrapX (hloop F { ctx with env := { vars := [] } :: ctx.env } gs σ g l m lc B k inFn inl (by omega) he.push
    hh hw) (fun fl σ' => EOk.pure _ gs σ')

omit hy ihE in
theorem stmtFwd_for3 (c : Ex) (body : Stms) (post : Stm) (hloop : For3Fwd C (f + 1) c body post) :
    StmtFwd C (f + 1) (.for3 c body post) := by
  intro F ctx gs σ g l m lc B k inFn inl hF he hh hw
  obtain ⟨F, rfl⟩ : ∃ F', F = F' + 1 := ⟨F - 1, by omega⟩
  simp only [toAstS3, ex_for3]
  exact RS.wrapX (hloop F { ctx with env := { vars := [] } :: ctx.env } gs σ g l m lc B k inFn inl (by omega) he.push
    hh hw) (fun fl σ' => EOk.pure _ gs σ')

omit hy ihE in
theorem stmtsFwd_nil : StmtsFwd C (f + 1) .nil := by
  intro F ctx gs σ g l m lc B k i inFn inl hF he hh hw
  obtain ⟨F, rfl⟩ : ∃ F', F = F' + 1 := ⟨F - 1, by omega⟩
  simp only [toAstSs3, execStmts.eq_2, F3.execSs]
  exact .inr ⟨σ, EOk.pure _ gs σ, hh, FrB.refl B σ⟩

omit hy ihE in
theorem stmtsFwd_cons (st : Stm) (ss : Stms) (h1 : StmtFwd C f st) (h2 : StmtsFwd C f ss) :
    StmtsFwd C (f + 1) (.cons st ss) := by
  intro F ctx gs σ g l m lc B k i inFn inl hF he hh hw
  obtain ⟨F, rfl⟩ : ∃ F', F = F' + 1 := ⟨F - 1, by omega⟩
  simp only [wfSs3, Bool.and_eq_true] at hw
  obtain ⟨hw1, hw2⟩ := hw
  simp only [toAstSs3, execStmts.eq_3, F3.execSs]
  have ha := h1 F { env := ctx.env, callDepth := ctx.callDepth, path := i :: ctx.path } gs σ g l m lc B k inFn inl
    (by omega) he hh hw1
  rcases ha with hx | ha
  · exact .inl hx.bind_left
  cases hs : F3.execS C.E C.P f st g l with
  | done g1 l1 =>
    rw [hs] at ha
    obtain ⟨σ1, hok1, hh1, hf1⟩ := ha
    exact RS.bind_okX hok1 hf1 (h2 F { env := ctx.env, callDepth := ctx.callDepth, path := ctx.path } gs σ1 g1 l1 m lc
      B _ (i + 1) inFn inl (by omega) he hh1 hw2)
  | brk g1 l1 =>
    rw [hs] at ha
    obtain ⟨σ1, hok1, hh1, hf1⟩ := ha
    exact .inr ⟨σ1, EOk.bind hok1 (EOk.pure _ gs σ1), hh1, hf1⟩
  | cont g1 l1 =>
    rw [hs] at ha
    obtain ⟨σ1, hok1, hh1, hf1⟩ := ha
    exact .inr ⟨σ1, EOk.bind hok1 (EOk.pure _ gs σ1), hh1, hf1⟩
  | ret v g1 =>
    rw [hs] at ha
    obtain ⟨w, σ1, hok1, hv1, hg1, hf1⟩ := ha
    exact .inr ⟨w, σ1, EOk.bind hok1 (EOk.pure _ gs σ1), hv1, hg1, hf1⟩
  | err => rw [hs] at ha; obtain ⟨err, hne, herr⟩ := ha; exact .inr ⟨err, hne, EErr.bind_left herr⟩
  | out => exact .inr True.intro
  | bad => exact .inr True.intro

end

end Tengo.Proofs.C01BridgeF3Conv

import Tengo.Proofs.C10HeapOps
/-!
C10 over the heap model — executable over-approximation of reachability, so that `Sep`, `WritesOk` and `OpsAway`
can be established for concrete heaps by evaluation (non-vacuity examples, and the hypotheses of the frame
theorems are checkable).
-/
namespace Tengo.Proofs.C10Heap
open Tengo.Model.Heap9 Tengo.Model.HeapCopy Tengo.Props.C09

theorem cellsL_mem {f : Val → Option (List Cell)} : ∀ (vs : List Val) (l : List Cell), cellsL f vs = some l →
    ∀ x ∈ vs, ∃ lx, f x = some lx ∧ ∀ c ∈ lx, c ∈ l
  | [], _, _, x, hx => by cases hx
  | v :: vs, l, e, x, hx => by
    unfold cellsL at e
    split at e
    · rename_i a b ha hb
      injection e with e; subst e
      rcases List.mem_cons.mp hx with rfl | hx
      · exact ⟨a, ha, fun c hc => List.mem_append_left _ hc⟩
      · obtain ⟨lx, h1, h2⟩ := cellsL_mem vs b hb x hx
        exact ⟨lx, h1, fun c hc => List.mem_append_right _ (h2 c hc)⟩
    · cases e

theorem cellsN_sound {h : Heap} : ∀ (n : Nat) (v : Val) (l : List Cell), cellsN n h v = some l →
    ∀ c, Reach h v c → c ∈ l := by
  intro n
  induction n with
  | zero => intro v l e; simp [cellsN] at e
  | succ n ih =>
    intro v l e c rc
    cases rc with
    | obj hl =>
      rename_i r
      simp only [cellsN] at e
      cases ho : h.obj r with
      | arr m s off len cap => rw [ho] at e; simp only [Option.map_eq_some_iff] at e; obtain ⟨l0, _, rfl⟩ := e; simp
      | map m s => rw [ho] at e; simp only [Option.map_eq_some_iff] at e; obtain ⟨l0, _, rfl⟩ := e; simp
      | err p => rw [ho] at e; simp only [Option.map_eq_some_iff] at e; obtain ⟨l0, _, rfl⟩ := e; simp
      | dead => rw [ho] at e; simp at e; subst e; simp
    | arrStore ho =>
      simp only [cellsN, ho, Option.map_eq_some_iff] at e; obtain ⟨l0, _, rfl⟩ := e; simp
    | arrElem ho hx rcx =>
      simp only [cellsN, ho, Option.map_eq_some_iff] at e; obtain ⟨l0, e0, rfl⟩ := e
      obtain ⟨lx, h1, h2⟩ := cellsL_mem _ _ e0 _ hx
      exact List.mem_cons_of_mem _ (List.mem_cons_of_mem _ (h2 c (ih _ _ h1 c rcx)))
    | mapStore ho =>
      simp only [cellsN, ho, Option.map_eq_some_iff] at e; obtain ⟨l0, _, rfl⟩ := e; simp
    | mapElem ho hx rcx =>
      simp only [cellsN, ho, Option.map_eq_some_iff] at e; obtain ⟨l0, e0, rfl⟩ := e
      obtain ⟨lx, h1, h2⟩ := cellsL_mem _ _ e0 _ hx
      exact List.mem_cons_of_mem _ (List.mem_cons_of_mem _ (h2 c (ih _ _ h1 c rcx)))
    | errPayload ho rcx =>
      simp only [cellsN, ho, Option.map_eq_some_iff] at e; obtain ⟨l0, e0, rfl⟩ := e
      exact List.mem_cons_of_mem _ (ih _ _ e0 c rcx)

/-- Executable sufficient check for `Sep`. -/
def sepB (n : Nat) (h : Heap) (a b : Val) : Bool :=
  match cellsN n h a, cellsN n h b with
  | some la, some lb => la.all (fun c => !lb.contains c)
  | _, _ => false

theorem sep_of_sepB {n : Nat} {h : Heap} {a b : Val} (e : sepB n h a b = true) : Sep h a b := by
  unfold sepB at e
  split at e
  · rename_i la lb ha hb
    intro c ra rb
    have h1 := cellsN_sound n a la ha c ra
    have h2 := cellsN_sound n b lb hb c rb
    have := List.all_eq_true.mp e c h1
    simp [h2] at this
  · cases e

/-- Executable sufficient check for `WritesOk`. -/
def writesOkB (n : Nat) (b : Val) : Heap → Val → List Write → Bool
  | _, _, [] => true
  | h, a, w :: ws => sepB n h w.2 b && writesOkB n b (indexAssign h a w.1 w.2).1 a ws

theorem writesOk_of_B {n : Nat} {b : Val} : ∀ (ws : List Write) (h : Heap) (a : Val),
    writesOkB n b h a ws = true → WritesOk b h a ws
  | [], _, _, _ => trivial
  | w :: ws, h, a, e => by
    simp only [writesOkB, Bool.and_eq_true] at e
    exact ⟨sep_of_sepB e.1, writesOk_of_B ws _ a e.2⟩

/-- Executable sufficient check for `OpsAway`. -/
def opsAwayB (n : Nat) (b : Val) : Heap → List Op → Bool
  | _, [] => true
  | h, op :: ops =>
    (match subject op with
     | none => true
     | some x =>
       match h.regs[x]? with
       | none => true
       | some v => sepB n h v b) && opsAwayB n b (step h op).1 ops

theorem opsAway_of_B {n : Nat} {b : Val} : ∀ (ops : List Op) (h : Heap), opsAwayB n b h ops = true → OpsAway b h ops
  | [], _, _ => trivial
  | op :: ops, h, e => by
    simp only [opsAwayB, Bool.and_eq_true] at e
    refine ⟨?_, opsAway_of_B ops _ e.2⟩
    intro x v hs hv
    have e1 := e.1
    rw [hs] at e1; simp only [hv] at e1
    exact sep_of_sepB e1

end Tengo.Proofs.C10Heap

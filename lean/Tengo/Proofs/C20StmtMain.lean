import Tengo.Proofs.C20StmtParse
/-!
C20 — statements, token level: the induction. `stmtOk` (a statement of `FragS` that is not a block), `stmtsOk`
(statement lists), `elseOk` (else branches), then `parseToks` on the tokens of a printed file.
-/
namespace Tengo.Proofs.C20Stmt
open Tengo.Model.Token Tengo.Model.Scanner Tengo.Model.Ast Tengo.Model.Parser Tengo.Model.Literal
open Tengo.Proofs.C20Parser Tengo.Proofs.C20BytesScan Tengo.Proofs.C20BytesParse Tengo.Proofs.C20BytesPrint
open Tengo.Proofs.C20Bytes2Scan Tengo.Proofs.C20Bytes2Stream Tengo.Proofs.C20Bytes2Parse
open Tengo.Proofs.C20StmtEq

variable {fo : Bs → Option Nat}

/-! ### Simple statements -/

/-- What follows a simple statement: `;`, `}` or `{`. -/
def SimpleNext (rest : Toks) : Prop := ∃ x r1, rest = x :: r1 ∧ simpleEnd x.tok = true

theorem simpleNext_stop {x : Token} (r1 : Toks) (hx : simpleEnd x.tok = true) :
    Stop0 (x :: r1) ∧ tk (x :: r1) ≠ .Comma :=
  stop0_stmt x r1 (by simp [stmtStop, hx])

/-- What is proved for a simple statement (expression statement, assignment, `++` / `--`). -/
structure SimpleOk (fo : Bs → Option Nat) (s : Stmt) : Prop where
  parse : ∀ (b : Bool) ts rest, ts.map key = keysOf (layS s) → SimpleNext rest →
    run (parseSimpleStmt fo b (ts ++ rest)) = some (pfS s, rest)
  head : ∃ k ks, keysOf (layS s) = k :: ks ∧ isSimpleStart k.1 = true ∧ (firstExprBrace s = false → k.1 ≠ .LBrace)

theorem braceFirst_head {c : Expr} {k : Tok × Bs} {ks : List (Tok × Bs)} (h : keysOf (layE c) = k :: ks)
    (hb : braceFirst c = false) : k.1 ≠ .LBrace := by
  intro hk
  obtain ⟨a, b⟩ := k
  simp only at hk
  subst hk
  rw [braceFirst, h] at hb
  simp at hb

theorem head_simple {x : Expr} (c : PrimOk fo x) (b : List (Tok × Bs)) :
    ∃ k ks, keysOf (layE x) ++ b = k :: ks ∧ isSimpleStart k.1 = true ∧ (braceFirst x = false → k.1 ≠ .LBrace) := by
  obtain ⟨k, ks, hh, -, hs⟩ := c.head
  exact ⟨k, ks ++ b, by rw [hh]; rfl, hs, fun hb => braceFirst_head hh hb⟩

theorem sOk_of_simple {s : Stmt} (h : SimpleOk fo s) : SOk fo s := by
  obtain ⟨k, ks, hh, hst, -⟩ := h.head
  refine ⟨?_, ⟨k, ks, hh, by simp [startTok, hst]⟩⟩
  intro ts rest hk hn
  obtain ⟨x, r1, rfl, hx, -⟩ := semiNext_split rest hn
  have hp := h.parse false ts (x :: r1) hk ⟨x, r1, rfl, hx⟩
  have hk0 := hk
  rw [hh] at hk0
  obtain ⟨t, r, rfl, ht, -, -⟩ := map_key_cons hk0
  rw [List.cons_append] at hp ⊢
  exact stmt_simple fo t _ _ _ (by rw [ht]; exact hst) hp hn

theorem simpleOk_expr (e : Expr) (h : Frag2 fo e) : SimpleOk fo (.expr e) := by
  have pe := primOk e h
  refine ⟨?_, ?_⟩
  · intro b ts rest hk hn
    obtain ⟨x, r1, rfl, hx⟩ := hn
    simp only [layS] at hk
    obtain ⟨hs0, hc⟩ := simpleNext_stop r1 hx
    have hl := exprListOk e .nil h trivial ts (x :: r1) (by simpa [layTail] using hk) hs0 hc
    simpa [pfS] using simple_expr fo b _ (pf e) x r1 (by simpa [pfs] using hl) hx
  · simp only [layS, firstExprBrace]
    simpa using head_simple pe []

theorem simpleOk_incdec (tok : Tok) (e : Expr) (ht : tok = .Inc ∨ tok = .Dec) (h : Frag2 fo e) :
    SimpleOk fo (.incdec tok e) := by
  have pe := primOk e h
  refine ⟨?_, ?_⟩
  · intro b ts rest hk hn
    simp only [layS, keysOf_append, keysOf_opE, keysOf_nil] at hk
    obtain ⟨t1, t2, rfl, hk1, hk2⟩ := map_key_append hk
    obtain ⟨tt, t3, rfl, htt, -, hk3⟩ := map_key_cons hk2
    have := map_key_nil hk3
    subst this
    simp only at htt
    have htt' : tt.tok = .Inc ∨ tt.tok = .Dec := by rw [htt]; exact ht
    have hst : stmtStop tt.tok = true := by rcases htt' with h | h <;> rw [h] <;> decide
    obtain ⟨hs0, hc⟩ := stop0_stmt tt rest hst
    have hl := exprListOk e .nil h trivial t1 (tt :: rest) (by simpa [layTail] using hk1) hs0 hc
    have hp := simple_incdec fo b _ (pf e) tt rest (by simpa [pfs] using hl) htt'
    rw [List.append_assoc]
    simpa [pfS, htt] using hp
  · simp only [layS, keysOf_append, firstExprBrace]
    exact head_simple pe _

theorem simpleOk_assign (tok : Tok) (e : Expr) (es : Exprs) (e2 : Expr) (es2 : Exprs)
    (hsh : asgShape tok (.cons e es) (.cons e2 es2) = true)
    (h1 : Frag2s fo (.cons e es)) (h2 : Frag2s fo (.cons e2 es2)) :
    SimpleOk fo (.assign tok (.cons e es) (.cons e2 es2)) := by
  have pe := primOk e h1.1
  refine ⟨?_, ?_⟩
  · intro b ts rest hk hn
    obtain ⟨x, r1, rfl, hx⟩ := hn
    simp only [layS, layArgs, keysOf_append, keysOf_opE, keysOf_sp] at hk
    rw [← keysOf_append, ← keysOf_append] at hk
    obtain ⟨t1, t2, rfl, hk1, hk2⟩ := map_key_append hk
    obtain ⟨tt, t3, rfl, htt, -, hk3⟩ := map_key_cons hk2
    simp only at htt
    obtain ⟨hs0, hc⟩ := simpleNext_stop r1 hx
    have eq2 : t1 ++ tt :: t3 ++ x :: r1 = t1 ++ tt :: (t3 ++ x :: r1) := by simp
    rw [eq2]
    simp only [asgShape, Bool.or_eq_true, Bool.and_eq_true] at hsh
    rcases hsh with ⟨⟨hA, -⟩, -⟩ | ⟨⟨⟨hop, hnd⟩, hs1⟩, hs2⟩
    · have htok : tt.tok = .Assign ∨ tt.tok = .Define := by
        rw [htt]; simpa using hA
      have hst : stmtStop tt.tok = true := by rcases htok with h | h <;> rw [h] <;> decide
      obtain ⟨hs1, hc1⟩ := stop0_stmt tt (t3 ++ x :: r1) hst
      have hl1 := exprListOk e es h1.1 h1.2 _ (tt :: (t3 ++ x :: r1)) hk1 hs1 hc1
      have hl2 := exprListOk e2 es2 h2.1 h2.2 t3 (x :: r1) hk3 hs0 hc
      have hp := simple_assign fo b _ _ _ tt (t3 ++ x :: r1) (x :: r1) hl1 htok hl2
      simpa [pfS, htt] using hp
    · cases es with
      | cons a b => simp [single] at hs1
      | nil =>
        cases es2 with
        | cons a b => simp [single] at hs2
        | nil =>
          have hop' : isOpAssign tt.tok = true := by rw [htt]; exact hop
          have hnd' : tt.tok ≠ .Define := by rw [htt]; simpa using hnd
          have hst : stmtStop tt.tok = true := by simp [stmtStop, hop']
          obtain ⟨hs1, hc1⟩ := stop0_stmt tt (t3 ++ x :: r1) hst
          have hl1 := exprListOk e .nil h1.1 trivial _ (tt :: (t3 ++ x :: r1)) hk1 hs1 hc1
          have hq := (primOk e2 h2.1).expr t3 (x :: r1) (by simpa [layTail] using hk3) hs0
          have hp := simple_opassign fo b _ (pf e) (pf e2) tt (t3 ++ x :: r1) (x :: r1) (by simpa [pfs] using hl1)
            hop' hnd' hq
          simpa [pfS, pfs, htt] using hp
  · simp only [layS, layArgs, keysOf_append, List.append_assoc, firstExprBrace]
    exact head_simple pe _

theorem sOk_expr (e : Expr) (h : Frag2 fo e) : SOk fo (.expr e) := sOk_of_simple (simpleOk_expr e h)

theorem sOk_incdec (tok : Tok) (e : Expr) (ht : tok = .Inc ∨ tok = .Dec) (h : Frag2 fo e) :
    SOk fo (.incdec tok e) := sOk_of_simple (simpleOk_incdec tok e ht h)

theorem sOk_assign (tok : Tok) (e : Expr) (es : Exprs) (e2 : Expr) (es2 : Exprs)
    (hsh : asgShape tok (.cons e es) (.cons e2 es2) = true)
    (h1 : Frag2s fo (.cons e es)) (h2 : Frag2s fo (.cons e2 es2)) :
    SOk fo (.assign tok (.cons e es) (.cons e2 es2)) := sOk_of_simple (simpleOk_assign tok e es e2 es2 hsh h1 h2)

theorem sOk_ret (o : OptExpr) (h : Frag2O fo o) : SOk fo (.ret o) := by
  refine ⟨?_, ?_⟩
  · intro ts rest hk hn
    simp only [layS, keysOf_kwE, kws] at hk
    obtain ⟨t, t2, rfl, ht, -, hk2⟩ := map_key_cons hk
    simp only at ht
    cases o with
    | none =>
      simp only [layRet, keysOf_nil] at hk2
      have := map_key_nil hk2
      subst this
      simpa [pfS, pfO] using stmt_ret_none fo t rest ht hn
    | some e =>
      simp only [layRet, keysOf_sp] at hk2
      have pe := primOk e h
      obtain ⟨x, r, rfl, hst⟩ := pe.first t2 rest hk2
      have hne : x.tok ≠ .Semicolon ∧ x.tok ≠ .RBrace := by
        have : ∀ k : Tok, isSimpleStart k = true → k ≠ .Semicolon ∧ k ≠ .RBrace := by
          intro k; cases k <;> simp [isSimpleStart]
        exact this _ hst
      have hq := pe.expr (x :: r) rest hk2 (semiNext_stop rest hn).1
      simpa [pfS, pfO] using stmt_ret_some fo t (x :: r ++ rest) rest (pf e) ht hne.1 hne.2 hq hn
  · simp only [layS, keysOf_kwE, kws]
    exact ⟨_, _, rfl, by decide⟩

theorem sOk_branch (tok : Tok) (l : Option Bs) (ht : tok = .Break ∨ tok = .Continue) (hl : labelOk l = true) :
    SOk fo (.branch tok l) := by
  have hlk : Tok.lookup tok.bytes = tok := by rcases ht with h | h <;> rw [h] <;> decide +kernel
  refine ⟨?_, ?_⟩
  · intro ts rest hk hn
    simp only [layS, keysOf_kwE, hlk] at hk
    obtain ⟨t, t2, rfl, htt, -, hk2⟩ := map_key_cons hk
    simp only at htt
    have htt' : t.tok = .Break ∨ t.tok = .Continue := by rw [htt]; exact ht
    cases l with
    | none =>
      simp only [layLabel, keysOf_nil] at hk2
      have := map_key_nil hk2
      subst this
      simpa [pfS, htt] using stmt_branch_plain fo t rest htt' hn
    | some n =>
      simp only [layLabel, keysOf_sp, keysOf_it, keysOf_nil, Item2.tok, Item2.lit'] at hk2
      obtain ⟨lt, t3, rfl, hlt, hll, hk3⟩ := map_key_cons hk2
      have := map_key_nil hk3
      subst this
      simp only at hlt hll
      have hid : lt.tok = .Ident := by rw [hlt]; exact (wordAtom_atom hl).2.1
      simpa [pfS, htt, hll] using stmt_branch_label fo t lt rest htt' hid hn
  · simp only [layS, keysOf_kwE, hlk]
    exact ⟨_, _, rfl, by rcases ht with h | h <;> rw [h] <;> decide⟩

/-! ### if / else -/

theorem braceFirst_tok {c : Expr} (hb : braceFirst c = false) (x : Token) (r : Toks)
    (hk : (x :: r).map key = keysOf (layE c)) : x.tok ≠ .LBrace := by
  intro hx
  rw [braceFirst, ← hk] at hb
  simp [key, hx] at hb

theorem simpleStart_ne2 {k : Tok} (h : isSimpleStart k = true) : k ≠ .Semicolon ∧ k ≠ .RBrace := by
  cases k <;> simp [isSimpleStart] at h <;> decide

theorem eOk_none : EOk fo .none := by
  intro init c body ts0 te rest hk hn hp
  simp only [layElse, keysOf_nil] at hk
  have := map_key_nil hk
  subst this
  simpa [pfOS] using iftail_noelse fo init c ts0 rest body (by simpa using hp) hn

theorem eOk_block (eb : Stmts) (h : BOk fo eb) : EOk fo (.some (.block eb)) := by
  intro init c body ts0 te rest hk hn hp
  simp only [layElse, layS, keysOf_sp, keysOf_kwE, kws] at hk
  obtain ⟨e, t1, rfl, he, -, hk1⟩ := map_key_cons hk
  simp only at he
  have hk1' := hk1
  rw [keysOf_blk] at hk1'
  obtain ⟨x, t2, rfl, hx, -, -⟩ := map_key_cons hk1'
  simp only at hx
  have hq := h (x :: t2) rest hk1
  simpa [pfOS, pfS] using iftail_elseblock fo init c ts0 (t2 ++ rest) rest e x body (pfSs eb)
    (by simpa using hp) he hx (by simpa using hq) hn

theorem eOk_if (i' : OptStmt) (c' : Expr) (b' : Stmts) (e' : OptStmt) (hs : SOk fo (.ifS i' c' b' e')) :
    EOk fo (.some (.ifS i' c' b' e')) := by
  intro init c body ts0 te rest hk hn hp
  simp only [layElse, keysOf_sp, keysOf_kwE, kws] at hk
  obtain ⟨e, t1, rfl, he, -, hk1⟩ := map_key_cons hk
  simp only at he
  have hps := hs.parse t1 rest hk1 hn
  have hk1' := hk1
  simp only [layS, keysOf_kwE, kws] at hk1'
  obtain ⟨x, t2, rfl, hx, -, -⟩ := map_key_cons hk1'
  simp only at hx
  rw [List.cons_append, stmt_if fo x _ hx] at hps
  have := iftail_elseif fo init c ts0 (t2 ++ rest) e x body (by simpa using hp) he hx
  rw [this, hps]
  simp [pfOS]

/-- What is proved for an init / post statement. -/
def InitOk (fo : Bs → Option Nat) : OptStmt → Prop
  | .none => True
  | .some s => SimpleOk fo s ∧ firstExprBrace s = false

theorem initOk : (o : OptStmt) → FragInit fo o → InitOk fo o
  | .none, _ => trivial
  | .some (.expr e), h => by
    simp only [FragInit, FragS] at h
    exact ⟨simpleOk_expr e h.2.2, h.2.1⟩
  | .some (.assign tok .nil r), h => by simp [FragInit, FragS, asgShape, nonEmpty, single] at h
  | .some (.assign tok (.cons e es) .nil), h => by simp [FragInit, FragS, asgShape, nonEmpty, single] at h
  | .some (.assign tok (.cons e es) (.cons e2 es2)), h => by
    simp only [FragInit, FragS] at h
    exact ⟨simpleOk_assign tok e es e2 es2 h.2.2.1 h.2.2.2.1 h.2.2.2.2, h.2.1⟩
  | .some (.incdec tok e), h => by
    simp only [FragInit, FragS] at h
    exact ⟨simpleOk_incdec tok e h.2.2.1 h.2.2.2, h.2.1⟩
  | .some (.ifS _ _ _ _), h => by simp [FragInit, isSimple] at h
  | .some (.forS _ _ _ _), h => by simp [FragInit, isSimple] at h
  | .some (.forIn _ _ _ _), h => by simp [FragInit, isSimple] at h
  | .some (.block _), h => by simp [FragInit, isSimple] at h
  | .some (.branch _ _), h => by simp [FragInit, isSimple] at h
  | .some (.ret _), h => by simp [FragInit, isSimple] at h
  | .some (.export _), h => by simp [FragInit, isSimple] at h
  | .some (.empty _), h => by simp [FragInit, isSimple] at h
  | .some .bad, h => by simp [FragInit, isSimple] at h

theorem ifrest_ok (i : OptStmt) (hi : InitOk fo i) (c : Expr) (hc : Frag2 fo c) (hb : braceFirst c = false)
    (tI tc : Toks) (lb : Token) (r : Toks) (hkI : tI.map key = keysOf (layInit i))
    (hkc : tc.map key = keysOf (layE c)) (hlb : lb.tok = .LBrace) :
    run (parseIfRest fo (tI ++ (tc ++ lb :: r))) = run (parseIfTail fo (pfOS i) (pf c) (lb :: r)) := by
  have pc := primOk c hc
  have hp2 : run (parseSimpleStmt fo false (tc ++ lb :: r)) = some (.expr (pf c), lb :: r) := by
    have := (simpleOk_expr c hc).parse false tc (lb :: r) (by simpa [layS] using hkc) ⟨lb, r, rfl, by rw [hlb]; decide⟩
    simpa [pfS] using this
  cases i with
  | none =>
    simp only [layInit, keysOf_nil] at hkI
    have := map_key_nil hkI
    subst this
    obtain ⟨x, r', rfl, hx⟩ := pc.first tc [] hkc
    have h1 : tk (x :: r' ++ lb :: r) ≠ .LBrace := braceFirst_tok hb x r' hkc
    have h2 : tk (x :: r' ++ lb :: r) ≠ .Semicolon := (simpleStart_ne2 hx).1
    rw [List.nil_append]
    exact ifrest_plain fo _ _ (pf c) h1 h2 hp2 hlb
  | some s =>
    obtain ⟨hs, hbr⟩ := hi
    simp only [layInit, keysOf_append, keysOf_semiE, keysOf_sp, keysOf_nil] at hkI
    obtain ⟨ti, t2, rfl, hki, hk2⟩ := map_key_append hkI
    obtain ⟨sm, t3, rfl, hsm, -, hk3⟩ := map_key_cons hk2
    have := map_key_nil hk3
    subst this
    simp only at hsm
    have hp1 := hs.parse false ti (sm :: (tc ++ lb :: r)) hki ⟨sm, _, rfl, by rw [hsm]; decide⟩
    obtain ⟨k, ks, hh, hst, hnb⟩ := hs.head
    have hk0 := hki
    rw [hh] at hk0
    obtain ⟨t0, r0, rfl, ht0, -, -⟩ := map_key_cons hk0
    have h1 : tk (t0 :: r0 ++ sm :: (tc ++ lb :: r)) ≠ .LBrace := by
      show t0.tok ≠ .LBrace
      rw [ht0]; exact hnb hbr
    have h2 : tk (t0 :: r0 ++ sm :: (tc ++ lb :: r)) ≠ .Semicolon := by
      show t0.tok ≠ .Semicolon
      rw [ht0]; exact (simpleStart_ne2 hst).1
    have e1 : t0 :: r0 ++ [sm] ++ (tc ++ lb :: r) = t0 :: r0 ++ sm :: (tc ++ lb :: r) := by simp
    rw [e1]
    exact ifrest_init fo _ _ _ sm (pfS s) (pf c) h1 h2 hp1 hsm hp2

theorem sOk_if (i : OptStmt) (c : Expr) (body : Stmts) (els : OptStmt) (hi : InitOk fo i) (hc : Frag2 fo c)
    (hb : braceFirst c = false) (hbody : BOk fo body) (hels : EOk fo els) : SOk fo (.ifS i c body els) := by
  refine ⟨?_, ?_⟩
  · intro ts rest hk hn
    simp only [layS, keysOf_kwE, kws, keysOf_sp, keysOf_append] at hk
    obtain ⟨t, t1, rfl, ht, -, hk1⟩ := map_key_cons hk
    obtain ⟨tI, t2, rfl, hkI, hk2⟩ := map_key_append hk1
    obtain ⟨tc, t3, rfl, hkc, hk3⟩ := map_key_append hk2
    obtain ⟨tb, te, rfl, hkb, hke⟩ := map_key_append hk3
    simp only at ht
    have hkb' := hkb
    rw [keysOf_blk] at hkb'
    obtain ⟨lb, tb', rfl, hlb, -, -⟩ := map_key_cons hkb'
    simp only at hlb
    have hir := ifrest_ok i hi c hc hb tI tc lb (tb' ++ (te ++ rest)) hkI hkc hlb
    have hblk := hbody (lb :: tb') (te ++ rest) hkb
    have htail := hels (pfOS i) (pf c) (pfSs body) (lb :: tb' ++ (te ++ rest)) te rest hke hn hblk
    have e1 : t :: (tI ++ (tc ++ (lb :: tb' ++ te))) ++ rest = t :: (tI ++ (tc ++ lb :: (tb' ++ (te ++ rest)))) := by
      simp
    have e2 : lb :: (tb' ++ (te ++ rest)) = lb :: tb' ++ (te ++ rest) := by simp
    rw [e1, stmt_if fo t _ ht, hir, e2, htail]
    simp [pfS]
  · simp only [layS, keysOf_kwE, kws]
    exact ⟨_, _, rfl, by decide⟩

/-! ### for -/

/-- The condition of a three-clause `for` as the simple statement the parser reads. -/
def condS : OptExpr → OptStmt
  | .none => .none
  | .some e => .some (.expr e)

theorem optSimple_ok (o : OptStmt) (T : Tok)
    (ho : ∀ s, o = .some s → SimpleOk fo s ∧ (T = .LBrace → firstExprBrace s = false))
    (hT : T = .Semicolon ∨ T = .LBrace) (b : Bool) (ts : Toks) (x : Token) (r1 : Toks)
    (hk : ts.map key = keysOf (layOS o)) (hx : simpleEnd x.tok = true) (hnone : o = .none → x.tok = T) :
    run (optSimple fo (tk (ts ++ x :: r1) == T) b (ts ++ x :: r1)) = some (pfOS o, x :: r1) := by
  cases o with
  | none =>
    simp only [layOS, keysOf_nil] at hk
    have := map_key_nil hk
    subst this
    have : (tk ([] ++ x :: r1) == T) = true := by simp [tk, hnone rfl]
    rw [this]
    exact run_optSimple_skip fo b _
  | some s =>
    obtain ⟨hs, hbr⟩ := ho s rfl
    simp only [layOS] at hk
    obtain ⟨k, ks, hh, hst, hnb⟩ := hs.head
    have hk0 := hk
    rw [hh] at hk0
    obtain ⟨t0, r0, rfl, ht0, -, -⟩ := map_key_cons hk0
    have : (tk (t0 :: r0 ++ x :: r1) == T) = false := by
      have : t0.tok ≠ T := by
        rw [ht0]
        rcases hT with rfl | rfl
        · exact (simpleStart_ne2 hst).1
        · exact hnb (hbr rfl)
      simpa [tk] using this
    rw [this]
    have hp := hs.parse b (t0 :: r0) (x :: r1) hk ⟨x, r1, rfl, hx⟩
    simpa [pfOS] using run_optSimple_go fo b _ _ _ hp

theorem ho_init {o : OptStmt} (T : Tok) (h : InitOk fo o) :
    ∀ s, o = .some s → SimpleOk fo s ∧ (T = .LBrace → firstExprBrace s = false) := by
  intro s hs
  subst hs
  exact ⟨h.1, fun _ => h.2⟩

theorem ho_cond {c : OptExpr} (h : Frag2O fo c) :
    ∀ s, condS c = .some s → SimpleOk fo s ∧ (Tok.Semicolon = .LBrace → firstExprBrace s = false) := by
  intro s hs
  cases c with
  | none => simp [condS] at hs
  | some e =>
    simp only [condS, OptStmt.some.injEq] at hs
    subst hs
    exact ⟨simpleOk_expr e h, fun h => by cases h⟩

theorem notForIn_simple {o : OptStmt} (h : InitOk fo o) (hs : ∀ s, o = .some s → isSimple s = true) :
    notForIn (pfOS o) = true := by
  cases o with
  | none => rfl
  | some s =>
    have := hs s rfl
    cases s <;> simp [isSimple] at this <;> rfl

theorem sOk_for (i p : OptStmt) (c : OptExpr) (body : Stmts) (hi : InitOk fo i) (hp : InitOk fo p)
    (hsi : ∀ s, i = .some s → isSimple s = true)
    (hc : Frag2O fo c) (hbr : (isNoneS i && isNoneS p) = true → braceFirstO c = false)
    (hbody : BOk fo body) : SOk fo (.forS i c p body) := by
  cases hform : (isNoneS i && isNoneS p) with
  | true =>
    have hi0 : i = .none := by cases i <;> simp [isNoneS] at hform ⊢
    have hp0 : p = .none := by cases p <;> simp [isNoneS] at hform ⊢
    subst hi0
    subst hp0
    refine ⟨?_, ?_⟩
    · intro ts rest hk hn
      simp only [layS, hform, if_true, keysOf_kwE, kws, keysOf_sp, keysOf_append] at hk
      obtain ⟨t, t1, rfl, ht, -, hk1⟩ := map_key_cons hk
      simp only at ht
      obtain ⟨tc, tb, rfl, hkc, hkb⟩ := map_key_append hk1
      have hkb' := hkb
      rw [keysOf_blk] at hkb'
      obtain ⟨lb, tb', rfl, hlb, -, -⟩ := map_key_cons hkb'
      simp only at hlb
      have hblk := hbody (lb :: tb') rest hkb
      cases c with
      | none =>
        simp only [layCond, keysOf_nil] at hkc
        have := map_key_nil hkc
        subst this
        have := for_bare fo (lb :: tb' ++ rest) rest (pfSs body) hlb hblk hn
        rw [List.nil_append, List.cons_append, stmt_for fo t _ ht, this]
        simp [pfS, pfOS, pfO]
      | some e =>
        simp only [layCond, keysOf_append, keysOf_sp, keysOf_nil, List.append_nil] at hkc
        have hce : Frag2 fo e := hc
        have hbe : braceFirst e = false := hbr rfl
        have pe := primOk e hce
        have hp' := (simpleOk_expr e hce).parse true tc (lb :: (tb' ++ rest)) (by simpa [layS] using hkc)
          ⟨lb, _, rfl, by rw [hlb]; decide⟩
        obtain ⟨x, r, rfl, hx⟩ := pe.first tc [] hkc
        have h1 : tk (x :: r ++ lb :: (tb' ++ rest)) ≠ .LBrace := braceFirst_tok hbe x r hkc
        have h2 : tk (x :: r ++ lb :: (tb' ++ rest)) ≠ .Semicolon := (simpleStart_ne2 hx).1
        have := for_cond fo (x :: r ++ lb :: (tb' ++ rest)) (tb' ++ rest) rest lb (pf e) (pfSs body) h1 h2
          (by simpa [pfS] using hp') hlb (by simpa using hblk) hn
        have e1 : t :: (x :: r ++ lb :: tb') ++ rest = t :: (x :: r ++ lb :: (tb' ++ rest)) := by simp
        rw [e1, stmt_for fo t _ ht, this]
        simp [pfS, pfOS, pfO]
    · simp only [layS, hform, if_true, keysOf_kwE, kws]
      exact ⟨_, _, rfl, by decide⟩
  | false =>
    refine ⟨?_, ?_⟩
    · intro ts rest hk hn
      simp only [layS, hform, Bool.false_eq_true, if_false, keysOf_kwE, kws, keysOf_sp, keysOf_append,
        keysOf_semiE] at hk
      obtain ⟨t, t1, rfl, ht, -, hk1⟩ := map_key_cons hk
      simp only at ht
      obtain ⟨tI, t2, rfl, hkI, hk2⟩ := map_key_append hk1
      obtain ⟨s1, t3, rfl, hs1, -, hk3⟩ := map_key_cons hk2
      obtain ⟨tC, t4, rfl, hkC, hk4⟩ := map_key_append hk3
      obtain ⟨s2, t5, rfl, hs2, -, hk5⟩ := map_key_cons hk4
      obtain ⟨tP, tb, rfl, hkP, hkb⟩ := map_key_append hk5
      simp only at hs1 hs2
      have hkb' := hkb
      rw [keysOf_blk] at hkb'
      obtain ⟨lb, tb', rfl, hlb, -, -⟩ := map_key_cons hkb'
      simp only at hlb
      have hkC' : tC.map key = keysOf (layOS (condS c)) := by
        rw [hkC]; cases c <;> simp [layCond, layOS, condS, layS]
      have g1 := optSimple_ok i .Semicolon (ho_init _ hi) (Or.inl rfl) true tI s1
        (tC ++ s2 :: (tP ++ lb :: (tb' ++ rest))) hkI (by rw [hs1]; decide) (fun _ => hs1)
      have g2 := optSimple_ok (condS c) .Semicolon (ho_cond hc) (Or.inl rfl) false tC s2
        (tP ++ lb :: (tb' ++ rest)) hkC' (by rw [hs2]; decide) (fun _ => hs2)
      have g3 := run_expectTok_hit .Semicolon s2 (tP ++ lb :: (tb' ++ rest)) hs2
      have g4 := optSimple_ok p .LBrace (ho_init _ hp) (Or.inr rfl) false tP lb (tb' ++ rest) hkP
        (by rw [hlb]; decide) (fun _ => hlb)
      have g5 := hbody (lb :: tb') rest hkb
      have h1 : tk (tI ++ s1 :: (tC ++ s2 :: (tP ++ lb :: (tb' ++ rest)))) ≠ .LBrace := by
        cases i with
        | none =>
          simp only [layOS, keysOf_nil] at hkI
          have := map_key_nil hkI
          subst this
          show s1.tok ≠ .LBrace
          rw [hs1]; decide
        | some s =>
          obtain ⟨k, ks, hh, hst, hnb⟩ := hi.1.head
          simp only [layOS] at hkI
          rw [hh] at hkI
          obtain ⟨t0, r0, rfl, ht0, -, -⟩ := map_key_cons hkI
          show t0.tok ≠ .LBrace
          rw [ht0]; exact hnb hi.2
      have hco : condOf (pfOS (condS c)) = some (pfO c) := by cases c <;> rfl
      have := for_three fo _ _ _ _ _ rest s1 (pfOS i) (pfOS (condS c)) (pfOS p) (pfO c) (pfSs body) h1 g1
        (notForIn_simple hi hsi) hs1 g2 g3 g4 (by simpa using g5) hn hco
      have e1 : t :: (tI ++ s1 :: (tC ++ s2 :: (tP ++ lb :: tb'))) ++ rest =
          t :: (tI ++ s1 :: (tC ++ s2 :: (tP ++ lb :: (tb' ++ rest)))) := by simp
      rw [e1, stmt_for fo t _ ht, this]
      simp [pfS]
    · simp only [layS, hform, Bool.false_eq_true, if_false, keysOf_kwE, kws]
      exact ⟨_, _, rfl, by decide⟩

theorem sOk_forin (k v : Option Bs) (it : Expr) (body : Stmts) (hk' : nameOk k = true) (hv' : nameOk v = true)
    (hit : Frag2 fo it) (hbody : BOk fo body) : SOk fo (.forIn k v it body) := by
  cases k with
  | none => simp [nameOk] at hk'
  | some kn =>
  cases v with
  | none => simp [nameOk] at hv'
  | some vn =>
    simp only [nameOk] at hk' hv'
    have fk : Frag2 fo (.ident kn) := by simpa [Frag2] using hk'
    have fv : Frag2 fo (.ident vn) := by simpa [Frag2] using hv'
    refine ⟨?_, ?_⟩
    · intro ts rest hk hn
      simp only [layS, Option.getD, keysOf_kwE, kws, kw_in, keysOf_sp, keysOf_append, keysOf_it, keysOf_opE,
        Item2.tok, Item2.lit'] at hk
      obtain ⟨t, t1, rfl, ht, -, hk1⟩ := map_key_cons hk
      simp only at ht
      have hk1' : t1.map key = keysOf (layE (.ident kn) ++ layTail (.cons (.ident vn) .nil)) ++
          ((Tok.In, Tok.In.bytes) :: (keysOf (layE it) ++ keysOf (blk (laySs body)))) := by
        rw [hk1]; simp [layE, layTail, Item2.tok, Item2.lit']
      obtain ⟨tn, t2, rfl, hkn, hk2⟩ := map_key_append hk1'
      obtain ⟨tin, t3, rfl, hin, -, hk3⟩ := map_key_cons hk2
      obtain ⟨ti, tb, rfl, hki, hkb⟩ := map_key_append hk3
      simp only at hin
      have hkb' := hkb
      rw [keysOf_blk] at hkb'
      obtain ⟨lb, tb', rfl, hlb, -, -⟩ := map_key_cons hkb'
      simp only at hlb
      obtain ⟨hs1, hc1⟩ := stop0_stmt tin (ti ++ lb :: (tb' ++ rest)) (by rw [hin]; decide)
      have hl := exprListOk (.ident kn) (.cons (.ident vn) .nil) fk ⟨fv, trivial⟩ tn
        (tin :: (ti ++ lb :: (tb' ++ rest))) hkn hs1 hc1
      obtain ⟨hs2, -⟩ := stop0_stmt lb (tb' ++ rest) (by rw [hlb]; decide)
      have hq := (primOk it hit).expr ti (lb :: (tb' ++ rest)) hki hs2
      have hp := simple_forin fo _ _ (pf it) tin _ _ (some kn) (some vn) hl hin hq (by simp [pfs, pf, forInNames, identName])
      have hkn2 : tn.map key = (Tok.lookup kn, kn) :: [(Tok.Comma, []), (Tok.lookup vn, vn)] := by
        rw [hkn]; simp [layE, layTail, Item2.tok, Item2.lit']
      obtain ⟨x, r, rfl, hx, -, -⟩ := map_key_cons hkn2
      simp only at hx
      have hxi : x.tok = .Ident := by rw [hx]; exact (wordAtom_atom hk').2.1
      have h1 : tk (x :: r ++ tin :: (ti ++ lb :: (tb' ++ rest))) ≠ .LBrace := by
        show x.tok ≠ .LBrace
        rw [hxi]; decide
      have h2 : tk (x :: r ++ tin :: (ti ++ lb :: (tb' ++ rest))) ≠ .Semicolon := by
        show x.tok ≠ .Semicolon
        rw [hxi]; decide
      have hblk := hbody (lb :: tb') rest hkb
      have := for_in fo (x :: r ++ tin :: (ti ++ lb :: (tb' ++ rest))) (lb :: (tb' ++ rest)) rest (some kn) (some vn)
        (pf it) .nil (pfSs body) h1 h2 hp (by simpa using hblk) hn
      have e1 : t :: (x :: r ++ tin :: (ti ++ lb :: tb')) ++ rest =
          t :: (x :: r ++ tin :: (ti ++ lb :: (tb' ++ rest))) := by simp
      rw [e1, stmt_for fo t _ ht, this]
      simp [pfS]
    · simp only [layS, keysOf_kwE, kws]
      exact ⟨_, _, rfl, by decide⟩

/-! ### The induction -/

mutual
  theorem stmtOk : (s : Stmt) → FragS fo s → isBlock s = false → SOk fo s
    | .expr e, h, _ => sOk_expr e (by simpa only [FragS] using h)
    | .assign tok .nil r, h, _ => by simp [FragS, asgShape, nonEmpty, single] at h
    | .assign tok (.cons e es) .nil, h, _ => by simp [FragS, asgShape, nonEmpty, single] at h
    | .assign tok (.cons e es) (.cons e2 es2), h, _ => by
      simp only [FragS] at h
      exact sOk_assign tok e es e2 es2 h.1 h.2.1 h.2.2
    | .incdec tok e, h, _ => by
      simp only [FragS] at h
      exact sOk_incdec tok e h.1 h.2
    | .ret o, h, _ => by
      simp only [FragS] at h
      exact sOk_ret o h
    | .branch tok l, h, _ => by
      simp only [FragS] at h
      exact sOk_branch tok l h.1 h.2
    | .ifS i c body els, h, _ => by
      simp only [FragS] at h
      exact sOk_if i c body els (initOk i h.1) h.2.1 h.2.2.1 (bOk_of body (stmtsOk body h.2.2.2.1))
        (elseOk els h.2.2.2.2)
    | .forS i c p body, h, _ => by
      simp only [FragS] at h
      have hsi : ∀ s, i = .some s → isSimple s = true := by
        intro s hs
        subst hs
        simp only [FragInit] at h
        exact h.1.1
      exact sOk_for i p c body (initOk i h.1) (initOk p h.2.1) hsi h.2.2.1 h.2.2.2.1
        (bOk_of body (stmtsOk body h.2.2.2.2))
    | .block ss, _, hb => by simp [isBlock] at hb
    | .forIn k v it body, h, _ => by
      simp only [FragS] at h
      exact sOk_forin k v it body h.1 h.2.1 h.2.2.1 (bOk_of body (stmtsOk body h.2.2.2))
    | .export _, h, _ => by simp [FragS] at h
    | .empty _, h, _ => by simp [FragS] at h
    | .bad, h, _ => by simp [FragS] at h
  theorem stmtsOk : (ss : Stmts) → FragSs fo ss → LOk fo ss
    | .nil, _ => trivial
    | .cons s ss, h => by
      simp only [FragSs] at h
      have hs := stmtOk s h.2.1 h.1
      have hss := stmtsOk ss h.2.2
      obtain ⟨k, ks, hh, hst⟩ := hs.head
      obtain ⟨n1, n2, -⟩ := startTok_ne hst
      simp only [LOk]
      intro ts rest hk hn hle
      cases ss with
      | nil =>
        simp only [laySTail, List.append_nil] at hk
        have hk0 := hk
        rw [hh] at hk0
        obtain ⟨t, r, rfl, ht, -, -⟩ := map_key_cons hk0
        have p1 := hs.parse (t :: r) rest hk hn
        rw [List.cons_append] at p1 ⊢
        rw [list_cons fo t _ _ (pfS s) (by rw [ht]; exact n1) (by rw [ht]; exact n2) p1, list_end _ hle]
        simp [pfSs]
      | cons s' ss' =>
        simp only [laySTail, keysOf_append, keysOf_semiE, keysOf_sp] at hk
        obtain ⟨t1, t2, rfl, hk1, hk2⟩ := map_key_append hk
        obtain ⟨sm, t3, rfl, hsm, -, hk3⟩ := map_key_cons hk2
        simp only at hsm
        have p1 := hs.parse t1 (sm :: (t3 ++ rest)) hk1 (Or.inl hsm)
        have hd : dropSemi (sm :: (t3 ++ rest)) = t3 ++ rest := by simp [dropSemi, hsm]
        rw [hd] at p1
        simp only [LOk] at hss
        have p2 := hss t3 rest (by rw [hk3, keysOf_append]) hn hle
        have hk0 := hk1
        rw [hh] at hk0
        obtain ⟨t, r, rfl, ht, -, -⟩ := map_key_cons hk0
        have e1 : t :: r ++ sm :: t3 ++ rest = t :: (r ++ sm :: (t3 ++ rest)) := by simp
        rw [List.cons_append] at p1
        rw [e1, list_cons fo t _ _ (pfS s) (by rw [ht]; exact n1) (by rw [ht]; exact n2) p1, p2]
        simp [pfSs]
  theorem elseOk : (e : OptStmt) → FragEl fo e → EOk fo e
    | .none, _ => eOk_none
    | .some (.block eb), h => by
      simp only [FragEl, FragS] at h
      exact eOk_block eb (bOk_of eb (stmtsOk eb h.2))
    | .some (.ifS i c b e), h => by
      simp only [FragEl] at h
      exact eOk_if i c b e (stmtOk (.ifS i c b e) h.2 rfl)
    | .some (.expr _), h => by simp [FragEl, elseKind] at h
    | .some (.assign _ _ _), h => by simp [FragEl, elseKind] at h
    | .some (.incdec _ _), h => by simp [FragEl, elseKind] at h
    | .some (.forS _ _ _ _), h => by simp [FragEl, elseKind] at h
    | .some (.forIn _ _ _ _), h => by simp [FragEl, elseKind] at h
    | .some (.branch _ _), h => by simp [FragEl, elseKind] at h
    | .some (.ret _), h => by simp [FragEl, elseKind] at h
    | .some (.export _), h => by simp [FragEl, elseKind] at h
    | .some (.empty _), h => by simp [FragEl, elseKind] at h
    | .some .bad, h => by simp [FragEl, elseKind] at h
end

/-! ### Files -/

/-- `ParseFile` on the tokens of a printed, non-empty statement list followed by the automatic `;` and EOF. -/
theorem parseToks_stmts (s : Stmt) (ss : Stmts) (h : FragSs fo (.cons s ss)) (ts : Toks) (semi eof : Token)
    (hk : ts.map key = keysOf (laySs (.cons s ss))) (hsemi : semi.tok = .Semicolon) (heof : eof.tok = .EOF) :
    parseToks fo (ts ++ [semi, eof]) = some (pfSs (.cons s ss)) := by
  have hl := stmtsOk (.cons s ss) h
  simp only [LOk] at hl
  have hd : dropSemi [semi, eof] = [eof] := by simp [dropSemi, hsemi]
  have := hl ts [semi, eof] (by simpa [laySs] using hk) (Or.inl hsemi) (by rw [hd]; exact Or.inr heof)
  rw [hd] at this
  obtain ⟨h1, he⟩ := run_eq this
  simp [parseToks, he, tk, heof]

/-- The empty file. -/
theorem parseToks_empty (eof : Token) (heof : eof.tok = .EOF) : parseToks fo [eof] = some .nil := by
  have := list_end (fo := fo) [eof] (Or.inr heof)
  obtain ⟨h1, he⟩ := run_eq this
  simp [parseToks, he, tk, heof]

end Tengo.Proofs.C20Stmt

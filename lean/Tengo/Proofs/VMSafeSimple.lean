import Tengo.Proofs.VMSafeCtx
set_option linter.unusedSimpArgs false
namespace Tengo.Model.VM
open Tengo.Model Tengo.Model.Spec Tengo.Model.Opcodes Tengo.Model.Verifier

macro "succs_simp" : tactic => `(tactic| simp [succs, stackEffect, Instr.size,
  opConstant, opBComplement, opPop, opTrue, opFalse, opEqual, opNotEqual, opMinus, opLNot, opJumpFalsy, opAndJump, opOrJump, opJump, opNull, opArray, opMap, opError, opImmutable, opIndex, opSliceIndex, opCall, opReturn, opGetGlobal, opSetGlobal, opSetSelGlobal, opGetLocal, opSetLocal, opDefineLocal, opSetSelLocal, opGetFreePtr, opGetFree, opSetFree, opGetLocalPtr, opSetSelFree, opGetBuiltin, opClosure, opIteratorInit, opIteratorNext, opIteratorKey, opIteratorValue, opBinaryOp, opSuspend])

macro "opd_simp" "at" h:ident : tactic => `(tactic| simp [operandOk, envOf, constIsFn,
  opConstant, opBComplement, opPop, opTrue, opFalse, opEqual, opNotEqual, opMinus, opLNot, opJumpFalsy, opAndJump, opOrJump, opJump, opNull, opArray, opMap, opError, opImmutable, opIndex, opSliceIndex, opCall, opReturn, opGetGlobal, opSetGlobal, opSetSelGlobal, opGetLocal, opSetLocal, opDefineLocal, opSetSelLocal, opGetFreePtr, opGetFree, opSetFree, opGetLocalPtr, opSetSelFree, opGetBuiltin, opClosure, opIteratorInit, opIteratorNext, opIteratorKey, opIteratorValue, opBinaryOp, opSuspend] at $h:ident)

/-- How a dispatch may change the function objects: not at all, or by one well-formed closure. -/
def FobjsStep (code : Code) (t : ProgTabs) (fo fo' : Array FnObj) : Prop :=
  fo' = fo ∨ ∃ k free fn ref, fo' = fo.push (k, free) ∧ code.consts[k]? = some (.fn fn ref) ∧
    t.numFree.lookup k = some free.length

def SimpleGoal (code : Code) (t : ProgTabs) (G : Nat) (f : Fn) (ft : FnTab) (fr : Frame) (r : Regs) (i : Instr)
    (o : SimpleOut) : Prop :=
  Landed ft f fr G i o ∧ FobjsStep code t r.fobjs o.regs.fobjs

/-- Operands as `fetch` delivers them. -/
abbrev A0 (args : List Nat) : Nat := args.headD 0
abbrev A1 (args : List Nat) : Nat := (args.drop 1).headD 0

section
variable {code : Code} {t : ProgTabs} {G : Nat} {f : Fn} {ft : FnTab} {fr : Frame} {r : Regs} {pos : Nat}
  {args : List Nat} {h : Nat}


theorem step_Null (ctx : AtInstr code t G f ft fr r ⟨pos, opNull, args⟩ h) :
    SafeX (exNull code fr (A0 args) (A1 args) opNull r) (SimpleGoal code t G f ft fr r ⟨pos, opNull, args⟩) := by
  have hs : succs ⟨pos, opNull, args⟩ h =
      if h < 0 then none else some [(pos + Instr.size ⟨pos, opNull, args⟩, h - (0) + 1)] := by succs_simp
  obtain ⟨hle, hfin⟩ := ctx.plain (0) (1) hs
  refine SafeX_mono (exNull_spec code fr (A0 args) (A1 args) opNull r ) ?_
  rintro o ⟨he, hn⟩
  obtain ⟨hl, hf⟩ := hfin o he hn
  exact ⟨hl, Or.inl hf⟩

theorem step_True (ctx : AtInstr code t G f ft fr r ⟨pos, opTrue, args⟩ h) :
    SafeX (exTrue code fr (A0 args) (A1 args) opTrue r) (SimpleGoal code t G f ft fr r ⟨pos, opTrue, args⟩) := by
  have hs : succs ⟨pos, opTrue, args⟩ h =
      if h < 0 then none else some [(pos + Instr.size ⟨pos, opTrue, args⟩, h - (0) + 1)] := by succs_simp
  obtain ⟨hle, hfin⟩ := ctx.plain (0) (1) hs
  refine SafeX_mono (exTrue_spec code fr (A0 args) (A1 args) opTrue r ) ?_
  rintro o ⟨he, hn⟩
  obtain ⟨hl, hf⟩ := hfin o he hn
  exact ⟨hl, Or.inl hf⟩

theorem step_False (ctx : AtInstr code t G f ft fr r ⟨pos, opFalse, args⟩ h) :
    SafeX (exFalse code fr (A0 args) (A1 args) opFalse r) (SimpleGoal code t G f ft fr r ⟨pos, opFalse, args⟩) := by
  have hs : succs ⟨pos, opFalse, args⟩ h =
      if h < 0 then none else some [(pos + Instr.size ⟨pos, opFalse, args⟩, h - (0) + 1)] := by succs_simp
  obtain ⟨hle, hfin⟩ := ctx.plain (0) (1) hs
  refine SafeX_mono (exFalse_spec code fr (A0 args) (A1 args) opFalse r ) ?_
  rintro o ⟨he, hn⟩
  obtain ⟨hl, hf⟩ := hfin o he hn
  exact ⟨hl, Or.inl hf⟩

theorem step_Pop (ctx : AtInstr code t G f ft fr r ⟨pos, opPop, args⟩ h) :
    SafeX (exPop code fr (A0 args) (A1 args) opPop r) (SimpleGoal code t G f ft fr r ⟨pos, opPop, args⟩) := by
  have hs : succs ⟨pos, opPop, args⟩ h =
      if h < 1 then none else some [(pos + Instr.size ⟨pos, opPop, args⟩, h - (1) + 0)] := by succs_simp
  obtain ⟨hle, hfin⟩ := ctx.plain (1) (0) hs
  refine SafeX_mono (exPop_spec code fr (A0 args) (A1 args) opPop r (by have := ctx.spEq; omega) ) ?_
  rintro o ⟨he, hn⟩
  obtain ⟨hl, hf⟩ := hfin o he hn
  exact ⟨hl, Or.inl hf⟩

theorem step_Equal (ctx : AtInstr code t G f ft fr r ⟨pos, opEqual, args⟩ h) :
    SafeX (exEqual code fr (A0 args) (A1 args) opEqual r) (SimpleGoal code t G f ft fr r ⟨pos, opEqual, args⟩) := by
  have hs : succs ⟨pos, opEqual, args⟩ h =
      if h < 2 then none else some [(pos + Instr.size ⟨pos, opEqual, args⟩, h - (2) + 1)] := by succs_simp
  obtain ⟨hle, hfin⟩ := ctx.plain (2) (1) hs
  refine SafeX_mono (exEqual_spec code fr (A0 args) (A1 args) opEqual r (by have := ctx.spEq; omega) ) ?_
  rintro o ⟨he, hn⟩
  obtain ⟨hl, hf⟩ := hfin o he hn
  exact ⟨hl, Or.inl hf⟩

theorem step_NotEqual (ctx : AtInstr code t G f ft fr r ⟨pos, opNotEqual, args⟩ h) :
    SafeX (exEqual code fr (A0 args) (A1 args) opNotEqual r) (SimpleGoal code t G f ft fr r ⟨pos, opNotEqual, args⟩) := by
  have hs : succs ⟨pos, opNotEqual, args⟩ h =
      if h < 2 then none else some [(pos + Instr.size ⟨pos, opNotEqual, args⟩, h - (2) + 1)] := by succs_simp
  obtain ⟨hle, hfin⟩ := ctx.plain (2) (1) hs
  refine SafeX_mono (exEqual_spec code fr (A0 args) (A1 args) opNotEqual r (by have := ctx.spEq; omega) ) ?_
  rintro o ⟨he, hn⟩
  obtain ⟨hl, hf⟩ := hfin o he hn
  exact ⟨hl, Or.inl hf⟩

theorem step_LNot (ctx : AtInstr code t G f ft fr r ⟨pos, opLNot, args⟩ h) :
    SafeX (exLNot code fr (A0 args) (A1 args) opLNot r) (SimpleGoal code t G f ft fr r ⟨pos, opLNot, args⟩) := by
  have hs : succs ⟨pos, opLNot, args⟩ h =
      if h < 1 then none else some [(pos + Instr.size ⟨pos, opLNot, args⟩, h - (1) + 1)] := by succs_simp
  obtain ⟨hle, hfin⟩ := ctx.plain (1) (1) hs
  refine SafeX_mono (exLNot_spec code fr (A0 args) (A1 args) opLNot r (by have := ctx.spEq; omega) ) ?_
  rintro o ⟨he, hn⟩
  obtain ⟨hl, hf⟩ := hfin o he hn
  exact ⟨hl, Or.inl hf⟩

theorem step_BComplement (ctx : AtInstr code t G f ft fr r ⟨pos, opBComplement, args⟩ h) :
    SafeX (exBComplement code fr (A0 args) (A1 args) opBComplement r) (SimpleGoal code t G f ft fr r ⟨pos, opBComplement, args⟩) := by
  have hs : succs ⟨pos, opBComplement, args⟩ h =
      if h < 1 then none else some [(pos + Instr.size ⟨pos, opBComplement, args⟩, h - (1) + 1)] := by succs_simp
  obtain ⟨hle, hfin⟩ := ctx.plain (1) (1) hs
  refine SafeX_mono (exBComplement_spec code fr (A0 args) (A1 args) opBComplement r (by have := ctx.spEq; omega) ) ?_
  rintro o ⟨he, hn⟩
  obtain ⟨hl, hf⟩ := hfin o he hn
  exact ⟨hl, Or.inl hf⟩

theorem step_Minus (ctx : AtInstr code t G f ft fr r ⟨pos, opMinus, args⟩ h) :
    SafeX (exMinus code fr (A0 args) (A1 args) opMinus r) (SimpleGoal code t G f ft fr r ⟨pos, opMinus, args⟩) := by
  have hs : succs ⟨pos, opMinus, args⟩ h =
      if h < 1 then none else some [(pos + Instr.size ⟨pos, opMinus, args⟩, h - (1) + 1)] := by succs_simp
  obtain ⟨hle, hfin⟩ := ctx.plain (1) (1) hs
  refine SafeX_mono (exMinus_spec code fr (A0 args) (A1 args) opMinus r (by have := ctx.spEq; omega) ) ?_
  rintro o ⟨he, hn⟩
  obtain ⟨hl, hf⟩ := hfin o he hn
  exact ⟨hl, Or.inl hf⟩

theorem step_Error (ctx : AtInstr code t G f ft fr r ⟨pos, opError, args⟩ h) :
    SafeX (exError code fr (A0 args) (A1 args) opError r) (SimpleGoal code t G f ft fr r ⟨pos, opError, args⟩) := by
  have hs : succs ⟨pos, opError, args⟩ h =
      if h < 1 then none else some [(pos + Instr.size ⟨pos, opError, args⟩, h - (1) + 1)] := by succs_simp
  obtain ⟨hle, hfin⟩ := ctx.plain (1) (1) hs
  refine SafeX_mono (exError_spec code fr (A0 args) (A1 args) opError r (by have := ctx.spEq; omega) ) ?_
  rintro o ⟨he, hn⟩
  obtain ⟨hl, hf⟩ := hfin o he hn
  exact ⟨hl, Or.inl hf⟩

theorem step_Immutable (ctx : AtInstr code t G f ft fr r ⟨pos, opImmutable, args⟩ h) :
    SafeX (exImmutable code fr (A0 args) (A1 args) opImmutable r) (SimpleGoal code t G f ft fr r ⟨pos, opImmutable, args⟩) := by
  have hs : succs ⟨pos, opImmutable, args⟩ h =
      if h < 1 then none else some [(pos + Instr.size ⟨pos, opImmutable, args⟩, h - (1) + 1)] := by succs_simp
  obtain ⟨hle, hfin⟩ := ctx.plain (1) (1) hs
  refine SafeX_mono (exImmutable_spec code fr (A0 args) (A1 args) opImmutable r (by have := ctx.spEq; omega) ) ?_
  rintro o ⟨he, hn⟩
  obtain ⟨hl, hf⟩ := hfin o he hn
  exact ⟨hl, Or.inl hf⟩

theorem step_Index (ctx : AtInstr code t G f ft fr r ⟨pos, opIndex, args⟩ h) :
    SafeX (exIndex code fr (A0 args) (A1 args) opIndex r) (SimpleGoal code t G f ft fr r ⟨pos, opIndex, args⟩) := by
  have hs : succs ⟨pos, opIndex, args⟩ h =
      if h < 2 then none else some [(pos + Instr.size ⟨pos, opIndex, args⟩, h - (2) + 1)] := by succs_simp
  obtain ⟨hle, hfin⟩ := ctx.plain (2) (1) hs
  refine SafeX_mono (exIndex_spec code fr (A0 args) (A1 args) opIndex r (by have := ctx.spEq; omega) ) ?_
  rintro o ⟨he, hn⟩
  obtain ⟨hl, hf⟩ := hfin o he hn
  exact ⟨hl, Or.inl hf⟩

theorem step_SliceIndex (ctx : AtInstr code t G f ft fr r ⟨pos, opSliceIndex, args⟩ h) :
    SafeX (exSliceIndex code fr (A0 args) (A1 args) opSliceIndex r) (SimpleGoal code t G f ft fr r ⟨pos, opSliceIndex, args⟩) := by
  have hs : succs ⟨pos, opSliceIndex, args⟩ h =
      if h < 3 then none else some [(pos + Instr.size ⟨pos, opSliceIndex, args⟩, h - (3) + 1)] := by succs_simp
  obtain ⟨hle, hfin⟩ := ctx.plain (3) (1) hs
  refine SafeX_mono (exSliceIndex_spec code fr (A0 args) (A1 args) opSliceIndex r (by have := ctx.spEq; omega) ) ?_
  rintro o ⟨he, hn⟩
  obtain ⟨hl, hf⟩ := hfin o he hn
  exact ⟨hl, Or.inl hf⟩

theorem step_IteratorInit (ctx : AtInstr code t G f ft fr r ⟨pos, opIteratorInit, args⟩ h) :
    SafeX (exIteratorInit code fr (A0 args) (A1 args) opIteratorInit r) (SimpleGoal code t G f ft fr r ⟨pos, opIteratorInit, args⟩) := by
  have hs : succs ⟨pos, opIteratorInit, args⟩ h =
      if h < 1 then none else some [(pos + Instr.size ⟨pos, opIteratorInit, args⟩, h - (1) + 1)] := by succs_simp
  obtain ⟨hle, hfin⟩ := ctx.plain (1) (1) hs
  refine SafeX_mono (exIteratorInit_spec code fr (A0 args) (A1 args) opIteratorInit r (by have := ctx.spEq; omega) ) ?_
  rintro o ⟨he, hn⟩
  obtain ⟨hl, hf⟩ := hfin o he hn
  exact ⟨hl, Or.inl hf⟩

theorem step_IteratorNext (ctx : AtInstr code t G f ft fr r ⟨pos, opIteratorNext, args⟩ h) :
    SafeX (exIteratorNext code fr (A0 args) (A1 args) opIteratorNext r) (SimpleGoal code t G f ft fr r ⟨pos, opIteratorNext, args⟩) := by
  have hs : succs ⟨pos, opIteratorNext, args⟩ h =
      if h < 1 then none else some [(pos + Instr.size ⟨pos, opIteratorNext, args⟩, h - (1) + 1)] := by succs_simp
  obtain ⟨hle, hfin⟩ := ctx.plain (1) (1) hs
  refine SafeX_mono (exIteratorNext_spec code fr (A0 args) (A1 args) opIteratorNext r (by have := ctx.spEq; omega) ) ?_
  rintro o ⟨he, hn⟩
  obtain ⟨hl, hf⟩ := hfin o he hn
  exact ⟨hl, Or.inl hf⟩

theorem step_IteratorKey (ctx : AtInstr code t G f ft fr r ⟨pos, opIteratorKey, args⟩ h) :
    SafeX (exIteratorKey code fr (A0 args) (A1 args) opIteratorKey r) (SimpleGoal code t G f ft fr r ⟨pos, opIteratorKey, args⟩) := by
  have hs : succs ⟨pos, opIteratorKey, args⟩ h =
      if h < 1 then none else some [(pos + Instr.size ⟨pos, opIteratorKey, args⟩, h - (1) + 1)] := by succs_simp
  obtain ⟨hle, hfin⟩ := ctx.plain (1) (1) hs
  refine SafeX_mono (exIteratorKey_spec code fr (A0 args) (A1 args) opIteratorKey r (by have := ctx.spEq; omega) ) ?_
  rintro o ⟨he, hn⟩
  obtain ⟨hl, hf⟩ := hfin o he hn
  exact ⟨hl, Or.inl hf⟩

theorem step_IteratorValue (ctx : AtInstr code t G f ft fr r ⟨pos, opIteratorValue, args⟩ h) :
    SafeX (exIteratorKey code fr (A0 args) (A1 args) opIteratorValue r) (SimpleGoal code t G f ft fr r ⟨pos, opIteratorValue, args⟩) := by
  have hs : succs ⟨pos, opIteratorValue, args⟩ h =
      if h < 1 then none else some [(pos + Instr.size ⟨pos, opIteratorValue, args⟩, h - (1) + 1)] := by succs_simp
  obtain ⟨hle, hfin⟩ := ctx.plain (1) (1) hs
  refine SafeX_mono (exIteratorKey_spec code fr (A0 args) (A1 args) opIteratorValue r (by have := ctx.spEq; omega) ) ?_
  rintro o ⟨he, hn⟩
  obtain ⟨hl, hf⟩ := hfin o he hn
  exact ⟨hl, Or.inl hf⟩

theorem step_BinaryOp (ctx : AtInstr code t G f ft fr r ⟨pos, opBinaryOp, args⟩ h) :
    SafeX (exBinaryOp code fr (A0 args) (A1 args) opBinaryOp r) (SimpleGoal code t G f ft fr r ⟨pos, opBinaryOp, args⟩) := by
  have hs : succs ⟨pos, opBinaryOp, args⟩ h =
      if h < 2 then none else some [(pos + Instr.size ⟨pos, opBinaryOp, args⟩, h - (2) + 1)] := by succs_simp
  obtain ⟨hle, hfin⟩ := ctx.plain (2) (1) hs
  refine SafeX_mono (exBinaryOp_spec code fr (A0 args) (A1 args) opBinaryOp r (by have := ctx.spEq; omega) ) ?_
  rintro o ⟨he, hn⟩
  obtain ⟨hl, hf⟩ := hfin o he hn
  exact ⟨hl, Or.inl hf⟩

theorem step_DefineLocal (ctx : AtInstr code t G f ft fr r ⟨pos, opDefineLocal, args⟩ h) :
    SafeX (exDefineLocal code fr (A0 args) (A1 args) opDefineLocal r) (SimpleGoal code t G f ft fr r ⟨pos, opDefineLocal, args⟩) := by
  have hs : succs ⟨pos, opDefineLocal, args⟩ h =
      if h < 1 then none else some [(pos + Instr.size ⟨pos, opDefineLocal, args⟩, h - (1) + 0)] := by succs_simp
  obtain ⟨hle, hfin⟩ := ctx.plain (1) (0) hs
  refine SafeX_mono (exDefineLocal_spec code fr (A0 args) (A1 args) opDefineLocal r (by have := ctx.spEq; omega) ) ?_
  rintro o ⟨he, hn⟩
  obtain ⟨hl, hf⟩ := hfin o he hn
  exact ⟨hl, Or.inl hf⟩

theorem step_SetLocal (ctx : AtInstr code t G f ft fr r ⟨pos, opSetLocal, args⟩ h) :
    SafeX (exSetLocal code fr (A0 args) (A1 args) opSetLocal r) (SimpleGoal code t G f ft fr r ⟨pos, opSetLocal, args⟩) := by
  have hs : succs ⟨pos, opSetLocal, args⟩ h =
      if h < 1 then none else some [(pos + Instr.size ⟨pos, opSetLocal, args⟩, h - (1) + 0)] := by succs_simp
  obtain ⟨hle, hfin⟩ := ctx.plain (1) (0) hs
  refine SafeX_mono (exSetLocal_spec code fr (A0 args) (A1 args) opSetLocal r (by have := ctx.spEq; omega) ) ?_
  rintro o ⟨he, hn⟩
  obtain ⟨hl, hf⟩ := hfin o he hn
  exact ⟨hl, Or.inl hf⟩

theorem step_GetLocal (ctx : AtInstr code t G f ft fr r ⟨pos, opGetLocal, args⟩ h) :
    SafeX (exGetLocal code fr (A0 args) (A1 args) opGetLocal r) (SimpleGoal code t G f ft fr r ⟨pos, opGetLocal, args⟩) := by
  have hs : succs ⟨pos, opGetLocal, args⟩ h =
      if h < 0 then none else some [(pos + Instr.size ⟨pos, opGetLocal, args⟩, h - (0) + 1)] := by succs_simp
  obtain ⟨hle, hfin⟩ := ctx.plain (0) (1) hs
  refine SafeX_mono (exGetLocal_spec code fr (A0 args) (A1 args) opGetLocal r ) ?_
  rintro o ⟨he, hn⟩
  obtain ⟨hl, hf⟩ := hfin o he hn
  exact ⟨hl, Or.inl hf⟩

theorem step_GetLocalPtr (ctx : AtInstr code t G f ft fr r ⟨pos, opGetLocalPtr, args⟩ h) :
    SafeX (exGetLocalPtr code fr (A0 args) (A1 args) opGetLocalPtr r) (SimpleGoal code t G f ft fr r ⟨pos, opGetLocalPtr, args⟩) := by
  have hs : succs ⟨pos, opGetLocalPtr, args⟩ h =
      if h < 0 then none else some [(pos + Instr.size ⟨pos, opGetLocalPtr, args⟩, h - (0) + 1)] := by succs_simp
  obtain ⟨hle, hfin⟩ := ctx.plain (0) (1) hs
  refine SafeX_mono (exGetLocalPtr_spec code fr (A0 args) (A1 args) opGetLocalPtr r ) ?_
  rintro o ⟨he, hn⟩
  obtain ⟨hl, hf⟩ := hfin o he hn
  exact ⟨hl, Or.inl hf⟩

theorem step_Array (ctx : AtInstr code t G f ft fr r ⟨pos, opArray, args⟩ h) :
    SafeX (exArray code fr (A0 args) (A1 args) opArray r) (SimpleGoal code t G f ft fr r ⟨pos, opArray, args⟩) := by
  have hs : succs ⟨pos, opArray, args⟩ h =
      if h < A0 args then none else some [(pos + Instr.size ⟨pos, opArray, args⟩, h - (A0 args) + 1)] := by succs_simp
  obtain ⟨hle, hfin⟩ := ctx.plain (A0 args) (1) hs
  refine SafeX_mono (exArray_spec code fr (A0 args) (A1 args) opArray r (by have := ctx.spEq; omega) ) ?_
  rintro o ⟨he, hn⟩
  obtain ⟨hl, hf⟩ := hfin o he hn
  exact ⟨hl, Or.inl hf⟩

theorem step_Map (ctx : AtInstr code t G f ft fr r ⟨pos, opMap, args⟩ h) :
    SafeX (exMap code fr (A0 args) (A1 args) opMap r) (SimpleGoal code t G f ft fr r ⟨pos, opMap, args⟩) := by
  have hs : succs ⟨pos, opMap, args⟩ h =
      if h < A0 args then none else some [(pos + Instr.size ⟨pos, opMap, args⟩, h - (A0 args) + 1)] := by succs_simp
  obtain ⟨hle, hfin⟩ := ctx.plain (A0 args) (1) hs
  refine SafeX_mono (exMap_spec code fr (A0 args) (A1 args) opMap r (by have := ctx.spEq; omega) ) ?_
  rintro o ⟨he, hn⟩
  obtain ⟨hl, hf⟩ := hfin o he hn
  exact ⟨hl, Or.inl hf⟩

theorem step_SetSelLocal (ctx : AtInstr code t G f ft fr r ⟨pos, opSetSelLocal, args⟩ h) :
    SafeX (exSetSelLocal code fr (A0 args) (A1 args) opSetSelLocal r) (SimpleGoal code t G f ft fr r ⟨pos, opSetSelLocal, args⟩) := by
  have hs : succs ⟨pos, opSetSelLocal, args⟩ h =
      if h < A1 args + 1 then none else some [(pos + Instr.size ⟨pos, opSetSelLocal, args⟩, h - (A1 args + 1) + 0)] := by succs_simp
  obtain ⟨hle, hfin⟩ := ctx.plain (A1 args + 1) (0) hs
  refine SafeX_mono (exSetSelLocal_spec code fr (A0 args) (A1 args) opSetSelLocal r (by have := ctx.spEq; omega) ) ?_
  rintro o ⟨he, hn⟩
  obtain ⟨hl, hf⟩ := hfin o he hn
  exact ⟨hl, Or.inl hf⟩

theorem step_Constant (ctx : AtInstr code t G f ft fr r ⟨pos, opConstant, args⟩ h) :
    SafeX (exConstant code fr (A0 args) (A1 args) opConstant r) (SimpleGoal code t G f ft fr r ⟨pos, opConstant, args⟩) := by
  have hs : succs ⟨pos, opConstant, args⟩ h =
      if h < 0 then none else some [(pos + Instr.size ⟨pos, opConstant, args⟩, h - (0) + 1)] := by succs_simp
  obtain ⟨hle, hfin⟩ := ctx.plain (0) (1) hs
  have hopd := ctx.opd
  opd_simp at hopd
  refine SafeX_mono (exConstant_spec code fr (A0 args) (A1 args) opConstant r (by simpa using hopd)) ?_
  rintro o ⟨he, hn⟩
  obtain ⟨hl, hf⟩ := hfin o he hn
  exact ⟨hl, Or.inl hf⟩

theorem step_GetGlobal (ctx : AtInstr code t G f ft fr r ⟨pos, opGetGlobal, args⟩ h) :
    SafeX (exGetGlobal code fr (A0 args) (A1 args) opGetGlobal r) (SimpleGoal code t G f ft fr r ⟨pos, opGetGlobal, args⟩) := by
  have hs : succs ⟨pos, opGetGlobal, args⟩ h =
      if h < 0 then none else some [(pos + Instr.size ⟨pos, opGetGlobal, args⟩, h - (0) + 1)] := by succs_simp
  obtain ⟨hle, hfin⟩ := ctx.plain (0) (1) hs
  have hopd := ctx.opd
  opd_simp at hopd
  refine SafeX_mono (exGetGlobal_spec code fr (A0 args) (A1 args) opGetGlobal r (by rw [ctx.gl]; simpa [A0] using hopd)) ?_
  rintro o ⟨he, hn⟩
  obtain ⟨hl, hf⟩ := hfin o he hn
  exact ⟨hl, Or.inl hf⟩

theorem step_SetGlobal (ctx : AtInstr code t G f ft fr r ⟨pos, opSetGlobal, args⟩ h) :
    SafeX (exSetGlobal code fr (A0 args) (A1 args) opSetGlobal r) (SimpleGoal code t G f ft fr r ⟨pos, opSetGlobal, args⟩) := by
  have hs : succs ⟨pos, opSetGlobal, args⟩ h =
      if h < 1 then none else some [(pos + Instr.size ⟨pos, opSetGlobal, args⟩, h - (1) + 0)] := by succs_simp
  obtain ⟨hle, hfin⟩ := ctx.plain (1) (0) hs
  have hopd := ctx.opd
  opd_simp at hopd
  refine SafeX_mono (exSetGlobal_spec code fr (A0 args) (A1 args) opSetGlobal r (by have := ctx.spEq; omega) (by rw [ctx.gl]; simpa [A0] using hopd)) ?_
  rintro o ⟨he, hn⟩
  obtain ⟨hl, hf⟩ := hfin o he hn
  exact ⟨hl, Or.inl hf⟩

theorem step_SetSelGlobal (ctx : AtInstr code t G f ft fr r ⟨pos, opSetSelGlobal, args⟩ h) :
    SafeX (exSetSelGlobal code fr (A0 args) (A1 args) opSetSelGlobal r) (SimpleGoal code t G f ft fr r ⟨pos, opSetSelGlobal, args⟩) := by
  have hs : succs ⟨pos, opSetSelGlobal, args⟩ h =
      if h < A1 args + 1 then none else some [(pos + Instr.size ⟨pos, opSetSelGlobal, args⟩, h - (A1 args + 1) + 0)] := by succs_simp
  obtain ⟨hle, hfin⟩ := ctx.plain (A1 args + 1) (0) hs
  have hopd := ctx.opd
  opd_simp at hopd
  refine SafeX_mono (exSetSelGlobal_spec code fr (A0 args) (A1 args) opSetSelGlobal r (by have := ctx.spEq; omega) (by rw [ctx.gl]; simpa [A0] using hopd)) ?_
  rintro o ⟨he, hn⟩
  obtain ⟨hl, hf⟩ := hfin o he hn
  exact ⟨hl, Or.inl hf⟩

theorem step_GetBuiltin (ctx : AtInstr code t G f ft fr r ⟨pos, opGetBuiltin, args⟩ h) :
    SafeX (exGetBuiltin code fr (A0 args) (A1 args) opGetBuiltin r) (SimpleGoal code t G f ft fr r ⟨pos, opGetBuiltin, args⟩) := by
  have hs : succs ⟨pos, opGetBuiltin, args⟩ h =
      if h < 0 then none else some [(pos + Instr.size ⟨pos, opGetBuiltin, args⟩, h - (0) + 1)] := by succs_simp
  obtain ⟨hle, hfin⟩ := ctx.plain (0) (1) hs
  have hopd := ctx.opd
  opd_simp at hopd
  refine SafeX_mono (exGetBuiltin_spec code fr (A0 args) (A1 args) opGetBuiltin r (by simpa using hopd)) ?_
  rintro o ⟨he, hn⟩
  obtain ⟨hl, hf⟩ := hfin o he hn
  exact ⟨hl, Or.inl hf⟩

theorem step_GetFreePtr (ctx : AtInstr code t G f ft fr r ⟨pos, opGetFreePtr, args⟩ h) :
    SafeX (exGetFreePtr code fr (A0 args) (A1 args) opGetFreePtr r) (SimpleGoal code t G f ft fr r ⟨pos, opGetFreePtr, args⟩) := by
  have hs : succs ⟨pos, opGetFreePtr, args⟩ h =
      if h < 0 then none else some [(pos + Instr.size ⟨pos, opGetFreePtr, args⟩, h - (0) + 1)] := by succs_simp
  obtain ⟨hle, hfin⟩ := ctx.plain (0) (1) hs
  have hopd := ctx.opd
  opd_simp at hopd
  have hfreelt : A0 args < fr.free.length := by rw [ctx.freeLen]; simpa [A0] using hopd
  refine SafeX_mono (exGetFreePtr_spec code fr (A0 args) (A1 args) opGetFreePtr r (by simpa using hfreelt)) ?_
  rintro o ⟨he, hn⟩
  obtain ⟨hl, hf⟩ := hfin o he hn
  exact ⟨hl, Or.inl hf⟩

theorem step_GetFree (ctx : AtInstr code t G f ft fr r ⟨pos, opGetFree, args⟩ h) :
    SafeX (exGetFree code fr (A0 args) (A1 args) opGetFree r) (SimpleGoal code t G f ft fr r ⟨pos, opGetFree, args⟩) := by
  have hs : succs ⟨pos, opGetFree, args⟩ h =
      if h < 0 then none else some [(pos + Instr.size ⟨pos, opGetFree, args⟩, h - (0) + 1)] := by succs_simp
  obtain ⟨hle, hfin⟩ := ctx.plain (0) (1) hs
  have hopd := ctx.opd
  opd_simp at hopd
  have hfreelt : A0 args < fr.free.length := by rw [ctx.freeLen]; simpa [A0] using hopd
  refine SafeX_mono (exGetFree_spec code fr (A0 args) (A1 args) opGetFree r (by simpa using hfreelt)) ?_
  rintro o ⟨he, hn⟩
  obtain ⟨hl, hf⟩ := hfin o he hn
  exact ⟨hl, Or.inl hf⟩

theorem step_SetFree (ctx : AtInstr code t G f ft fr r ⟨pos, opSetFree, args⟩ h) :
    SafeX (exSetFree code fr (A0 args) (A1 args) opSetFree r) (SimpleGoal code t G f ft fr r ⟨pos, opSetFree, args⟩) := by
  have hs : succs ⟨pos, opSetFree, args⟩ h =
      if h < 1 then none else some [(pos + Instr.size ⟨pos, opSetFree, args⟩, h - (1) + 0)] := by succs_simp
  obtain ⟨hle, hfin⟩ := ctx.plain (1) (0) hs
  have hopd := ctx.opd
  opd_simp at hopd
  have hfreelt : A0 args < fr.free.length := by rw [ctx.freeLen]; simpa [A0] using hopd
  refine SafeX_mono (exSetFree_spec code fr (A0 args) (A1 args) opSetFree r (by have := ctx.spEq; omega) (by simpa using hfreelt)) ?_
  rintro o ⟨he, hn⟩
  obtain ⟨hl, hf⟩ := hfin o he hn
  exact ⟨hl, Or.inl hf⟩

theorem step_SetSelFree (ctx : AtInstr code t G f ft fr r ⟨pos, opSetSelFree, args⟩ h) :
    SafeX (exSetSelFree code fr (A0 args) (A1 args) opSetSelFree r) (SimpleGoal code t G f ft fr r ⟨pos, opSetSelFree, args⟩) := by
  have hs : succs ⟨pos, opSetSelFree, args⟩ h =
      if h < A1 args + 1 then none else some [(pos + Instr.size ⟨pos, opSetSelFree, args⟩, h - (A1 args + 1) + 0)] := by succs_simp
  obtain ⟨hle, hfin⟩ := ctx.plain (A1 args + 1) (0) hs
  have hopd := ctx.opd
  opd_simp at hopd
  have hfreelt : A0 args < fr.free.length := by rw [ctx.freeLen]; simpa [A0] using hopd
  refine SafeX_mono (exSetSelFree_spec code fr (A0 args) (A1 args) opSetSelFree r (by have := ctx.spEq; omega) (by simpa using hfreelt)) ?_
  rintro o ⟨he, hn⟩
  obtain ⟨hl, hf⟩ := hfin o he hn
  exact ⟨hl, Or.inl hf⟩

theorem step_Closure (ctx : AtInstr code t G f ft fr r ⟨pos, opClosure, args⟩ h) :
    SafeX (exClosure code fr (A0 args) (A1 args) opClosure r) (SimpleGoal code t G f ft fr r ⟨pos, opClosure, args⟩) := by
  have hs : succs ⟨pos, opClosure, args⟩ h =
      if h < A1 args then none else some [(pos + Instr.size ⟨pos, opClosure, args⟩, h - A1 args + 1)] := by succs_simp
  obtain ⟨l, hl, hall⟩ := ctx.succs_ok
  rw [hs] at hl
  split at hl
  · cases hl
  rename_i hge
  injection hl with hl
  subst hl
  obtain ⟨h1, h2⟩ := hall _ _ (List.mem_singleton.mpr rfl)
  have hopd := ctx.opd
  opd_simp at hopd
  have hext := ctx.ext
  simp [extraOk, opClosure] at hext
  have e0 : A0 args = args.head?.getD 0 := by simp [A0]
  have e1 : A1 args = args[1]?.getD 0 := by simp [A1]
  have hk : ∃ fn ref, code.consts[A0 args]? = some (.fn fn ref) := by
    rw [e0]
    cases hc : code.consts[args.head?.getD 0]? with
    | none => simp [hc] at hopd
    | some c =>
      cases c with
      | val v => simp [hc] at hopd
      | fn fn ref => exact ⟨fn, ref, rfl⟩
  obtain ⟨fn, ref, hk⟩ := hk
  refine SafeX_mono (exClosure_spec code fr (A0 args) (A1 args) opClosure r (by have := ctx.spEq; omega) fn ref hk) ?_
  rintro o ⟨hsp, hgl, ⟨free, hfl, hfo⟩, hn⟩
  refine ⟨⟨_, _, h1, h2, ?_, ?_, ?_⟩, Or.inr ⟨_, free, fn, ref, hfo, hk, ?_⟩⟩
  · rw [hn]
  · have := ctx.spEq; omega
  · rw [hgl, ctx.gl]
  · rw [hfl, e0, e1]; exact hext

theorem step_Jump (ctx : AtInstr code t G f ft fr r ⟨pos, opJump, args⟩ h) :
    SafeX (exJump code fr (A0 args) (A1 args) opJump r) (SimpleGoal code t G f ft fr r ⟨pos, opJump, args⟩) := by
  have hs : succs ⟨pos, opJump, args⟩ h = some [(A0 args, h)] := by succs_simp
  obtain ⟨l, hl, hall⟩ := ctx.succs_ok
  rw [hs] at hl
  injection hl with hl
  subst hl
  obtain ⟨h1, h2⟩ := hall _ _ (List.mem_singleton.mpr rfl)
  refine SafeX_mono (exJump_spec code fr (A0 args) (A1 args) opJump r) ?_
  rintro o ⟨he, hn⟩
  refine ⟨⟨_, _, h1, h2, ?_, ?_, ?_⟩, Or.inl he.fo⟩
  · rw [hn]
  · have := he.sp; have := ctx.spEq; omega
  · rw [he.gl, ctx.gl]

theorem step_JumpFalsy (ctx : AtInstr code t G f ft fr r ⟨pos, opJumpFalsy, args⟩ h) :
    SafeX (exJumpFalsy code fr (A0 args) (A1 args) opJumpFalsy r) (SimpleGoal code t G f ft fr r ⟨pos, opJumpFalsy, args⟩) := by
  have hs : succs ⟨pos, opJumpFalsy, args⟩ h =
      if h < 1 then none else some [(A0 args, h - 1), (pos + Instr.size ⟨pos, opJumpFalsy, args⟩, h - 1)] := by succs_simp
  obtain ⟨l, hl, hall⟩ := ctx.succs_ok
  rw [hs] at hl
  split at hl
  · cases hl
  rename_i hge
  injection hl with hl
  subst hl
  obtain ⟨a1, a2⟩ := hall (A0 args) (h - 1) (by simp)
  obtain ⟨b1, b2⟩ := hall (pos + Instr.size ⟨pos, opJumpFalsy, args⟩) (h - 1) (by simp)
  refine SafeX_mono (exJumpFalsy_spec code fr (A0 args) (A1 args) opJumpFalsy r (by have := ctx.spEq; omega)) ?_
  rintro o ⟨he, hn⟩
  rcases hn with hn | hn
  · refine ⟨⟨_, _, a1, a2, ?_, ?_, ?_⟩, Or.inl he.fo⟩
    · rw [hn]
    · have := he.sp; have := ctx.spEq; omega
    · rw [he.gl, ctx.gl]
  · refine ⟨⟨_, _, b1, b2, ?_, ?_, ?_⟩, Or.inl he.fo⟩
    · rw [hn]
    · have := he.sp; have := ctx.spEq; omega
    · rw [he.gl, ctx.gl]

theorem step_AndJump (ctx : AtInstr code t G f ft fr r ⟨pos, opAndJump, args⟩ h) :
    SafeX (exAndJump code fr (A0 args) (A1 args) opAndJump r) (SimpleGoal code t G f ft fr r ⟨pos, opAndJump, args⟩) := by
  have hs : succs ⟨pos, opAndJump, args⟩ h =
      if h < 1 then none else some [(A0 args, h), (pos + Instr.size ⟨pos, opAndJump, args⟩, h - 1)] := by succs_simp
  obtain ⟨l, hl, hall⟩ := ctx.succs_ok
  rw [hs] at hl
  split at hl
  · cases hl
  rename_i hge
  injection hl with hl
  subst hl
  obtain ⟨a1, a2⟩ := hall (A0 args) h (by simp)
  obtain ⟨b1, b2⟩ := hall (pos + Instr.size ⟨pos, opAndJump, args⟩) (h - 1) (by simp)
  refine SafeX_mono (exAndJump_spec code fr (A0 args) (A1 args) opAndJump r (by have := ctx.spEq; omega)) ?_
  rintro o (⟨he, hn⟩ | ⟨he, hn⟩)
  · refine ⟨⟨_, _, a1, a2, ?_, ?_, ?_⟩, Or.inl he.fo⟩
    · rw [hn]
    · have := he.sp; have := ctx.spEq; omega
    · rw [he.gl, ctx.gl]
  · refine ⟨⟨_, _, b1, b2, ?_, ?_, ?_⟩, Or.inl he.fo⟩
    · rw [hn]
    · have := he.sp; have := ctx.spEq; omega
    · rw [he.gl, ctx.gl]

theorem step_OrJump (ctx : AtInstr code t G f ft fr r ⟨pos, opOrJump, args⟩ h) :
    SafeX (exOrJump code fr (A0 args) (A1 args) opOrJump r) (SimpleGoal code t G f ft fr r ⟨pos, opOrJump, args⟩) := by
  have hs : succs ⟨pos, opOrJump, args⟩ h =
      if h < 1 then none else some [(A0 args, h), (pos + Instr.size ⟨pos, opOrJump, args⟩, h - 1)] := by succs_simp
  obtain ⟨l, hl, hall⟩ := ctx.succs_ok
  rw [hs] at hl
  split at hl
  · cases hl
  rename_i hge
  injection hl with hl
  subst hl
  obtain ⟨a1, a2⟩ := hall (A0 args) h (by simp)
  obtain ⟨b1, b2⟩ := hall (pos + Instr.size ⟨pos, opOrJump, args⟩) (h - 1) (by simp)
  refine SafeX_mono (exOrJump_spec code fr (A0 args) (A1 args) opOrJump r (by have := ctx.spEq; omega)) ?_
  rintro o (⟨he, hn⟩ | ⟨he, hn⟩)
  · refine ⟨⟨_, _, a1, a2, ?_, ?_, ?_⟩, Or.inl he.fo⟩
    · rw [hn]
    · have := he.sp; have := ctx.spEq; omega
    · rw [he.gl, ctx.gl]
  · refine ⟨⟨_, _, b1, b2, ?_, ?_, ?_⟩, Or.inl he.fo⟩
    · rw [hn]
    · have := he.sp; have := ctx.spEq; omega
    · rw [he.gl, ctx.gl]

theorem execSimple_Constant (code : Code) (fr : Frame) (a0 a1 : Nat) (r : Regs) :
    execSimple code fr a0 a1 opConstant r = exConstant code fr a0 a1 opConstant r := by
  simp [execSimple, opConstant, opBComplement, opPop, opTrue, opFalse, opEqual, opNotEqual, opMinus, opLNot, opJumpFalsy, opAndJump, opOrJump, opJump, opNull, opArray, opMap, opError, opImmutable, opIndex, opSliceIndex, opCall, opReturn, opGetGlobal, opSetGlobal, opSetSelGlobal, opGetLocal, opSetLocal, opDefineLocal, opSetSelLocal, opGetFreePtr, opGetFree, opSetFree, opGetLocalPtr, opSetSelFree, opGetBuiltin, opClosure, opIteratorInit, opIteratorNext, opIteratorKey, opIteratorValue, opBinaryOp, opSuspend]

theorem execSimple_Null (code : Code) (fr : Frame) (a0 a1 : Nat) (r : Regs) :
    execSimple code fr a0 a1 opNull r = exNull code fr a0 a1 opNull r := by
  simp [execSimple, opConstant, opBComplement, opPop, opTrue, opFalse, opEqual, opNotEqual, opMinus, opLNot, opJumpFalsy, opAndJump, opOrJump, opJump, opNull, opArray, opMap, opError, opImmutable, opIndex, opSliceIndex, opCall, opReturn, opGetGlobal, opSetGlobal, opSetSelGlobal, opGetLocal, opSetLocal, opDefineLocal, opSetSelLocal, opGetFreePtr, opGetFree, opSetFree, opGetLocalPtr, opSetSelFree, opGetBuiltin, opClosure, opIteratorInit, opIteratorNext, opIteratorKey, opIteratorValue, opBinaryOp, opSuspend]

theorem execSimple_True (code : Code) (fr : Frame) (a0 a1 : Nat) (r : Regs) :
    execSimple code fr a0 a1 opTrue r = exTrue code fr a0 a1 opTrue r := by
  simp [execSimple, opConstant, opBComplement, opPop, opTrue, opFalse, opEqual, opNotEqual, opMinus, opLNot, opJumpFalsy, opAndJump, opOrJump, opJump, opNull, opArray, opMap, opError, opImmutable, opIndex, opSliceIndex, opCall, opReturn, opGetGlobal, opSetGlobal, opSetSelGlobal, opGetLocal, opSetLocal, opDefineLocal, opSetSelLocal, opGetFreePtr, opGetFree, opSetFree, opGetLocalPtr, opSetSelFree, opGetBuiltin, opClosure, opIteratorInit, opIteratorNext, opIteratorKey, opIteratorValue, opBinaryOp, opSuspend]

theorem execSimple_False (code : Code) (fr : Frame) (a0 a1 : Nat) (r : Regs) :
    execSimple code fr a0 a1 opFalse r = exFalse code fr a0 a1 opFalse r := by
  simp [execSimple, opConstant, opBComplement, opPop, opTrue, opFalse, opEqual, opNotEqual, opMinus, opLNot, opJumpFalsy, opAndJump, opOrJump, opJump, opNull, opArray, opMap, opError, opImmutable, opIndex, opSliceIndex, opCall, opReturn, opGetGlobal, opSetGlobal, opSetSelGlobal, opGetLocal, opSetLocal, opDefineLocal, opSetSelLocal, opGetFreePtr, opGetFree, opSetFree, opGetLocalPtr, opSetSelFree, opGetBuiltin, opClosure, opIteratorInit, opIteratorNext, opIteratorKey, opIteratorValue, opBinaryOp, opSuspend]

theorem execSimple_Pop (code : Code) (fr : Frame) (a0 a1 : Nat) (r : Regs) :
    execSimple code fr a0 a1 opPop r = exPop code fr a0 a1 opPop r := by
  simp [execSimple, opConstant, opBComplement, opPop, opTrue, opFalse, opEqual, opNotEqual, opMinus, opLNot, opJumpFalsy, opAndJump, opOrJump, opJump, opNull, opArray, opMap, opError, opImmutable, opIndex, opSliceIndex, opCall, opReturn, opGetGlobal, opSetGlobal, opSetSelGlobal, opGetLocal, opSetLocal, opDefineLocal, opSetSelLocal, opGetFreePtr, opGetFree, opSetFree, opGetLocalPtr, opSetSelFree, opGetBuiltin, opClosure, opIteratorInit, opIteratorNext, opIteratorKey, opIteratorValue, opBinaryOp, opSuspend]

theorem execSimple_BinaryOp (code : Code) (fr : Frame) (a0 a1 : Nat) (r : Regs) :
    execSimple code fr a0 a1 opBinaryOp r = exBinaryOp code fr a0 a1 opBinaryOp r := by
  simp [execSimple, opConstant, opBComplement, opPop, opTrue, opFalse, opEqual, opNotEqual, opMinus, opLNot, opJumpFalsy, opAndJump, opOrJump, opJump, opNull, opArray, opMap, opError, opImmutable, opIndex, opSliceIndex, opCall, opReturn, opGetGlobal, opSetGlobal, opSetSelGlobal, opGetLocal, opSetLocal, opDefineLocal, opSetSelLocal, opGetFreePtr, opGetFree, opSetFree, opGetLocalPtr, opSetSelFree, opGetBuiltin, opClosure, opIteratorInit, opIteratorNext, opIteratorKey, opIteratorValue, opBinaryOp, opSuspend]

theorem execSimple_Equal (code : Code) (fr : Frame) (a0 a1 : Nat) (r : Regs) :
    execSimple code fr a0 a1 opEqual r = exEqual code fr a0 a1 opEqual r := by
  simp [execSimple, opConstant, opBComplement, opPop, opTrue, opFalse, opEqual, opNotEqual, opMinus, opLNot, opJumpFalsy, opAndJump, opOrJump, opJump, opNull, opArray, opMap, opError, opImmutable, opIndex, opSliceIndex, opCall, opReturn, opGetGlobal, opSetGlobal, opSetSelGlobal, opGetLocal, opSetLocal, opDefineLocal, opSetSelLocal, opGetFreePtr, opGetFree, opSetFree, opGetLocalPtr, opSetSelFree, opGetBuiltin, opClosure, opIteratorInit, opIteratorNext, opIteratorKey, opIteratorValue, opBinaryOp, opSuspend]

theorem execSimple_NotEqual (code : Code) (fr : Frame) (a0 a1 : Nat) (r : Regs) :
    execSimple code fr a0 a1 opNotEqual r = exEqual code fr a0 a1 opNotEqual r := by
  simp [execSimple, opConstant, opBComplement, opPop, opTrue, opFalse, opEqual, opNotEqual, opMinus, opLNot, opJumpFalsy, opAndJump, opOrJump, opJump, opNull, opArray, opMap, opError, opImmutable, opIndex, opSliceIndex, opCall, opReturn, opGetGlobal, opSetGlobal, opSetSelGlobal, opGetLocal, opSetLocal, opDefineLocal, opSetSelLocal, opGetFreePtr, opGetFree, opSetFree, opGetLocalPtr, opSetSelFree, opGetBuiltin, opClosure, opIteratorInit, opIteratorNext, opIteratorKey, opIteratorValue, opBinaryOp, opSuspend]

theorem execSimple_LNot (code : Code) (fr : Frame) (a0 a1 : Nat) (r : Regs) :
    execSimple code fr a0 a1 opLNot r = exLNot code fr a0 a1 opLNot r := by
  simp [execSimple, opConstant, opBComplement, opPop, opTrue, opFalse, opEqual, opNotEqual, opMinus, opLNot, opJumpFalsy, opAndJump, opOrJump, opJump, opNull, opArray, opMap, opError, opImmutable, opIndex, opSliceIndex, opCall, opReturn, opGetGlobal, opSetGlobal, opSetSelGlobal, opGetLocal, opSetLocal, opDefineLocal, opSetSelLocal, opGetFreePtr, opGetFree, opSetFree, opGetLocalPtr, opSetSelFree, opGetBuiltin, opClosure, opIteratorInit, opIteratorNext, opIteratorKey, opIteratorValue, opBinaryOp, opSuspend]

theorem execSimple_BComplement (code : Code) (fr : Frame) (a0 a1 : Nat) (r : Regs) :
    execSimple code fr a0 a1 opBComplement r = exBComplement code fr a0 a1 opBComplement r := by
  simp [execSimple, opConstant, opBComplement, opPop, opTrue, opFalse, opEqual, opNotEqual, opMinus, opLNot, opJumpFalsy, opAndJump, opOrJump, opJump, opNull, opArray, opMap, opError, opImmutable, opIndex, opSliceIndex, opCall, opReturn, opGetGlobal, opSetGlobal, opSetSelGlobal, opGetLocal, opSetLocal, opDefineLocal, opSetSelLocal, opGetFreePtr, opGetFree, opSetFree, opGetLocalPtr, opSetSelFree, opGetBuiltin, opClosure, opIteratorInit, opIteratorNext, opIteratorKey, opIteratorValue, opBinaryOp, opSuspend]

theorem execSimple_Minus (code : Code) (fr : Frame) (a0 a1 : Nat) (r : Regs) :
    execSimple code fr a0 a1 opMinus r = exMinus code fr a0 a1 opMinus r := by
  simp [execSimple, opConstant, opBComplement, opPop, opTrue, opFalse, opEqual, opNotEqual, opMinus, opLNot, opJumpFalsy, opAndJump, opOrJump, opJump, opNull, opArray, opMap, opError, opImmutable, opIndex, opSliceIndex, opCall, opReturn, opGetGlobal, opSetGlobal, opSetSelGlobal, opGetLocal, opSetLocal, opDefineLocal, opSetSelLocal, opGetFreePtr, opGetFree, opSetFree, opGetLocalPtr, opSetSelFree, opGetBuiltin, opClosure, opIteratorInit, opIteratorNext, opIteratorKey, opIteratorValue, opBinaryOp, opSuspend]

theorem execSimple_JumpFalsy (code : Code) (fr : Frame) (a0 a1 : Nat) (r : Regs) :
    execSimple code fr a0 a1 opJumpFalsy r = exJumpFalsy code fr a0 a1 opJumpFalsy r := by
  simp [execSimple, opConstant, opBComplement, opPop, opTrue, opFalse, opEqual, opNotEqual, opMinus, opLNot, opJumpFalsy, opAndJump, opOrJump, opJump, opNull, opArray, opMap, opError, opImmutable, opIndex, opSliceIndex, opCall, opReturn, opGetGlobal, opSetGlobal, opSetSelGlobal, opGetLocal, opSetLocal, opDefineLocal, opSetSelLocal, opGetFreePtr, opGetFree, opSetFree, opGetLocalPtr, opSetSelFree, opGetBuiltin, opClosure, opIteratorInit, opIteratorNext, opIteratorKey, opIteratorValue, opBinaryOp, opSuspend]

theorem execSimple_AndJump (code : Code) (fr : Frame) (a0 a1 : Nat) (r : Regs) :
    execSimple code fr a0 a1 opAndJump r = exAndJump code fr a0 a1 opAndJump r := by
  simp [execSimple, opConstant, opBComplement, opPop, opTrue, opFalse, opEqual, opNotEqual, opMinus, opLNot, opJumpFalsy, opAndJump, opOrJump, opJump, opNull, opArray, opMap, opError, opImmutable, opIndex, opSliceIndex, opCall, opReturn, opGetGlobal, opSetGlobal, opSetSelGlobal, opGetLocal, opSetLocal, opDefineLocal, opSetSelLocal, opGetFreePtr, opGetFree, opSetFree, opGetLocalPtr, opSetSelFree, opGetBuiltin, opClosure, opIteratorInit, opIteratorNext, opIteratorKey, opIteratorValue, opBinaryOp, opSuspend]

theorem execSimple_OrJump (code : Code) (fr : Frame) (a0 a1 : Nat) (r : Regs) :
    execSimple code fr a0 a1 opOrJump r = exOrJump code fr a0 a1 opOrJump r := by
  simp [execSimple, opConstant, opBComplement, opPop, opTrue, opFalse, opEqual, opNotEqual, opMinus, opLNot, opJumpFalsy, opAndJump, opOrJump, opJump, opNull, opArray, opMap, opError, opImmutable, opIndex, opSliceIndex, opCall, opReturn, opGetGlobal, opSetGlobal, opSetSelGlobal, opGetLocal, opSetLocal, opDefineLocal, opSetSelLocal, opGetFreePtr, opGetFree, opSetFree, opGetLocalPtr, opSetSelFree, opGetBuiltin, opClosure, opIteratorInit, opIteratorNext, opIteratorKey, opIteratorValue, opBinaryOp, opSuspend]

theorem execSimple_Jump (code : Code) (fr : Frame) (a0 a1 : Nat) (r : Regs) :
    execSimple code fr a0 a1 opJump r = exJump code fr a0 a1 opJump r := by
  simp [execSimple, opConstant, opBComplement, opPop, opTrue, opFalse, opEqual, opNotEqual, opMinus, opLNot, opJumpFalsy, opAndJump, opOrJump, opJump, opNull, opArray, opMap, opError, opImmutable, opIndex, opSliceIndex, opCall, opReturn, opGetGlobal, opSetGlobal, opSetSelGlobal, opGetLocal, opSetLocal, opDefineLocal, opSetSelLocal, opGetFreePtr, opGetFree, opSetFree, opGetLocalPtr, opSetSelFree, opGetBuiltin, opClosure, opIteratorInit, opIteratorNext, opIteratorKey, opIteratorValue, opBinaryOp, opSuspend]

theorem execSimple_SetGlobal (code : Code) (fr : Frame) (a0 a1 : Nat) (r : Regs) :
    execSimple code fr a0 a1 opSetGlobal r = exSetGlobal code fr a0 a1 opSetGlobal r := by
  simp [execSimple, opConstant, opBComplement, opPop, opTrue, opFalse, opEqual, opNotEqual, opMinus, opLNot, opJumpFalsy, opAndJump, opOrJump, opJump, opNull, opArray, opMap, opError, opImmutable, opIndex, opSliceIndex, opCall, opReturn, opGetGlobal, opSetGlobal, opSetSelGlobal, opGetLocal, opSetLocal, opDefineLocal, opSetSelLocal, opGetFreePtr, opGetFree, opSetFree, opGetLocalPtr, opSetSelFree, opGetBuiltin, opClosure, opIteratorInit, opIteratorNext, opIteratorKey, opIteratorValue, opBinaryOp, opSuspend]

theorem execSimple_GetGlobal (code : Code) (fr : Frame) (a0 a1 : Nat) (r : Regs) :
    execSimple code fr a0 a1 opGetGlobal r = exGetGlobal code fr a0 a1 opGetGlobal r := by
  simp [execSimple, opConstant, opBComplement, opPop, opTrue, opFalse, opEqual, opNotEqual, opMinus, opLNot, opJumpFalsy, opAndJump, opOrJump, opJump, opNull, opArray, opMap, opError, opImmutable, opIndex, opSliceIndex, opCall, opReturn, opGetGlobal, opSetGlobal, opSetSelGlobal, opGetLocal, opSetLocal, opDefineLocal, opSetSelLocal, opGetFreePtr, opGetFree, opSetFree, opGetLocalPtr, opSetSelFree, opGetBuiltin, opClosure, opIteratorInit, opIteratorNext, opIteratorKey, opIteratorValue, opBinaryOp, opSuspend]

theorem execSimple_SetSelGlobal (code : Code) (fr : Frame) (a0 a1 : Nat) (r : Regs) :
    execSimple code fr a0 a1 opSetSelGlobal r = exSetSelGlobal code fr a0 a1 opSetSelGlobal r := by
  simp [execSimple, opConstant, opBComplement, opPop, opTrue, opFalse, opEqual, opNotEqual, opMinus, opLNot, opJumpFalsy, opAndJump, opOrJump, opJump, opNull, opArray, opMap, opError, opImmutable, opIndex, opSliceIndex, opCall, opReturn, opGetGlobal, opSetGlobal, opSetSelGlobal, opGetLocal, opSetLocal, opDefineLocal, opSetSelLocal, opGetFreePtr, opGetFree, opSetFree, opGetLocalPtr, opSetSelFree, opGetBuiltin, opClosure, opIteratorInit, opIteratorNext, opIteratorKey, opIteratorValue, opBinaryOp, opSuspend]

theorem execSimple_Array (code : Code) (fr : Frame) (a0 a1 : Nat) (r : Regs) :
    execSimple code fr a0 a1 opArray r = exArray code fr a0 a1 opArray r := by
  simp [execSimple, opConstant, opBComplement, opPop, opTrue, opFalse, opEqual, opNotEqual, opMinus, opLNot, opJumpFalsy, opAndJump, opOrJump, opJump, opNull, opArray, opMap, opError, opImmutable, opIndex, opSliceIndex, opCall, opReturn, opGetGlobal, opSetGlobal, opSetSelGlobal, opGetLocal, opSetLocal, opDefineLocal, opSetSelLocal, opGetFreePtr, opGetFree, opSetFree, opGetLocalPtr, opSetSelFree, opGetBuiltin, opClosure, opIteratorInit, opIteratorNext, opIteratorKey, opIteratorValue, opBinaryOp, opSuspend]

theorem execSimple_Map (code : Code) (fr : Frame) (a0 a1 : Nat) (r : Regs) :
    execSimple code fr a0 a1 opMap r = exMap code fr a0 a1 opMap r := by
  simp [execSimple, opConstant, opBComplement, opPop, opTrue, opFalse, opEqual, opNotEqual, opMinus, opLNot, opJumpFalsy, opAndJump, opOrJump, opJump, opNull, opArray, opMap, opError, opImmutable, opIndex, opSliceIndex, opCall, opReturn, opGetGlobal, opSetGlobal, opSetSelGlobal, opGetLocal, opSetLocal, opDefineLocal, opSetSelLocal, opGetFreePtr, opGetFree, opSetFree, opGetLocalPtr, opSetSelFree, opGetBuiltin, opClosure, opIteratorInit, opIteratorNext, opIteratorKey, opIteratorValue, opBinaryOp, opSuspend]

theorem execSimple_Error (code : Code) (fr : Frame) (a0 a1 : Nat) (r : Regs) :
    execSimple code fr a0 a1 opError r = exError code fr a0 a1 opError r := by
  simp [execSimple, opConstant, opBComplement, opPop, opTrue, opFalse, opEqual, opNotEqual, opMinus, opLNot, opJumpFalsy, opAndJump, opOrJump, opJump, opNull, opArray, opMap, opError, opImmutable, opIndex, opSliceIndex, opCall, opReturn, opGetGlobal, opSetGlobal, opSetSelGlobal, opGetLocal, opSetLocal, opDefineLocal, opSetSelLocal, opGetFreePtr, opGetFree, opSetFree, opGetLocalPtr, opSetSelFree, opGetBuiltin, opClosure, opIteratorInit, opIteratorNext, opIteratorKey, opIteratorValue, opBinaryOp, opSuspend]

theorem execSimple_Immutable (code : Code) (fr : Frame) (a0 a1 : Nat) (r : Regs) :
    execSimple code fr a0 a1 opImmutable r = exImmutable code fr a0 a1 opImmutable r := by
  simp [execSimple, opConstant, opBComplement, opPop, opTrue, opFalse, opEqual, opNotEqual, opMinus, opLNot, opJumpFalsy, opAndJump, opOrJump, opJump, opNull, opArray, opMap, opError, opImmutable, opIndex, opSliceIndex, opCall, opReturn, opGetGlobal, opSetGlobal, opSetSelGlobal, opGetLocal, opSetLocal, opDefineLocal, opSetSelLocal, opGetFreePtr, opGetFree, opSetFree, opGetLocalPtr, opSetSelFree, opGetBuiltin, opClosure, opIteratorInit, opIteratorNext, opIteratorKey, opIteratorValue, opBinaryOp, opSuspend]

theorem execSimple_Index (code : Code) (fr : Frame) (a0 a1 : Nat) (r : Regs) :
    execSimple code fr a0 a1 opIndex r = exIndex code fr a0 a1 opIndex r := by
  simp [execSimple, opConstant, opBComplement, opPop, opTrue, opFalse, opEqual, opNotEqual, opMinus, opLNot, opJumpFalsy, opAndJump, opOrJump, opJump, opNull, opArray, opMap, opError, opImmutable, opIndex, opSliceIndex, opCall, opReturn, opGetGlobal, opSetGlobal, opSetSelGlobal, opGetLocal, opSetLocal, opDefineLocal, opSetSelLocal, opGetFreePtr, opGetFree, opSetFree, opGetLocalPtr, opSetSelFree, opGetBuiltin, opClosure, opIteratorInit, opIteratorNext, opIteratorKey, opIteratorValue, opBinaryOp, opSuspend]

theorem execSimple_SliceIndex (code : Code) (fr : Frame) (a0 a1 : Nat) (r : Regs) :
    execSimple code fr a0 a1 opSliceIndex r = exSliceIndex code fr a0 a1 opSliceIndex r := by
  simp [execSimple, opConstant, opBComplement, opPop, opTrue, opFalse, opEqual, opNotEqual, opMinus, opLNot, opJumpFalsy, opAndJump, opOrJump, opJump, opNull, opArray, opMap, opError, opImmutable, opIndex, opSliceIndex, opCall, opReturn, opGetGlobal, opSetGlobal, opSetSelGlobal, opGetLocal, opSetLocal, opDefineLocal, opSetSelLocal, opGetFreePtr, opGetFree, opSetFree, opGetLocalPtr, opSetSelFree, opGetBuiltin, opClosure, opIteratorInit, opIteratorNext, opIteratorKey, opIteratorValue, opBinaryOp, opSuspend]

theorem execSimple_DefineLocal (code : Code) (fr : Frame) (a0 a1 : Nat) (r : Regs) :
    execSimple code fr a0 a1 opDefineLocal r = exDefineLocal code fr a0 a1 opDefineLocal r := by
  simp [execSimple, opConstant, opBComplement, opPop, opTrue, opFalse, opEqual, opNotEqual, opMinus, opLNot, opJumpFalsy, opAndJump, opOrJump, opJump, opNull, opArray, opMap, opError, opImmutable, opIndex, opSliceIndex, opCall, opReturn, opGetGlobal, opSetGlobal, opSetSelGlobal, opGetLocal, opSetLocal, opDefineLocal, opSetSelLocal, opGetFreePtr, opGetFree, opSetFree, opGetLocalPtr, opSetSelFree, opGetBuiltin, opClosure, opIteratorInit, opIteratorNext, opIteratorKey, opIteratorValue, opBinaryOp, opSuspend]

theorem execSimple_SetLocal (code : Code) (fr : Frame) (a0 a1 : Nat) (r : Regs) :
    execSimple code fr a0 a1 opSetLocal r = exSetLocal code fr a0 a1 opSetLocal r := by
  simp [execSimple, opConstant, opBComplement, opPop, opTrue, opFalse, opEqual, opNotEqual, opMinus, opLNot, opJumpFalsy, opAndJump, opOrJump, opJump, opNull, opArray, opMap, opError, opImmutable, opIndex, opSliceIndex, opCall, opReturn, opGetGlobal, opSetGlobal, opSetSelGlobal, opGetLocal, opSetLocal, opDefineLocal, opSetSelLocal, opGetFreePtr, opGetFree, opSetFree, opGetLocalPtr, opSetSelFree, opGetBuiltin, opClosure, opIteratorInit, opIteratorNext, opIteratorKey, opIteratorValue, opBinaryOp, opSuspend]

theorem execSimple_SetSelLocal (code : Code) (fr : Frame) (a0 a1 : Nat) (r : Regs) :
    execSimple code fr a0 a1 opSetSelLocal r = exSetSelLocal code fr a0 a1 opSetSelLocal r := by
  simp [execSimple, opConstant, opBComplement, opPop, opTrue, opFalse, opEqual, opNotEqual, opMinus, opLNot, opJumpFalsy, opAndJump, opOrJump, opJump, opNull, opArray, opMap, opError, opImmutable, opIndex, opSliceIndex, opCall, opReturn, opGetGlobal, opSetGlobal, opSetSelGlobal, opGetLocal, opSetLocal, opDefineLocal, opSetSelLocal, opGetFreePtr, opGetFree, opSetFree, opGetLocalPtr, opSetSelFree, opGetBuiltin, opClosure, opIteratorInit, opIteratorNext, opIteratorKey, opIteratorValue, opBinaryOp, opSuspend]

theorem execSimple_GetLocal (code : Code) (fr : Frame) (a0 a1 : Nat) (r : Regs) :
    execSimple code fr a0 a1 opGetLocal r = exGetLocal code fr a0 a1 opGetLocal r := by
  simp [execSimple, opConstant, opBComplement, opPop, opTrue, opFalse, opEqual, opNotEqual, opMinus, opLNot, opJumpFalsy, opAndJump, opOrJump, opJump, opNull, opArray, opMap, opError, opImmutable, opIndex, opSliceIndex, opCall, opReturn, opGetGlobal, opSetGlobal, opSetSelGlobal, opGetLocal, opSetLocal, opDefineLocal, opSetSelLocal, opGetFreePtr, opGetFree, opSetFree, opGetLocalPtr, opSetSelFree, opGetBuiltin, opClosure, opIteratorInit, opIteratorNext, opIteratorKey, opIteratorValue, opBinaryOp, opSuspend]

theorem execSimple_GetBuiltin (code : Code) (fr : Frame) (a0 a1 : Nat) (r : Regs) :
    execSimple code fr a0 a1 opGetBuiltin r = exGetBuiltin code fr a0 a1 opGetBuiltin r := by
  simp [execSimple, opConstant, opBComplement, opPop, opTrue, opFalse, opEqual, opNotEqual, opMinus, opLNot, opJumpFalsy, opAndJump, opOrJump, opJump, opNull, opArray, opMap, opError, opImmutable, opIndex, opSliceIndex, opCall, opReturn, opGetGlobal, opSetGlobal, opSetSelGlobal, opGetLocal, opSetLocal, opDefineLocal, opSetSelLocal, opGetFreePtr, opGetFree, opSetFree, opGetLocalPtr, opSetSelFree, opGetBuiltin, opClosure, opIteratorInit, opIteratorNext, opIteratorKey, opIteratorValue, opBinaryOp, opSuspend]

theorem execSimple_Closure (code : Code) (fr : Frame) (a0 a1 : Nat) (r : Regs) :
    execSimple code fr a0 a1 opClosure r = exClosure code fr a0 a1 opClosure r := by
  simp [execSimple, opConstant, opBComplement, opPop, opTrue, opFalse, opEqual, opNotEqual, opMinus, opLNot, opJumpFalsy, opAndJump, opOrJump, opJump, opNull, opArray, opMap, opError, opImmutable, opIndex, opSliceIndex, opCall, opReturn, opGetGlobal, opSetGlobal, opSetSelGlobal, opGetLocal, opSetLocal, opDefineLocal, opSetSelLocal, opGetFreePtr, opGetFree, opSetFree, opGetLocalPtr, opSetSelFree, opGetBuiltin, opClosure, opIteratorInit, opIteratorNext, opIteratorKey, opIteratorValue, opBinaryOp, opSuspend]

theorem execSimple_GetFreePtr (code : Code) (fr : Frame) (a0 a1 : Nat) (r : Regs) :
    execSimple code fr a0 a1 opGetFreePtr r = exGetFreePtr code fr a0 a1 opGetFreePtr r := by
  simp [execSimple, opConstant, opBComplement, opPop, opTrue, opFalse, opEqual, opNotEqual, opMinus, opLNot, opJumpFalsy, opAndJump, opOrJump, opJump, opNull, opArray, opMap, opError, opImmutable, opIndex, opSliceIndex, opCall, opReturn, opGetGlobal, opSetGlobal, opSetSelGlobal, opGetLocal, opSetLocal, opDefineLocal, opSetSelLocal, opGetFreePtr, opGetFree, opSetFree, opGetLocalPtr, opSetSelFree, opGetBuiltin, opClosure, opIteratorInit, opIteratorNext, opIteratorKey, opIteratorValue, opBinaryOp, opSuspend]

theorem execSimple_GetFree (code : Code) (fr : Frame) (a0 a1 : Nat) (r : Regs) :
    execSimple code fr a0 a1 opGetFree r = exGetFree code fr a0 a1 opGetFree r := by
  simp [execSimple, opConstant, opBComplement, opPop, opTrue, opFalse, opEqual, opNotEqual, opMinus, opLNot, opJumpFalsy, opAndJump, opOrJump, opJump, opNull, opArray, opMap, opError, opImmutable, opIndex, opSliceIndex, opCall, opReturn, opGetGlobal, opSetGlobal, opSetSelGlobal, opGetLocal, opSetLocal, opDefineLocal, opSetSelLocal, opGetFreePtr, opGetFree, opSetFree, opGetLocalPtr, opSetSelFree, opGetBuiltin, opClosure, opIteratorInit, opIteratorNext, opIteratorKey, opIteratorValue, opBinaryOp, opSuspend]

theorem execSimple_SetFree (code : Code) (fr : Frame) (a0 a1 : Nat) (r : Regs) :
    execSimple code fr a0 a1 opSetFree r = exSetFree code fr a0 a1 opSetFree r := by
  simp [execSimple, opConstant, opBComplement, opPop, opTrue, opFalse, opEqual, opNotEqual, opMinus, opLNot, opJumpFalsy, opAndJump, opOrJump, opJump, opNull, opArray, opMap, opError, opImmutable, opIndex, opSliceIndex, opCall, opReturn, opGetGlobal, opSetGlobal, opSetSelGlobal, opGetLocal, opSetLocal, opDefineLocal, opSetSelLocal, opGetFreePtr, opGetFree, opSetFree, opGetLocalPtr, opSetSelFree, opGetBuiltin, opClosure, opIteratorInit, opIteratorNext, opIteratorKey, opIteratorValue, opBinaryOp, opSuspend]

theorem execSimple_GetLocalPtr (code : Code) (fr : Frame) (a0 a1 : Nat) (r : Regs) :
    execSimple code fr a0 a1 opGetLocalPtr r = exGetLocalPtr code fr a0 a1 opGetLocalPtr r := by
  simp [execSimple, opConstant, opBComplement, opPop, opTrue, opFalse, opEqual, opNotEqual, opMinus, opLNot, opJumpFalsy, opAndJump, opOrJump, opJump, opNull, opArray, opMap, opError, opImmutable, opIndex, opSliceIndex, opCall, opReturn, opGetGlobal, opSetGlobal, opSetSelGlobal, opGetLocal, opSetLocal, opDefineLocal, opSetSelLocal, opGetFreePtr, opGetFree, opSetFree, opGetLocalPtr, opSetSelFree, opGetBuiltin, opClosure, opIteratorInit, opIteratorNext, opIteratorKey, opIteratorValue, opBinaryOp, opSuspend]

theorem execSimple_SetSelFree (code : Code) (fr : Frame) (a0 a1 : Nat) (r : Regs) :
    execSimple code fr a0 a1 opSetSelFree r = exSetSelFree code fr a0 a1 opSetSelFree r := by
  simp [execSimple, opConstant, opBComplement, opPop, opTrue, opFalse, opEqual, opNotEqual, opMinus, opLNot, opJumpFalsy, opAndJump, opOrJump, opJump, opNull, opArray, opMap, opError, opImmutable, opIndex, opSliceIndex, opCall, opReturn, opGetGlobal, opSetGlobal, opSetSelGlobal, opGetLocal, opSetLocal, opDefineLocal, opSetSelLocal, opGetFreePtr, opGetFree, opSetFree, opGetLocalPtr, opSetSelFree, opGetBuiltin, opClosure, opIteratorInit, opIteratorNext, opIteratorKey, opIteratorValue, opBinaryOp, opSuspend]

theorem execSimple_IteratorInit (code : Code) (fr : Frame) (a0 a1 : Nat) (r : Regs) :
    execSimple code fr a0 a1 opIteratorInit r = exIteratorInit code fr a0 a1 opIteratorInit r := by
  simp [execSimple, opConstant, opBComplement, opPop, opTrue, opFalse, opEqual, opNotEqual, opMinus, opLNot, opJumpFalsy, opAndJump, opOrJump, opJump, opNull, opArray, opMap, opError, opImmutable, opIndex, opSliceIndex, opCall, opReturn, opGetGlobal, opSetGlobal, opSetSelGlobal, opGetLocal, opSetLocal, opDefineLocal, opSetSelLocal, opGetFreePtr, opGetFree, opSetFree, opGetLocalPtr, opSetSelFree, opGetBuiltin, opClosure, opIteratorInit, opIteratorNext, opIteratorKey, opIteratorValue, opBinaryOp, opSuspend]

theorem execSimple_IteratorNext (code : Code) (fr : Frame) (a0 a1 : Nat) (r : Regs) :
    execSimple code fr a0 a1 opIteratorNext r = exIteratorNext code fr a0 a1 opIteratorNext r := by
  simp [execSimple, opConstant, opBComplement, opPop, opTrue, opFalse, opEqual, opNotEqual, opMinus, opLNot, opJumpFalsy, opAndJump, opOrJump, opJump, opNull, opArray, opMap, opError, opImmutable, opIndex, opSliceIndex, opCall, opReturn, opGetGlobal, opSetGlobal, opSetSelGlobal, opGetLocal, opSetLocal, opDefineLocal, opSetSelLocal, opGetFreePtr, opGetFree, opSetFree, opGetLocalPtr, opSetSelFree, opGetBuiltin, opClosure, opIteratorInit, opIteratorNext, opIteratorKey, opIteratorValue, opBinaryOp, opSuspend]

theorem execSimple_IteratorKey (code : Code) (fr : Frame) (a0 a1 : Nat) (r : Regs) :
    execSimple code fr a0 a1 opIteratorKey r = exIteratorKey code fr a0 a1 opIteratorKey r := by
  simp [execSimple, opConstant, opBComplement, opPop, opTrue, opFalse, opEqual, opNotEqual, opMinus, opLNot, opJumpFalsy, opAndJump, opOrJump, opJump, opNull, opArray, opMap, opError, opImmutable, opIndex, opSliceIndex, opCall, opReturn, opGetGlobal, opSetGlobal, opSetSelGlobal, opGetLocal, opSetLocal, opDefineLocal, opSetSelLocal, opGetFreePtr, opGetFree, opSetFree, opGetLocalPtr, opSetSelFree, opGetBuiltin, opClosure, opIteratorInit, opIteratorNext, opIteratorKey, opIteratorValue, opBinaryOp, opSuspend]

theorem execSimple_IteratorValue (code : Code) (fr : Frame) (a0 a1 : Nat) (r : Regs) :
    execSimple code fr a0 a1 opIteratorValue r = exIteratorKey code fr a0 a1 opIteratorValue r := by
  simp [execSimple, opConstant, opBComplement, opPop, opTrue, opFalse, opEqual, opNotEqual, opMinus, opLNot, opJumpFalsy, opAndJump, opOrJump, opJump, opNull, opArray, opMap, opError, opImmutable, opIndex, opSliceIndex, opCall, opReturn, opGetGlobal, opSetGlobal, opSetSelGlobal, opGetLocal, opSetLocal, opDefineLocal, opSetSelLocal, opGetFreePtr, opGetFree, opSetFree, opGetLocalPtr, opSetSelFree, opGetBuiltin, opClosure, opIteratorInit, opIteratorNext, opIteratorKey, opIteratorValue, opBinaryOp, opSuspend]


/-- **Every simple instruction of a verified function is safe**: it cannot fault, and it leaves the
frame at an instruction boundary whose tabulated height matches the stack pointer. -/
theorem execSimple_step {i : Instr} (ctx : AtInstr code t G f ft fr r i h)
    (hnc : i.op ≠ opCall) (hnr : i.op ≠ opReturn) (hns : i.op ≠ opSuspend) :
    SafeX (execSimple code fr (A0 i.args) (A1 i.args) i.op r) (SimpleGoal code t G f ft fr r i) := by
  obtain ⟨pos, op, args⟩ := i
  dsimp only at hnc hnr hns ⊢
  by_cases hConstant : op = opConstant
  · subst hConstant; rw [execSimple_Constant]; exact step_Constant ctx
  by_cases hNull : op = opNull
  · subst hNull; rw [execSimple_Null]; exact step_Null ctx
  by_cases hTrue : op = opTrue
  · subst hTrue; rw [execSimple_True]; exact step_True ctx
  by_cases hFalse : op = opFalse
  · subst hFalse; rw [execSimple_False]; exact step_False ctx
  by_cases hPop : op = opPop
  · subst hPop; rw [execSimple_Pop]; exact step_Pop ctx
  by_cases hBinaryOp : op = opBinaryOp
  · subst hBinaryOp; rw [execSimple_BinaryOp]; exact step_BinaryOp ctx
  by_cases hEqual : op = opEqual
  · subst hEqual; rw [execSimple_Equal]; exact step_Equal ctx
  by_cases hNotEqual : op = opNotEqual
  · subst hNotEqual; rw [execSimple_NotEqual]; exact step_NotEqual ctx
  by_cases hLNot : op = opLNot
  · subst hLNot; rw [execSimple_LNot]; exact step_LNot ctx
  by_cases hBComplement : op = opBComplement
  · subst hBComplement; rw [execSimple_BComplement]; exact step_BComplement ctx
  by_cases hMinus : op = opMinus
  · subst hMinus; rw [execSimple_Minus]; exact step_Minus ctx
  by_cases hJumpFalsy : op = opJumpFalsy
  · subst hJumpFalsy; rw [execSimple_JumpFalsy]; exact step_JumpFalsy ctx
  by_cases hAndJump : op = opAndJump
  · subst hAndJump; rw [execSimple_AndJump]; exact step_AndJump ctx
  by_cases hOrJump : op = opOrJump
  · subst hOrJump; rw [execSimple_OrJump]; exact step_OrJump ctx
  by_cases hJump : op = opJump
  · subst hJump; rw [execSimple_Jump]; exact step_Jump ctx
  by_cases hSetGlobal : op = opSetGlobal
  · subst hSetGlobal; rw [execSimple_SetGlobal]; exact step_SetGlobal ctx
  by_cases hGetGlobal : op = opGetGlobal
  · subst hGetGlobal; rw [execSimple_GetGlobal]; exact step_GetGlobal ctx
  by_cases hSetSelGlobal : op = opSetSelGlobal
  · subst hSetSelGlobal; rw [execSimple_SetSelGlobal]; exact step_SetSelGlobal ctx
  by_cases hArray : op = opArray
  · subst hArray; rw [execSimple_Array]; exact step_Array ctx
  by_cases hMap : op = opMap
  · subst hMap; rw [execSimple_Map]; exact step_Map ctx
  by_cases hError : op = opError
  · subst hError; rw [execSimple_Error]; exact step_Error ctx
  by_cases hImmutable : op = opImmutable
  · subst hImmutable; rw [execSimple_Immutable]; exact step_Immutable ctx
  by_cases hIndex : op = opIndex
  · subst hIndex; rw [execSimple_Index]; exact step_Index ctx
  by_cases hSliceIndex : op = opSliceIndex
  · subst hSliceIndex; rw [execSimple_SliceIndex]; exact step_SliceIndex ctx
  by_cases hDefineLocal : op = opDefineLocal
  · subst hDefineLocal; rw [execSimple_DefineLocal]; exact step_DefineLocal ctx
  by_cases hSetLocal : op = opSetLocal
  · subst hSetLocal; rw [execSimple_SetLocal]; exact step_SetLocal ctx
  by_cases hSetSelLocal : op = opSetSelLocal
  · subst hSetSelLocal; rw [execSimple_SetSelLocal]; exact step_SetSelLocal ctx
  by_cases hGetLocal : op = opGetLocal
  · subst hGetLocal; rw [execSimple_GetLocal]; exact step_GetLocal ctx
  by_cases hGetBuiltin : op = opGetBuiltin
  · subst hGetBuiltin; rw [execSimple_GetBuiltin]; exact step_GetBuiltin ctx
  by_cases hClosure : op = opClosure
  · subst hClosure; rw [execSimple_Closure]; exact step_Closure ctx
  by_cases hGetFreePtr : op = opGetFreePtr
  · subst hGetFreePtr; rw [execSimple_GetFreePtr]; exact step_GetFreePtr ctx
  by_cases hGetFree : op = opGetFree
  · subst hGetFree; rw [execSimple_GetFree]; exact step_GetFree ctx
  by_cases hSetFree : op = opSetFree
  · subst hSetFree; rw [execSimple_SetFree]; exact step_SetFree ctx
  by_cases hGetLocalPtr : op = opGetLocalPtr
  · subst hGetLocalPtr; rw [execSimple_GetLocalPtr]; exact step_GetLocalPtr ctx
  by_cases hSetSelFree : op = opSetSelFree
  · subst hSetSelFree; rw [execSimple_SetSelFree]; exact step_SetSelFree ctx
  by_cases hIteratorInit : op = opIteratorInit
  · subst hIteratorInit; rw [execSimple_IteratorInit]; exact step_IteratorInit ctx
  by_cases hIteratorNext : op = opIteratorNext
  · subst hIteratorNext; rw [execSimple_IteratorNext]; exact step_IteratorNext ctx
  by_cases hIteratorKey : op = opIteratorKey
  · subst hIteratorKey; rw [execSimple_IteratorKey]; exact step_IteratorKey ctx
  by_cases hIteratorValue : op = opIteratorValue
  · subst hIteratorValue; rw [execSimple_IteratorValue]; exact step_IteratorValue ctx
  -- no opcode matched: the verifier would have rejected the instruction
  exfalso
  obtain ⟨l, hl, _⟩ := ctx.succs_ok
  have : succs ⟨pos, op, args⟩ h = none := by
    simp [succs, stackEffect, *]
  rw [this] at hl
  cases hl

end
end Tengo.Model.VM

import Tengo.Proofs.VMSafeCtx
set_option linter.unusedSimpArgs false
namespace Tengo.Model.VM
open Tengo.Model Tengo.Model.Spec Tengo.Model.Opcodes Tengo.Model.Verifier

macro "succs_simp" : tactic => `(tactic| simp [succs, stackEffect, Instr.size,
  opConstant, opBComplement, opPop, opTrue, opFalse, opEqual, opNotEqual, opMinus, opLNot, opJumpFalsy, opAndJump,
  opOrJump, opJump, opNull, opArray, opMap, opError, opImmutable, opIndex, opSliceIndex, opCall, opReturn,
  opGetGlobal, opSetGlobal, opSetSelGlobal, opGetLocal, opSetLocal, opDefineLocal, opSetSelLocal, opGetFreePtr,
  opGetFree, opSetFree, opGetLocalPtr, opSetSelFree, opGetBuiltin, opClosure, opIteratorInit, opIteratorNext,
  opIteratorKey, opIteratorValue, opBinaryOp, opSuspend])

/-- How a dispatch may change the function objects: not at all, or by one well-formed closure. -/
def FobjsStep (code : Code) (t : ProgTabs) (fo fo' : Array FnObj) : Prop :=
  fo' = fo ∨ ∃ k free fn ref, fo' = fo.push (k, free) ∧ code.consts[k]? = some (.fn fn ref) ∧
    t.numFree.lookup k = some free.length

def SimpleGoal (code : Code) (t : ProgTabs) (G : Nat) (f : Fn) (ft : FnTab) (fr : Frame) (r : Regs) (o : SimpleOut) : Prop :=
  Landed ft f fr G o ∧ FobjsStep code t r.fobjs o.regs.fobjs

section
variable {code : Code} {t : ProgTabs} {G : Nat} {f : Fn} {ft : FnTab} {fr : Frame} {r : Regs} {pos : Nat}
  {args : List Nat} {h : Nat}

theorem step_Null (ctx : AtInstr code t G f ft fr r ⟨pos, opNull, args⟩ h) :
    SafeX (exNull code f fr pos opNull r) (SimpleGoal code t G f ft fr r) := by
  have hs : succs ⟨pos, opNull, args⟩ h = if h < 0 then none else some [(pos + (1 + 0), h - 0 + 1)] := by succs_simp
  obtain ⟨hle, hfin⟩ := ctx.plain 0 1 0 hs
  refine SafeX_mono (exNull_spec code f fr pos opNull r ) ?_
  rintro o ⟨he, hip⟩
  obtain ⟨hl, hf⟩ := hfin o he (by simpa using hip)
  exact ⟨hl, Or.inl hf⟩

theorem step_True (ctx : AtInstr code t G f ft fr r ⟨pos, opTrue, args⟩ h) :
    SafeX (exTrue code f fr pos opTrue r) (SimpleGoal code t G f ft fr r) := by
  have hs : succs ⟨pos, opTrue, args⟩ h = if h < 0 then none else some [(pos + (1 + 0), h - 0 + 1)] := by succs_simp
  obtain ⟨hle, hfin⟩ := ctx.plain 0 1 0 hs
  refine SafeX_mono (exTrue_spec code f fr pos opTrue r ) ?_
  rintro o ⟨he, hip⟩
  obtain ⟨hl, hf⟩ := hfin o he (by simpa using hip)
  exact ⟨hl, Or.inl hf⟩

theorem step_False (ctx : AtInstr code t G f ft fr r ⟨pos, opFalse, args⟩ h) :
    SafeX (exFalse code f fr pos opFalse r) (SimpleGoal code t G f ft fr r) := by
  have hs : succs ⟨pos, opFalse, args⟩ h = if h < 0 then none else some [(pos + (1 + 0), h - 0 + 1)] := by succs_simp
  obtain ⟨hle, hfin⟩ := ctx.plain 0 1 0 hs
  refine SafeX_mono (exFalse_spec code f fr pos opFalse r ) ?_
  rintro o ⟨he, hip⟩
  obtain ⟨hl, hf⟩ := hfin o he (by simpa using hip)
  exact ⟨hl, Or.inl hf⟩

theorem step_Pop (ctx : AtInstr code t G f ft fr r ⟨pos, opPop, args⟩ h) :
    SafeX (exPop code f fr pos opPop r) (SimpleGoal code t G f ft fr r) := by
  have hs : succs ⟨pos, opPop, args⟩ h = if h < 1 then none else some [(pos + (1 + 0), h - 1 + 0)] := by succs_simp
  obtain ⟨hle, hfin⟩ := ctx.plain 1 0 0 hs
  refine SafeX_mono (exPop_spec code f fr pos opPop r (by have := ctx.spEq; omega)) ?_
  rintro o ⟨he, hip⟩
  obtain ⟨hl, hf⟩ := hfin o he (by simpa using hip)
  exact ⟨hl, Or.inl hf⟩

theorem step_Equal (ctx : AtInstr code t G f ft fr r ⟨pos, opEqual, args⟩ h) :
    SafeX (exEqual code f fr pos opEqual r) (SimpleGoal code t G f ft fr r) := by
  have hs : succs ⟨pos, opEqual, args⟩ h = if h < 2 then none else some [(pos + (1 + 0), h - 2 + 1)] := by succs_simp
  obtain ⟨hle, hfin⟩ := ctx.plain 2 1 0 hs
  refine SafeX_mono (exEqual_spec code f fr pos opEqual r (by have := ctx.spEq; omega)) ?_
  rintro o ⟨he, hip⟩
  obtain ⟨hl, hf⟩ := hfin o he (by simpa using hip)
  exact ⟨hl, Or.inl hf⟩

theorem step_NotEqual (ctx : AtInstr code t G f ft fr r ⟨pos, opNotEqual, args⟩ h) :
    SafeX (exEqual code f fr pos opNotEqual r) (SimpleGoal code t G f ft fr r) := by
  have hs : succs ⟨pos, opNotEqual, args⟩ h = if h < 2 then none else some [(pos + (1 + 0), h - 2 + 1)] := by succs_simp
  obtain ⟨hle, hfin⟩ := ctx.plain 2 1 0 hs
  refine SafeX_mono (exEqual_spec code f fr pos opNotEqual r (by have := ctx.spEq; omega)) ?_
  rintro o ⟨he, hip⟩
  obtain ⟨hl, hf⟩ := hfin o he (by simpa using hip)
  exact ⟨hl, Or.inl hf⟩

theorem step_LNot (ctx : AtInstr code t G f ft fr r ⟨pos, opLNot, args⟩ h) :
    SafeX (exLNot code f fr pos opLNot r) (SimpleGoal code t G f ft fr r) := by
  have hs : succs ⟨pos, opLNot, args⟩ h = if h < 1 then none else some [(pos + (1 + 0), h - 1 + 1)] := by succs_simp
  obtain ⟨hle, hfin⟩ := ctx.plain 1 1 0 hs
  refine SafeX_mono (exLNot_spec code f fr pos opLNot r (by have := ctx.spEq; omega)) ?_
  rintro o ⟨he, hip⟩
  obtain ⟨hl, hf⟩ := hfin o he (by simpa using hip)
  exact ⟨hl, Or.inl hf⟩

theorem step_BComplement (ctx : AtInstr code t G f ft fr r ⟨pos, opBComplement, args⟩ h) :
    SafeX (exBComplement code f fr pos opBComplement r) (SimpleGoal code t G f ft fr r) := by
  have hs : succs ⟨pos, opBComplement, args⟩ h = if h < 1 then none else some [(pos + (1 + 0), h - 1 + 1)] := by succs_simp
  obtain ⟨hle, hfin⟩ := ctx.plain 1 1 0 hs
  refine SafeX_mono (exBComplement_spec code f fr pos opBComplement r (by have := ctx.spEq; omega)) ?_
  rintro o ⟨he, hip⟩
  obtain ⟨hl, hf⟩ := hfin o he (by simpa using hip)
  exact ⟨hl, Or.inl hf⟩

theorem step_Minus (ctx : AtInstr code t G f ft fr r ⟨pos, opMinus, args⟩ h) :
    SafeX (exMinus code f fr pos opMinus r) (SimpleGoal code t G f ft fr r) := by
  have hs : succs ⟨pos, opMinus, args⟩ h = if h < 1 then none else some [(pos + (1 + 0), h - 1 + 1)] := by succs_simp
  obtain ⟨hle, hfin⟩ := ctx.plain 1 1 0 hs
  refine SafeX_mono (exMinus_spec code f fr pos opMinus r (by have := ctx.spEq; omega)) ?_
  rintro o ⟨he, hip⟩
  obtain ⟨hl, hf⟩ := hfin o he (by simpa using hip)
  exact ⟨hl, Or.inl hf⟩

theorem step_Error (ctx : AtInstr code t G f ft fr r ⟨pos, opError, args⟩ h) :
    SafeX (exError code f fr pos opError r) (SimpleGoal code t G f ft fr r) := by
  have hs : succs ⟨pos, opError, args⟩ h = if h < 1 then none else some [(pos + (1 + 0), h - 1 + 1)] := by succs_simp
  obtain ⟨hle, hfin⟩ := ctx.plain 1 1 0 hs
  refine SafeX_mono (exError_spec code f fr pos opError r (by have := ctx.spEq; omega)) ?_
  rintro o ⟨he, hip⟩
  obtain ⟨hl, hf⟩ := hfin o he (by simpa using hip)
  exact ⟨hl, Or.inl hf⟩

theorem step_Immutable (ctx : AtInstr code t G f ft fr r ⟨pos, opImmutable, args⟩ h) :
    SafeX (exImmutable code f fr pos opImmutable r) (SimpleGoal code t G f ft fr r) := by
  have hs : succs ⟨pos, opImmutable, args⟩ h = if h < 1 then none else some [(pos + (1 + 0), h - 1 + 1)] := by succs_simp
  obtain ⟨hle, hfin⟩ := ctx.plain 1 1 0 hs
  refine SafeX_mono (exImmutable_spec code f fr pos opImmutable r (by have := ctx.spEq; omega)) ?_
  rintro o ⟨he, hip⟩
  obtain ⟨hl, hf⟩ := hfin o he (by simpa using hip)
  exact ⟨hl, Or.inl hf⟩

theorem step_Index (ctx : AtInstr code t G f ft fr r ⟨pos, opIndex, args⟩ h) :
    SafeX (exIndex code f fr pos opIndex r) (SimpleGoal code t G f ft fr r) := by
  have hs : succs ⟨pos, opIndex, args⟩ h = if h < 2 then none else some [(pos + (1 + 0), h - 2 + 1)] := by succs_simp
  obtain ⟨hle, hfin⟩ := ctx.plain 2 1 0 hs
  refine SafeX_mono (exIndex_spec code f fr pos opIndex r (by have := ctx.spEq; omega)) ?_
  rintro o ⟨he, hip⟩
  obtain ⟨hl, hf⟩ := hfin o he (by simpa using hip)
  exact ⟨hl, Or.inl hf⟩

theorem step_SliceIndex (ctx : AtInstr code t G f ft fr r ⟨pos, opSliceIndex, args⟩ h) :
    SafeX (exSliceIndex code f fr pos opSliceIndex r) (SimpleGoal code t G f ft fr r) := by
  have hs : succs ⟨pos, opSliceIndex, args⟩ h = if h < 3 then none else some [(pos + (1 + 0), h - 3 + 1)] := by succs_simp
  obtain ⟨hle, hfin⟩ := ctx.plain 3 1 0 hs
  refine SafeX_mono (exSliceIndex_spec code f fr pos opSliceIndex r (by have := ctx.spEq; omega)) ?_
  rintro o ⟨he, hip⟩
  obtain ⟨hl, hf⟩ := hfin o he (by simpa using hip)
  exact ⟨hl, Or.inl hf⟩

theorem step_IteratorInit (ctx : AtInstr code t G f ft fr r ⟨pos, opIteratorInit, args⟩ h) :
    SafeX (exIteratorInit code f fr pos opIteratorInit r) (SimpleGoal code t G f ft fr r) := by
  have hs : succs ⟨pos, opIteratorInit, args⟩ h = if h < 1 then none else some [(pos + (1 + 0), h - 1 + 1)] := by succs_simp
  obtain ⟨hle, hfin⟩ := ctx.plain 1 1 0 hs
  refine SafeX_mono (exIteratorInit_spec code f fr pos opIteratorInit r (by have := ctx.spEq; omega)) ?_
  rintro o ⟨he, hip⟩
  obtain ⟨hl, hf⟩ := hfin o he (by simpa using hip)
  exact ⟨hl, Or.inl hf⟩

theorem step_IteratorNext (ctx : AtInstr code t G f ft fr r ⟨pos, opIteratorNext, args⟩ h) :
    SafeX (exIteratorNext code f fr pos opIteratorNext r) (SimpleGoal code t G f ft fr r) := by
  have hs : succs ⟨pos, opIteratorNext, args⟩ h = if h < 1 then none else some [(pos + (1 + 0), h - 1 + 1)] := by succs_simp
  obtain ⟨hle, hfin⟩ := ctx.plain 1 1 0 hs
  refine SafeX_mono (exIteratorNext_spec code f fr pos opIteratorNext r (by have := ctx.spEq; omega)) ?_
  rintro o ⟨he, hip⟩
  obtain ⟨hl, hf⟩ := hfin o he (by simpa using hip)
  exact ⟨hl, Or.inl hf⟩

theorem step_IteratorKey (ctx : AtInstr code t G f ft fr r ⟨pos, opIteratorKey, args⟩ h) :
    SafeX (exIteratorKey code f fr pos opIteratorKey r) (SimpleGoal code t G f ft fr r) := by
  have hs : succs ⟨pos, opIteratorKey, args⟩ h = if h < 1 then none else some [(pos + (1 + 0), h - 1 + 1)] := by succs_simp
  obtain ⟨hle, hfin⟩ := ctx.plain 1 1 0 hs
  refine SafeX_mono (exIteratorKey_spec code f fr pos opIteratorKey r (by have := ctx.spEq; omega)) ?_
  rintro o ⟨he, hip⟩
  obtain ⟨hl, hf⟩ := hfin o he (by simpa using hip)
  exact ⟨hl, Or.inl hf⟩

theorem step_IteratorValue (ctx : AtInstr code t G f ft fr r ⟨pos, opIteratorValue, args⟩ h) :
    SafeX (exIteratorKey code f fr pos opIteratorValue r) (SimpleGoal code t G f ft fr r) := by
  have hs : succs ⟨pos, opIteratorValue, args⟩ h = if h < 1 then none else some [(pos + (1 + 0), h - 1 + 1)] := by succs_simp
  obtain ⟨hle, hfin⟩ := ctx.plain 1 1 0 hs
  refine SafeX_mono (exIteratorKey_spec code f fr pos opIteratorValue r (by have := ctx.spEq; omega)) ?_
  rintro o ⟨he, hip⟩
  obtain ⟨hl, hf⟩ := hfin o he (by simpa using hip)
  exact ⟨hl, Or.inl hf⟩

theorem step_BinaryOp (ctx : AtInstr code t G f ft fr r ⟨pos, opBinaryOp, args⟩ h) :
    SafeX (exBinaryOp code f fr pos opBinaryOp r) (SimpleGoal code t G f ft fr r) := by
  have hs : succs ⟨pos, opBinaryOp, args⟩ h = if h < 2 then none else some [(pos + (1 + 1), h - 2 + 1)] := by succs_simp
  obtain ⟨hle, hfin⟩ := ctx.plain 2 1 1 hs
  refine SafeX_mono (exBinaryOp_spec code f fr pos opBinaryOp r (by have := ctx.spEq; omega)) ?_
  rintro o ⟨he, hip⟩
  obtain ⟨hl, hf⟩ := hfin o he (by simpa using hip)
  exact ⟨hl, Or.inl hf⟩

theorem step_DefineLocal (ctx : AtInstr code t G f ft fr r ⟨pos, opDefineLocal, args⟩ h) :
    SafeX (exDefineLocal code f fr pos opDefineLocal r) (SimpleGoal code t G f ft fr r) := by
  have hs : succs ⟨pos, opDefineLocal, args⟩ h = if h < 1 then none else some [(pos + (1 + 1), h - 1 + 0)] := by succs_simp
  obtain ⟨hle, hfin⟩ := ctx.plain 1 0 1 hs
  refine SafeX_mono (exDefineLocal_spec code f fr pos opDefineLocal r (by have := ctx.spEq; omega)) ?_
  rintro o ⟨he, hip⟩
  obtain ⟨hl, hf⟩ := hfin o he (by simpa using hip)
  exact ⟨hl, Or.inl hf⟩

theorem step_SetLocal (ctx : AtInstr code t G f ft fr r ⟨pos, opSetLocal, args⟩ h) :
    SafeX (exSetLocal code f fr pos opSetLocal r) (SimpleGoal code t G f ft fr r) := by
  have hs : succs ⟨pos, opSetLocal, args⟩ h = if h < 1 then none else some [(pos + (1 + 1), h - 1 + 0)] := by succs_simp
  obtain ⟨hle, hfin⟩ := ctx.plain 1 0 1 hs
  refine SafeX_mono (exSetLocal_spec code f fr pos opSetLocal r (by have := ctx.spEq; omega)) ?_
  rintro o ⟨he, hip⟩
  obtain ⟨hl, hf⟩ := hfin o he (by simpa using hip)
  exact ⟨hl, Or.inl hf⟩

theorem step_GetLocal (ctx : AtInstr code t G f ft fr r ⟨pos, opGetLocal, args⟩ h) :
    SafeX (exGetLocal code f fr pos opGetLocal r) (SimpleGoal code t G f ft fr r) := by
  have hs : succs ⟨pos, opGetLocal, args⟩ h = if h < 0 then none else some [(pos + (1 + 1), h - 0 + 1)] := by succs_simp
  obtain ⟨hle, hfin⟩ := ctx.plain 0 1 1 hs
  refine SafeX_mono (exGetLocal_spec code f fr pos opGetLocal r ) ?_
  rintro o ⟨he, hip⟩
  obtain ⟨hl, hf⟩ := hfin o he (by simpa using hip)
  exact ⟨hl, Or.inl hf⟩

theorem step_GetLocalPtr (ctx : AtInstr code t G f ft fr r ⟨pos, opGetLocalPtr, args⟩ h) :
    SafeX (exGetLocalPtr code f fr pos opGetLocalPtr r) (SimpleGoal code t G f ft fr r) := by
  have hs : succs ⟨pos, opGetLocalPtr, args⟩ h = if h < 0 then none else some [(pos + (1 + 1), h - 0 + 1)] := by succs_simp
  obtain ⟨hle, hfin⟩ := ctx.plain 0 1 1 hs
  refine SafeX_mono (exGetLocalPtr_spec code f fr pos opGetLocalPtr r ) ?_
  rintro o ⟨he, hip⟩
  obtain ⟨hl, hf⟩ := hfin o he (by simpa using hip)
  exact ⟨hl, Or.inl hf⟩

theorem step_Array (ctx : AtInstr code t G f ft fr r ⟨pos, opArray, args⟩ h) :
    SafeX (exArray code f fr pos opArray r) (SimpleGoal code t G f ft fr r) := by
  have ha : args = [op16 f pos] := link16 f ft.is ctx.dec _ ctx.mem (by simp [opArray])
  subst ha
  have hs : succs ⟨pos, opArray, [op16 f pos]⟩ h =
      if h < op16 f pos then none else some [(pos + (1 + 2), h - op16 f pos + 1)] := by succs_simp
  obtain ⟨hle, hfin⟩ := ctx.plain _ 1 2 hs
  refine SafeX_mono (exArray_spec code f fr pos opArray r (by have := ctx.spEq; omega)) ?_
  rintro o ⟨he, hip⟩
  obtain ⟨hl, hf⟩ := hfin o he (by simpa using hip)
  exact ⟨hl, Or.inl hf⟩


macro "opd_simp" "at" h:ident : tactic => `(tactic| simp [operandOk, envOf, constIsFn,
  opConstant, opBComplement, opPop, opTrue, opFalse, opEqual, opNotEqual, opMinus, opLNot, opJumpFalsy, opAndJump,
  opOrJump, opJump, opNull, opArray, opMap, opError, opImmutable, opIndex, opSliceIndex, opCall, opReturn,
  opGetGlobal, opSetGlobal, opSetSelGlobal, opGetLocal, opSetLocal, opDefineLocal, opSetSelLocal, opGetFreePtr,
  opGetFree, opSetFree, opGetLocalPtr, opSetSelFree, opGetBuiltin, opClosure, opIteratorInit, opIteratorNext,
  opIteratorKey, opIteratorValue, opBinaryOp, opSuspend] at $h:ident)

theorem step_Map (ctx : AtInstr code t G f ft fr r ⟨pos, opMap, args⟩ h) :
    SafeX (exMap code f fr pos opMap r) (SimpleGoal code t G f ft fr r) := by
  have ha : args = [op16 f pos] := link16 f ft.is ctx.dec _ ctx.mem (by simp [opMap])
  subst ha
  have hs : succs ⟨pos, opMap, [op16 f pos]⟩ h =
      if h < op16 f pos then none else some [(pos + (1 + 2), h - op16 f pos + 1)] := by succs_simp
  obtain ⟨hle, hfin⟩ := ctx.plain _ 1 2 hs
  refine SafeX_mono (exMap_spec code f fr pos opMap r (by have := ctx.spEq; omega)) ?_
  rintro o ⟨he, hip⟩
  obtain ⟨hl, hf⟩ := hfin o he (by simpa using hip)
  exact ⟨hl, Or.inl hf⟩

theorem step_Constant (ctx : AtInstr code t G f ft fr r ⟨pos, opConstant, args⟩ h) :
    SafeX (exConstant code f fr pos opConstant r) (SimpleGoal code t G f ft fr r) := by
  have ha : args = [op16 f pos] := link16 f ft.is ctx.dec _ ctx.mem (by simp [opConstant])
  subst ha
  have hs : succs ⟨pos, opConstant, [op16 f pos]⟩ h = if h < 0 then none else some [(pos + (1 + 2), h - 0 + 1)] := by succs_simp
  obtain ⟨hle, hfin⟩ := ctx.plain 0 1 2 hs
  have hopd := ctx.opd
  opd_simp at hopd
  refine SafeX_mono (exConstant_spec code f fr pos opConstant r (by simpa using hopd)) ?_
  rintro o ⟨he, hip⟩
  obtain ⟨hl, hf⟩ := hfin o he (by simpa using hip)
  exact ⟨hl, Or.inl hf⟩

theorem step_GetGlobal (ctx : AtInstr code t G f ft fr r ⟨pos, opGetGlobal, args⟩ h) :
    SafeX (exGetGlobal code f fr pos opGetGlobal r) (SimpleGoal code t G f ft fr r) := by
  have ha : args = [op16 f pos] := link16 f ft.is ctx.dec _ ctx.mem (by simp [opGetGlobal])
  subst ha
  have hs : succs ⟨pos, opGetGlobal, [op16 f pos]⟩ h = if h < 0 then none else some [(pos + (1 + 2), h - 0 + 1)] := by succs_simp
  obtain ⟨hle, hfin⟩ := ctx.plain 0 1 2 hs
  have hopd := ctx.opd
  opd_simp at hopd
  refine SafeX_mono (exGetGlobal_spec code f fr pos opGetGlobal r (by rw [ctx.gl]; exact hopd)) ?_
  rintro o ⟨he, hip⟩
  obtain ⟨hl, hf⟩ := hfin o he (by simpa using hip)
  exact ⟨hl, Or.inl hf⟩

theorem step_SetGlobal (ctx : AtInstr code t G f ft fr r ⟨pos, opSetGlobal, args⟩ h) :
    SafeX (exSetGlobal code f fr pos opSetGlobal r) (SimpleGoal code t G f ft fr r) := by
  have ha : args = [op16 f pos] := link16 f ft.is ctx.dec _ ctx.mem (by simp [opSetGlobal])
  subst ha
  have hs : succs ⟨pos, opSetGlobal, [op16 f pos]⟩ h = if h < 1 then none else some [(pos + (1 + 2), h - 1 + 0)] := by succs_simp
  obtain ⟨hle, hfin⟩ := ctx.plain 1 0 2 hs
  have hopd := ctx.opd
  opd_simp at hopd
  refine SafeX_mono (exSetGlobal_spec code f fr pos opSetGlobal r (by have := ctx.spEq; omega) (by rw [ctx.gl]; exact hopd)) ?_
  rintro o ⟨he, hip⟩
  obtain ⟨hl, hf⟩ := hfin o he (by simpa using hip)
  exact ⟨hl, Or.inl hf⟩

theorem step_SetSelGlobal (ctx : AtInstr code t G f ft fr r ⟨pos, opSetSelGlobal, args⟩ h) :
    SafeX (exSetSelGlobal code f fr pos opSetSelGlobal r) (SimpleGoal code t G f ft fr r) := by
  have ha : args = [op16 f pos, byteAt f ((pos : Int) + 3)] := link16_8 f ft.is ctx.dec _ ctx.mem (by simp [opSetSelGlobal])
  subst ha
  have hs : succs ⟨pos, opSetSelGlobal, [op16 f pos, byteAt f ((pos : Int) + 3)]⟩ h =
      if h < byteAt f ((pos : Int) + 3) + 1 then none else some [(pos + (1 + 3), h - (byteAt f ((pos : Int) + 3) + 1) + 0)] := by succs_simp
  obtain ⟨hle, hfin⟩ := ctx.plain _ 0 3 hs
  have hopd := ctx.opd
  opd_simp at hopd
  refine SafeX_mono (exSetSelGlobal_spec code f fr pos opSetSelGlobal r (by have := ctx.spEq; omega) (by rw [ctx.gl]; exact hopd)) ?_
  rintro o ⟨he, hip⟩
  obtain ⟨hl, hf⟩ := hfin o he (by simpa using hip)
  exact ⟨hl, Or.inl hf⟩

theorem step_SetSelLocal (ctx : AtInstr code t G f ft fr r ⟨pos, opSetSelLocal, args⟩ h) :
    SafeX (exSetSelLocal code f fr pos opSetSelLocal r) (SimpleGoal code t G f ft fr r) := by
  have ha : args = [byteAt f ((pos : Int) + 1), byteAt f ((pos : Int) + 2)] := link8_8 f ft.is ctx.dec _ ctx.mem (by simp [opSetSelLocal])
  subst ha
  have hs : succs ⟨pos, opSetSelLocal, [byteAt f ((pos : Int) + 1), byteAt f ((pos : Int) + 2)]⟩ h =
      if h < byteAt f ((pos : Int) + 2) + 1 then none else some [(pos + (1 + 2), h - (byteAt f ((pos : Int) + 2) + 1) + 0)] := by succs_simp
  obtain ⟨hle, hfin⟩ := ctx.plain _ 0 2 hs
  refine SafeX_mono (exSetSelLocal_spec code f fr pos opSetSelLocal r (by have := ctx.spEq; omega)) ?_
  rintro o ⟨he, hip⟩
  obtain ⟨hl, hf⟩ := hfin o he (by simpa using hip)
  exact ⟨hl, Or.inl hf⟩

theorem step_GetBuiltin (ctx : AtInstr code t G f ft fr r ⟨pos, opGetBuiltin, args⟩ h) :
    SafeX (exGetBuiltin code f fr pos opGetBuiltin r) (SimpleGoal code t G f ft fr r) := by
  have ha : args = [byteAt f ((pos : Int) + 1)] := link8 f ft.is ctx.dec _ ctx.mem (by simp [opGetBuiltin])
  subst ha
  have hs : succs ⟨pos, opGetBuiltin, [byteAt f ((pos : Int) + 1)]⟩ h = if h < 0 then none else some [(pos + (1 + 1), h - 0 + 1)] := by succs_simp
  obtain ⟨hle, hfin⟩ := ctx.plain 0 1 1 hs
  have hopd := ctx.opd
  opd_simp at hopd
  refine SafeX_mono (exGetBuiltin_spec code f fr pos opGetBuiltin r (by simpa using hopd)) ?_
  rintro o ⟨he, hip⟩
  obtain ⟨hl, hf⟩ := hfin o he (by simpa using hip)
  exact ⟨hl, Or.inl hf⟩

theorem step_GetFreePtr (ctx : AtInstr code t G f ft fr r ⟨pos, opGetFreePtr, args⟩ h) :
    SafeX (exGetFreePtr code f fr pos opGetFreePtr r) (SimpleGoal code t G f ft fr r) := by
  have ha : args = [byteAt f ((pos : Int) + 1)] := link8 f ft.is ctx.dec _ ctx.mem (by simp [opGetFreePtr])
  subst ha
  have hs : succs ⟨pos, opGetFreePtr, [byteAt f ((pos : Int) + 1)]⟩ h = if h < 0 then none else some [(pos + (1 + 1), h - 0 + 1)] := by succs_simp
  obtain ⟨hle, hfin⟩ := ctx.plain 0 1 1 hs
  have hopd := ctx.opd
  opd_simp at hopd
  have hfree : (fr.free[byteAt f ((pos : Int) + 1)]?).isSome := by
    have hlt : byteAt f ((pos : Int) + 1) < fr.free.length := by rw [ctx.freeLen]; exact hopd
    simp [hlt]
  refine SafeX_mono (exGetFreePtr_spec code f fr pos opGetFreePtr r hfree) ?_
  rintro o ⟨he, hip⟩
  obtain ⟨hl, hf⟩ := hfin o he (by simpa using hip)
  exact ⟨hl, Or.inl hf⟩

theorem step_GetFree (ctx : AtInstr code t G f ft fr r ⟨pos, opGetFree, args⟩ h) :
    SafeX (exGetFree code f fr pos opGetFree r) (SimpleGoal code t G f ft fr r) := by
  have ha : args = [byteAt f ((pos : Int) + 1)] := link8 f ft.is ctx.dec _ ctx.mem (by simp [opGetFree])
  subst ha
  have hs : succs ⟨pos, opGetFree, [byteAt f ((pos : Int) + 1)]⟩ h = if h < 0 then none else some [(pos + (1 + 1), h - 0 + 1)] := by succs_simp
  obtain ⟨hle, hfin⟩ := ctx.plain 0 1 1 hs
  have hopd := ctx.opd
  opd_simp at hopd
  have hfree : (fr.free[byteAt f ((pos : Int) + 1)]?).isSome := by
    have hlt : byteAt f ((pos : Int) + 1) < fr.free.length := by rw [ctx.freeLen]; exact hopd
    simp [hlt]
  refine SafeX_mono (exGetFree_spec code f fr pos opGetFree r hfree) ?_
  rintro o ⟨he, hip⟩
  obtain ⟨hl, hf⟩ := hfin o he (by simpa using hip)
  exact ⟨hl, Or.inl hf⟩

theorem step_SetFree (ctx : AtInstr code t G f ft fr r ⟨pos, opSetFree, args⟩ h) :
    SafeX (exSetFree code f fr pos opSetFree r) (SimpleGoal code t G f ft fr r) := by
  have ha : args = [byteAt f ((pos : Int) + 1)] := link8 f ft.is ctx.dec _ ctx.mem (by simp [opSetFree])
  subst ha
  have hs : succs ⟨pos, opSetFree, [byteAt f ((pos : Int) + 1)]⟩ h = if h < 1 then none else some [(pos + (1 + 1), h - 1 + 0)] := by succs_simp
  obtain ⟨hle, hfin⟩ := ctx.plain 1 0 1 hs
  have hopd := ctx.opd
  opd_simp at hopd
  have hfree : (fr.free[byteAt f ((pos : Int) + 1)]?).isSome := by
    have hlt : byteAt f ((pos : Int) + 1) < fr.free.length := by rw [ctx.freeLen]; exact hopd
    simp [hlt]
  refine SafeX_mono (exSetFree_spec code f fr pos opSetFree r (by have := ctx.spEq; omega) hfree) ?_
  rintro o ⟨he, hip⟩
  obtain ⟨hl, hf⟩ := hfin o he (by simpa using hip)
  exact ⟨hl, Or.inl hf⟩

theorem step_SetSelFree (ctx : AtInstr code t G f ft fr r ⟨pos, opSetSelFree, args⟩ h) :
    SafeX (exSetSelFree code f fr pos opSetSelFree r) (SimpleGoal code t G f ft fr r) := by
  have ha : args = [byteAt f ((pos : Int) + 1), byteAt f ((pos : Int) + 2)] := link8_8 f ft.is ctx.dec _ ctx.mem (by simp [opSetSelFree])
  subst ha
  have hs : succs ⟨pos, opSetSelFree, [byteAt f ((pos : Int) + 1), byteAt f ((pos : Int) + 2)]⟩ h =
      if h < byteAt f ((pos : Int) + 2) + 1 then none else some [(pos + (1 + 2), h - (byteAt f ((pos : Int) + 2) + 1) + 0)] := by succs_simp
  obtain ⟨hle, hfin⟩ := ctx.plain _ 0 2 hs
  have hopd := ctx.opd
  opd_simp at hopd
  have hfree : (fr.free[byteAt f ((pos : Int) + 1)]?).isSome := by
    have hlt : byteAt f ((pos : Int) + 1) < fr.free.length := by rw [ctx.freeLen]; exact hopd
    simp [hlt]
  refine SafeX_mono (exSetSelFree_spec code f fr pos opSetSelFree r (by have := ctx.spEq; omega) hfree) ?_
  rintro o ⟨he, hip⟩
  obtain ⟨hl, hf⟩ := hfin o he (by simpa using hip)
  exact ⟨hl, Or.inl hf⟩

theorem step_Closure (ctx : AtInstr code t G f ft fr r ⟨pos, opClosure, args⟩ h) :
    SafeX (exClosure code f fr pos opClosure r) (SimpleGoal code t G f ft fr r) := by
  have ha : args = [op16 f pos, byteAt f ((pos : Int) + 3)] := link16_8 f ft.is ctx.dec _ ctx.mem (by simp [opClosure])
  subst ha
  have hs : succs ⟨pos, opClosure, [op16 f pos, byteAt f ((pos : Int) + 3)]⟩ h =
      if h < byteAt f ((pos : Int) + 3) then none else some [(pos + (1 + 3), h - byteAt f ((pos : Int) + 3) + 1)] := by succs_simp
  obtain ⟨l, hl, hall⟩ := ctx.succs_ok
  rw [hs] at hl
  split at hl
  · cases hl
  rename_i hge
  injection hl with hl
  subst hl
  obtain ⟨h1, h2⟩ := hall _ _ (List.mem_singleton.mpr rfl)
  have hopd := ctx.opd
  opd_simp at hopd
  have hext := ctx.ext
  simp [extraOk, opClosure] at hext
  -- the constant is a function
  have hk : ∃ fn ref, code.consts[op16 f pos]? = some (.fn fn ref) := by
    cases hc : code.consts[op16 f pos]? with
    | none => simp [hc] at hopd
    | some c =>
      cases c with
      | val v => simp [hc] at hopd
      | fn fn ref => exact ⟨fn, ref, rfl⟩
  obtain ⟨fn, ref, hk⟩ := hk
  refine SafeX_mono (exClosure_spec code f fr pos opClosure r (by have := ctx.spEq; omega) fn ref hk) ?_
  rintro o ⟨hsp, hgl, ⟨free, hfl, hfo⟩, hip⟩
  refine ⟨⟨_, _, h1, h2, ?_, ?_, ?_⟩, Or.inr ⟨_, free, fn, ref, hfo, hk, ?_⟩⟩
  · rw [hip]; push_cast; omega
  · have := ctx.spEq; omega
  · rw [hgl, ctx.gl]
  · rw [hfl]; exact hext


theorem step_Jump (ctx : AtInstr code t G f ft fr r ⟨pos, opJump, args⟩ h) :
    SafeX (exJump code f fr pos opJump r) (SimpleGoal code t G f ft fr r) := by
  have ha : args = [op32 f pos] := link32 f ft.is ctx.dec _ ctx.mem (by simp [opJump])
  subst ha
  have hs : succs ⟨pos, opJump, [op32 f pos]⟩ h = some [(op32 f pos, h)] := by succs_simp
  obtain ⟨l, hl, hall⟩ := ctx.succs_ok
  rw [hs] at hl
  injection hl with hl
  subst hl
  obtain ⟨h1, h2⟩ := hall _ _ (List.mem_singleton.mpr rfl)
  refine SafeX_mono (exJump_spec code f fr pos opJump r) ?_
  rintro o ⟨he, hip⟩
  refine ⟨⟨_, _, h1, h2, ?_, ?_, ?_⟩, Or.inl he.fo⟩
  · rw [hip]; simp
  · have := he.sp; have := ctx.spEq; omega
  · rw [he.gl, ctx.gl]

theorem step_JumpFalsy (ctx : AtInstr code t G f ft fr r ⟨pos, opJumpFalsy, args⟩ h) :
    SafeX (exJumpFalsy code f fr pos opJumpFalsy r) (SimpleGoal code t G f ft fr r) := by
  have ha : args = [op32 f pos] := link32 f ft.is ctx.dec _ ctx.mem (by simp [opJumpFalsy])
  subst ha
  have hs : succs ⟨pos, opJumpFalsy, [op32 f pos]⟩ h =
      if h < 1 then none else some [(op32 f pos, h - 1), (pos + (1 + 4), h - 1)] := by succs_simp
  obtain ⟨l, hl, hall⟩ := ctx.succs_ok
  rw [hs] at hl
  split at hl
  · cases hl
  rename_i hge
  injection hl with hl
  subst hl
  obtain ⟨a1, a2⟩ := hall (op32 f pos) (h - 1) (by simp)
  obtain ⟨b1, b2⟩ := hall (pos + (1 + 4)) (h - 1) (by simp)
  refine SafeX_mono (exJumpFalsy_spec code f fr pos opJumpFalsy r (by have := ctx.spEq; omega)) ?_
  rintro o ⟨he, hip⟩
  rcases hip with hip | hip
  · refine ⟨⟨_, _, a1, a2, ?_, ?_, ?_⟩, Or.inl he.fo⟩
    · rw [hip]; simp
    · have := he.sp; have := ctx.spEq; omega
    · rw [he.gl, ctx.gl]
  · refine ⟨⟨_, _, b1, b2, ?_, ?_, ?_⟩, Or.inl he.fo⟩
    · rw [hip]; push_cast; omega
    · have := he.sp; have := ctx.spEq; omega
    · rw [he.gl, ctx.gl]

theorem step_AndJump (ctx : AtInstr code t G f ft fr r ⟨pos, opAndJump, args⟩ h) :
    SafeX (exAndJump code f fr pos opAndJump r) (SimpleGoal code t G f ft fr r) := by
  have ha : args = [op32 f pos] := link32 f ft.is ctx.dec _ ctx.mem (by simp [opAndJump])
  subst ha
  have hs : succs ⟨pos, opAndJump, [op32 f pos]⟩ h =
      if h < 1 then none else some [(op32 f pos, h), (pos + (1 + 4), h - 1)] := by succs_simp
  obtain ⟨l, hl, hall⟩ := ctx.succs_ok
  rw [hs] at hl
  split at hl
  · cases hl
  rename_i hge
  injection hl with hl
  subst hl
  obtain ⟨a1, a2⟩ := hall (op32 f pos) h (by simp)
  obtain ⟨b1, b2⟩ := hall (pos + (1 + 4)) (h - 1) (by simp)
  refine SafeX_mono (exAndJump_spec code f fr pos opAndJump r (by have := ctx.spEq; omega)) ?_
  rintro o (⟨he, hip⟩ | ⟨he, hip⟩)
  · refine ⟨⟨_, _, a1, a2, ?_, ?_, ?_⟩, Or.inl he.fo⟩
    · rw [hip]; simp
    · have := he.sp; have := ctx.spEq; omega
    · rw [he.gl, ctx.gl]
  · refine ⟨⟨_, _, b1, b2, ?_, ?_, ?_⟩, Or.inl he.fo⟩
    · rw [hip]; push_cast; omega
    · have := he.sp; have := ctx.spEq; omega
    · rw [he.gl, ctx.gl]

theorem step_OrJump (ctx : AtInstr code t G f ft fr r ⟨pos, opOrJump, args⟩ h) :
    SafeX (exOrJump code f fr pos opOrJump r) (SimpleGoal code t G f ft fr r) := by
  have ha : args = [op32 f pos] := link32 f ft.is ctx.dec _ ctx.mem (by simp [opOrJump])
  subst ha
  have hs : succs ⟨pos, opOrJump, [op32 f pos]⟩ h =
      if h < 1 then none else some [(op32 f pos, h), (pos + (1 + 4), h - 1)] := by succs_simp
  obtain ⟨l, hl, hall⟩ := ctx.succs_ok
  rw [hs] at hl
  split at hl
  · cases hl
  rename_i hge
  injection hl with hl
  subst hl
  obtain ⟨a1, a2⟩ := hall (op32 f pos) h (by simp)
  obtain ⟨b1, b2⟩ := hall (pos + (1 + 4)) (h - 1) (by simp)
  refine SafeX_mono (exOrJump_spec code f fr pos opOrJump r (by have := ctx.spEq; omega)) ?_
  rintro o (⟨he, hip⟩ | ⟨he, hip⟩)
  · refine ⟨⟨_, _, a1, a2, ?_, ?_, ?_⟩, Or.inl he.fo⟩
    · rw [hip]; simp
    · have := he.sp; have := ctx.spEq; omega
    · rw [he.gl, ctx.gl]
  · refine ⟨⟨_, _, b1, b2, ?_, ?_, ?_⟩, Or.inl he.fo⟩
    · rw [hip]; push_cast; omega
    · have := he.sp; have := ctx.spEq; omega
    · rw [he.gl, ctx.gl]


theorem execSimple_Constant (code : Code) (f : Fn) (fr : Frame) (ip : Int) (r : Regs) :
    execSimple code f fr ip opConstant r = exConstant code f fr ip opConstant r := by
  simp [execSimple, opConstant, opBComplement, opPop, opTrue, opFalse, opEqual, opNotEqual, opMinus, opLNot, opJumpFalsy, opAndJump, opOrJump, opJump, opNull, opArray, opMap, opError, opImmutable, opIndex, opSliceIndex, opCall, opReturn, opGetGlobal, opSetGlobal, opSetSelGlobal, opGetLocal, opSetLocal, opDefineLocal, opSetSelLocal, opGetFreePtr, opGetFree, opSetFree, opGetLocalPtr, opSetSelFree, opGetBuiltin, opClosure, opIteratorInit, opIteratorNext, opIteratorKey, opIteratorValue, opBinaryOp, opSuspend]

theorem execSimple_Null (code : Code) (f : Fn) (fr : Frame) (ip : Int) (r : Regs) :
    execSimple code f fr ip opNull r = exNull code f fr ip opNull r := by
  simp [execSimple, opConstant, opBComplement, opPop, opTrue, opFalse, opEqual, opNotEqual, opMinus, opLNot, opJumpFalsy, opAndJump, opOrJump, opJump, opNull, opArray, opMap, opError, opImmutable, opIndex, opSliceIndex, opCall, opReturn, opGetGlobal, opSetGlobal, opSetSelGlobal, opGetLocal, opSetLocal, opDefineLocal, opSetSelLocal, opGetFreePtr, opGetFree, opSetFree, opGetLocalPtr, opSetSelFree, opGetBuiltin, opClosure, opIteratorInit, opIteratorNext, opIteratorKey, opIteratorValue, opBinaryOp, opSuspend]

theorem execSimple_True (code : Code) (f : Fn) (fr : Frame) (ip : Int) (r : Regs) :
    execSimple code f fr ip opTrue r = exTrue code f fr ip opTrue r := by
  simp [execSimple, opConstant, opBComplement, opPop, opTrue, opFalse, opEqual, opNotEqual, opMinus, opLNot, opJumpFalsy, opAndJump, opOrJump, opJump, opNull, opArray, opMap, opError, opImmutable, opIndex, opSliceIndex, opCall, opReturn, opGetGlobal, opSetGlobal, opSetSelGlobal, opGetLocal, opSetLocal, opDefineLocal, opSetSelLocal, opGetFreePtr, opGetFree, opSetFree, opGetLocalPtr, opSetSelFree, opGetBuiltin, opClosure, opIteratorInit, opIteratorNext, opIteratorKey, opIteratorValue, opBinaryOp, opSuspend]

theorem execSimple_False (code : Code) (f : Fn) (fr : Frame) (ip : Int) (r : Regs) :
    execSimple code f fr ip opFalse r = exFalse code f fr ip opFalse r := by
  simp [execSimple, opConstant, opBComplement, opPop, opTrue, opFalse, opEqual, opNotEqual, opMinus, opLNot, opJumpFalsy, opAndJump, opOrJump, opJump, opNull, opArray, opMap, opError, opImmutable, opIndex, opSliceIndex, opCall, opReturn, opGetGlobal, opSetGlobal, opSetSelGlobal, opGetLocal, opSetLocal, opDefineLocal, opSetSelLocal, opGetFreePtr, opGetFree, opSetFree, opGetLocalPtr, opSetSelFree, opGetBuiltin, opClosure, opIteratorInit, opIteratorNext, opIteratorKey, opIteratorValue, opBinaryOp, opSuspend]

theorem execSimple_Pop (code : Code) (f : Fn) (fr : Frame) (ip : Int) (r : Regs) :
    execSimple code f fr ip opPop r = exPop code f fr ip opPop r := by
  simp [execSimple, opConstant, opBComplement, opPop, opTrue, opFalse, opEqual, opNotEqual, opMinus, opLNot, opJumpFalsy, opAndJump, opOrJump, opJump, opNull, opArray, opMap, opError, opImmutable, opIndex, opSliceIndex, opCall, opReturn, opGetGlobal, opSetGlobal, opSetSelGlobal, opGetLocal, opSetLocal, opDefineLocal, opSetSelLocal, opGetFreePtr, opGetFree, opSetFree, opGetLocalPtr, opSetSelFree, opGetBuiltin, opClosure, opIteratorInit, opIteratorNext, opIteratorKey, opIteratorValue, opBinaryOp, opSuspend]

theorem execSimple_BinaryOp (code : Code) (f : Fn) (fr : Frame) (ip : Int) (r : Regs) :
    execSimple code f fr ip opBinaryOp r = exBinaryOp code f fr ip opBinaryOp r := by
  simp [execSimple, opConstant, opBComplement, opPop, opTrue, opFalse, opEqual, opNotEqual, opMinus, opLNot, opJumpFalsy, opAndJump, opOrJump, opJump, opNull, opArray, opMap, opError, opImmutable, opIndex, opSliceIndex, opCall, opReturn, opGetGlobal, opSetGlobal, opSetSelGlobal, opGetLocal, opSetLocal, opDefineLocal, opSetSelLocal, opGetFreePtr, opGetFree, opSetFree, opGetLocalPtr, opSetSelFree, opGetBuiltin, opClosure, opIteratorInit, opIteratorNext, opIteratorKey, opIteratorValue, opBinaryOp, opSuspend]

theorem execSimple_Equal (code : Code) (f : Fn) (fr : Frame) (ip : Int) (r : Regs) :
    execSimple code f fr ip opEqual r = exEqual code f fr ip opEqual r := by
  simp [execSimple, opConstant, opBComplement, opPop, opTrue, opFalse, opEqual, opNotEqual, opMinus, opLNot, opJumpFalsy, opAndJump, opOrJump, opJump, opNull, opArray, opMap, opError, opImmutable, opIndex, opSliceIndex, opCall, opReturn, opGetGlobal, opSetGlobal, opSetSelGlobal, opGetLocal, opSetLocal, opDefineLocal, opSetSelLocal, opGetFreePtr, opGetFree, opSetFree, opGetLocalPtr, opSetSelFree, opGetBuiltin, opClosure, opIteratorInit, opIteratorNext, opIteratorKey, opIteratorValue, opBinaryOp, opSuspend]

theorem execSimple_NotEqual (code : Code) (f : Fn) (fr : Frame) (ip : Int) (r : Regs) :
    execSimple code f fr ip opNotEqual r = exEqual code f fr ip opNotEqual r := by
  simp [execSimple, opConstant, opBComplement, opPop, opTrue, opFalse, opEqual, opNotEqual, opMinus, opLNot, opJumpFalsy, opAndJump, opOrJump, opJump, opNull, opArray, opMap, opError, opImmutable, opIndex, opSliceIndex, opCall, opReturn, opGetGlobal, opSetGlobal, opSetSelGlobal, opGetLocal, opSetLocal, opDefineLocal, opSetSelLocal, opGetFreePtr, opGetFree, opSetFree, opGetLocalPtr, opSetSelFree, opGetBuiltin, opClosure, opIteratorInit, opIteratorNext, opIteratorKey, opIteratorValue, opBinaryOp, opSuspend]

theorem execSimple_LNot (code : Code) (f : Fn) (fr : Frame) (ip : Int) (r : Regs) :
    execSimple code f fr ip opLNot r = exLNot code f fr ip opLNot r := by
  simp [execSimple, opConstant, opBComplement, opPop, opTrue, opFalse, opEqual, opNotEqual, opMinus, opLNot, opJumpFalsy, opAndJump, opOrJump, opJump, opNull, opArray, opMap, opError, opImmutable, opIndex, opSliceIndex, opCall, opReturn, opGetGlobal, opSetGlobal, opSetSelGlobal, opGetLocal, opSetLocal, opDefineLocal, opSetSelLocal, opGetFreePtr, opGetFree, opSetFree, opGetLocalPtr, opSetSelFree, opGetBuiltin, opClosure, opIteratorInit, opIteratorNext, opIteratorKey, opIteratorValue, opBinaryOp, opSuspend]

theorem execSimple_BComplement (code : Code) (f : Fn) (fr : Frame) (ip : Int) (r : Regs) :
    execSimple code f fr ip opBComplement r = exBComplement code f fr ip opBComplement r := by
  simp [execSimple, opConstant, opBComplement, opPop, opTrue, opFalse, opEqual, opNotEqual, opMinus, opLNot, opJumpFalsy, opAndJump, opOrJump, opJump, opNull, opArray, opMap, opError, opImmutable, opIndex, opSliceIndex, opCall, opReturn, opGetGlobal, opSetGlobal, opSetSelGlobal, opGetLocal, opSetLocal, opDefineLocal, opSetSelLocal, opGetFreePtr, opGetFree, opSetFree, opGetLocalPtr, opSetSelFree, opGetBuiltin, opClosure, opIteratorInit, opIteratorNext, opIteratorKey, opIteratorValue, opBinaryOp, opSuspend]

theorem execSimple_Minus (code : Code) (f : Fn) (fr : Frame) (ip : Int) (r : Regs) :
    execSimple code f fr ip opMinus r = exMinus code f fr ip opMinus r := by
  simp [execSimple, opConstant, opBComplement, opPop, opTrue, opFalse, opEqual, opNotEqual, opMinus, opLNot, opJumpFalsy, opAndJump, opOrJump, opJump, opNull, opArray, opMap, opError, opImmutable, opIndex, opSliceIndex, opCall, opReturn, opGetGlobal, opSetGlobal, opSetSelGlobal, opGetLocal, opSetLocal, opDefineLocal, opSetSelLocal, opGetFreePtr, opGetFree, opSetFree, opGetLocalPtr, opSetSelFree, opGetBuiltin, opClosure, opIteratorInit, opIteratorNext, opIteratorKey, opIteratorValue, opBinaryOp, opSuspend]

theorem execSimple_JumpFalsy (code : Code) (f : Fn) (fr : Frame) (ip : Int) (r : Regs) :
    execSimple code f fr ip opJumpFalsy r = exJumpFalsy code f fr ip opJumpFalsy r := by
  simp [execSimple, opConstant, opBComplement, opPop, opTrue, opFalse, opEqual, opNotEqual, opMinus, opLNot, opJumpFalsy, opAndJump, opOrJump, opJump, opNull, opArray, opMap, opError, opImmutable, opIndex, opSliceIndex, opCall, opReturn, opGetGlobal, opSetGlobal, opSetSelGlobal, opGetLocal, opSetLocal, opDefineLocal, opSetSelLocal, opGetFreePtr, opGetFree, opSetFree, opGetLocalPtr, opSetSelFree, opGetBuiltin, opClosure, opIteratorInit, opIteratorNext, opIteratorKey, opIteratorValue, opBinaryOp, opSuspend]

theorem execSimple_AndJump (code : Code) (f : Fn) (fr : Frame) (ip : Int) (r : Regs) :
    execSimple code f fr ip opAndJump r = exAndJump code f fr ip opAndJump r := by
  simp [execSimple, opConstant, opBComplement, opPop, opTrue, opFalse, opEqual, opNotEqual, opMinus, opLNot, opJumpFalsy, opAndJump, opOrJump, opJump, opNull, opArray, opMap, opError, opImmutable, opIndex, opSliceIndex, opCall, opReturn, opGetGlobal, opSetGlobal, opSetSelGlobal, opGetLocal, opSetLocal, opDefineLocal, opSetSelLocal, opGetFreePtr, opGetFree, opSetFree, opGetLocalPtr, opSetSelFree, opGetBuiltin, opClosure, opIteratorInit, opIteratorNext, opIteratorKey, opIteratorValue, opBinaryOp, opSuspend]

theorem execSimple_OrJump (code : Code) (f : Fn) (fr : Frame) (ip : Int) (r : Regs) :
    execSimple code f fr ip opOrJump r = exOrJump code f fr ip opOrJump r := by
  simp [execSimple, opConstant, opBComplement, opPop, opTrue, opFalse, opEqual, opNotEqual, opMinus, opLNot, opJumpFalsy, opAndJump, opOrJump, opJump, opNull, opArray, opMap, opError, opImmutable, opIndex, opSliceIndex, opCall, opReturn, opGetGlobal, opSetGlobal, opSetSelGlobal, opGetLocal, opSetLocal, opDefineLocal, opSetSelLocal, opGetFreePtr, opGetFree, opSetFree, opGetLocalPtr, opSetSelFree, opGetBuiltin, opClosure, opIteratorInit, opIteratorNext, opIteratorKey, opIteratorValue, opBinaryOp, opSuspend]

theorem execSimple_Jump (code : Code) (f : Fn) (fr : Frame) (ip : Int) (r : Regs) :
    execSimple code f fr ip opJump r = exJump code f fr ip opJump r := by
  simp [execSimple, opConstant, opBComplement, opPop, opTrue, opFalse, opEqual, opNotEqual, opMinus, opLNot, opJumpFalsy, opAndJump, opOrJump, opJump, opNull, opArray, opMap, opError, opImmutable, opIndex, opSliceIndex, opCall, opReturn, opGetGlobal, opSetGlobal, opSetSelGlobal, opGetLocal, opSetLocal, opDefineLocal, opSetSelLocal, opGetFreePtr, opGetFree, opSetFree, opGetLocalPtr, opSetSelFree, opGetBuiltin, opClosure, opIteratorInit, opIteratorNext, opIteratorKey, opIteratorValue, opBinaryOp, opSuspend]

theorem execSimple_SetGlobal (code : Code) (f : Fn) (fr : Frame) (ip : Int) (r : Regs) :
    execSimple code f fr ip opSetGlobal r = exSetGlobal code f fr ip opSetGlobal r := by
  simp [execSimple, opConstant, opBComplement, opPop, opTrue, opFalse, opEqual, opNotEqual, opMinus, opLNot, opJumpFalsy, opAndJump, opOrJump, opJump, opNull, opArray, opMap, opError, opImmutable, opIndex, opSliceIndex, opCall, opReturn, opGetGlobal, opSetGlobal, opSetSelGlobal, opGetLocal, opSetLocal, opDefineLocal, opSetSelLocal, opGetFreePtr, opGetFree, opSetFree, opGetLocalPtr, opSetSelFree, opGetBuiltin, opClosure, opIteratorInit, opIteratorNext, opIteratorKey, opIteratorValue, opBinaryOp, opSuspend]

theorem execSimple_GetGlobal (code : Code) (f : Fn) (fr : Frame) (ip : Int) (r : Regs) :
    execSimple code f fr ip opGetGlobal r = exGetGlobal code f fr ip opGetGlobal r := by
  simp [execSimple, opConstant, opBComplement, opPop, opTrue, opFalse, opEqual, opNotEqual, opMinus, opLNot, opJumpFalsy, opAndJump, opOrJump, opJump, opNull, opArray, opMap, opError, opImmutable, opIndex, opSliceIndex, opCall, opReturn, opGetGlobal, opSetGlobal, opSetSelGlobal, opGetLocal, opSetLocal, opDefineLocal, opSetSelLocal, opGetFreePtr, opGetFree, opSetFree, opGetLocalPtr, opSetSelFree, opGetBuiltin, opClosure, opIteratorInit, opIteratorNext, opIteratorKey, opIteratorValue, opBinaryOp, opSuspend]

theorem execSimple_SetSelGlobal (code : Code) (f : Fn) (fr : Frame) (ip : Int) (r : Regs) :
    execSimple code f fr ip opSetSelGlobal r = exSetSelGlobal code f fr ip opSetSelGlobal r := by
  simp [execSimple, opConstant, opBComplement, opPop, opTrue, opFalse, opEqual, opNotEqual, opMinus, opLNot, opJumpFalsy, opAndJump, opOrJump, opJump, opNull, opArray, opMap, opError, opImmutable, opIndex, opSliceIndex, opCall, opReturn, opGetGlobal, opSetGlobal, opSetSelGlobal, opGetLocal, opSetLocal, opDefineLocal, opSetSelLocal, opGetFreePtr, opGetFree, opSetFree, opGetLocalPtr, opSetSelFree, opGetBuiltin, opClosure, opIteratorInit, opIteratorNext, opIteratorKey, opIteratorValue, opBinaryOp, opSuspend]

theorem execSimple_Array (code : Code) (f : Fn) (fr : Frame) (ip : Int) (r : Regs) :
    execSimple code f fr ip opArray r = exArray code f fr ip opArray r := by
  simp [execSimple, opConstant, opBComplement, opPop, opTrue, opFalse, opEqual, opNotEqual, opMinus, opLNot, opJumpFalsy, opAndJump, opOrJump, opJump, opNull, opArray, opMap, opError, opImmutable, opIndex, opSliceIndex, opCall, opReturn, opGetGlobal, opSetGlobal, opSetSelGlobal, opGetLocal, opSetLocal, opDefineLocal, opSetSelLocal, opGetFreePtr, opGetFree, opSetFree, opGetLocalPtr, opSetSelFree, opGetBuiltin, opClosure, opIteratorInit, opIteratorNext, opIteratorKey, opIteratorValue, opBinaryOp, opSuspend]

theorem execSimple_Map (code : Code) (f : Fn) (fr : Frame) (ip : Int) (r : Regs) :
    execSimple code f fr ip opMap r = exMap code f fr ip opMap r := by
  simp [execSimple, opConstant, opBComplement, opPop, opTrue, opFalse, opEqual, opNotEqual, opMinus, opLNot, opJumpFalsy, opAndJump, opOrJump, opJump, opNull, opArray, opMap, opError, opImmutable, opIndex, opSliceIndex, opCall, opReturn, opGetGlobal, opSetGlobal, opSetSelGlobal, opGetLocal, opSetLocal, opDefineLocal, opSetSelLocal, opGetFreePtr, opGetFree, opSetFree, opGetLocalPtr, opSetSelFree, opGetBuiltin, opClosure, opIteratorInit, opIteratorNext, opIteratorKey, opIteratorValue, opBinaryOp, opSuspend]

theorem execSimple_Error (code : Code) (f : Fn) (fr : Frame) (ip : Int) (r : Regs) :
    execSimple code f fr ip opError r = exError code f fr ip opError r := by
  simp [execSimple, opConstant, opBComplement, opPop, opTrue, opFalse, opEqual, opNotEqual, opMinus, opLNot, opJumpFalsy, opAndJump, opOrJump, opJump, opNull, opArray, opMap, opError, opImmutable, opIndex, opSliceIndex, opCall, opReturn, opGetGlobal, opSetGlobal, opSetSelGlobal, opGetLocal, opSetLocal, opDefineLocal, opSetSelLocal, opGetFreePtr, opGetFree, opSetFree, opGetLocalPtr, opSetSelFree, opGetBuiltin, opClosure, opIteratorInit, opIteratorNext, opIteratorKey, opIteratorValue, opBinaryOp, opSuspend]

theorem execSimple_Immutable (code : Code) (f : Fn) (fr : Frame) (ip : Int) (r : Regs) :
    execSimple code f fr ip opImmutable r = exImmutable code f fr ip opImmutable r := by
  simp [execSimple, opConstant, opBComplement, opPop, opTrue, opFalse, opEqual, opNotEqual, opMinus, opLNot, opJumpFalsy, opAndJump, opOrJump, opJump, opNull, opArray, opMap, opError, opImmutable, opIndex, opSliceIndex, opCall, opReturn, opGetGlobal, opSetGlobal, opSetSelGlobal, opGetLocal, opSetLocal, opDefineLocal, opSetSelLocal, opGetFreePtr, opGetFree, opSetFree, opGetLocalPtr, opSetSelFree, opGetBuiltin, opClosure, opIteratorInit, opIteratorNext, opIteratorKey, opIteratorValue, opBinaryOp, opSuspend]

theorem execSimple_Index (code : Code) (f : Fn) (fr : Frame) (ip : Int) (r : Regs) :
    execSimple code f fr ip opIndex r = exIndex code f fr ip opIndex r := by
  simp [execSimple, opConstant, opBComplement, opPop, opTrue, opFalse, opEqual, opNotEqual, opMinus, opLNot, opJumpFalsy, opAndJump, opOrJump, opJump, opNull, opArray, opMap, opError, opImmutable, opIndex, opSliceIndex, opCall, opReturn, opGetGlobal, opSetGlobal, opSetSelGlobal, opGetLocal, opSetLocal, opDefineLocal, opSetSelLocal, opGetFreePtr, opGetFree, opSetFree, opGetLocalPtr, opSetSelFree, opGetBuiltin, opClosure, opIteratorInit, opIteratorNext, opIteratorKey, opIteratorValue, opBinaryOp, opSuspend]

theorem execSimple_SliceIndex (code : Code) (f : Fn) (fr : Frame) (ip : Int) (r : Regs) :
    execSimple code f fr ip opSliceIndex r = exSliceIndex code f fr ip opSliceIndex r := by
  simp [execSimple, opConstant, opBComplement, opPop, opTrue, opFalse, opEqual, opNotEqual, opMinus, opLNot, opJumpFalsy, opAndJump, opOrJump, opJump, opNull, opArray, opMap, opError, opImmutable, opIndex, opSliceIndex, opCall, opReturn, opGetGlobal, opSetGlobal, opSetSelGlobal, opGetLocal, opSetLocal, opDefineLocal, opSetSelLocal, opGetFreePtr, opGetFree, opSetFree, opGetLocalPtr, opSetSelFree, opGetBuiltin, opClosure, opIteratorInit, opIteratorNext, opIteratorKey, opIteratorValue, opBinaryOp, opSuspend]

theorem execSimple_DefineLocal (code : Code) (f : Fn) (fr : Frame) (ip : Int) (r : Regs) :
    execSimple code f fr ip opDefineLocal r = exDefineLocal code f fr ip opDefineLocal r := by
  simp [execSimple, opConstant, opBComplement, opPop, opTrue, opFalse, opEqual, opNotEqual, opMinus, opLNot, opJumpFalsy, opAndJump, opOrJump, opJump, opNull, opArray, opMap, opError, opImmutable, opIndex, opSliceIndex, opCall, opReturn, opGetGlobal, opSetGlobal, opSetSelGlobal, opGetLocal, opSetLocal, opDefineLocal, opSetSelLocal, opGetFreePtr, opGetFree, opSetFree, opGetLocalPtr, opSetSelFree, opGetBuiltin, opClosure, opIteratorInit, opIteratorNext, opIteratorKey, opIteratorValue, opBinaryOp, opSuspend]

theorem execSimple_SetLocal (code : Code) (f : Fn) (fr : Frame) (ip : Int) (r : Regs) :
    execSimple code f fr ip opSetLocal r = exSetLocal code f fr ip opSetLocal r := by
  simp [execSimple, opConstant, opBComplement, opPop, opTrue, opFalse, opEqual, opNotEqual, opMinus, opLNot, opJumpFalsy, opAndJump, opOrJump, opJump, opNull, opArray, opMap, opError, opImmutable, opIndex, opSliceIndex, opCall, opReturn, opGetGlobal, opSetGlobal, opSetSelGlobal, opGetLocal, opSetLocal, opDefineLocal, opSetSelLocal, opGetFreePtr, opGetFree, opSetFree, opGetLocalPtr, opSetSelFree, opGetBuiltin, opClosure, opIteratorInit, opIteratorNext, opIteratorKey, opIteratorValue, opBinaryOp, opSuspend]

theorem execSimple_SetSelLocal (code : Code) (f : Fn) (fr : Frame) (ip : Int) (r : Regs) :
    execSimple code f fr ip opSetSelLocal r = exSetSelLocal code f fr ip opSetSelLocal r := by
  simp [execSimple, opConstant, opBComplement, opPop, opTrue, opFalse, opEqual, opNotEqual, opMinus, opLNot, opJumpFalsy, opAndJump, opOrJump, opJump, opNull, opArray, opMap, opError, opImmutable, opIndex, opSliceIndex, opCall, opReturn, opGetGlobal, opSetGlobal, opSetSelGlobal, opGetLocal, opSetLocal, opDefineLocal, opSetSelLocal, opGetFreePtr, opGetFree, opSetFree, opGetLocalPtr, opSetSelFree, opGetBuiltin, opClosure, opIteratorInit, opIteratorNext, opIteratorKey, opIteratorValue, opBinaryOp, opSuspend]

theorem execSimple_GetLocal (code : Code) (f : Fn) (fr : Frame) (ip : Int) (r : Regs) :
    execSimple code f fr ip opGetLocal r = exGetLocal code f fr ip opGetLocal r := by
  simp [execSimple, opConstant, opBComplement, opPop, opTrue, opFalse, opEqual, opNotEqual, opMinus, opLNot, opJumpFalsy, opAndJump, opOrJump, opJump, opNull, opArray, opMap, opError, opImmutable, opIndex, opSliceIndex, opCall, opReturn, opGetGlobal, opSetGlobal, opSetSelGlobal, opGetLocal, opSetLocal, opDefineLocal, opSetSelLocal, opGetFreePtr, opGetFree, opSetFree, opGetLocalPtr, opSetSelFree, opGetBuiltin, opClosure, opIteratorInit, opIteratorNext, opIteratorKey, opIteratorValue, opBinaryOp, opSuspend]

theorem execSimple_GetBuiltin (code : Code) (f : Fn) (fr : Frame) (ip : Int) (r : Regs) :
    execSimple code f fr ip opGetBuiltin r = exGetBuiltin code f fr ip opGetBuiltin r := by
  simp [execSimple, opConstant, opBComplement, opPop, opTrue, opFalse, opEqual, opNotEqual, opMinus, opLNot, opJumpFalsy, opAndJump, opOrJump, opJump, opNull, opArray, opMap, opError, opImmutable, opIndex, opSliceIndex, opCall, opReturn, opGetGlobal, opSetGlobal, opSetSelGlobal, opGetLocal, opSetLocal, opDefineLocal, opSetSelLocal, opGetFreePtr, opGetFree, opSetFree, opGetLocalPtr, opSetSelFree, opGetBuiltin, opClosure, opIteratorInit, opIteratorNext, opIteratorKey, opIteratorValue, opBinaryOp, opSuspend]

theorem execSimple_Closure (code : Code) (f : Fn) (fr : Frame) (ip : Int) (r : Regs) :
    execSimple code f fr ip opClosure r = exClosure code f fr ip opClosure r := by
  simp [execSimple, opConstant, opBComplement, opPop, opTrue, opFalse, opEqual, opNotEqual, opMinus, opLNot, opJumpFalsy, opAndJump, opOrJump, opJump, opNull, opArray, opMap, opError, opImmutable, opIndex, opSliceIndex, opCall, opReturn, opGetGlobal, opSetGlobal, opSetSelGlobal, opGetLocal, opSetLocal, opDefineLocal, opSetSelLocal, opGetFreePtr, opGetFree, opSetFree, opGetLocalPtr, opSetSelFree, opGetBuiltin, opClosure, opIteratorInit, opIteratorNext, opIteratorKey, opIteratorValue, opBinaryOp, opSuspend]

theorem execSimple_GetFreePtr (code : Code) (f : Fn) (fr : Frame) (ip : Int) (r : Regs) :
    execSimple code f fr ip opGetFreePtr r = exGetFreePtr code f fr ip opGetFreePtr r := by
  simp [execSimple, opConstant, opBComplement, opPop, opTrue, opFalse, opEqual, opNotEqual, opMinus, opLNot, opJumpFalsy, opAndJump, opOrJump, opJump, opNull, opArray, opMap, opError, opImmutable, opIndex, opSliceIndex, opCall, opReturn, opGetGlobal, opSetGlobal, opSetSelGlobal, opGetLocal, opSetLocal, opDefineLocal, opSetSelLocal, opGetFreePtr, opGetFree, opSetFree, opGetLocalPtr, opSetSelFree, opGetBuiltin, opClosure, opIteratorInit, opIteratorNext, opIteratorKey, opIteratorValue, opBinaryOp, opSuspend]

theorem execSimple_GetFree (code : Code) (f : Fn) (fr : Frame) (ip : Int) (r : Regs) :
    execSimple code f fr ip opGetFree r = exGetFree code f fr ip opGetFree r := by
  simp [execSimple, opConstant, opBComplement, opPop, opTrue, opFalse, opEqual, opNotEqual, opMinus, opLNot, opJumpFalsy, opAndJump, opOrJump, opJump, opNull, opArray, opMap, opError, opImmutable, opIndex, opSliceIndex, opCall, opReturn, opGetGlobal, opSetGlobal, opSetSelGlobal, opGetLocal, opSetLocal, opDefineLocal, opSetSelLocal, opGetFreePtr, opGetFree, opSetFree, opGetLocalPtr, opSetSelFree, opGetBuiltin, opClosure, opIteratorInit, opIteratorNext, opIteratorKey, opIteratorValue, opBinaryOp, opSuspend]

theorem execSimple_SetFree (code : Code) (f : Fn) (fr : Frame) (ip : Int) (r : Regs) :
    execSimple code f fr ip opSetFree r = exSetFree code f fr ip opSetFree r := by
  simp [execSimple, opConstant, opBComplement, opPop, opTrue, opFalse, opEqual, opNotEqual, opMinus, opLNot, opJumpFalsy, opAndJump, opOrJump, opJump, opNull, opArray, opMap, opError, opImmutable, opIndex, opSliceIndex, opCall, opReturn, opGetGlobal, opSetGlobal, opSetSelGlobal, opGetLocal, opSetLocal, opDefineLocal, opSetSelLocal, opGetFreePtr, opGetFree, opSetFree, opGetLocalPtr, opSetSelFree, opGetBuiltin, opClosure, opIteratorInit, opIteratorNext, opIteratorKey, opIteratorValue, opBinaryOp, opSuspend]

theorem execSimple_GetLocalPtr (code : Code) (f : Fn) (fr : Frame) (ip : Int) (r : Regs) :
    execSimple code f fr ip opGetLocalPtr r = exGetLocalPtr code f fr ip opGetLocalPtr r := by
  simp [execSimple, opConstant, opBComplement, opPop, opTrue, opFalse, opEqual, opNotEqual, opMinus, opLNot, opJumpFalsy, opAndJump, opOrJump, opJump, opNull, opArray, opMap, opError, opImmutable, opIndex, opSliceIndex, opCall, opReturn, opGetGlobal, opSetGlobal, opSetSelGlobal, opGetLocal, opSetLocal, opDefineLocal, opSetSelLocal, opGetFreePtr, opGetFree, opSetFree, opGetLocalPtr, opSetSelFree, opGetBuiltin, opClosure, opIteratorInit, opIteratorNext, opIteratorKey, opIteratorValue, opBinaryOp, opSuspend]

theorem execSimple_SetSelFree (code : Code) (f : Fn) (fr : Frame) (ip : Int) (r : Regs) :
    execSimple code f fr ip opSetSelFree r = exSetSelFree code f fr ip opSetSelFree r := by
  simp [execSimple, opConstant, opBComplement, opPop, opTrue, opFalse, opEqual, opNotEqual, opMinus, opLNot, opJumpFalsy, opAndJump, opOrJump, opJump, opNull, opArray, opMap, opError, opImmutable, opIndex, opSliceIndex, opCall, opReturn, opGetGlobal, opSetGlobal, opSetSelGlobal, opGetLocal, opSetLocal, opDefineLocal, opSetSelLocal, opGetFreePtr, opGetFree, opSetFree, opGetLocalPtr, opSetSelFree, opGetBuiltin, opClosure, opIteratorInit, opIteratorNext, opIteratorKey, opIteratorValue, opBinaryOp, opSuspend]

theorem execSimple_IteratorInit (code : Code) (f : Fn) (fr : Frame) (ip : Int) (r : Regs) :
    execSimple code f fr ip opIteratorInit r = exIteratorInit code f fr ip opIteratorInit r := by
  simp [execSimple, opConstant, opBComplement, opPop, opTrue, opFalse, opEqual, opNotEqual, opMinus, opLNot, opJumpFalsy, opAndJump, opOrJump, opJump, opNull, opArray, opMap, opError, opImmutable, opIndex, opSliceIndex, opCall, opReturn, opGetGlobal, opSetGlobal, opSetSelGlobal, opGetLocal, opSetLocal, opDefineLocal, opSetSelLocal, opGetFreePtr, opGetFree, opSetFree, opGetLocalPtr, opSetSelFree, opGetBuiltin, opClosure, opIteratorInit, opIteratorNext, opIteratorKey, opIteratorValue, opBinaryOp, opSuspend]

theorem execSimple_IteratorNext (code : Code) (f : Fn) (fr : Frame) (ip : Int) (r : Regs) :
    execSimple code f fr ip opIteratorNext r = exIteratorNext code f fr ip opIteratorNext r := by
  simp [execSimple, opConstant, opBComplement, opPop, opTrue, opFalse, opEqual, opNotEqual, opMinus, opLNot, opJumpFalsy, opAndJump, opOrJump, opJump, opNull, opArray, opMap, opError, opImmutable, opIndex, opSliceIndex, opCall, opReturn, opGetGlobal, opSetGlobal, opSetSelGlobal, opGetLocal, opSetLocal, opDefineLocal, opSetSelLocal, opGetFreePtr, opGetFree, opSetFree, opGetLocalPtr, opSetSelFree, opGetBuiltin, opClosure, opIteratorInit, opIteratorNext, opIteratorKey, opIteratorValue, opBinaryOp, opSuspend]

theorem execSimple_IteratorKey (code : Code) (f : Fn) (fr : Frame) (ip : Int) (r : Regs) :
    execSimple code f fr ip opIteratorKey r = exIteratorKey code f fr ip opIteratorKey r := by
  simp [execSimple, opConstant, opBComplement, opPop, opTrue, opFalse, opEqual, opNotEqual, opMinus, opLNot, opJumpFalsy, opAndJump, opOrJump, opJump, opNull, opArray, opMap, opError, opImmutable, opIndex, opSliceIndex, opCall, opReturn, opGetGlobal, opSetGlobal, opSetSelGlobal, opGetLocal, opSetLocal, opDefineLocal, opSetSelLocal, opGetFreePtr, opGetFree, opSetFree, opGetLocalPtr, opSetSelFree, opGetBuiltin, opClosure, opIteratorInit, opIteratorNext, opIteratorKey, opIteratorValue, opBinaryOp, opSuspend]

theorem execSimple_IteratorValue (code : Code) (f : Fn) (fr : Frame) (ip : Int) (r : Regs) :
    execSimple code f fr ip opIteratorValue r = exIteratorKey code f fr ip opIteratorValue r := by
  simp [execSimple, opConstant, opBComplement, opPop, opTrue, opFalse, opEqual, opNotEqual, opMinus, opLNot, opJumpFalsy, opAndJump, opOrJump, opJump, opNull, opArray, opMap, opError, opImmutable, opIndex, opSliceIndex, opCall, opReturn, opGetGlobal, opSetGlobal, opSetSelGlobal, opGetLocal, opSetLocal, opDefineLocal, opSetSelLocal, opGetFreePtr, opGetFree, opSetFree, opGetLocalPtr, opSetSelFree, opGetBuiltin, opClosure, opIteratorInit, opIteratorNext, opIteratorKey, opIteratorValue, opBinaryOp, opSuspend]

/-- **Every simple instruction of a verified function is safe**: it cannot fault, and it leaves the
frame at an instruction boundary whose tabulated height matches the stack pointer. -/
theorem execSimple_step {i : Instr} (ctx : AtInstr code t G f ft fr r i h)
    (hnc : i.op ≠ opCall) (hnr : i.op ≠ opReturn) (hns : i.op ≠ opSuspend) :
    SafeX (execSimple code f fr (i.pos : Int) i.op r) (SimpleGoal code t G f ft fr r) := by
  obtain ⟨pos, op, args⟩ := i
  dsimp only at hnc hnr hns ⊢
  by_cases hConstant : op = opConstant
  · subst hConstant; rw [execSimple_Constant]; exact step_Constant ctx
  by_cases hNull : op = opNull
  · subst hNull; rw [execSimple_Null]; exact step_Null ctx
  by_cases hTrue : op = opTrue
  · subst hTrue; rw [execSimple_True]; exact step_True ctx
  by_cases hFalse : op = opFalse
  · subst hFalse; rw [execSimple_False]; exact step_False ctx
  by_cases hPop : op = opPop
  · subst hPop; rw [execSimple_Pop]; exact step_Pop ctx
  by_cases hBinaryOp : op = opBinaryOp
  · subst hBinaryOp; rw [execSimple_BinaryOp]; exact step_BinaryOp ctx
  by_cases hEqual : op = opEqual
  · subst hEqual; rw [execSimple_Equal]; exact step_Equal ctx
  by_cases hNotEqual : op = opNotEqual
  · subst hNotEqual; rw [execSimple_NotEqual]; exact step_NotEqual ctx
  by_cases hLNot : op = opLNot
  · subst hLNot; rw [execSimple_LNot]; exact step_LNot ctx
  by_cases hBComplement : op = opBComplement
  · subst hBComplement; rw [execSimple_BComplement]; exact step_BComplement ctx
  by_cases hMinus : op = opMinus
  · subst hMinus; rw [execSimple_Minus]; exact step_Minus ctx
  by_cases hJumpFalsy : op = opJumpFalsy
  · subst hJumpFalsy; rw [execSimple_JumpFalsy]; exact step_JumpFalsy ctx
  by_cases hAndJump : op = opAndJump
  · subst hAndJump; rw [execSimple_AndJump]; exact step_AndJump ctx
  by_cases hOrJump : op = opOrJump
  · subst hOrJump; rw [execSimple_OrJump]; exact step_OrJump ctx
  by_cases hJump : op = opJump
  · subst hJump; rw [execSimple_Jump]; exact step_Jump ctx
  by_cases hSetGlobal : op = opSetGlobal
  · subst hSetGlobal; rw [execSimple_SetGlobal]; exact step_SetGlobal ctx
  by_cases hGetGlobal : op = opGetGlobal
  · subst hGetGlobal; rw [execSimple_GetGlobal]; exact step_GetGlobal ctx
  by_cases hSetSelGlobal : op = opSetSelGlobal
  · subst hSetSelGlobal; rw [execSimple_SetSelGlobal]; exact step_SetSelGlobal ctx
  by_cases hArray : op = opArray
  · subst hArray; rw [execSimple_Array]; exact step_Array ctx
  by_cases hMap : op = opMap
  · subst hMap; rw [execSimple_Map]; exact step_Map ctx
  by_cases hError : op = opError
  · subst hError; rw [execSimple_Error]; exact step_Error ctx
  by_cases hImmutable : op = opImmutable
  · subst hImmutable; rw [execSimple_Immutable]; exact step_Immutable ctx
  by_cases hIndex : op = opIndex
  · subst hIndex; rw [execSimple_Index]; exact step_Index ctx
  by_cases hSliceIndex : op = opSliceIndex
  · subst hSliceIndex; rw [execSimple_SliceIndex]; exact step_SliceIndex ctx
  by_cases hDefineLocal : op = opDefineLocal
  · subst hDefineLocal; rw [execSimple_DefineLocal]; exact step_DefineLocal ctx
  by_cases hSetLocal : op = opSetLocal
  · subst hSetLocal; rw [execSimple_SetLocal]; exact step_SetLocal ctx
  by_cases hSetSelLocal : op = opSetSelLocal
  · subst hSetSelLocal; rw [execSimple_SetSelLocal]; exact step_SetSelLocal ctx
  by_cases hGetLocal : op = opGetLocal
  · subst hGetLocal; rw [execSimple_GetLocal]; exact step_GetLocal ctx
  by_cases hGetBuiltin : op = opGetBuiltin
  · subst hGetBuiltin; rw [execSimple_GetBuiltin]; exact step_GetBuiltin ctx
  by_cases hClosure : op = opClosure
  · subst hClosure; rw [execSimple_Closure]; exact step_Closure ctx
  by_cases hGetFreePtr : op = opGetFreePtr
  · subst hGetFreePtr; rw [execSimple_GetFreePtr]; exact step_GetFreePtr ctx
  by_cases hGetFree : op = opGetFree
  · subst hGetFree; rw [execSimple_GetFree]; exact step_GetFree ctx
  by_cases hSetFree : op = opSetFree
  · subst hSetFree; rw [execSimple_SetFree]; exact step_SetFree ctx
  by_cases hGetLocalPtr : op = opGetLocalPtr
  · subst hGetLocalPtr; rw [execSimple_GetLocalPtr]; exact step_GetLocalPtr ctx
  by_cases hSetSelFree : op = opSetSelFree
  · subst hSetSelFree; rw [execSimple_SetSelFree]; exact step_SetSelFree ctx
  by_cases hIteratorInit : op = opIteratorInit
  · subst hIteratorInit; rw [execSimple_IteratorInit]; exact step_IteratorInit ctx
  by_cases hIteratorNext : op = opIteratorNext
  · subst hIteratorNext; rw [execSimple_IteratorNext]; exact step_IteratorNext ctx
  by_cases hIteratorKey : op = opIteratorKey
  · subst hIteratorKey; rw [execSimple_IteratorKey]; exact step_IteratorKey ctx
  by_cases hIteratorValue : op = opIteratorValue
  · subst hIteratorValue; rw [execSimple_IteratorValue]; exact step_IteratorValue ctx
  -- no opcode matched: the verifier would have rejected the instruction
  exfalso
  obtain ⟨l, hl, _⟩ := ctx.succs_ok
  have : succs ⟨pos, op, args⟩ h = none := by
    simp [succs, stackEffect, *]
  rw [this] at hl
  cases hl

end
end Tengo.Model.VM

import Tengo.Proofs.C02CompileExpr2
/-!
C02 / `compile_verifies`: the induction over the compiler model, part 3 (assignments).
-/
set_option linter.unusedVariables false
set_option linter.unusedSimpArgs false
namespace Tengo.Proofs.C02Compile
open Tengo.Model Tengo.Model.Opcodes Tengo.Model.Compiler Tengo.Model.Optimizer Tengo.Model.Verifier
open Tengo.Model.Spec (Expr Stmt)
open Tengo.Proofs.C03 Tengo.Proofs.C03Reloc

theorem addPend_nil (ls : List Loop) : addPend ls [] [] = ls := by
  cases ls with
  | nil => rfl
  | cons l r => simp [addPend]

theorem addPend_addPend (ls : List Loop) (b1 c1 b2 c2 : List Nat) :
    addPend (addPend ls b1 c1) b2 c2 = addPend ls (b1 ++ b2) (c1 ++ c2) := by
  cases ls with
  | nil => rfl
  | cons l r => simp [addPend]

/-- a statement from a closed prefix and a final instruction that consumes everything above the base -/
theorem sres_emit {s s₁ : CState} {L : List Instr} {F : List Nat} {n k : Nat} (h1 : QRes s s₁ L F n k)
    {op : Nat} {args ws : List Nat}
    (hw : widths op = some ws) (hlen : args.length = ws.length)
    {pops : Nat} (he : ∀ p, stackEffect ⟨p, op, args⟩ = some (pops, 0)) (hk : pops = k) (hnp : op ≠ opPop)
    (hreq : ∀ p F₁, F <+: F₁ → opReq s₁.consts.toList F₁ (envOf s₁.tables) ⟨p, op, args⟩) :
    SRes s (emitS op args s₁) L F (n + (1 + ws.sum)) := by
  subst hk
  obtain ⟨B₁, F₁, o1, hb1⟩ := h1
  have e1 : totalSize (L ++ B₁) = totalSize L + totalSize B₁ := totalSize_append _ _
  have hsz : (Instr.mk (totalSize L + totalSize B₁) op args).size = 1 + ws.sum := shape_size hw
  have hinv := o1.inv.emit (op := op) (args := args) ⟨ws, hw, hlen⟩ (hreq _ _ o1.step.fs)
  rw [e1] at hinv
  refine ⟨B₁ ++ [⟨totalSize L + totalSize B₁, op, args⟩], F₁, [], [], ⟨by rw [← List.append_assoc]; exact hinv,
    o1.step.trans (Step.of_eq F₁ rfl rfl rfl), ?_, fun _ => ⟨rfl, rfl⟩,
    by rw [totalSize_append, totalSize_cons, totalSize_nil, hsz]; have := o1.size; omega, ?_⟩⟩
  · rw [addPend_nil]; exact o1.loops
  · have hs := hb1 0
    rw [Nat.zero_add] at hs
    have h := SBlk.ofSeq (i := ⟨totalSize L + totalSize B₁, op, args⟩) hs rfl (he _) hnp
    rw [totalSize_append, totalSize_cons, totalSize_nil]
    have e2 : totalSize L + (totalSize B₁ + ((Instr.mk (totalSize L + totalSize B₁) op args).size + 0)) =
        totalSize L + totalSize B₁ + (Instr.mk (totalSize L + totalSize B₁) op args).size := by omega
    rw [e2]; exact h

theorem SRes.post_eq {s s₁ s₂ : CState} {L : List Instr} {F : List Nat} {n : Nat} (h : SRes s s₁ L F n)
    (h1 : s₂.insts = s₁.insts) (h2 : s₂.tables = s₁.tables) (h3 : s₂.consts = s₁.consts)
    (h4 : s₂.saved = s₁.saved) (h5 : s₂.loops = s₁.loops) : SRes s s₂ L F n := by
  obtain ⟨B, F', bs, cs, ho⟩ := h
  exact ⟨B, F', bs, cs, ⟨ho.inv.of_eq h1 h2 h3, ho.step.trans (Step.of_eq F' h4 h2 h3), h5.trans ho.loops,
    ho.nopend, ho.size, ho.blk⟩⟩

theorem SRes.pre {s s₁ s' : CState} {L : List Instr} {F F₁ : List Nat} {n : Nat} (hst : Step s s₁ F F₁)
    (hl : s₁.loops = s.loops) (h : SRes s₁ s' L F₁ n) : SRes s s' L F n := by
  obtain ⟨B, F', bs, cs, ho⟩ := h
  exact ⟨B, F', bs, cs, ⟨ho.inv, hst.trans ho.step, by rw [ho.loops, hl], by rw [← hl]; exact ho.nopend,
    ho.size, ho.blk⟩⟩

theorem SRes.mono {s s' : CState} {L : List Instr} {F : List Nat} {n n' : Nat} (h : SRes s s' L F n)
    (hn : n ≤ n') : SRes s s' L F n' := by
  obtain ⟨B, F', bs, cs, ho⟩ := h
  exact ⟨B, F', bs, cs, ⟨ho.inv, ho.step, ho.loops, ho.nopend, Nat.le_trans ho.size hn, ho.blk⟩⟩

/-- the store instruction of an assignment -/
def asgStore (selectors : List Expr) (op : String) (sym : Sym) : CM Unit :=
  match sym.scope with
  | .global =>
    if selectors.length > 0 then discard <| emit opSetSelGlobal [sym.index, selectors.length]
    else discard <| emit opSetGlobal [sym.index]
  | .local => do
    if selectors.length > 0 then discard <| emit opSetSelLocal [sym.index, selectors.length]
    else if op == "Define" && !(← localAssigned sym) then discard <| emit opDefineLocal [sym.index]
    else discard <| emit opSetLocal [sym.index]
    setAssigned sym
  | .free =>
    if selectors.length > 0 then discard <| emit opSetSelFree [sym.index, selectors.length]
    else discard <| emit opSetFree [sym.index]
  | .builtin => cerr s!"invalid assignment variable scope: {sym.scope.goName}"

def asgTail (d : Nat) (selectors : List Expr) (op : String) (symbol : Option Sym) : CM Unit := do
  compileSelsRev d selectors
  match symbol with
  | none => throw (.panic "nil symbol in compileAssign")
  | some sym => asgStore selectors op sym

def asgOp (d : Nat) (selectors : List Expr) (op : String) (symbol : Option Sym) : CM Unit :=
  if op != "Assign" && op != "Define" then
    match F0.tokNumbers.lookup (op.dropEnd 6).toString with
    | some n => do discard <| emit opBinaryOp [n]; asgTail d selectors op symbol
    | none => do unsupported ("assignment-operator-" ++ op); asgTail d selectors op symbol
  else asgTail d selectors op symbol

def asgRhs (d : Nat) (r : Expr) (ident : String) (selectors : List Expr) (op : String) (isFunc : Bool)
    (symbol : Option Sym) : CM Unit := do
  compileExpr d r
  if op == "Define" && !isFunc then do
    let x ← define ident
    asgOp d selectors op (some x)
  else asgOp d selectors op symbol

def asgLhs (d : Nat) (l r : Expr) (ident : String) (selectors : List Expr) (op : String) (isFunc : Bool)
    (symbol : Option Sym) : CM Unit :=
  if op != "Assign" && op != "Define" then do
    compileExpr d l
    asgRhs d r ident selectors op isFunc symbol
  else asgRhs d r ident selectors op isFunc symbol

def asgDef (d : Nat) (l r : Expr) (ident : String) (selectors : List Expr) (op : String) (isFunc : Bool)
    (symbol : Option Sym) : CM Unit :=
  if isFunc then do
    let x ← define ident
    asgLhs d l r ident selectors op isFunc (some x)
  else asgLhs d l r ident selectors op isFunc symbol

def isFuncLit (r : Expr) : Bool := match r with | .func .. => true | _ => false

def asgMain (d : Nat) (l r : Expr) (ident : String) (selectors : List Expr) (op : String) : CM Unit := do
  let resolved ← resolve ident
  if op == "Define" then
    match resolved with
    | some (s, 0) =>
      if s.scope != .builtin then do
        cerr s!"'{ident}' redeclared in this block"
        asgDef d l r ident selectors op (isFuncLit r) (resolved.map Prod.fst)
      else asgDef d l r ident selectors op (isFuncLit r) (resolved.map Prod.fst)
    | _ => asgDef d l r ident selectors op (isFuncLit r) (resolved.map Prod.fst)
  else
    if resolved.isNone then do
      cerr s!"unresolved reference '{ident}'"
      asgLhs d l r ident selectors op (isFuncLit r) (resolved.map Prod.fst)
    else asgLhs d l r ident selectors op (isFuncLit r) (resolved.map Prod.fst)

set_option maxHeartbeats 2000000 in
theorem compileAssign_run (d : Nat) (l r : Expr) (op : String) (s : CState) (r' : Unit × CState)
    (h : compileAssign (d + 1) [l] [r] op s = .ok r') :
    (resolveAssignLHS l).2.length ≤ 255 ∧
    asgMain d l r (resolveAssignLHS l).1 (resolveAssignLHS l).2 op s = .ok r' := by
  unfold compileAssign at h
  extract_lets jp1 at h
  split at h
  · obtain ⟨_, _, hc, _⟩ := bind_ok h; exact (cerr_ok hc).elim
  have e1 : jp1 () = (match resolveAssignLHS l with
    | (ident, selectors) =>
      if op == "Define" && selectors.length > 0 then do
        cerr "operator ':=' not allowed with selector"
        (if selectors.length > 255 then do
          cerr s!"too many selectors in assignment ({selectors.length} > 255)"
          asgMain d l r ident selectors op
        else asgMain d l r ident selectors op)
      else if selectors.length > 255 then do
        cerr s!"too many selectors in assignment ({selectors.length} > 255)"
        asgMain d l r ident selectors op
      else asgMain d l r ident selectors op) := rfl
  rw [e1] at h
  clear e1 jp1
  generalize resolveAssignLHS l = res at h ⊢
  obtain ⟨ident, selectors⟩ := res
  simp only at h ⊢
  split at h
  · obtain ⟨_, _, hc, _⟩ := bind_ok h; exact (cerr_ok hc).elim
  · split at h
    · obtain ⟨_, _, hc, _⟩ := bind_ok h; exact (cerr_ok hc).elim
    · rename_i hle
      exact ⟨by omega, h⟩

/-- the end of an assignment: the selectors, then the store instruction for the symbol -/
theorem assign_tail {d : Nat} (ih : All d) (selectors : List Expr) (sym : Sym) (op : String)
    {s s₁ s' : CState} {L : List Instr} {F : List Nat} {n : Nat} (q : QRes s s₁ L F n 1)
    (h : (do compileSelsRev d selectors; asgStore selectors op sym) s₁ = .ok ((), s'))
    (hsym : SymOK s₁.tables sym) (hsel : selectors.length ≤ 255) (hsz : szSels d selectors < 2 ^ 30) :
    SRes s s' L F (n + szSels d selectors + 4) := by
  obtain ⟨_, s2, h1, h2⟩ := bind_ok h
  clear h
  have q2 : QRes s s2 L F (n + szSels d selectors) (1 + selectors.length) :=
    q.bind (fun L₁ F₁ hinv1 => ih.sels selectors s₁ s2 L₁ F₁ h1 hinv1 hsz)
  have hsym2 : SymOK s2.tables sym := by
    obtain ⟨B, F', ho, _⟩ := q2
    obtain ⟨B₁, F₁, o1, _⟩ := q
    -- tables only grow between s₁ and s2
    obtain ⟨B₂, F₂, o2, _⟩ := ih.sels selectors s₁ s2 _ _ h1 o1.inv hsz
    exact hsym.mono o2.step.tabs
  unfold asgStore at h2
  cases hsc : sym.scope <;> simp only [hsc] at h2
  · -- global
    split at h2
    · have e := demit_ok h2; simp only at e; subst e
      exact (sres_emit q2 (op := opSetSelGlobal) (args := [sym.index, selectors.length]) (ws := [2, 1])
        (pops := selectors.length + 1) rfl rfl (fun _ => rfl) (by omega) (by decide)
        (fun p F₁ _ => opReq_selGlob hsym2 hsc hsel)).mono (by simp <;> omega)
    · rename_i hz
      have hz' : selectors.length = 0 := by omega
      have e := demit_ok h2; simp only at e; subst e
      exact (sres_emit q2 (op := opSetGlobal) (args := [sym.index]) (ws := [2])
        (pops := 1) rfl rfl (fun _ => rfl) (by omega) (by decide)
        (fun p F₁ _ => opReq_glob hsym2 hsc rfl)).mono (by simp <;> omega)
  · -- local
    split at h2
    · obtain ⟨_, s3, h3, h4⟩ := bind_ok h2
      clear h2
      obtain ⟨q1, q2', q3, q4, q5⟩ := setAssigned_ok h4
      simp only at q1 q2' q3 q4 q5
      refine SRes.post_eq ?_ q1 q2' q3 q4 q5
      have e := demit_ok h3; simp only at e; subst e
      exact (sres_emit q2 (op := opSetSelLocal) (args := [sym.index, selectors.length]) (ws := [1, 1])
        (pops := selectors.length + 1) rfl rfl (fun _ => rfl) (by omega) (by decide)
        (fun p F₁ _ => opReq_selLoc hsym2 hsc hsel)).mono (by simp <;> omega)
    · rename_i hz
      have hz' : selectors.length = 0 := by omega
      obtain ⟨b, s2', h5, h6⟩ := bind_ok h2
      clear h2
      have e0 := localAssigned_ok h5
      simp only at e0; subst e0
      split at h6
      · obtain ⟨_, s3, h3, h4⟩ := bind_ok h6
        clear h6
        obtain ⟨q1, q2', q3, q4, q5⟩ := setAssigned_ok h4
        simp only at q1 q2' q3 q4 q5
        refine SRes.post_eq ?_ q1 q2' q3 q4 q5
        have e := demit_ok h3; simp only at e; subst e
        exact (sres_emit q2 (op := opDefineLocal) (args := [sym.index]) (ws := [1])
          (pops := 1) rfl rfl (fun _ => rfl) (by omega) (by decide)
          (fun p F₁ _ => opReq_loc hsym2 hsc rfl)).mono (by simp <;> omega)
      · obtain ⟨_, s3, h3, h4⟩ := bind_ok h6
        clear h6
        obtain ⟨q1, q2', q3, q4, q5⟩ := setAssigned_ok h4
        simp only at q1 q2' q3 q4 q5
        refine SRes.post_eq ?_ q1 q2' q3 q4 q5
        have e := demit_ok h3; simp only at e; subst e
        exact (sres_emit q2 (op := opSetLocal) (args := [sym.index]) (ws := [1])
          (pops := 1) rfl rfl (fun _ => rfl) (by omega) (by decide)
          (fun p F₁ _ => opReq_loc hsym2 hsc rfl)).mono (by simp <;> omega)
  · -- builtin
    exact (cerr_ok h2).elim
  · -- free
    split at h2
    · have e := demit_ok h2; simp only at e; subst e
      exact (sres_emit q2 (op := opSetSelFree) (args := [sym.index, selectors.length]) (ws := [1, 1])
        (pops := selectors.length + 1) rfl rfl (fun _ => rfl) (by omega) (by decide)
        (fun p F₁ _ => opReq_selFree hsym2 hsc hsel)).mono (by simp <;> omega)
    · rename_i hz
      have hz' : selectors.length = 0 := by omega
      have e := demit_ok h2; simp only at e; subst e
      exact (sres_emit q2 (op := opSetFree) (args := [sym.index]) (ws := [1])
        (pops := 1) rfl rfl (fun _ => rfl) (by omega) (by decide)
        (fun p F₁ _ => opReq_free hsym2 hsc rfl)).mono (by simp <;> omega)

theorem QRes.post {s s₁ s₂ : CState} {L : List Instr} {F : List Nat} {n k : Nat} (h : QRes s s₁ L F n k)
    (hpost : ∀ L₁ F₁, Inv s₁ L₁ F₁ → Inv s₂ L₁ F₁ ∧ Step s₁ s₂ F₁ F₁) (hl : s₂.loops = s₁.loops) :
    QRes s s₂ L F n k := by
  obtain ⟨B, F', ho, hb⟩ := h
  obtain ⟨hi, hs⟩ := hpost _ _ ho.inv
  exact ⟨B, F', ⟨hi, ho.step.trans hs, hl.trans ho.loops, ho.size⟩, hb⟩

theorem QRes.tabs {s s₁ : CState} {L : List Instr} {F : List Nat} {n k : Nat} (h : QRes s s₁ L F n k) :
    ChainLe s.tables s₁.tables := by
  obtain ⟨B, F', ho, hb⟩ := h
  exact ho.step.tabs

def compoundOp (op : String) : Bool := op != "Assign" && op != "Define"

theorem asgTail_spec {d : Nat} (ih : All d) (selectors : List Expr) (sym : Sym) (op : String)
    {s s₁ s' : CState} {L : List Instr} {F : List Nat} {n : Nat} (q : QRes s s₁ L F n 1)
    (h : asgTail d selectors op (some sym) s₁ = .ok ((), s'))
    (hsym : SymOK s₁.tables sym) (hsel : selectors.length ≤ 255) (hsz : szSels d selectors < 2 ^ 30) :
    SRes s s' L F (n + szSels d selectors + 4) :=
  assign_tail ih selectors sym op q h hsym hsel hsz

theorem asgOp_spec {d : Nat} (ih : All d) (selectors : List Expr) (sym : Sym) (op : String)
    {s s₁ s' : CState} {L : List Instr} {F : List Nat} {n : Nat}
    (q : QRes s s₁ L F n (if compoundOp op then 2 else 1))
    (h : asgOp d selectors op (some sym) s₁ = .ok ((), s'))
    (hsym : SymOK s₁.tables sym) (hsel : selectors.length ≤ 255) (hsz : szSels d selectors < 2 ^ 30) :
    SRes s s' L F (n + 2 + szSels d selectors + 4) := by
  unfold asgOp at h
  split at h
  · rename_i hc
    have hc' : compoundOp op = true := hc
    rw [hc'] at q
    simp only [if_true] at q
    cases hk : F0.tokNumbers.lookup (op.dropEnd 6).toString with
    | some k =>
      simp only [hk] at h
      obtain ⟨_, s2, h1, h2⟩ := bind_ok h
      have e := demit_ok h1; simp only at e; subst e
      have q2 := q.emit (op := opBinaryOp) (args := [k]) (ws := [1]) (pops := 2) (pushes := 1) rfl rfl
        (fun _ => rfl) (by omega) (by omega) (by decide) (fun p F₁ _ => opReq_binop (tokNumbers_lt hk))
      exact (asgTail_spec ih selectors sym op (q2.castK (by simp)) h2 hsym hsel hsz).mono (by simp <;> omega)
    | none =>
      simp only [hk] at h
      obtain ⟨_, _, hc, _⟩ := bind_ok h
      exact (unsupported_ok hc).elim
  · rename_i hc
    have hc' : compoundOp op = false := by simpa [compoundOp] using hc
    rw [hc'] at q
    simp only [Bool.false_eq_true, if_false] at q
    exact (asgTail_spec ih selectors sym op q h hsym hsel hsz).mono (by omega)

theorem QRes.define {s s₁ : CState} {L : List Instr} {F : List Nat} {n k : Nat} (q : QRes s s₁ L F n k)
    (ident : String) : QRes s (defS ident s₁).2 L F n k ∧ SymOK (defS ident s₁).2.tables (defS ident s₁).1 := by
  obtain ⟨B, F', ho, hb⟩ := q
  obtain ⟨hi, hst, hsym, _⟩ := ho.inv.define ident
  exact ⟨⟨B, F', ⟨hi, ho.step.trans hst, ho.loops, ho.size⟩, hb⟩, hsym⟩

theorem asgRhs_spec {d : Nat} (ih : All d) (r : Expr) (ident : String) (selectors : List Expr) (op : String)
    (isFunc : Bool) (symbol : Option Sym)
    {s s₀ s' : CState} {L : List Instr} {F : List Nat} {n : Nat}
    (q : QRes s s₀ L F n (if compoundOp op then 1 else 0))
    (h : asgRhs d r ident selectors op isFunc symbol s₀ = .ok ((), s'))
    (hsymb : (op == "Define" && !isFunc) = true ∨ ∃ sym, symbol = some sym ∧ SymOK s₀.tables sym)
    (hsel : selectors.length ≤ 255) (hszr : szE d r < 2 ^ 30) (hsz : szSels d selectors < 2 ^ 30) :
    SRes s s' L F (n + szE d r + 2 + szSels d selectors + 4) := by
  unfold asgRhs at h
  obtain ⟨_, s1, h1, h2⟩ := bind_ok h
  clear h
  obtain ⟨B₀, F₀, o0, hb0⟩ := q
  obtain ⟨B₁, F₁, o1, hb1⟩ := ih.e r s₀ s1 _ F₀ h1 o0.inv hszr
  have q1 : QRes s s1 L F (n + szE d r) (if compoundOp op then 2 else 1) :=
    (QRes.bind (n₂ := szE d r) (k₂ := 1) ⟨B₀, F₀, o0, hb0⟩
      (fun L₁ F₁' hinv1 => (ih.e r s₀ s1 L₁ F₁' h1 hinv1 hszr).toQ)).castK (by split <;> rfl)
  split at h2
  · obtain ⟨x, s2, h3, h4⟩ := bind_ok h2
    have e := define_ok h3
    have ex : x = (defS ident s1).1 := (Prod.mk.inj e).1
    have es2 : s2 = (defS ident s1).2 := (Prod.mk.inj e).2
    subst ex; subst es2
    obtain ⟨q2, hsym⟩ := q1.define ident
    exact (asgOp_spec ih selectors _ op q2 h4 hsym hsel hsz).mono (by omega)
  · rename_i hc
    rcases hsymb with hd | ⟨sym, rfl, hsym⟩
    · exact absurd hd hc
    · exact (asgOp_spec ih selectors sym op q1 h2 (hsym.mono o1.step.tabs) hsel hsz).mono (by omega)

theorem asgLhs_spec {d : Nat} (ih : All d) (l r : Expr) (ident : String) (selectors : List Expr) (op : String)
    (isFunc : Bool) (symbol : Option Sym) {s s' : CState} {L : List Instr} {F : List Nat}
    (hinv : Inv s L F) (h : asgLhs d l r ident selectors op isFunc symbol s = .ok ((), s'))
    (hsymb : (op == "Define" && !isFunc) = true ∨ ∃ sym, symbol = some sym ∧ SymOK s.tables sym)
    (hsel : selectors.length ≤ 255) (hszl : szE d l < 2 ^ 30) (hszr : szE d r < 2 ^ 30)
    (hsz : szSels d selectors < 2 ^ 30) :
    SRes s s' L F (szE d l + szE d r + 2 + szSels d selectors + 4) := by
  unfold asgLhs at h
  split at h
  · rename_i hc
    have hc' : compoundOp op = true := hc
    obtain ⟨_, s1, h1, h2⟩ := bind_ok h
    obtain ⟨B₁, F₁, o1, hb1⟩ := ih.e l s s1 L F h1 hinv hszl
    have q1 : QRes s s1 L F (szE d l) (if compoundOp op then 1 else 0) := by
      rw [hc']; exact ⟨B₁, F₁, o1, fun a => (hb1 a).toSeq⟩
    refine asgRhs_spec ih r ident selectors op isFunc symbol q1 h2 ?_ hsel hszr hsz
    rcases hsymb with hd | ⟨sym, e, hsym⟩
    · exact Or.inl hd
    · exact Or.inr ⟨sym, e, hsym.mono o1.step.tabs⟩
  · rename_i hc
    have hc' : compoundOp op = false := by simpa [compoundOp] using hc
    have q1 : QRes s s L F 0 (if compoundOp op then 1 else 0) := by
      rw [hc']; exact QRes.nil hinv
    exact (asgRhs_spec ih r ident selectors op isFunc symbol q1 h hsymb hsel hszr hsz).mono (by omega)

theorem asgDef_spec {d : Nat} (ih : All d) (l r : Expr) (ident : String) (selectors : List Expr) (op : String)
    (isFunc : Bool) (symbol : Option Sym) {s s' : CState} {L : List Instr} {F : List Nat}
    (hinv : Inv s L F) (h : asgDef d l r ident selectors op isFunc symbol s = .ok ((), s'))
    (hdef : (op == "Define") = true)
    (hsel : selectors.length ≤ 255) (hszl : szE d l < 2 ^ 30) (hszr : szE d r < 2 ^ 30)
    (hsz : szSels d selectors < 2 ^ 30) :
    SRes s s' L F (szE d l + szE d r + 2 + szSels d selectors + 4) := by
  unfold asgDef at h
  split at h
  · obtain ⟨x, s1, h1, h2⟩ := bind_ok h
    have e := define_ok h1
    have ex : x = (defS ident s).1 := (Prod.mk.inj e).1
    have es1 : s1 = (defS ident s).2 := (Prod.mk.inj e).2
    subst ex; subst es1
    obtain ⟨hi, hst, hsym, _⟩ := hinv.define ident
    exact SRes.pre hst rfl (asgLhs_spec ih l r ident selectors op isFunc _ hi h2
      (Or.inr ⟨_, rfl, hsym⟩) hsel hszl hszr hsz)
  · rename_i hf
    have hf' : isFunc = false := by simpa using hf
    exact asgLhs_spec ih l r ident selectors op isFunc symbol hinv h
      (Or.inl (by rw [hdef, hf']; rfl)) hsel hszl hszr hsz

theorem asgMain_spec {d : Nat} (ih : All d) (l r : Expr) (ident : String) (selectors : List Expr) (op : String)
    {s s' : CState} {L : List Instr} {F : List Nat}
    (hinv : Inv s L F) (h : asgMain d l r ident selectors op s = .ok ((), s'))
    (hsel : selectors.length ≤ 255) (hszl : szE d l < 2 ^ 30) (hszr : szE d r < 2 ^ 30)
    (hsz : szSels d selectors < 2 ^ 30) :
    SRes s s' L F (szE d l + szE d r + 2 + szSels d selectors + 4) := by
  unfold asgMain at h
  obtain ⟨resolved, s1, h1, h2⟩ := bind_ok h
  clear h
  have e1 := resolve_ok h1
  have er : resolved = (resS ident s).1 := (Prod.mk.inj e1).1
  have es : s1 = (resS ident s).2 := (Prod.mk.inj e1).2
  subst es
  obtain ⟨hinv1, hst, hsym⟩ := hinv.resolve ident
  refine SRes.pre hst rfl ?_
  split at h2
  · rename_i hdef
    split at h2
    · split at h2
      · obtain ⟨_, _, hc, _⟩ := bind_ok h2; exact (cerr_ok hc).elim
      · exact asgDef_spec ih l r ident selectors op _ _ hinv1 h2 hdef hsel hszl hszr hsz
    · exact asgDef_spec ih l r ident selectors op _ _ hinv1 h2 hdef hsel hszl hszr hsz
  · split at h2
    · obtain ⟨_, _, hc, _⟩ := bind_ok h2; exact (cerr_ok hc).elim
    · rename_i hnone
      cases hr : resolved with
      | none => rw [hr] at hnone; simp at hnone
      | some p =>
        obtain ⟨sym, dd⟩ := p
        rw [hr] at h2
        exact asgLhs_spec ih l r ident selectors op _ _ hinv1 h2
          (Or.inr ⟨sym, rfl, hsym sym dd (by rw [← er, hr])⟩) hsel hszl hszr hsz

set_option maxHeartbeats 1000000 in
theorem aspec_succ {d : Nat} (ih : All d) : ASpec (d + 1) := by
  intro lhs rhs op s s' L F h hinv hsz
  match lhs, rhs, h, hsz with
  | [l], [r], h, hsz =>
    have hszd : szAssign (d + 1) [l] [r] = szE d l + szE d r + 2 + szSels d (resolveAssignLHS l).2 + 4 := by
      rw [szAssign]
    rw [hszd] at hsz ⊢
    obtain ⟨hsel, hm⟩ := compileAssign_run d l r op s _ h
    exact asgMain_spec ih l r _ _ op hinv hm hsel (by omega) (by omega) (by omega)
  | [], _, h, _ =>
    exfalso
    unfold compileAssign at h
    extract_lets jp1 at h
    split at h
    · obtain ⟨_, _, hc, _⟩ := bind_ok h; exact (cerr_ok hc).elim
    · exact throw_ok h
  | _ :: _ :: _, _, h, _ =>
    exfalso
    unfold compileAssign at h
    extract_lets jp1 at h
    split at h
    · obtain ⟨_, _, hc, _⟩ := bind_ok h; exact (cerr_ok hc).elim
    · rename_i hc; simp at hc
  | [_], [], h, _ =>
    exfalso
    unfold compileAssign at h
    extract_lets jp1 at h
    split at h
    · obtain ⟨_, _, hc, _⟩ := bind_ok h; exact (cerr_ok hc).elim
    · exact throw_ok h
  | [_], _ :: _ :: _, h, _ =>
    exfalso
    unfold compileAssign at h
    extract_lets jp1 at h
    split at h
    · obtain ⟨_, _, hc, _⟩ := bind_ok h; exact (cerr_ok hc).elim
    · rename_i hc; simp at hc

end Tengo.Proofs.C02Compile

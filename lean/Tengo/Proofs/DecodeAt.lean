import Tengo.Model.Bytecode
/-!
What a successful `decode` says about the raw bytes: every decoded instruction sits at its `pos` in the
byte string (opcode byte at `bs[pos]`, big-endian operands right behind it), instructions are laid out
back to back starting at 0 and are determined by their position. Used to connect the decoded view of
a function body with the byte fetches of the VM model. Core Lean only.
-/
namespace Tengo.Model
open Opcodes

/-! ### `readOperands` consumes exactly `ws.sum` bytes -/

theorem readOperands_eq_drop : ∀ (ws : List Nat) (bs : Bytes) (args : List Nat) (rest : Bytes),
    readOperands ws bs = some (args, rest) → ws.sum ≤ bs.length ∧ rest = bs.drop ws.sum := by
  intro ws
  induction ws with
  | nil =>
    intro bs args rest h
    simp only [readOperands, Option.some.injEq, Prod.mk.injEq] at h
    simp [h.2]
  | cons w ws ih =>
    intro bs args rest h
    simp only [readOperands] at h
    split at h
    · cases h
    · rename_i hlt
      split at h
      · cases h
      · rename_i vs r' hr
        simp only [Option.some.injEq, Prod.mk.injEq] at h
        obtain ⟨h1, h2⟩ := ih _ _ _ hr
        simp only [List.length_drop] at h1
        refine ⟨by simp only [List.sum_cons]; omega, ?_⟩
        rw [← h.2, h2, List.drop_drop, List.sum_cons]

/-! ### The generalised statements over `decodeFuel` -/

/-- Positions are strictly increasing along the decoded list and never below the start position. -/
theorem decodeFuel_sorted : ∀ (f pos : Nat) (rest : Bytes) (is : List Instr),
    decodeFuel f pos rest = some is →
    (∀ i ∈ is, pos ≤ i.pos) ∧ is.Pairwise (fun a b => a.pos < b.pos) := by
  intro f
  induction f with
  | zero =>
    intro pos rest is h
    cases rest with
    | nil => simp only [decodeFuel, Option.some.injEq] at h; subst h; simp
    | cons b rest => simp [decodeFuel] at h
  | succ f ih =>
    intro pos rest is h
    cases rest with
    | nil => simp only [decodeFuel, Option.some.injEq] at h; subst h; simp
    | cons b rest =>
      simp only [decodeFuel] at h
      split at h
      · cases h
      · rename_i ws hws
        split at h
        · cases h
        · rename_i args rest' hro
          split at h
          · cases h
          · rename_i tl htl
            simp only [Option.some.injEq] at h
            subst h
            obtain ⟨h1, h2⟩ := ih _ _ _ htl
            refine ⟨?_, ?_⟩
            · intro i hi
              rcases List.mem_cons.mp hi with rfl | hi
              · exact Nat.le_refl _
              · have := h1 i hi; omega
            · refine List.pairwise_cons.mpr ⟨?_, h2⟩
              intro j hj
              have := h1 j hj
              show pos < j.pos
              omega

/-- A non-empty input decodes to a list whose first instruction sits at the start position. -/
theorem decodeFuel_head : ∀ (f pos : Nat) (rest : Bytes) (is : List Instr),
    decodeFuel f pos rest = some is → rest ≠ [] → ∃ i, i ∈ is ∧ i.pos = pos := by
  intro f pos rest is h hne
  cases rest with
  | nil => exact absurd rfl hne
  | cons b rest =>
    cases f with
    | zero => simp [decodeFuel] at h
    | succ f =>
      simp only [decodeFuel] at h
      split at h
      · cases h
      · split at h
        · cases h
        · split at h
          · cases h
          · simp only [Option.some.injEq] at h
            subst h
            exact ⟨_, List.mem_cons_self, rfl⟩

theorem decodeFuel_mem (bs : Bytes) : ∀ (f pos : Nat) (rest : Bytes) (is : List Instr),
    rest = bs.drop pos → decodeFuel f pos rest = some is → ∀ i ∈ is,
    ∃ ws, widths i.op = some ws ∧ i.pos + 1 + ws.sum ≤ bs.length ∧
      (bs[i.pos]?).map UInt8.toNat = some i.op ∧
      readOperands ws (bs.drop (i.pos + 1)) = some (i.args, bs.drop (i.pos + 1 + ws.sum)) ∧
      (i.pos + 1 + ws.sum = bs.length ∨ ∃ j, j ∈ is ∧ j.pos = i.pos + 1 + ws.sum) := by
  intro f
  induction f with
  | zero =>
    intro pos rest is hrest h
    cases rest with
    | nil => simp only [decodeFuel, Option.some.injEq] at h; subst h; simp
    | cons b rest => simp [decodeFuel] at h
  | succ f ih =>
    intro pos rest is hrest h
    cases rest with
    | nil => simp only [decodeFuel, Option.some.injEq] at h; subst h; simp
    | cons b rest =>
      simp only [decodeFuel] at h
      split at h
      · cases h
      · rename_i ws hws
        split at h
        · cases h
        · rename_i args rest' hro
          split at h
          · cases h
          · rename_i tl htl
            simp only [Option.some.injEq] at h
            subst h
            -- the bytes at and after `pos`
            have hlt : pos < bs.length := by
              have : (bs.drop pos).length = (b :: rest).length := by rw [← hrest]
              simp only [List.length_drop, List.length_cons] at this
              omega
            have hb : bs[pos]? = some b := by
              have : (bs.drop pos)[0]? = some b := by rw [← hrest]; rfl
              simpa using this
            have hr : rest = bs.drop (pos + 1) := by
              have : (bs.drop pos).drop 1 = rest := by rw [← hrest]; rfl
              rw [← this, List.drop_drop]
            obtain ⟨hsum, hrest'⟩ := readOperands_eq_drop _ _ _ _ hro
            have hrest'' : rest' = bs.drop (pos + 1 + ws.sum) := by
              rw [hrest', hr, List.drop_drop]
            have hlen : pos + 1 + ws.sum ≤ bs.length := by
              rw [hr, List.length_drop] at hsum
              omega
            intro i hi
            rcases List.mem_cons.mp hi with rfl | hi
            · refine ⟨ws, hws, hlen, ?_, ?_, ?_⟩
              · simp [hb]
              · show readOperands ws (bs.drop (pos + 1)) = some (args, bs.drop (pos + 1 + ws.sum))
                rw [← hr, ← hrest'']; exact hro
              · show pos + 1 + ws.sum = bs.length ∨
                  ∃ j : Instr, j ∈ _ ∧ j.pos = pos + 1 + ws.sum
                by_cases hnil : rest' = []
                · left
                  have : (bs.drop (pos + 1 + ws.sum)).length = 0 := by rw [← hrest'', hnil]; rfl
                  simp only [List.length_drop] at this
                  omega
                · right
                  obtain ⟨j, hj, hjp⟩ := decodeFuel_head _ _ _ _ htl hnil
                  exact ⟨j, List.mem_cons_of_mem _ hj, hjp⟩
            · obtain ⟨ws', h1, h2, h3, h4, h5⟩ := ih _ _ _ hrest'' htl i hi
              refine ⟨ws', h1, h2, h3, h4, ?_⟩
              rcases h5 with h5 | ⟨j, hj, hjp⟩
              · exact Or.inl h5
              · exact Or.inr ⟨j, List.mem_cons_of_mem _ hj, hjp⟩

/-! ### The facts about `decode` -/

theorem decode_mem (bs : Bytes) (is : List Instr) (h : decode bs = some is) (i : Instr)
    (hi : i ∈ is) :
    ∃ ws, widths i.op = some ws ∧ i.pos + 1 + ws.sum ≤ bs.length ∧
      (bs[i.pos]?).map UInt8.toNat = some i.op ∧
      readOperands ws (bs.drop (i.pos + 1)) = some (i.args, bs.drop (i.pos + 1 + ws.sum)) ∧
      (i.pos + 1 + ws.sum = bs.length ∨ ∃ j, j ∈ is ∧ j.pos = i.pos + 1 + ws.sum) :=
  decodeFuel_mem bs bs.length 0 bs is (by simp) h i hi

theorem decode_head (bs : Bytes) (is : List Instr) (h : decode bs = some is) (hne : bs ≠ []) :
    ∃ i, i ∈ is ∧ i.pos = 0 :=
  decodeFuel_head bs.length 0 bs is h hne

/-- Positions are strictly increasing along a decoded list. -/
theorem decode_sorted (bs : Bytes) (is : List Instr) (h : decode bs = some is) :
    is.Pairwise (fun a b => a.pos < b.pos) :=
  (decodeFuel_sorted bs.length 0 bs is h).2

theorem pos_unique_of_sorted : ∀ (is : List Instr), is.Pairwise (fun a b => a.pos < b.pos) →
    ∀ i j : Instr, i ∈ is → j ∈ is → i.pos = j.pos → i = j := by
  intro is
  induction is with
  | nil => intro _ i j hi; cases hi
  | cons a tl ih =>
    intro hp i j hi hj hpos
    obtain ⟨ha, htl⟩ := List.pairwise_cons.mp hp
    rcases List.mem_cons.mp hi with hia | hia
    · rcases List.mem_cons.mp hj with hja | hja
      · rw [hia, hja]
      · have := ha j hja; rw [hia] at hpos; omega
    · rcases List.mem_cons.mp hj with hja | hja
      · have := ha i hia; rw [hja] at hpos; omega
      · exact ih htl i j hia hja hpos

theorem decode_pos_unique (bs : Bytes) (is : List Instr) (h : decode bs = some is) (i j : Instr)
    (hi : i ∈ is) (hj : j ∈ is) (hp : i.pos = j.pos) : i = j :=
  pos_unique_of_sorted is (decode_sorted bs is h) i j hi hj hp

theorem size_eq (i : Instr) (ws : List Nat) (h : widths i.op = some ws) : i.size = 1 + ws.sum := by
  simp [Instr.size, h]

/-! ### Operand read-out in terms of indexing

`readOperands_args_*` are stated for an arbitrary result list (the form that composes with `decode_mem`,
where the result is `i.args`); `readOperands_1` … `readOperands_2_1` are the same facts for a result
already known to have the right shape. -/

theorem readOperands_nil (bs rest : Bytes) (args : List Nat)
    (h : readOperands [] bs = some (args, rest)) : args = [] := by
  simp only [readOperands, Option.some.injEq, Prod.mk.injEq] at h
  exact h.1.symm

theorem readOperands_args_1 (bs rest : Bytes) (args : List Nat)
    (h : readOperands [1] bs = some (args, rest)) :
    ∃ b0, bs[0]? = some b0 ∧ args = [b0.toNat] := by
  match bs, h with
  | [], h => simp [readOperands] at h
  | b0 :: tl, h =>
    have h' : [b0.toNat] = args ∧ tl = rest := by simpa [readOperands, beVal] using h
    exact ⟨b0, rfl, h'.1.symm⟩

theorem readOperands_args_2 (bs rest : Bytes) (args : List Nat)
    (h : readOperands [2] bs = some (args, rest)) :
    ∃ b0 b1, bs[0]? = some b0 ∧ bs[1]? = some b1 ∧ args = [b0.toNat * 256 + b1.toNat] := by
  match bs, h with
  | [], h => simp [readOperands] at h
  | [_], h => simp [readOperands] at h
  | b0 :: b1 :: tl, h =>
    have h' : [b0.toNat * 256 + b1.toNat] = args ∧ tl = rest := by
      simpa [readOperands, beVal] using h
    exact ⟨b0, b1, rfl, rfl, h'.1.symm⟩

theorem readOperands_args_4 (bs rest : Bytes) (args : List Nat)
    (h : readOperands [4] bs = some (args, rest)) :
    ∃ b0 b1 b2 b3, bs[0]? = some b0 ∧ bs[1]? = some b1 ∧ bs[2]? = some b2 ∧ bs[3]? = some b3 ∧
      args = [((b0.toNat * 256 + b1.toNat) * 256 + b2.toNat) * 256 + b3.toNat] := by
  match bs, h with
  | [], h => simp [readOperands] at h
  | [_], h => simp [readOperands] at h
  | [_, _], h => simp [readOperands] at h
  | [_, _, _], h => simp [readOperands] at h
  | b0 :: b1 :: b2 :: b3 :: tl, h =>
    have h' : [((b0.toNat * 256 + b1.toNat) * 256 + b2.toNat) * 256 + b3.toNat] = args ∧
        tl = rest := by
      simpa [readOperands, beVal] using h
    exact ⟨b0, b1, b2, b3, rfl, rfl, rfl, rfl, h'.1.symm⟩

theorem readOperands_args_1_1 (bs rest : Bytes) (args : List Nat)
    (h : readOperands [1, 1] bs = some (args, rest)) :
    ∃ b0 b1, bs[0]? = some b0 ∧ bs[1]? = some b1 ∧ args = [b0.toNat, b1.toNat] := by
  match bs, h with
  | [], h => simp [readOperands] at h
  | [_], h => simp [readOperands] at h
  | b0 :: b1 :: tl, h =>
    have h' : [b0.toNat, b1.toNat] = args ∧ tl = rest := by simpa [readOperands, beVal] using h
    exact ⟨b0, b1, rfl, rfl, h'.1.symm⟩

theorem readOperands_args_2_1 (bs rest : Bytes) (args : List Nat)
    (h : readOperands [2, 1] bs = some (args, rest)) :
    ∃ b0 b1 b2, bs[0]? = some b0 ∧ bs[1]? = some b1 ∧ bs[2]? = some b2 ∧
      args = [b0.toNat * 256 + b1.toNat, b2.toNat] := by
  match bs, h with
  | [], h => simp [readOperands] at h
  | [_], h => simp [readOperands] at h
  | [_, _], h => simp [readOperands] at h
  | b0 :: b1 :: b2 :: tl, h =>
    have h' : [b0.toNat * 256 + b1.toNat, b2.toNat] = args ∧ tl = rest := by
      simpa [readOperands, beVal] using h
    exact ⟨b0, b1, b2, rfl, rfl, rfl, h'.1.symm⟩

theorem readOperands_1 (bs rest : Bytes) (a : Nat)
    (h : readOperands [1] bs = some ([a], rest)) :
    ∃ b0, bs[0]? = some b0 ∧ a = b0.toNat := by
  obtain ⟨b0, h0, ha⟩ := readOperands_args_1 bs rest [a] h
  exact ⟨b0, h0, by simpa using ha⟩

theorem readOperands_2 (bs rest : Bytes) (a : Nat)
    (h : readOperands [2] bs = some ([a], rest)) :
    ∃ b0 b1, bs[0]? = some b0 ∧ bs[1]? = some b1 ∧ a = b0.toNat * 256 + b1.toNat := by
  obtain ⟨b0, b1, h0, h1, ha⟩ := readOperands_args_2 bs rest [a] h
  exact ⟨b0, b1, h0, h1, by simpa using ha⟩

theorem readOperands_4 (bs rest : Bytes) (a : Nat)
    (h : readOperands [4] bs = some ([a], rest)) :
    ∃ b0 b1 b2 b3, bs[0]? = some b0 ∧ bs[1]? = some b1 ∧ bs[2]? = some b2 ∧ bs[3]? = some b3 ∧
      a = ((b0.toNat * 256 + b1.toNat) * 256 + b2.toNat) * 256 + b3.toNat := by
  obtain ⟨b0, b1, b2, b3, h0, h1, h2, h3, ha⟩ := readOperands_args_4 bs rest [a] h
  exact ⟨b0, b1, b2, b3, h0, h1, h2, h3, by simpa using ha⟩

theorem readOperands_1_1 (bs rest : Bytes) (a b : Nat)
    (h : readOperands [1, 1] bs = some ([a, b], rest)) :
    ∃ b0 b1, bs[0]? = some b0 ∧ bs[1]? = some b1 ∧ a = b0.toNat ∧ b = b1.toNat := by
  obtain ⟨b0, b1, h0, h1, ha⟩ := readOperands_args_1_1 bs rest [a, b] h
  exact ⟨b0, b1, h0, h1, by simpa using ha⟩

theorem readOperands_2_1 (bs rest : Bytes) (a b : Nat)
    (h : readOperands [2, 1] bs = some ([a, b], rest)) :
    ∃ b0 b1 b2, bs[0]? = some b0 ∧ bs[1]? = some b1 ∧ bs[2]? = some b2 ∧
      a = b0.toNat * 256 + b1.toNat ∧ b = b2.toNat := by
  obtain ⟨b0, b1, b2, h0, h1, h2, ha⟩ := readOperands_args_2_1 bs rest [a, b] h
  exact ⟨b0, b1, b2, h0, h1, h2, by simpa using ha⟩

/-! ### Corollaries of `decode_mem`: the operand bytes of a decoded instruction, by absolute index -/

/-- The operand read of a decoded instruction, with the width list fixed by the caller. -/
theorem decode_mem_read (bs : Bytes) (is : List Instr) (h : decode bs = some is) (i : Instr)
    (hi : i ∈ is) (ws : List Nat) (hw : widths i.op = some ws) :
    readOperands ws (bs.drop (i.pos + 1)) = some (i.args, bs.drop (i.pos + 1 + ws.sum)) := by
  obtain ⟨ws', h1, _, _, h4, _⟩ := decode_mem bs is h i hi
  rw [hw] at h1
  cases h1
  exact h4

theorem decode_mem_op0 (bs : Bytes) (is : List Instr) (h : decode bs = some is) (i : Instr)
    (hi : i ∈ is) (hw : widths i.op = some []) : i.args = [] :=
  readOperands_nil _ _ _ (decode_mem_read bs is h i hi [] hw)

theorem decode_mem_op8 (bs : Bytes) (is : List Instr) (h : decode bs = some is) (i : Instr)
    (hi : i ∈ is) (hw : widths i.op = some [1]) :
    ∃ b0, bs[i.pos + 1]? = some b0 ∧ i.args = [b0.toNat] := by
  obtain ⟨b0, h0, ha⟩ := readOperands_args_1 _ _ _ (decode_mem_read bs is h i hi [1] hw)
  rw [List.getElem?_drop] at h0
  exact ⟨b0, h0, ha⟩

theorem decode_mem_op16 (bs : Bytes) (is : List Instr) (h : decode bs = some is) (i : Instr)
    (hi : i ∈ is) (hw : widths i.op = some [2]) :
    ∃ b0 b1, bs[i.pos + 1]? = some b0 ∧ bs[i.pos + 2]? = some b1 ∧
      i.args = [b0.toNat * 256 + b1.toNat] := by
  obtain ⟨b0, b1, h0, h1, ha⟩ := readOperands_args_2 _ _ _ (decode_mem_read bs is h i hi [2] hw)
  rw [List.getElem?_drop] at h0 h1
  exact ⟨b0, b1, h0, h1, ha⟩

theorem decode_mem_op32 (bs : Bytes) (is : List Instr) (h : decode bs = some is) (i : Instr)
    (hi : i ∈ is) (hw : widths i.op = some [4]) :
    ∃ b0 b1 b2 b3, bs[i.pos + 1]? = some b0 ∧ bs[i.pos + 2]? = some b1 ∧
      bs[i.pos + 3]? = some b2 ∧ bs[i.pos + 4]? = some b3 ∧
      i.args = [((b0.toNat * 256 + b1.toNat) * 256 + b2.toNat) * 256 + b3.toNat] := by
  obtain ⟨b0, b1, b2, b3, h0, h1, h2, h3, ha⟩ :=
    readOperands_args_4 _ _ _ (decode_mem_read bs is h i hi [4] hw)
  rw [List.getElem?_drop] at h0 h1 h2 h3
  exact ⟨b0, b1, b2, b3, h0, h1, h2, h3, ha⟩

theorem decode_mem_op8_8 (bs : Bytes) (is : List Instr) (h : decode bs = some is) (i : Instr)
    (hi : i ∈ is) (hw : widths i.op = some [1, 1]) :
    ∃ b0 b1, bs[i.pos + 1]? = some b0 ∧ bs[i.pos + 2]? = some b1 ∧
      i.args = [b0.toNat, b1.toNat] := by
  obtain ⟨b0, b1, h0, h1, ha⟩ :=
    readOperands_args_1_1 _ _ _ (decode_mem_read bs is h i hi [1, 1] hw)
  rw [List.getElem?_drop] at h0 h1
  exact ⟨b0, b1, h0, h1, ha⟩

theorem decode_mem_op16_8 (bs : Bytes) (is : List Instr) (h : decode bs = some is) (i : Instr)
    (hi : i ∈ is) (hw : widths i.op = some [2, 1]) :
    ∃ b0 b1 b2, bs[i.pos + 1]? = some b0 ∧ bs[i.pos + 2]? = some b1 ∧
      bs[i.pos + 3]? = some b2 ∧ i.args = [b0.toNat * 256 + b1.toNat, b2.toNat] := by
  obtain ⟨b0, b1, b2, h0, h1, h2, ha⟩ :=
    readOperands_args_2_1 _ _ _ (decode_mem_read bs is h i hi [2, 1] hw)
  rw [List.getElem?_drop] at h0 h1 h2
  exact ⟨b0, b1, b2, h0, h1, h2, ha⟩

/-! ### Non-vacuity: a concrete stream that decodes (CONST 258; CALL 1 0; POP) -/

example : decode [0, 1, 2, 20, 1, 0, 2] =
    some [⟨0, 0, [258]⟩, ⟨3, 20, [1, 0]⟩, ⟨6, 2, []⟩] := by decide

end Tengo.Model

import Tengo.Proofs.C01BridgeSpecExpr
/-!
C01 bridge, converse direction, layer 1 (expressions). `evalOK` (Proofs/C01BridgeSpecExpr.lean) needs the
interpreter's fuel above the expression's budget. Here the same conclusion is proved for EVERY fuel `F`, with
one more alternative: the interpreter runs out of fuel (`evalTri`). So an interpreter run that does NOT end
in fuel exhaustion — however small its fuel; short-circuit operators let it succeed below the budget —
returns exactly the value of the fragment's evaluator `F0.eval vmSem` (and fails exactly where that
evaluator has no value).
-/
set_option linter.unusedVariables false
set_option linter.unusedSimpArgs false
namespace Tengo.Proofs.C01Bridge
open Tengo.Model Tengo.Model.Spec Tengo.Model.F0

/-- The interpreter computation `x` against the fragment evaluator's result `res`: the value, heap
untouched; or a failure other than fuel exhaustion. (The conclusion of `EvalOK`.) -/
def ExprRes (x : EM Value) (gs : GSt) (σ : St) (res : Option SV) : Prop :=
  (∀ v, res = some v → EOk x gs σ v.1 σ) ∧ (res = none → ∃ err, err ≠ Err.fuel ∧ EErr x gs σ err)

/-- Out of fuel, or as the fragment's evaluator says. -/
def ExprTri (x : EM Value) (gs : GSt) (σ : St) (res : Option SV) : Prop :=
  EErr x gs σ Err.fuel ∨ ExprRes x gs σ res

theorem evalExpr_zero (ctx : Ctx) (e : Expr) (gs : GSt) (σ : St) : EErr (evalExpr 0 ctx e) gs σ Err.fuel := by
  rw [evalExpr.eq_1]
  exact EErr.lift (m := throw Err.fuel) rfl

/-- Sequencing after a sub-expression. -/
theorem ExprTri.bind {x : EM Value} {K : Value → EM Value} {gs : GSt} {σ : St} {ro res : Option SV}
    (hx : ExprTri x gs σ ro) (hnone : ro = none → res = none)
    (hK : ∀ a, ro = some a → ExprTri (K a.1) gs σ res) : ExprTri (x >>= K) gs σ res := by
  rcases hx with hf | ⟨h1, h2⟩
  · exact .inl (EErr.bind_left hf)
  · cases ro with
    | none =>
      obtain ⟨err, hne, herr⟩ := h2 rfl
      exact .inr ⟨fun v hv => (by rw [hnone rfl] at hv; cases hv), fun _ => ⟨err, hne, EErr.bind_left herr⟩⟩
    | some a =>
      have ha := h1 a rfl
      rcases hK a rfl with hf | ⟨k1, k2⟩
      · exact .inl (EErr.bind_right ha hf)
      · refine .inr ⟨fun v hv => EOk.bind ha (k1 v hv), fun hv => ?_⟩
        obtain ⟨err, hne, herr⟩ := k2 hv
        exact ⟨err, hne, EErr.bind_right ha herr⟩

/-- Sequencing after a computation that succeeds without touching the heap. -/
theorem ExprTri.after {α : Type} {x : EM α} {K : α → EM Value} {gs : GSt} {σ : St} {a : α} {res : Option SV}
    (hx : EOk x gs σ a σ) (hK : ExprTri (K a) gs σ res) : ExprTri (x >>= K) gs σ res := by
  rcases hK with hf | ⟨k1, k2⟩
  · exact .inl (EErr.bind_right hx hf)
  · refine .inr ⟨fun v hv => EOk.bind hx (k1 v hv), fun hv => ?_⟩
    obtain ⟨err, hne, herr⟩ := k2 hv
    exact ⟨err, hne, EErr.bind_right hx herr⟩

theorem ExprTri.pure (v : SV) (gs : GSt) (σ : St) : ExprTri (Pure.pure v.1 : EM Value) gs σ (some v) :=
  .inr ⟨fun w hw => (by simp only [Option.some.injEq] at hw; subst hw; exact EOk.pure _ gs σ),
    fun h => (by cases h)⟩

theorem ExprTri.binop (tok : Nat) (a b : SV) (gs : GSt) (σ : St) :
    ExprTri (Spec.liftM (binaryOp (VM.tokOfNum tok) a.1 b.1)) gs σ (vmSem.binop tok a b) := by
  refine .inr ⟨fun v hv => EOk.lift ((binaryOp_sem tok a b σ).1 v hv), fun hv => ?_⟩
  obtain ⟨e, hne, he⟩ := (binaryOp_sem tok a b σ).2 hv
  exact ⟨e, hne, EErr.lift he⟩

section
variable (names : Nat → String) (ctab : Nat → F0.Const) (n : Nat) (cells : Nat → Nat)

/-- On an embedded expression, with EVERY fuel: the interpreter runs out of fuel, or returns exactly the
value of `F0.eval vmSem` (heap untouched), or fails — not by fuel — where `F0.eval vmSem` has no value. -/
def EvalTri (e : Ex) : Prop :=
  ∀ (F : Nat) (ctx : Ctx) (gs : GSt) (σ : St) (g : Nat → SV) (k : Nat),
    EnvOK names n cells ctx.env → HeapOK n cells g σ → wfE n k e = true →
    ExprTri (evalExpr F ctx (toAstE names ctab e)) gs σ (eval vmSem (svConst ctab) g e)

variable {names ctab n cells}

theorem evalTri_atom (e : Ex) (hb : budE e = 1) : EvalTri names ctab n cells e := by
  intro F ctx gs σ g k he hh hw
  cases F with
  | zero => exact .inl (evalExpr_zero _ _ _ _)
  | succ F => exact .inr (evalOK e (F + 1) ctx gs σ g k (by omega) he hh hw)

theorem evalTri (e : Ex) : EvalTri names ctab n cells e := by
  induction e with
  | lit j => exact evalTri_atom _ rfl
  | tru => exact evalTri_atom _ rfl
  | fls => exact evalTri_atom _ rfl
  | undef => exact evalTri_atom _ rfl
  | glob i => exact evalTri_atom _ rfl
  | bin tok l r ihl ihr =>
    intro F ctx gs σ g k he hh hw
    cases F with
    | zero => exact .inl (evalExpr_zero _ _ _ _)
    | succ F =>
      simp only [wfE, Bool.and_eq_true] at hw
      obtain ⟨⟨ht, hwl⟩, hwr⟩ := hw
      simp only [toAstE, ev_tok F ctx tok ht]
      refine ExprTri.bind (ihl F ctx gs σ g _ he hh hwl) (fun h => by simp [eval, h]) (fun a ha => ?_)
      refine ExprTri.bind (ihr F ctx gs σ g _ he hh hwr) (fun h => by simp [eval, ha, h]) (fun b hb => ?_)
      simp only [eval, ha, hb]
      exact ExprTri.binop tok a b gs σ
  | eq l r ihl ihr =>
    intro F ctx gs σ g k he hh hw
    cases F with
    | zero => exact .inl (evalExpr_zero _ _ _ _)
    | succ F =>
      simp only [wfE, Bool.and_eq_true] at hw
      obtain ⟨hwl, hwr⟩ := hw
      simp only [toAstE, ev_eq]
      refine ExprTri.bind (ihl F ctx gs σ g _ he hh hwl) (fun h => by simp [eval, h]) (fun a ha => ?_)
      refine ExprTri.bind (ihr F ctx gs σ g _ he hh hwr) (fun h => by simp [eval, ha, h]) (fun b hb => ?_)
      simp only [eval, ha, hb]
      exact ExprTri.after (EOk.lift (equalsV_sem a b σ)) (ExprTri.pure (vmSem.ofBool (vmSem.eqv a b)) gs σ)
  | ne l r ihl ihr =>
    intro F ctx gs σ g k he hh hw
    cases F with
    | zero => exact .inl (evalExpr_zero _ _ _ _)
    | succ F =>
      simp only [wfE, Bool.and_eq_true] at hw
      obtain ⟨hwl, hwr⟩ := hw
      simp only [toAstE, ev_ne]
      refine ExprTri.bind (ihl F ctx gs σ g _ he hh hwl) (fun h => by simp [eval, h]) (fun a ha => ?_)
      refine ExprTri.bind (ihr F ctx gs σ g _ he hh hwr) (fun h => by simp [eval, ha, h]) (fun b hb => ?_)
      simp only [eval, ha, hb]
      exact ExprTri.after (EOk.lift (equalsV_sem a b σ)) (ExprTri.pure (vmSem.ofBool (!vmSem.eqv a b)) gs σ)
  | neg e ih =>
    intro F ctx gs σ g k he hh hw
    cases F with
    | zero => exact .inl (evalExpr_zero _ _ _ _)
    | succ F =>
      simp only [wfE] at hw
      simp only [toAstE, ev_sub]
      refine ExprTri.bind (ih F ctx gs σ g _ he hh hw) (fun h => by simp [eval, h]) (fun a ha => ?_)
      simp only [eval, ha]
      obtain ⟨av, has⟩ := a
      cases av <;> simp only [vmSem] <;> first
        | exact .inr ⟨fun v hv => (by cases hv), fun _ => ⟨_, fun hh => Err.noConfusion hh, eerr_eRt _ gs σ⟩⟩
        | exact ExprTri.pure ⟨_, rfl⟩ gs σ
  | bnot e ih =>
    intro F ctx gs σ g k he hh hw
    cases F with
    | zero => exact .inl (evalExpr_zero _ _ _ _)
    | succ F =>
      simp only [wfE] at hw
      simp only [toAstE, ev_xor]
      refine ExprTri.bind (ih F ctx gs σ g _ he hh hw) (fun h => by simp [eval, h]) (fun a ha => ?_)
      simp only [eval, ha]
      obtain ⟨av, has⟩ := a
      cases av <;> simp only [vmSem] <;> first
        | exact .inr ⟨fun v hv => (by cases hv), fun _ => ⟨_, fun hh => Err.noConfusion hh, eerr_eRt _ gs σ⟩⟩
        | exact ExprTri.pure ⟨_, rfl⟩ gs σ
  | lnot e ih =>
    intro F ctx gs σ g k he hh hw
    cases F with
    | zero => exact .inl (evalExpr_zero _ _ _ _)
    | succ F =>
      simp only [wfE] at hw
      simp only [toAstE, ev_not]
      refine ExprTri.bind (ih F ctx gs σ g _ he hh hw) (fun h => by simp [eval, h]) (fun a ha => ?_)
      simp only [eval, ha]
      exact ExprTri.after (EOk.lift (isFalsy_sem a σ)) (ExprTri.pure (vmSem.ofBool (vmSem.falsy a)) gs σ)
  | plus e ih =>
    intro F ctx gs σ g k he hh hw
    cases F with
    | zero => exact .inl (evalExpr_zero _ _ _ _)
    | succ F =>
      simp only [wfE] at hw
      simp only [toAstE, ev_plus]
      refine ExprTri.bind (ih F ctx gs σ g _ he hh hw) (fun h => by simp [eval, h]) (fun a ha => ?_)
      simp only [eval, ha]
      exact ExprTri.pure a gs σ
  | cond c t f ihc iht ihf =>
    intro F ctx gs σ g k he hh hw
    cases F with
    | zero => exact .inl (evalExpr_zero _ _ _ _)
    | succ F =>
      simp only [wfE, Bool.and_eq_true] at hw
      obtain ⟨⟨hwc, hwt⟩, hwf⟩ := hw
      simp only [toAstE, evalExpr.eq_12]
      refine ExprTri.bind (ihc F ctx gs σ g _ he hh hwc) (fun h => by simp [eval, h]) (fun a ha => ?_)
      refine ExprTri.after (EOk.lift (isFalsy_sem a σ)) ?_
      simp only [eval, ha]
      cases hb : vmSem.falsy a with
      | true =>
        simp only [if_true]
        exact ihf F ctx gs σ g _ he hh hwf
      | false =>
        simp only [Bool.false_eq_true, if_false]
        exact iht F ctx gs σ g _ he hh hwt
  | land l r ihl ihr =>
    intro F ctx gs σ g k he hh hw
    cases F with
    | zero => exact .inl (evalExpr_zero _ _ _ _)
    | succ F =>
      simp only [wfE, Bool.and_eq_true] at hw
      obtain ⟨hwl, hwr⟩ := hw
      simp only [toAstE, ev_land]
      refine ExprTri.bind (ihl F ctx gs σ g _ he hh hwl) (fun h => by simp [eval, h]) (fun a ha => ?_)
      refine ExprTri.after (EOk.lift (isFalsy_sem a σ)) ?_
      simp only [eval, ha]
      cases hb : vmSem.falsy a with
      | true =>
        simp only [if_true]
        exact ExprTri.pure a gs σ
      | false =>
        simp only [Bool.false_eq_true, if_false]
        exact ihr F ctx gs σ g _ he hh hwr
  | lor l r ihl ihr =>
    intro F ctx gs σ g k he hh hw
    cases F with
    | zero => exact .inl (evalExpr_zero _ _ _ _)
    | succ F =>
      simp only [wfE, Bool.and_eq_true] at hw
      obtain ⟨hwl, hwr⟩ := hw
      simp only [toAstE, ev_lor]
      refine ExprTri.bind (ihl F ctx gs σ g _ he hh hwl) (fun h => by simp [eval, h]) (fun a ha => ?_)
      refine ExprTri.after (EOk.lift (isFalsy_sem a σ)) ?_
      simp only [eval, ha]
      cases hb : vmSem.falsy a with
      | true =>
        simp only [if_true]
        exact ihr F ctx gs σ g _ he hh hwr
      | false =>
        simp only [Bool.false_eq_true, if_false]
        exact ExprTri.pure a gs σ

end

end Tengo.Proofs.C01Bridge

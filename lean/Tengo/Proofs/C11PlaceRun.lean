import Tengo.Proofs.C11PlaceSimS
import Tengo.Proofs.C11PlaceMono
/-!
C11, PLACEMENT global ↦ local on fragment F3, layer 3: the whole moved program.

* `execSs_app`: a statement list followed by another one.
* `run_pro` / `run_epi`: the prologue `x_i := r_i` fills the local slots (`mkL`), the epilogue `r_i = x_i` writes
  them back (`mkG`).
* `exec_progL`: the main program of `progL` (store the function, call it) in terms of the function body.
* `fnBody_run`: the function body of `progL` in terms of the ORIGINAL statements on the globals.
* `placement_forward`: whatever the original computes (globals / run-time error / `bad`), the moved program computes
  the corresponding result (`tP`); `placement_progress`: if the moved program answers at all, so does the original.
-/
set_option linter.unusedVariables false
set_option linter.unusedSimpArgs false
namespace Tengo.Proofs.C11Place
open Tengo.Model Tengo.Model.F3
open Tengo.Model.F0 (Sem upd)
variable {V : Type}

/-! ### environments -/

theorem mkL_zero (g : Nat → V) (l0 : Locals V) : mkL 0 g l0 = l0 := by
  funext i
  simp only [mkL, Nat.not_lt_zero, if_false]

theorem mkL_succ (j : Nat) (g : Nat → V) (l0 : Locals V) : updL (mkL j g l0) j (g j) = mkL (j + 1) g l0 := by
  funext i
  simp only [updL, mkL]
  by_cases hi : i = j
  · subst hi; simp only [if_true, Nat.lt_succ_self]
  · simp only [hi, if_false]
    by_cases h2 : i < j
    · have : i < j + 1 := by omega
      simp only [h2, this, if_true]
    · have : ¬ i < j + 1 := by omega
      simp only [h2, this, if_false]

theorem mkG_zero (gL g' : Nat → V) : mkG 0 gL g' = gL := by
  funext i
  simp only [mkG, Nat.not_lt_zero, if_false]

theorem mkG_succ (j : Nat) (gL g' : Nat → V) : upd (mkG j gL g') j (g' j) = mkG (j + 1) gL g' := by
  funext i
  simp only [upd, mkG]
  by_cases hi : i = j
  · subst hi; simp only [if_true, Nat.lt_succ_self]
  · simp only [hi, if_false]
    by_cases h2 : i < j
    · have : i < j + 1 := by omega
      simp only [h2, this, if_true]
    · have : ¬ i < j + 1 := by omega
      simp only [h2, this, if_false]

theorem bindArgs_nil : bindArgs ([] : List V) = fun _ => none := by
  funext i
  simp [bindArgs]

theorem len_proFrom : ∀ (c j : Nat), len (proFrom j c) = c
  | 0, _ => rfl
  | c + 1, j => by simp only [proFrom, len, len_proFrom c (j + 1)]

section
variable {E : Env V}

/-! ### lists -/

theorem execSs_app (P : Prog) : ∀ (a b : Stms) (f : Nat) (g : Nat → V) (l : Locals V),
    execSs E P f (app a b) g l =
      match execSs E P f a g l with
      | .done g1 l1 => execSs E P (f - len a) b g1 l1
      | r => r
  | .nil, b, 0, g, l => by simp only [app, execSs]
  | .nil, b, f + 1, g, l => by simp only [app, execSs, len, Nat.sub_zero]
  | .cons s ss, b, 0, g, l => by simp only [app, execSs]
  | .cons s ss, b, f + 1, g, l => by
    simp only [app, execSs, len, Nat.add_sub_add_right]
    cases execS E P f s g l with
    | done g1 l1 => exact execSs_app P ss b f g1 l1
    | brk g1 l1 => rfl
    | cont g1 l1 => rfl
    | ret v g1 => rfl
    | err => rfl
    | out => rfl
    | bad => rfl

/-- The prologue `x_j := r_j; …` with enough fuel. -/
theorem run_pro (P : Prog) : ∀ (c j f : Nat) (g : Nat → V) (l0 : Locals V), c + 2 ≤ f →
    execSs E P f (proFrom j c) g (mkL j g l0) = .done g (mkL (j + c) g l0)
  | 0, j, f, g, l0, h => by
    obtain ⟨f', rfl⟩ : ∃ f', f = f' + 1 := ⟨f - 1, by omega⟩
    simp only [proFrom, execSs, Nat.add_zero]
  | c + 1, j, f, g, l0, h => by
    obtain ⟨f', rfl⟩ : ∃ f', f = f' + 3 := ⟨f - 3, by omega⟩
    simp only [proFrom, execSs, execS, evalE, mkL_succ]
    rw [run_pro P c (j + 1) (f' + 2) g l0 (by omega)]
    have : j + 1 + c = j + (c + 1) := by omega
    rw [this]

/-- The epilogue `r_j = x_j; …` with enough fuel. -/
theorem run_epi (P : Prog) (n : Nat) (gL g' : Nat → V) (l0 : Locals V) : ∀ (c j f : Nat), j + c ≤ n → c + 2 ≤ f →
    execSs E P f (epiFrom j c) (mkG j gL g') (mkL n g' l0) = .done (mkG (j + c) gL g') (mkL n g' l0)
  | 0, j, f, _, h => by
    obtain ⟨f', rfl⟩ : ∃ f', f = f' + 1 := ⟨f - 1, by omega⟩
    simp only [epiFrom, execSs, Nat.add_zero]
  | c + 1, j, f, hj, h => by
    obtain ⟨f', rfl⟩ : ∃ f', f = f' + 3 := ⟨f - 3, by omega⟩
    have hjn : j < n := by omega
    simp only [epiFrom, execSs, execS, evalE, mkL_lt g' l0 hjn, mkG_succ]
    rw [run_epi P n gL g' l0 c (j + 1) (f' + 2) (by omega) (by omega)]
    have : j + 1 + c = j + (c + 1) := by omega
    rw [this]

/-- The epilogue with any fuel: out of fuel, or done. -/
theorem run_epi_any (P : Prog) (n : Nat) (gL g' : Nat → V) (l0 : Locals V) (f : Nat) :
    execSs E P f (epiFrom 0 n) gL (mkL n g' l0) = .out ∨
    execSs E P f (epiFrom 0 n) gL (mkL n g' l0) = .done (mkG n gL g') (mkL n g' l0) := by
  by_cases ho : execSs E P f (epiFrom 0 n) gL (mkL n g' l0) = .out
  · exact Or.inl ho
  · right
    have h1 := execSs_mono E P (Nat.le_add_right f (n + 2)) rfl ho
    have h2 := run_epi (E := E) P n gL g' l0 n 0 (f + (n + 2)) (by omega) (by omega)
    rw [mkG_zero, Nat.zero_add] at h2
    rw [← h1, h2]

/-! ### the main program of `progL` -/

/-- What the call of the function yields for the main program. -/
def tCall : Res V → PRes V
  | .done g' _ => .done g'
  | .ret _ g' => .done g'
  | .brk _ _ => .bad
  | .cont _ _ => .bad
  | .err => .err
  | .out => .out
  | .bad => .bad

theorem exec_progL (n L : Nat) (body : Stms) (hfn : E.asFn (E.cs L) = some L) (F : Nat) (g : Nat → V) :
    exec E (progL n L body) (F + 5) g =
      tCall (execSs E (progL n L body) F (fnBody n body) (upd g n (E.cs L)) (fun _ => none)) := by
  have hgn : upd g n (E.cs L) n = E.cs L := by simp only [upd, if_true]
  have hfns : (progL n L body).fns L = some (fnDef n body) := by simp only [progL, if_true]
  have hmain : (progL n L body).main = .cons (.assign n (.lit L)) (.cons (.expr (.call (.glob n) .nil)) .nil) := rfl
  simp only [exec, hmain, execSs, execS, evalE, evalEs, callFn, hgn, hfn, hfns, fnDef, List.length_nil, ne_eq,
    not_true_eq_false, if_false, bindArgs_nil]
  cases execSs E (progL n L body) F (fnBody n body) (upd g n (E.cs L)) (fun _ => none) <;>
    simp only [tCall, ERes.toRes]

/-! ### the function body -/

/-- What the original's statement result becomes at the end of the function body (`fe` = fuel left for the
epilogue). -/
theorem fnBody_run (P PG : Prog) (n : Nat) (body : Stms) (hc : g2Ss n body = true) (F : Nat) (hF : n + 2 ≤ F)
    (g gL : Nat → V) (hg : ∀ i, i < n → gL i = g i) (lG : Locals V) :
    execSs E P F (fnBody n body) gL (fun _ => none) =
      match tS n gL (fun _ => none) (execSs E PG (F - n) body g lG) with
      | .done g1 l1 => execSs E P (F - n - len (renSs body)) (epiFrom 0 n) g1 l1
      | r => r := by
  unfold fnBody
  rw [execSs_app]
  have hp := run_pro (E := E) P n 0 F gL (fun _ => none) hF
  rw [mkL_zero, Nat.zero_add] at hp
  rw [hp, len_proFrom]
  simp only []
  rw [execSs_app, mkL_congr (fun _ => none) hg, (sim_all E n PG P (F - n)).ss body g lG gL (fun _ => none) hc]

end
end Tengo.Proofs.C11Place

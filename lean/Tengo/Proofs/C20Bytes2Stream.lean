import Tengo.Proofs.C20BytesStream
import Tengo.Proofs.C20Bytes2Scan
/-!
C20, byte level, round 2, part 2: the scanner on a printed token stream with literal tokens.

Like `C20BytesStream`, with a wider token alphabet (`Item2`): operators / delimiters of the expression grammar
including `.` `,` `[` `]`, ASCII words, and literal tokens — Int (decimal, legacy octal, `0b` `0o` `0x`, with `_`), interpreted String, Char (classes `intOk`,
`strOk`, `chrOk` of `C20Bytes2Scan`). `StreamOk2`: every token is followed by a rune that neither fuses with it
(`fuses2`) nor continues it (`identStop` for words, `litStop` for Int literals; quoted literals end by themselves).
-/
namespace Tengo.Proofs.C20Bytes2Stream
open Tengo.Model.Token Tengo.Model.Scanner Tengo.Proofs.C04Scan Tengo.Proofs.C20BytesScan
open Tengo.Proofs.C20Bytes2Scan
open Tengo.Proofs.C20BytesStream (endToks scan_ascii ascii_opBytes ascii_word)

inductive Item2 where
  | op (t : Tok)
  | word (name : Bs)
  | lit (k : Tok) (text : Bs)
  deriving Repr

namespace Item2
def text : Item2 → Bs
  | op t => t.bytes
  | word n => n
  | lit _ x => x
def tok : Item2 → Tok
  | op t => t
  | word n => Tok.lookup n
  | lit k _ => k
def lit' : Item2 → Bs
  | op _ => []
  | word n => n
  | lit _ x => x
def litOk (k : Tok) (x : Bs) : Bool :=
  (k == .Int && intOk x) || (k == .String && strOk x) || (k == .Char && chrOk x) || (k == .Float && floatOk x)
def ok : Item2 → Bool
  | op t => fragOp2 t
  | word n => wordOk n
  | lit k x => litOk k x
/-- `insertSemi` after the token. -/
def insAfter : Item2 → Bool
  | op t => insOp t
  | word n => identSemi (Tok.lookup n)
  | lit _ _ => true
/-- The rune after the token does not change it. -/
def sepOk : Item2 → Nat → Bool
  | op t, r => !fuses2 t r
  | word _, r => identStop r
  | lit k _, r => (k != .Int && k != .Float) || litStop r
end Item2

inductive El2 where
  | it (i : Item2)
  | sp
  deriving Repr

/-- The bytes of a stream. -/
def render2 : List El2 → Bs
  | [] => []
  | .sp :: r => 32 :: render2 r
  | .it i :: r => i.text ++ render2 r

/-- First rune of the rendered stream (`e` = the rune behind it). -/
def firstR2 : List El2 → Nat → Nat
  | [], e => e
  | .sp :: _, _ => 32
  | .it i :: r, e =>
    match i.text with
    | b :: _ => b.toNat
    | [] => firstR2 r e

def StreamOk2 : List El2 → Nat → Prop
  | [], _ => True
  | .sp :: r, e => StreamOk2 r e
  | .it i :: r, e => i.ok = true ∧ i.sepOk (firstR2 r e) = true ∧ StreamOk2 r e

/-- The tokens with the byte offsets the scanner reports, the stream starting at `off`. -/
def place2 : Nat → List El2 → List Token
  | _, [] => []
  | off, .sp :: r => place2 (off + 1) r
  | off, .it i :: r => ⟨i.tok, i.lit', off⟩ :: place2 (off + i.text.length) r

def lastIns2 : Bool → List El2 → Bool
  | ins, [] => ins
  | ins, .sp :: r => lastIns2 ins r
  | _, .it i :: r => lastIns2 i.insAfter r

theorem cur_render2 (r : List El2) (bs : Bs) : cur (chs (render2 r ++ bs)) = firstR2 r (cur (chs bs)) := by
  induction r with
  | nil => rfl
  | cons x r ih =>
    cases x with
    | sp => rfl
    | it i =>
      simp only [render2, firstR2]
      cases h : i.text with
      | nil => simpa using ih
      | cons b bs' => rfl

theorem firstR2_append (a b : List El2) (e : Nat) : firstR2 (a ++ b) e = firstR2 a (firstR2 b e) := by
  induction a with
  | nil => rfl
  | cons x a ih =>
    cases x with
    | sp => rfl
    | it i =>
      simp only [List.cons_append, firstR2]
      cases i.text with
      | nil => exact ih
      | cons b bs => rfl

theorem streamOk2_append (a b : List El2) (e : Nat) :
    StreamOk2 (a ++ b) e ↔ StreamOk2 a (firstR2 b e) ∧ StreamOk2 b e := by
  induction a with
  | nil => simp [StreamOk2]
  | cons x a ih =>
    cases x with
    | sp => simpa [StreamOk2] using ih
    | it i => simp only [List.cons_append, StreamOk2, firstR2_append, ih, and_assoc]

theorem render2_append (a b : List El2) : render2 (a ++ b) = render2 a ++ render2 b := by
  induction a with
  | nil => rfl
  | cons x a ih => cases x <;> simp [render2, ih]

theorem place2_append (a b : List El2) (off : Nat) :
    place2 off (a ++ b) = place2 off a ++ place2 (off + (render2 a).length) b := by
  induction a generalizing off with
  | nil => rfl
  | cons x a ih =>
    cases x with
    | sp => simp only [List.cons_append, place2, render2, List.length_cons, ih]; congr 2; omega
    | it i =>
      simp only [List.cons_append, place2, render2, List.length_append, ih]
      congr 3; omega

theorem lastIns2_append (a b : List El2) (ins : Bool) : lastIns2 ins (a ++ b) = lastIns2 (lastIns2 ins a) b := by
  induction a generalizing ins with
  | nil => rfl
  | cons x a ih => cases x <;> simp [lastIns2, ih]

/-- **One token.** -/
theorem scan_item (cls : Nat → Nat) (i : Item2) (hi : i.ok = true) (bs : Bs) (off : Nat) (ins : Bool)
    (hs : i.sepOk (cur (chs bs)) = true) :
    scanLoop cls (chs i.text ++ chs bs) off ins =
      { toks := ⟨i.tok, i.lit', off⟩ :: (scanLoop cls (chs bs) (off + i.text.length) i.insAfter).toks,
        errs := (scanLoop cls (chs bs) (off + i.text.length) i.insAfter).errs } := by
  cases i with
  | op t =>
    simp only [Item2.sepOk, Bool.not_eq_true'] at hs
    exact scanLoop_op2 cls t hi bs off ins hs
  | word n => exact scanLoop_word cls n hi (chs bs) off ins (clean_chs bs) hs
  | lit k x =>
    simp only [Item2.ok, Item2.litOk, Bool.or_eq_true, Bool.and_eq_true, beq_iff_eq] at hi
    rcases hi with ((⟨rfl, h⟩ | ⟨rfl, h⟩) | ⟨rfl, h⟩) | ⟨rfl, h⟩
    · have hs' : litStop (cur (chs bs)) = true := by simpa [Item2.sepOk] using hs
      exact scanLoop_int cls x h bs off ins hs'
    · exact scanLoop_str cls x h bs off ins
    · exact scanLoop_chr cls x h bs off ins
    · have hs' : litStop (cur (chs bs)) = true := by simpa [Item2.sepOk] using hs
      exact scanLoop_float cls x h bs off ins hs'

/-- **Scanner on a printed token stream.** -/
theorem scan_stream2 (cls : Nat → Nat) (els : List El2) :
    ∀ (off : Nat) (ins : Bool) (bs : Bs), StreamOk2 els (cur (chs bs)) →
      scanLoop cls (chs (render2 els ++ bs)) off ins =
        { toks := place2 off els ++ (scanLoop cls (chs bs) (off + (render2 els).length) (lastIns2 ins els)).toks,
          errs := (scanLoop cls (chs bs) (off + (render2 els).length) (lastIns2 ins els)).errs } := by
  induction els with
  | nil => intro off ins bs _; simp [render2, place2, lastIns2]
  | cons x r ih =>
    intro off ins bs hok
    cases x with
    | sp =>
      simp only [render2, List.cons_append, chs_cons, place2, lastIns2, List.length_cons]
      rw [scanLoop_space cls _ off ins (clean_chs _), ih (off + 1) ins bs hok]
      have : off + 1 + (render2 r).length = off + ((render2 r).length + 1) := by omega
      rw [this]
    | it i =>
      obtain ⟨hi, hsep, hr⟩ := hok
      rw [← cur_render2] at hsep
      simp only [render2, List.append_assoc, place2, lastIns2, List.length_append]
      rw [chs_append, scan_item cls i hi _ off ins hsep, ih _ _ bs hr]
      simp only [Nat.add_assoc, List.cons_append]

/-! ### A whole source -/

theorem ascii_extra (t : Tok) (h : extraOp t = true) : Ascii t.bytes := by
  unfold Ascii
  cases t <;> first | (exact absurd h (by decide)) | decide

theorem ascii_numByte (base : Nat) (hb : base ≤ 16) (b : UInt8) (h : numByte base b = true) : isAscii b = true := by
  simp only [numByte, Bool.or_eq_true, beq_iff_eq, decide_eq_true_eq] at h
  simp only [isAscii, Bool.and_eq_true, decide_eq_true_eq]
  rcases h with h | h
  · omega
  · unfold digitVal at h
    split at h
    · next hc => simp only [Bool.and_eq_true, decide_eq_true_eq] at hc; omega
    · split at h
      · next hc => simp only [Bool.and_eq_true, decide_eq_true_eq] at hc; omega
      · split at h
        · next hc => simp only [Bool.and_eq_true, decide_eq_true_eq] at hc; omega
        · omega

theorem ascii_all (base : Nat) (hb : base ≤ 16) (ds : Bs) (h : ds.all (numByte base) = true) : Ascii ds :=
  fun b hb' => ascii_numByte base hb b (List.all_eq_true.mp h b hb')

theorem ascii_int (x : Bs) (h : intOk x = true) : Ascii x := by
  cases x with
  | nil => simp [intOk] at h
  | cons d ds =>
    simp only [intOk, Bool.and_eq_true] at h
    obtain ⟨hd, hrest⟩ := h
    have hda : isAscii d = true := by
      simp only [isDec, Bool.and_eq_true, decide_eq_true_eq] at hd
      simp only [isAscii, Bool.and_eq_true, decide_eq_true_eq]
      omega
    cases ds with
    | nil => intro b hb; simp only [List.mem_singleton] at hb; rw [hb]; exact hda
    | cons p r =>
      replace hrest : (if (d.toNat == 48) = true ∧ isPrefix p = true then r.all (numByte (baseOf p))
          else (p :: r).all (numByte 10)) = true := hrest
      by_cases hpre : (d.toNat == 48) = true ∧ isPrefix p = true
      · rw [if_pos hpre] at hrest
        have hb16 : baseOf p ≤ 16 := by
          unfold baseOf
          split
          · omega
          · split <;> omega
        have hpa : isAscii p = true := by
          have hip := hpre.2
          simp only [isPrefix, Bool.or_eq_true, beq_iff_eq] at hip
          simp only [isAscii, Bool.and_eq_true, decide_eq_true_eq]
          rcases hip with (h | h) | h <;> have := lowerB_cases _ _ h <;> omega
        intro b hb
        rcases List.mem_cons.mp hb with rfl | hb
        · exact hda
        · rcases List.mem_cons.mp hb with rfl | hb
          · exact hpa
          · exact ascii_all _ hb16 r hrest b hb
      · rw [if_neg hpre] at hrest
        intro b hb
        rcases List.mem_cons.mp hb with rfl | hb
        · exact hda
        · exact ascii_all 10 (by omega) (p :: r) hrest b hb

def baseOkM : BMode → Prop
  | .digits _ base _ _ => base ≤ 16
  | _ => True

theorem escNext_ok (q e : Nat) (hq0 : 0 < q ∧ q < 128) (m : BMode) (h : escNext q e = some m) :
    baseOkM m ∧ 0 < e ∧ e < 128 := by
  unfold escNext at h
  split at h
  · next h1 =>
    simp only [Option.some.injEq] at h
    subst h
    simp only [isSimpleEsc, Bool.or_eq_true, beq_iff_eq] at h1
    refine ⟨trivial, ?_⟩
    omega
  · split at h
    · next h2 =>
      simp only [Option.some.injEq] at h
      subst h
      simp only [Bool.and_eq_true, decide_eq_true_eq] at h2
      exact ⟨by simp [baseOkM], by omega, by omega⟩
    · split at h
      · next h3 =>
        simp only [Option.some.injEq] at h
        subst h
        simp only [beq_iff_eq] at h3
        exact ⟨by simp [baseOkM], by omega, by omega⟩
      · split at h
        · next h4 =>
          simp only [Option.some.injEq] at h
          subst h
          simp only [beq_iff_eq] at h4
          exact ⟨by simp [baseOkM], by omega, by omega⟩
        · split at h
          · next h5 =>
            simp only [Option.some.injEq] at h
            subst h
            simp only [beq_iff_eq] at h5
            exact ⟨by simp [baseOkM], by omega, by omega⟩
          · cases h

theorem ascii_body (q : Nat) (hq0 : 0 < q ∧ q < 128) : ∀ (body : Bs) (m : BMode), baseOkM m →
    bodyOk q m body = true → Ascii body := by
  intro body
  induction body with
  | nil => intro _ _ _ b hb; simp at hb
  | cons c r ih =>
    intro m hm h b hb
    cases m with
    | esc =>
      simp only [bodyOk] at h
      cases hn : escNext q c.toNat with
      | none => simp [hn] at h
      | some m' =>
        simp only [hn] at h
        obtain ⟨hb1, hb2, hb3⟩ := escNext_ok q c.toNat hq0 m' hn
        rcases List.mem_cons.mp hb with rfl | hb
        · simp only [isAscii, Bool.and_eq_true, decide_eq_true_eq]; omega
        · exact ih m' hb1 h b hb
    | digits n base max x =>
      simp only [bodyOk, Bool.and_eq_true, decide_eq_true_eq] at h
      have hbase : base ≤ 16 := hm
      rcases List.mem_cons.mp hb with rfl | hb
      · exact ascii_numByte base hbase b (by simp [numByte, h.1])
      · by_cases hn : n ≤ 1
        · simp only [hn, if_true, Bool.and_eq_true] at h
          exact ih .normal trivial h.2.2 b hb
        · simp only [hn, if_false] at h
          exact ih (.digits (n - 1) base max (x * base + digitVal c.toNat)) hbase h.2 b hb
    | normal =>
      simp only [bodyOk] at h
      by_cases h92 : c.toNat = 92
      · simp only [h92, beq_self_eq_true, if_true] at h
        rcases List.mem_cons.mp hb with rfl | hb
        · simp only [isAscii, Bool.and_eq_true, decide_eq_true_eq]; omega
        · exact ih .esc trivial h b hb
      · have h92' : (c.toNat == 92) = false := by simpa using h92
        simp only [h92', Bool.false_eq_true, if_false, Bool.and_eq_true] at h
        rcases List.mem_cons.mp hb with rfl | hb
        · have := h.1
          simp only [plainB, Bool.and_eq_true, decide_eq_true_eq] at this
          simp only [isAscii, Bool.and_eq_true, decide_eq_true_eq]
          omega
        · exact ih .normal trivial h.2 b hb

theorem ascii_item (i : Item2) (hi : i.ok = true) : Ascii i.text := by
  cases i with
  | op t =>
    simp only [Item2.ok, fragOp2, Bool.or_eq_true] at hi
    rcases hi with h | h
    · exact ascii_opBytes t h
    · exact ascii_extra t h
  | word n => exact ascii_word n hi
  | lit k x =>
    simp only [Item2.ok, Item2.litOk, Bool.or_eq_true, Bool.and_eq_true, beq_iff_eq] at hi
    rcases hi with ((⟨rfl, h⟩ | ⟨rfl, h⟩) | ⟨rfl, h⟩) | ⟨rfl, h⟩
    · exact ascii_int x h
    · simp only [strOk, Bool.and_eq_true, beq_iff_eq] at h
      have hb := ascii_body 34 (by omega) _ .normal trivial h.2
      intro b hb'
      simp only [Item2.text] at hb'
      rw [h.1] at hb'
      simp only [List.mem_cons, List.mem_append, List.not_mem_nil, or_false] at hb'
      rcases hb' with rfl | hb' | rfl
      · decide
      · exact hb b hb'
      · decide
    · simp only [chrOk, Bool.and_eq_true, beq_iff_eq] at h
      have hb := ascii_body 39 (by omega) _ .normal trivial h.1.2
      intro b hb'
      simp only [Item2.text] at hb'
      rw [h.1.1] at hb'
      simp only [List.mem_cons, List.mem_append, List.not_mem_nil, or_false] at hb'
      rcases hb' with rfl | hb' | rfl
      · decide
      · exact hb b hb'
      · decide
    · obtain ⟨a, dotp, r2, rfl, -, hda, hdot, -, hexp⟩ := floatOk_split x h
      have hdig : ∀ ds : Bs, ds.all isDecByte = true → Ascii ds := by
        intro ds hds b hb
        have := List.all_eq_true.mp hds b hb
        simp only [isDecByte, isDec, Bool.and_eq_true, decide_eq_true_eq] at this
        simp only [isAscii, Bool.and_eq_true, decide_eq_true_eq]
        omega
      have hdp : Ascii dotp := by
        rcases hdot with rfl | ⟨f, rfl, hdf⟩
        · intro b hb; simp at hb
        · intro b hb
          rcases List.mem_cons.mp hb with rfl | hb
          · decide
          · exact hdig f hdf b hb
      have hr2 : Ascii r2 := by
        by_cases hn : r2 = []
        · subst hn; intro b hb; simp at hb
        · obtain ⟨e, sg, xs, rfl, he, hsg, -, hdx⟩ := expOk_split r2 hexp hn
          intro b hb
          rcases List.mem_cons.mp hb with rfl | hb
          · simp only [isAscii, Bool.and_eq_true, decide_eq_true_eq]; omega
          · rcases List.mem_append.mp hb with hb | hb
            · rcases hsg with rfl | rfl | rfl
              · simp at hb
              · simp only [List.mem_singleton] at hb; rw [hb]; decide
              · simp only [List.mem_singleton] at hb; rw [hb]; decide
            · exact hdig xs hdx b hb
      intro b hb'
      simp only [Item2.text, List.mem_append] at hb'
      rcases hb' with (hb' | hb') | hb'
      · exact hdig a hda b hb'
      · exact hdp b hb'
      · exact hr2 b hb'

theorem ascii_render2 (els : List El2) (e : Nat) (h : StreamOk2 els e) : Ascii (render2 els) := by
  induction els with
  | nil => intro b hb; simp [render2] at hb
  | cons x r ih =>
    cases x with
    | sp =>
      intro b hb
      simp only [render2, List.mem_cons] at hb
      rcases hb with rfl | hb
      · decide
      · exact ih h b hb
    | it i =>
      obtain ⟨hi, _, hr⟩ := h
      intro b hb
      simp only [render2, List.mem_append] at hb
      rcases hb with hb | hb
      · exact ascii_item i hi b hb
      · exact ih hr b hb

/-- **scan_print_tokens2.** A source that is a printed token stream over the wider alphabet (operators and
delimiters incl. `.` `,` `[` `]`, ASCII words, decimal Int / interpreted String / Char literals, blanks; every token
followed by a rune that does not fuse with / continue it) scans to exactly those tokens with their byte offsets,
followed by the end-of-input tokens, and the scanner reports no error. -/
theorem scan_print_tokens2 (cls : Nat → Nat) (els : List El2) (h : StreamOk2 els eofR) :
    (scan cls (render2 els)).toks = place2 0 els ++ endToks (render2 els).length (lastIns2 false els) ∧
    (scan cls (render2 els)).errs = [] := by
  obtain ⟨h1, h2⟩ := scan_ascii cls (render2 els) (ascii_render2 els eofR h)
  have hs := scan_stream2 cls els 0 false [] h
  simp only [List.append_nil, Nat.zero_add] at hs
  rw [h1, h2, hs]
  simp only
  rw [chs_nil, scanLoop]
  cases lastIns2 false els <;> simp [endToks]

end Tengo.Proofs.C20Bytes2Stream

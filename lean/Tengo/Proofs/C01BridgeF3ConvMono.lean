import Tengo.Model.F3
/-!
Fuel monotonicity of the reference semantics of fragment F3 (`F3.evalE`, `evalEs`, `callFn`, `execS`, `execSs`,
`exec`): a result other than `out` is the result with every larger fuel. (Determinism is trivial: they are functions.)
-/
set_option linter.unusedVariables false
namespace Tengo.Proofs.C01BridgeF3Conv
open Tengo.Model.F3

variable {V : Type} (E : Env V) (P : Prog)

structure Mono (f : Nat) : Prop where
  e : ∀ e g l, evalE E P f e g l ≠ .out → evalE E P (f + 1) e g l = evalE E P f e g l
  es : ∀ es g l, evalEs E P f es g l ≠ .out → evalEs E P (f + 1) es g l = evalEs E P f es g l
  call : ∀ fv vs g, callFn E P f fv vs g ≠ .out → callFn E P (f + 1) fv vs g = callFn E P f fv vs g
  s : ∀ s g l, execS E P f s g l ≠ .out → execS E P (f + 1) s g l = execS E P f s g l
  ss : ∀ ss g l, execSs E P f ss g l ≠ .out → execSs E P (f + 1) ss g l = execSs E P f ss g l

variable {E P}

theorem mono_zero : Mono E P 0 :=
  ⟨fun e g l h => absurd (by simp only [evalE]) h, fun es g l h => absurd (by simp only [evalEs]) h,
   fun fv vs g h => absurd (by simp only [callFn]) h, fun s g l h => absurd (by simp only [execS]) h,
   fun ss g l h => absurd (by simp only [execSs]) h⟩

theorem toRes_out {r : ERes V} (h : r.toRes ≠ .out) : r ≠ .out := fun h' => h (by rw [h']; rfl)

section
variable {f : Nat} (ih : Mono E P f)
include ih

theorem mono_e_succ (e : Ex) (g : Nat → V) (l : Locals V) (h : evalE E P (f + 1) e g l ≠ .out) :
    evalE E P (f + 1 + 1) e g l = evalE E P (f + 1) e g l := by
  cases e with
  | lit k => simp only [evalE]
  | tru => simp only [evalE]
  | fls => simp only [evalE]
  | undef => simp only [evalE]
  | glob i => simp only [evalE]
  | loc i => simp only [evalE]
  | bin tok a b =>
    simp only [evalE] at h ⊢
    have ha : evalE E P f a g l ≠ .out := fun h' => h (by rw [h'])
    rw [ih.e a g l ha]
    cases hea : evalE E P f a g l with
    | val x g1 =>
      rw [hea] at h
      dsimp only at h ⊢
      have hb : evalE E P f b g1 l ≠ .out := fun h' => h (by rw [h'])
      rw [ih.e b g1 l hb]
    | err => rfl
    | out => rfl
    | bad => rfl
  | eq a b =>
    simp only [evalE] at h ⊢
    have ha : evalE E P f a g l ≠ .out := fun h' => h (by rw [h'])
    rw [ih.e a g l ha]
    cases hea : evalE E P f a g l with
    | val x g1 =>
      rw [hea] at h
      dsimp only at h ⊢
      have hb : evalE E P f b g1 l ≠ .out := fun h' => h (by rw [h'])
      rw [ih.e b g1 l hb]
    | err => rfl
    | out => rfl
    | bad => rfl
  | ne a b =>
    simp only [evalE] at h ⊢
    have ha : evalE E P f a g l ≠ .out := fun h' => h (by rw [h'])
    rw [ih.e a g l ha]
    cases hea : evalE E P f a g l with
    | val x g1 =>
      rw [hea] at h
      dsimp only at h ⊢
      have hb : evalE E P f b g1 l ≠ .out := fun h' => h (by rw [h'])
      rw [ih.e b g1 l hb]
    | err => rfl
    | out => rfl
    | bad => rfl
  | neg a =>
    simp only [evalE] at h ⊢
    have ha : evalE E P f a g l ≠ .out := fun h' => h (by rw [h'])
    rw [ih.e a g l ha]
  | bnot a =>
    simp only [evalE] at h ⊢
    have ha : evalE E P f a g l ≠ .out := fun h' => h (by rw [h'])
    rw [ih.e a g l ha]
  | lnot a =>
    simp only [evalE] at h ⊢
    have ha : evalE E P f a g l ≠ .out := fun h' => h (by rw [h'])
    rw [ih.e a g l ha]
  | plus a =>
    simp only [evalE] at h ⊢
    exact ih.e a g l h
  | cond c t e =>
    simp only [evalE] at h ⊢
    have ha : evalE E P f c g l ≠ .out := fun h' => h (by rw [h'])
    rw [ih.e c g l ha]
    cases hea : evalE E P f c g l with
    | val x g1 =>
      rw [hea] at h
      dsimp only at h ⊢
      cases hfa : E.S.falsy x with
      | true =>
        rw [hfa] at h
        simp only [if_true] at h ⊢
        exact ih.e e g1 l h
      | false =>
        rw [hfa] at h
        simp only [Bool.false_eq_true, if_false] at h ⊢
        exact ih.e t g1 l h
    | err => rfl
    | out => rfl
    | bad => rfl
  | land a b =>
    simp only [evalE] at h ⊢
    have ha : evalE E P f a g l ≠ .out := fun h' => h (by rw [h'])
    rw [ih.e a g l ha]
    cases hea : evalE E P f a g l with
    | val x g1 =>
      rw [hea] at h
      dsimp only at h ⊢
      cases hfa : E.S.falsy x with
      | true => simp only [if_true]
      | false =>
        rw [hfa] at h
        simp only [Bool.false_eq_true, if_false] at h ⊢
        exact ih.e b g1 l h
    | err => rfl
    | out => rfl
    | bad => rfl
  | lor a b =>
    simp only [evalE] at h ⊢
    have ha : evalE E P f a g l ≠ .out := fun h' => h (by rw [h'])
    rw [ih.e a g l ha]
    cases hea : evalE E P f a g l with
    | val x g1 =>
      rw [hea] at h
      dsimp only at h ⊢
      cases hfa : E.S.falsy x with
      | true =>
        rw [hfa] at h
        simp only [if_true] at h ⊢
        exact ih.e b g1 l h
      | false => simp only [Bool.false_eq_true, if_false]
    | err => rfl
    | out => rfl
    | bad => rfl
  | call fe args =>
    simp only [evalE] at h ⊢
    have ha : evalE E P f fe g l ≠ .out := fun h' => h (by rw [h'])
    rw [ih.e fe g l ha]
    cases hea : evalE E P f fe g l with
    | val x g1 =>
      rw [hea] at h
      dsimp only at h ⊢
      have hb : evalEs E P f args g1 l ≠ .out := fun h' => h (by rw [h'])
      rw [ih.es args g1 l hb]
      cases heb : evalEs E P f args g1 l with
      | vals vs g2 =>
        rw [heb] at h
        dsimp only at h ⊢
        exact ih.call x vs g2 h
      | err => rfl
      | out => rfl
      | bad => rfl
    | err => rfl
    | out => rfl
    | bad => rfl

theorem mono_es_succ (es : Exs) (g : Nat → V) (l : Locals V) (h : evalEs E P (f + 1) es g l ≠ .out) :
    evalEs E P (f + 1 + 1) es g l = evalEs E P (f + 1) es g l := by
  cases es with
  | nil => simp only [evalEs]
  | cons e es =>
    simp only [evalEs] at h ⊢
    have ha : evalE E P f e g l ≠ .out := fun h' => h (by rw [h'])
    rw [ih.e e g l ha]
    cases hea : evalE E P f e g l with
    | val x g1 =>
      rw [hea] at h
      dsimp only at h ⊢
      have hb : evalEs E P f es g1 l ≠ .out := fun h' => h (by rw [h'])
      rw [ih.es es g1 l hb]
    | err => rfl
    | out => rfl
    | bad => rfl

theorem mono_call_succ (fv : V) (vs : List V) (g : Nat → V) (h : callFn E P (f + 1) fv vs g ≠ .out) :
    callFn E P (f + 1 + 1) fv vs g = callFn E P (f + 1) fv vs g := by
  simp only [callFn] at h ⊢
  cases hfn : E.asFn fv with
  | none => rfl
  | some k =>
    rw [hfn] at h
    dsimp only at h ⊢
    cases hfd : P.fns k with
    | none => rfl
    | some fd =>
      rw [hfd] at h
      dsimp only at h ⊢
      by_cases hlen : vs.length ≠ fd.nparams
      · simp only [if_pos hlen]
      · simp only [if_neg hlen] at h ⊢
        have hb : execSs E P f fd.body g (bindArgs vs) ≠ .out := fun h' => h (by rw [h'])
        rw [ih.ss fd.body g (bindArgs vs) hb]

/-- The three loops: one more round. -/
theorem mono_s_succ (s : Stm) (g : Nat → V) (l : Locals V) (h : execS E P (f + 1) s g l ≠ .out) :
    execS E P (f + 1 + 1) s g l = execS E P (f + 1) s g l := by
  cases s with
  | expr e =>
    simp only [execS] at h ⊢
    have ha : evalE E P f e g l ≠ .out := fun h' => h (by rw [h']; rfl)
    rw [ih.e e g l ha]
  | assign i e =>
    simp only [execS] at h ⊢
    have ha : evalE E P f e g l ≠ .out := fun h' => h (by rw [h']; rfl)
    rw [ih.e e g l ha]
  | defl i e =>
    simp only [execS] at h ⊢
    have ha : evalE E P f e g l ≠ .out := fun h' => h (by rw [h']; rfl)
    rw [ih.e e g l ha]
  | setl i e =>
    simp only [execS] at h ⊢
    have ha : evalE E P f e g l ≠ .out := fun h' => h (by rw [h']; rfl)
    rw [ih.e e g l ha]
  | ret e =>
    simp only [execS] at h ⊢
    have ha : evalE E P f e g l ≠ .out := fun h' => h (by rw [h']; rfl)
    rw [ih.e e g l ha]
  | ret0 => simp only [execS]
  | brk => simp only [execS]
  | cont => simp only [execS]
  | ifs c body =>
    simp only [execS] at h ⊢
    have ha : evalE E P f c g l ≠ .out := fun h' => h (by rw [h']; rfl)
    rw [ih.e c g l ha]
    cases hea : evalE E P f c g l with
    | val x g1 =>
      rw [hea] at h
      dsimp only at h ⊢
      cases hfa : E.S.falsy x with
      | true => simp only [if_true]
      | false =>
        rw [hfa] at h
        simp only [Bool.false_eq_true, if_false] at h ⊢
        exact ih.ss body g1 l h
    | err => rfl
    | out => rfl
    | bad => rfl
  | ifelse c body els =>
    simp only [execS] at h ⊢
    have ha : evalE E P f c g l ≠ .out := fun h' => h (by rw [h']; rfl)
    rw [ih.e c g l ha]
    cases hea : evalE E P f c g l with
    | val x g1 =>
      rw [hea] at h
      dsimp only at h ⊢
      cases hfa : E.S.falsy x with
      | true =>
        rw [hfa] at h
        simp only [if_true] at h ⊢
        exact ih.ss els g1 l h
      | false =>
        rw [hfa] at h
        simp only [Bool.false_eq_true, if_false] at h ⊢
        exact ih.ss body g1 l h
    | err => rfl
    | out => rfl
    | bad => rfl
  | whil c body =>
    simp only [execS] at h ⊢
    have ha : evalE E P f c g l ≠ .out := fun h' => h (by rw [h']; rfl)
    rw [ih.e c g l ha]
    cases hea : evalE E P f c g l with
    | val x g1 =>
      rw [hea] at h
      dsimp only at h ⊢
      cases hfa : E.S.falsy x with
      | true => simp only [if_true]
      | false =>
        rw [hfa] at h
        simp only [Bool.false_eq_true, if_false] at h ⊢
        have hb : execSs E P f body g1 l ≠ .out := fun h' => h (by rw [h'])
        rw [ih.ss body g1 l hb]
        cases hex : execSs E P f body g1 l with
        | done g2 l2 => rw [hex] at h; exact ih.s _ g2 l2 h
        | cont g2 l2 => rw [hex] at h; exact ih.s _ g2 l2 h
        | brk g2 l2 => rfl
        | ret v g2 => rfl
        | err => rfl
        | out => rfl
        | bad => rfl
    | err => rfl
    | out => rfl
    | bad => rfl
  | forever body =>
    simp only [execS] at h ⊢
    have hb : execSs E P f body g l ≠ .out := fun h' => h (by rw [h'])
    rw [ih.ss body g l hb]
    cases hex : execSs E P f body g l with
    | done g2 l2 => rw [hex] at h; exact ih.s _ g2 l2 h
    | cont g2 l2 => rw [hex] at h; exact ih.s _ g2 l2 h
    | brk g2 l2 => rfl
    | ret v g2 => rfl
    | err => rfl
    | out => rfl
    | bad => rfl
  | for3 c body post =>
    simp only [execS] at h ⊢
    have ha : evalE E P f c g l ≠ .out := fun h' => h (by rw [h']; rfl)
    rw [ih.e c g l ha]
    cases hea : evalE E P f c g l with
    | val x g1 =>
      rw [hea] at h
      dsimp only at h ⊢
      cases hfa : E.S.falsy x with
      | true => simp only [if_true]
      | false =>
        rw [hfa] at h
        simp only [Bool.false_eq_true, if_false] at h ⊢
        have hb : execSs E P f body g1 l ≠ .out := fun h' => h (by rw [h'])
        rw [ih.ss body g1 l hb]
        have hpost : ∀ g2 l2,
            (match execS E P f post g2 l2 with
              | .done g3 l3 => execS E P f (.for3 c body post) g3 l3
              | r => r) ≠ .out →
            (match execS E P (f + 1) post g2 l2 with
              | .done g3 l3 => execS E P (f + 1) (.for3 c body post) g3 l3
              | r => r) =
            (match execS E P f post g2 l2 with
              | .done g3 l3 => execS E P f (.for3 c body post) g3 l3
              | r => r) := by
          intro g2 l2 hp
          have hp1 : execS E P f post g2 l2 ≠ .out := fun h' => hp (by rw [h'])
          rw [ih.s post g2 l2 hp1]
          cases hpx : execS E P f post g2 l2 with
          | done g3 l3 => rw [hpx] at hp; exact ih.s _ g3 l3 hp
          | cont g3 l3 => rfl
          | brk g3 l3 => rfl
          | ret v g3 => rfl
          | err => rfl
          | out => rfl
          | bad => rfl
        cases hex : execSs E P f body g1 l with
        | done g2 l2 => rw [hex] at h; exact hpost g2 l2 h
        | cont g2 l2 => rw [hex] at h; exact hpost g2 l2 h
        | brk g2 l2 => rfl
        | ret v g2 => rfl
        | err => rfl
        | out => rfl
        | bad => rfl
    | err => rfl
    | out => rfl
    | bad => rfl

theorem mono_ss_succ (ss : Stms) (g : Nat → V) (l : Locals V) (h : execSs E P (f + 1) ss g l ≠ .out) :
    execSs E P (f + 1 + 1) ss g l = execSs E P (f + 1) ss g l := by
  cases ss with
  | nil => simp only [execSs]
  | cons s ss =>
    simp only [execSs] at h ⊢
    have ha : execS E P f s g l ≠ .out := fun h' => h (by rw [h'])
    rw [ih.s s g l ha]
    cases hs : execS E P f s g l with
    | done g1 l1 => rw [hs] at h; exact ih.ss ss g1 l1 h
    | cont g2 l2 => rfl
    | brk g2 l2 => rfl
    | ret v g2 => rfl
    | err => rfl
    | out => rfl
    | bad => rfl

end

theorem mono_all : ∀ f, Mono E P f
  | 0 => mono_zero
  | f + 1 =>
    have ih := mono_all f
    ⟨mono_e_succ ih, mono_es_succ ih, mono_call_succ ih, mono_s_succ ih, mono_ss_succ ih⟩

/-- **Fuel monotonicity of `F3.execSs`.** -/
theorem execSs_mono {f f' : Nat} (hf : f ≤ f') (ss : Stms) (g : Nat → V) (l : Locals V)
    (h : execSs E P f ss g l ≠ .out) : execSs E P f' ss g l = execSs E P f ss g l := by
  induction hf with
  | refl => rfl
  | step hle ih => rw [(mono_all _).ss ss g l (by rw [ih]; exact h), ih]

/-- **Fuel monotonicity of `F3.exec`**: a result other than `out` is the result with every larger fuel. -/
theorem exec_mono {f f' : Nat} (hf : f ≤ f') (g : Nat → V) (h : exec E P f g ≠ .out) :
    exec E P f' g = exec E P f g := by
  unfold exec at h ⊢
  have hne : execSs E P f P.main g (fun _ => none) ≠ .out := fun h' => h (by rw [h'])
  rw [execSs_mono hf _ _ _ hne]

end Tengo.Proofs.C01BridgeF3Conv

import Tengo.Proofs.C05AcyclicOps
/-!
C05 `no_fatal_acyclic`, layer 4: the operations of the VM model that DO call the natively recursive functions
(`EQUAL`/`NOTEQUAL`, `BINARYOP` on a string, `INDEX` and `SETSEL*` with a non-string map key, the builtins `copy` and
`string`), at a state whose stack slots are all shallow; then one dispatch of `VM.exec`.
-/
set_option linter.unusedVariables false
namespace Tengo.Proofs.C05Acyclic
open Tengo.Model.Spec Tengo.Model.VM

/-! ### calls and returns: no native recursion outside the builtins -/

theorem nfe_copyArgs (bp numArgs : Nat) : ∀ (n : Nat) (r : Regs), NFE (copyArgs r bp numArgs n)
  | 0, r => by unfold copyArgs; nf
  | n + 1, r => by unfold copyArgs; exact nfe_bind (nfe_setSlot _ _ _) (fun r' => nfe_copyArgs bp numArgs n r')
macro_rules | `(tactic| nf_prim) => `(tactic| with_reducible exact nfe_copyArgs _ _ _ _)
theorem nfx_finishCompiled (f : Fn) (ipAfter : Int) (c : Core) (r : Regs) (numArgs cr k : Nat) (free : List Nat) (cf : Fn) :
    NFX (finishCompiled f ipAfter c r numArgs cr k free cf) := by unfold finishCompiled; nf
theorem nfe_spreadArgs (r : Regs) (n sp : Nat) : NFE (spreadArgs r n sp) := by unfold spreadArgs; nf
theorem nfe_rollUp (cf : Fn) (r : Regs) (n : Nat) : NFE (rollUp cf r n) := by unfold rollUp; nf
theorem nfx_execReturn (w : Nat) (c : Core) : NFX (execReturn w c) := by unfold execReturn; nf
macro_rules | `(tactic| nf_prim) => `(tactic| first
  | with_reducible exact nfx_finishCompiled _ _ _ _ _ _ _ _ _ | with_reducible exact nfe_spreadArgs _ _ _
  | with_reducible exact nfe_rollUp _ _ _ | with_reducible exact nfx_execReturn _ _)

/-! ### at a given state -/

def MG {α} (x : M α) (s : St) : Prop := x s ≠ .error Err.fuel
def EG {α} (x : EM α) (g : GSt) (s : St) : Prop := MG (x g) s
def XG {α} (x : XM α) (g : GSt) (s : St) : Prop := EG x.run g s
/-- read-only in both states, no fuel error, result satisfies `P` -/
def ERO {α} (x : EM α) (g : GSt) (s : St) (P : α → Prop) : Prop := RO (x g) s (fun p => p.2 = g ∧ P p.1)
def XRO {α} (x : XM α) (g : GSt) (s : St) (P : α → Prop) : Prop := ERO x.run g s (fun r => ∀ a, r = .ok a → P a)

theorem mg_of_nf {α} {x : M α} {s : St} (h : NFM x) : MG x s := h s
theorem eg_of_nf {α} {x : EM α} {g : GSt} {s : St} (h : NFE x) : EG x g s := h g s
theorem xg_of_nf {α} {x : XM α} {g : GSt} {s : St} (h : NFX x) : XG x g s := h g s
theorem mg_of_ro {α} {x : M α} {s : St} {P : α → Prop} (h : RO x s P) : MG x s := by
  intro hs; unfold RO at h; rw [hs] at h; exact h rfl

theorem mg_bind {α β} {x : M α} {f : α → M β} {s : St} {P : α → Prop}
    (hx : RO x s P) (hf : ∀ a, P a → MG (f a) s) : MG (x >>= f) s := by
  have e : (x >>= f) s = (x s >>= fun p => f p.1 p.2) := rfl
  unfold MG RO at *
  rw [e]
  cases h : x s with
  | error e => rw [h] at hx; intro (h' : Except.error e = _); cases h'; exact hx rfl
  | ok p => obtain ⟨a, s'⟩ := p; rw [h] at hx; obtain ⟨rfl, hp⟩ := hx; exact hf a hp
theorem mg_bind_nf {α β} {x : M α} {f : α → M β} {s : St}
    (hx : MG x s) (hf : ∀ a, NFM (f a)) : MG (x >>= f) s := by
  have e : (x >>= f) s = (x s >>= fun p => f p.1 p.2) := rfl
  unfold MG at *
  rw [e]
  cases h : x s with
  | error e => intro (h' : Except.error e = _); cases h'; exact hx h
  | ok p => exact hf p.1 p.2

theorem eg_bind {α β} {x : EM α} {f : α → EM β} {g : GSt} {s : St} {P : α → Prop}
    (hx : ERO x g s P) (hf : ∀ a, P a → EG (f a) g s) : EG (x >>= f) g s := by
  have e : (x >>= f) g = (x g >>= fun p => f p.1 p.2) := rfl
  unfold EG
  rw [e]
  refine mg_bind hx ?_
  rintro ⟨a, g'⟩ ⟨rfl, hp⟩
  exact hf a hp
theorem eg_bind_nf {α β} {x : EM α} {f : α → EM β} {g : GSt} {s : St}
    (hx : EG x g s) (hf : ∀ a, NFE (f a)) : EG (x >>= f) g s := by
  have e : (x >>= f) g = (x g >>= fun p => f p.1 p.2) := rfl
  unfold EG
  rw [e]
  exact mg_bind_nf hx (fun p => hf p.1 p.2)
theorem eg_lift {α} {x : M α} {g : GSt} {s : St} (h : MG x s) : EG (Tengo.Model.Spec.liftM x) g s := by
  have e : (Tengo.Model.Spec.liftM x : EM α) g = (x >>= fun a => Pure.pure (a, g)) := rfl
  unfold EG
  rw [e]
  exact mg_bind_nf h (fun _ => nfm_pure _)
theorem eg_of_gr {α} {x : EM α} {g : GSt} {s : St} (h : GR x g s) : EG x g s := by
  intro hs; unfold GR at h; rw [hs] at h; exact h rfl
theorem eg_of_ero {α} {x : EM α} {g : GSt} {s : St} {P : α → Prop} (h : ERO x g s P) : EG x g s := mg_of_ro h

theorem xg_bind {α β} {x : XM α} {f : α → XM β} {g : GSt} {s : St} {P : α → Prop}
    (hx : XRO x g s P) (hf : ∀ a, P a → XG (f a) g s) : XG (x >>= f) g s := by
  have e : (x >>= f).run = (x.run >>= ExceptT.bindCont f) := rfl
  unfold XG
  rw [e]
  refine eg_bind hx ?_
  intro r hr
  cases r with
  | ok a => exact hf a (hr a rfl)
  | error ft => exact eg_of_nf (nfe_pure _)
theorem xg_bind_nf {α β} {x : XM α} {f : α → XM β} {g : GSt} {s : St}
    (hx : XG x g s) (hf : ∀ a, NFX (f a)) : XG (x >>= f) g s := by
  have e : (x >>= f).run = (x.run >>= ExceptT.bindCont f) := rfl
  unfold XG
  rw [e]
  refine eg_bind_nf hx ?_
  intro r
  cases r with
  | ok a => exact hf a
  | error ft => exact nfe_pure _
theorem xg_em {α} {x : EM α} {g : GSt} {s : St} (h : EG x g s) : XG (em x) g s := by
  have e : (em x).run = (x >>= fun a => Pure.pure (Except.ok a)) := rfl
  unfold XG
  rw [e]
  exact eg_bind_nf h (fun _ => nfe_pure _)

theorem ero_pure {α} {a : α} {g : GSt} {s : St} {P : α → Prop} (h : P a) : ERO (Pure.pure a : EM α) g s P :=
  ⟨rfl, rfl, h⟩
theorem ero_bind {α β} {x : EM α} {f : α → EM β} {g : GSt} {s : St} {P : α → Prop} {Q : β → Prop}
    (hx : ERO x g s P) (hf : ∀ a, P a → ERO (f a) g s Q) : ERO (x >>= f) g s Q := by
  have e : (x >>= f) g = (x g >>= fun p => f p.1 p.2) := rfl
  unfold ERO
  rw [e]
  refine RO.bind hx ?_
  rintro ⟨a, g'⟩ ⟨rfl, hp⟩
  exact hf a hp
theorem ero_lift {α} {x : M α} {g : GSt} {s : St} {P : α → Prop} (h : RO x s P) :
    ERO (Tengo.Model.Spec.liftM x) g s P := by
  have e : (Tengo.Model.Spec.liftM x : EM α) g = (x >>= fun a => Pure.pure (a, g)) := rfl
  unfold ERO
  rw [e]
  exact RO.bind h (fun a hp => RO.pure ⟨rfl, hp⟩)
theorem ero_mono {α} {x : EM α} {g : GSt} {s : St} {P Q : α → Prop} (h : ERO x g s P) (hpq : ∀ a, P a → Q a) :
    ERO x g s Q := RO.mono h (fun p hp => ⟨hp.1, hpq _ hp.2⟩)
theorem ero_eRt {α} (msg : String) {g : GSt} {s : St} {P : α → Prop} : ERO (eRt msg : EM α) g s P :=
  ero_lift (RO.throw (by simp))
theorem ero_eUnsup {α} (msg : String) {g : GSt} {s : St} {P : α → Prop} : ERO (eUnsup msg : EM α) g s P :=
  ero_lift (RO.throw (by simp))
theorem ero_goPanic {α} (msg : String) {g : GSt} {s : St} {P : α → Prop} : ERO (goPanic msg : EM α) g s P :=
  ero_lift (RO.throw (by simp))

theorem xro_em {α} {x : EM α} {g : GSt} {s : St} {P : α → Prop} (h : ERO x g s P) : XRO (em x) g s P := by
  have e : (em x).run = (x >>= fun a => Pure.pure (Except.ok a)) := rfl
  unfold XRO
  rw [e]
  exact ero_bind h (fun a hp => ero_pure (fun b hb => by cases hb; exact hp))
theorem xro_need (r : Regs) (k : Nat) (g : GSt) (s : St) : XRO (need r k) g s (fun _ => True) := by
  unfold need; split
  · exact ⟨rfl, rfl, fun a h => by cases h⟩
  · exact ⟨rfl, rfl, fun a h => trivial⟩


/-! ### the operations with native recursion -/

theorem toStringConv_RO (s : St) (v : Value) (h : fits s 64 v = true) : RO (toStringConv v) s (fun _ => True) := by
  unfold toStringConv
  split
  · exact RO.pure trivial
  · exact RO.pure trivial
  · exact RO.bind (toStringV_RO s 64 64 _ h (Nat.le_refl _)) (fun _ _ => RO.pure trivial)

theorem binaryOp_MG (s : St) (tok : String) (l r : Value) (h : fits s 64 r = true) : MG (binaryOp tok l r) s := by
  unfold binaryOp
  repeat' first
    | (refine mg_of_nf ?_; nf; done)
    | exact mg_bind (toStringV_RO s 64 64 _ h (Nat.le_refl _)) (fun _ _ => mg_of_nf (nfm_pure _))
    | split


abbrev T {α : Type} : α → Prop := fun _ => True

theorem ero_arrElems (r : Nat) (g : GSt) (s : St) : ERO (Tengo.Model.Spec.liftM (arrElems r)) g s T :=
  ero_lift (RO.mono (RO_arrElems r s) (fun _ _ => trivial))
theorem ero_mapEntries (r : Nat) (g : GSt) (s : St) : ERO (Tengo.Model.Spec.liftM (mapEntries r)) g s T :=
  ero_lift (RO.mono (RO_mapEntries r s) (fun _ _ => trivial))
theorem ero_getObj (r : Nat) (g : GSt) (s : St) : ERO (Tengo.Model.Spec.liftM (getObj r)) g s T :=
  ero_lift (RO.mono (RO_getObj r s) (fun _ _ => trivial))
theorem ero_toStringConv (v : Value) (g : GSt) (s : St) (h : fits s 64 v = true) :
    ERO (Tengo.Model.Spec.liftM (toStringConv v)) g s T := ero_lift (toStringConv_RO s v h)

syntax "ro_prim" : tactic
macro_rules | `(tactic| ro_prim) => `(tactic| fail)
macro "ro_step" : tactic => `(tactic| first
  | ro_prim
  | exact ero_pure trivial | exact ero_eRt _ | exact ero_eUnsup _ | exact ero_goPanic _
  | with_reducible exact ero_arrElems _ _ _ | with_reducible exact ero_mapEntries _ _ _
  | with_reducible exact ero_getObj _ _ _
  | (with_reducible refine ero_toStringConv _ _ _ ?_; assumption)
  | with_reducible refine ero_bind (P := T) ?_ (fun _ _ => ?_)
  | dsimp only
  | split)
macro "ro" : tactic => `(tactic| repeat' ro_step)

theorem indexGet_ERO (g : GSt) (s : St) (l i : Value) (h : fits s 64 i = true) : ERO (indexGet l i) g s T := by
  unfold indexGet; ro

theorem indexSet_EG (g : GSt) (s : St) (dst idx v : Value) (h : fits s 64 idx = true) : EG (indexSet dst idx v) g s := by
  unfold indexSet
  split
  · exact eg_of_nf (by nf)
  · exact eg_bind (ero_toStringConv _ g s h) (fun _ _ => eg_of_nf (by nf))
  · exact eg_of_nf (by nf)


macro_rules | `(tactic| ro_prim) => `(tactic| (with_reducible refine indexGet_ERO _ _ _ _ ?_; assumption))

theorem ero_forIn {α β} (g : GSt) (s : St) (f : α → β → EM (ForInStep β)) : ∀ (l : List α) (b : β),
    (∀ a ∈ l, ∀ b, ERO (f a b) g s T) → ERO (forIn l b f) g s T
  | [], b, _ => by rw [List.forIn_nil]; exact ero_pure trivial
  | a :: l, b, h => by
    rw [List.forIn_cons]
    refine ero_bind (h a (by simp) b) (fun r _ => ?_)
    cases r with
    | done b' => exact ero_pure trivial
    | yield b' => exact ero_forIn g s f l b' (fun a' ha' => h a' (by simp [ha']))

theorem indexAssign_EG (g : GSt) (s : St) (dst v : Value) (sels : List Value) (h : ∀ x ∈ sels, fits s 64 x = true) :
    EG (indexAssign dst v sels) g s := by
  unfold indexAssign
  split
  · exact eg_of_nf (nfe_pure _)
  · rename_i last initRev hrev
    have hl : fits s 64 last = true := h last (by rw [← List.mem_reverse, hrev]; simp)
    have hi : ∀ x ∈ initRev.reverse, fits s 64 x = true := fun x hx =>
      h x (by rw [← List.mem_reverse, hrev]; simp only [List.mem_reverse] at hx; simp [hx])
    dsimp only
    refine eg_bind (P := T) (ero_forIn g s _ _ _ ?_) (fun cur _ => indexSet_EG g s cur last v hl)
    intro a ha b
    have := hi a ha
    ro

/-! ### the stack -/

/-- Every slot of the operand stack array holds a value that fits the model's native recursion budget (64). -/
def SS (r : Regs) (s : St) : Prop := ∀ i, fits s 64 (getSlot r i) = true

theorem ss_slots {r : Regs} {s : St} (h : SS r s) (a n : Nat) : ∀ x ∈ slots r a n, fits s 64 x = true := by
  intro x hx
  unfold slots at hx
  obtain ⟨i, _, rfl⟩ := List.mem_map.mp hx
  exact h _

theorem ss_selArgs {r : Regs} {s : St} (h : SS r s) (n : Nat) : ∀ x ∈ (selArgs r n).1, fits s 64 x = true := by
  intro x hx
  unfold selArgs at hx
  exact ss_slots h _ _ x (List.mem_reverse.mp hx)

theorem exEqual_XG (code : Code) (fr : Tengo.Model.VM.Frame) (a0 a1 op : Nat) (r : Regs) (g : GSt) (s : St) (h : SS r s) :
    XG (exEqual code fr a0 a1 op r) g s := by
  unfold exEqual
  refine xg_bind (xro_need _ _ g s) (fun _ _ => ?_)
  refine xg_bind_nf (xg_em (eg_lift (mg_of_ro (equalsV_RO2 s 64 64 _ _ (.inl (h _)) (Nat.le_refl _))))) (fun _ => ?_)
  nf

theorem exBinaryOp_XG (code : Code) (fr : Tengo.Model.VM.Frame) (a0 a1 op : Nat) (r : Regs) (g : GSt) (s : St) (h : SS r s) :
    XG (exBinaryOp code fr a0 a1 op r) g s := by
  unfold exBinaryOp
  refine xg_bind (xro_need _ _ g s) (fun _ _ => ?_)
  refine xg_bind_nf (xg_em (eg_lift (binaryOp_MG s _ _ _ (h _)))) (fun _ => ?_)
  nf

theorem exIndex_XG (code : Code) (fr : Tengo.Model.VM.Frame) (a0 a1 op : Nat) (r : Regs) (g : GSt) (s : St) (h : SS r s) :
    XG (exIndex code fr a0 a1 op r) g s := by
  unfold exIndex
  refine xg_bind (xro_need _ _ g s) (fun _ _ => ?_)
  refine xg_bind_nf (xg_em (eg_of_ero (indexGet_ERO g s _ _ (h _)))) (fun _ => ?_)
  nf


theorem ero_deref (v : Value) (g : GSt) (s : St) : ERO (deref v) g s T := by
  unfold deref
  split
  · refine ero_bind (P := T) (ero_getObj _ g s) (fun _ _ => ?_)
    ro
  · exact ero_pure trivial

theorem exSetSelGlobal_XG (code : Code) (fr : Tengo.Model.VM.Frame) (a0 a1 op : Nat) (r : Regs) (g : GSt) (s : St) (h : SS r s) :
    XG (exSetSelGlobal code fr a0 a1 op r) g s := by
  unfold exSetSelGlobal
  refine xg_bind (xro_need _ _ g s) (fun _ _ => ?_)
  split
  · split
    rename_i sels v hsel
    have hs : ∀ x ∈ sels, fits s 64 x = true := by
      have := ss_selArgs h a1; rw [hsel] at this; exact this
    refine xg_bind_nf (xg_em (indexAssign_EG g s _ _ _ hs)) (fun _ => ?_)
    nf
  · exact xg_of_nf (nfx_fault _)

theorem exSetSelLocal_XG (code : Code) (fr : Tengo.Model.VM.Frame) (a0 a1 op : Nat) (r : Regs) (g : GSt) (s : St) (h : SS r s) :
    XG (exSetSelLocal code fr a0 a1 op r) g s := by
  unfold exSetSelLocal
  refine xg_bind (xro_need _ _ g s) (fun _ _ => ?_)
  split
  rename_i sels v hsel
  have hs : ∀ x ∈ sels, fits s 64 x = true := by
    have := ss_selArgs h a1; rw [hsel] at this; exact this
  refine xg_bind (xro_em (ero_deref _ g s)) (fun dst _ => ?_)
  refine xg_bind_nf (xg_em (indexAssign_EG g s _ _ _ hs)) (fun _ => ?_)
  nf

theorem exSetSelFree_XG (code : Code) (fr : Tengo.Model.VM.Frame) (a0 a1 op : Nat) (r : Regs) (g : GSt) (s : St) (h : SS r s) :
    XG (exSetSelFree code fr a0 a1 op r) g s := by
  unfold exSetSelFree
  refine xg_bind (xro_need _ _ g s) (fun _ _ => ?_)
  split
  rename_i sels v hsel
  have hs : ∀ x ∈ sels, fits s 64 x = true := by
    have := ss_selArgs h a1; rw [hsel] at this; exact this
  split
  · refine xg_bind_nf (xg_em (eg_bind (ero_deref _ g s) (fun dst _ => indexAssign_EG g s _ _ _ hs))) (fun _ => ?_)
    nf
  · exact xg_of_nf (nfx_fault _)

theorem xg_ite {α} {c : Prop} [Decidable c] {a b : XM α} {g : GSt} {s : St} (ha : XG a g s) (hb : XG b g s) :
    XG (if c then a else b) g s := by split <;> assumption

/-- **Every opcode other than CALL/RETURN/SUSPEND**, at a state whose stack is shallow. -/
theorem execSimple_XG (code : Code) (fr : Tengo.Model.VM.Frame) (a0 a1 op : Nat) (r : Regs) (g : GSt) (s : St) (h : SS r s) :
    XG (execSimple code fr a0 a1 op r) g s := by
  unfold execSimple
  repeat' first
    | with_reducible exact exEqual_XG _ _ _ _ _ _ g s h | with_reducible exact exBinaryOp_XG _ _ _ _ _ _ g s h | with_reducible exact exIndex_XG _ _ _ _ _ _ g s h
    | with_reducible exact exSetSelGlobal_XG _ _ _ _ _ _ g s h | with_reducible exact exSetSelLocal_XG _ _ _ _ _ _ g s h
    | with_reducible exact exSetSelFree_XG _ _ _ _ _ _ g s h
    | with_reducible exact xg_of_nf (nfx_exConstant _ _ _ _ _ _) | with_reducible exact xg_of_nf (nfx_exNull _ _ _ _ _ _)
    | with_reducible exact xg_of_nf (nfx_exTrue _ _ _ _ _ _) | with_reducible exact xg_of_nf (nfx_exFalse _ _ _ _ _ _)
    | with_reducible exact xg_of_nf (nfx_exPop _ _ _ _ _ _) | with_reducible exact xg_of_nf (nfx_exLNot _ _ _ _ _ _)
    | with_reducible exact xg_of_nf (nfx_exBComplement _ _ _ _ _ _) | with_reducible exact xg_of_nf (nfx_exMinus _ _ _ _ _ _)
    | with_reducible exact xg_of_nf (nfx_exJumpFalsy _ _ _ _ _ _) | with_reducible exact xg_of_nf (nfx_exAndJump _ _ _ _ _ _)
    | with_reducible exact xg_of_nf (nfx_exOrJump _ _ _ _ _ _) | with_reducible exact xg_of_nf (nfx_exJump _ _ _ _ _ _)
    | with_reducible exact xg_of_nf (nfx_exSetGlobal _ _ _ _ _ _) | with_reducible exact xg_of_nf (nfx_exGetGlobal _ _ _ _ _ _)
    | with_reducible exact xg_of_nf (nfx_exArray _ _ _ _ _ _) | with_reducible exact xg_of_nf (nfx_exMap _ _ _ _ _ _)
    | with_reducible exact xg_of_nf (nfx_exError _ _ _ _ _ _) | with_reducible exact xg_of_nf (nfx_exImmutable _ _ _ _ _ _)
    | with_reducible exact xg_of_nf (nfx_exSliceIndex _ _ _ _ _ _) | with_reducible exact xg_of_nf (nfx_exDefineLocal _ _ _ _ _ _)
    | with_reducible exact xg_of_nf (nfx_exSetLocal _ _ _ _ _ _) | with_reducible exact xg_of_nf (nfx_exGetLocal _ _ _ _ _ _)
    | with_reducible exact xg_of_nf (nfx_exGetBuiltin _ _ _ _ _ _) | with_reducible exact xg_of_nf (nfx_exClosure _ _ _ _ _ _)
    | with_reducible exact xg_of_nf (nfx_exGetFreePtr _ _ _ _ _ _) | with_reducible exact xg_of_nf (nfx_exGetFree _ _ _ _ _ _)
    | with_reducible exact xg_of_nf (nfx_exSetFree _ _ _ _ _ _) | with_reducible exact xg_of_nf (nfx_exGetLocalPtr _ _ _ _ _ _)
    | with_reducible exact xg_of_nf (nfx_exIteratorInit _ _ _ _ _ _) | with_reducible exact xg_of_nf (nfx_exIteratorNext _ _ _ _ _ _)
    | with_reducible exact xg_of_nf (nfx_exIteratorKey _ _ _ _ _ _) | with_reducible exact xg_of_nf (nfx_fault _)
    | with_reducible refine xg_ite ?_ ?_

end Tengo.Proofs.C05Acyclic

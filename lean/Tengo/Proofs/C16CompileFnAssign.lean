import Tengo.Proofs.C16CompileFnLive
import Tengo.Proofs.C02CompileInd
/-!
C16 / `tail_pattern_sound`, layer 3b: the code of an ASSIGNMENT contains neither POP nor RETURN.

`SResN` is C02's statement result `SRes` with the extra fact `NoPR B` about the appended block. The proofs of
`Tengo/Proofs/C02CompileAssign.lean` (selectors, store instruction, compound operators, `:=` / `=` with or without a
function literal on the right) go through unchanged for it: an assignment is a POP/RETURN-free expression run (`QRes`)
followed by one store instruction with stack effect `(k, 0)`, which is neither POP nor RETURN.

Consequences used later: an assignment never makes the following code dead (`Thru`), and a CALL inside an
assignment is never in tail layout (`a := f(x)` is `… CALL; DEFL/SETL/SETG …`; C02's `SBlk.nce` says the block does
not end with the CALL).
-/
set_option linter.unusedVariables false
set_option linter.unusedSimpArgs false
namespace Tengo.Proofs.C16Fn
open Tengo.Model Tengo.Model.Opcodes Tengo.Model.Compiler Tengo.Model.Optimizer Tengo.Model.Verifier
open Tengo.Model.Spec (Expr Stmt)
open Tengo.Proofs.C03 Tengo.Proofs.C03Reloc Tengo.Proofs.C02Compile

/-- statement result whose block is not empty and has neither POP nor RETURN -/
def SResN (s s' : CState) (L : List Instr) (F : List Nat) (n : Nat) : Prop :=
  ∃ B F' bs cs, SOut s s' L F n B F' bs cs ∧ NoPR B ∧ B ≠ []

theorem SResN.toSRes {s s' : CState} {L : List Instr} {F : List Nat} {n : Nat} (h : SResN s s' L F n) :
    SRes s s' L F n := by
  obtain ⟨B, F', bs, cs, ho, _, _⟩ := h
  exact ⟨B, F', bs, cs, ho⟩

theorem sres_emitN {s s₁ : CState} {L : List Instr} {F : List Nat} {n k : Nat} (h1 : QRes s s₁ L F n k)
    {op : Nat} {args ws : List Nat}
    (hw : widths op = some ws) (hlen : args.length = ws.length)
    {pops : Nat} (he : ∀ p, stackEffect ⟨p, op, args⟩ = some (pops, 0)) (hk : pops = k) (hnp : op ≠ opPop)
    (hreq : ∀ p F₁, F <+: F₁ → opReq s₁.consts.toList F₁ (envOf s₁.tables) ⟨p, op, args⟩) :
    SResN s (emitS op args s₁) L F (n + (1 + ws.sum)) := by
  subst hk
  obtain ⟨B₁, F₁, o1, hb1⟩ := h1
  have e1 : totalSize (L ++ B₁) = totalSize L + totalSize B₁ := totalSize_append _ _
  have hsz : (Instr.mk (totalSize L + totalSize B₁) op args).size = 1 + ws.sum := shape_size hw
  have hinv := o1.inv.emit (op := op) (args := args) ⟨ws, hw, hlen⟩ (hreq _ _ o1.step.fs)
  rw [e1] at hinv
  refine ⟨B₁ ++ [⟨totalSize L + totalSize B₁, op, args⟩], F₁, [], [], ⟨by rw [← List.append_assoc]; exact hinv,
    o1.step.trans (Step.of_eq F₁ rfl rfl rfl), ?_, fun _ => ⟨rfl, rfl⟩,
    by rw [totalSize_append, totalSize_cons, totalSize_nil, hsz]; have := o1.size; omega, ?_⟩, ?_, by simp⟩
  · rw [addPend_nil]; exact o1.loops
  · have hs := hb1 0
    rw [Nat.zero_add] at hs
    have h := SBlk.ofSeq (i := ⟨totalSize L + totalSize B₁, op, args⟩) hs rfl (he _) hnp
    rw [totalSize_append, totalSize_cons, totalSize_nil]
    have e2 : totalSize L + (totalSize B₁ + ((Instr.mk (totalSize L + totalSize B₁) op args).size + 0)) =
        totalSize L + totalSize B₁ + (Instr.mk (totalSize L + totalSize B₁) op args).size := by omega
    rw [e2]; exact h
  · obtain ⟨H, _, hn⟩ := hb1 0
    refine hn.append ?_
    intro i hi
    simp only [List.mem_singleton] at hi
    subst hi
    exact ⟨hnp, stackEffect_not_return (he _)⟩

theorem SResN.post_eq {s s₁ s₂ : CState} {L : List Instr} {F : List Nat} {n : Nat} (h : SResN s s₁ L F n)
    (h1 : s₂.insts = s₁.insts) (h2 : s₂.tables = s₁.tables) (h3 : s₂.consts = s₁.consts)
    (h4 : s₂.saved = s₁.saved) (h5 : s₂.loops = s₁.loops) : SResN s s₂ L F n := by
  obtain ⟨B, F', bs, cs, ho, hn, hne⟩ := h
  exact ⟨B, F', bs, cs, ⟨ho.inv.of_eq h1 h2 h3, ho.step.trans (Step.of_eq F' h4 h2 h3), h5.trans ho.loops,
    ho.nopend, ho.size, ho.blk⟩, hn, hne⟩

theorem SResN.pre {s s₁ s' : CState} {L : List Instr} {F F₁ : List Nat} {n : Nat} (hst : Step s s₁ F F₁)
    (hl : s₁.loops = s.loops) (h : SResN s₁ s' L F₁ n) : SResN s s' L F n := by
  obtain ⟨B, F', bs, cs, ho, hn, hne⟩ := h
  exact ⟨B, F', bs, cs, ⟨ho.inv, hst.trans ho.step, by rw [ho.loops, hl], by rw [← hl]; exact ho.nopend,
    ho.size, ho.blk⟩, hn, hne⟩

theorem SResN.mono {s s' : CState} {L : List Instr} {F : List Nat} {n n' : Nat} (h : SResN s s' L F n)
    (hn : n ≤ n') : SResN s s' L F n' := by
  obtain ⟨B, F', bs, cs, ho, hnp, hne⟩ := h
  exact ⟨B, F', bs, cs, ⟨ho.inv, ho.step, ho.loops, ho.nopend, Nat.le_trans ho.size hn, ho.blk⟩, hnp, hne⟩

/-! ### the proofs of `C02CompileAssign.lean`, for `SResN` -/

/-- the end of an assignment: the selectors, then the store instruction for the symbol -/
theorem assign_tailN {d : Nat} (ih : All d) (selectors : List Expr) (sym : Sym) (op : String)
    {s s₁ s' : CState} {L : List Instr} {F : List Nat} {n : Nat} (q : QRes s s₁ L F n 1)
    (h : (do compileSelsRev d selectors; asgStore selectors op sym) s₁ = .ok ((), s'))
    (hsym : SymOK s₁.tables sym) (hsel : selectors.length ≤ 255) (hsz : szSels d selectors < 2 ^ 30) :
    SResN s s' L F (n + szSels d selectors + 4) := by
  obtain ⟨_, s2, h1, h2⟩ := bind_ok h
  clear h
  have q2 : QRes s s2 L F (n + szSels d selectors) (1 + selectors.length) :=
    q.bind (fun L₁ F₁ hinv1 => ih.sels selectors s₁ s2 L₁ F₁ h1 hinv1 hsz)
  have hsym2 : SymOK s2.tables sym := by
    obtain ⟨B, F', ho, _⟩ := q2
    obtain ⟨B₁, F₁, o1, _⟩ := q
    -- tables only grow between s₁ and s2
    obtain ⟨B₂, F₂, o2, _⟩ := ih.sels selectors s₁ s2 _ _ h1 o1.inv hsz
    exact hsym.mono o2.step.tabs
  unfold asgStore at h2
  cases hsc : sym.scope <;> simp only [hsc] at h2
  · -- global
    split at h2
    · have e := demit_ok h2; simp only at e; subst e
      exact (sres_emitN q2 (op := opSetSelGlobal) (args := [sym.index, selectors.length]) (ws := [2, 1])
        (pops := selectors.length + 1) rfl rfl (fun _ => rfl) (by omega) (by decide)
        (fun p F₁ _ => opReq_selGlob hsym2 hsc hsel)).mono (by simp <;> omega)
    · rename_i hz
      have hz' : selectors.length = 0 := by omega
      have e := demit_ok h2; simp only at e; subst e
      exact (sres_emitN q2 (op := opSetGlobal) (args := [sym.index]) (ws := [2])
        (pops := 1) rfl rfl (fun _ => rfl) (by omega) (by decide)
        (fun p F₁ _ => opReq_glob hsym2 hsc rfl)).mono (by simp <;> omega)
  · -- local
    split at h2
    · obtain ⟨_, s3, h3, h4⟩ := bind_ok h2
      clear h2
      obtain ⟨q1, q2', q3, q4, q5⟩ := setAssigned_ok h4
      simp only at q1 q2' q3 q4 q5
      refine SResN.post_eq ?_ q1 q2' q3 q4 q5
      have e := demit_ok h3; simp only at e; subst e
      exact (sres_emitN q2 (op := opSetSelLocal) (args := [sym.index, selectors.length]) (ws := [1, 1])
        (pops := selectors.length + 1) rfl rfl (fun _ => rfl) (by omega) (by decide)
        (fun p F₁ _ => opReq_selLoc hsym2 hsc hsel)).mono (by simp <;> omega)
    · rename_i hz
      have hz' : selectors.length = 0 := by omega
      obtain ⟨b, s2', h5, h6⟩ := bind_ok h2
      clear h2
      have e0 := localAssigned_ok h5
      simp only at e0; subst e0
      split at h6
      · obtain ⟨_, s3, h3, h4⟩ := bind_ok h6
        clear h6
        obtain ⟨q1, q2', q3, q4, q5⟩ := setAssigned_ok h4
        simp only at q1 q2' q3 q4 q5
        refine SResN.post_eq ?_ q1 q2' q3 q4 q5
        have e := demit_ok h3; simp only at e; subst e
        exact (sres_emitN q2 (op := opDefineLocal) (args := [sym.index]) (ws := [1])
          (pops := 1) rfl rfl (fun _ => rfl) (by omega) (by decide)
          (fun p F₁ _ => opReq_loc hsym2 hsc rfl)).mono (by simp <;> omega)
      · obtain ⟨_, s3, h3, h4⟩ := bind_ok h6
        clear h6
        obtain ⟨q1, q2', q3, q4, q5⟩ := setAssigned_ok h4
        simp only at q1 q2' q3 q4 q5
        refine SResN.post_eq ?_ q1 q2' q3 q4 q5
        have e := demit_ok h3; simp only at e; subst e
        exact (sres_emitN q2 (op := opSetLocal) (args := [sym.index]) (ws := [1])
          (pops := 1) rfl rfl (fun _ => rfl) (by omega) (by decide)
          (fun p F₁ _ => opReq_loc hsym2 hsc rfl)).mono (by simp <;> omega)
  · -- builtin
    exact (cerr_ok h2).elim
  · -- free
    split at h2
    · have e := demit_ok h2; simp only at e; subst e
      exact (sres_emitN q2 (op := opSetSelFree) (args := [sym.index, selectors.length]) (ws := [1, 1])
        (pops := selectors.length + 1) rfl rfl (fun _ => rfl) (by omega) (by decide)
        (fun p F₁ _ => opReq_selFree hsym2 hsc hsel)).mono (by simp <;> omega)
    · rename_i hz
      have hz' : selectors.length = 0 := by omega
      have e := demit_ok h2; simp only at e; subst e
      exact (sres_emitN q2 (op := opSetFree) (args := [sym.index]) (ws := [1])
        (pops := 1) rfl rfl (fun _ => rfl) (by omega) (by decide)
        (fun p F₁ _ => opReq_free hsym2 hsc rfl)).mono (by simp <;> omega)
theorem asgTail_specN {d : Nat} (ih : All d) (selectors : List Expr) (sym : Sym) (op : String)
    {s s₁ s' : CState} {L : List Instr} {F : List Nat} {n : Nat} (q : QRes s s₁ L F n 1)
    (h : asgTail d selectors op (some sym) s₁ = .ok ((), s'))
    (hsym : SymOK s₁.tables sym) (hsel : selectors.length ≤ 255) (hsz : szSels d selectors < 2 ^ 30) :
    SResN s s' L F (n + szSels d selectors + 4) :=
  assign_tailN ih selectors sym op q h hsym hsel hsz

theorem asgOp_specN {d : Nat} (ih : All d) (selectors : List Expr) (sym : Sym) (op : String)
    {s s₁ s' : CState} {L : List Instr} {F : List Nat} {n : Nat}
    (q : QRes s s₁ L F n (if compoundOp op then 2 else 1))
    (h : asgOp d selectors op (some sym) s₁ = .ok ((), s'))
    (hsym : SymOK s₁.tables sym) (hsel : selectors.length ≤ 255) (hsz : szSels d selectors < 2 ^ 30) :
    SResN s s' L F (n + 2 + szSels d selectors + 4) := by
  unfold asgOp at h
  split at h
  · rename_i hc
    have hc' : compoundOp op = true := hc
    rw [hc'] at q
    simp only [if_true] at q
    cases hk : F0.tokNumbers.lookup (op.dropEnd 6).toString with
    | some k =>
      simp only [hk] at h
      obtain ⟨_, s2, h1, h2⟩ := bind_ok h
      have e := demit_ok h1; simp only at e; subst e
      have q2 := q.emit (op := opBinaryOp) (args := [k]) (ws := [1]) (pops := 2) (pushes := 1) rfl rfl
        (fun _ => rfl) (by omega) (by omega) (by decide) (fun p F₁ _ => opReq_binop (tokNumbers_lt hk))
      exact (asgTail_specN ih selectors sym op (q2.castK (by simp)) h2 hsym hsel hsz).mono (by simp <;> omega)
    | none =>
      simp only [hk] at h
      obtain ⟨_, _, hc, _⟩ := bind_ok h
      exact (unsupported_ok hc).elim
  · rename_i hc
    have hc' : compoundOp op = false := by simpa [compoundOp] using hc
    rw [hc'] at q
    simp only [Bool.false_eq_true, if_false] at q
    exact (asgTail_specN ih selectors sym op q h hsym hsel hsz).mono (by omega)
theorem asgRhs_specN {d : Nat} (ih : All d) (r : Expr) (ident : String) (selectors : List Expr) (op : String)
    (isFunc : Bool) (symbol : Option Sym)
    {s s₀ s' : CState} {L : List Instr} {F : List Nat} {n : Nat}
    (q : QRes s s₀ L F n (if compoundOp op then 1 else 0))
    (h : asgRhs d r ident selectors op isFunc symbol s₀ = .ok ((), s'))
    (hsymb : (op == "Define" && !isFunc) = true ∨ ∃ sym, symbol = some sym ∧ SymOK s₀.tables sym)
    (hsel : selectors.length ≤ 255) (hszr : szE d r < 2 ^ 30) (hsz : szSels d selectors < 2 ^ 30) :
    SResN s s' L F (n + szE d r + 2 + szSels d selectors + 4) := by
  unfold asgRhs at h
  obtain ⟨_, s1, h1, h2⟩ := bind_ok h
  clear h
  obtain ⟨B₀, F₀, o0, hb0⟩ := q
  obtain ⟨B₁, F₁, o1, hb1⟩ := ih.e r s₀ s1 _ F₀ h1 o0.inv hszr
  have q1 : QRes s s1 L F (n + szE d r) (if compoundOp op then 2 else 1) :=
    (QRes.bind (n₂ := szE d r) (k₂ := 1) ⟨B₀, F₀, o0, hb0⟩
      (fun L₁ F₁' hinv1 => (ih.e r s₀ s1 L₁ F₁' h1 hinv1 hszr).toQ)).castK (by split <;> rfl)
  split at h2
  · obtain ⟨x, s2, h3, h4⟩ := bind_ok h2
    have e := define_ok h3
    have ex : x = (defS ident s1).1 := (Prod.mk.inj e).1
    have es2 : s2 = (defS ident s1).2 := (Prod.mk.inj e).2
    subst ex; subst es2
    obtain ⟨q2, hsym⟩ := q1.define ident
    exact (asgOp_specN ih selectors _ op q2 h4 hsym hsel hsz).mono (by omega)
  · rename_i hc
    rcases hsymb with hd | ⟨sym, rfl, hsym⟩
    · exact absurd hd hc
    · exact (asgOp_specN ih selectors sym op q1 h2 (hsym.mono o1.step.tabs) hsel hsz).mono (by omega)

theorem asgLhs_specN {d : Nat} (ih : All d) (l r : Expr) (ident : String) (selectors : List Expr) (op : String)
    (isFunc : Bool) (symbol : Option Sym) {s s' : CState} {L : List Instr} {F : List Nat}
    (hinv : Inv s L F) (h : asgLhs d l r ident selectors op isFunc symbol s = .ok ((), s'))
    (hsymb : (op == "Define" && !isFunc) = true ∨ ∃ sym, symbol = some sym ∧ SymOK s.tables sym)
    (hsel : selectors.length ≤ 255) (hszl : szE d l < 2 ^ 30) (hszr : szE d r < 2 ^ 30)
    (hsz : szSels d selectors < 2 ^ 30) :
    SResN s s' L F (szE d l + szE d r + 2 + szSels d selectors + 4) := by
  unfold asgLhs at h
  split at h
  · rename_i hc
    have hc' : compoundOp op = true := hc
    obtain ⟨_, s1, h1, h2⟩ := bind_ok h
    obtain ⟨B₁, F₁, o1, hb1⟩ := ih.e l s s1 L F h1 hinv hszl
    have q1 : QRes s s1 L F (szE d l) (if compoundOp op then 1 else 0) := by
      rw [hc']; exact ⟨B₁, F₁, o1, fun a => (hb1 a).toSeq⟩
    refine asgRhs_specN ih r ident selectors op isFunc symbol q1 h2 ?_ hsel hszr hsz
    rcases hsymb with hd | ⟨sym, e, hsym⟩
    · exact Or.inl hd
    · exact Or.inr ⟨sym, e, hsym.mono o1.step.tabs⟩
  · rename_i hc
    have hc' : compoundOp op = false := by simpa [compoundOp] using hc
    have q1 : QRes s s L F 0 (if compoundOp op then 1 else 0) := by
      rw [hc']; exact QRes.nil hinv
    exact (asgRhs_specN ih r ident selectors op isFunc symbol q1 h hsymb hsel hszr hsz).mono (by omega)

theorem asgDef_specN {d : Nat} (ih : All d) (l r : Expr) (ident : String) (selectors : List Expr) (op : String)
    (isFunc : Bool) (symbol : Option Sym) {s s' : CState} {L : List Instr} {F : List Nat}
    (hinv : Inv s L F) (h : asgDef d l r ident selectors op isFunc symbol s = .ok ((), s'))
    (hdef : (op == "Define") = true)
    (hsel : selectors.length ≤ 255) (hszl : szE d l < 2 ^ 30) (hszr : szE d r < 2 ^ 30)
    (hsz : szSels d selectors < 2 ^ 30) :
    SResN s s' L F (szE d l + szE d r + 2 + szSels d selectors + 4) := by
  unfold asgDef at h
  split at h
  · obtain ⟨x, s1, h1, h2⟩ := bind_ok h
    have e := define_ok h1
    have ex : x = (defS ident s).1 := (Prod.mk.inj e).1
    have es1 : s1 = (defS ident s).2 := (Prod.mk.inj e).2
    subst ex; subst es1
    obtain ⟨hi, hst, hsym, _⟩ := hinv.define ident
    exact SResN.pre hst rfl (asgLhs_specN ih l r ident selectors op isFunc _ hi h2
      (Or.inr ⟨_, rfl, hsym⟩) hsel hszl hszr hsz)
  · rename_i hf
    have hf' : isFunc = false := by simpa using hf
    exact asgLhs_specN ih l r ident selectors op isFunc symbol hinv h
      (Or.inl (by rw [hdef, hf']; rfl)) hsel hszl hszr hsz

theorem asgMain_specN {d : Nat} (ih : All d) (l r : Expr) (ident : String) (selectors : List Expr) (op : String)
    {s s' : CState} {L : List Instr} {F : List Nat}
    (hinv : Inv s L F) (h : asgMain d l r ident selectors op s = .ok ((), s'))
    (hsel : selectors.length ≤ 255) (hszl : szE d l < 2 ^ 30) (hszr : szE d r < 2 ^ 30)
    (hsz : szSels d selectors < 2 ^ 30) :
    SResN s s' L F (szE d l + szE d r + 2 + szSels d selectors + 4) := by
  unfold asgMain at h
  obtain ⟨resolved, s1, h1, h2⟩ := bind_ok h
  clear h
  have e1 := resolve_ok h1
  have er : resolved = (resS ident s).1 := (Prod.mk.inj e1).1
  have es : s1 = (resS ident s).2 := (Prod.mk.inj e1).2
  subst es
  obtain ⟨hinv1, hst, hsym⟩ := hinv.resolve ident
  refine SResN.pre hst rfl ?_
  split at h2
  · rename_i hdef
    split at h2
    · split at h2
      · obtain ⟨_, _, hc, _⟩ := bind_ok h2; exact (cerr_ok hc).elim
      · exact asgDef_specN ih l r ident selectors op _ _ hinv1 h2 hdef hsel hszl hszr hsz
    · exact asgDef_specN ih l r ident selectors op _ _ hinv1 h2 hdef hsel hszl hszr hsz
  · split at h2
    · obtain ⟨_, _, hc, _⟩ := bind_ok h2; exact (cerr_ok hc).elim
    · rename_i hnone
      cases hr : resolved with
      | none => rw [hr] at hnone; simp at hnone
      | some p =>
        obtain ⟨sym, dd⟩ := p
        rw [hr] at h2
        exact asgLhs_specN ih l r ident selectors op _ _ hinv1 h2
          (Or.inr ⟨sym, rfl, hsym sym dd (by rw [← er, hr])⟩) hsel hszl hszr hsz


/-- **`l op= r` (one target, one value): no POP, no RETURN in its code.** -/
theorem assign_noPR {d : Nat} (l r : Expr) (op : String) (s s' : CState) (L : List Instr) (F : List Nat)
    (h : compileAssign (d + 1) [l] [r] op s = .ok ((), s')) (hinv : Inv s L F)
    (hsz : szAssign (d + 1) [l] [r] < 2 ^ 30) : SResN s s' L F (szAssign (d + 1) [l] [r]) := by
  have ih := all_spec d
  have hszd : szAssign (d + 1) [l] [r] = szE d l + szE d r + 2 + szSels d (resolveAssignLHS l).2 + 4 := by
    rw [szAssign]
  rw [hszd] at hsz ⊢
  obtain ⟨hsel, hm⟩ := compileAssign_run d l r op s _ h
  exact asgMain_specN ih l r _ _ op hinv hm hsel (by omega) (by omega) (by omega)

end Tengo.Proofs.C16Fn

import Tengo.Proofs.C01F3OptJumps
import Tengo.Proofs.C01BridgeF3CompFnBody
import Tengo.Proofs.C01BridgeF3VMRel
/-!
C01 on fragment F3, closing the optimizer gap, layer 2: **the operands of the code of a well-formed program fit.**
From the well-formedness check of the compiler bridge (`wfE3`, `wfS3`, `wfBody`, `wfFn`, `wfMain`) every emitted
instruction names a constant below the pool size `K`, a global below `n`, a local below the number of local slots,
an operator token and an argument count below 256 (`IOk`); with the jumps on boundaries (`body_jok`) and the body
shorter than `2^32` bytes this gives `InsFits3` and `InsRange3` — two fields of `CodeRel3`, and what `decode ∘ encode`
needs. Also: what `wfMain` says about a function stored by a statement of main (`wfMain_fn`).
-/
set_option linter.unusedVariables false
set_option linter.unusedSimpArgs false
namespace Tengo.Proofs.C01F3Opt
open Tengo.Model
open Tengo.Model.F3 (Ins csize Ex Exs Stm Stms FnDef Prog comp compEs compS compSs)
open Tengo.Proofs.C01Bridge (validTok)
open Tengo.Proofs.C01BridgeF3Comp
open Tengo.Proofs.C01BridgeF3 (InsFits3 InsRange3)

/-- Operands in range: constants below `K`, globals below `n`, locals below `m`, one-byte operands below 256. -/
def IOk (K n m : Nat) : Ins → Prop
  | .const j => j < K
  | .getg i | .setg i => i < n
  | .getl i | .setl i | .defl i => i < m
  | .binop t => t < 256
  | .call a => a < 256
  | _ => True

def AllI (Q : Ins → Prop) (is : List Ins) : Prop := ∀ i ∈ is, Q i

theorem AllI.nil (Q : Ins → Prop) : AllI Q [] := by intro i hi; cases hi

theorem AllI.append {Q : Ins → Prop} {a b : List Ins} (ha : AllI Q a) (hb : AllI Q b) : AllI Q (a ++ b) := by
  intro i hi
  rcases List.mem_append.mp hi with h | h
  · exact ha i h
  · exact hb i h

theorem AllI.single {Q : Ins → Prop} {i : Ins} (h : Q i) : AllI Q [i] := by
  intro j hj
  simp only [List.mem_singleton] at hj
  subst hj; exact h

theorem AllI.mono {Q R : Ins → Prop} {a : List Ins} (h : AllI Q a) (hqr : ∀ i, Q i → R i) : AllI R a :=
  fun i hi => hqr i (h i hi)

theorem IOk.mono {K n m K' m' : Nat} (hK : K ≤ K') (hm : m ≤ m') (i : Ins) (h : IOk K n m i) : IOk K' n m' i := by
  cases i <;> simp only [IOk] at h ⊢ <;> omega

theorem validTok_lt {t : Nat} (h : validTok t = true) : t < 256 := by
  unfold validTok at h
  simp only [Bool.or_eq_true, beq_iff_eq] at h
  omega

section wf
variable {isFn : Nat → Bool} {n : Nat}

mutual
  theorem comp_iok : ∀ (e : Ex) (m k K off : Nat), wfE3 isFn n m k e = true → k + nlitsE3 e ≤ K →
      AllI (IOk K n m) (comp off e)
    | .lit j, m, k, K, off, hw, hK => by
      simp only [wfE3, Bool.and_eq_true, beq_iff_eq] at hw
      simp only [nlitsE3] at hK
      simp only [comp]
      exact AllI.single (by show j < K; omega)
    | .tru, _, _, _, _, _, _ | .fls, _, _, _, _, _, _ | .undef, _, _, _, _, _, _ => by
      simp only [comp]; exact AllI.single (by trivial)
    | .glob i, m, k, K, off, hw, hK => by
      simp only [wfE3, decide_eq_true_eq] at hw
      simp only [comp]; exact AllI.single hw
    | .loc i, m, k, K, off, hw, hK => by
      simp only [wfE3, decide_eq_true_eq] at hw
      simp only [comp]; exact AllI.single hw
    | .bin tok l r, m, k, K, off, hw, hK => by
      simp only [wfE3, Bool.and_eq_true] at hw
      simp only [nlitsE3] at hK
      simp only [comp]
      exact ((comp_iok l m k K off hw.1.2 (by omega)).append
        (comp_iok r m _ K _ hw.2 (by omega))).append (AllI.single (validTok_lt hw.1.1))
    | .eq l r, m, k, K, off, hw, hK | .ne l r, m, k, K, off, hw, hK => by
      simp only [wfE3, Bool.and_eq_true] at hw
      simp only [nlitsE3] at hK
      simp only [comp]
      exact ((comp_iok l m k K off hw.1 (by omega)).append
        (comp_iok r m _ K _ hw.2 (by omega))).append (AllI.single (by trivial))
    | .land l r, m, k, K, off, hw, hK | .lor l r, m, k, K, off, hw, hK => by
      simp only [wfE3, Bool.and_eq_true] at hw
      simp only [nlitsE3] at hK
      simp only [comp]
      exact ((comp_iok l m k K off hw.1 (by omega)).append (AllI.single (by trivial))).append
        (comp_iok r m _ K _ hw.2 (by omega))
    | .neg e, m, k, K, off, hw, hK | .bnot e, m, k, K, off, hw, hK | .lnot e, m, k, K, off, hw, hK => by
      simp only [wfE3] at hw
      simp only [nlitsE3] at hK
      simp only [comp]
      exact (comp_iok e m k K off hw hK).append (AllI.single (by trivial))
    | .plus e, m, k, K, off, hw, hK => by
      simp only [wfE3] at hw
      simp only [nlitsE3] at hK
      simp only [comp]
      exact comp_iok e m k K off hw hK
    | .cond c t f, m, k, K, off, hw, hK => by
      simp only [wfE3, Bool.and_eq_true] at hw
      simp only [nlitsE3] at hK
      simp only [comp]
      exact ((((comp_iok c m k K off hw.1.1 (by omega)).append (AllI.single (by trivial))).append
        (comp_iok t m _ K _ hw.1.2 (by omega))).append (AllI.single (by trivial))).append
        (comp_iok f m _ K _ hw.2 (by omega))
    | .call f args, m, k, K, off, hw, hK => by
      simp only [wfE3, Bool.and_eq_true, decide_eq_true_eq] at hw
      simp only [nlitsE3] at hK
      simp only [comp]
      exact ((comp_iok f m k K off hw.1.2 (by omega)).append
        (compEs_iok args m _ K _ hw.2 (by omega))).append (AllI.single (by show args.len < 256; omega))
  theorem compEs_iok : ∀ (es : Exs) (m k K off : Nat), wfEs3 isFn n m k es = true → k + nlitsEs3 es ≤ K →
      AllI (IOk K n m) (compEs off es)
    | .nil, _, _, _, _, _, _ => by simp only [compEs]; exact AllI.nil _
    | .cons e es, m, k, K, off, hw, hK => by
      simp only [wfEs3, Bool.and_eq_true] at hw
      simp only [nlitsEs3] at hK
      simp only [compEs]
      exact (comp_iok e m k K off hw.1 (by omega)).append (compEs_iok es m _ K _ hw.2 (by omega))
end

mutual
  theorem compS_iok : ∀ (s : Stm) (m : Nat) (inFn inl : Bool) (k K bt ct off : Nat),
      wfS3 isFn n m inFn inl k s = true → k + nlitsS3 s ≤ K → AllI (IOk K n m) (compS bt ct off s)
    | .expr e, m, inFn, inl, k, K, bt, ct, off, hw, hK => by
      simp only [wfS3] at hw
      simp only [nlitsS3] at hK
      simp only [compS]
      exact (comp_iok e m k K off hw hK).append (AllI.single (by trivial))
    | .assign i e, m, inFn, inl, k, K, bt, ct, off, hw, hK => by
      simp only [wfS3, Bool.and_eq_true, decide_eq_true_eq] at hw
      simp only [nlitsS3] at hK
      simp only [compS]
      exact (comp_iok e m k K off hw.2 hK).append (AllI.single hw.1)
    | .defl i e, m, inFn, inl, k, K, bt, ct, off, hw, hK => by
      simp only [wfS3] at hw
      cases hw
    | .setl i e, m, inFn, inl, k, K, bt, ct, off, hw, hK => by
      simp only [wfS3, Bool.and_eq_true, decide_eq_true_eq] at hw
      simp only [nlitsS3] at hK
      simp only [compS]
      exact (comp_iok e m k K off hw.2 hK).append (AllI.single hw.1)
    | .ifs c body, m, inFn, inl, k, K, bt, ct, off, hw, hK => by
      simp only [wfS3, Bool.and_eq_true] at hw
      simp only [nlitsS3] at hK
      simp only [compS]
      exact ((comp_iok c m k K off hw.1 (by omega)).append (AllI.single (by trivial))).append
        (compSs_iok body m inFn inl _ K _ _ _ hw.2 (by omega))
    | .ifelse c body els, m, inFn, inl, k, K, bt, ct, off, hw, hK => by
      simp only [wfS3, Bool.and_eq_true] at hw
      simp only [nlitsS3] at hK
      simp only [compS]
      exact ((((comp_iok c m k K off hw.1.1 (by omega)).append (AllI.single (by trivial))).append
        (compSs_iok body m inFn inl _ K _ _ _ hw.1.2 (by omega))).append (AllI.single (by trivial))).append
        (compSs_iok els m inFn inl _ K _ _ _ hw.2 (by omega))
    | .whil c body, m, inFn, inl, k, K, bt, ct, off, hw, hK => by
      simp only [wfS3, Bool.and_eq_true] at hw
      simp only [nlitsS3] at hK
      simp only [compS]
      exact (((comp_iok c m k K off hw.1 (by omega)).append (AllI.single (by trivial))).append
        (compSs_iok body m inFn true _ K _ _ _ hw.2 (by omega))).append (AllI.single (by trivial))
    | .forever body, m, inFn, inl, k, K, bt, ct, off, hw, hK => by
      simp only [wfS3] at hw
      simp only [nlitsS3] at hK
      simp only [compS]
      exact (compSs_iok body m inFn true _ K _ _ _ hw hK).append (AllI.single (by trivial))
    | .for3 c body post, m, inFn, inl, k, K, bt, ct, off, hw, hK => by
      simp only [wfS3, Bool.and_eq_true] at hw
      simp only [nlitsS3] at hK
      simp only [compS]
      exact ((((comp_iok c m k K off hw.1.1.1 (by omega)).append (AllI.single (by trivial))).append
        (compSs_iok body m inFn true _ K _ _ _ hw.1.1.2 (by omega))).append
        (compS_iok post m inFn inl _ K _ _ _ hw.2 (by omega))).append (AllI.single (by trivial))
    | .brk, _, _, _, _, _, _, _, _, _, _ | .cont, _, _, _, _, _, _, _, _, _, _
    | .ret0, _, _, _, _, _, _, _, _, _, _ => by
      simp only [compS]; exact AllI.single (by trivial)
    | .ret e, m, inFn, inl, k, K, bt, ct, off, hw, hK => by
      simp only [wfS3, Bool.and_eq_true] at hw
      simp only [nlitsS3] at hK
      simp only [compS]
      exact (comp_iok e m k K off hw.2 hK).append (AllI.single (by trivial))
  theorem compSs_iok : ∀ (ss : Stms) (m : Nat) (inFn inl : Bool) (k K bt ct off : Nat),
      wfSs3 isFn n m inFn inl k ss = true → k + nlitsSs3 ss ≤ K → AllI (IOk K n m) (compSs bt ct off ss)
    | .nil, _, _, _, _, _, _, _, _, _, _ => by simp only [compSs]; exact AllI.nil _
    | .cons s ss, m, inFn, inl, k, K, bt, ct, off, hw, hK => by
      simp only [wfSs3, Bool.and_eq_true] at hw
      simp only [nlitsSs3] at hK
      simp only [compSs]
      exact (compS_iok s m inFn inl k K bt ct off hw.1 (by omega)).append
        (compSs_iok ss m inFn inl _ K bt ct _ hw.2 (by omega))
end

/-- The top level of a function body: local slots below `m + ndefs ss` (= `NumLocals` for the whole body). -/
theorem body_iok : ∀ (ss : Stms) (m k K bt ct off : Nat), wfBody isFn n m k ss = true → k + nlitsSs3 ss ≤ K →
    AllI (IOk K n (m + ndefs ss)) (compSs bt ct off ss)
  | .nil, _, _, _, _, _, _, _, _ => by simp only [compSs]; exact AllI.nil _
  | .cons st ss, m, k, K, bt, ct, off, hw, hK => by
    simp only [nlitsSs3] at hK
    simp only [compSs]
    rcases isDefl_cases st with ⟨i, e, rfl⟩ | hnd
    · rw [wfBody_defl] at hw
      simp only [Bool.and_eq_true, beq_iff_eq] at hw
      obtain ⟨⟨rfl, hwe⟩, hws⟩ := hw
      simp only [nlitsS3] at hK
      rw [ndefs_defl]
      refine AllI.append ?_ ?_
      · simp only [compS]
        exact ((comp_iok e i k K off hwe (by omega)).mono (IOk.mono (Nat.le_refl _) (by omega))).append
          (AllI.single (by show i < i + (ndefs ss + 1); omega))
      · have := body_iok ss (i + 1) _ K bt ct (off + F3.ssize (.defl i e)) hws (by omega)
        have e1 : i + (ndefs ss + 1) = i + 1 + ndefs ss := by omega
        rw [e1]; exact this
    · rw [wfBody_other _ _ _ _ _ _ hnd] at hw
      simp only [Bool.and_eq_true] at hw
      rw [ndefs_other _ _ hnd]
      exact ((compS_iok st m true false k K bt ct off hw.1 (by omega)).mono
        (IOk.mono (Nat.le_refl _) (by omega))).append (body_iok ss m _ K bt ct _ hw.2 (by omega))

end wf

/-! ### the main program -/

theorem topFn_some {P : Prog} {s : Stm} {i j : Nat} {fd : FnDef} (h : topFn P s = some (i, j, fd)) :
    s = .assign i (.lit j) ∧ P.fns j = some fd := by
  cases s with
  | assign i' e =>
    cases e with
    | lit j' =>
      simp only [topFn] at h
      cases hf : P.fns j' with
      | none => rw [hf] at h; cases h
      | some fd' =>
        rw [hf] at h
        simp only [Option.map_some, Option.some.injEq, Prod.mk.injEq] at h
        obtain ⟨rfl, rfl, rfl⟩ := h
        exact ⟨rfl, hf⟩
    | _ => simp [topFn] at h
  | _ => simp [topFn] at h

theorem topFn_assign (P : Prog) (i j : Nat) (fd : FnDef) (h : P.fns j = some fd) :
    topFn P (.assign i (.lit j)) = some (i, j, fd) := by
  simp [topFn, h]

/-- Membership in a statement list. -/
def MemS (s : Stm) : Stms → Prop
  | .nil => False
  | .cons s' ss => s = s' ∨ MemS s ss

theorem main_iok (P : Prog) (n : Nat) : ∀ (ss : Stms) (k K bt ct off : Nat), wfMain P n k ss = true →
    k + nlitsMain P ss ≤ K → AllI (IOk K n 0) (compSs bt ct off ss)
  | .nil, _, _, _, _, _, _, _ => by simp only [compSs]; exact AllI.nil _
  | .cons s ss, k, K, bt, ct, off, hw, hK => by
    simp only [wfMain, Bool.and_eq_true] at hw
    simp only [nlitsMain] at hK
    simp only [compSs]
    refine AllI.append ?_ (main_iok P n ss _ K bt ct _ hw.2 (by omega))
    cases ht : topFn P s with
    | none =>
      have h1 := hw.1
      simp only [ht] at h1
      have hn : nlitsTop P s = nlitsS3 s := by simp only [nlitsTop, ht]
      exact compS_iok s 0 false false k K bt ct off h1 (by omega)
    | some x =>
      obtain ⟨i, j, fd⟩ := x
      have h1 := hw.1
      simp only [ht, Bool.and_eq_true, decide_eq_true_eq, beq_iff_eq] at h1
      have hn : nlitsTop P s = nlitsSs3 fd.body + 1 := by simp only [nlitsTop, ht]
      obtain ⟨rfl, _⟩ := topFn_some ht
      simp only [compS, comp]
      exact (AllI.single (by show j < K; omega)).append (AllI.single h1.1.1)

/-- What `wfMain` says about a function stored by a statement of main: its definition is well-formed with its
body's constants starting at some `k'`, and all of them and the function's own constant are inside the pool. -/
theorem wfMain_fn (P : Prog) (n : Nat) : ∀ (ss : Stms) (k K : Nat), wfMain P n k ss = true →
    k + nlitsMain P ss ≤ K → ∀ (i j : Nat) (fd : FnDef), MemS (.assign i (.lit j)) ss → P.fns j = some fd →
    ∃ k', wfFn (isFnOf P) n k' fd = true ∧ k' + nlitsSs3 fd.body ≤ K ∧ j < K ∧ i < n
  | .nil, _, _, _, _, _, _, _, hm, _ => hm.elim
  | .cons s ss, k, K, hw, hK, i, j, fd, hm, hf => by
    simp only [wfMain, Bool.and_eq_true] at hw
    simp only [nlitsMain] at hK
    rcases hm with rfl | hm
    · have h1 := hw.1
      have ht := topFn_assign P i j fd hf
      simp only [ht, Bool.and_eq_true, decide_eq_true_eq, beq_iff_eq] at h1
      have hn : nlitsTop P (.assign i (.lit j)) = nlitsSs3 fd.body + 1 := by simp only [nlitsTop, ht]
      exact ⟨k, h1.1.2, by omega, by omega, h1.1.1⟩
    · exact wfMain_fn P n ss _ K hw.2 (by omega) i j fd hm hf

/-! ### from `IOk` to `InsFits3` and `InsRange3` -/

theorem fits_of_iok {K n m : Nat} (hK : K ≤ 65536) (hn : n ≤ 65536) (hm : m ≤ 256) {i : Ins} (h : IOk K n m i)
    (hj : ∀ t, jtarget i = some t → t < 4294967296) : InsFits3 i ∧ InsRange3 K n i := by
  cases i <;> simp only [IOk] at h <;> simp only [InsFits3, InsRange3, and_true, true_and] <;>
    first
      | exact hj _ rfl
      | omega
      | trivial

/-- Operands in range, jumps on boundaries, and the code shorter than `2^32` bytes: every instruction fits. -/
theorem code_fits {K n m : Nat} (hK : K ≤ 65536) (hn : n ≤ 65536) (hm : m ≤ 256) {code : List Ins}
    (hio : AllI (IOk K n m) code) (hjk : JOk code code) (hsz : csize code < 4294967296) :
    ∀ i ∈ code, InsFits3 i ∧ InsRange3 K n i :=
  fun i hi => fits_of_iok hK hn hm (hio i hi) (fun t ht => jump_fits hjk hsz hi ht)

end Tengo.Proofs.C01F3Opt

import Tengo.Props.C17
import Tengo.Model.FormatSpecMulti
/-!
Helper lemmas for C17 (`M = G` on whole format strings): the format loop of the model, iteration by
iteration, over a list of items (literal text, canonical directives, `%%`). Every iteration is ONE
guarded write of the item's rendering; guarded writes compose (`write_write`), so the early exit at
the first failing write is unobservable: the loop as a whole is one guarded write of the concatenation.
-/
namespace Tengo.Proofs.C17Multi
open Tengo.Model.Format Tengo.Model.FormatSpec Tengo.Model.FormatSpecMulti Tengo.Proofs.FormatParse Tengo.Props.C17

/-! ### guarded writes -/

theorem write_ok (L : Nat) (buf p b : Bytes) (h : write L buf p = .ok b) : b = buf ++ p ∧ b.length ≤ L := by
  unfold write at h
  split at h
  · cases h
  · rename_i hle
    injection h with h
    subst h
    simp at hle ⊢
    omega

theorem write_nil (L : Nat) (buf : Bytes) (h : buf.length ≤ L) : write L buf [] = .ok buf := by
  unfold write
  have : ¬ (buf.length + ([] : Bytes).length > L) := by simp; omega
  rw [if_neg this, List.append_nil]

theorem match_eq_bind {α : Type} (x : R) (f : Bytes → Except Err α) :
    (match x with | .error e => .error e | .ok b => f b) = (x >>= f) := by
  cases x <;> rfl

/-- One more guarded write in front of a continuation that is itself a guarded write. -/
theorem step_combine {α : Type} (L : Nat) (buf a c : Bytes) (f g : Bytes → Except Err α)
    (h : ∀ b, write L buf a = .ok b → f b = (write L b c >>= g)) :
    (write L buf a >>= f) = (write L buf (a ++ c) >>= g) := by
  rw [← write_write]
  cases hw : write L buf a with
  | error e => rfl
  | ok b =>
    show f b = _
    rw [h b hw]
    rfl

theorem write3 (L : Nat) (buf a b c : Bytes) :
    (write L buf a >>= fun x => write L x b >>= fun y => write L y c) = write L buf (a ++ b ++ c) := by
  have : (fun x => write L x b >>= fun y => write L y c) = fun x => write L x (b ++ c) := by
    funext x; exact write_write L x b c
  rw [this, write_write, List.append_assoc]

/-! ### the loop, one iteration unfolded -/

/-- What an iteration does after its literal run. -/
def afterLit (O : Oracle) (L : Nat) (args : List Arg) (ints : List (Option Int)) (st : LoopOut) (buf : Bytes) :
    Bytes → Except Err LoopOut
  | [] => .ok { st with buf := buf }
  | _ :: r1 =>
    match renderDirective O L args (parseDirective ints st.argNum r1) buf with
    | .error e => .error e
    | .ok buf =>
      if (parseDirective ints st.argNum r1).verb.isNone then
        .ok { buf := buf, argNum := nextArgNum args.length (parseDirective ints st.argNum r1),
              reordered := st.reordered || (parseDirective ints st.argNum r1).reordered }
      else loop O L args ints (r1.drop (parseDirective ints st.argNum r1).n)
        { buf := buf, argNum := nextArgNum args.length (parseDirective ints st.argNum r1),
          reordered := st.reordered || (parseDirective ints st.argNum r1).reordered }

theorem loop_unfold (O : Oracle) (L : Nat) (args : List Arg) (ints : List (Option Int)) (r : Bytes) (st : LoopOut) :
    loop O L args ints r st =
      if r = [] then .ok st
      else
        match (if litLen r > 0 then write L st.buf (r.take (litLen r)) else .ok st.buf) with
        | .error e => .error e
        | .ok buf => afterLit O L args ints st buf (r.drop (litLen r)) := by
  rw [loop]
  split
  · rfl
  · split
    · rename_i e hw
      rw [hw]
    · rename_i buf hw
      rw [hw]
      split
      · rename_i heq
        rw [heq]; rfl
      · rename_i c r1 heq
        rw [heq]; rfl

/-- `afterLit` reads only `argNum` and `reordered` of the state. -/
theorem afterLit_buf (O : Oracle) (L : Nat) (args : List Arg) (ints : List (Option Int)) (st : LoopOut) (b buf r : Bytes) :
    afterLit O L args ints { st with buf := b } buf r = afterLit O L args ints st buf r := by
  cases r <;> rfl

/-- A literal byte: one guarded write, then the loop goes on (the model writes the whole literal run
at once; guarded writes compose, so byte by byte is the same). -/
theorem loop_lit_cons (O : Oracle) (L : Nat) (args : List Arg) (ints : List (Option Int)) (c : UInt8) (rest : Bytes)
    (st : LoopOut) (hc : c ≠ 37) :
    loop O L args ints (c :: rest) st =
      (write L st.buf [c] >>= fun buf => loop O L args ints rest { st with buf := buf }) := by
  rw [loop_unfold]
  have hl : litLen (c :: rest) = litLen rest + 1 := by simp [litLen, hc]; omega
  have hpos : litLen rest + 1 > 0 := by omega
  simp only [List.cons_ne_nil, if_false, hl, hpos, if_true, List.take_succ_cons, List.drop_succ_cons]
  have hww := write_write L st.buf [c] (rest.take (litLen rest))
  simp only [List.singleton_append] at hww
  rw [← hww]
  cases hw : write L st.buf [c] with
  | error e => rfl
  | ok b =>
    show (match write L b (rest.take (litLen rest)) with
          | .error e => .error e
          | .ok buf => afterLit O L args ints st buf (rest.drop (litLen rest))) =
      loop O L args ints rest { st with buf := b }
    obtain ⟨_, hbl⟩ := write_ok L st.buf [c] b hw
    rw [loop_unfold O L args ints rest]
    by_cases hr : rest = []
    · subst hr
      simp only [litLen, List.take_nil, List.drop_nil, if_true]
      rw [write_nil L b hbl]
      rfl
    · simp only [hr, if_false]
      by_cases hp : litLen rest > 0
      · simp only [hp, if_true]
        cases write L b (rest.take (litLen rest)) with
        | error e => rfl
        | ok b2 => exact (afterLit_buf O L args ints st b b2 _).symm
      · have h0 : litLen rest = 0 := by omega
        simp only [h0, List.take_zero, List.drop_zero, Nat.lt_irrefl, if_false]
        rw [write_nil L b hbl]
        exact (afterLit_buf O L args ints st b b _).symm

/-- Literal text without `%`: one guarded write. -/
theorem loop_lit (O : Oracle) (L : Nat) (args : List Arg) (ints : List (Option Int)) :
    ∀ (s rest : Bytes) (st : LoopOut), (37 : UInt8) ∉ s → st.buf.length ≤ L →
    loop O L args ints (s ++ rest) st =
      (write L st.buf s >>= fun buf => loop O L args ints rest { st with buf := buf }) := by
  intro s
  induction s with
  | nil =>
    intro rest st _ hb
    rw [write_nil L st.buf hb]
    rfl
  | cons c s ih =>
    intro rest st hs hb
    have hc : c ≠ 37 := by intro h; subst h; simp at hs
    have hs' : (37 : UInt8) ∉ s := by intro h; exact hs (List.mem_cons_of_mem _ h)
    rw [List.cons_append, loop_lit_cons O L args ints c (s ++ rest) st hc]
    have := step_combine L st.buf [c] s
      (fun buf => loop O L args ints (s ++ rest) { st with buf := buf })
      (fun buf => loop O L args ints rest { st with buf := buf })
      (fun b hw => by
        obtain ⟨_, hbl⟩ := write_ok L st.buf [c] b hw
        exact ih rest { st with buf := b } hs' hbl)
    simpa using this

/-! ### directives -/

theorem encodeRune_ascii (v : Nat) (h : v < 128) : encodeRune v = [v.toUInt8] := by
  simp [encodeRune, h]

theorem dirText_append (d : GDir) (vb : UInt8) (rest : Bytes) : dirText d vb rest = dirText d vb [] ++ rest := by
  simp [dirText]

/-- The spec's printed directive is `%` followed by the text the parser lemma is about. -/
theorem showDir_eq (d : GDir) (rest : Bytes) (h : d.verb < 128) :
    showDir d ++ rest = 37 :: dirText d d.verb.toUInt8 rest := by
  rw [showDir, dirText, flagText, widthText, precText, encodeRune_ascii _ h]
  cases d.width <;> cases d.prec <;> simp

theorem toUInt8_toNat (v : Nat) (h : v < 128) : v.toUInt8.toNat = v := by
  simp [Nat.toUInt8]; omega

theorem dirOk_verb (d : GDir) (a : GOperand) (h : DirOk d a) :
    d.verb = 100 ∨ d.verb = 98 ∨ d.verb = 111 ∨ d.verb = 79 ∨ d.verb = 120 ∨ d.verb = 88 ∨ d.verb = 115 ∨ d.verb = 116 ∨ d.verb = 99 := by
  obtain ⟨_, _, h⟩ := h
  cases a <;> simp only [isIntVerb, Bool.or_eq_true, beq_iff_eq] at h <;> omega

/-- Verb level `M = G` for a well-formed (directive, operand) pair. -/
theorem printArg_eq_G (O : Oracle) (L : Nat) (d : GDir) (a : GOperand) (buf : Bytes) (hok : DirOk d a) (h : buf.length ≤ L) :
    printArg O L (flOf d) buf a.toArg d.verb = write L buf (renderDir d a) := by
  obtain ⟨_, _, hv⟩ := hok
  cases a with
  | int v =>
    simp only [isIntVerb, Bool.or_eq_true, beq_iff_eq] at hv
    by_cases h99 : d.verb = 99
    · simp only [GOperand.toArg, renderDir, h99, if_true]
      rw [← h99]; exact M_eq_G_char O L d buf v h99 h
    · simp only [GOperand.toArg, renderDir, h99, if_false]
      exact M_eq_G_int O L d buf v (by omega) h
  | str s => exact (M_eq_G_str O L d buf s hv h).1
  | bytes s => exact (M_eq_G_str O L d buf s hv h).2
  | bool b => exact M_eq_G_bool O L d buf b hv h

theorem renderDirective_get (O : Oracle) (L : Nat) (args : List Arg) (a : Arg) (d : GDir) (k n : Nat) (buf : Bytes)
    (hget : args[k]? = some a) (h37 : d.verb ≠ 37) (h118 : d.verb ≠ 118) :
    renderDirective O L args (expected d k n) buf = printArg O L (flOf d) buf a d.verb := by
  simp [renderDirective, expected, h37, h118, hget, bind, Except.bind]

/-- A canonical directive whose operand is there: one guarded write of `G`'s rendering, the operand
counter advances. -/
theorem loop_dir (O : Oracle) (L : Nat) (args : List Arg) (ints : List (Option Int)) (d : GDir) (a : GOperand)
    (rest : Bytes) (st : LoopOut) (hok : DirOk d a) (hb : st.buf.length ≤ L) (hget : args[st.argNum]? = some a.toArg) :
    loop O L args ints (showDir d ++ rest) st =
      (write L st.buf (renderDir d a) >>= fun buf =>
        loop O L args ints rest { buf := buf, argNum := st.argNum + 1, reordered := st.reordered }) := by
  have hverb := dirOk_verb d a hok
  have h128 : d.verb < 128 := by omega
  have hvb := toUInt8_toNat d.verb h128
  have hpv := plainVerb_of _ d.verb hvb hverb
  rw [showDir_eq d rest h128, loop_percent, parse_show ints st.argNum d _ rest hvb hpv hok.1 hok.2.1]
  rw [renderDirective_get O L args a.toArg d _ _ st.buf hget (by omega) (by omega), printArg_eq_G O L d a st.buf hok hb]
  cases hw : write L st.buf (renderDir d a) with
  | error e => rfl
  | ok b =>
    have hlt : st.argNum < args.length := by
      rcases Nat.lt_or_ge st.argNum args.length with h | h
      · exact h
      · rw [List.getElem?_eq_none h] at hget; cases hget
    have h37 : d.verb ≠ 37 := by omega
    have hnl : ¬ (st.argNum ≥ args.length) := by omega
    simp only [expected, Option.isNone_some, Bool.false_eq_true, if_false]
    rw [dirText_append d _ rest, List.drop_left]
    simp [nextArgNum, h37, hnl, bind, Except.bind]

/-- The same directive when no operand is left: `%!verb(MISSING)`, the counter stays. -/
theorem loop_dir_missing (O : Oracle) (L : Nat) (args : List Arg) (ints : List (Option Int)) (d : GDir) (a : GOperand)
    (rest : Bytes) (st : LoopOut) (hok : DirOk d a) (hge : args.length ≤ st.argNum) :
    loop O L args ints (showDir d ++ rest) st =
      (write L st.buf (missingText d) >>= fun buf => loop O L args ints rest { st with buf := buf }) := by
  have hverb := dirOk_verb d a hok
  have h128 : d.verb < 128 := by omega
  have hvb := toUInt8_toNat d.verb h128
  have hpv := plainVerb_of _ d.verb hvb hverb
  have h37 : d.verb ≠ 37 := by omega
  rw [showDir_eq d rest h128, loop_percent, parse_show ints st.argNum d _ rest hvb hpv hok.1 hok.2.1]
  have hr : renderDirective O L args (expected d st.argNum (dirText d d.verb.toUInt8 []).length) st.buf =
      write L st.buf (missingText d) := by
    have hnone : args[st.argNum]? = none := List.getElem?_eq_none hge
    simp only [renderDirective, expected, Bool.false_eq_true, if_false, h37, Bool.not_true, hnone, verbError, missingText]
    exact write3 L st.buf _ _ _
  rw [hr]
  cases hw : write L st.buf (missingText d) with
  | error e => rfl
  | ok b =>
    have hnl : st.argNum ≥ args.length := hge
    simp only [expected, Option.isNone_some, Bool.false_eq_true, if_false]
    rw [dirText_append d _ rest, List.drop_left]
    simp [nextArgNum, h37, hnl, bind, Except.bind]

/-- `%%`: one guarded write of `%`, no operand consumed. -/
theorem loop_pct (O : Oracle) (L : Nat) (args : List Arg) (ints : List (Option Int)) (rest : Bytes) (st : LoopOut) :
    loop O L args ints (37 :: 37 :: rest) st =
      (write L st.buf [37] >>= fun buf => loop O L args ints rest { st with buf := buf }) := by
  have hpv : PlainVerb 37 := by unfold PlainVerb; decide
  have ht : (37 : UInt8) :: rest = dirText { verb := 37 } 37 rest := by
    simp [dirText, flagText, widthText, precText]
  have hps := parse_show ints st.argNum { verb := 37 } 37 rest rfl hpv (by intro w h; cases h) (by intro p h; cases h)
  rw [← ht] at hps
  rw [loop_percent, hps]
  have hr : ∀ n, renderDirective O L args (expected { verb := 37 } st.argNum n) st.buf = write L st.buf [37] := by
    intro n; simp [renderDirective, expected, bind, Except.bind]
  rw [hr]
  cases hw : write L st.buf [37] with
  | error e => rfl
  | ok b =>
    simp only [expected, Option.isNone_some, Bool.false_eq_true, if_false]
    have hl : (dirText { verb := 37 } 37 []).length = 1 := by simp [dirText, flagText, widthText, precText]
    rw [hl]
    simp [nextArgNum, bind, Except.bind]

/-! ### the whole loop over a list of items -/

theorem renderAllN_ge : ∀ (items : List GItem) (n : Nat), (operands items).length ≤ n →
    renderAllN n items = renderAll items := by
  intro items
  induction items with
  | nil => intro n _; cases n <;> rfl
  | cons it rest ih =>
    intro n h
    cases it with
    | lit s => simp only [operands] at h; simp only [renderAllN, renderAll, renderItem, ih n h]
    | pct => simp only [operands] at h; simp only [renderAllN, renderAll, renderItem, ih n h]
    | dir d a =>
      simp only [operands, List.length_cons] at h
      cases n with
      | zero => omega
      | succ m => simp only [renderAllN, renderAll, renderItem, ih m (by omega)]

/-- The supplied arguments, from position `k` on, are the operands of the items as far as they go
(there may be fewer: missing operands; or more: surplus). -/
def Compat (args : List Arg) (k : Nat) (items : List GItem) : Prop :=
  ∀ j a, (operands items)[j]? = some a → k + j < args.length → args[k + j]? = some a

/-- The final state of the loop: the output buffer, the operand counter, no re-ordering seen. -/
def finish (st : LoopOut) (nargs nops : Nat) (buf : Bytes) : Except Err LoopOut :=
  .ok { buf := buf, argNum := min (st.argNum + nops) nargs, reordered := st.reordered }

/-- **The loop invariant.** From any state whose buffer is within the limit, the loop over the printed
items is one guarded write of their rendering (directives beyond the supplied operands print
`%!verb(MISSING)`); the operand counter ends at the number of operands consumed. -/
theorem loop_items (O : Oracle) (L : Nat) (args : List Arg) (ints : List (Option Int)) :
    ∀ (items : List GItem) (st : LoopOut), ItemsOk items → st.buf.length ≤ L → st.argNum ≤ args.length →
      Compat args st.argNum items →
      loop O L args ints (showItems items) st =
        (write L st.buf (renderAllN (args.length - st.argNum) items) >>=
          finish st args.length (operands items).length) := by
  intro items
  induction items with
  | nil =>
    intro st _ hb hk _
    simp only [showItems, loop_nil, renderAllN, operands, List.length_nil]
    rw [write_nil L st.buf hb]
    show _ = finish st args.length 0 st.buf
    simp only [finish, Nat.add_zero, Nat.min_eq_left hk]
  | cons it rest ih =>
    intro st hok hb hk hc
    have hokr : ItemsOk rest := fun x hx => hok x (List.mem_cons_of_mem _ hx)
    have hit : ItemOk it := hok it (List.mem_cons_self)
    cases it with
    | lit s =>
      have hcr : Compat args st.argNum rest := hc
      simp only [showItems, showItem, renderAllN, operands]
      rw [loop_lit O L args ints s (showItems rest) st hit hb]
      exact step_combine L st.buf s _ _ _ (fun b hw => by
        obtain ⟨_, hbl⟩ := write_ok L st.buf s b hw
        exact ih { st with buf := b } hokr hbl hk hcr)
    | pct =>
      have hcr : Compat args st.argNum rest := hc
      simp only [showItems, showItem, renderAllN, operands]
      show loop O L args ints (37 :: 37 :: showItems rest) st = _
      rw [loop_pct O L args ints (showItems rest) st]
      exact step_combine L st.buf [37] _ _ _ (fun b hw => by
        obtain ⟨_, hbl⟩ := write_ok L st.buf [37] b hw
        exact ih { st with buf := b } hokr hbl hk hcr)
    | dir d a =>
      simp only [showItems, showItem, operands, List.length_cons]
      by_cases hlt : st.argNum < args.length
      · obtain ⟨m, hm⟩ : ∃ m, args.length - st.argNum = m + 1 := ⟨args.length - st.argNum - 1, by omega⟩
        have hget : args[st.argNum]? = some a.toArg := by
          have := hc 0 a.toArg (by simp [operands]) (by omega)
          simpa using this
        have hcr : Compat args (st.argNum + 1) rest := by
          intro j x hx hj
          have := hc (j + 1) x (by simpa [operands] using hx) (by omega)
          rw [show st.argNum + 1 + j = st.argNum + (j + 1) by omega]
          exact this
        rw [hm, loop_dir O L args ints d a (showItems rest) st hit hb hget]
        simp only [renderAllN]
        exact step_combine L st.buf (renderDir d a) _ _ _ (fun b hw => by
          obtain ⟨_, hbl⟩ := write_ok L st.buf _ b hw
          have := ih { buf := b, argNum := st.argNum + 1, reordered := st.reordered } hokr hbl (by exact hlt) hcr
          have hm' : args.length - (st.argNum + 1) = m := by omega
          simp only [hm'] at this
          rw [this]
          congr 1
          funext buf
          simp only [finish]
          rw [show st.argNum + 1 + (operands rest).length = st.argNum + ((operands rest).length + 1) by omega])
      · have hkeq : st.argNum = args.length := by omega
        have h0 : args.length - st.argNum = 0 := by omega
        have hcr : Compat args st.argNum rest := by
          intro j x _ hj; omega
        rw [h0, loop_dir_missing O L args ints d a (showItems rest) st hit (by omega)]
        simp only [renderAllN]
        exact step_combine L st.buf (missingText d) _ _ _ (fun b hw => by
          obtain ⟨_, hbl⟩ := write_ok L st.buf _ b hw
          have := ih { st with buf := b } hokr hbl hk hcr
          simp only [h0] at this
          rw [this]
          congr 1
          funext buf
          simp only [finish]
          rw [Nat.min_eq_right (by omega), Nat.min_eq_right (by omega)])

/-! ### `Format` as a whole -/

/-- `x >>= f` is a guarded write of `a ++ c` when `f` continues with a guarded write of `c`. -/
theorem write_then (L : Nat) (buf a c : Bytes) (f : Bytes → R)
    (h : ∀ b, write L buf a = .ok b → f b = write L b c) :
    (write L buf a >>= f) = write L buf (a ++ c) := by
  rw [← write_write]
  cases hw : write L buf a with
  | error e => rfl
  | ok b =>
    show f b = _
    rw [h b hw]
    rfl

def NoFloat (a : Arg) : Prop := ∀ b, a ≠ .float b

theorem toArg_noFloat (a : GOperand) : NoFloat a.toArg := by
  intro b h; cases a <;> cases h

theorem operands_noFloat : ∀ (items : List GItem), ∀ a ∈ operands items, NoFloat a := by
  intro items
  induction items with
  | nil => intro a h; cases h
  | cons it rest ih =>
    intro a h
    cases it with
    | lit s => exact ih a h
    | pct => exact ih a h
    | dir d x =>
      simp only [operands, List.mem_cons] at h
      rcases h with h | h
      · subst h; exact toArg_noFloat x
      · exact ih a h

/-- Without float operands `ToInt64` never consults the oracle. -/
theorem resolveInts_noFloat (O : Oracle) : ∀ (args : List Arg), (∀ a ∈ args, NoFloat a) →
    ∃ ints, resolveInts O args = some ints := by
  intro args
  induction args with
  | nil => intro _; exact ⟨[], rfl⟩
  | cons a rest ih =>
    intro h
    obtain ⟨vs, hvs⟩ := ih (fun x hx => h x (List.mem_cons_of_mem _ hx))
    have ha : ∃ v, toInt64 O a = some v := by
      cases a with
      | float b => exact absurd rfl (h (.float b) List.mem_cons_self b)
      | int v => exact ⟨_, rfl⟩
      | str s => exact ⟨_, rfl⟩
      | bool b => exact ⟨_, rfl⟩
      | bytes s => exact ⟨_, rfl⟩
    obtain ⟨v, hv⟩ := ha
    exact ⟨v :: vs, by simp only [resolveInts, hv, hvs]⟩

/-- `%!(EXTRA` list: one guarded write of the joined `type=value` entries. -/
theorem extras_eq (O : Oracle) (L : Nat) (str : Arg → Bytes) : ∀ (l : List Arg),
    (∀ a ∈ l, argString O a = some (str a)) → ∀ (first : Bool) (buf : Bytes), buf.length ≤ L →
    extras O L first buf l = write L buf (extrasText str first l) := by
  intro l
  induction l with
  | nil => intro _ first buf hb; simp only [extras, extrasText]; exact (write_nil L buf hb).symm
  | cons a rest ih =>
    intro h first buf hb
    have hs := h a List.mem_cons_self
    have hsep : (if first then (.ok buf : R) else write L buf [44, 32]) = write L buf (if first then [] else [44, 32]) := by
      cases first
      · rfl
      · simp only [if_true]; exact (write_nil L buf hb).symm
    simp only [extras, hs, extrasText, hsep, List.append_assoc]
    apply write_then; intro b1 _
    apply write_then; intro b2 _
    apply write_then; intro b3 _
    apply write_then; intro b4 h4
    exact ih (fun x hx => h x (List.mem_cons_of_mem _ hx)) false b4 (write_ok L b3 _ b4 h4).2

/-- `Format` on the printed items with any argument list that agrees with the items' operands as far
as both go: the loop's single guarded write, then the surplus check. -/
theorem format_items (O : Oracle) (L : Nat) (items : List GItem) (args : List Arg) (ints : List (Option Int))
    (hok : ItemsOk items) (hc : Compat args 0 items) (hints : resolveInts O args = some ints) :
    format O L (showItems items) args =
      (write L [] (renderAllN args.length items) >>= fun buf =>
        if (operands items).length < args.length then
          (write L buf [37, 33, 40, 69, 88, 84, 82, 65, 32] >>= fun buf =>
            extras O L true buf (args.drop (operands items).length) >>= fun buf => write L buf [41])
        else .ok buf) := by
  unfold format
  rw [hints]
  simp only []
  rw [loop_items O L args ints items { buf := [], argNum := 0, reordered := false } hok (Nat.zero_le _) (Nat.zero_le _) hc]
  simp only [Nat.sub_zero]
  cases hw : write L [] (renderAllN args.length items) with
  | error e => rfl
  | ok b =>
    simp only [bind, Except.bind, finish, Nat.zero_add, Bool.not_false, Bool.true_and]
    by_cases hlt : (operands items).length < args.length
    · have hmin : min (operands items).length args.length = (operands items).length := Nat.min_eq_left (by omega)
      simp only [hmin, hlt, decide_true, if_true]
    · have hmin : min (operands items).length args.length = args.length := Nat.min_eq_right (by omega)
      simp only [hmin, hlt, Nat.lt_irrefl, decide_false, Bool.false_eq_true, if_false]

theorem renderAllN_min : ∀ (items : List GItem) (n : Nat),
    renderAllN (min n (operands items).length) items = renderAllN n items := by
  intro items n
  by_cases h : n ≤ (operands items).length
  · rw [Nat.min_eq_left h]
  · rw [Nat.min_eq_right (by omega), renderAllN_ge items _ (Nat.le_refl _), renderAllN_ge items n (by omega)]

end Tengo.Proofs.C17Multi

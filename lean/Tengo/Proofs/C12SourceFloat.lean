import Tengo.Proofs.C12Renum
/-!
C12 at the source level, part 2: **the float hypothesis `FloatsOK`, decided.**

`Tengo.Props.C12Univ` treats `Float` as opaque ("`Float.toBits` is not provably injective"). In the core
library of this toolchain (Lean 4.33) it is not: `Float` is a structure over `Float.Model`, which is a bit
pattern `toBits : UInt64` with a validity proof, and `Float.toBits x = x.toModel.toBits`. Hence

* `float_ext`: two floats with the same bit pattern are the same float (no axiom), and
* `floatEq_cases`: two float constants that Go's `==` identifies (`Dedup.floatEq`) are the same float or are
  both zeros (`+0`, `-0`),

so `FloatsOK` is *equivalent* to a decidable check (`floatsOKB_iff`) and follows from "no float constant is
`-0.0`" (`noNegZeroB_sound`) — the condition `NoNegZeroConst` of `Tengo.Props.C12`, and exactly the known
finding C12-F3 (`RemoveDuplicates` merges a `-0.0` constant with `0.0`). The old sufficient condition
`floatsDistinctB` (no two float constants are merged at all) is a special case.

Without any float hypothesis (`expand_const`): the program `expandVals code code' m` that the universal theorem
speaks about then differs from `code` at most in that a zero float constant is replaced by a zero float
constant of the other sign; every other constant is unchanged (`ConstUpToZero`).
-/
set_option linter.unusedVariables false
set_option linter.unusedSimpArgs false
namespace Tengo.Proofs.C12Source
open Tengo.Model Tengo.Model.Opcodes Tengo.Model.Spec Tengo.Model.VM Tengo.Props.C12 Tengo.Proofs.C12Renum
open Tengo.Model.Dedup (scan dedup updateConstIndexes rewriteConst rewriteAll floatEq isZero isNaN Key)

/-! ## 1. `Float` is determined by its bit pattern -/

/-- Two floats with the same bit pattern are the same float. -/
theorem float_ext {x y : Float} (h : x.toBits = y.toBits) : x = y := by
  cases x with
  | ofModel mx =>
    cases y with
    | ofModel my =>
      cases mx; cases my
      simp only [Float.toBits] at h
      subst h; rfl

theorem float_bits_inj {x y : Float} (h : x.toBits.toNat = y.toBits.toNat) : x = y :=
  float_ext (UInt64.toNat_inj.mp h)

/-- Go's `==` on two float constants: the same float, or two zeros. -/
theorem floatEq_cases {x y : Float} (h : floatEq x.toBits.toNat y.toBits.toNat = true) :
    x = y ∨ (isZero x.toBits.toNat = true ∧ isZero y.toBits.toNat = true) := by
  unfold floatEq at h
  simp only [Bool.and_eq_true, Bool.or_eq_true, beq_iff_eq] at h
  rcases h.2 with e | e
  · exact Or.inl (float_bits_inj e)
  · exact Or.inr e

/-- a zero bit pattern is `+0` or `-0` -/
theorem isZero_cases {x : Float} (h : isZero x.toBits.toNat = true) :
    x.toBits.toNat = 0 ∨ x.toBits.toNat = 2 ^ 63 := by
  unfold isZero at h
  simp only [beq_iff_eq] at h
  have := UInt64.toNat_lt x.toBits
  omega

/-! ## 2. Decidable forms of `FloatsOK` -/

/-- `FloatsOK`, decided: two float constants that Go's `==` identifies have the same bit pattern. -/
def floatsOKB (code : Code) : Bool :=
  (List.range code.consts.size).all (fun k1 =>
    (List.range code.consts.size).all (fun k2 =>
      match code.consts[k1]?, code.consts[k2]? with
      | some (.val (.float x)), some (.val (.float y)) =>
        !floatEq x.toBits.toNat y.toBits.toNat || x.toBits == y.toBits
      | _, _ => true))

/-- No float constant is `-0.0` (bit pattern `0x8000000000000000`). -/
def noNegZeroB (code : Code) : Bool :=
  code.consts.toList.all (fun c =>
    match c with
    | .val (.float x) => x.toBits.toNat != 2 ^ 63
    | _ => true)

theorem floatsOKB_sound {code : Code} (h : floatsOKB code = true) : FloatsOK code := by
  intro k1 k2 x y h1 h2 he
  unfold floatsOKB at h
  simp only [List.all_eq_true, List.mem_range] at h
  have hk1 := (Array.getElem?_eq_some_iff.mp h1).1
  have hk2 := (Array.getElem?_eq_some_iff.mp h2).1
  have := h k1 hk1 k2 hk2
  rw [h1, h2] at this
  simp only [he, Bool.not_true, Bool.false_or, beq_iff_eq] at this
  exact float_ext this

theorem floatsOKB_complete {code : Code} (h : FloatsOK code) : floatsOKB code = true := by
  unfold floatsOKB
  simp only [List.all_eq_true, List.mem_range]
  intro k1 _ k2 _
  split
  · rename_i x y h1 h2
    cases he : floatEq x.toBits.toNat y.toBits.toNat with
    | false => rfl
    | true =>
      have := h k1 k2 x y h1 h2 he
      subst this
      simp
  · rfl

/-- **`FloatsOK` is decidable** (in this toolchain): it is what `floatsOKB` computes. -/
theorem floatsOKB_iff {code : Code} : floatsOKB code = true ↔ FloatsOK code :=
  ⟨floatsOKB_sound, floatsOKB_complete⟩

/-- **No `-0.0` constant suffices**: the only floats Go's `==` identifies without being the same float are
`+0` and `-0`. (Equal float constants — the compiler creates one per literal occurrence — are merged, and
`FloatsOK` still holds.) -/
theorem noNegZeroB_sound {code : Code} (h : noNegZeroB code = true) : FloatsOK code := by
  intro k1 k2 x y h1 h2 he
  unfold noNegZeroB at h
  simp only [List.all_eq_true] at h
  have m1 : Const.val (.float x) ∈ code.consts.toList :=
    List.mem_iff_getElem?.mpr ⟨k1, by rw [Array.getElem?_toList]; exact h1⟩
  have m2 : Const.val (.float y) ∈ code.consts.toList :=
    List.mem_iff_getElem?.mpr ⟨k2, by rw [Array.getElem?_toList]; exact h2⟩
  have n1 := h _ m1
  have n2 := h _ m2
  simp only [bne_iff_ne, ne_eq] at n1 n2
  rcases floatEq_cases he with e | ⟨z1, z2⟩
  · exact e
  · apply float_bits_inj
    rcases isZero_cases z1 with a | a
    · rcases isZero_cases z2 with b | b
      · rw [a, b]
      · exact absurd b n2
    · exact absurd a n1

/-! ## 3. Without a float hypothesis: what `expandVals` changes -/

/-- `v0` stands for `v`: the same value, or both are float zeros (`+0` / `-0`). -/
def ValUpToZero (v0 v : Value) : Prop :=
  v0 = v ∨ ∃ x y, v = .float x ∧ v0 = .float y ∧ isZero x.toBits.toNat = true ∧ isZero y.toBits.toNat = true

/-- The same constant, up to the sign of a float zero. -/
def ConstUpToZero : Const → Const → Prop
  | .val v0, .val v => ValUpToZero v0 v
  | .fn f0 r0, .fn f r => f0 = f ∧ r0 = r
  | _, _ => False

theorem ValUpToZero.refl (v : Value) : ValUpToZero v v := Or.inl rfl

/-- Two value constants whose abstract entries have equal keys (refinement of `merged_consts`: no hypothesis
on floats, and the conclusion says what can differ). -/
theorem merged_vals {ptr : Nat → Nat} {k i0 : Nat} {v v0 : Value} {kc kd : Key}
    (hkc : (toDconst ptr k (.val v)).key = some kc) (hkd : (toDconst ptr i0 (.val v0)).key = some kd)
    (he : kd.eqv kc = true) : ValUpToZero v0 v := by
  rcases key_eqv_cases hkc hkd he with ⟨f, g, hf, hg, hpg⟩ | ⟨a, b, ha, hb, hfe⟩ | heq
  · exact absurd hf (toDconst_val_notfn _ _ _ _)
  · cases v <;> simp [toDconst] at ha
    cases v0 <;> simp [toDconst] at hb
    subst ha; subst hb
    rename_i x y
    rcases floatEq_cases hfe with e | ⟨z1, z2⟩
    · exact Or.inl (congrArg Value.float e)
    · exact Or.inr ⟨x, y, rfl, rfl, z2, z1⟩
  · left
    cases v <;> simp [toDconst, Dedup.Const.key] at hkc <;>
      cases v0 <;> simp [toDconst] at heq
    all_goals first | (subst heq; rfl) | skip
    rename_i x y
    rw [float_bits_inj heq]

section pool
variable {ptr : Nat → Nat} {code : Code} {bc' : Dedup.Bytecode} {m : List Nat}

/-- Refinement of `pool_val`: the value constant at the new index of value constant `k` is `k`'s value up to
the sign of a float zero — with no hypothesis on floats. -/
theorem pool_val_same (hd : dedup (toDedup ptr code) = .ok (bc', m)) {k : Nat} {v : Value}
    (hk : code.consts[k]? = some (.val v)) :
    ∃ j v0, m[k]? = some j ∧ j < bc'.consts.length ∧ (renumCode code bc' m).consts[j]? = some (.val v0) ∧
      ValUpToZero v0 v := by
  obtain ⟨hm, _, hall, _⟩ := dedup_unfold hd
  subst hm
  obtain ⟨_, hget, _⟩ := rewriteAll_get _ _ _ hall
  have hck : (toDedup ptr code).consts[k]? = some (toDconst ptr k (.val v)) := by rw [toDedup_get, hk]; rfl
  obtain ⟨j, i0, d, h1, h2, h3, h4, h5⟩ := scan_origin _ k _ hck
  rw [toDedup_get] at h3
  cases h0 : code.consts[i0]? with
  | none => rw [h0] at h3; cases h3
  | some c0 =>
    rw [h0] at h3
    simp only [Option.map_some, Option.some.injEq] at h3
    subst h3
    obtain ⟨d', h6, h7⟩ := hget j _ h2
    have hj : j < bc'.consts.length := (List.getElem?_eq_some_iff.mp h6).1
    have hval : ∃ v0, c0 = .val v0 ∧ ValUpToZero v0 v := by
      rcases h5 with h5 | ⟨_, kc, kd, h8, h9, h10⟩
      · subst h5
        rw [hk] at h0
        cases h0
        exact ⟨v, rfl, ValUpToZero.refl v⟩
      · cases c0 with
        | val v0 => exact ⟨v0, rfl, merged_vals h8 h9 h10⟩
        | fn f r =>
          exfalso
          rcases key_eqv_cases h8 h9 h10 with ⟨f', g, hf, _, _⟩ | ⟨a, b, _, hb, _⟩ | heq
          · exact absurd hf (toDconst_val_notfn _ _ _ _)
          · simp [toDconst] at hb
          · exact absurd heq (toDconst_val_notfn _ _ _ _)
    obtain ⟨v0, rfl, hs⟩ := hval
    refine ⟨j, v0, h1, hj, ?_, hs⟩
    rw [renum_get _ _ _ _ hj]
    simp only [renumConst, h4, h0]

end pool

/-- **What `expandVals` changes.** For a program that meets `DedupPre` and its de-duplicated form `(code', m)`:
`expandVals code code' m` has the same main function and as many constants as `code`, and constant `k` is
constant `k` of `code` — except that a float zero may have become the float zero of the other sign. -/
theorem expand_const {ptr : Nat → Nat} {code code' : Code} {m : List Nat}
    (hd : dedupCode ptr code = some (code', m)) :
    (expandVals code code' m).main = code.main ∧
    (expandVals code code' m).consts.size = code.consts.size ∧
    ∀ (k : Nat) (c : Const), code.consts[k]? = some c →
      ∃ c', (expandVals code code' m).consts[k]? = some c' ∧ ConstUpToZero c' c := by
  obtain ⟨bc', hd', rfl⟩ := dedupCode_some hd
  refine ⟨rfl, by simp [expandVals], ?_⟩
  intro k c hk
  cases c with
  | fn f r =>
    refine ⟨.fn f r, ?_, rfl, rfl⟩
    simp only [expandVals, Array.getElem?_mapIdx, hk, Option.map_some]
  | val v =>
    obtain ⟨j, v0, h1, _, h3, hs⟩ := pool_val_same hd' hk
    refine ⟨.val v0, ?_, hs⟩
    simp only [expandVals, Array.getElem?_mapIdx, hk, Option.map_some, cmOf_get _ h1, h3]

/-- With `FloatsOK` nothing changes at all. -/
theorem expand_eq_self {ptr : Nat → Nat} {code code' : Code} {m : List Nat} (hp : PtrOK ptr code)
    (hfl : FloatsOK code) (hd : dedupCode ptr code = some (code', m)) : expandVals code code' m = code := by
  obtain ⟨bc', hd', rfl⟩ := dedupCode_some hd
  have hv := dedup_code_vals hp hfl hd'
  unfold expandVals
  congr 1
  apply Array.ext_getElem?
  intro k
  rw [Array.getElem?_mapIdx]
  cases hk : code.consts[k]? with
  | none => rfl
  | some c =>
    simp only [Option.map_some, Option.some.injEq]
    cases c with
    | fn f r => rfl
    | val v =>
      cases hc2 : (renumCode code bc' m).consts[cmOf m (renumCode code bc' m).consts.size k]? with
      | none => rfl
      | some c' =>
        cases c' with
        | fn f r => rfl
        | val v' =>
          show Const.val v' = Const.val v
          rw [hv k v v' hk hc2]

end Tengo.Proofs.C12Source

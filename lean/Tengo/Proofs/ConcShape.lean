import Tengo.Gen.RunContextShape
/-!
The source shape the protocol model `Tengo.Model.Conc` transcribes: what the extractor reads from
script.go / vm.go NOW (`gen…`) and what the model was written against (`expect…`). The equalities are
theorems of `Props/C05.lean` and `Props/C07.lean`.
-/
namespace Tengo.Proofs.ConcShape
open Tengo.Gen.RunContextShape

/-- Skeleton of `Compiled.RunContext`. -/
structure RcShape where
  lockFirst : Bool
  deferUnlock : Bool
  newVMPerCall : Bool
  chanCap : Option Nat
  goStatements : Nat
  goBody : List String
  recoverGuard : Bool
  recoverCases : List (String × Bool)
  selectCases : List String
  ctxBranch : List String
  chBranch : List String
  afterSelect : List String
  namedResult : Bool
  compiledRun : List String
  deriving DecidableEq, Repr

def genRc : RcShape :=
  { lockFirst := rcLockFirst, deferUnlock := rcDeferUnlock, newVMPerCall := rcNewVMPerCall, chanCap := rcChanCap,
    goStatements := rcGoStatements, goBody := rcGoBody, recoverGuard := rcRecoverGuard,
    recoverCases := rcRecoverCases, selectCases := rcSelectCases, ctxBranch := rcCtxBranch,
    chBranch := rcChBranch, afterSelect := rcAfterSelect, namedResult := rcNamedResult,
    compiledRun := compiledRun }

/-- What `Model/Conc.lean` transcribes: Lock first, deferred Unlock, a fresh VM per call, a result channel
of capacity 1, one goroutine whose deferred function recovers and sends in every clause and whose body
sends `v.Run()`, a two-way select, and `Abort; <-ch; err = ctx.Err()` in the `ctx.Done()` branch. -/
def expectRc : RcShape :=
  { lockFirst := true, deferUnlock := true, newVMPerCall := true, chanCap := some 1,
    goStatements := 1, goBody := ["defer-func", "send ch v.Run()"], recoverGuard := true,
    recoverCases := [("string", true), ("error", true), ("default", true)],
    selectCases := ["recv ctx.Done()", "recv-into err ch"],
    ctxBranch := ["call v.Abort", "recv ch", "assign err ctx.Err()"],
    chBranch := [], afterSelect := ["return"], namedResult := true,
    compiledRun := ["call c.lock.Lock", "defer c.lock.Unlock", "new-vm", "return v.Run()"] }

/-- Dispatch loop, `Abort`, `Run` of the VM. -/
structure VmShape where
  loopHead : String
  loopHasInitOrPost : Bool
  loopContinues : List String
  labelledBreaks : List String
  labelsAndGotos : Nat
  nestedLoopsBounded : Bool      -- every loop nested in a case is counted or a range: no inner unbounded loop
  suspendAndDefaultReturn : Bool
  abortingWrites : List (String × String)
  runCallsRunOnce : Bool
  runClearsFlagAfterRun : Bool
  deriving DecidableEq, Repr

def genVm : VmShape :=
  { loopHead := loopHead, loopHasInitOrPost := loopHasInitOrPost, loopContinues := loopContinues,
    labelledBreaks := loopLabelledBreaks, labelsAndGotos := loopLabelsAndGotos,
    nestedLoopsBounded := nestedLoops.all (fun p => p.2 == "counted" || p.2 == "range"),
    suspendAndDefaultReturn := returnCases.contains "parser.OpSuspend" && returnCases.contains "default",
    abortingWrites := abortingWrites, runCallsRunOnce := vmRunCallsRunOnce,
    runClearsFlagAfterRun := vmRunClearsFlagAfterRun }

/-- The loop head polls the flag before EVERY instruction (no init/post statement, the only `continue`
— the self tail call in `OpCall` — targets this loop, no labels/gotos, no unbounded inner loop), the flag
is written only by `Abort` (1) and by `Run` after `run()` (0). -/
def expectVm : VmShape :=
  { loopHead := "atomic.LoadInt64(&v.aborting) == 0", loopHasInitOrPost := false,
    loopContinues := ["parser.OpCall"], labelledBreaks := [], labelsAndGotos := 0,
    nestedLoopsBounded := true, suspendAndDefaultReturn := true,
    abortingWrites := [("VM.Abort", "atomic.StoreInt64(&v.aborting, 1)"),
                       ("VM.Run", "atomic.StoreInt64(&v.aborting, 0)")],
    runCallsRunOnce := true, runClearsFlagAfterRun := true }

end Tengo.Proofs.ConcShape

import Tengo.Proofs.C02CompileRun
import Tengo.Proofs.C12Renum
/-!
C12 at the source level, part 1: **whatever the compiler model emits meets the precondition `DedupPre` of the
universal de-duplication theorems** (`Tengo.Props.C12Univ`).

`compile_verifies` only gives *some* tables accepted by `checkProgram`, and `checkProgram` says nothing about
instructions the height table does not reach, nor about function constants no instruction refers to (a
function literal after a `return` is compiled, its constant stays in the pool, the CLOSURE that names it is
removed as dead code). `DedupPre` speaks about EVERY function constant and EVERY decoded instruction
(`updateConstIndexes` rewrites them all), so it is derived here from the structural facts of the C02Compile
development instead: every function constant is the optimizer's output for a closed block (`ConstsOK`,
`opt_transfer`: `Closed H' r.insts` — every abstract successor of every instruction is an instruction start),
the main function is a closed block followed by SUSPEND (`main_closed`), and every instruction of the final
code meets the operand requirement `opReq` (`fn_final_req`, `main_final_req`).

1. `Closed H is` → jumps land on instructions, fall-through stays inside (`closed_jumps`, `closed_fall`).
2. `fnPre_of_closed`: a decoded, closed, non-empty function with `opReq` operands meets `FnPre`.
3. `compiled_dedup_pre_R` / `compiled_dedup_pre`: `DedupPre id (toCodeR refs bc)`, `DedupPre id (initFobjs (toCode bc)).1`.
-/
set_option linter.unusedVariables false
set_option linter.unusedSimpArgs false
namespace Tengo.Proofs.C12Source
open Tengo.Model Tengo.Model.Opcodes Tengo.Model.Compiler Tengo.Model.Optimizer Tengo.Model.Verifier
open Tengo.Model.Spec (Expr Stmt)
open Tengo.Proofs.C03 Tengo.Proofs.C03Reloc Tengo.Proofs.C02Compile Tengo.Proofs.C12Renum
open Tengo.Model.VM (Code Fn canFallB initFobjs)

/-! ## 1. What `Closed` says about jumps and fall-through -/

/-- a jump's abstract successors contain its target -/
theorem succs_jump_mem {i : Instr} {h : Nat} {l : List (Nat × Nat)} (hj : isJump i.op = true)
    (hs : succs i h = some l) : ∃ h', (i.args.headD 0, h') ∈ l := by
  have hne : (i.op == opReturn) = false ∧ (i.op == opSuspend) = false := by
    simp only [isJump, Bool.or_eq_true, beq_iff_eq] at hj
    rcases hj with ((e | e) | e) | e <;> rw [e] <;> exact ⟨rfl, rfl⟩
  unfold succs at hs
  simp only [hne.1, hne.2, Bool.false_eq_true, if_false] at hs
  split at hs
  · injection hs with hs; subst hs; exact ⟨h, List.mem_cons_self⟩
  · split at hs
    · split at hs
      · cases hs
      · injection hs with hs; subst hs; exact ⟨h - 1, List.mem_cons_self⟩
    · split at hs
      · split at hs
        · cases hs
        · injection hs with hs; subst hs; exact ⟨h, List.mem_cons_self⟩
      · rename_i h1 h2 h3
        exfalso
        simp only [isJump, Bool.or_eq_true] at hj
        rcases hj with ((e | e) | e) | e
        · exact h1 e
        · exact h2 e
        · exact h3 (by simp [e])
        · exact h3 (by simp [e])

/-- an instruction that can fall through has its successor position among its abstract successors -/
theorem succs_fall_mem {i : Instr} {h : Nat} {l : List (Nat × Nat)} (hc : canFallB i.op = true)
    (hs : succs i h = some l) : ∃ h', (i.pos + i.size, h') ∈ l := by
  unfold canFallB at hc
  simp only [Bool.and_eq_true, bne_iff_ne, ne_eq] at hc
  obtain ⟨⟨h1, h2⟩, h3⟩ := hc
  have e1 : (i.op == opReturn) = false := by simpa using h1
  have e2 : (i.op == opJump) = false := by simpa using h2
  have e3 : (i.op == opSuspend) = false := by simpa using h3
  unfold succs at hs
  simp only [e1, e2, e3, Bool.false_eq_true, if_false] at hs
  split at hs
  · split at hs
    · cases hs
    · injection hs with hs; subst hs; exact ⟨h - 1, by simp⟩
  · split at hs
    · split at hs
      · cases hs
      · injection hs with hs; subst hs; exact ⟨h - 1, by simp⟩
    · split at hs
      · rename_i pops pushes he
        split at hs
        · cases hs
        · injection hs with hs; subst hs; exact ⟨h - pops + pushes, List.mem_cons_self⟩
      · cases hs

theorem closed_jumps {H : Nat → Nat} {bs : Bytes} {is : List Instr} (hd : decode bs = some is) (hcl : Closed H is) :
    ∀ i ∈ is, isJump i.op = true → ∃ j ∈ is, i.args.head? = some j.pos := by
  intro i hi hj
  obtain ⟨l, hl, hq⟩ := hcl i hi
  obtain ⟨h', hm⟩ := succs_jump_mem hj hl
  obtain ⟨⟨j, hjm, hjp⟩, _⟩ := hq _ hm
  obtain ⟨b0, b1, b2, b3, _, _, _, _, ha⟩ := decode_mem_op32 bs is hd i hi (widths_jump hj)
  refine ⟨j, hjm, ?_⟩
  rw [ha] at hjp ⊢
  simpa using hjp.symm

theorem closed_fall {H : Nat → Nat} {is : List Instr} (hcl : Closed H is) :
    ∀ i ∈ is, canFallB i.op = true → ∃ j ∈ is, j.pos = i.pos + i.size := by
  intro i hi hc
  obtain ⟨l, hl, hq⟩ := hcl i hi
  obtain ⟨h', hm⟩ := succs_fall_mem hc hl
  obtain ⟨⟨j, hjm, hjp⟩, _⟩ := hq _ hm
  exact ⟨j, hjm, hjp⟩

/-! ## 2. One function -/

/-- the first operand of a decoded CONST / CLOSURE instruction exists -/
theorem constRef_head {bs : Bytes} {is : List Instr} (hd : decode bs = some is) {i : Instr} (hi : i ∈ is)
    (hc : Dedup.isConstRef i.op = true) : i.args.head? = some (arg0 i) := by
  rcases Tengo.Props.C12.isConstRef_cases hc with e | e
  · obtain ⟨b0, b1, _, _, ha⟩ := decode_mem_op16 bs is hd i hi (by rw [e]; exact Tengo.Props.C12.widths_const)
    rw [arg0, ha]; rfl
  · obtain ⟨b0, b1, b2, _, _, _, ha⟩ :=
      decode_mem_op16_8 bs is hd i hi (by rw [e]; exact Tengo.Props.C12.widths_closure)
    rw [arg0, ha]; rfl

/-- A function of the compiled program — decoded instructions `is`, closed for some height function, not empty,
operands meeting `opReq` (SUSPEND excepted: the last instruction of main) — meets `FnPre`. -/
theorem fnPre_of_closed (refs : Nat → Nat) (bc : Bytecode') (F : List Nat) (env : C02Compile.Env) (f : Fn)
    (is : List Instr) (H : Nat → Nat) (hd : decode f.insts.toList = some is) (hfirst : ∃ i ∈ is, i.pos = 0)
    (hcl : Closed H is) (hreq : ∀ y ∈ is, y.op = opSuspend ∨ opReq bc.consts F env y) :
    FnPre (toCodeR refs bc) f is := by
  have hsize : (toCodeR refs bc).consts.size = bc.consts.length := by simp [toCodeR]
  refine ⟨hd, ?_, ?_, ?_, closed_jumps hd hcl, closed_fall hcl⟩
  · obtain ⟨i, hi, _⟩ := hfirst
    intro he; rw [he] at hi; cases hi
  · intro i hi hc
    refine ⟨arg0 i, constRef_head hd hi hc, ?_⟩
    rw [hsize]
    rcases hreq i hi with hs | hr
    · exfalso
      rcases Tengo.Props.C12.isConstRef_cases hc with e | e <;> rw [e] at hs <;> exact absurd hs (by decide)
    · unfold opReq at hr
      rcases Tengo.Props.C12.isConstRef_cases hc with e | e
      · have hcl' : opClass i.op = .const := by rw [e]; rfl
        simp only [hcl'] at hr
        obtain ⟨c, hc1, _⟩ := hr
        exact get?_lt hc1
      · have hcl' : opClass i.op = .closure := by rw [e]; rfl
        simp only [hcl'] at hr
        obtain ⟨c, hc1, _⟩ := hr
        exact get?_lt hc1
  · intro i hi ho
    rcases hreq i hi with hs | hr
    · rw [ho] at hs; exact absurd hs (by decide)
    · unfold opReq at hr
      have hcl' : opClass i.op = .closure := by rw [ho]; rfl
      simp only [hcl'] at hr
      obtain ⟨c, hc1, hc2, _⟩ := hr
      have : (toCodeR refs bc).consts[i.args.headD 0]? = some (toVMConst (refs (arg0 i)) c) := by
        rw [toCode_const]; show (bc.consts[arg0 i]?).map _ = _; rw [hc1]; rfl
      cases c with
      | fn code nl np va => exact ⟨_, _, this⟩
      | _ => cases hc2

/-! ## 3. The whole program -/

/-- the final code of every function constant: decoded, closed, not empty -/
theorem fn_const_closed {bc : Bytecode'} {F : List Nat} (hcok : ConstsOK bc.consts F bc.maxGlobals)
    (hclen : bc.consts.length ≤ 65536) (hgle : bc.maxGlobals ≤ 65536)
    {k : Nat} {code : Bytes} {nl np : Nat} {va : Bool} (hk : bc.consts[k]? = some (Compiler.Const.fn code nl np va)) :
    ∃ (is : List Instr) (H : Nat → Nat), decode code = some is ∧ (∃ i ∈ is, i.pos = 0) ∧ Closed H is := by
  obtain ⟨n, hFk, Lb, H, r, hlay, hshape, hopt, hcode, hcore, hops, hnl, hn, hsz⟩ := hcok k code nl np va hk
  have hbnd : Bnd bc.consts ⟨nl, n, bc.maxGlobals, true⟩ := ⟨hclen, hnl, by show n ≤ 256; omega, hgle⟩
  have hdec : decode (encode Lb) = some Lb := core_decode hcore hshape hops hbnd (by omega)
  have hlen : (encode Lb).length = totalSize Lb := encode_length hshape
  have hcore' : Core 0 (encode Lb).length 0 0 H Lb NoT := by rw [hlen]; exact hcore
  obtain ⟨H', hd', _, hfirst, hclosed, _⟩ := opt_transfer hdec (by rw [hlen]; omega) hopt hcore'
  exact ⟨r.insts, H', by rw [hcode]; exact hd', hfirst, hclosed⟩

/-- **compiled_dedup_pre_R.** Whatever the compiler model emits (within the operand-width bounds), with any
heap identities `refs` of its function constants, meets the precondition of the universal de-duplication
theorems with all function constants distinct pointers (`ptr = id`: the compiler creates a fresh
`*CompiledFunction` per function literal). -/
theorem compiled_dedup_pre_R {ss : List Stmt} {inputs : List String} {bc : Bytecode'}
    (h : compileFile ss inputs = .ok bc) (hsz : szSs fuel ss < 2 ^ 30)
    (hclen : bc.consts.length ≤ 65536) (hgle : bc.maxGlobals ≤ 65536) (refs : Nat → Nat) :
    DedupPre id (toCodeR refs bc) := by
  obtain ⟨s, B, F, H, t', hmain, hcs, htab, hG, hinv, hcore, hszB⟩ := compile_run h hsz
  have hwfc := hinv.wfc
  rw [htab] at hwfc
  have hblock : t'.block = false := hwfc
  have henv : C02Compile.envOf s.tables = ⟨0, 0, bc.maxGlobals, false⟩ := by
    rw [htab, hG]
    simp [C02Compile.envOf, locMax, freeCnt, rootMax, globalCtx, hblock]
  have hops : ∀ i ∈ B, opReq bc.consts F ⟨0, 0, bc.maxGlobals, false⟩ i := by
    intro i hi
    have := hinv.ops i hi
    rw [henv, ← hcs] at this
    exact this
  have hcok : ConstsOK bc.consts F bc.maxGlobals := by
    have := hinv.cok
    rw [htab, ← hcs] at this
    rw [hG]; exact this
  have hsize : (toCodeR refs bc).consts.size = bc.consts.length := by simp [toCodeR]
  refine ⟨by rw [hsize]; exact hclen, ?_, ?_⟩
  · intro idx f hf
    cases idx with
    | zero =>
      have hfm : f = (toCodeR refs bc).main := by
        have : (toCodeR refs bc).fn 0 = some (toCodeR refs bc).main := by simp [Code.fn]
        rw [this] at hf; exact (Option.some.inj hf).symm
      subst hfm
      have hbnd : Bnd bc.consts ⟨0, 0, bc.maxGlobals, false⟩ := ⟨hclen, by simp, by simp, hgle⟩
      have hwf : WFCode B := core_wf hcore hinv.em.shape hops hbnd (by omega)
      have hdec := main_decode hcore.lay hwf
      have hlay : Layout 0 (B ++ [suspI (totalSize B)]) := layout_append_single hcore.lay (by simp [suspI])
      have hd : decode (toCodeR refs bc).main.insts.toList = some (B ++ [suspI (totalSize B)]) := by
        show decode bc.main.toArray.toList = _
        simp only [hmain]; exact hdec
      have hd' : decode bc.main = some (B ++ [suspI (totalSize B)]) := by rw [hmain]; exact hdec
      exact ⟨_, fnPre_of_closed refs bc F ⟨0, 0, bc.maxGlobals, false⟩ _ _ H hd
        (layout_head_pos hlay (by simp)) (main_closed hcore)
        (main_final_req hmain hinv.em.shape hops hcore hszB hclen hgle hd')⟩
    | succ k =>
      obtain ⟨r, hc⟩ := fn_succ_inv hf
      rw [toCode_const] at hc
      cases hbc : bc.consts[k]? with
      | none => rw [hbc] at hc; cases hc
      | some c =>
        rw [hbc] at hc
        simp only [Option.map_some, Option.some.injEq] at hc
        cases c with
        | fn code nl np va =>
          simp only [toVMConst, VM.Const.fn.injEq] at hc
          obtain ⟨hc, _⟩ := hc
          subst hc
          obtain ⟨is, H', hd, hfirst, hclosed⟩ := fn_const_closed hcok hclen hgle hbc
          have hreq := fn_final_req hcok hclen hgle hbc hd
          exact ⟨is, fnPre_of_closed refs bc F _ _ is H' (by simpa using hd) hfirst hclosed
            (fun y hy => Or.inr (hreq y hy))⟩
        | _ => simp [toVMConst] at hc
  · intro k1 k2 f1 r1 f2 r2 h1 h2 hp
    have : k1 = k2 := hp
    subst this
    rw [h1] at h2
    cases h2
    exact ⟨rfl, rfl⟩

/-- … for the program as the driver runs it (`initFobjs` assigns the heap identities). -/
theorem compiled_dedup_pre {ss : List Stmt} {inputs : List String} {bc : Bytecode'}
    (h : compileFile ss inputs = .ok bc) (hsz : szSs fuel ss < 2 ^ 30)
    (hclen : bc.consts.length ≤ 65536) (hgle : bc.maxGlobals ≤ 65536) :
    DedupPre id (initFobjs (toCode bc)).1 := by
  obtain ⟨refs, he⟩ := initFobjs_toCode bc
  rw [he]
  exact compiled_dedup_pre_R h hsz hclen hgle refs

/-! ## 4. The value constants do not depend on the heap identities -/

/-- the value constants of the compiled program are the same whatever identities its function constants get -/
theorem toCodeR_val (refs : Nat → Nat) (bc : Bytecode') (k : Nat) (v : Spec.Value) :
    (toCodeR refs bc).consts[k]? = some (VM.Const.val v) ↔ (toCode bc).consts[k]? = some (VM.Const.val v) := by
  unfold toCode
  rw [toCode_const, toCode_const]
  cases bc.consts[k]? with
  | none => simp
  | some c => cases c <;> simp [toVMConst]

theorem floatsOK_toCodeR {bc : Bytecode'} (hfl : FloatsOK (toCode bc)) (refs : Nat → Nat) :
    FloatsOK (toCodeR refs bc) :=
  fun k1 k2 x y h1 h2 he =>
    hfl k1 k2 x y ((toCodeR_val refs bc k1 _).mp h1) ((toCodeR_val refs bc k2 _).mp h2) he

/-- `FloatsOK` of the compiled pool carries over to the program as the driver runs it. -/
theorem floatsOK_initFobjs {bc : Bytecode'} (hfl : FloatsOK (toCode bc)) : FloatsOK (initFobjs (toCode bc)).1 := by
  obtain ⟨refs, he⟩ := initFobjs_toCode bc
  rw [he]
  exact floatsOK_toCodeR hfl refs

theorem initFobjs_size (bc : Bytecode') : (initFobjs (toCode bc)).1.consts.size = bc.consts.length := by
  obtain ⟨refs, he⟩ := initFobjs_toCode bc
  rw [he]
  simp [toCodeR]

end Tengo.Proofs.C12Source
